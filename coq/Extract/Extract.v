(* Extraction of the executable model to OCaml for the correspondence run.
   Only ExtrOcamlBasic: bool, option, unit, list, prod, sumbool, sumor map to
   OCaml's own; N, positive, nat, ascii, string, comparison stay Coq datatypes. *)
Require Extraction.
Require ExtrOcamlBasic.
From RC Require Import Base.Res Base.Wire Model.Enums Gen.EnumTables Gen.Merge Model.Open Model.Negotiate Gen.CmpChain Model.Select Model.Nlri Model.NlriOrd Model.AsPath Gen.AttrRules Model.Attr Model.Update Gen.BuilderConsts Model.Builder Model.PaMap Gen.CapRules Model.OpenMsg Gen.FsmTable Model.Fsm Base.Text Gen.CommTables Model.Comm Gen.TimerConsts Model.Timer Model.Bmp Model.Mrt.
Extraction Language OCaml.
Set Extraction KeepSingleton.
Extraction "../ocaml/model.ml"
  Enums.of_int Enums.to_int Enums.afisafi_of Enums.afisafi_to Enums.afisafi_bytes Enums.afisafi_afi
  Enums.nlritype_of Enums.nlritype_afisafi Enums.details_of Enums.details_raw
  EnumTables.all_enums EnumTables.afisafi_table EnumTables.afisafi_names EnumTables.te_afi
  EnumTables.te_afi_names EnumTables.details_error_code EnumTables.details_table EnumTables.details_names EnumTables.details_sub_keys
  Open.open_caps Negotiate.addpath_intersection Negotiate.session_config Negotiate.pph_session_config
  Negotiate.live_session_config Negotiate.get_addpath Negotiate.rx_addpath Negotiate.addpath_families_vec
  Select.cmp_route Select.eligible Select.content_eqb Select.route_lt Select.best Select.best_backup
  Select.best_backup_idx Select.best_backup_generic
  Wire.parser_of Nlri.parse_nlri Nlri.compose_nlri Nlri.compose_len Nlri.nlri_iter
  NlriOrd.nlri_eqb NlriOrd.nlri_cmp NlriOrd.prefix_cmp NlriOrd.hash_input
  AsPath.to_as_path AsPath.wire_hops AsPath.wire_segments AsPath.as_path_check AsPath.try_to_asn16_path
  AsPath.as_path_prepend AsPath.segs_eqb AsPath.path_hash AsPath.hop_count_path_selection
  Wire.unbe Attr.compose Attr.compose_len Attr.wire_attr_parse Attr.to_owned Attr.wattr_code Attr.wattr_flags
  Attr.attr_code Attr.has_ext
  Wire.be Update.parse_update Update.a_length Update.a_withdrawn_routes_len Update.a_total_path_attribute_len
  Update.a_path_attributes Update.a_origin Update.a_u32 Update.a_aspath Update.a_as4path Update.a_atomic Update.a_aggregator
  Update.a_communities Update.a_conv_withdrawals Update.a_conv_announcements Update.a_mp_withdrawals Update.a_mp_announcements
  Update.a_withdrawals_vec Update.a_announcements_vec Update.a_withdrawals Update.a_announcements Update.a_is_eor
  Update.a_mp_next_hop Update.a_conventional_next_hop Update.a_find_next_hop Update.a_has_conventional_nlri Update.a_has_mp_nlri Update.a_pamap Update.pamap_bytes_len Update.range_len Update.fam_of
  Builder.take_message Builder.into_message Builder.into_messages Builder.pdu_iter Builder.add_announcement
  Builder.add_withdrawal Builder.set_nexthop Builder.empty_builder Builder.bsize Builder.from_update_message
  Builder.add_announcements_from_pdu Builder.add_withdrawals_from_pdu Builder.owned_all Builder.compose_all
  Builder.pamap_compose Builder.fam_code Update.attrs_walk Update.pamap_insert
  PaMap.pm_set PaMap.pm_get PaMap.pm_remove PaMap.pm_add_attribute PaMap.pm_set_from_enum PaMap.pm_merge_upsert
  PaMap.pm_remove_non_transitives PaMap.opa_get PaMap.ws_set_attr PaMap.ws_get_attr PaMap.ws_set_communities
  PaMap.ws_get_communities PaMap.ws_from_pdu PaMap.comm_width Builder.typed_announcements
  OpenMsg.open_check OpenMsg.o_version OpenMsg.o_holdtime OpenMsg.o_identifier OpenMsg.o_opt_parm_len OpenMsg.o_parameters
  OpenMsg.o_capabilities OpenMsg.o_my_asn OpenMsg.o_four_octet_capable OpenMsg.o_multiprotocol_ids OpenMsg.o_addpath_families
  OpenMsg.o_software_version OpenMsg.notif_check OpenMsg.n_code OpenMsg.n_subcode OpenMsg.n_data OpenMsg.notif_build
  OpenMsg.keepalive_check OpenMsg.keepalive_build OpenMsg.rr_parse OpenMsg.msg_dispatch OpenMsg.ob_new OpenMsg.ob_set_asn
  OpenMsg.ob_add_cap OpenMsg.ob_four_octet OpenMsg.ob_add_mp OpenMsg.ob_add_addpath OpenMsg.ob_finish Wire.index
  Fsm.fsm_step Fsm.handle_msg Fsm.tick_msg Fsm.init Fsm.dummy_open Fsm.sent_open_caps Fsm.parse_frame Fsm.feed Fsm.read_frame Fsm.read_all Fsm.read_message Fsm.attach_stream Fsm.upd_st Fsm.upd_conn Fsm.push_app Negotiate.get_addpath
  Negotiate.sc_modern
  Mrt.rib_entries Mrt.tables Mrt.messages
  Comm.comm_from_raw Comm.comm_raw Comm.comm_display Comm.comm_from_str Comm.comm_asn Comm.comm_to_wellknown
  Comm.std_display Comm.std_from_str Comm.std_is_wellknown Comm.std_is_reserved Comm.std_is_private Comm.std_to_wellknown
  Comm.wk_to_u32 Comm.wk_from_str Comm.std_asn Comm.std_tag Comm.ext_display Comm.ext_from_str Comm.ext_types
  Comm.ext_is_transitive Comm.ext_as2 Comm.ext_as4 Comm.ext_ip4 Comm.ext_an2 Comm.ext_an4 Comm.large_display
  Comm.large_from_str Comm.v6_display Comm.v6_from_str Comm.v6_is_transitive Comm.octs
  Timer.tstep Timer.t_init Timer.texec
  Bmp.bmp_from_octets Bmp.a_version Bmp.a_msg_length Bmp.a_msg_type Bmp.a_pph Bmp.pph_peer_type Bmp.pph_flags Bmp.pph_distinguisher
  Bmp.pph_address Bmp.pph_asn Bmp.pph_bgp_id Bmp.pph_timestamp Bmp.pph_rib_type Bmp.flag_set Bmp.a_bgp_update Bmp.a_stats_count
  Bmp.a_stats Bmp.a_pd_reason Bmp.a_pd_notification Bmp.a_pd_fsm Bmp.a_pu_local_address Bmp.a_pu_local_port Bmp.a_pu_remote_port
  Bmp.a_pu_opens Bmp.a_pu_open_sent Bmp.a_pu_open_rcvd Bmp.a_pu_information_tlvs Bmp.a_init_tlvs Bmp.a_term_information
  Negotiate.sc_modern
  Mrt.rib_entries Mrt.tables Mrt.messages
  EnumTables.all_enum_widths EnumTables.all_enum_names.
