(* Bytes, big-endian integers and the octseq::Parser operations routecore uses.

   A parser value is the list of octets still in front of it ([pos..len) of the
   Rust parser) together with its absolute position.  A Rust `seek(saved_pos)`
   back to a position saved earlier on the same parser is modelled by keeping
   the earlier parser value (parsers are Copy in Rust too). *)
From Coq Require Import List NArith Bool Lia.
From RC Require Import Base.Res.
Import ListNotations.
Open Scope N_scope.

Definition bytes := list N.

Definition wf_byte (b : N) : bool := b <? 256.
Definition wf_bytesb (l : bytes) : bool := forallb wf_byte l.
Definition wf_bytes (l : bytes) : Prop := Forall (fun b => b < 256) l.

Lemma wf_bytesb_spec l : wf_bytesb l = true <-> wf_bytes l.
Proof.
  unfold wf_bytesb, wf_bytes, wf_byte. rewrite forallb_forall, Forall_forall.
  split; intros H x Hx; specialize (H x Hx); [now apply N.ltb_lt|now apply N.ltb_lt].
Qed.

(* big-endian *)
Fixpoint unbe_acc (acc : N) (l : bytes) : N :=
  match l with
  | [] => acc
  | b :: tl => unbe_acc (acc * 256 + b) tl
  end.
Definition unbe (l : bytes) : N := unbe_acc 0 l.

Fixpoint be (k : nat) (n : N) : bytes :=
  match k with
  | O => []
  | S k' => be k' (n / 256) ++ [n mod 256]
  end.

Record parser := mkP { p_rest : bytes; p_pos : nat }.

Definition parser_of (l : bytes) : parser := mkP l 0.
Definition remaining (p : parser) : nat := length (p_rest p).

Definition take (n : nat) (p : parser) : res (bytes * parser) :=
  if Nat.leb n (remaining p)
  then Ok (firstn n (p_rest p), mkP (skipn n (p_rest p)) (p_pos p + n)%nat)
  else Err.

Definition parse_u8 (p : parser) : res (N * parser) :=
  match p_rest p with
  | [] => Err
  | b :: tl => Ok (b, mkP tl (S (p_pos p)))
  end.

Definition parse_be (k : nat) (p : parser) : res (N * parser) :=
  let* (v, p') := take k p in Ok (unbe v, p').

Definition parse_u16 := parse_be 2.
Definition parse_u32 := parse_be 4.
Definition parse_u64 := parse_be 8.

Definition advance (n : nat) (p : parser) : res parser :=
  let* (_, p') := take n p in Ok p'.

(* parse_parser(len): a sub-parser over the next len octets (same absolute
   position), the outer parser moves past them *)
Definition parse_parser (n : nat) (p : parser) : res (parser * parser) :=
  let* (v, p') := take n p in Ok (mkP v (p_pos p), p').

Definition peek_all (p : parser) : bytes := p_rest p.

(* Rust slice indexing: out of range panics *)
Definition index (l : bytes) (i : nat) : res N :=
  match nth_error l i with Some b => Ok b | None => Panic end.

Definition slice (l : bytes) (lo hi : nat) : res bytes :=
  if Nat.leb lo hi && Nat.leb hi (length l) then Ok (firstn (hi - lo)%nat (skipn lo l)) else Panic.

Definition slice_from (l : bytes) (lo : nat) : res bytes :=
  if Nat.leb lo (length l) then Ok (skipn lo l) else Panic.

(* usize subtraction: panics on underflow with overflow checks *)
Definition sub_chk (a b : nat) : res nat := if Nat.leb b a then Ok (a - b)%nat else Panic.

Fixpoint chunks (fuel : nat) (k : nat) (l : bytes) : list bytes :=
  match fuel with
  | O => []
  | S f => match l with
           | [] => []
           | _ => firstn k l :: chunks f k (skipn k l)
           end
  end.

Definition beq_bytes (a b : bytes) : bool :=
  Nat.eqb (length a) (length b) && forallb (fun '(x, y) => x =? y) (combine a b).
