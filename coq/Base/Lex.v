(* Lexicographic combination of comparisons (Rust's Ordering::then_with) *)
From Coq Require Import List NArith Bool.
Import ListNotations.

Definition then_cmp (c : comparison) (k : comparison) : comparison :=
  match c with Eq => k | _ => c end.

Definition cmp_bool (a b : bool) : comparison :=
  match a, b with
  | false, true => Lt
  | true, false => Gt
  | _, _ => Eq
  end.

(* lexicographic comparison of two key vectors *)
Fixpoint lex (a b : list N) : comparison :=
  match a, b with
  | x :: a', y :: b' => then_cmp (N.compare x y) (lex a' b')
  | [], [] => Eq
  | [], _ :: _ => Lt
  | _ :: _, [] => Gt
  end.
