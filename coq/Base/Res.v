(* Three-valued results: every Rust operation that can fail or panic. *)
From Coq Require Import List NArith Bool.
Import ListNotations.

Inductive res (A : Type) : Type :=
| Ok (a : A)
| Err
| Panic.
Arguments Ok {A} a.
Arguments Err {A}.
Arguments Panic {A}.

Definition bind {A B} (r : res A) (f : A -> res B) : res B :=
  match r with Ok a => f a | Err => Err | Panic => Panic end.

Definition rmap {A B} (f : A -> B) (r : res A) : res B :=
  match r with Ok a => Ok (f a) | Err => Err | Panic => Panic end.

Declare Scope res_scope.
Delimit Scope res_scope with res.
Notation "'let*' x ':=' r 'in' k" := (bind r (fun x => k))
  (at level 200, x pattern, r at level 100, k at level 200, right associativity) : res_scope.
Open Scope res_scope.

Definition no_panic {A} (r : res A) : Prop := r <> Panic.
Definition is_ok {A} (r : res A) : bool := match r with Ok _ => true | _ => false end.
Definition is_panic {A} (r : res A) : bool := match r with Panic => true | _ => false end.

Definition of_option {A} (o : option A) : res A :=
  match o with Some a => Ok a | None => Err end.
Definition unwrap {A} (o : option A) : res A :=
  match o with Some a => Ok a | None => Panic end.
(* Rust's `Result::unwrap()` / `expect()` : an error becomes a panic *)
Definition unwrap_res {A} (r : res A) : res A :=
  match r with Ok a => Ok a | _ => Panic end.

Lemma bind_ok {A B} (r : res A) (f : A -> res B) b :
  bind r f = Ok b -> exists a, r = Ok a /\ f a = Ok b.
Proof. destruct r; simpl; intros H; try discriminate. eauto. Qed.

Lemma bind_no_panic {A B} (r : res A) (f : A -> res B) :
  r <> Panic -> (forall a, r = Ok a -> f a <> Panic) -> bind r f <> Panic.
Proof. destruct r; simpl; intros H1 H2; auto; discriminate. Qed.

(* injectivity without the normalisation [injection] / [inversion] perform on the payload *)
Lemma Ok_inj {A} (a b : A) : Ok a = Ok b -> a = b.
Proof. congruence. Qed.
