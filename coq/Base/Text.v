(* Text as lists of ASCII character codes, and the std number printers / parsers routecore's Display and FromStr impls use:
   `{}` of an unsigned integer, `u16/u32::from_str`, `{:02X}` / `{:02x}` / `{:x}` of an octet, `u32/u64::from_str_radix(_, 16)`,
   `str::split_once`, `str::strip_prefix`, ASCII `to_lowercase`, `Ipv4Addr` Display / FromStr.

   Modelled, not verified: these mirror the Rust standard library's documented behaviour (an optional leading '+', a non-empty
   run of digits, overflow is an error; Ipv4Addr::from_str accepts exactly four decimal octets of at most three digits without
   leading zeros).  The correspondence run compares them with the real functions on every generated case.  Only ASCII text is
   modelled (a Rust `str` can hold any Unicode scalar; `to_lowercase` on non-ASCII letters is outside the model). *)
From Coq Require Import List NArith Bool Decimal DecimalN.
Import ListNotations.
Open Scope N_scope.

Definition str := list N.

Fixpoint str_eqb (a b : str) : bool :=
  match a, b with
  | [], [] => true
  | x :: a', y :: b' => (x =? y) && str_eqb a' b'
  | _, _ => false
  end.

Definition lower_c (c : N) : N := if (65 <=? c) && (c <=? 90) then c + 32 else c.
Definition lower (s : str) : str := map lower_c s.

Definition is_digit (c : N) : bool := (48 <=? c) && (c <=? 57).

(* str::split_once(c): around the first occurrence of c *)
Fixpoint split_once (c : N) (s : str) : option (str * str) :=
  match s with
  | [] => None
  | x :: t => if x =? c then Some ([], t)
              else match split_once c t with
                   | Some (a, b) => Some (x :: a, b)
                   | None => None
                   end
  end.

(* str::strip_prefix *)
Fixpoint strip_prefix (p s : str) : option str :=
  match p, s with
  | [], _ => Some s
  | x :: p', y :: s' => if x =? y then strip_prefix p' s' else None
  | _ :: _, [] => None
  end.

(* the optional sign of uN::from_str / from_str_radix *)
Definition strip_plus (s : str) : str :=
  match s with
  | c :: t => if c =? 43 then t else s
  | [] => s
  end.

(* ---- decimal *)
Fixpoint uint_codes (u : uint) : str :=
  match u with
  | Nil => []
  | D0 u => 48 :: uint_codes u | D1 u => 49 :: uint_codes u | D2 u => 50 :: uint_codes u | D3 u => 51 :: uint_codes u
  | D4 u => 52 :: uint_codes u | D5 u => 53 :: uint_codes u | D6 u => 54 :: uint_codes u | D7 u => 55 :: uint_codes u
  | D8 u => 56 :: uint_codes u | D9 u => 57 :: uint_codes u
  end.

Fixpoint codes_uint (s : str) : option uint :=
  match s with
  | [] => Some Nil
  | c :: t =>
    match codes_uint t with
    | None => None
    | Some u =>
      if c =? 48 then Some (D0 u) else if c =? 49 then Some (D1 u) else if c =? 50 then Some (D2 u)
      else if c =? 51 then Some (D3 u) else if c =? 52 then Some (D4 u) else if c =? 53 then Some (D5 u)
      else if c =? 54 then Some (D6 u) else if c =? 55 then Some (D7 u) else if c =? 56 then Some (D8 u)
      else if c =? 57 then Some (D9 u) else None
    end
  end.

(* `{}` of an unsigned integer *)
Definition dec (n : N) : str := uint_codes (N.to_uint n).

(* uN::from_str for an unsigned type of `bits` bits *)
Definition parse_dec (bits : N) (s : str) : option N :=
  let d := strip_plus s in
  match d with
  | [] => None
  | _ => match codes_uint d with
         | None => None
         | Some u => let n := N.of_uint u in if n <? 2 ^ bits then Some n else None
         end
  end.

(* ---- hexadecimal *)
Definition hexdigit (upper : bool) (d : N) : N := if d <? 10 then 48 + d else if upper then 55 + d else 87 + d.
(* `{:02X}` / `{:02x}` of an octet *)
Definition hex2 (upper : bool) (b : N) : str := [hexdigit upper (b / 16); hexdigit upper (b mod 16)].
(* `{:x}` of an octet: no padding *)
Definition hex_nopad (b : N) : str := if b <? 16 then [hexdigit false b] else hex2 false b.
Definition hexbytes (upper : bool) (l : list N) : str := flat_map (hex2 upper) l.

Definition hexval (c : N) : option N :=
  if (48 <=? c) && (c <=? 57) then Some (c - 48)
  else if (65 <=? c) && (c <=? 70) then Some (c - 55)
  else if (97 <=? c) && (c <=? 102) then Some (c - 87)
  else None.

Fixpoint hex_go (acc : N) (s : str) : option N :=
  match s with
  | [] => Some acc
  | c :: t => match hexval c with Some d => hex_go (acc * 16 + d) t | None => None end
  end.

(* uN::from_str_radix(s, 16) *)
Definition parse_hex (bits : N) (s : str) : option N :=
  let d := strip_plus s in
  match d with
  | [] => None
  | _ => match hex_go 0 d with
         | None => None
         | Some n => if n <? 2 ^ bits then Some n else None
         end
  end.

(* ---- Ipv4Addr *)
Definition ip4_display (l : list N) : str :=
  match l with
  | [a; b; c; d] => dec a ++ [46] ++ dec b ++ [46] ++ dec c ++ [46] ++ dec d
  | _ => []
  end.

(* one octet: 1..3 digits, no leading zero unless it is "0", at most 255 *)
Definition ip4_octet (s : str) : option N :=
  match s with
  | [] => None
  | c :: t =>
    if (3 <? N.of_nat (length s)) then None
    else if (c =? 48) && negb (match t with [] => true | _ => false end) then None
    else if forallb is_digit s then
      match codes_uint s with
      | Some u => let n := N.of_uint u in if n <=? 255 then Some n else None
      | None => None
      end
    else None
  end.

Definition ip4_from_str (s : str) : option (list N) :=
  match split_once 46 s with
  | None => None
  | Some (a, r1) =>
    match split_once 46 r1 with
    | None => None
    | Some (b, r2) =>
      match split_once 46 r2 with
      | None => None
      | Some (c, d) =>
        match ip4_octet a, ip4_octet b, ip4_octet c, ip4_octet d with
        | Some a, Some b, Some c, Some d => Some [a; b; c; d]
        | _, _, _, _ => None
        end
      end
    end
  end.
