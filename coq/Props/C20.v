(* C20 - a session timer never fires early, nor after it was stopped.
   Statements only; proofs live in Proofs/C20Proofs.v.  The model (Model/Timer.v) is the settled system: the timer task reacts
   to a command before time moves on.  A history is a list of operations; its trace records each operation with the time at
   which it was issued and what it returned.  [t_overrun] marks a history in which a second tick fell due while one was still
   waiting to be awaited - the histories the property excludes. *)
From Coq Require Import List NArith Bool.
From RC Require Import Gen.TimerConsts Model.Timer Proofs.C20Proofs.
Import ListNotations.
Open Scope N_scope.

(* a tick is observed no earlier than one full interval after every earlier start and every earlier reset *)
Theorem c20_no_early :
  forall i ops pre o t now inst post, 0 < i ->
    t_overrun (fst (texec i t_init ops)) = false ->
    snd (texec i t_init ops) = pre ++ (o, t, OTick now inst) :: post ->
    forall o' t' ob', In (o', t', ob') pre -> is_anchor o' = true -> t' + i <= now.
Proof. intros i ops pre o t now inst post Hi Hov Htr. exact (proj1 (c20_ticks_proof i ops pre o t now inst post Hi Hov Htr)). Qed.
Check c20_no_early : forall i ops pre o t now inst post, 0 < i ->
    t_overrun (fst (texec i t_init ops)) = false ->
    snd (texec i t_init ops) = pre ++ (o, t, OTick now inst) :: post ->
    forall o' t' ob', In (o', t', ob') pre -> is_anchor o' = true -> t' + i <= now.
Print Assumptions c20_no_early.

(* a tick is observed only while the timer is on: some earlier start has no stop after it, and a full interval has
   elapsed since that start - so after a stop (or before any start) nothing is observed until the timer has been started
   again and a full interval has passed *)
Theorem c20_no_tick_after_stop :
  forall i ops pre o t now inst post, 0 < i ->
    t_overrun (fst (texec i t_init ops)) = false ->
    snd (texec i t_init ops) = pre ++ (o, t, OTick now inst) :: post ->
    exists p1 ts ob p2, pre = p1 ++ (TStart, ts, ob) :: p2 /\
      (forall x, In x p2 -> fst (fst x) <> TStop) /\ ts + i <= now.
Proof. exact c20_after_stop_proof. Qed.
Check c20_no_tick_after_stop : forall i ops pre o t now inst post, 0 < i ->
    t_overrun (fst (texec i t_init ops)) = false ->
    snd (texec i t_init ops) = pre ++ (o, t, OTick now inst) :: post ->
    exists p1 ts ob p2, pre = p1 ++ (TStart, ts, ob) :: p2 /\
      (forall x, In x p2 -> fst (fst x) <> TStop) /\ ts + i <= now.
Print Assumptions c20_no_tick_after_stop.

(* the instant a tick carries is not in the future, and the observation is not before the await was issued *)
Theorem c20_tick_instant :
  forall i ops pre o t now inst post, 0 < i ->
    t_overrun (fst (texec i t_init ops)) = false ->
    snd (texec i t_init ops) = pre ++ (o, t, OTick now inst) :: post ->
    i <= now /\ inst <= now /\ t <= now.
Proof. intros i ops pre o t now inst post Hi Hov Htr. exact (proj2 (proj2 (c20_ticks_proof i ops pre o t now inst post Hi Hov Htr))). Qed.
Check c20_tick_instant : forall i ops pre o t now inst post, 0 < i ->
    t_overrun (fst (texec i t_init ops)) = false ->
    snd (texec i t_init ops) = pre ++ (o, t, OTick now inst) :: post ->
    i <= now /\ inst <= now /\ t <= now.
Print Assumptions c20_tick_instant.

(* the trace is the history that was run *)
Theorem c20_trace_ops :
  forall i ops, map (fun x => fst (fst x)) (snd (texec i t_init ops)) = ops.
Proof. intros i ops. exact (texec_ops i ops t_init). Qed.
Check c20_trace_ops : forall i ops, map (fun x => fst (fst x)) (snd (texec i t_init ops)) = ops.
Print Assumptions c20_trace_ops.

(* the hypotheses are satisfiable and ticks do occur: a history with a tick, a stop with a tick pending, a restart and a reset *)
Theorem c20_demo :
  t_overrun (fst (texec 10000 t_init demo_ops)) = false /\
  map (fun x => snd x) (snd (texec 10000 t_init demo_ops)) =
    [ORun true; OTick 10000 10000; OAdv; ORun false; OTimeout 46400; ORun true; OAdv; ORun true; OTimeout 62000; OTick 66800 66800].
Proof. exact demo_run. Qed.
Check c20_demo : t_overrun (fst (texec 10000 t_init demo_ops)) = false /\
  map (fun x => snd x) (snd (texec 10000 t_init demo_ops)) =
    [ORun true; OTick 10000 10000; OAdv; ORun false; OTimeout 46400; ORun true; OAdv; ORun true; OTimeout 62000; OTick 66800 66800].
Print Assumptions c20_demo.

(* the tick channel of the source holds one tick, as the model assumes *)
Theorem c20_channel_capacity : tick_channel_capacity = 1.
Proof. exact capacity_ok. Qed.
Check c20_channel_capacity : tick_channel_capacity = 1.
Print Assumptions c20_channel_capacity.
