(* C04 - path attributes survive encode/decode; declared length equals bytes written.
   Gen/AttrRules.v (type codes, canonical flags, validate and value_len rules of the 20 typed
   attribute kinds) is regenerated from /repo on every run. *)
From Coq Require Import List NArith Bool.
From RC Require Import Base.Res Base.Wire Gen.AttrRules Model.AsPath Model.Attr Proofs.AttrProofs.
Import ListNotations.
Open Scope N_scope.

(* every well-formed typed value: encode, decode with 4-octet ASNs, convert to owned = the value;
   exactly the encoding is consumed *)
Theorem c04_roundtrip : forall a rest pos, wf_attr a = true ->
  exists bs w, compose a = Ok bs /\
    wire_attr_parse true (mkP (bs ++ rest) pos) = Ok (w, mkP rest (pos + length bs)) /\ to_owned w = Ok a.
Proof. exact c04_roundtrip_proof. Qed.
Check c04_roundtrip : forall a rest pos, wf_attr a = true -> exists bs w, compose a = Ok bs /\ wire_attr_parse true (mkP (bs ++ rest) pos) = Ok (w, mkP rest (pos + length bs)) /\ to_owned w = Ok a.
Print Assumptions c04_roundtrip.

(* the length reported before encoding equals the number of octets produced *)
Theorem c04_len : forall a bs n, wf_attr a = true -> compose a = Ok bs -> compose_len a = Ok n -> length bs = n.
Proof. exact c04_len_proof. Qed.
Check c04_len : forall a bs n, wf_attr a = true -> compose a = Ok bs -> compose_len a = Ok n -> length bs = n.
Print Assumptions c04_len.

(* canonical flags and code; extended-length form exactly when the value exceeds 255 octets *)
Theorem c04_header : forall a bs, wf_attr a = true -> compose a = Ok bs ->
  exists v f, value_bytes a = Ok v /\ nth_error bs 0 = Some f /\ nth_error bs 1 = Some (attr_code a) /\
    (if Nat.ltb 255 (length v) then f = set_ext (canon_flags (attr_code a)) /\ has_ext f = true
     else f = canon_flags (attr_code a) /\ has_ext f = false).
Proof. exact c04_header_proof. Qed.
Print Assumptions c04_header.

(* a recognised type whose value violates its length rule (any value length) is surfaced as invalid with
   its raw value, without failing the message *)
Theorem c04_invalid : forall four f c v rest pos cf vr lr,
  attr_rule c = Some (cf, vr, lr) -> validate vr four v = false ->
  N.of_nat (length v) <= 65535 -> ((length v <= 255)%nat -> has_ext f = false) ->
  exists P, wire_attr_parse four (mkP (header f c (length v) ++ v ++ rest) pos) = Ok (WInvalid cf c v, P) /\
            p_rest P = rest /\ to_owned (WInvalid cf c v) = Ok (AInvalid cf c v).
Proof. exact c04_invalid_proof. Qed.
Print Assumptions c04_invalid.

Theorem c04_unknown : forall four f c v rest pos,
  attr_rule c = None -> N.of_nat (length v) <= 65535 -> ((length v <= 255)%nat -> has_ext f = false) ->
  exists P w, wire_attr_parse four (mkP (header f c (length v) ++ v ++ rest) pos) = Ok (w, P) /\ p_rest P = rest /\
    to_owned w = Ok (AUnimpl (if Nat.ltb 255 (length v) then set_ext f else f) c v).
Proof. exact c04_unknown_proof. Qed.
Print Assumptions c04_unknown.

(* non-vacuity: values of several kinds, including lists and an AS path crossing 255 ASNs *)
Example c04_examples :
  wf_attr (AU32 4 4294967295) = true /\ wf_attr (AList 32 12 [1; 2; 79228162514264337593543950335]) = true /\
  wf_attr (APath 2 (map HAsn (repeat 65000 300) ++ [HSeg 1 [1; 2]])) = true /\ wf_attr (AAttrSet 65000 [1; 2; 3]) = true.
Proof. vm_compute. auto. Qed.
