(* C05 - every NLRI family round-trips and reports its exact encoded length.
   One statement covers the 13 families x {plain, ADD-PATH}: [n_fam] ranges over all of them. *)
From Coq Require Import List NArith Bool.
From RC Require Import Base.Res Base.Wire Model.Nlri Proofs.NlriProofs Proofs.NlriDecoded.
Import ListNotations.

(* encode then decode yields the value and consumes exactly the encoded octets, whatever follows *)
Theorem c05_roundtrip : forall n rest pos, wf_nlri n = true ->
  exists bs, compose_nlri n = Ok bs /\
    parse_nlri (n_fam n) (match n_pathid n with Some _ => true | None => false end) (mkP (bs ++ rest) pos)
    = Ok (n, mkP rest (pos + length bs)).
Proof. exact c05_rt_proof. Qed.
Check c05_roundtrip : forall n rest pos, wf_nlri n = true -> exists bs, compose_nlri n = Ok bs /\ parse_nlri (n_fam n) (match n_pathid n with Some _ => true | None => false end) (mkP (bs ++ rest) pos) = Ok (n, mkP rest (pos + length bs)).
Print Assumptions c05_roundtrip.

(* the length reported before encoding equals the number of octets produced *)
Theorem c05_len : forall n bs, wf_nlri n = true -> compose_nlri n = Ok bs -> length bs = compose_len n.
Proof. exact c05_len_proof. Qed.
Check c05_len : forall n bs, wf_nlri n = true -> compose_nlri n = Ok bs -> length bs = compose_len n.
Print Assumptions c05_len.

(* a concatenation of encoded NLRI decodes to exactly the original sequence, in order *)
Theorem c05_concat : forall k ap l bs,
  Forall (fun n => wf_nlri n = true /\ n_fam n = k /\
                   (match n_pathid n with Some _ => true | None => false end) = ap) l ->
  encode_all l = Ok bs ->
  forall pos fuel, (length l < fuel)%nat -> nlri_iter fuel k ap (mkP bs pos) = Some (map Ok l).
Proof. exact c05_concat_proof. Qed.
Print Assumptions c05_concat.

(* the hypothesis of the theorems above is met by everything the decoder itself produces: every value parse_nlri returns on a
   string of octets is well-formed, of the family asked for, with a path identifier exactly when one was parsed ... *)
Theorem c05_decoded_wellformed : forall k ap p n p',
  wf_bytes (p_rest p) -> parse_nlri k ap p = Ok (n, p') ->
  wf_nlri n = true /\ n_fam n = k /\ (match n_pathid n with Some _ => true | None => false end) = ap /\ wf_bytes (p_rest p').
Proof. exact parse_nlri_wf. Qed.
Print Assumptions c05_decoded_wellformed.

(* ... so a decoded NLRI always re-encodes, to exactly compose_len octets, and that encoding decodes back to the same value
   (decode . encode . decode = decode), for all 13 families with and without path identifiers *)
Theorem c05_decoded_reencodes : forall k ap p n p' rest pos,
  wf_bytes (p_rest p) -> parse_nlri k ap p = Ok (n, p') ->
  exists bs, compose_nlri n = Ok bs /\ length bs = compose_len n /\
             parse_nlri k ap (mkP (bs ++ rest) pos) = Ok (n, mkP rest (pos + length bs)).
Proof. exact decoded_reencodes. Qed.
Print Assumptions c05_decoded_reencodes.

(* and so is every item an NLRI iterator yields *)
Theorem c05_iterated_wellformed : forall fuel k ap p items,
  wf_bytes (p_rest p) -> nlri_iter fuel k ap p = Some items ->
  forall n, In (Ok n) items -> wf_nlri n = true /\ n_fam n = k /\ (match n_pathid n with Some _ => true | None => false end) = ap.
Proof. exact nlri_iter_wf. Qed.
Print Assumptions c05_iterated_wellformed.

(* non-vacuity: concrete well-formed values of several families, including a label stack and a path id *)
Example c05_examples :
  wf_nlri (mkNlri Ipv4Unicast (Some 7%N) (BPrefix (mkPfx false 23 [10; 1; 2; 0]%N))) = true /\
  wf_nlri (mkNlri Ipv6MplsVpnUnicast None
            (BVpn (mkPfx true 48 ([32; 1; 13; 184; 0; 1] ++ repeat 0 10)%N) [0; 1; 16; 0; 1; 33]%N [0; 0; 0; 100; 0; 0; 0; 1]%N)) = true /\
  wf_nlri (mkNlri Ipv4FlowSpec None (BFlow [1; 24; 10; 0; 0; 3; 129; 6]%N)) = true /\
  wf_nlri (mkNlri L2VpnVpls None (BVpls [0; 0; 0; 100; 0; 0; 0; 1]%N 1 2 3 1048575)) = true.
Proof. vm_compute. auto. Qed.

(* a 32-octet route-target NLRI (length octet 249..255 on the wire) is a value the decoder yields; it is written back with the
   saturated length octet 255 and reads back as the same 32 octets *)
Example c05_route_target_32 :
  let raw := repeat 7%N 32 in
  parse_nlri Ipv4RouteTarget false (mkP (250 :: raw) 0) = Ok (mkNlri Ipv4RouteTarget None (BRouteTarget raw), mkP [] 33) /\
  compose_nlri (mkNlri Ipv4RouteTarget None (BRouteTarget raw)) = Ok (255 :: raw) /\
  parse_nlri Ipv4RouteTarget false (mkP (255 :: raw) 0) = Ok (mkNlri Ipv4RouteTarget None (BRouteTarget raw), mkP [] 33).
Proof. vm_compute. auto. Qed.
