(* C06 - UpdateBuilder emits well-formed, size-bounded PDUs that conserve its input.
   Gen/BuilderConsts.v (MAX_PDU, the split threshold, the fixed part of `limit`) is regenerated from /repo on every run;
   [consts_ok] below is the only place the numbers matter. *)
From Coq Require Import List NArith Bool.
From RC Require Import Base.Res Base.Wire Model.Negotiate Model.Nlri Model.Attr Model.Update Gen.BuilderConsts Model.Builder
     Proofs.C06Proofs Proofs.C06Bytes.
Import ListNotations.
Local Open Scope nat_scope.

(* producing messages terminates: every step that leaves a remainder has removed at least one NLRI from it, so
   into_messages and the PDU iterator end within (number of NLRI + 1) steps *)
Theorem c06_progress : forall cfg b m b', take_message cfg b = Ok (m, Some b') -> bsize b' < bsize b.
Proof. exact take_message_progress. Qed.
Print Assumptions c06_progress.

Theorem c06_terminates : forall cfg b,
  into_messages (S (bsize b)) cfg b <> None /\ pdu_iter (S (bsize b)) cfg b <> None.
Proof. intros cfg b. split; [apply into_messages_fuel|apply pdu_iter_fuel]; auto. Qed.
Print Assumptions c06_terminates.

(* conservation: a successful run is a sequence of batches, one message each; their announcements / withdrawals
   concatenate to the input, each once and in order; every batch with announcements has the full attribute map and the
   next hop; no batch is empty unless the input was *)
Theorem c06_conserves : forall cfg fuel b ms,
  into_messages fuel cfg b = Some (Ok (inl ms)) ->
  Forall2 (fun batch m => into_message cfg batch = Ok (MOk m)) (batches fuel b) ms /\
  concat (map ann_of (batches fuel b)) = ann_of b /\ concat (map wd_of (batches fuel b)) = wd_of b /\
  Forall (fun batch => bd_fam batch = bd_fam b /\
                       (ann_of batch <> [] -> bd_attrs batch = bd_attrs b /\ nh_of batch = nh_of b)) (batches fuel b) /\
  (~ empty_msg b -> Forall (fun batch => ~ empty_msg batch) (batches fuel b)).
Proof.
  intros cfg fuel b ms H. destruct (into_messages_spec cfg fuel b ms H) as (A & B & C & D & E).
  repeat split; auto. intros Hne. apply E. intros _. exact Hne.
Qed.
Print Assumptions c06_conserves.

(* every message produced is at most MAX_PDU octets and, judged by the decoder model (C01: the reference decoder), is
   a well-formed UPDATE whose length fields match its octets, with no conventional NLRI, and whose MP sections decode to
   exactly the batch's announcements and withdrawals *)
Theorem c06_message_wellformed : forall cfg b m,
  wf_builder b = true -> into_message cfg b = Ok (MOk m) ->
  Forall (fun n => n_fam n = bd_fam b /\ pid_flag n = rx_addpath cfg (fam_code (bd_fam b))) (ann_of b ++ wd_of b) ->
  exists u, parse_update cfg m = Ok u /\ length m <= bc_max_pdu /\
    a_length u = length m /\ a_withdrawn_routes_len u = 0 /\ a_total_path_attribute_len u = length m - 23 /\
    a_conv_withdrawals m u = Some [] /\ a_conv_announcements m u = Some [] /\
    a_mp_announcements m u =
      Ok (match bd_ann b with Some r => Some (fam_code (bd_fam b), Some (map Ok (r_ann r))) | None => None end) /\
    a_mp_withdrawals m u =
      Ok (match bd_wd b with Some w => Some (fam_code (bd_fam b), Some (map Ok w)) | None => None end).
Proof. exact built_decodes. Qed.
Print Assumptions c06_message_wellformed.

(* the octets are the reference encoding of (MP_REACH, MP_UNREACH, attribute map in key order) and their number is what
   calculate_pdu_length announced *)
Theorem c06_bytes : forall b n, wf_builder b = true -> calc_len b = Ok n -> (N.of_nat n <= 65535)%N ->
  exists c m, content_of b = Ok c /\ finish b = Ok m /\ RefEncUpdate.ref_encode c = Ok m /\ length m = n /\
              forallb RefEncUpdate.wf_spec (RefEncUpdate.c_attrs c) = true /\ RefEncUpdate.c_wd c = [] /\ RefEncUpdate.c_ann c = [].
Proof. exact finish_ref. Qed.
Print Assumptions c06_bytes.

(* an oversize error is reported only for input that cannot be represented: some single NLRI does not fit next to the
   attributes and next hop, or there is no NLRI left and the rest alone exceeds MAX_PDU *)
Theorem c06_error_justified : forall cfg b n rem,
  take_message cfg b = Ok (MErr (ETooLarge n), rem) -> unrepresentable b.
Proof. exact too_large_justified. Qed.
Print Assumptions c06_error_justified.

(* the constants the arithmetic relies on *)
Theorem c06_consts : bc_wd_threshold + 30 <= bc_max_pdu /\ 31 <= bc_limit_fixed /\ bc_limit_fixed <= bc_max_pdu.
Proof. exact consts_ok. Qed.
Print Assumptions c06_consts.

(* non-vacuity: 700 IPv6 announcements with two attributes are split over several messages *)
Example c06_example :
  let n i := mkNlri Ipv6Unicast None (BPrefix (mkPfx true 64 ([32; 1; 13; 184; 0; 0; N.of_nat i / 256; N.of_nat i mod 256]%N ++ repeat 0%N 8))) in
  let b := mkB Ipv6Unicast (Some (mkReach (map n (seq 0 700)) (NhUni (repeat 1%N 16)))) None [(1%N, AU8 1%N 0%N); (5%N, AU32 5%N 100%N)] in
  wf_builder b = true /\
  match into_messages (S (bsize b)) (mkSC true []) b with Some (Ok (inl ms)) => length ms = 2 | _ => False end.
Proof. vm_compute. split; reflexivity. Qed.
