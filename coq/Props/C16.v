(* C16 - MRT table-dump iteration conserves entries; parallel equals sequential.
   Statements only; proofs live in Proofs/C16Proofs.v.  A file is its octets; enc_file / enc_mps are the reference encoder of
   RFC 6396 (specification only); items_of resolves each entry's peer through the file's peer index table. *)
From Coq Require Import List NArith Bool Permutation String.
From RC Require Import Base.Res Base.Wire Model.Nlri Model.Mrt Gen.MrtTables Proofs.C16Proofs.
Import ListNotations.
Open Scope N_scope.

(* the sequential RIB iterator yields exactly the entries of the file, in file order, each with the peer its index names *)
Theorem c16_rib_entries : forall ts collector view peers tabs, file_wf ts collector view peers tabs ->
  rib_entries (enc_file ts collector view peers tabs) = Ok (flat_map (items_of (map fst peers)) tabs).
Proof. exact c16_rib_entries_proof. Qed.
Check c16_rib_entries : forall ts collector view peers tabs, file_wf ts collector view peers tabs ->
  rib_entries (enc_file ts collector view peers tabs) = Ok (flat_map (items_of (map fst peers)) tabs).
Print Assumptions c16_rib_entries.

(* the table iterator yields the peer table and, per table, exactly its entries *)
Theorem c16_tables : forall ts collector view peers tabs, file_wf ts collector view peers tabs ->
  tables (enc_file ts collector view peers tabs) = Ok (map fst peers, map (fun t => (t_v6 t, singles_of t)) tabs).
Proof. exact c16_tables_proof. Qed.
Check c16_tables : forall ts collector view peers tabs, file_wf ts collector view peers tabs ->
  tables (enc_file ts collector view peers tabs) = Ok (map fst peers, map (fun t => (t_v6 t, singles_of t)) tabs).
Print Assumptions c16_tables.

(* both views hold the same (prefix, peer index, attributes) entries *)
Theorem c16_views_agree : forall peers tabs,
  map strip (flat_map (items_of peers) tabs) =
  List.concat (map singles_of tabs).
Proof. exact c16_views_agree_proof. Qed.
Check c16_views_agree : forall peers tabs,
  map strip (flat_map (items_of peers) tabs) =
  List.concat (map singles_of tabs).
Print Assumptions c16_views_agree.

(* the parallel iterator: whatever interleaving of the per-table entry lists a schedule produces, it is a permutation of the
   sequential output - the same multiset; and the sequential order is one of the interleavings *)
Theorem c16_parallel_multiset : forall peers tabs ys, interleave (map singles_of tabs) ys ->
  Permutation ys (map strip (flat_map (items_of peers) tabs)).
Proof. exact c16_parallel_proof. Qed.
Check c16_parallel_multiset : forall peers tabs ys, interleave (map singles_of tabs) ys ->
  Permutation ys (map strip (flat_map (items_of peers) tabs)).
Print Assumptions c16_parallel_multiset.

Theorem c16_interleaving_exists : forall (tabs : list table_spec), interleave (map singles_of tabs) (List.concat (map singles_of tabs)).
Proof. intros tabs. exact (interleave_sequential (map singles_of tabs)). Qed.
Check c16_interleaving_exists : forall (tabs : list table_spec), interleave (map singles_of tabs) (List.concat (map singles_of tabs)).
Print Assumptions c16_interleaving_exists.

(* BGP4MP / BGP4MP_ET files: the message iterator yields the records in order, each with its fields and the embedded BGP message
   byte for byte *)
Theorem c16_messages : forall l, Forall mp_rec_wf l -> messages (enc_mps l) = Ok (map snd l).
Proof. exact c16_messages_proof. Qed.
Check c16_messages : forall l, Forall mp_rec_wf l -> messages (enc_mps l) = Ok (map snd l).
Print Assumptions c16_messages.

(* truncated anywhere, it yields exactly the records that are complete and stops without panicking: the first k records fit in
   the n octets kept and the next one does not *)
Theorem c16_truncated : forall l n, Forall mp_rec_wf l ->
  exists k, messages (firstn n (enc_mps l)) = Ok (map snd (firstn k l)) /\
            (List.length (enc_mps (firstn k l)) <= n)%nat /\ (k <= List.length l)%nat /\
            ((k < List.length l)%nat -> (n < List.length (enc_mps (firstn (S k) l)))%nat).
Proof. exact c16_truncated_proof. Qed.
Check c16_truncated : forall l n, Forall mp_rec_wf l ->
  exists k, messages (firstn n (enc_mps l)) = Ok (map snd (firstn k l)) /\
            (List.length (enc_mps (firstn k l)) <= n)%nat /\ (k <= List.length l)%nat /\
            ((k < List.length l)%nat -> (n < List.length (enc_mps (firstn (S k) l)))%nat).
Print Assumptions c16_truncated.

(* the type and subtype code points the model dispatches on are the ones of the source's typeenum! tables *)
Theorem c16_code_points :
  In (13, "TableDumpv2"%string) mrt_MessageType /\ In (16, "Bgp4Mp"%string) mrt_MessageType /\ In (17, "Bgp4MpEt"%string) mrt_MessageType /\
  In (1, "PeerIndexTable"%string) mrt_TableDumpv2SubType /\ In (2, "RibIpv4Unicast"%string) mrt_TableDumpv2SubType /\
  In (4, "RibIpv6Unicast"%string) mrt_TableDumpv2SubType /\
  In (0, "StateChange"%string) mrt_Bgp4MpSubType /\ In (1, "Message"%string) mrt_Bgp4MpSubType /\
  In (4, "MessageAs4"%string) mrt_Bgp4MpSubType /\ In (5, "StateChangeAs4"%string) mrt_Bgp4MpSubType /\
  NoDup (map fst mrt_MessageType) /\ NoDup (map fst mrt_TableDumpv2SubType) /\ NoDup (map fst mrt_Bgp4MpSubType).
Proof. exact c16_code_points_proof. Qed.
Check c16_code_points :
  In (13, "TableDumpv2"%string) mrt_MessageType /\ In (16, "Bgp4Mp"%string) mrt_MessageType /\ In (17, "Bgp4MpEt"%string) mrt_MessageType /\
  In (1, "PeerIndexTable"%string) mrt_TableDumpv2SubType /\ In (2, "RibIpv4Unicast"%string) mrt_TableDumpv2SubType /\
  In (4, "RibIpv6Unicast"%string) mrt_TableDumpv2SubType /\
  In (0, "StateChange"%string) mrt_Bgp4MpSubType /\ In (1, "Message"%string) mrt_Bgp4MpSubType /\
  In (4, "MessageAs4"%string) mrt_Bgp4MpSubType /\ In (5, "StateChangeAs4"%string) mrt_Bgp4MpSubType /\
  NoDup (map fst mrt_MessageType) /\ NoDup (map fst mrt_TableDumpv2SubType) /\ NoDup (map fst mrt_Bgp4MpSubType).
Print Assumptions c16_code_points.
