(* C09 - BGP stream framing is chunking-invariant and survives bad length fields.
   [valid] stands for Message::from_octets on an extracted frame (C01/C02/C03 are about it); the theorems hold for every [valid]. *)
From Coq Require Import List NArith Bool.
From RC Require Import Base.Res Base.Wire Gen.FsmTable Model.Fsm Proofs.C08Proofs Proofs.C09Proofs.
Import ListNotations.

(* for every sequence of messages and every way their octets are split into reads (any number of reads, any split points,
   empty reads included): exactly these messages are extracted, each once, in order, and the buffer ends empty *)
Theorem c09_chunking_invariant : forall valid msgs chunks,
  Forall (wf_frame valid) msgs -> concat chunks = concat msgs -> feed valid [] chunks = Ok (msgs, []).
Proof. intros valid msgs chunks Hw E. apply c09_chunking_proof; [exact Hw|now left|exact E]. Qed.
Print Assumptions c09_chunking_invariant.

(* mid-stream too: with part of the next message already buffered *)
Theorem c09_chunking_from_partial : forall valid chunks msgs b,
  Forall (wf_frame valid) msgs -> incomplete b msgs -> b ++ concat chunks = concat msgs -> feed valid b chunks = Ok (msgs, []).
Proof. exact c09_chunking_proof. Qed.
Print Assumptions c09_chunking_from_partial.

(* a length field below the 19-octet minimum is an error (not a panic, not an endless wait), for all 19 such values *)
Theorem c09_length_below_minimum : forall valid buf hi lo,
  (18 <= length buf)%nat -> nth_error buf 16 = Some hi -> nth_error buf 17 = Some lo -> (N.to_nat (hi * 256 + lo)%N < 19)%nat ->
  parse_frame valid buf = Err.
Proof. exact c09_bad_length_proof. Qed.
Print Assumptions c09_length_below_minimum.

(* a complete frame that does not decode (wrong marker, illegal message) ends the extraction with an error *)
Theorem c09_undecodable_frame : forall valid buf hi lo,
  (18 <= length buf)%nat -> nth_error buf 16 = Some hi -> nth_error buf 17 = Some lo ->
  (19 <= N.to_nat (hi * 256 + lo)%N <= length buf)%nat -> valid (firstn (N.to_nat (hi * 256 + lo)%N) buf) = false ->
  parse_frame valid buf = Err.
Proof. exact c09_invalid_frame_proof. Qed.
Print Assumptions c09_undecodable_frame.

(* no octet stream, however it is cut into reads, panics the extraction; the blocking reader likewise *)
Theorem c09_extraction_never_panics : forall valid chunks buf,
  feed valid buf chunks <> Panic /\ parse_frame valid buf <> Panic.
Proof. intros. split; [apply c09_feed_np_proof|apply parse_frame_np]. Qed.
Print Assumptions c09_extraction_never_panics.

(* the socket reader of the session (Connection::read_frame in the read loop): whatever is already buffered, and however the rest of
   the stream arrives - coalesced into one read, one octet at a time, the close straight behind the last octet -, every message comes
   out once, in order, and then the close is reported; a close inside a message is an error after the messages before it *)
Theorem c09_socket_reader : forall valid msgs chunks b,
  Forall (wf_frame valid) msgs -> Forall (fun c => c <> []) chunks -> b ++ concat chunks = concat msgs ->
  read_all valid (S (length msgs)) b chunks = (msgs, RdEof).
Proof. exact c09_reader_proof. Qed.
Print Assumptions c09_socket_reader.

Theorem c09_socket_reader_cut : forall valid msgs chunks b t m,
  Forall (wf_frame valid) msgs -> wf_frame valid m -> Forall (fun c => c <> []) chunks -> (exists y, y <> [] /\ t ++ y = m) -> t <> [] ->
  b ++ concat chunks = concat msgs ++ t ->
  read_all valid (S (length msgs)) b chunks = (msgs, RdErr).
Proof. exact c09_reader_cut_proof. Qed.
Print Assumptions c09_socket_reader_cut.

(* and for every stream of octets, well-formed or not: the frames the reader delivers and the way it ends (the close, or the first
   error) depend on the octets alone, never on how they were split into reads or on how many were already buffered *)
Theorem c09_socket_reader_partition_invariant : forall valid fuel chunks1 chunks2 b,
  Forall (fun c => c <> []) chunks1 -> Forall (fun c => c <> []) chunks2 -> concat chunks1 = concat chunks2 ->
  read_all valid fuel b chunks1 = read_all valid fuel b chunks2.
Proof. exact c09_reader_partition_proof. Qed.
Print Assumptions c09_socket_reader_partition_invariant.

Theorem c09_socket_reader_buffered : forall valid fuel chunks b,
  Forall (fun c => c <> []) chunks -> read_all valid fuel b chunks = read_all valid fuel (b ++ concat chunks) [].
Proof. exact read_all_canonical. Qed.
Print Assumptions c09_socket_reader_buffered.

Theorem c09_socket_reader_never_panics : forall valid fuel buf reads, snd (read_all valid fuel buf reads) <> RdPanic.
Proof. exact c09_reader_np_proof. Qed.
Print Assumptions c09_socket_reader_never_panics.

Theorem c09_blocking_reader : forall h avail hi lo,
  read_message h avail <> Panic /\
  (length h = 18%nat -> nth_error h 16 = Some hi -> nth_error h 17 = Some lo ->
   let len := N.to_nat (hi * 256 + lo)%N in
   ((len < 19)%nat \/ (4096 < len)%nat -> read_message h avail = Err) /\
   ((19 <= len <= 4096)%nat -> (len - 18 <= length avail)%nat -> read_message h avail = Ok (Some (h ++ firstn (len - 18) avail)))).
Proof. intros. split; [apply c09_read_message_np_proof|intros; now apply c09_read_message_spec_proof]. Qed.
Print Assumptions c09_blocking_reader.

(* and no message the peer can send - legal in the current state or not - panics the session while a connection is attached *)
Theorem c09_no_message_panics_the_session : forall s m,
  s_conn s = true -> (forall o, m = WOpen o -> op_addpath o <> Panic) -> snd (handle_msg s m) <> OPanic.
Proof. exact c08_wire_no_panic_proof. Qed.
Print Assumptions c09_no_message_panics_the_session.

Example c09_example :
  let ka := repeat 255%N 16 ++ [0; 19; 4]%N in
  feed (fun _ => true) [] [firstn 7 ka; skipn 7 ka ++ firstn 18 ka; skipn 18 ka] = Ok ([ka; ka], []).
Proof. vm_compute. reflexivity. Qed.

Example c09_reader_example :
  let ka := repeat 255%N 16 ++ [0; 19; 4]%N in
  read_all (fun _ => true) 3 [] [ka ++ ka] = ([ka; ka], RdEof) /\
  read_all (fun _ => true) 3 (firstn 5 ka) [skipn 5 ka ++ ka ++ firstn 3 ka] = ([ka; ka], RdErr).
Proof. vm_compute. split; reflexivity. Qed.
