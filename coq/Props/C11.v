(* C11 - best/backup selection returns the minimum and a true runner-up.
   Generic statements: any item type T, `<` a strict weak order, content equality an
   equivalence whose classes tie in preference (nothing assumed in the other direction).
   Instantiated below for eligible routes under the SkipMed strategy (C10). *)
From Coq Require Import List NArith Bool Permutation.
From RC Require Import Base.Res Model.Select Proofs.C10Proofs Proofs.C11Proofs Proofs.C11Inst.
Import ListNotations.

Section Generic.
  Variable T : Type.
  Variables lt ceq : T -> T -> bool.
  Hypothesis lt_irrefl : forall x, lt x x = false.
  Hypothesis lt_trans : forall x y z, lt x y = true -> lt y z = true -> lt x z = true.
  Hypothesis tie_trans : forall x y z,
      lt x y = false -> lt y x = false -> lt y z = false -> lt z y = false -> lt x z = false /\ lt z x = false.
  Hypothesis ceq_refl : forall x, ceq x x = true.
  Hypothesis ceq_sym : forall x y, ceq x y = ceq y x.
  Hypothesis ceq_trans : forall x y z, ceq x y = true -> ceq y z = true -> ceq x z = true.
  Hypothesis ceq_tie : forall x y, ceq x y = true -> lt x y = false.

  (* the selected best is a candidate no candidate is preferred over *)
  Theorem c11_best_min : forall l b k,
    best_backup T lt ceq l = (Some b, k) -> In b l /\ forall x, In x l -> lt x b = false.
  Proof. exact (c11_best_min_proof T lt ceq lt_irrefl lt_trans ceq_refl ceq_sym ceq_tie). Qed.

  (* ... and it is the route the single-best helper returns *)
  Theorem c11_best_is_best : forall l, fst (best_backup T lt ceq l) = best T lt l.
  Proof. exact (c11_best_is_best_proof T lt ceq). Qed.

  (* no backup exactly when every candidate has the content of the best *)
  Theorem c11_backup_none : forall l b,
    best_backup T lt ceq l = (Some b, None) <->
    (fst (best_backup T lt ceq l) = Some b /\ forall x, In x l -> ceq b x = true).
  Proof. exact (c11_backup_none_proof T lt ceq lt_irrefl lt_trans ceq_refl ceq_sym ceq_tie). Qed.

  (* otherwise the backup differs in content from the best and no candidate differing from the best is preferred over it *)
  Theorem c11_backup_runner : forall l b k,
    best_backup T lt ceq l = (Some b, Some k) ->
    In k l /\ ceq b k = false /\ forall x, In x l -> ceq b x = false -> lt x k = false.
  Proof. exact (c11_backup_runner_proof T lt ceq lt_irrefl lt_trans ceq_refl ceq_sym ceq_tie). Qed.

  (* so its preference class does not depend on the order of the candidates *)
  Theorem c11_backup_class : forall l l' b k b' k',
    Permutation l l' ->
    best_backup T lt ceq l = (Some b, Some k) -> best_backup T lt ceq l' = (Some b', Some k') ->
    lt k k' = false /\ lt k' k = false.
  Proof. exact (c11_backup_class_proof T lt ceq lt_irrefl lt_trans tie_trans ceq_refl ceq_sym ceq_trans ceq_tie). Qed.

  Theorem c11_backup_none_perm : forall l l' b b' k',
    Permutation l l' ->
    best_backup T lt ceq l = (Some b, None) -> best_backup T lt ceq l' = (Some b', k') -> k' = None.
  Proof. exact (c11_backup_none_perm_proof T lt ceq lt_irrefl lt_trans ceq_refl ceq_sym ceq_trans ceq_tie). Qed.

  (* positions (best_backup_position) index the returned routes *)
  Theorem c11_positions : forall l,
    let '(b, k) := best_backup_idx T lt ceq l in
    (forall j x, b = Some (j, x) -> nth_error l j = Some x) /\
    (forall j x, k = Some (j, x) -> nth_error l j = Some x).
  Proof. exact (c11_positions_proof T lt ceq). Qed.
End Generic.
Print Assumptions c11_best_min.
Print Assumptions c11_best_is_best.
Print Assumptions c11_backup_none.
Print Assumptions c11_backup_runner.
Print Assumptions c11_backup_class.
Print Assumptions c11_backup_none_perm.
Print Assumptions c11_positions.

(* the generic helper on pairwise distinct items of a strict total order: the two smallest, in order *)
Theorem c11_generic : forall (T : Type) (lt : T -> T -> bool),
  (forall x y z, lt x y = true -> lt y z = true -> lt x z = true) ->
  (forall x y, lt x y = true \/ x = y \/ lt y x = true) ->
  forall l b k, NoDup l -> best_backup_generic T lt l = (Some b, Some k) ->
  In b l /\ In k l /\ lt b k = true /\ forall x, In x l -> x = b \/ x = k \/ lt k x = true.
Proof. exact c11_generic_proof. Qed.
Print Assumptions c11_generic.

(* instance: eligible routes under SkipMed satisfy every hypothesis of the generic theorems (non-vacuity) *)
Theorem c11_skipmed_instance :
  (forall x, e_lt x x = false) /\
  (forall x y z, e_lt x y = true -> e_lt y z = true -> e_lt x z = true) /\
  (forall x y z, e_lt x y = false -> e_lt y x = false -> e_lt y z = false -> e_lt z y = false ->
                 e_lt x z = false /\ e_lt z x = false) /\
  (forall x, e_ceq x x = true) /\ (forall x y, e_ceq x y = e_ceq y x) /\
  (forall x y z, e_ceq x y = true -> e_ceq y z = true -> e_ceq x z = true) /\
  (forall x y, e_ceq x y = true -> e_lt x y = false).
Proof.
  repeat split; [apply e_lt_irrefl|apply e_lt_trans| eapply e_tie_trans; eassumption | eapply e_tie_trans; eassumption
                |apply e_ceq_refl|apply e_ceq_sym|apply e_ceq_trans|apply e_ceq_tie].
Qed.
Print Assumptions c11_skipmed_instance.

Theorem c11_skipmed_backup_class : forall (l l' : list eroute) b k b' k',
  Permutation l l' ->
  best_backup eroute e_lt e_ceq l = (Some b, Some k) -> best_backup eroute e_lt e_ceq l' = (Some b', Some k') ->
  e_lt k k' = false /\ e_lt k' k = false.
Proof.
  apply c11_backup_class; [apply e_lt_irrefl|apply e_lt_trans|apply e_tie_trans|apply e_ceq_refl|apply e_ceq_sym
                          |apply e_ceq_trans|apply e_ceq_tie].
Qed.
Print Assumptions c11_skipmed_backup_class.
