(* C13 - AS path conversions preserve hops and emit valid wire form; 2/4-octet paths equate. *)
From Coq Require Import List NArith Bool.
From RC Require Import Base.Res Base.Wire Model.AsPath Proofs.AsPathProofs.
Import ListNotations.
Open Scope N_scope.

(* hop path -> wire: a valid AS_PATH whose segment counts fit one octet (sequences of any length
   are split) and whose hop sequence is the original.  [hop_ok]: ASNs fit 32 bits, segment hops are
   of type 1..4 with at most 255 ASNs (the complement is K1) and are not non-empty sequences
   (the public API builds sets and confederation segments only). *)
Theorem c13_to_wire : forall l, Forall hop_ok l ->
  exists w segs, to_as_path l = Ok w /\ wire_segments true w = Ok segs /\
                 Forall (fun s => (length (snd s) <= 255)%nat) segs /\ wire_hops true w = Ok l.
Proof. exact c13_to_wire_proof. Qed.
Check c13_to_wire : forall l, Forall hop_ok l -> exists w segs, to_as_path l = Ok w /\ wire_segments true w = Ok segs /\ Forall (fun s => (length (snd s) <= 255)%nat) segs /\ wire_hops true w = Ok l.
Print Assumptions c13_to_wire.

(* K1 (known finding): outside hop_ok, a set of 256 ASNs makes to_as_path panic *)
Theorem c13_k1_witness : to_as_path [HSeg 1 (repeat 1 256)] = Panic.
Proof. exact c13_k1_witness_proof. Qed.
Print Assumptions c13_k1_witness.

(* valid wire path (either width) -> hops -> wire preserves the hop sequence *)
Theorem c13_wire_hops : forall four w h, wf_bytes w -> wire_hops four w = Ok h ->
  exists w', to_as_path h = Ok w' /\ wire_hops true w' = Ok h.
Proof. exact c13_wire_hops_proof. Qed.
Check c13_wire_hops : forall four w h, wf_bytes w -> wire_hops four w = Ok h -> exists w', to_as_path h = Ok w' /\ wire_hops true w' = Ok h.
Print Assumptions c13_wire_hops.

(* prepending n copies of an AS: exactly those n hops followed by the original ones *)
Theorem c13_prepend : forall four w a n w', wf_bytes w -> a < 4294967296 ->
  as_path_prepend four w a n = Ok w' ->
  exists h, wire_hops four w = Ok h /\ wire_hops true w' = Ok (repeat (HAsn a) n ++ h).
Proof. exact c13_prepend_proof. Qed.
Check c13_prepend : forall four w a n w', wf_bytes w -> a < 4294967296 -> as_path_prepend four w a n = Ok w' -> exists h, wire_hops four w = Ok h /\ wire_hops true w' = Ok (repeat (HAsn a) n ++ h).
Print Assumptions c13_prepend.

(* the 2-octet and the 4-octet encoding of the same segments are == and hash identically *)
Theorem c13_eq_hash : forall segs, Forall (seg_ok false) segs ->
  as_path_eqb false (enc_segs false segs) true (enc_segs true segs) = Ok true /\
  as_path_hash false (enc_segs false segs) = as_path_hash true (enc_segs true segs).
Proof. exact c13_eq_hash_proof. Qed.
Check c13_eq_hash : forall segs, Forall (seg_ok false) segs -> as_path_eqb false (enc_segs false segs) true (enc_segs true segs) = Ok true /\ as_path_hash false (enc_segs false segs) = as_path_hash true (enc_segs true segs).
Print Assumptions c13_eq_hash.

(* conversion to 2-octet form fails exactly when some AS number exceeds 65535 *)
Theorem c13_to16 : forall l, Forall hop_ok l ->
  (try_to_asn16_path l = Err <-> exists h, In h l /\ hop_fits16 h = false).
Proof. exact c13_to16_proof. Qed.
Check c13_to16 : forall l, Forall hop_ok l -> (try_to_asn16_path l = Err <-> exists h, In h l /\ hop_fits16 h = false).
Print Assumptions c13_to16.

(* the path-selection hop count: sequence AS numbers plus AS_SETs, confederation segments ignored *)
Theorem c13_hopcount : forall l,
  hop_count_path_selection l = (length (filter is_asn l) + length (filter is_as_set l))%nat.
Proof. exact c13_hopcount_proof. Qed.
Check c13_hopcount : forall l, hop_count_path_selection l = (length (filter is_asn l) + length (filter is_as_set l))%nat.
Print Assumptions c13_hopcount.

(* non-vacuity *)
Example c13_example :
  Forall hop_ok [HAsn 65000; HAsn 4200000000; HSeg 1 [64496; 64497]; HSeg 3 [65001]; HSeg 2 []].
Proof. repeat constructor; cbn; try discriminate; try reflexivity; auto; try (intros; discriminate). Qed.
