(* C03 - OPEN, NOTIFICATION, KEEPALIVE, ROUTE-REFRESH decode faithfully and totally.
   Gen/CapRules.v (the content rule of every capability type) is regenerated from Capability::parse on every run; the proofs
   use it through [cap_rule] (rule65 / rule1 are where my_asn() and multiprotocol_ids() depend on it). *)
From Coq Require Import List NArith Bool.
From RC Require Import Base.Res Base.Wire Model.Open Gen.CapRules Model.OpenMsg Proofs.C03Proofs.
Import ListNotations.
Open Scope N_scope.

(* every byte string: a message or an error, never a panic *)
Theorem c03_decoding_total : forall b,
  open_check b <> Panic /\ notif_check b <> Panic /\ keepalive_check b <> Panic /\ rr_parse b <> Panic /\ msg_dispatch b <> Panic.
Proof.
  intros b. repeat split; [apply c03_open_total_proof|apply c03_notif_total_proof|apply c03_keepalive_total_proof|
                           apply c03_rr_total_proof|apply c03_dispatch_total_proof].
Qed.
Print Assumptions c03_decoding_total.

(* an accepted OPEN is an encoding of fixed fields and ok parameters whose header length is the number of octets supplied *)
Theorem c03_open_accepted_is : forall b, open_check b = Ok tt ->
  exists hi lo t ver a1 a2 h1 h2 id ps,
    b = open_bytes hi lo t ver a1 a2 h1 h2 id ps /\ length id = 4%nat /\ Forall param_ok ps /\ N.to_nat (hi * 256 + lo) = length b.
Proof. exact open_accept_struct. Qed.
Print Assumptions c03_open_accepted_is.

(* faithful: such octets are accepted, and every accessor reports exactly the encoded fields, parameters and capabilities;
   my_asn prefers the four-octet capability; no accessor or iterator panics *)
Theorem c03_open_faithful : forall hi lo t ver a1 a2 h1 h2 id ps,
  length id = 4%nat -> Forall param_ok ps ->
  let b := open_bytes hi lo t ver a1 a2 h1 h2 id ps in
  let caps := concat (map param_caps ps) in
  (N.to_nat (hi * 256 + lo) = length b -> open_check b = Ok tt) /\
  o_version b = Ok ver /\ o_asn_field b = Ok (a1 * 256 + a2) /\ o_holdtime b = Ok (h1 * 256 + h2) /\ o_identifier b = Ok id /\
  o_opt_parm_len b = Ok (N.of_nat (length (flat_map enc_param ps))) /\
  o_parameters b = Ok (map param_tv ps) /\ o_capabilities b = Ok caps /\
  o_my_asn b = Ok (match find_cap caps 65 with Some v => unbe v | None => a1 * 256 + a2 end) /\
  o_four_octet_capable b = Ok (match find_cap caps 65 with Some _ => true | None => false end) /\
  o_software_version b = Ok (find_cap caps 75) /\
  o_multiprotocol_ids b <> Panic /\ o_addpath_families b <> Panic.
Proof.
  intros hi lo t ver a1 a2 h1 h2 id ps Hid Hok b caps.
  destruct (acc_fields hi lo t ver a1 a2 h1 h2 id ps Hid) as (F1 & F2 & F3 & F4 & F5).
  split; [apply open_check_enc; assumption|]. repeat split; auto.
  - now apply acc_parameters.
  - now apply acc_capabilities.
  - now apply acc_my_asn.
  - now apply acc_four_octet.
  - now apply acc_software.
  - now apply acc_mp_np.
  - now apply acc_addpath_np.
Qed.
Print Assumptions c03_open_faithful.

(* hence: no accessor of any accepted OPEN panics *)
Theorem c03_open_accessors_total : forall b, open_check b = Ok tt ->
  o_version b <> Panic /\ o_holdtime b <> Panic /\ o_identifier b <> Panic /\ o_opt_parm_len b <> Panic /\
  o_parameters b <> Panic /\ o_capabilities b <> Panic /\ o_my_asn b <> Panic /\ o_four_octet_capable b <> Panic /\
  o_multiprotocol_ids b <> Panic /\ o_addpath_families b <> Panic /\ o_software_version b <> Panic.
Proof.
  intros b H. destruct (open_accept_struct b H) as (hi & lo & t & ver & a1 & a2 & h1 & h2 & id & ps & -> & Hid & Hok & _).
  destruct (c03_open_faithful hi lo t ver a1 a2 h1 h2 id ps Hid Hok) as (_ & A & _ & C & D & E & F & G & I & J & K & L & M).
  rewrite A, C, D, E, F, G, I, J, K. repeat split; try discriminate; assumption.
Qed.
Print Assumptions c03_open_accessors_total.

(* length strictness *)
Theorem c03_length_strict : forall b,
  (open_check b = Ok tt -> exists hi lo, nth_error b 16 = Some hi /\ nth_error b 17 = Some lo /\ N.to_nat (hi * 256 + lo) = length b /\ (29 <= length b)%nat) /\
  (keepalive_check b = Ok tt -> length b = 19%nat /\ exists hi lo, nth_error b 16 = Some hi /\ nth_error b 17 = Some lo /\ N.to_nat (hi * 256 + lo) = 19%nat) /\
  (notif_check b = Ok tt -> (21 <= length b)%nat /\ exists hi lo, nth_error b 16 = Some hi /\ nth_error b 17 = Some lo /\ N.to_nat (hi * 256 + lo) = length b).
Proof. intros b. split; [apply c03_open_length_proof|split; [apply c03_keepalive_length_proof|apply c03_notif_length_proof]]. Qed.
Print Assumptions c03_length_strict.

Theorem c03_notification_accessors_total : forall b, notif_check b = Ok tt -> n_code b <> Panic /\ n_subcode b <> Panic.
Proof. exact c03_notif_accessors_proof. Qed.
Print Assumptions c03_notification_accessors_total.

(* builders: what they write decodes back to what they were given *)
Theorem c03_notification_builder : forall code sub data b,
  notif_build code sub data = Ok b ->
  notif_check b = Ok tt /\ n_code b = Ok code /\ n_subcode b = Ok sub /\
  n_data b = match data with Some (x :: d) => Some (x :: d) | _ => None end.
Proof. exact c03_notif_faithful_proof. Qed.
Print Assumptions c03_notification_builder.

Theorem c03_keepalive_builder : keepalive_check keepalive_build = Ok tt.
Proof. exact c03_keepalive_built_proof. Qed.
Print Assumptions c03_keepalive_builder.

Theorem c03_route_refresh_faithful : forall afi sub safi typ, afi < 65536 ->
  rr_parse (bgp_header 23 typ ++ be 2 afi ++ [sub; safi]) = Ok ((afi, safi), sub).
Proof. exact c03_rr_faithful_proof. Qed.
Print Assumptions c03_route_refresh_faithful.

(* OpenBuilder: when finish returns (the u8 sums did not overflow: at most 253 octets of capabilities) it wrote the fixed fields
   and one optional parameter carrying the capabilities in the order added, the ADD-PATH capability last *)
Theorem c03_open_builder_bytes : forall o b,
  ob_finish o = Ok b -> Forall (fun c => N.of_nat (length c) < 256) (ob_all_caps o) ->
  let cc := concat (ob_all_caps o) in
  N.of_nat (length cc) <= 253 /\
  b = bgp_header (29 + (if 0 <? N.of_nat (length cc) then N.of_nat (length cc) + 2 else 0)) 1 ++ [4] ++ be 2 (ob_asn o) ++ be 2 (ob_hold o) ++ ob_id o ++
      (if 0 <? N.of_nat (length cc) then [N.of_nat (length cc) + 2; 2; N.of_nat (length cc)] ++ cc else [0]).
Proof. exact c03_builder_bytes_proof. Qed.
Print Assumptions c03_open_builder_bytes.

(* non-vacuity: an OPEN with a four-octet capability, a multiprotocol capability and an opaque parameter *)
Example c03_example :
  let ps := [PCaps [(65, [0; 1; 0; 0]); (1, [0; 2; 0; 1])]; PRaw 200 [7; 8]] in
  let b := open_bytes 0 47 1 4 91 160 0 180 [10; 0; 0; 1] ps in
  open_check b = Ok tt /\ o_my_asn b = Ok 65536 /\ o_multiprotocol_ids b = Ok [(2, 1)] /\
  ob_finish (ob_add_mp (ob_four_octet (ob_set_asn ob_new 65536) 65536) (2, 1)) =
    Ok (open_bytes 0 43 1 4 91 160 0 0 [0; 0; 0; 0] [PCaps [(65, [0; 1; 0; 0]); (1, [0; 2; 0; 1])]]).
Proof. vm_compute. repeat split; reflexivity. Qed.
