(* C17 - attribute map and route workshop store and return what was put in. *)
From Coq Require Import List NArith Bool.
From RC Require Import Base.Res Base.Wire Model.Negotiate Model.Nlri Model.Attr Model.Update Model.PaMap
     Proofs.C07Proofs Proofs.C07Msg Proofs.C17Proofs.
Import ListNotations.
Open Scope N_scope.

(* for every history of set / set_from_enum / add_attribute / remove / merge_upsert / remove_non_transitives: keys strictly
   ascending (at most one attribute per type code) and every attribute filed under its own code *)
Theorem c17_history : forall ops, Forall op_ok ops ->
  let m := fold_left apply ops [] in wfm m /\ NoDup (map fst m).
Proof. exact c17_history_proof. Qed.
Print Assumptions c17_history.

Theorem c17_get_after_set : forall m a, is_typed a = true -> pm_get (fst (pm_set m a)) (attr_code a) = Some a.
Proof. exact c17_get_after_set_proof. Qed.
Print Assumptions c17_get_after_set.

Theorem c17_set_reports_replaced : forall m a, snd (pm_set m a) = pm_get m (attr_code a).
Proof. exact c17_set_reports_proof. Qed.
Print Assumptions c17_set_reports_replaced.

Theorem c17_set_leaves_others : forall m a c, c <> attr_code a -> pm_get (fst (pm_set m a)) c = pm_get m c.
Proof. exact c17_set_other_proof. Qed.
Print Assumptions c17_set_leaves_others.

Theorem c17_remove : forall m c,
  snd (pm_remove m c) = pm_get m c /\ pm_get (fst (pm_remove m c)) c = None /\ pm_contains (fst (pm_remove m c)) c = false /\
  forall c', c' <> c -> pm_get (fst (pm_remove m c)) c' = pm_get m c'.
Proof. exact c17_remove_proof. Qed.
Print Assumptions c17_remove.

(* byte length = sum of the encoded lengths *)
Theorem c17_bytes_len : forall c a m,
  pamap_bytes_len [] = Ok 0%nat /\
  pamap_bytes_len ((c, a) :: m) = (let* n := compose_len a in let* r := pamap_bytes_len m in Ok (n + r)%nat).
Proof. intros. split; reflexivity. Qed.
Print Assumptions c17_bytes_len.

(* merge: what the other map holds wins, the rest stays *)
Theorem c17_merge : forall other m c,
  pm_lookup (fst (pm_merge_upsert m other)) c = match pm_lookup (rev other) c with Some x => Some x | None => pm_lookup m c end.
Proof. exact c17_merge_proof. Qed.
Print Assumptions c17_merge.

(* stripping non-transitives leaves exactly the attributes whose type (unrecognised / malformed: whose received flags) is transitive *)
Theorem c17_strip_non_transitives : forall m e,
  In e (pm_remove_non_transitives m) <-> In e m /\ is_transitive (default_flags (snd e)) = true.
Proof. exact c17_strip_proof. Qed.
Print Assumptions c17_strip_non_transitives.

(* a map built from an accepted UPDATE: every attribute except MP_REACH / MP_UNREACH (c07_attribute_map), and the compact
   owned-bytes form returns the same typed value for every type *)
Theorem c17_from_update : forall cfg b u,
  parse_update cfg b = Ok u -> wf_bytes b -> N.of_nat (3 * length b) <= 65535 ->
  exists m, a_pamap b u = Ok m /\ keys_sorted m /\
    (forall c x, In (c, x) m -> c <> 14 /\ c <> 15 /\ exists w, In (Ok w) (a_path_attributes b u) /\ to_owned w = Ok x /\ c = wattr_code w) /\
    (forall w, In (Ok w) (a_path_attributes b u) -> wattr_code w <> 14 -> wattr_code w <> 15 -> exists x, In (wattr_code w, x) m) /\
    (forall c, c <> 14 -> c <> 15 -> opa_get b u c = pm_get m c).
Proof.
  intros cfg b u Hp Hwf Hsz. destruct (c07_pamap_proof cfg b u Hp Hwf Hsz) as (m & out & M1 & M2 & M3 & M4 & _).
  exists m. split; [exact M1|]. split; [exact M2|]. split; [exact M3|]. split; [exact M4|].
  intros c0 N14 N15. now apply c17_opa_agrees_proof.
Qed.
Print Assumptions c17_from_update.

(* the workshop returns what the preceding set of the same kind stored *)
Theorem c17_workshop_get_set : forall w a, is_typed a = true -> ws_get_attr (ws_set_attr w a) (attr_code a) = Some a.
Proof. exact c17_ws_get_set_proof. Qed.
Print Assumptions c17_workshop_get_set.

(* community lists mixing the four flavours: get returns the stored list, flavour by flavour in stored order (the four attributes
   cannot remember the order across flavours) *)
Theorem c17_workshop_communities : forall w l,
  ws_get_communities (ws_set_communities w l) =
  map (fun x => (8, x)) (flavour l 8) ++ map (fun x => (16, x)) (flavour l 16) ++
  map (fun x => (25, x)) (flavour l 25) ++ map (fun x => (32, x)) (flavour l 32).
Proof. exact c17_ws_communities_proof. Qed.
Print Assumptions c17_workshop_communities.

(* a workshop built from an UPDATE: that NLRI's next hop, no NEXT_HOP attribute, everything else as in the map *)
Theorem c17_workshop_from_update : forall k b u w,
  ws_from_pdu k b u = Ok w ->
  pm_lookup (ws_attrs w) 3 = None /\
  (exists m, a_pamap b u = Ok m /\ forall c, c <> 3 -> pm_lookup (ws_attrs w) c = pm_lookup m c) /\
  (if match k with Ipv4Unicast => negb (Nat.eqb (range_len (u_ann u)) 0) | _ => false end
   then exists nh, a_conventional_next_hop b u = Ok (Some nh) /\ ws_nh w = Some (NhUni (be 4 nh))
   else exists f nh, a_mp_next_hop b u = Ok (Some (f, nh)) /\ ws_nh w = Some nh).
Proof. exact c17_ws_from_pdu_proof. Qed.
Print Assumptions c17_workshop_from_update.

Example c17_example :
  let m := fold_left apply [OSet (AU32 4 7); OAdd (AUnimpl 128 99 [1]); OSet (AU32 4 9); OAdd (AUnimpl 192 98 []); OStrip] [] in
  map fst m = [98] /\ pm_get (fst (pm_set [] (AU32 4 7))) 4 = Some (AU32 4 7).
Proof. vm_compute. split; reflexivity. Qed.
