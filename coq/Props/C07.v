(* C07 - re-encoding a received UPDATE preserves its attributes and NLRI.
   "Accepted" = [parse_update cfg b = Ok u]; octets are octets ([wf_bytes b]); the bound 3 * |b| <= 65535 (any message up
   to 21845 octets, so every PDU of RFC 4271's 4096 octets) guarantees that a two-octet AS_PATH still fits a 16-bit length
   field when it is written back with four-octet ASNs.  The re-decode uses the four-octet configuration: compose has no ASN
   width parameter (stated, not hidden). *)
From Coq Require Import List NArith Bool.
From RC Require Import Base.Res Base.Wire Model.Negotiate Model.Nlri Gen.AttrRules Model.Attr Model.Update Gen.BuilderConsts
     Model.Builder Proofs.C07Proofs Proofs.C07Msg Proofs.C07Full Proofs.C06Proofs Proofs.C06Bytes.
Import ListNotations.
Open Scope N_scope.

(* what the decoder reports for a re-encoded attribute x ([same_attr x w']): the same type code and
   - recognised type with a valid value: the same owned value (to_owned w' = Ok x);
   - unrecognised type: the same value octets, flags = received flags with PARTIAL set and the extended-length bit matching the
     length (c07_flags below: optional / transitive bits unchanged);
   - recognised type whose value is malformed: the same value octets. *)
Check same_attr : pattr -> wattr -> Prop.

(* directly: to_owned on every attribute of the message succeeds, compose succeeds, and the composed octets decode
   attribute by attribute to the same attributes, in order *)
Theorem c07_direct : forall cfg b u,
  parse_update cfg b = Ok u -> wf_bytes b -> N.of_nat (3 * length b) <= 65535 ->
  exists xs out, owned_all (a_path_attributes b u) = Ok xs /\ Forall2 item_of xs (a_path_attributes b u) /\
    compose_all xs = Ok out /\
    forall pos, exists ws', attrs_walk (S (length out)) true (mkP out pos) = map Ok ws' /\ Forall2 same_attr xs ws'.
Proof. exact c07_direct_proof. Qed.
Print Assumptions c07_direct.

(* through the attribute map: it is built without error, holds in ascending key order exactly the attributes of the message
   other than MP_REACH / MP_UNREACH (one per type code), and what it composes decodes to those attributes *)
Theorem c07_attribute_map : forall cfg b u,
  parse_update cfg b = Ok u -> wf_bytes b -> N.of_nat (3 * length b) <= 65535 ->
  exists m out, a_pamap b u = Ok m /\ keys_sorted m /\
    (forall c x, In (c, x) m -> c <> 14 /\ c <> 15 /\ exists w, In (Ok w) (a_path_attributes b u) /\ to_owned w = Ok x /\ c = wattr_code w) /\
    (forall w, In (Ok w) (a_path_attributes b u) -> wattr_code w <> 14 -> wattr_code w <> 15 -> exists x, In (wattr_code w, x) m) /\
    pamap_compose m = Ok out /\
    forall pos, exists ws', attrs_walk (S (length out)) true (mkP out pos) = map Ok ws' /\ Forall2 same_attr (map snd m) ws'.
Proof. exact c07_pamap_proof. Qed.
Print Assumptions c07_attribute_map.

(* one attribute, any length, whatever follows it *)
Theorem c07_one_attribute : forall x rest pos, reenc_wf x ->
  exists bs w', compose x = Ok bs /\ (3 <= length bs)%nat /\
                wire_attr_parse true (mkP (bs ++ rest) pos) = Ok (w', mkP rest (pos + length bs)) /\ same_attr x w'.
Proof. exact reencode_one. Qed.
Print Assumptions c07_one_attribute.

(* an attribute item of an accepted message with value octets v converts to an owned value; unknown and malformed ones keep v
   whatever its length and whichever length encoding was used on input *)
Theorem c07_value_kept : forall four p w p' v,
  wf_bytes (p_rest p) -> wire_attr_parse four p = Ok (w, p') -> wattr_value w = Ok v ->
  to_owned w = match w with
               | WTyped c f4 _ => parse_value c f4 v
               | WUnimpl f c _ => Ok (AUnimpl f c v)
               | WInvalid f c _ => Ok (AInvalid f c v)
               end.
Proof. intros. now apply to_owned_value. Qed.
Print Assumptions c07_value_kept.

(* flags written for an unrecognised (or malformed) attribute: optional and transitive bits and the low nibble as received,
   PARTIAL set, extended length exactly when the value exceeds 255 octets *)
Theorem c07_flags : forall f len, f < 256 ->
  norm_flags f len / 64 = f / 64 /\ has_partial (norm_flags f len) = true /\ has_ext (norm_flags f len) = Nat.ltb 255 len /\
  norm_flags f len mod 16 = f mod 16 /\ norm_flags f len < 256.
Proof. exact norm_flags_bits. Qed.
Print Assumptions c07_flags.

(* through a builder seeded from the message, with the message's NLRI re-added (type A = family k, path ids per ap).
   PARTIAL: proved under the hypotheses that the re-added NLRI are well-formed values of family k whose path-id presence matches
   the session (what the decoder yields for a valid message - the lemma "every decoded NLRI is well-formed" is not proved here),
   and the attribute octets of the rebuilt message are characterised by c07_attribute_map (the map the builder carries is exactly
   [a_pamap]) rather than by decoding the rebuilt message as a whole.  Full statement: as c07_direct, for the message
   [m'] = into_message of the seeded builder, plus "announcements / withdrawals of m' = those of b". *)
Theorem c07_builder_partial : forall cfg b u k ap m bd1 bd2 m',
  parse_update cfg b = Ok u -> wf_bytes b -> N.of_nat (3 * length b) <= 65535 ->
  a_pamap b u = Ok m ->
  add_announcements_from_pdu b u ap (mkB k None None m) = Ok bd1 -> add_withdrawals_from_pdu b u ap bd1 = Ok bd2 ->
  forallb wf_nlri (ann_of bd2) = true -> forallb wf_nlri (wd_of bd2) = true ->
  Forall (fun n => n_fam n = k /\ pid_flag n = rx_addpath cfg (fam_code k)) (ann_of bd2 ++ wd_of bd2) ->
  into_message cfg bd2 = Ok (MOk m') ->
  bd_attrs bd2 = m /\ bd_fam bd2 = k /\
  exists u', parse_update cfg m' = Ok u' /\ (length m' <= bc_max_pdu)%nat /\ a_length u' = length m' /\
    a_conv_withdrawals m' u' = Some [] /\ a_conv_announcements m' u' = Some [] /\
    a_mp_announcements m' u' = Ok (match bd_ann bd2 with Some r => Some (fam_code k, Some (map Ok (r_ann r))) | None => None end) /\
    a_mp_withdrawals m' u' = Ok (match bd_wd bd2 with Some w => Some (fam_code k, Some (map Ok w)) | None => None end).
Proof. exact c07_builder_proof. Qed.
Print Assumptions c07_builder_partial.

(* the same with no hypothesis on the re-added NLRI: they are what the NLRI decoder produced from the octets of the message, and
   every such value is well-formed, of the builder's family, with a path identifier exactly when the builder's NLRI type parses one
   (c05_decoded_wellformed).  The type A of the builder = family [k], with path identifiers exactly when the session receives them
   for [k].  The attribute octets of the rebuilt message, decoded as a whole, are in c07_builder_complete below. *)
Theorem c07_builder : forall cfg b u k m bd1 bd2 m',
  parse_update cfg b = Ok u -> wf_bytes b -> N.of_nat (3 * length b) <= 65535 ->
  a_pamap b u = Ok m ->
  let ap := rx_addpath cfg (fam_code k) in
  add_announcements_from_pdu b u ap (mkB k None None m) = Ok bd1 -> add_withdrawals_from_pdu b u ap bd1 = Ok bd2 ->
  into_message cfg bd2 = Ok (MOk m') ->
  bd_attrs bd2 = m /\ bd_fam bd2 = k /\
  exists u', parse_update cfg m' = Ok u' /\ (length m' <= bc_max_pdu)%nat /\ a_length u' = length m' /\
    a_conv_withdrawals m' u' = Some [] /\ a_conv_announcements m' u' = Some [] /\
    a_mp_announcements m' u' = Ok (match bd_ann bd2 with Some r => Some (fam_code k, Some (map Ok (r_ann r))) | None => None end) /\
    a_mp_withdrawals m' u' = Ok (match bd_wd bd2 with Some w => Some (fam_code k, Some (map Ok w)) | None => None end).
Proof. exact c07_builder_full_proof. Qed.
Print Assumptions c07_builder.

(* COMPLETE for four-octet sessions: the message the seeded builder emits is accepted, its path attributes are the MP_REACH_NLRI /
   MP_UNREACH_NLRI it needs (one each, exactly when it announces / withdraws) followed by exactly the attributes of the original
   message's map in key order - each decoding to the same attribute ([same_attr]: same type code; same owned value for recognised
   types; same value octets with PARTIAL set for unrecognised ones; same value octets for malformed ones) - and its NLRI are the
   NLRI of the original message.  (Under a two-octet session the builder still writes four-octet AS numbers - compose has no
   width parameter - so the attribute clause is stated for the four-octet configuration, as in c07_direct.) *)
Theorem c07_builder_complete : forall cfg b u k m bd1 bd2 m',
  sc_four cfg = true ->
  parse_update cfg b = Ok u -> wf_bytes b -> N.of_nat (3 * length b) <= 65535 ->
  a_pamap b u = Ok m ->
  let ap := rx_addpath cfg (fam_code k) in
  add_announcements_from_pdu b u ap (mkB k None None m) = Ok bd1 -> add_withdrawals_from_pdu b u ap bd1 = Ok bd2 ->
  into_message cfg bd2 = Ok (MOk m') ->
  exists u' mp ws', parse_update cfg m' = Ok u' /\
    a_path_attributes m' u' = map Ok (mp ++ ws') /\ Forall2 same_attr (map snd m) ws' /\
    Forall (fun w => wattr_code w = 14 \/ wattr_code w = 15) mp /\
    length mp = ((match bd_ann bd2 with Some _ => 1 | None => 0 end) + (match bd_wd bd2 with Some _ => 1 | None => 0 end))%nat /\
    a_conv_withdrawals m' u' = Some [] /\ a_conv_announcements m' u' = Some [] /\
    a_mp_announcements m' u' = Ok (match bd_ann bd2 with Some r => Some (fam_code k, Some (map Ok (r_ann r))) | None => None end) /\
    a_mp_withdrawals m' u' = Ok (match bd_wd bd2 with Some w => Some (fam_code k, Some (map Ok w)) | None => None end).
Proof. exact c07_builder_complete_proof. Qed.
Print Assumptions c07_builder_complete.

(* and the NLRI the seeded builder holds are exactly values of that kind *)
Theorem c07_readded_wellformed : forall b u k ap m bd1 bd2,
  wf_bytes b ->
  add_announcements_from_pdu b u ap (mkB k None None m) = Ok bd1 -> add_withdrawals_from_pdu b u ap bd1 = Ok bd2 ->
  Forall (nlri_ok k ap) (ann_of bd2) /\ Forall (nlri_ok k ap) (wd_of bd2).
Proof. exact readded_ok. Qed.
Print Assumptions c07_readded_wellformed.

(* the NLRI a builder receives from the message are exactly the items of the typed iterator *)
Theorem c07_readded_announcements : forall b u ap bd bd1,
  add_announcements_from_pdu b u ap bd = Ok bd1 ->
  bd_fam bd1 = bd_fam bd /\ bd_attrs bd1 = bd_attrs bd /\ bd_wd bd1 = bd_wd bd /\
  (bd1 = bd \/
   exists l, bd_ann bd1 = Some (mkReach (match bd_ann bd with Some r => r_ann r | None => [] end ++ l)
                                          (match bd_ann bd with Some r => r_nh r | None => default_nh (bd_fam bd) end)) /\
             match typed_announcements b u (bd_fam bd) ap with Ok (Some it) => it = map Ok l | _ => l = [] end).
Proof. exact add_ann_spec. Qed.
Print Assumptions c07_readded_announcements.

(* non-vacuity: an accepted message with an unknown attribute using the extended-length encoding for a 3-octet value, a
   malformed ORIGIN and a valid MED *)
Example c07_example :
  let b := Open.marker ++ [0; 42; 2; 0; 0; 0; 19] ++ [240; 99; 0; 3; 7; 8; 9] ++ [64; 1; 2; 0; 0] ++ [128; 4; 4; 0; 0; 0; 5] in
  wf_bytesb b = true /\ (N.of_nat (3 * length b) <=? 65535) = true /\
  match parse_update (mkSC false []) b with
  | Ok u => match owned_all (a_path_attributes b u) with
            | Ok [AUnimpl 240 99 [7; 8; 9]; AInvalid 64 1 [0; 0]; AU32 4 5] => True
            | _ => False
            end
  | _ => False
  end.
Proof. vm_compute. split; [reflexivity|split; [reflexivity|exact I]]. Qed.

(* non-vacuity of the builder theorems: an accepted UPDATE announcing 10.1.2.0/24 with ORIGIN, AS_PATH and NEXT_HOP goes through
   from_update_message, add_announcements_from_pdu, add_withdrawals_from_pdu and into_message, and a message comes out *)
Example c07_builder_example :
  let b := Open.marker ++ [0; 41; 2; 0; 0; 0; 14] ++ [64; 1; 1; 0] ++ [64; 2; 0] ++ [64; 3; 4; 10; 0; 0; 1] ++ [24; 10; 1; 2] in
  let cfg := mkSC true [] in
  wf_bytesb b = true /\ (N.of_nat (3 * length b) <=? 65535) = true /\ sc_four cfg = true /\
  match parse_update cfg b with
  | Ok u => match a_pamap b u with
            | Ok m => match add_announcements_from_pdu b u (rx_addpath cfg (fam_code Ipv4Unicast)) (mkB Ipv4Unicast None None m) with
                      | Ok bd1 => match add_withdrawals_from_pdu b u (rx_addpath cfg (fam_code Ipv4Unicast)) bd1 with
                                  | Ok bd2 => match into_message cfg bd2 with Ok (MOk m') => ann_of bd2 <> [] /\ length m' = 53%nat | _ => False end
                                  | _ => False end
                      | _ => False end
            | _ => False end
  | _ => False end.
Proof. vm_compute. repeat split; discriminate. Qed.

