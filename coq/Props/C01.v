(* C01 - UPDATE decoding reports exactly what is on the wire.
   [ref_encode] (Model/RefEncUpdate.v) is an independent encoder of abstract UPDATE contents:
   conventional withdrawals and announcements (IPv4 unicast, with path ids exactly when the session
   negotiated ADD-PATH reception for it), any list of path attributes given as (flags, type, value) in any
   order (typed values enter through c01_typed_value, MP_REACH / MP_UNREACH through mp_reach_value /
   mp_unreach_value of any of the 13 families).  No bound on counts or sizes other than the 16-bit length fields. *)
From Coq Require Import List NArith Bool.
From RC Require Import Base.Res Base.Wire Model.Open Model.Negotiate Model.Nlri Gen.AttrRules Model.AsPath Model.Attr
     Proofs.AttrProofs Model.Update Model.RefEncUpdate Proofs.C01Proofs.
Import ListNotations.
Open Scope N_scope.

Section C01.
  Variables (cfg : sconfig) (c : content) (W Nl : bytes).
  Hypothesis Hwf : wf_content cfg c = true.
  Hypothesis HW : encode_all (c_wd c) = Ok W.
  Hypothesis HN : encode_all (c_ann c) = Ok Nl.
  Let A := flat_map enc_attr (c_attrs c).
  Hypothesis Hsize : N.of_nat (23 + length W + length A + length Nl) <= 65535.
  Let b := marker ++ be 2 (N.of_nat (23 + length W + length A + length Nl)) ++ [2] ++
           be 2 (N.of_nat (length W)) ++ W ++ be 2 (N.of_nat (length A)) ++ A ++ Nl.
  Let u := expected_upd cfg c W Nl.

  (* the message is accepted; its sections are exactly the encoded ones and the parse info follows the session *)
  Theorem c01_accepted : ref_encode c = Ok b /\ parse_update cfg b = Ok u.
  Proof. split; [exact (ref_encode_is c W Nl HW HN)|exact (c01_parse_proof cfg c W Nl Hwf HW HN Hsize)]. Qed.

  Theorem c01_section_lengths :
    a_length u = length b /\ a_withdrawn_routes_len u = length W /\ a_total_path_attribute_len u = length A.
  Proof. intros; eapply (c01_sections_proof cfg c W Nl); eassumption. Qed.

  (* the sequence of path attributes, with their wire flags, type codes and values, in order *)
  Theorem c01_path_attributes :
    a_path_attributes b u = map (fun a => Ok (expected_wattr (sc_four cfg) a)) (c_attrs c).
  Proof. intros; eapply (c01_attrs_proof cfg c W Nl); eassumption. Qed.

  (* conventional withdrawals and announcements, including path identifiers *)
  Theorem c01_conventional_nlri :
    a_conv_withdrawals b u = Some (map Ok (c_wd c)) /\ a_conv_announcements b u = Some (map Ok (c_ann c)).
  Proof. intros; eapply (c01_conv_proof cfg c W Nl); eassumption. Qed.

  (* announcements / withdrawals of every supported family carried in the MP attributes *)
  Theorem c01_mp_reach : forall a fam k nh l enc,
    find (fun s => as_code s =? 14) (c_attrs c) = Some a ->
    fst fam < 65536 -> snd fam < 256 -> fam_of fam = Some k -> N.of_nat (length nh) < 256 ->
    encode_all l = Ok enc ->
    Forall (fun n => wf_nlri n = true /\ n_fam n = k /\
                     (match n_pathid n with Some _ => true | None => false end) = pp_reach (u_ppi u)) l ->
    as_value a = mp_reach_value fam nh enc ->
    a_mp_announcements b u = Ok (Some (fam, Some (map Ok l))).
  Proof. intros; eapply (c01_mp_reach_proof cfg c W Nl); eassumption. Qed.

  Theorem c01_mp_unreach : forall a fam k l enc,
    find (fun s => as_code s =? 15) (c_attrs c) = Some a ->
    fst fam < 65536 -> snd fam < 256 -> fam_of fam = Some k ->
    encode_all l = Ok enc ->
    Forall (fun n => wf_nlri n = true /\ n_fam n = k /\
                     (match n_pathid n with Some _ => true | None => false end) = pp_unreach (u_ppi u)) l ->
    as_value a = mp_unreach_value fam enc ->
    a_mp_withdrawals b u = Ok (Some (fam, Some (map Ok l))).
  Proof. intros; eapply (c01_mp_unreach_proof cfg c W Nl); eassumption. Qed.

  (* the next hop of the MP_REACH_NLRI attribute, in every form NextHop::parse admits for the family (one or two IPv6 addresses,
     RD + address for the VPN families, IPv4 or IPv6 for the labelled ones, none for FlowSpec) *)
  Theorem c01_mp_next_hop : forall a fam k nhv enc,
    find (fun s => as_code s =? 14) (c_attrs c) = Some a ->
    fst fam < 65536 -> snd fam < 256 -> fam_of fam = Some k -> nh_fits k nhv = true ->
    as_value a = mp_reach_value fam (nh_octets nhv) enc ->
    a_mp_next_hop b u = Ok (Some (fam, nhv)).
  Proof. intros; eapply (c01_mp_next_hop_proof cfg c W Nl); eassumption. Qed.

  (* find_next_hop(family): that next hop for the family of the attribute, an error for another family - except IPv4 unicast,
     which falls back to the NEXT_HOP attribute; without MP_REACH_NLRI only IPv4 unicast has a next hop, the NEXT_HOP attribute *)
  Theorem c01_find_next_hop : forall a fam k nhv enc,
    find (fun s => as_code s =? 14) (c_attrs c) = Some a ->
    fst fam < 65536 -> snd fam < 256 -> fam_of fam = Some k -> nh_fits k nhv = true ->
    as_value a = mp_reach_value fam (nh_octets nhv) enc ->
    a_find_next_hop b u fam = Ok (FMp nhv) /\
    (forall probe, fam_eq fam probe = false -> fam_eq probe (1, 1) = false -> a_find_next_hop b u probe = Err) /\
    (fam_eq fam (1, 1) = false ->
     a_find_next_hop b u (1, 1) = match a_conventional_next_hop b u with Ok (Some x) => Ok (FConv x) | Panic => Panic | _ => Err end).
  Proof. intros; eapply (c01_find_next_hop_proof cfg c W Nl); eassumption. Qed.

  Theorem c01_find_next_hop_conventional :
    find (fun s => as_code s =? 14) (c_attrs c) = None ->
    a_mp_next_hop b u = Ok None /\
    a_find_next_hop b u (1, 1) = match a_conventional_next_hop b u with Ok (Some x) => Ok (FConv x) | Panic => Panic | _ => Err end /\
    (forall probe, fam_eq probe (1, 1) = false -> a_find_next_hop b u probe = Err).
  Proof. intros; eapply (c01_find_next_hop_conventional_proof cfg c W Nl); eassumption. Qed.

  (* End-of-RIB: recognised for exactly the family it denotes ... *)
  Theorem c01_eor_ipv4 : c_wd c = [] -> c_attrs c = [] -> c_ann c = [] -> a_is_eor b u = Some (1, 1).
  Proof. intros; eapply (c01_eor_conventional_proof cfg c W Nl); eassumption. Qed.

  Theorem c01_eor_mp : forall a fam k,
    c_wd c = [] -> c_ann c = [] -> c_attrs c = [a] -> as_code a = 15 ->
    fst fam < 65536 -> snd fam < 256 -> fam_of fam = Some k -> as_value a = mp_unreach_value fam [] ->
    a_is_eor b u = Some fam.
  Proof. intros; eapply (c01_eor_mp_proof cfg c W Nl); eassumption. Qed.

  (* ... and a message carrying conventional NLRI is never End-of-RIB *)
  Theorem c01_not_eor_with_nlri : (c_wd c <> [] \/ c_ann c <> []) -> a_is_eor b u = None.
  Proof. intros; eapply (c01_not_eor_with_conventional_nlri_proof cfg c W Nl); eassumption. Qed.
End C01.
Print Assumptions c01_accepted.
Print Assumptions c01_section_lengths.
Print Assumptions c01_path_attributes.
Print Assumptions c01_conventional_nlri.
Print Assumptions c01_mp_reach.
Print Assumptions c01_mp_unreach.
Print Assumptions c01_mp_next_hop.
Print Assumptions c01_find_next_hop.
Print Assumptions c01_find_next_hop_conventional.
Print Assumptions c01_eor_ipv4.
Print Assumptions c01_eor_mp.
Print Assumptions c01_not_eor_with_nlri.

(* a typed attribute value of any of the 20 kinds, placed in a message, is reported as that value *)
Theorem c01_typed_value : forall x v, wf_attr x = true -> value_bytes x = Ok v ->
  let a := mkAS (canon_flags (attr_code x)) (attr_code x) v in
  wf_spec a = true /\ enc_attr a = header (canon_flags (attr_code x)) (attr_code x) (length v) ++ v /\
  to_owned (expected_wattr true a) = Ok x.
Proof. exact c01_typed_value_proof. Qed.
Print Assumptions c01_typed_value.

(* non-vacuity: a content with every section satisfies the hypotheses *)
Example c01_example :
  let cfg := mkSC true [((1, 1), 3)] in
  let c := mkContent [mkNlri Ipv4Unicast (Some 7) (BPrefix (mkPfx false 8 [10; 0; 0; 0]))]
                     [mkAS 64 1 [0]; mkAS 64 2 [2; 1; 0; 0; 253; 232]; mkAS 192 99 [1; 2; 3];
                      mkAS 128 15 (mp_unreach_value (2, 1) [])]
                     [mkNlri Ipv4Unicast (Some 9) (BPrefix (mkPfx false 24 [192; 0; 2; 0]))] in
  wf_content cfg c = true /\ exists W Nl, encode_all (c_wd c) = Ok W /\ encode_all (c_ann c) = Ok Nl.
Proof. cbv zeta. split; [vm_compute; reflexivity|]. eexists. eexists. split; vm_compute; reflexivity. Qed.
