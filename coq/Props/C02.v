(* C02 - no byte sequence can panic or hang UPDATE decoding or its accessors.
   Every Rust panic site of the modelled code is an explicit [Panic] result, so "cannot panic"
   is a theorem about the model; iterators are fuel-driven machines whose fuel is shown to suffice. *)
From Coq Require Import List NArith Bool.
From RC Require Import Base.Res Base.Wire Model.Negotiate Model.Nlri Model.AsPath Model.Attr Model.Update Proofs.UpdateTotal.
Import ListNotations.
Open Scope N_scope.

(* for every byte string (no length bound) and every session configuration: a message or an error *)
Theorem c02_parse_total : forall cfg b, parse_update cfg b <> Panic.
Proof. exact c02_parse_total_proof. Qed.
Check c02_parse_total : forall cfg b, parse_update cfg b <> Panic.
Print Assumptions c02_parse_total.

(* every NLRI iterator ends after at most as many items as the section has octets; an item-level
   error is the last item; no item is a panic *)
Theorem c02_nlri_iter_bounded : forall k ap p,
  exists l, nlri_iter (S (remaining p)) k ap p = Some l /\ ok_then_maybe_err l = true /\ (length l <= remaining p)%nat.
Proof. intros. apply nlri_iter_total. auto. Qed.
Print Assumptions c02_nlri_iter_bounded.

Theorem c02_conventional_sections : forall b u r,
  exists l, conv_iter b u r = Some l /\ ok_then_maybe_err l = true /\ (length l <= length (sub b r))%nat.
Proof. exact c02_nlri_total_proof. Qed.
Print Assumptions c02_conventional_sections.

Theorem c02_mp_sections : forall b u code ap skip,
  mp_iter b u code ap skip <> Panic /\
  forall fam it, mp_iter b u code ap skip = Ok (Some (fam, it)) ->
    exists l, it = Some l /\ ok_then_maybe_err l = true /\ (length l <= length (attr_bytes b u))%nat.
Proof. exact c02_mp_total_proof. Qed.
Print Assumptions c02_mp_sections.

(* path attribute items are never a panic and converting any of them to the owned form never panics *)
Theorem c02_attribute_items : forall b u,
  ~ In Panic (a_path_attributes b u) /\ forall w, In (Ok w) (a_path_attributes b u) -> to_owned w <> Panic.
Proof. exact c02_items_total_proof. Qed.
Print Assumptions c02_attribute_items.

(* the typed getters never panic (whatever the message) *)
Theorem c02_typed_getters : forall b u,
  a_origin b u <> Panic /\ a_aspath b u <> Panic /\ a_as4path b u <> Panic /\ a_aggregator b u <> Panic /\
  (forall c, a_u32 b u c <> Panic).
Proof. exact c02_typed_total_proof. Qed.
Print Assumptions c02_typed_getters.

(* the next-hop accessors: mp_next_hop, and find_next_hop for every address family asked for *)
Theorem c02_next_hop_accessors : forall b u,
  a_mp_next_hop b u <> Panic /\ (forall fam, a_find_next_hop b u fam <> Panic).
Proof. exact c02_next_hop_total_proof. Qed.
Print Assumptions c02_next_hop_accessors.

Theorem c02_community_iterators : forall b u code k,
  In (code, k) [(8, 4%nat); (16, 8%nat); (25, 20%nat); (32, 12%nat)] -> a_communities b u code k <> Panic.
Proof. exact c02_communities_total_proof. Qed.
Print Assumptions c02_community_iterators.

(* the all-or-nothing collections agree with what the iterators yield *)
Theorem c02_vec_agrees : forall l v, collect_all l = Ok v <-> l = map Ok v.
Proof. exact collect_all_ok. Qed.
Print Assumptions c02_vec_agrees.

Theorem c02_vec_fails_on_item_error : forall l, ok_then_maybe_err l = true -> (collect_all l = Err <-> In Err l).
Proof. exact collect_all_err. Qed.
Print Assumptions c02_vec_fails_on_item_error.
