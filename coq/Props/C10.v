(* C10 - route preference is a weak order that implements the RFC 4271 tie-breakers.
   Gen/CmpChain.v (the order of the then_with steps) is regenerated from /repo on every run;
   the step bodies, eligible(), step_c and the AS-path helpers are pinned by hash. *)
From Coq Require Import List NArith Bool.
From RC Require Import Base.Res Base.Lex Gen.CmpChain Model.Select Proofs.LexProofs Proofs.C10Proofs.
Import ListNotations.
Open Scope N_scope.

(* comparing two eligible routes = the RFC 4271 9.1.2.2 steps (+ RFC 4456), computed by the
   independent key-vector reference [rfc_decide]; in particular it never panics *)
Theorem c10_ref : forall s a b, eligible a = true -> eligible b = true ->
  cmp_route s a b = Ok (rfc_decide s a b).
Proof. exact c10_ref_proof. Qed.
Check c10_ref : forall s a b, eligible a = true -> eligible b = true -> cmp_route s a b = Ok (rfc_decide s a b).
Print Assumptions c10_ref.

(* MED comparison disabled: strict weak order, and == (cmp = Equal) is an equivalence consistent with it *)
Theorem c10_skipmed_weak : forall a b c,
  eligible a = true -> eligible b = true -> eligible c = true ->
  let cmp := cmp_route SkipMed in
  cmp a a = Ok Eq /\
  (cmp a b = Ok Lt -> cmp b c = Ok Lt -> cmp a c = Ok Lt) /\
  (cmp a b = Ok Eq -> cmp b c = Ok Eq -> cmp a c = Ok Eq) /\
  (cmp a b = Ok Eq -> cmp b c = Ok Lt -> cmp a c = Ok Lt) /\
  (cmp a b = Ok Lt -> cmp b c = Ok Eq -> cmp a c = Ok Lt).
Proof.
  intros a b c Ea Eb Ec. cbv zeta. repeat split.
  - now apply skipmed_refl.
  - now apply skipmed_trans.
  - now apply skipmed_incomp_trans.
  - now apply skipmed_eq_lt.
  - now apply skipmed_lt_eq.
Qed.
Print Assumptions c10_skipmed_weak.

(* antisymmetry holds for both strategies (with MED enabled too) *)
Theorem c10_antisym : forall s a b, eligible a = true -> eligible b = true ->
  exists x, cmp_route s a b = Ok x /\ cmp_route s b a = Ok (CompOpp x).
Proof. exact c10_antisym_proof. Qed.
Check c10_antisym : forall s a b, eligible a = true -> eligible b = true -> exists x, cmp_route s a b = Ok x /\ cmp_route s b a = Ok (CompOpp x).
Print Assumptions c10_antisym.

(* why C11 is stated for weak orders: with MED enabled there is a preference cycle *)
Theorem c10_med_not_transitive : exists a b c,
  eligible a = true /\ eligible b = true /\ eligible c = true /\
  cmp_route Rfc4271 c a = Ok Lt /\ cmp_route Rfc4271 a b = Ok Gt /\ cmp_route Rfc4271 b c = Ok Gt.
Proof. exists wa, wb, wc. exact c10_med_not_transitive_proof. Qed.
Print Assumptions c10_med_not_transitive.

(* refused at construction: exactly the routes lacking ORIGIN or AS_PATH, and eBGP routes without a neighbour AS *)
Theorem c10_refused : forall r,
  eligible r = false <->
  (r_origin r = None \/ r_path r = None \/
   (r_ibgp r = false /\ match r_path r with Some p => neighbor_ps p = None | None => True end)).
Proof. exact c10_refused_proof. Qed.
Check c10_refused : forall r, eligible r = false <-> (r_origin r = None \/ r_path r = None \/ (r_ibgp r = false /\ match r_path r with Some p => neighbor_ps p = None | None => True end)).
Print Assumptions c10_refused.

(* the path-selection hop count: sequence AS numbers plus AS_SETs, other segments ignored *)
Theorem c10_hopcount : forall l,
  hop_count_ps l = N.of_nat (length (filter is_seq_asn l)) + N.of_nat (length (filter is_set l)).
Proof. exact c10_hopcount_proof. Qed.
Check c10_hopcount : forall l, hop_count_ps l = N.of_nat (length (filter is_seq_asn l)) + N.of_nat (length (filter is_set l)).
Print Assumptions c10_hopcount.
