(* C12 - negotiated parse configuration matches the capabilities both sides sent.
   Gen/Merge.v (the seven merge arms and the rx rule) is regenerated from /repo on every run. *)
From Coq Require Import List NArith Bool.
From RC Require Import Base.Res Base.Wire Gen.Merge Model.Negotiate Proofs.NegotiateProofs Proofs.C12Proofs Proofs.C12Live Proofs.C12Reneg Gen.FsmTable Model.Fsm Proofs.C08Proofs.
Import ListNotations.
Open Scope N_scope.

(* the merge table is the RFC 7911 rule on all 9 pairs of present directions (absent: see c12_get) *)
Theorem c12_merge_table :
  forall a b, In a [1; 2; 3] -> In b [1; 2; 3] -> merge a b = dir_spec (Some a) (Some b).
Proof. exact c12_merge_table_proof. Qed.
Check c12_merge_table : forall a b, In a [1; 2; 3] -> In b [1; 2; 3] -> merge a b = dir_spec (Some a) (Some b).
Print Assumptions c12_merge_table.

(* for every family: the derived direction is (receive iff local recv/both and peer send/both,
   send symmetrically); each family at most once in the local OPEN, any split into capabilities *)
Theorem c12_get :
  forall sent rcvd mine other f,
    addpath_families_vec sent = Ok mine -> addpath_families_vec rcvd = Ok other -> NoDup (keys mine) ->
    get_addpath (session_config sent rcvd) f = dir_spec (find_fam mine f) (find_fam other f).
Proof. intros; now apply c12_get_proof. Qed.
Check c12_get : forall sent rcvd mine other f, addpath_families_vec sent = Ok mine -> addpath_families_vec rcvd = Ok other -> NoDup (keys mine) -> get_addpath (session_config sent rcvd) f = dir_spec (find_fam mine f) (find_fam other f).
Print Assumptions c12_get.

Theorem c12_rx :
  forall sent rcvd mine other f,
    addpath_families_vec sent = Ok mine -> addpath_families_vec rcvd = Ok other -> NoDup (keys mine) ->
    rx_addpath (session_config sent rcvd) f = rx_spec (find_fam mine f) (find_fam other f).
Proof. intros; now apply c12_rx_proof. Qed.
Check c12_rx : forall sent rcvd mine other f, addpath_families_vec sent = Ok mine -> addpath_families_vec rcvd = Ok other -> NoDup (keys mine) -> rx_addpath (session_config sent rcvd) f = rx_spec (find_fam mine f) (find_fam other f).
Print Assumptions c12_rx.

(* swapping the two OPENs swaps send and receive *)
Theorem c12_swap :
  forall sent rcvd mine other f,
    addpath_families_vec sent = Ok mine -> addpath_families_vec rcvd = Ok other ->
    NoDup (keys mine) -> NoDup (keys other) ->
    get_addpath (session_config sent rcvd) f = option_map swap_dir (get_addpath (session_config rcvd sent) f).
Proof. exact c12_swap_proof. Qed.
Check c12_swap : forall sent rcvd mine other f, addpath_families_vec sent = Ok mine -> addpath_families_vec rcvd = Ok other -> NoDup (keys mine) -> NoDup (keys other) -> get_addpath (session_config sent rcvd) f = option_map swap_dir (get_addpath (session_config rcvd sent) f).
Print Assumptions c12_swap.

(* four-octet decoding iff both OPENs carry capability 65; BMP per-peer-header variant *)
Theorem c12_four_octet :
  forall sent rcvd, sc_four (session_config sent rcvd) = four_octet_capable sent && four_octet_capable rcvd.
Proof. exact c12_four_octet_proof. Qed.
Check c12_four_octet : forall sent rcvd, sc_four (session_config sent rcvd) = four_octet_capable sent && four_octet_capable rcvd.
Print Assumptions c12_four_octet.

Theorem c12_four_octet_pph :
  forall legacy sent rcvd,
    sc_four (fst (pph_session_config legacy sent rcvd)) = negb legacy /\
    (snd (pph_session_config legacy sent rcvd) = false <->
     negb legacy = (four_octet_capable sent && four_octet_capable rcvd)).
Proof. exact c12_four_octet_pph_proof. Qed.
Check c12_four_octet_pph : forall legacy sent rcvd, sc_four (fst (pph_session_config legacy sent rcvd)) = negb legacy /\ (snd (pph_session_config legacy sent rcvd) = false <-> negb legacy = (four_octet_capable sent && four_octet_capable rcvd)).
Print Assumptions c12_four_octet_pph.

(* the BMP per-peer-header derivation holds the same ADD-PATH directions as the OPEN-based one *)
Theorem c12_same_pph :
  forall sent rcvd mine other legacy f,
    addpath_families_vec sent = Ok mine -> addpath_families_vec rcvd = Ok other -> NoDup (keys mine) ->
    get_addpath (fst (pph_session_config legacy sent rcvd)) f = get_addpath (session_config sent rcvd) f.
Proof. intros; now apply (c12_pph_get_proof sent rcvd mine other). Qed.
Check c12_same_pph : forall sent rcvd mine other legacy f, addpath_families_vec sent = Ok mine -> addpath_families_vec rcvd = Ok other -> NoDup (keys mine) -> get_addpath (fst (pph_session_config legacy sent rcvd)) f = get_addpath (session_config sent rcvd) f.
Print Assumptions c12_same_pph.

(* the live session (local side: SendReceive for its configured families, capability 65 always) *)
Theorem c12_live :
  forall local rcvd other c f,
    addpath_families_vec rcvd = Ok other -> NoDup (keys other) ->
    live_session_config local rcvd = Ok c ->
    get_addpath c f = dir_spec (if existsb (fam_eqb f) local then Some 3 else None) (find_fam other f)
    /\ sc_four c = four_octet_capable rcvd.
Proof. exact c12_live_proof. Qed.
Check c12_live : forall local rcvd other c f, addpath_families_vec rcvd = Ok other -> NoDup (keys other) -> live_session_config local rcvd = Ok c -> get_addpath c f = dir_spec (if existsb (fam_eqb f) local then Some 3 else None) (find_fam other f) /\ sc_four c = four_octet_capable rcvd.
Print Assumptions c12_live.

(* "holds identically for the live session": what the live session derives is what the OPEN-pair derivation (c12_get, c12_four_octet:
   the one used for BMP Peer Up) gives for the OPEN the session itself sends - capability 65 and ADD-PATH send+receive for every
   configured family, Fsm.sent_open_caps - and the peer's OPEN *)
Theorem c12_live_is_pair : forall asn4 local rcvd other c f,
  Forall (fun g => fst g < 65536 /\ snd g < 256) local -> NoDup local ->
  addpath_families_vec rcvd = Ok other -> NoDup (keys other) ->
  live_session_config local rcvd = Ok c ->
  get_addpath c f = get_addpath (session_config (sent_caps asn4 local) rcvd) f /\
  sc_four c = sc_four (session_config (sent_caps asn4 local) rcvd).
Proof. exact c12_live_is_pair_proof. Qed.
Print Assumptions c12_live_is_pair.

(* the capabilities [sent_caps] stands for are the ones the FSM model says the session sends *)
Theorem c12_sent_caps_are_the_sent_open : forall asn4 s,
  Forall (fun g => fst g < 65536 /\ snd g < 256) (s_local_ap s) ->
  addpath_families_vec (sent_caps asn4 (s_local_ap s)) = Ok (snd (sent_open_caps s)) /\
  four_octet_capable (sent_caps asn4 (s_local_ap s)) = fst (sent_open_caps s).
Proof. intros asn4 s H. exact (sent_caps_vec asn4 (s_local_ap s) H). Qed.
Print Assumptions c12_sent_caps_are_the_sent_open.

Theorem c12_malformed :
  forall sent rcvd f, (addpath_families_vec sent = Err \/ addpath_families_vec rcvd = Err) ->
    get_addpath (session_config sent rcvd) f = None.
Proof. exact c12_malformed_proof. Qed.
Check c12_malformed : forall sent rcvd f, (addpath_families_vec sent = Err \/ addpath_families_vec rcvd = Err) -> get_addpath (session_config sent rcvd) f = None.
Print Assumptions c12_malformed.

(* non-vacuity: a concrete pair of capability lists meets the hypotheses and negotiates
   receive-only for IPv4 unicast and both for IPv6 unicast *)
Example c12_example :
  let sent := [(69, [0;1;1;3; 0;2;1;3]); (65, [0;0;253;232])] in
  let rcvd := [(69, [0;1;1;2]); (69, [0;2;1;3])] in
  exists mine other, addpath_families_vec sent = Ok mine /\ addpath_families_vec rcvd = Ok other /\
    NoDup (keys mine) /\ get_addpath (session_config sent rcvd) (1, 1) = Some 1 /\
    get_addpath (session_config sent rcvd) (2, 1) = Some 3 /\ sc_four (session_config sent rcvd) = false.
Proof.
  eexists. eexists. split; [vm_compute; reflexivity|]. split; [vm_compute; reflexivity|].
  split; [repeat constructor; cbn; intuition discriminate|]. vm_compute. auto.
Qed.

(* the live session FSM: after the first accepted OPEN the connection decodes with exactly [live_session_config] of the local ADD-PATH
   families and the peer's capabilities (Gen/FsmTable.v is regenerated from Session::handle_event; the OPEN acceptance block is
   recognised by hash) *)
Theorem c12_live_session_fsm : forall s o b caps l,
  op_allowed o = true -> s_conn s = true -> s_sc s = sc_modern ->
  addpath_families_vec caps = Ok l -> op_addpath o = Ok l -> op_four o = four_octet_capable caps ->
  Ok (s_sc (fst (open_accept s o b))) = live_session_config (s_local_ap s) caps.
Proof. exact c12_live_fsm_proof. Qed.
Print Assumptions c12_live_session_fsm.

(* the live session the second time round: a Session in any state - whatever it negotiated before - gets a new socket
   (Session::attach_stream: Fsm.attach_stream); after any history of events and messages on it that are not an OPEN (hrun over
   quiet steps: timers, transport events, operator events, KEEPALIVE / UPDATE / NOTIFICATION / ROUTE-REFRESH), if the connection
   is still there the accepted OPEN yields live_session_config of the configured families and that OPEN - and therefore, by
   c12_live_is_pair, the OPEN-pair derivation for the two OPENs of this connection.  Nothing of an earlier negotiation enters. *)
Theorem c12_renegotiation : forall s hs o b caps l,
  forallb quiet hs = true ->
  s_conn (hrun (fst (attach_stream s)) hs) = true ->
  op_allowed o = true -> addpath_families_vec caps = Ok l -> op_addpath o = Ok l -> op_four o = four_octet_capable caps ->
  Ok (s_sc (fst (open_accept (hrun (fst (attach_stream s)) hs) o b))) = live_session_config (s_local_ap s) caps.
Proof. exact c12_renegotiation_proof. Qed.
Print Assumptions c12_renegotiation.

(* non-vacuity: a session that negotiated ADD-PATH both ways for IPv4 unicast and reached Established loses its connection, is
   started again and gets a new socket; two quiet steps later the peer's OPEN offers "send" for IPv6 unicast only: the
   new connection receives path ids for IPv6 unicast and none for IPv4 unicast *)
Example c12_renegotiation_example :
  let o1 := mkOpen true 90 [10;0;0;2] 65001 (Ok [((1, 1), 3)]) true in
  let o2 := mkOpen true 90 [10;0;0;2] 65001 (Ok [((2, 1), 2)]) false in
  let run s h := hrun s h in
  let s0 := init false true 90 [(1, 1); (2, 1)] in
  let s1 := run s0 [HEvent EManualStartWithPassiveTcpEstablishment; HEvent ETcpConnectionConfirmed] in
  let s2 := fst (handle_msg s1 (WOpen o1)) in
  let s3 := run s2 [HMsg WKeepalive; HMsg (WUpdate 1); HEvent ETcpConnectionFails; HEvent EManualStartWithPassiveTcpEstablishment] in
  let s4 := run (fst (attach_stream s3)) [HEvent EManualStart; HMsg WRouteRefresh] in
  (get_addpath (s_sc s2) (1, 1) = Some 3) /\ (s_st s3 = SActive) /\ (s_conn s3 = false) /\
  (s_conn s4 = true) /\ (s_st s4 = SOpenSent) /\
  (get_addpath (s_sc (fst (open_accept s4 o2 false))) (1, 1) = None) /\
  (get_addpath (s_sc (fst (open_accept s4 o2 false))) (2, 1) = Some 1) /\
  (sc_four (s_sc (fst (open_accept s4 o2 false))) = false).
Proof. vm_compute. repeat split; reflexivity. Qed.
