(* C14 - equality, ordering and hashing of NLRI agree with one another.
   The ordering of inetnum's Prefix (an external crate) is a parameter: any comparison that is a
   total order on prefixes (hypotheses Tp, Peq).  [matching n] = the body of [n] is of its family's kind,
   which holds for every value the Rust types can express. *)
From Coq Require Import List NArith Bool.
From RC Require Import Base.Res Base.Wire Base.Lex Model.Nlri Model.NlriOrd Proofs.LexProofs Proofs.C14Proofs.
Import ListNotations.

Section C14.
  Variable pcmp : prefix -> prefix -> comparison.
  Hypothesis Tp : TP pcmp.
  Hypothesis Peq : forall a b, pcmp a b = Eq -> a = b.

  (* total order: reflexive, antisymmetric, transitive (connex by construction: every pair compares) *)
  Theorem c14_total : TP (nlri_cmp pcmp).
  Proof. exact (tp_nlri_cmp pcmp Tp). Qed.

  (* Equal exactly when == *)
  Theorem c14_eq_iff : forall a b, matching a = true -> matching b = true ->
    (nlri_cmp pcmp a b = Eq <-> nlri_eqb a b = true).
  Proof. exact (c14_eq_iff_proof pcmp Tp Peq). Qed.

  (* == values hash identically *)
  Theorem c14_hash : forall a b, nlri_eqb a b = true -> hash_input a = hash_input b.
  Proof. exact c14_hash_proof. Qed.
End C14.
Print Assumptions c14_total.
Print Assumptions c14_eq_iff.
Print Assumptions c14_hash.

(* two ADD-PATH NLRI are equal only if both the path identifier and the NLRI proper are equal *)
Theorem c14_addpath_eq : forall k p1 p2 b1 b2,
  nlri_eqb (mkNlri k (Some p1) b1) (mkNlri k (Some p2) b2) = true <-> (p1 = p2 /\ body_eqb b1 b2 = true).
Proof. exact c14_addpath_eq_proof. Qed.
Check c14_addpath_eq : forall k p1 p2 b1 b2, nlri_eqb (mkNlri k (Some p1) b1) (mkNlri k (Some p2) b2) = true <-> (p1 = p2 /\ body_eqb b1 b2 = true).
Print Assumptions c14_addpath_eq.

(* == is Leibniz equality of the modelled value, hence independent of the buffer type holding the octets *)
Theorem c14_eqb_eq : forall a b, nlri_eqb a b = true <-> a = b.
Proof. exact nlri_eqb_eq. Qed.
Print Assumptions c14_eqb_eq.
