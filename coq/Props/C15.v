(* C15 - BMP messages decode faithfully and malformed ones cannot panic the monitor.
   Statements only; proofs live in Proofs/C15Proofs.v.  A message is its octets; [Panic] is a Rust panic, [Err] an error return;
   the enc_* functions are the reference encoder of RFC 7854 (Model/Bmp.v, specification only). *)
From Coq Require Import List NArith Bool.
From RC Require Import Base.Res Base.Wire Model.Open Model.Negotiate Model.OpenMsg Model.Update Model.Bmp Gen.BmpPins Proofs.C15Proofs Proofs.C15Open.
Import ListNotations.
Open Scope N_scope.

(* every byte string: a message or an error, never a panic *)
Theorem c15_no_panic : forall b, bmp_from_octets b <> Panic.
Proof. exact c15_no_panic_proof. Qed.
Check c15_no_panic : forall b, bmp_from_octets b <> Panic.
Print Assumptions c15_no_panic.

(* an accepted message: the common header accessors return the version, the number of octets and the type that was dispatched on *)
Theorem c15_common_header : forall b k, bmp_from_octets b = Ok k ->
  a_version b = Ok 3 /\ a_msg_length b = Ok (N.of_nat (length b)) /\
  (exists t, a_msg_type b = Ok t /\ kind_of t = Some k) /\ (6 <= length b)%nat.
Proof. exact c15_common_header_proof. Qed.
Check c15_common_header : forall b k, bmp_from_octets b = Ok k ->
  a_version b = Ok 3 /\ a_msg_length b = Ok (N.of_nat (length b)) /\
  (exists t, a_msg_type b = Ok t /\ kind_of t = Some k) /\ (6 <= length b)%nat.
Print Assumptions c15_common_header.

(* ... the per-peer header is octets 6..48 and every one of its accessors returns *)
Theorem c15_per_peer_header : forall b k, bmp_from_octets b = Ok k -> has_pph k = true ->
  exists h, a_pph b = Ok h /\ h = firstn 42 (skipn 6 b) /\ length h = 42%nat /\
    is_ok (pph_peer_type h) /\ is_ok (pph_flags h) /\ is_ok (pph_distinguisher h) /\ is_ok (pph_address h) /\ is_ok (pph_asn h) /\
    is_ok (pph_bgp_id h) /\ is_ok (pph_ts_seconds h) /\ is_ok (pph_ts_micros h) /\ is_ok (pph_timestamp h) /\ is_ok (pph_rib_type h).
Proof. exact c15_per_peer_header_proof. Qed.
Check c15_per_peer_header : forall b k, bmp_from_octets b = Ok k -> has_pph k = true ->
  exists h, a_pph b = Ok h /\ h = firstn 42 (skipn 6 b) /\ length h = 42%nat /\
    is_ok (pph_peer_type h) /\ is_ok (pph_flags h) /\ is_ok (pph_distinguisher h) /\ is_ok (pph_address h) /\ is_ok (pph_asn h) /\
    is_ok (pph_bgp_id h) /\ is_ok (pph_ts_seconds h) /\ is_ok (pph_ts_micros h) /\ is_ok (pph_timestamp h) /\ is_ok (pph_rib_type h).
Print Assumptions c15_per_peer_header.

(* ... no accessor or iterator of the message type panics, and every iterator terminates (is_ok = returns a value) *)
Theorem c15_accessors_safe : forall b k, bmp_from_octets b = Ok k ->
  match k with
  | KRouteMonitoring => forall cfg, a_bgp_update b cfg <> Panic /\ a_bgp_update b cfg = parse_update cfg (skipn COFF b)
  | KStatisticsReport => is_ok (a_stats_count b) /\ is_ok (a_stats b)
  | KPeerDown => is_ok (a_pd_reason b) /\ is_ok (a_pd_notification b) /\ is_ok (a_pd_fsm b)
  | KPeerUp => is_ok (a_pu_local_address b) /\ is_ok (a_pu_local_port b) /\ is_ok (a_pu_remote_port b) /\
               is_ok (a_pu_opens b) /\ is_ok (a_pu_open_sent b) /\ is_ok (a_pu_open_rcvd b) /\ is_ok (a_pu_information_tlvs b) /\
               (forall s r p, a_pu_opens b = Ok (s, r, p) -> a_pu_open_sent b = Ok s /\ a_pu_open_rcvd b = Ok r)
  | KInitiation => is_ok (a_init_tlvs b)
  | KTermination => is_ok (a_term_information b)
  | KRouteMirroring => True
  end.
Proof. exact c15_accessors_safe_proof. Qed.
Check c15_accessors_safe : forall b k, bmp_from_octets b = Ok k ->
  match k with
  | KRouteMonitoring => forall cfg, a_bgp_update b cfg <> Panic /\ a_bgp_update b cfg = parse_update cfg (skipn COFF b)
  | KStatisticsReport => is_ok (a_stats_count b) /\ is_ok (a_stats b)
  | KPeerDown => is_ok (a_pd_reason b) /\ is_ok (a_pd_notification b) /\ is_ok (a_pd_fsm b)
  | KPeerUp => is_ok (a_pu_local_address b) /\ is_ok (a_pu_local_port b) /\ is_ok (a_pu_remote_port b) /\
               is_ok (a_pu_opens b) /\ is_ok (a_pu_open_sent b) /\ is_ok (a_pu_open_rcvd b) /\ is_ok (a_pu_information_tlvs b) /\
               (forall s r p, a_pu_opens b = Ok (s, r, p) -> a_pu_open_sent b = Ok s /\ a_pu_open_rcvd b = Ok r)
  | KInitiation => is_ok (a_init_tlvs b)
  | KTermination => is_ok (a_term_information b)
  | KRouteMirroring => True
  end.
Print Assumptions c15_accessors_safe.

(* ---- well-formed messages of each type decode, and report what was encoded *)
Theorem c15_initiation_faithful : forall l, Forall tlv_wf l -> N.of_nat (6 + length (enc_tlvs l)) < 2 ^ 32 ->
  bmp_from_octets (enc_common 4 (enc_tlvs l)) = Ok KInitiation /\ a_init_tlvs (enc_common 4 (enc_tlvs l)) = Ok l.
Proof. exact c15_init_faithful_proof. Qed.
Check c15_initiation_faithful : forall l, Forall tlv_wf l -> N.of_nat (6 + length (enc_tlvs l)) < 2 ^ 32 ->
  bmp_from_octets (enc_common 4 (enc_tlvs l)) = Ok KInitiation /\ a_init_tlvs (enc_common 4 (enc_tlvs l)) = Ok l.
Print Assumptions c15_initiation_faithful.

Theorem c15_termination_faithful : forall l, Forall term_wf l -> N.of_nat (6 + length (enc_terms l)) < 2 ^ 32 ->
  bmp_from_octets (enc_common 5 (enc_terms l)) = Ok KTermination /\
  a_term_information (enc_common 5 (enc_terms l)) = Ok (map term_of l).
Proof. exact c15_term_faithful_proof. Qed.
Check c15_termination_faithful : forall l, Forall term_wf l -> N.of_nat (6 + length (enc_terms l)) < 2 ^ 32 ->
  bmp_from_octets (enc_common 5 (enc_terms l)) = Ok KTermination /\
  a_term_information (enc_common 5 (enc_terms l)) = Ok (map term_of l).
Print Assumptions c15_termination_faithful.

Theorem c15_statistics_faithful : forall h l, pph_wf h -> Forall stat_wf l -> N.of_nat (length l) < 2 ^ 32 ->
  let b := enc_common 1 (h ++ be 4 (N.of_nat (length l)) ++ enc_stats l) in
  N.of_nat (length b) < 2 ^ 32 ->
  bmp_from_octets b = Ok KStatisticsReport /\ a_pph b = Ok h /\
  a_stats_count b = Ok (N.of_nat (length l)) /\ a_stats b = Ok (map stat_of l).
Proof. exact c15_stats_faithful_proof. Qed.
Check c15_statistics_faithful : forall h l, pph_wf h -> Forall stat_wf l -> N.of_nat (length l) < 2 ^ 32 ->
  let b := enc_common 1 (h ++ be 4 (N.of_nat (length l)) ++ enc_stats l) in
  N.of_nat (length b) < 2 ^ 32 ->
  bmp_from_octets b = Ok KStatisticsReport /\ a_pph b = Ok h /\
  a_stats_count b = Ok (N.of_nat (length l)) /\ a_stats b = Ok (map stat_of l).
Print Assumptions c15_statistics_faithful.

(* Route Monitoring: the embedded UPDATE is handed to the UPDATE decoder byte for byte - it decodes exactly as on its own *)
Theorem c15_route_monitoring_faithful : forall h u cfg, pph_wf h -> N.of_nat (6 + length (h ++ u)) < 2 ^ 32 ->
  let b := enc_common 0 (h ++ u) in
  bmp_from_octets b = Ok KRouteMonitoring /\ a_pph b = Ok h /\ a_bgp_update b cfg = parse_update cfg u.
Proof. exact c15_rm_faithful_proof. Qed.
Check c15_route_monitoring_faithful : forall h u cfg, pph_wf h -> N.of_nat (6 + length (h ++ u)) < 2 ^ 32 ->
  let b := enc_common 0 (h ++ u) in
  bmp_from_octets b = Ok KRouteMonitoring /\ a_pph b = Ok h /\ a_bgp_update b cfg = parse_update cfg u.
Print Assumptions c15_route_monitoring_faithful.

Theorem c15_route_mirroring_faithful : forall h rest, pph_wf h -> N.of_nat (6 + length (h ++ rest)) < 2 ^ 32 ->
  let b := enc_common 6 (h ++ rest) in
  bmp_from_octets b = Ok KRouteMirroring /\ a_pph b = Ok h.
Proof. exact c15_mirror_faithful_proof. Qed.
Check c15_route_mirroring_faithful : forall h rest, pph_wf h -> N.of_nat (6 + length (h ++ rest)) < 2 ^ 32 ->
  let b := enc_common 6 (h ++ rest) in
  bmp_from_octets b = Ok KRouteMirroring /\ a_pph b = Ok h.
Print Assumptions c15_route_mirroring_faithful.

(* Peer Down: reason, the embedded NOTIFICATION byte for byte (reasons 1 and 3), the FSM event code (reason 2) *)
Theorem c15_peer_down_faithful : forall h reason tail, pph_wf h -> N.of_nat (6 + length (h ++ [reason] ++ tail)) < 2 ^ 32 -> reason < 256 ->
  let b := enc_common 2 (h ++ [reason] ++ tail) in
  (((reason = 1 \/ reason = 3) /\ tail = []) \/
   ((reason = 1 \/ reason = 3) /\ exists code sub data, tail = enc_notif code sub data /\ N.of_nat (21 + length data) < 65536) \/
   (reason = 2 /\ exists ev, tail = be 2 ev /\ ev < 65536) \/
   (reason <> 1 /\ reason <> 2 /\ reason <> 3)) ->
  bmp_from_octets b = Ok KPeerDown /\ a_pph b = Ok h /\ a_pd_reason b = Ok reason /\
  a_pd_notification b = Ok (if ((reason =? 1) || (reason =? 3)) && negb (Nat.eqb (length tail) 0) then Some tail else None) /\
  a_pd_fsm b = Ok (if reason =? 2 then Some (unbe tail) else None).
Proof. exact c15_pd_faithful_proof. Qed.
Check c15_peer_down_faithful : forall h reason tail, pph_wf h -> N.of_nat (6 + length (h ++ [reason] ++ tail)) < 2 ^ 32 -> reason < 256 ->
  let b := enc_common 2 (h ++ [reason] ++ tail) in
  (((reason = 1 \/ reason = 3) /\ tail = []) \/
   ((reason = 1 \/ reason = 3) /\ exists code sub data, tail = enc_notif code sub data /\ N.of_nat (21 + length data) < 65536) \/
   (reason = 2 /\ exists ev, tail = be 2 ev /\ ev < 65536) \/
   (reason <> 1 /\ reason <> 2 /\ reason <> 3)) ->
  bmp_from_octets b = Ok KPeerDown /\ a_pph b = Ok h /\ a_pd_reason b = Ok reason /\
  a_pd_notification b = Ok (if ((reason =? 1) || (reason =? 3)) && negb (Nat.eqb (length tail) 0) then Some tail else None) /\
  a_pd_fsm b = Ok (if reason =? 2 then Some (unbe tail) else None).
Print Assumptions c15_peer_down_faithful.

(* Peer Up: for every pair of OPEN messages that OpenMessage::parse accepts wherever they stand (open_ok), the addresses, ports,
   both OPENs byte for byte and the information TLVs come back *)
Theorem c15_peer_up_faithful : forall h la lp rp s r tl,
  pph_wf h -> length la = 16%nat -> lp < 65536 -> rp < 65536 -> open_ok s -> open_ok r -> Forall tlv_wf tl ->
  let body := h ++ la ++ be 2 lp ++ be 2 rp ++ s ++ r ++ enc_tlvs tl in
  N.of_nat (6 + length body) < 2 ^ 32 ->
  let b := enc_common 3 body in
  bmp_from_octets b = Ok KPeerUp /\ a_pph b = Ok h /\
  a_pu_local_address b = Ok (if forallb (N.eqb 0) (firstn 12 la) then (false, skipn 12 la) else (true, la)) /\
  a_pu_local_port b = Ok lp /\ a_pu_remote_port b = Ok rp /\
  a_pu_open_sent b = Ok s /\ a_pu_open_rcvd b = Ok r /\ a_pu_information_tlvs b = Ok tl.
Proof. exact c15_pu_faithful_proof. Qed.
Check c15_peer_up_faithful : forall h la lp rp s r tl,
  pph_wf h -> length la = 16%nat -> lp < 65536 -> rp < 65536 -> open_ok s -> open_ok r -> Forall tlv_wf tl ->
  let body := h ++ la ++ be 2 lp ++ be 2 rp ++ s ++ r ++ enc_tlvs tl in
  N.of_nat (6 + length body) < 2 ^ 32 ->
  let b := enc_common 3 body in
  bmp_from_octets b = Ok KPeerUp /\ a_pph b = Ok h /\
  a_pu_local_address b = Ok (if forallb (N.eqb 0) (firstn 12 la) then (false, skipn 12 la) else (true, la)) /\
  a_pu_local_port b = Ok lp /\ a_pu_remote_port b = Ok rp /\
  a_pu_open_sent b = Ok s /\ a_pu_open_rcvd b = Ok r /\ a_pu_information_tlvs b = Ok tl.
Print Assumptions c15_peer_up_faithful.

(* open_ok is satisfiable: an OPEN without optional parameters *)
Theorem c15_open_ok_example : forall a1 a2 h1 h2 i1 i2 i3 i4,
  open_ok (bgp_header 29 1 ++ [4; a1; a2; h1; h2; i1; i2; i3; i4; 0]).
Proof. exact open_ok_plain. Qed.
Check c15_open_ok_example : forall a1 a2 h1 h2 i1 i2 i3 i4,
  open_ok (bgp_header 29 1 ++ [4; a1; a2; h1; h2; i1; i2; i3; i4; 0]).
Print Assumptions c15_open_ok_example.

(* the dispatch of the model is the MessageType table generated from the source, and its payload offset the source's COFF *)
Theorem c15_dispatch_table : (forall t, kind_of t = option_map kind_of_mt (mt_lookup bmp_msg_types t)) /\ COFF = bmp_coff.
Proof. exact c15_dispatch_table_proof. Qed.
Check c15_dispatch_table : (forall t, kind_of t = option_map kind_of_mt (mt_lookup bmp_msg_types t)) /\ COFF = bmp_coff.
Print Assumptions c15_dispatch_table.

(* the two OPEN messages a Peer Up notification hands out have passed OpenMessage's own check: by C03 (c03_open_accessors_total,
   c03_open_accepted_is) none of their accessors - capabilities, my_asn, multiprotocol_ids, addpath_families .. - panics *)
Theorem c15_embedded_opens_checked : forall b s r p, a_pu_opens b = Ok (s, r, p) -> open_check s = Ok tt /\ open_check r = Ok tt.
Proof. exact c15_embedded_opens_checked_proof. Qed.
Check c15_embedded_opens_checked : forall b s r p, a_pu_opens b = Ok (s, r, p) -> open_check s = Ok tt /\ open_check r = Ok tt.
Print Assumptions c15_embedded_opens_checked.

(* and conversely every OPEN that passes OpenMessage's own check (C03: exactly the encodings of fixed fields and ok parameters)
   satisfies open_ok: c15_peer_up_faithful holds for every pair of checked OPEN messages *)
Theorem c15_open_ok_checked : forall o, open_check o = Ok tt -> open_ok o.
Proof. exact open_ok_of_check. Qed.
Check c15_open_ok_checked : forall o, open_check o = Ok tt -> open_ok o.
Print Assumptions c15_open_ok_checked.
