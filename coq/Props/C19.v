(* C19 - communities keep their raw value through every representation.
   Statements only; proofs live in Proofs/C19Proofs.v.  The well-known table and the ExtendedCommunity::types table are
   regenerated from /repo on every run (Gen/CommTables.v).  A community is its raw octets; text is a list of ASCII codes. *)
From Coq Require Import List NArith Bool.
From RC Require Import Base.Wire Base.Text Gen.CommTables Model.Comm Proofs.C19Proofs.
Import ListNotations.
Open Scope N_scope.

(* building from raw octets and reading them back is the identity, for the four widths *)
Theorem c19_raw_id :
  forall r c, comm_from_raw r = Some c -> comm_raw c = r /\ In (length r) [4; 8; 12; 20]%nat.
Proof. exact c19_raw_id_proof. Qed.
Check c19_raw_id : forall r c, comm_from_raw r = Some c -> comm_raw c = r /\ In (length r) [4; 8; 12; 20]%nat.
Print Assumptions c19_raw_id.

Theorem c19_raw_total :
  forall r, In (length r) [4; 8; 12; 20]%nat -> exists c, comm_from_raw r = Some c.
Proof. exact c19_raw_total_proof. Qed.
Check c19_raw_total : forall r, In (length r) [4; 8; 12; 20]%nat -> exists c, comm_from_raw r = Some c.
Print Assumptions c19_raw_total.

(* every standard community - well-known names, unrecognised well-known values, reserved, private - parses back from its text *)
Theorem c19_std_text :
  forall r, length r = 4%nat -> wf_bytes r -> std_from_str (std_display r) = Some r.
Proof. exact c19_std_text_proof. Qed.
Check c19_std_text : forall r, length r = 4%nat -> wf_bytes r -> std_from_str (std_display r) = Some r.
Print Assumptions c19_std_text.

(* every name of the table (print name, alternative names, variant name; any case) parses to its row's value *)
Theorem c19_wellknown_names :
  forall i row nm, nth_error wk_table i = Some row -> In nm (wk_var row :: wk_names row) ->
    wk_from_str nm = Some (WkNamed i) /\ std_from_str nm = Some (be 4 (wk_hex row)).
Proof. exact c19_wellknown_names_proof. Qed.
Check c19_wellknown_names : forall i row nm, nth_error wk_table i = Some row -> In nm (wk_var row :: wk_names row) ->
    wk_from_str nm = Some (WkNamed i) /\ std_from_str nm = Some (be 4 (wk_hex row)).
Print Assumptions c19_wellknown_names.

(* value -> Wellknown -> value is the identity on the whole well-known range *)
Theorem c19_wellknown_value :
  forall n, wk_to_u32 (wk_from_u16 n) = 4294901760 + n.
Proof. exact c19_wellknown_value_proof. Qed.
Check c19_wellknown_value : forall n, wk_to_u32 (wk_from_u16 n) = 4294901760 + n.
Print Assumptions c19_wellknown_value.

Theorem c19_large_text :
  forall l, length l = 12%nat -> wf_bytes l -> large_from_str (large_display l) = Some l.
Proof. exact c19_large_text_proof. Qed.
Check c19_large_text : forall l, length l = 12%nat -> wf_bytes l -> large_from_str (large_display l) = Some l.
Print Assumptions c19_large_text.

(* extended communities: hexadecimal, and route target / route origin with a two-octet AS, an IPv4 address,
   or a four-octet AS above 65535 *)
Theorem c19_ext_text :
  forall e, length e = 8%nat -> wf_bytes e ->
    match ext_print_form e with
    | PrRtOpaque => True
    | PrRtAs4 | PrRoAs4 => 65535 < unbe (octs e 2 6) -> ext_from_str (ext_display e) = Some e
    | PrHex | PrRtAs2 | PrRoAs2 | PrRtIp4 | PrRoIp4 => ext_from_str (ext_display e) = Some e
    end.
Proof. exact c19_ext_text_proof. Qed.
Check c19_ext_text : forall e, length e = 8%nat -> wf_bytes e ->
    match ext_print_form e with
    | PrRtOpaque => True
    | PrRtAs4 | PrRoAs4 => 65535 < unbe (octs e 2 6) -> ext_from_str (ext_display e) = Some e
    | PrHex | PrRtAs2 | PrRoAs2 | PrRtIp4 | PrRoIp4 => ext_from_str (ext_display e) = Some e
    end.
Print Assumptions c19_ext_text.

(* IPv6 extended communities that print in hexadecimal *)
Theorem c19_v6ext_text :
  forall e s, length e = 20%nat -> wf_bytes e -> v6_display e = Some s -> v6_from_str s = Some e.
Proof. exact c19_v6ext_text_proof. Qed.
Check c19_v6ext_text : forall e s, length e = 20%nat -> wf_bytes e -> v6_display e = Some s -> v6_from_str s = Some e.
Print Assumptions c19_v6ext_text.

(* through Community::from_str (Standard, then Large, then Extended, then Ipv6Extended) the same community comes back:
   no text of one type is claimed by a type tried earlier *)
Theorem c19_community_text :
  forall c s, comm_from_raw (comm_raw c) = Some c -> wf_bytes (comm_raw c) -> comm_display c = Some s ->
    match c with
    | CExtended e =>
      match ext_print_form e with
      | PrRtOpaque => False
      | PrRtAs4 | PrRoAs4 => 65535 < unbe (octs e 2 6)
      | _ => True
      end
    | _ => True
    end ->
    comm_from_str s = Some c.
Proof. exact c19_community_text_proof. Qed.
Check c19_community_text : forall c s, comm_from_raw (comm_raw c) = Some c -> wf_bytes (comm_raw c) -> comm_display c = Some s ->
    match c with
    | CExtended e =>
      match ext_print_form e with
      | PrRtOpaque => False
      | PrRtAs4 | PrRoAs4 => 65535 < unbe (octs e 2 6)
      | _ => True
      end
    | _ => True
    end ->
    comm_from_str s = Some c.
Print Assumptions c19_community_text.

(* every standard community is exactly one of well-known / reserved / private *)
Theorem c19_partition :
  forall r, length r = 4%nat -> wf_bytes r ->
    (std_is_wellknown r = true /\ std_is_reserved r = false /\ std_is_private r = false) \/
    (std_is_wellknown r = false /\ std_is_reserved r = true /\ std_is_private r = false) \/
    (std_is_wellknown r = false /\ std_is_reserved r = false /\ std_is_private r = true).
Proof. exact c19_partition_proof. Qed.
Check c19_partition : forall r, length r = 4%nat -> wf_bytes r ->
    (std_is_wellknown r = true /\ std_is_reserved r = false /\ std_is_private r = false) \/
    (std_is_wellknown r = false /\ std_is_reserved r = true /\ std_is_private r = false) \/
    (std_is_wellknown r = false /\ std_is_reserved r = false /\ std_is_private r = true).
Print Assumptions c19_partition.

(* well-known means the first two octets are 0xFFFF, and exactly then to_wellknown is Some; the AS and tag accessors
   decompose every other value exactly, and are None on well-known values *)
Theorem c19_accessors :
  forall r, length r = 4%nat -> wf_bytes r ->
    (std_is_wellknown r = true <-> std_to_wellknown r <> None) /\
    (std_is_wellknown r = true <-> firstn 2 r = [255; 255]) /\
    (std_is_wellknown r = true -> std_asn r = None /\ std_tag r = None) /\
    (std_is_wellknown r = false ->
       exists asn tag, std_asn r = Some asn /\ std_tag r = Some tag /\ asn < 65536 /\ tag < 65536 /\
                       r = be 2 asn ++ be 2 tag /\ unbe r = asn * 65536 + tag).
Proof. exact c19_accessors_proof. Qed.
Check c19_accessors : forall r, length r = 4%nat -> wf_bytes r ->
    (std_is_wellknown r = true <-> std_to_wellknown r <> None) /\
    (std_is_wellknown r = true <-> firstn 2 r = [255; 255]) /\
    (std_is_wellknown r = true -> std_asn r = None /\ std_tag r = None) /\
    (std_is_wellknown r = false ->
       exists asn tag, std_asn r = Some asn /\ std_tag r = Some tag /\ asn < 65536 /\ tag < 65536 /\
                       r = be 2 asn ++ be 2 tag /\ unbe r = asn * 65536 + tag).
Print Assumptions c19_accessors.

(* type, subtype and transitivity of an extended community are functions of its first two octets, as RFC 4360 lays them out:
   the transitive bit is bit 0x40 of the type octet, the named types are exactly octets 0,1,2,3 / 0x40..0x43, route target and
   route origin are subtype octets 2 and 3, every other octet is carried in the catch-all *)
Theorem c19_ext_types :
  forall b0 b1 tl, b0 < 256 -> b1 < 256 ->
    ext_types (b0 :: b1 :: tl) = ext_types [b0; b1] /\
    ext_is_transitive (b0 :: b1 :: tl) = negb (N.testbit b0 6) /\
    types_ok b0 b1 = true.
Proof. exact c19_ext_types_proof. Qed.
Check c19_ext_types : forall b0 b1 tl, b0 < 256 -> b1 < 256 ->
    ext_types (b0 :: b1 :: tl) = ext_types [b0; b1] /\
    ext_is_transitive (b0 :: b1 :: tl) = negb (N.testbit b0 6) /\
    types_ok b0 b1 = true.
Print Assumptions c19_ext_types.
