(* C18 - protocol code points map losslessly to enums and back.
   Statements only; proofs live in Proofs/.  The tables are regenerated from
   /repo on every run (Gen/EnumTables.v), so these theorems are re-checked
   against what the source says now. *)
From Coq Require Import List NArith Bool String.
From RC Require Import Model.Enums Gen.EnumTables Proofs.EnumsProofs Proofs.C18Proofs.
Import ListNotations.
Open Scope N_scope.

(* every enumeration with a catch-all: number -> enum -> number is the identity, for every number *)
Theorem c18_roundtrip :
  forall name t n, In (name, t) all_enums -> e_catch t = true ->
    to_int t (of_int t n) = Some n.
Proof. exact c18_roundtrip_proof. Qed.
Check c18_roundtrip : forall name t n, In (name, t) all_enums -> e_catch t = true -> to_int t (of_int t n) = Some n.
Print Assumptions c18_roundtrip.

(* fallible conversions (TryFrom): every accepted number round-trips *)
Theorem c18_roundtrip_fallible :
  forall name t n, In (name, t) all_enums -> of_int t n <> Reject ->
    to_int t (of_int t n) = Some n.
Proof. exact c18_roundtrip_fallible_proof. Qed.
Check c18_roundtrip_fallible : forall name t n, In (name, t) all_enums -> of_int t n <> Reject -> to_int t (of_int t n) = Some n.
Print Assumptions c18_roundtrip_fallible.

(* distinct numbers never map to the same named variant *)
Theorem c18_injective :
  forall name t n m i, In (name, t) all_enums ->
    of_int t n = Named i -> of_int t m = Named i -> n = m.
Proof. exact c18_injective_proof. Qed.
Check c18_injective : forall name t n m i, In (name, t) all_enums -> of_int t n = Named i -> of_int t m = Named i -> n = m.
Print Assumptions c18_injective.

(* unknown numbers are preserved in the catch-all variant, never dropped *)
Theorem c18_catchall :
  forall name t n, In (name, t) all_enums -> e_catch t = true ->
    lookup (e_fwd t) n = None -> lookup_range (e_ranges t) n = None -> of_int t n = Catch n.
Proof. exact c18_catchall_proof. Qed.
Check c18_catchall : forall name t n, In (name, t) all_enums -> e_catch t = true -> lookup (e_fwd t) n = None -> lookup_range (e_ranges t) n = None -> of_int t n = Catch n.
Print Assumptions c18_catchall.

(* AFI/SAFI pairs: all 2^24 pairs (indeed all pairs of naturals) *)
Theorem c18_afisafi_roundtrip :
  forall a s, afisafi_to afisafi_table (afisafi_of afisafi_table a s) = Some (a, s).
Proof. exact c18_afisafi_roundtrip_proof. Qed.
Check c18_afisafi_roundtrip : forall a s, afisafi_to afisafi_table (afisafi_of afisafi_table a s) = Some (a, s).
Print Assumptions c18_afisafi_roundtrip.

Theorem c18_afisafi_injective :
  forall a s a' s' i, afisafi_of afisafi_table a s = AsNamed i ->
    afisafi_of afisafi_table a' s' = AsNamed i -> (a, s) = (a', s').
Proof. exact c18_afisafi_injective_proof. Qed.
Check c18_afisafi_injective : forall a s a' s' i, afisafi_of afisafi_table a s = AsNamed i -> afisafi_of afisafi_table a' s' = AsNamed i -> (a, s) = (a', s').
Print Assumptions c18_afisafi_injective.

(* the 3-byte encoding is the big-endian AFI followed by the SAFI *)
Theorem c18_afisafi_bytes :
  forall a s, afisafi_bytes afisafi_table (afisafi_of afisafi_table a s) = Some [a / 256; a mod 256; s].
Proof. exact c18_afisafi_bytes_proof. Qed.
Check c18_afisafi_bytes : forall a s, afisafi_bytes afisafi_table (afisafi_of afisafi_table a s) = Some [a / 256; a mod 256; s].
Print Assumptions c18_afisafi_bytes.

(* the AFI of an AFI/SAFI variant is the Afi enum's variant for its AFI number *)
Theorem c18_afisafi_afi_known :
  forall a s i, afisafi_of afisafi_table a s = AsNamed i -> exists j, of_int te_afi a = Named j.
Proof. exact c18_afisafi_afi_known_proof. Qed.
Check c18_afisafi_afi_known : forall a s i, afisafi_of afisafi_table a s = AsNamed i -> exists j, of_int te_afi a = Named j.
Print Assumptions c18_afisafi_afi_known.

(* AfiSafiType::afi() carries the pair's AFI number *)
Theorem c18_afisafi_afi :
  forall a s, to_int te_afi (afisafi_afi afisafi_table te_afi (afisafi_of afisafi_table a s)) = Some a.
Proof. exact c18_afisafi_afi_proof. Qed.
Check c18_afisafi_afi : forall a s, to_int te_afi (afisafi_afi afisafi_table te_afi (afisafi_of afisafi_table a s)) = Some a.
Print Assumptions c18_afisafi_afi.

(* NLRI types <-> (AFI/SAFI, ADD-PATH) *)
Theorem c18_nlritype_roundtrip : forall v ap, nlritype_afisafi (nlritype_of v ap) = v.
Proof. exact nlritype_roundtrip. Qed.
Check c18_nlritype_roundtrip : forall v ap, nlritype_afisafi (nlritype_of v ap) = v.
Print Assumptions c18_nlritype_roundtrip.

Theorem c18_nlritype_injective :
  forall v v' ap ap', nlritype_of v ap = nlritype_of v' ap' ->
    v = v' /\ (ap = ap' \/ exists a s, v = AsUnsupported a s).
Proof. exact nlritype_injective. Qed.
Check c18_nlritype_injective : forall v v' ap ap', nlritype_of v ap = nlritype_of v' ap' -> v = v' /\ (ap = ap' \/ exists a s, v = AsUnsupported a s).
Print Assumptions c18_nlritype_injective.

(* NOTIFICATION details re-encode to the code/subcode they were decoded from,
   outside the recorded class K2 (codes 0 and 4 with a non-zero subcode). *)


Theorem c18_details :
  forall c s, c < 256 -> s < 256 -> known_details c s = false ->
    exists d, details_of details_error_code details_table c s = Some d /\
              details_raw details_error_code details_table d = Some [c; s].
Proof. exact c18_details_proof. Qed.
Check c18_details : forall c s, c < 256 -> s < 256 -> known_details c s = false -> exists d, details_of details_error_code details_table c s = Some d /\ details_raw details_error_code details_table d = Some [c; s].
Print Assumptions c18_details.

(* K2 witness: the class is not empty, and the property fails on it *)
Theorem c18_details_known_witness :
  exists c s d, known_details c s = true /\
    details_of details_error_code details_table c s = Some d /\
    details_raw details_error_code details_table d <> Some [c; s].
Proof. exact c18_details_known_witness_proof. Qed.
Print Assumptions c18_details_known_witness.
