(* C08 - the session FSM follows RFC 4271; UPDATEs reach the application only when Established.
   Gen/FsmTable.v (the actions of every (state, event) arm of Session::handle_event) is regenerated from /repo on every run;
   Model/RefFsm.v is the RFC 4271 8.2.2 table written independently.  The abstract session has a finite control part (state, timer
   flags, connection, three attributes, what the OPEN carries) - the theorems are proved for every value of it and for arbitrary
   counters, queues and configured values. *)
From Coq Require Import List NArith Bool.
From RC Require Import Base.Res Base.Wire Model.Negotiate Gen.FsmTable Model.Fsm Model.RefFsm Proofs.C08Proofs Proofs.C08Burst.
Import ListNotations.
Open Scope N_scope.

(* outside the known todo!() cells (K4): no panic and the next state is the one RFC 4271 prescribes *)
Theorem c08_next_state : forall s e o,
  known_todo (s_st s) e (s_dot s) (s_nwo s) (s_exact s) = false -> k4_gap (s_st s) e = false ->
  (is_open_event e = true -> exists l, op_addpath o = Ok l) ->
  (accepts_open (s_st s) e = true -> op_allowed o = true -> s_conn s = true) ->
  snd (fsm_step s e o) <> OPanic /\
  s_st (fst (fsm_step s e o)) = rfc_next (s_st s) e (s_dot s) (s_delay_open s) (op_allowed o).
Proof. exact c08_next_state_proof. Qed.
Print Assumptions c08_next_state.

(* the K4 cells are exactly where the implementation is todo!() *)
Theorem c08_known_todo_cells : forall s e o,
  known_todo (s_st s) e (s_dot s) (s_nwo s) (s_exact s) = true -> snd (fsm_step s e o) = OPanic.
Proof. exact c08_todo_panics_proof. Qed.
Print Assumptions c08_known_todo_cells.

(* forbidden event, hold-timer expiry, manual stop in OpenSent / OpenConfirm / Established: the NOTIFICATION the RFC names is
   sent, the connection is released, hold and keepalive timers are stopped, the session is Idle *)
Theorem c08_notification : forall s e o c sub,
  rfc_notif (s_st s) e = Some (c, sub) -> k4_gap (s_st s) e = false ->
  let s' := fst (fsm_step s e o) in
  snd (fsm_step s e o) = ODone /\ s_st s' = SIdle /\ In (PNotif c sub) (s_out s') /\ s_conn s' = false /\
  s_hold s' = false /\ s_ka s' = false.
Proof. exact c08_notification_proof. Qed.
Print Assumptions c08_notification.

(* Established is entered only by a KEEPALIVE in OpenConfirm, OpenConfirm only by accepting an OPEN from an allowed AS *)
Theorem c08_enter_established : forall s e o,
  s_st (fst (fsm_step s e o)) = SEstablished -> s_st s = SEstablished \/ (s_st s = SOpenConfirm /\ e = EKeepaliveMsg).
Proof. exact c08_enter_established_proof. Qed.
Print Assumptions c08_enter_established.

Theorem c08_enter_openconfirm : forall s e o,
  s_st (fst (fsm_step s e o)) = SOpenConfirm ->
  s_st s = SOpenConfirm \/ (is_open_event e = true /\ op_allowed o = true /\ s_conn s = true /\ exists l, op_addpath o = Ok l).
Proof. exact c08_enter_openconfirm_proof. Qed.
Print Assumptions c08_enter_openconfirm.

(* for every event history from Idle: if the session is Established, the history contains an accepted OPEN from an allowed AS
   followed later by a KEEPALIVE *)
Theorem c08_established_only_after_open_and_keepalive : forall s0, s_st s0 = SIdle -> forall evs,
  let s := run s0 evs in
  (s_st s = SOpenConfirm -> exists pre eo o mid, evs = pre ++ [(eo, o)] ++ mid /\ is_open_event eo = true /\ op_allowed o = true) /\
  (s_st s = SEstablished -> exists pre eo o mid ko post,
      evs = pre ++ [(eo, o)] ++ mid ++ [(EKeepaliveMsg, ko)] ++ post /\ is_open_event eo = true /\ op_allowed o = true).
Proof. exact c08_established_history_proof. Qed.
Print Assumptions c08_established_only_after_open_and_keepalive.

(* an UPDATE received from the peer is handed to the application iff the session is Established when it is processed *)
Theorem c08_update_iff_established : forall s id,
  let s' := fst (handle_msg s (WUpdate id)) in
  (s_st s = SEstablished -> s_app s' = s_app s ++ [AUpdate id] /\ snd (handle_msg s (WUpdate id)) = ODone /\ s_st s' = SEstablished) /\
  (s_st s <> SEstablished -> s_app s' = s_app s).
Proof. exact c08_update_iff_proof. Qed.
Print Assumptions c08_update_iff_established.

(* however many UPDATEs arrive back to back in Established (burst = handle_msg folded over them): every one reaches the
   application, once, in order, behind what was queued before, and the session stays Established.  (The queue towards the
   application is an unbounded list in the model: Session::handle_msg waits on `send().await` when the channel is full - pinned -
   rather than dropping; the harness runs bursts beyond the channel's capacity against a consumer that reads only then.) *)
Theorem c08_update_burst : forall ids s,
  s_st s = SEstablished ->
  s_app (burst s ids) = s_app s ++ map AUpdate ids /\ s_st (burst s ids) = SEstablished.
Proof. exact c08_update_burst_proof. Qed.
Print Assumptions c08_update_burst.

Theorem c08_notification_received : forall s id,
  let s' := fst (handle_msg s (WNotification id)) in exists rest, s_app s' = s_app s ++ ANotification id :: rest.
Proof. exact c08_notification_msg_proof. Qed.
Print Assumptions c08_notification_received.

(* non-vacuity: the canonical passive establishment *)
Example c08_example :
  let o := mkOpen true 30 [1; 2; 3; 4] 65001 (Ok [((1, 1), 2)]) true in
  let s := run (init false true 90 [(1, 1)])
               [(EManualStartWithPassiveTcpEstablishment, dummy_open); (ETcpConnectionConfirmed, dummy_open); (EBgpOpen, o); (EKeepaliveMsg, dummy_open)] in
  s_st s = SEstablished /\ s_out s = [POpen; PKeepalive] /\ get_addpath (s_sc s) (1, 1) = Some 1 /\ sc_four (s_sc s) = true.
Proof. vm_compute. repeat split; reflexivity. Qed.
