(* C08 / C09 (and the live-session clause of C12): the session FSM and the frame extractor.
   The (state, event) -> actions table is Gen/FsmTable.v, generated from Session::handle_event; this file gives the actions their
   meaning on an abstract session (hand-written, tied by the correspondence through the cfg hooks) and models handle_msg, disconnect,
   parse_frame / read_frame and read_message.  Model of the code after the repairs: UPDATE forwarded only when Established, NOTIFICATION
   feeds NotifMsg, no todo!() on a second OPEN, Connect + OPEN during DelayOpen, length field below 19 rejected, live negotiation. *)
From Coq Require Import List NArith Bool.
From RC Require Import Base.Res Base.Wire Model.Open Model.Negotiate Gen.FsmTable.
Import ListNotations.
Open Scope N_scope.

(* what the FSM looks at in a received OPEN *)
Record openp := mkOpen { op_allowed : bool; op_hold : N; op_id : bytes; op_asn : N;
                         op_addpath : res (list (fam * N)); op_four : bool }.

Inductive pdu := POpen | PKeepalive | PNotif (code sub : N).
Inductive amsg := AUpdate (id : N) | ANotification (id : N) | ANegotiated (hold asn : N) (id : bytes) (ap : list (fam * N)) | AConnLost.

Record sess := mkS {
  s_st : fstate; s_crc : nat;
  s_crt : bool; s_hold : bool; s_ka : bool; s_dot : bool;          (* timer running flags *)
  s_conn : bool;
  s_delay_open : bool; s_nwo : bool; s_exact : bool;              (* DelayOpen attribute, SendNOTIFICATIONwithoutOPEN, config.is_exact() *)
  s_holdtime : N; s_local_ap : list fam;                           (* configured hold time, ADD-PATH families *)
  s_neg : option (N * N * bytes * list (fam * N));                 (* negotiated: hold, asn, id, addpath *)
  s_sc : sconfig;                                                  (* the connection's SessionConfig *)
  s_out : list pdu; s_app : list amsg }.

Definition upd_st (s : sess) (x : fstate) : sess :=
  mkS x (s_crc s) (s_crt s) (s_hold s) (s_ka s) (s_dot s) (s_conn s) (s_delay_open s) (s_nwo s) (s_exact s) (s_holdtime s) (s_local_ap s)
      (s_neg s) (s_sc s) (s_out s) (s_app s).
Definition upd_crc (s : sess) (x : nat) : sess :=
  mkS (s_st s) x (s_crt s) (s_hold s) (s_ka s) (s_dot s) (s_conn s) (s_delay_open s) (s_nwo s) (s_exact s) (s_holdtime s) (s_local_ap s)
      (s_neg s) (s_sc s) (s_out s) (s_app s).
Definition upd_timer (s : sess) (t : ftimer) (x : bool) : sess :=
  mkS (s_st s) (s_crc s)
      (match t with TCrt => x | _ => s_crt s end) (match t with THold => x | _ => s_hold s end)
      (match t with TKa => x | _ => s_ka s end) (match t with TDot => x | _ => s_dot s end)
      (s_conn s) (s_delay_open s) (s_nwo s) (s_exact s) (s_holdtime s) (s_local_ap s) (s_neg s) (s_sc s) (s_out s) (s_app s).
Definition upd_conn (s : sess) (x : bool) : sess :=
  mkS (s_st s) (s_crc s) (s_crt s) (s_hold s) (s_ka s) (s_dot s) x (s_delay_open s) (s_nwo s) (s_exact s) (s_holdtime s) (s_local_ap s)
      (s_neg s) (if x then s_sc s else sc_modern) (s_out s) (s_app s).
Definition push_out (s : sess) (p : pdu) : sess :=
  mkS (s_st s) (s_crc s) (s_crt s) (s_hold s) (s_ka s) (s_dot s) (s_conn s) (s_delay_open s) (s_nwo s) (s_exact s) (s_holdtime s) (s_local_ap s)
      (s_neg s) (s_sc s) (s_out s ++ [p]) (s_app s).
Definition push_app (s : sess) (m : amsg) : sess :=
  mkS (s_st s) (s_crc s) (s_crt s) (s_hold s) (s_ka s) (s_dot s) (s_conn s) (s_delay_open s) (s_nwo s) (s_exact s) (s_holdtime s) (s_local_ap s)
      (s_neg s) (s_sc s) (s_out s) (s_app s ++ [m]).
Definition upd_neg (s : sess) (n : N * N * bytes * list (fam * N)) (sc : sconfig) : sess :=
  mkS (s_st s) (s_crc s) (s_crt s) (s_hold s) (s_ka s) (s_dot s) (s_conn s) (s_delay_open s) (s_nwo s) (s_exact s) (s_holdtime s) (s_local_ap s)
      (Some n) sc (s_out s) (s_app s).

(* Timer: start -> running, stop_and_reset -> stopped, reset leaves the flag *)
Definition timer_op (s : sess) (t : ftimer) (o : ftop) : sess :=
  match o with OStart => upd_timer s t true | OStop => upd_timer s t false | OReset => s end.

(* the NOTIFICATION each DisconnectReason sends: (code, subcode) *)
Definition disc_notif (d : fdisc) : N * N :=
  match d with
  | DShutdown => (6, 2) | DHold => (4, 0) | DFsm n => (5, n) | DCease n => (6, n) | DBadPeerAs => (2, 2)
  end.
(* Session::disconnect: the NOTIFICATION, keepalive and hold timers stopped, connection dropped *)
Definition disconnect (s : sess) (d : fdisc) : sess :=
  let '(c, sub) := disc_notif d in
  upd_conn (upd_timer (upd_timer (push_out s (PNotif c sub)) TKa false) THold false) false.

Definition cond_holds (s : sess) (c : fcond) : bool :=
  match c with
  | CDelayOpenAttr => s_delay_open s
  | CDotRunning => s_dot s
  | CDotAndNwo => s_dot s && s_nwo s
  | CNwo => s_nwo s
  | CExact => s_exact s
  end.

Inductive outcome := ODone | OErr | OPanic.

(* the OPEN acceptance block *)
Definition open_accept (s : sess) (o : openp) (send_open_first : bool) : sess * outcome :=
  if negb (op_allowed o) then (upd_st (disconnect s DBadPeerAs) SIdle, OErr) else
  match op_addpath o with
  | Err => (s, OErr)
  | Panic => (s, OPanic)
  | Ok rcvd =>
    if negb (s_conn s) then (s, OPanic) else                      (* self.connection.as_ref().unwrap() *)
    let inter := live_intersection (s_local_ap s) rcvd in
    let hold := if op_hold o <? s_holdtime s then op_hold o else s_holdtime s in
    let s := if send_open_first then push_out s POpen else s in
    let sc := mkSC (op_four o) (sc_addpath (fold_left add_famdir inter (s_sc s))) in
    let s := upd_neg s (hold, op_asn o, op_id o, inter) sc in
    let s := push_app s (ANegotiated hold (op_asn o) (op_id o) inter) in
    let s := push_out s PKeepalive in
    (upd_st (upd_timer (upd_timer s TKa true) THold true) SOpenConfirm, ODone)
  end.

Fixpoint run_actions (fuel : nat) (s : sess) (o : openp) (l : list action) : sess * outcome :=
  match fuel with
  | O => (s, OPanic)
  | S f =>
    match l with
    | [] => (s, ODone)
    | a :: tl =>
      let cont s' := run_actions f s' o tl in
      match a with
      | ATimer t op => cont (timer_op s t op)
      | AResetCrc => cont (upd_crc s 0)
      | AIncCrc => cont (upd_crc s (S (s_crc s)))
      | ASendOpen => cont (push_out s POpen)
      | ASendKeepalive => cont (push_out s PKeepalive)
      | ADropConn => cont (upd_conn s false)
      | ATodo => (s, OPanic)
      | ASetState x => cont (upd_st s x)
      | ADisconnect d => cont (disconnect s d)
      | AIf c a1 a2 =>
        match run_actions f s o (if cond_holds s c then a1 else a2) with
        | (s', ODone) => cont s'
        | r => r
        end
      | AOpenAccept b =>
        match open_accept s o b with
        | (s', ODone) => cont s'
        | r => r
        end
      end
    end
  end.

Definition dummy_open : openp := mkOpen false 0 [] 0 (Ok []) false.

(* Session::handle_event *)
Definition fsm_step (s : sess) (e : fevent) (o : openp) : sess * outcome :=
  run_actions 40 s o (fsm_cell (s_st s) e).

(* Session::handle_msg: which event a message becomes, and what reaches the application *)
Inductive wmsg := WOpen (o : openp) | WKeepalive | WUpdate (id : N) | WNotification (id : N) | WRouteRefresh.

Definition handle_msg (s : sess) (m : wmsg) : sess * outcome :=
  match m with
  | WOpen o => fsm_step s (if s_dot s then EBgpOpenWithDelayOpenTimerRunning else EBgpOpen) o
  | WKeepalive => fsm_step s EKeepaliveMsg dummy_open
  | WUpdate id =>
    let established := match s_st s with SEstablished => true | _ => false end in
    match fsm_step s EUpdateMsg dummy_open with
    | (s', ODone) => (if established then push_app s' (AUpdate id) else s', ODone)
    | r => r
    end
  | WNotification id => fsm_step (push_app s (ANotification id)) ENotifMsg dummy_open
  | WRouteRefresh => (s, ODone)
  end.

(* Session::send_open (pinned): the OPEN this side sends always carries the four-octet capability and ADD-PATH send+receive for each
   configured ADD-PATH family - the "local" side of c12_live *)
Definition sent_open_caps (s : sess) : bool * list (fam * N) := (true, map (fun f => (f, 3)) (s_local_ap s)).

(* tick: a message whose processing fails puts the session in Connect and ends the task's loop *)
Definition tick_msg (s : sess) (m : wmsg) : sess * outcome :=
  match handle_msg s m with
  | (s', OErr) => (upd_st s' SConnect, OErr)
  | r => r
  end.

(* the initial session: Session::new with default attributes (passive, SendNOTIFICATIONwithoutOPEN) *)
Definition init (delay_open exact : bool) (holdtime : N) (local_ap : list fam) : sess :=
  mkS SIdle 0 false false false false true delay_open true exact holdtime local_ap None sc_modern [] [].

(* Session::attach_stream (pinned): a new Connection - Connection::for_read_half, which starts from SessionConfig::modern() - replaces
   whatever connection there was, then TcpConnectionConfirmed is handled.  This is how one Session negotiates a second time. *)
Definition fresh_conn (s : sess) : sess :=
  mkS (s_st s) (s_crc s) (s_crt s) (s_hold s) (s_ka s) (s_dot s) true (s_delay_open s) (s_nwo s) (s_exact s) (s_holdtime s) (s_local_ap s)
      (s_neg s) sc_modern (s_out s) (s_app s).
Definition attach_stream (s : sess) : sess * outcome := fsm_step (fresh_conn s) ETcpConnectionConfirmed dummy_open.

(* ---- frames (C09) ---- *)
(* Connection::parse_frame on the receive buffer: a frame and the rest, nothing yet, or an error.  [valid] is
   Message::from_octets on the frame (an error there is an error of the extraction; the buffer is then not advanced) *)
Section Frames.
  Variable valid : bytes -> bool.

  Definition parse_frame (buf : bytes) : res (option (bytes * bytes)) :=
    if Nat.leb 18 (length buf) then
      match nth_error buf 16, nth_error buf 17 with
      | Some hi, Some lo =>
        let len := N.to_nat (hi * 256 + lo) in
        if Nat.ltb len 19 then Err else
        if Nat.leb (len - 18) (length buf - 18) then
          (if valid (firstn len buf) then Ok (Some (firstn len buf, skipn len buf)) else Err)
        else Ok None
      | _, _ => Panic
      end
    else Ok None.

  (* all complete frames at the front of the buffer *)
  Fixpoint drain (fuel : nat) (buf : bytes) : res (list bytes * bytes) :=
    match fuel with
    | O => Ok ([], buf)
    | S f =>
      match parse_frame buf with
      | Ok (Some (fr, rest)) => let* (l, b) := drain f rest in Ok (fr :: l, b)
      | Ok None => Ok ([], buf)
      | Err => Err
      | Panic => Panic
      end
    end.

  (* reads: each appends a chunk to the buffer and extracts what is complete *)
  Fixpoint feed (buf : bytes) (chunks : list bytes) : res (list bytes * bytes) :=
    match chunks with
    | [] => Ok ([], buf)
    | c :: tl =>
      let* (l, b) := drain (S (length (buf ++ c))) (buf ++ c) in
      let* (l', b') := feed b tl in Ok (l ++ l', b')
    end.

  (* Connection::read_frame on a socket that will deliver [reads], one list of octets per read; a read of no octets, like the end of
     the list, is the peer's close.  What is buffered is looked at before the socket is: a frame with the new buffer and the reads
     still to come, nothing on a close at a message boundary, an error on a close inside a message *)
  Fixpoint read_frame (buf : bytes) (reads : list bytes) {struct reads} : res (option (bytes * bytes * list bytes)) :=
    match parse_frame buf with
    | Ok (Some (fr, rest)) => Ok (Some (fr, rest, reads))
    | Ok None =>
      match reads with
      | (_ :: _) as c :: tl => read_frame (buf ++ c) tl
      | _ => match buf with [] => Ok None | _ => Err end
      end
    | Err => Err
    | Panic => Panic
    end.

  (* the session's read loop: frames until the close or the first error *)
  Inductive rd_end := RdEof | RdErr | RdPanic | RdFuel.
  Fixpoint read_all (fuel : nat) (buf : bytes) (reads : list bytes) : list bytes * rd_end :=
    match fuel with
    | O => ([], RdFuel)
    | S f =>
      match read_frame buf reads with
      | Ok (Some (fr, rest, reads')) => let (l, e) := read_all f rest reads' in (fr :: l, e)
      | Ok None => ([], RdEof)
      | Err => ([], RdErr)
      | Panic => ([], RdPanic)
      end
    end.
End Frames.

(* read_message (blocking reader): the length field of the 18 header octets read first; a frame of that many octets or an error.
   [avail] = the octets the source can still deliver after the first 18 *)
Definition read_message (hdr18 : bytes) (avail : bytes) : res (option bytes) :=
  if negb (Nat.eqb (length hdr18) 18) then Ok None else
  match nth_error hdr18 16, nth_error hdr18 17 with
  | Some hi, Some lo =>
    let len := N.to_nat (hi * 256 + lo) in
    if Nat.ltb len 19 || Nat.ltb 4096 len then Err
    else Ok (Some (hdr18 ++ firstn (len - 18) (avail ++ repeat 0 (len - 18))))
  | _, _ => Panic
  end.
