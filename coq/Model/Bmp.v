(* C15: BMP messages (src/bmp/message.rs): the check of each of the seven message types, the dispatch, and the accessors and
   iterators of an accepted message.  Model of the code after the repairs (length field checked against the octets; Termination
   iterator stride and reason length; every Peer Up information TLV checked; fsm() offset; timestamp conversion; OPEN parameter
   loop; Peer Down NOTIFICATION read as it was checked).

   A message is its octets.  Every slice index, `unwrap()`, `expect()` and unchecked subtraction of the Rust code is an explicit
   [Panic]; an error return is [Err].  Embedded BGP messages are handled by the models of the BGP decoders (Model/Open.v,
   Model/OpenMsg.v, Model/Update.v). *)
From Coq Require Import List NArith Bool.
From RC Require Import Base.Res Base.Wire Model.Open Model.Negotiate Model.OpenMsg Model.Update.
Import ListNotations.
Open Scope N_scope.

Definition COFF : nat := 48.

(* ---- headers *)
(* CommonHeader::check (called first, on the whole message) *)
Definition ch_check (p : parser) : res parser :=
  let total := remaining p in
  let* (v, p) := parse_u8 p in
  if negb (v =? 3) then Err else
  let* (len, p) := parse_be 4 p in
  if negb (len =? N.of_nat total) then Err else
  let* (t, p) := parse_u8 p in
  if 6 <? t then Err else Ok p.

(* PerPeerHeader::check *)
Definition pph_check (p : parser) : res parser :=
  let* (pt, p) := parse_u8 p in
  if 3 <? pt then Err else advance 41 p.

(* ---- embedded BGP messages, parsed from a parser positioned at their first octet *)
(* Parameter::parse: the capabilities of a capabilities parameter are checked over exactly its value; the parameter is the
   2 + len octets at its start *)
Definition param_parse (p : parser) : res (nat * parser) :=
  let* (t, p1) := parse_u8 p in
  let* (l, p2) := parse_u8 p1 in
  let len := N.to_nat l in
  let* _ := (if t =? 2 then let* (cp, _) := parse_parser len p2 in let* _ := caps_walk (S (remaining cp)) cp in Ok tt
             else Ok tt) in
  let* (_, p') := take (2 + len) p in
  Ok (len, p').

(* the loop of OpenMessage::parse over the optional parameters; [left] is the declared length still to account for *)
Fixpoint open_params (fuel : nat) (left : nat) (p : parser) : res parser :=
  match fuel with
  | O => Err
  | S f =>
    if Nat.eqb left 0 then Ok p else
    let* (len, p') := param_parse p in
    if Nat.ltb left (2 + len) then Err             (* checked_sub *)
    else open_params f (left - (2 + len)) p'
  end.

(* OpenMessage::parse: the octets of the OPEN at the front of the parser, and the parser past them *)
Definition open_parse (p : parser) : res (bytes * parser) :=
  let* (len, _, p1) := header_parse p in
  let* p2 := advance 9 p1 in                        (* version, my_as, hold time, identifier *)
  let* (opl, p3) := parse_u8 p2 in
  if Nat.ltb (remaining p3) (N.to_nat opl) then Err else
  let* p4 := open_params (S (remaining p3)) (N.to_nat opl) p3 in
  if negb (Nat.eqb (p_pos p4 - p_pos p) (N.to_nat len)) then Err else
  take (N.to_nat len) p.

(* NotificationMessage::parse *)
Definition notif_parse (p : parser) : res (bytes * parser) :=
  let* (len, _, p1) := header_parse p in
  let* (_, p2) := parse_u8 p1 in
  let* (_, _) := parse_u8 p2 in
  if len <? 21 then Err else take (N.to_nat len) p.

(* ---- TLV walks shared by the checks *)
(* Initiation: type skipped, length, value skipped *)
Fixpoint tlvs_check (fuel : nat) (p : parser) : res unit :=
  match fuel with
  | O => Err
  | S f =>
    if Nat.eqb (remaining p) 0 then Ok tt else
    let* p := advance 2 p in
    let* (l, p) := parse_u16 p in
    let* p := advance (N.to_nat l) p in tlvs_check f p
  end.

(* Termination: a non-string TLV carries a two-octet reason *)
Fixpoint term_check (fuel : nat) (p : parser) : res unit :=
  match fuel with
  | O => Err
  | S f =>
    if Nat.eqb (remaining p) 0 then Ok tt else
    let* (t, p) := parse_u16 p in
    let* (l, p) := parse_u16 p in
    if negb (t =? 0) && negb (l =? 2) then Err else
    let* p := advance (N.to_nat l) p in term_check f p
  end.

(* StatisticsReport: count entries of (type, length, value) *)
Fixpoint stats_check (count : nat) (p : parser) : res unit :=
  match count with
  | O => Ok tt
  | S c =>
    let* p := advance 2 p in
    let* (l, p) := parse_u16 p in
    let* p := advance (N.to_nat l) p in stats_check c p
  end.

(* ---- the seven checks *)
Definition rm_check (b : bytes) : res unit :=
  let* p := ch_check (parser_of b) in let* _ := pph_check p in Ok tt.

(* the statistics count is a u32 read off the wire; the loop runs at most that often and fails when the octets run out, so the
   model bounds it by the number of octets (each round consumes at least four) *)
Definition stats_check_msg (b : bytes) : res unit :=
  let* p := ch_check (parser_of b) in
  let* p := pph_check p in
  let* (count, p) := parse_be 4 p in
  if N.of_nat (S (length b)) <? count then
    (* more entries than octets: the loop fails on a short read after the walk below *)
    match stats_check (S (length b)) p with Ok _ => Err | Err => Err | Panic => Panic end
  else stats_check (N.to_nat count) p.

Definition pd_check (b : bytes) : res unit :=
  let* p := ch_check (parser_of b) in
  let* p := pph_check p in
  let* (reason, p) := parse_u8 p in
  if (reason =? 1) || (reason =? 3) then
    if Nat.eqb (remaining p) 0 then Ok tt else let* _ := notif_parse p in Ok tt
  else if reason =? 2 then let* _ := advance 2 p in Ok tt
  else Ok tt.

Definition pu_check (b : bytes) : res unit :=
  let* p := ch_check (parser_of b) in
  let* p := pph_check p in
  let* p := advance 20 p in
  let* (_, p) := open_parse p in
  let* (_, p) := open_parse p in
  (* every Information TLV: type read, length, value skipped *)
  tlvs_check (S (remaining p)) p.

Definition init_check (b : bytes) : res unit :=
  let* p := ch_check (parser_of b) in tlvs_check (S (remaining p)) p.

Definition term_check_msg (b : bytes) : res unit :=
  let* p := ch_check (parser_of b) in term_check (S (remaining p)) p.

Definition mirror_check (b : bytes) : res unit :=
  let* p := ch_check (parser_of b) in let* _ := pph_check p in Ok tt.

Inductive bmp_kind := KRouteMonitoring | KStatisticsReport | KPeerDown | KPeerUp | KInitiation | KTermination | KRouteMirroring.

Definition kind_of (t : N) : option bmp_kind :=
  if t =? 0 then Some KRouteMonitoring else if t =? 1 then Some KStatisticsReport else if t =? 2 then Some KPeerDown
  else if t =? 3 then Some KPeerUp else if t =? 4 then Some KInitiation else if t =? 5 then Some KTermination
  else if t =? 6 then Some KRouteMirroring else None.

Definition kind_check (k : bmp_kind) (b : bytes) : res unit :=
  match k with
  | KRouteMonitoring => rm_check b | KStatisticsReport => stats_check_msg b | KPeerDown => pd_check b
  | KPeerUp => pu_check b | KInitiation => init_check b | KTermination => term_check_msg b | KRouteMirroring => mirror_check b
  end.

(* Message::from_octets: the type octet of the first six, then the check of that type *)
Definition bmp_from_octets (b : bytes) : res bmp_kind :=
  let* (h, _) := take 6 (parser_of b) in
  match kind_of (nth 5 h 0) with
  | None => Err
  | Some k => let* _ := kind_check k b in Ok k
  end.

(* ---- accessors (on the octets of an accepted message; each is what the Rust method computes) *)
Section Acc.
  Variable b : bytes.

  (* CommonHeader *)
  Definition a_version : res N := index b 0.
  Definition a_msg_length : res N := let* l := slice b 1 5 in Ok (unbe l).
  Definition a_msg_type : res N := index b 5.

  (* PerPeerHeader: octets 6 .. 48 *)
  Definition a_pph : res bytes := slice b 6 COFF.
  Definition pph_peer_type (h : bytes) : res N := index h 0.
  Definition pph_flags (h : bytes) : res N := index h 1.
  Definition pph_distinguisher (h : bytes) : res bytes := slice h 2 10.
  Definition flag_set (f m : N) : bool := (f / m) mod 2 =? 1.
  (* address(): the last four octets for IPv4 (V flag clear), all sixteen otherwise *)
  Definition pph_address (h : bytes) : res (bool * bytes) :=
    let* f := pph_flags h in
    if flag_set f 128 then let* a := slice h 10 26 in Ok (true, a) else let* a := slice h 22 26 in Ok (false, a).
  Definition pph_asn (h : bytes) : res N := let* a := slice h 26 30 in Ok (unbe a).
  Definition pph_bgp_id (h : bytes) : res bytes := slice h 30 34.
  Definition pph_ts_seconds (h : bytes) : res N := let* a := slice h 34 38 in Ok (unbe a).
  Definition pph_ts_micros (h : bytes) : res N := let* a := slice h 38 42 in Ok (unbe a).
  (* timestamp(): seconds and nanoseconds when the (saturated) nanoseconds are in chrono's range, else the fallback *)
  Definition pph_timestamp (h : bytes) : res (option (N * N)) :=
    let* s := pph_ts_seconds h in
    let* us := pph_ts_micros h in
    let ns := N.min (us * 1000) 4294967295 in
    (* chrono accepts nanoseconds of a second and, as a leap second, up to 1_999_999_999 when the second is the 59th *)
    Ok (if (ns <? 1000000000) || ((ns <? 2000000000) && (s mod 60 =? 59)) then Some (s, ns) else None).
  (* rib_type(): 2 = Loc-RIB for peer type 3, else 1 = Adj-RIB-Out when the O flag is set, else 0 = Adj-RIB-In *)
  Definition pph_rib_type (h : bytes) : res N :=
    let* pt := pph_peer_type h in
    let* f := pph_flags h in
    Ok (if pt =? 3 then 2 else if flag_set f 16 then 1 else 0).

  (* RouteMonitoring::bgp_update: the UPDATE decoder on what follows the two headers *)
  Definition a_bgp_update (cfg : sconfig) : res upd :=
    let* _ := unwrap_res (advance COFF (parser_of b)) in
    parse_update cfg (skipn COFF b).

  (* StatisticsReport *)
  Definition a_stats_count : res N := let* c := slice b COFF (COFF + 4) in Ok (unbe c).

  Inductive stat := StatU32 (t v : N) | StatU64 (t v : N) | StatAfiSafi (t afi safi v : N) | StatOther (t len : N).

  Definition stat_kind (t len : N) : N :=      (* 1 = u32, 2 = u64, 3 = afi/safi/u64, 0 = unimplemented *)
    if ((t <=? 6) || ((11 <=? t) && (t <=? 13))) && (len =? 4) then 1
    else if ((t =? 7) || (t =? 8) || (t =? 14) || (t =? 15)) && (len =? 8) then 2
    else if ((t =? 9) || (t =? 10) || (t =? 16) || (t =? 17)) && (len =? 11) then 3
    else 0.

  (* StatIter over octets[COFF + 4 ..] *)
  Fixpoint stat_iter (left : nat) (o : bytes) (pos : nat) : res (list stat) :=
    match left with
    | O => Ok []
    | S n =>
      let* th := slice o pos (pos + 2) in
      let* lh := slice o (pos + 2) (pos + 4) in
      let t := unbe th in
      let len := unbe lh in
      let k := stat_kind t len in
      if k =? 1 then
        let* v := slice o (pos + 4) (pos + 8) in
        let* r := stat_iter n o (pos + 8) in Ok (StatU32 t (unbe v) :: r)
      else if k =? 2 then
        let* v := slice o (pos + 4) (pos + 12) in
        let* r := stat_iter n o (pos + 12) in Ok (StatU64 t (unbe v) :: r)
      else if k =? 3 then
        let* a := slice o (pos + 4) (pos + 6) in
        let* s := index o (pos + 6) in
        let* v := slice o (pos + 7) (pos + 15) in
        let* r := stat_iter n o (pos + 15) in Ok (StatAfiSafi t (unbe a) s (unbe v) :: r)
      else
        let* r := stat_iter n o (pos + 4 + N.to_nat len) in Ok (StatOther t len :: r)
    end.

  (* stats(): `left` is the u32 count; with more entries than octets the iterator runs off the end (excluded by the check) *)
  Definition a_stats : res (list stat) :=
    let* c := a_stats_count in
    let* o := slice_from b (COFF + 4) in
    stat_iter (N.to_nat (N.min c (N.of_nat (S (length b))))) o 0.

  (* PeerDownNotification *)
  Definition a_pd_reason : res N := index b COFF.
  Definition a_pd_notification : res (option bytes) :=
    let* r := a_pd_reason in
    if (r =? 1) || (r =? 3) then
      let* len := a_msg_length in
      if Nat.eqb (COFF + 1) (N.to_nat len) then Ok None else
      let* p := unwrap_res (advance (COFF + 1) (parser_of b)) in
      let* (n, _) := unwrap_res (notif_parse p) in Ok (Some n)
    else Ok None.
  Definition a_pd_fsm : res (option N) :=
    let* r := a_pd_reason in
    if r =? 2 then let* v := slice b (COFF + 1) (COFF + 3) in Ok (Some (unbe v)) else Ok None.

  (* PeerUpNotification *)
  Definition a_pu_local_address : res (bool * bytes) :=
    let* z := slice b COFF (COFF + 12) in
    if forallb (N.eqb 0) z then let* a := slice b (COFF + 12) (COFF + 16) in Ok (false, a)
    else let* a := slice b COFF (COFF + 16) in Ok (true, a).
  Definition a_pu_local_port : res N := let* v := slice b (COFF + 16) (COFF + 18) in Ok (unbe v).
  Definition a_pu_remote_port : res N := let* v := slice b (COFF + 18) (COFF + 20) in Ok (unbe v).
  Definition a_pu_opens : res (bytes * bytes * parser) :=
    let* p := unwrap_res (advance (COFF + 20) (parser_of b)) in
    let* (s, p) := unwrap_res (open_parse p) in
    let* (r, p) := unwrap_res (open_parse p) in Ok (s, r, p).
  Definition a_pu_open_sent : res bytes :=
    let* p := unwrap_res (advance (COFF + 20) (parser_of b)) in
    let* (s, _) := unwrap_res (open_parse p) in Ok s.
  Definition a_pu_open_rcvd : res bytes :=
    let* s := a_pu_open_sent in
    let* p := unwrap_res (advance (COFF + 20 + length s) (parser_of b)) in
    let* (r, _) := unwrap_res (open_parse p) in Ok r.

  (* InformationTlvIter over a slice: (type, value) *)
  Fixpoint tlv_iter (fuel : nat) (o : bytes) (pos : nat) : res (list (N * bytes)) :=
    match fuel with
    | O => Err                                   (* does not terminate within the octets: reported as an error *)
    | S f =>
      if Nat.eqb pos (length o) then Ok [] else
      let* lh := slice o (pos + 2) (pos + 4) in
      let len := N.to_nat (unbe lh) in
      let* tlv := slice o pos (pos + 4 + len) in
      let* th := slice tlv 0 2 in
      let* v := slice_from tlv 4 in
      let* r := tlv_iter f o (pos + 4 + len) in Ok ((unbe th, v) :: r)
    end.

  Definition a_pu_information_tlvs : res (list (N * bytes)) :=
    let* (_, _, p) := a_pu_opens in
    let* o := slice_from b (p_pos p) in
    tlv_iter (S (length o)) o 0.

  Definition a_init_tlvs : res (list (N * bytes)) :=
    let* o := slice_from b 6 in tlv_iter (S (length o)) o 0.

  (* Termination: InformationIter over octets[6..] with end = length - 6 *)
  Inductive term_info := TermString (s : bytes) | TermReason (v : N).
  Fixpoint term_iter (fuel : nat) (o : bytes) (pos stop : nat) : res (list term_info) :=
    match fuel with
    | O => Err
    | S f =>
      if Nat.eqb pos stop then Ok [] else
      let* th := slice o pos (pos + 2) in
      let* lh := slice o (pos + 2) (pos + 4) in
      let len := N.to_nat (unbe lh) in
      if unbe th =? 0 then
        let* s := slice o (pos + 4) (pos + 4 + len) in
        let* r := term_iter f o (pos + 4 + len) stop in Ok (TermString s :: r)
      else
        let* v := slice o (pos + 4) (pos + 4 + len) in
        if negb (Nat.eqb (length v) 2) then Panic else       (* try_into::<[u8; 2]>().unwrap() *)
        let* r := term_iter f o (pos + 4 + len) stop in Ok (TermReason (unbe v) :: r)
    end.
  Definition a_term_information : res (list term_info) :=
    let* o := slice_from b 6 in
    let* len := a_msg_length in
    let* stop := sub_chk (N.to_nat len) 6 in
    term_iter (S (length o)) o 0 stop.
End Acc.

(* ---- reference encoder (RFC 7854): what a well-formed message of each type looks like.  Specification only. *)
Definition enc_common (typ : N) (body : bytes) : bytes := [3] ++ be 4 (N.of_nat (6 + length body)) ++ [typ] ++ body.

Definition enc_tlv (tv : N * bytes) : bytes := be 2 (fst tv) ++ be 2 (N.of_nat (length (snd tv))) ++ snd tv.
Definition enc_tlvs (l : list (N * bytes)) : bytes := flat_map enc_tlv l.
Definition tlv_wf (tv : N * bytes) : Prop := fst tv < 65536 /\ N.of_nat (length (snd tv)) < 65536 /\ wf_bytes (snd tv).

(* Termination: a string (type 0) or a two-octet reason under a non-zero type *)
Inductive term_spec := TSString (s : bytes) | TSReason (typ v : N).
Definition enc_term (i : term_spec) : bytes :=
  match i with
  | TSString s => be 2 0 ++ be 2 (N.of_nat (length s)) ++ s
  | TSReason t v => be 2 t ++ be 2 2 ++ be 2 v
  end.
Definition term_wf (i : term_spec) : Prop :=
  match i with
  | TSString s => N.of_nat (length s) < 65536 /\ wf_bytes s
  | TSReason t v => 0 < t /\ t < 65536 /\ v < 65536
  end.
Definition term_of (i : term_spec) : term_info := match i with TSString s => TermString s | TSReason _ v => TermReason v end.

(* Statistics *)
Inductive stat_spec := SU32 (t v : N) | SU64 (t v : N) | SAS (t afi safi v : N) | SOther (t : N) (payload : bytes).
Definition enc_stat (s : stat_spec) : bytes :=
  match s with
  | SU32 t v => be 2 t ++ be 2 4 ++ be 4 v
  | SU64 t v => be 2 t ++ be 2 8 ++ be 8 v
  | SAS t a s v => be 2 t ++ be 2 11 ++ be 2 a ++ [s] ++ be 8 v
  | SOther t pl => be 2 t ++ be 2 (N.of_nat (length pl)) ++ pl
  end.
Definition stat_wf (s : stat_spec) : Prop :=
  match s with
  | SU32 t v => t < 65536 /\ stat_kind t 4 = 1 /\ v < 2 ^ 32
  | SU64 t v => t < 65536 /\ stat_kind t 8 = 2 /\ v < 2 ^ 64
  | SAS t a s v => t < 65536 /\ stat_kind t 11 = 3 /\ a < 65536 /\ s < 256 /\ v < 2 ^ 64
  | SOther t pl => t < 65536 /\ N.of_nat (length pl) < 65536 /\ stat_kind t (N.of_nat (length pl)) = 0 /\ wf_bytes pl
  end.
Definition stat_of (s : stat_spec) : stat :=
  match s with
  | SU32 t v => StatU32 t v | SU64 t v => StatU64 t v | SAS t a s v => StatAfiSafi t a s v
  | SOther t pl => StatOther t (N.of_nat (length pl))
  end.

(* a per-peer header: 42 octets, peer type at most 3 *)
Definition pph_wf (h : bytes) : Prop := length h = 42%nat /\ nth 0 h 0 <= 3 /\ wf_bytes h.
