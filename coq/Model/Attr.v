(* C04 / C07 / C17: path attributes - owned values, compose, wire parse, to_owned.
   The table of type codes, canonical flags, validate rules and value_len rules is
   generated from the source (Gen/AttrRules.v).  Model of the code after the repairs
   F11 (extended-length flag of composed Invalid/Unimplemented attributes) and F21
   (AS4_PATH always four-octet). *)
From Coq Require Import List NArith Bool.
From RC Require Import Base.Res Base.Wire Gen.AttrRules Model.AsPath.
Import ListNotations.
Open Scope N_scope.

Inductive pattr :=
| AU8 (code n : N)                          (* ORIGIN *)
| AU32 (code n : N)                         (* NEXT_HOP, MED, LOCAL_PREF, ORIGINATOR_ID, CONNECTOR, OTC *)
| AEmpty (code : N)                         (* ATOMIC_AGGREGATE *)
| AAgg (code asn addr : N)                  (* AGGREGATOR, AS4_AGGREGATOR *)
| AList (code : N) (k : nat) (items : list N)   (* communities (4), cluster list (4), extended (8), ipv6 extended (20), large (12) *)
| APath (code : N) (hops : list hop)        (* AS_PATH, AS4_PATH *)
| ALimit (ub asn : N)                       (* AS_PATHLIMIT *)
| AAttrSet (origin : N) (attrs : bytes)     (* ATTR_SET *)
| ARaw (code : N) (raw : bytes)             (* Reserved (255) *)
| AUnimpl (flags code : N) (value : bytes)
| AInvalid (flags code : N) (value : bytes).

Definition attr_code (a : pattr) : N :=
  match a with
  | AU8 c _ | AU32 c _ | AEmpty c | AAgg c _ _ | AList c _ _ | APath c _ | ARaw c _ => c
  | ALimit _ _ => 21
  | AAttrSet _ _ => 128
  | AUnimpl _ c _ | AInvalid _ c _ => c
  end.

Fixpoint tbl_lookup (l : list (N * (N * vrule * lrule))) (c : N) : option (N * vrule * lrule) :=
  match l with
  | [] => None
  | (c', r) :: tl => if c' =? c then Some r else tbl_lookup tl c
  end.
Definition attr_rule (c : N) := tbl_lookup attr_table c.

Definition has_ext (flags : N) : bool := (flags / 16) mod 2 =? 1.
Definition set_ext (flags : N) : N := if has_ext flags then flags else flags + 16.
Definition clear_ext (flags : N) : N := if has_ext flags then flags - 16 else flags.
Definition has_partial (flags : N) : bool := (flags / 32) mod 2 =? 1.
Definition set_partial (flags : N) : N := if has_partial flags then flags else flags + 32.

(* ---- value bytes of the typed attributes (compose_value) ---- *)
Definition value_bytes (a : pattr) : res bytes :=
  match a with
  | AU8 _ n => Ok [n]
  | AU32 _ n => Ok (be 4 n)
  | AEmpty _ => Ok []
  | AAgg _ asn addr => Ok (be 4 asn ++ be 4 addr)
  | AList _ k items => Ok (flat_map (be k) items)
  | APath _ hops => to_as_path hops
  | ALimit ub asn => Ok (ub :: be 4 asn)
  | AAttrSet origin attrs => Ok (be 4 origin ++ attrs)
  | ARaw _ raw => Ok raw
  | AUnimpl _ _ v | AInvalid _ _ v => Ok v
  end.

(* value_len, by the generated rule of the attribute's type *)
Definition value_len (a : pattr) : res nat :=
  match attr_rule (attr_code a) with
  | None => Panic
  | Some (_, _, lr) =>
    match lr, a with
    | LConst k, _ => Ok k
    | LMul k, AList _ _ items => Ok (length items * k)%nat
    | LPlus k, AAttrSet _ attrs => Ok (k + length attrs)%nat
    | LRaw, ARaw _ raw => Ok (length raw)
    | LAsPath, APath _ hops => let* w := to_as_path hops in Ok (length w)
    | _, _ => Panic
    end
  end.

(* Attribute::compose_header *)
Definition sat16 (n : nat) : N := if 65535 <? N.of_nat n then 65535 else N.of_nat n.
Definition sat8 (n : nat) : N := if 255 <? N.of_nat n then 255 else N.of_nat n.
Definition header (flags code : N) (vlen : nat) : bytes :=
  if Nat.ltb 255 vlen then [set_ext flags; code] ++ be 2 (sat16 vlen)
  else [flags; code; sat8 vlen].
Definition header_len (vlen : nat) : nat := if Nat.ltb 255 vlen then 4%nat else 3%nat.

Definition is_typed (a : pattr) : bool :=
  match a with AUnimpl _ _ _ | AInvalid _ _ _ => false | _ => true end.

Definition canon_flags (c : N) : N :=
  match attr_rule c with Some (f, _, _) => f | None => 0 end.

(* PathAttribute::compose *)
Definition compose (a : pattr) : res bytes :=
  match a with
  | AUnimpl flags code v =>
    let len := length v in
    let f := if Nat.ltb 255 len then set_ext (set_partial flags) else clear_ext (set_partial flags) in
    Ok ([f; code] ++ (if Nat.ltb 255 len then be 2 (sat16 len) else [sat8 len]) ++ v)
  | AInvalid flags code v =>
    let len := length v in
    let f := if Nat.ltb 255 len then set_ext (set_partial flags) else clear_ext (set_partial flags) in
    Ok ([f; code] ++ (if Nat.ltb 255 len then be 2 (sat16 len) else [sat8 len]) ++ v)
  | _ =>
    let* vl := value_len a in
    let* vb := value_bytes a in
    Ok (header (canon_flags (attr_code a)) (attr_code a) vl ++ vb)
  end.

(* PathAttribute::compose_len *)
Definition compose_len (a : pattr) : res nat :=
  match a with
  | AUnimpl _ _ v | AInvalid _ _ v => Ok (header_len (length v) + length v)%nat
  | _ => let* vl := value_len a in Ok (header_len vl + vl)%nat
  end.

(* ---- validate, by the generated rule ---- *)
Fixpoint path_walk (fuel : nat) (asz : nat) (p : parser) : bool :=
  match fuel with
  | O => false
  | S f =>
    if Nat.eqb (remaining p) 0 then true else
    match parse_u8 p with
    | Ok (t, p) =>
      if negb ((1 <=? t) && (t <=? 4)) then false else
      match parse_u8 p with
      | Ok (len, p) => match advance (N.to_nat len * asz) p with Ok p => path_walk f asz p | _ => false end
      | _ => false
      end
    | _ => false
    end
  end.

Definition validate (r : vrule) (four : bool) (v : bytes) : bool :=
  match r with
  | VExact k => Nat.eqb (length v) k
  | VMod k => Nat.eqb (Nat.modulo (length v) k) 0
  | VMin k => Nat.leb k (length v)
  | VAgg k4 k2 => Nat.eqb (length v) (if four then k4 else k2)
  | VPathSession => path_walk (S (length v)) (if four then 4 else 2)%nat (parser_of v)
  | VPathFixed4 => path_walk (S (length v)) 4 (parser_of v)
  | VAny => true
  end.

(* ---- WireformatPathAttribute::parse ---- *)
Inductive wattr :=
| WTyped (code : N) (four : bool) (tlv : bytes)   (* EncodedPathAttribute: the whole TLV and the parse info *)
| WUnimpl (flags code : N) (tlv : bytes)
| WInvalid (flags code : N) (value : bytes).

Definition wire_attr_parse (four : bool) (p : parser) : res (wattr * parser) :=
  let p0 := p in
  let* (flags, p) := parse_u8 p in
  let* (code, p) := parse_u8 p in
  let* (len, p) := (if has_ext flags then parse_u16 p else parse_u8 p) in
  let hlen := if has_ext flags then 4%nat else 3%nat in
  let* (v, p) := take (N.to_nat len) p in
  match attr_rule code with
  | Some (cf, vr, _) =>
    if validate vr four v then Ok (WTyped code four (firstn (hlen + N.to_nat len) (p_rest p0)), p)
    else Ok (WInvalid cf code v, p)
  | None => Ok (WUnimpl flags code (firstn (hlen + N.to_nat len) (p_rest p0)), p)
  end.

(* ---- parse of the typed values (Attribute::parse) ---- *)
Fixpoint parse_items (fuel : nat) (k : nat) (p : parser) : res (list N) :=
  match fuel with
  | O => Err
  | S f =>
    if Nat.eqb (remaining p) 0 then Ok [] else
    let* (x, p) := parse_be k p in
    let* r := parse_items f k p in Ok (x :: r)
  end.

Definition parse_value (code : N) (four : bool) (v : bytes) : res pattr :=
  let p := parser_of v in
  match code with
  | 1 => let* (n, _) := parse_u8 p in Ok (AU8 1 n)
  | 2 => let* h := wire_hops four v in Ok (APath 2 h)
  | 3 | 9 | 20 => let* (n, _) := parse_be 4 p in Ok (AU32 code n)
  | 4 | 5 | 35 => let* (n, _) := parse_be 4 p in Ok (AU32 code n)
  | 6 => Ok (AEmpty 6)
  | 7 => let* (asn, p) := (if four then parse_be 4 p else parse_be 2 p) in
         let* (addr, _) := parse_be 4 p in Ok (AAgg 7 asn addr)
  | 18 => let* (asn, p) := parse_be 4 p in let* (addr, _) := parse_be 4 p in Ok (AAgg 18 asn addr)
  | 8 => let* l := parse_items (S (length v)) 4 p in Ok (AList 8 4 l)
  | 10 => let* l := parse_items (S (length v)) 4 p in Ok (AList 10 4 l)
  | 16 => let* l := parse_items (S (length v)) 8 p in Ok (AList 16 8 l)
  | 25 => let* l := parse_items (S (length v)) 20 p in Ok (AList 25 20 l)
  | 32 => let* l := parse_items (S (length v)) 12 p in Ok (AList 32 12 l)
  | 17 => let* h := wire_hops true v in Ok (APath 17 h)
  | 21 => let* (ub, p) := parse_u8 p in let* (asn, _) := parse_be 4 p in Ok (ALimit ub asn)
  | 128 => let* (o, p) := parse_be 4 p in Ok (AAttrSet o (p_rest p))
  | 255 => Ok (ARaw 255 v)
  | _ => Panic
  end.

(* WireformatPathAttribute::to_owned *)
Definition to_owned (w : wattr) : res pattr :=
  match w with
  | WTyped code four tlv =>
    let* f := index tlv 0 in
    let* v := slice_from tlv (if has_ext f then 4 else 3) in
    parse_value code four v
  | WUnimpl flags code tlv =>
    let* v := slice_from tlv (if has_ext flags then 4 else 3) in Ok (AUnimpl flags code v)
  | WInvalid flags code v => Ok (AInvalid flags code v)
  end.

Definition wattr_code (w : wattr) : N :=
  match w with WTyped c _ _ | WUnimpl _ c _ | WInvalid _ c _ => c end.
Definition wattr_flags (w : wattr) : res N :=
  match w with
  | WTyped _ _ tlv => index tlv 0
  | WUnimpl f _ _ | WInvalid f _ _ => Ok f
  end.
