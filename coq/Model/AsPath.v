(* C13: AS paths - hop paths, wire format in both ASN widths, conversions, ==, hash. *)
From Coq Require Import List NArith Bool.
From RC Require Import Base.Res Base.Wire.
Import ListNotations.
Open Scope N_scope.

(* HopPath: an ASN (a member of an AS_SEQUENCE on the wire) or a whole segment *)
Inductive hop := HAsn (a : N) | HSeg (ty : N) (asns : list N).

Definition seg := (N * list N)%type.        (* segment type 1..4, ASNs *)

Definition asn_size (four : bool) : nat := if four then 4%nat else 2%nat.

(* SegmentType::try_from *)
Definition seg_type_ok (t : N) : bool := (1 <=? t) && (t <=? 4).

(* ---- wire -> segments ---- *)
Fixpoint parse_asns (four : bool) (n : nat) (p : parser) : res (list N * parser) :=
  match n with
  | O => Ok ([], p)
  | S n' =>
    let* (a, p) := parse_be (asn_size four) p in
    let* (r, p) := parse_asns four n' p in Ok (a :: r, p)
  end.

(* AsPath::check and PathSegments in one walk: Err = check fails *)
Fixpoint segments (fuel : nat) (four : bool) (p : parser) : res (list seg) :=
  match fuel with
  | O => Err
  | S f =>
    if Nat.eqb (remaining p) 0 then Ok [] else
    let* (t, p) := parse_u8 p in
    if negb (seg_type_ok t) then Err else
    let* (len, p) := parse_u8 p in
    let* (asns, p) := parse_asns four (N.to_nat len) p in
    let* r := segments f four p in
    Ok ((t, asns) :: r)
  end.

Definition wire_segments (four : bool) (w : bytes) : res (list seg) :=
  segments (S (length w)) four (parser_of w).

Definition as_path_check (four : bool) (w : bytes) : bool := is_ok (wire_segments four w).

(* PathHops: a non-empty AS_SEQUENCE is flattened into ASN hops; everything else
   (including an empty sequence) is a segment hop *)
Definition hops_of_seg (s : seg) : list hop :=
  let '(t, asns) := s in
  if (t =? 2) then match asns with [] => [HSeg 2 []] | _ => map HAsn asns end
  else [HSeg t asns].

Definition hops_of_segs (l : list seg) : list hop := flat_map hops_of_seg l.

(* AsPath::hops / to_hop_path *)
Definition wire_hops (four : bool) (w : bytes) : res (list hop) :=
  rmap hops_of_segs (wire_segments four w).

(* ---- hops -> wire (HopPath::compose_as_path, four-octet) ---- *)
Definition seg_bytes (four : bool) (t : N) (asns : list N) : bytes :=
  t :: N.of_nat (length asns) :: flat_map (be (asn_size four)) asns.

Fixpoint chunks_of {A} (fuel : nat) (k : nat) (l : list A) : list (list A) :=
  match fuel with
  | O => []
  | S f => match l with [] => [] | _ => firstn k l :: chunks_of f k (skipn k l) end
  end.

(* a run of n ASN hops: one segment of n mod 255 (if non-zero), then segments of 255 *)
Definition emit_run (four : bool) (run : list N) : bytes :=
  let h := Nat.modulo (length run) 255 in
  (match h with O => [] | _ => seg_bytes four 2 (firstn h run) end) ++
  flat_map (seg_bytes four 2) (chunks_of (S (length run)) 255 (skipn h run)).

Fixpoint span_asn (l : list hop) : list N * list hop :=
  match l with
  | HAsn a :: tl => let '(r, rest) := span_asn tl in (a :: r, rest)
  | _ => ([], l)
  end.

(* Segment::compose: asn_count() panics above 255 ASNs *)
Definition emit_seg (four : bool) (t : N) (asns : list N) : res bytes :=
  if Nat.ltb 255 (length asns) then Panic else Ok (seg_bytes four t asns).

Fixpoint compose_hops (fuel : nat) (l : list hop) : res bytes :=
  match fuel with
  | O => Err
  | S f =>
    match l with
    | [] => Ok []
    | _ =>
      let '(run, rest) := span_asn l in
      let a := emit_run true run in
      match rest with
      | [] => Ok a
      | HSeg t asns :: tl =>
        let* s := emit_seg true t asns in
        let* r := compose_hops f tl in Ok (a ++ s ++ r)
      | HAsn _ :: _ => Panic
      end
    end
  end.

(* HopPath::to_as_path *)
Definition to_as_path (l : list hop) : res bytes := compose_hops (S (length l)) l.

(* the two-octet variant: fails when an ASN does not fit 16 bits *)
Definition fits16 (a : N) : bool := a <? 65536.
Definition hop_fits16 (h : hop) : bool :=
  match h with HAsn a => fits16 a | HSeg _ asns => forallb fits16 asns end.

Fixpoint compose_hops16 (fuel : nat) (l : list hop) : res bytes :=
  match fuel with
  | O => Err
  | S f =>
    match l with
    | [] => Ok []
    | _ =>
      let '(run, rest) := span_asn l in
      if negb (forallb fits16 run) then Err else
      let a := emit_run false run in
      match rest with
      | [] => Ok a
      | HSeg t asns :: tl =>
        if Nat.ltb 255 (length asns) then Panic else
        if negb (forallb fits16 asns) then Err else
        let* r := compose_hops16 f tl in Ok (a ++ seg_bytes false t asns ++ r)
      | HAsn _ :: _ => Panic
      end
    end
  end.
Definition try_to_asn16_path (l : list hop) : res bytes := compose_hops16 (S (length l)) l.

(* prepend_n *)
Definition prepend_n (l : list hop) (a : N) (n : nat) : list hop := repeat (HAsn a) n ++ l.

(* AsPath::prepend: through the hop path *)
Definition as_path_prepend (four : bool) (w : bytes) (a : N) (n : nat) : res bytes :=
  let* h := wire_hops four w in to_as_path (prepend_n h a n).

(* ---- == and Hash on AsPath (segment-wise, width independent) ---- *)
Fixpoint asns_eqb (a b : list N) : bool :=
  match a, b with
  | [], [] => true
  | x :: a', y :: b' => (x =? y) && asns_eqb a' b'
  | _, _ => false
  end.
Definition seg_eqb (a b : seg) : bool := (fst a =? fst b) && asns_eqb (snd a) (snd b).
Fixpoint segs_eqb (a b : list seg) : bool :=
  match a, b with
  | [], [] => true
  | x :: a', y :: b' => seg_eqb x y && segs_eqb a' b'
  | _, _ => false
  end.

(* the sequence of Hasher writes of one segment: u8 type, u8 count, u32 per ASN *)
Inductive hword := HU8 (n : N) | HU32 (n : N).
Definition seg_hash (s : seg) : list hword :=
  HU8 (fst s) :: HU8 (N.of_nat (length (snd s))) :: map HU32 (snd s).
Definition path_hash (l : list seg) : list hword := flat_map seg_hash l.

(* hop count *)
Definition hop_count (l : list hop) : nat := length l.

(* HopPath::hop_count_path_selection: ASNs and AS_SETs (type 1) count one, confederation segments zero *)
Fixpoint hop_count_path_selection (l : list hop) : nat :=
  match l with
  | [] => 0
  | HAsn _ :: tl => S (hop_count_path_selection tl)
  | HSeg t _ :: tl => if t =? 1 then S (hop_count_path_selection tl) else hop_count_path_selection tl
  end.
