(* RFC 4271 section 8.2.2, written from the RFC text independently of the implementation: the next state for every state and
   event the implementation knows, and the NOTIFICATION the RFC names when OpenSent / OpenConfirm / Established are left. *)
From Coq Require Import List NArith Bool.
From RC Require Import Gen.FsmTable.
Import ListNotations.
Open Scope N_scope.

Definition is_start (e : fevent) : bool :=
  match e with
  | EManualStart | EAutomaticStart | EManualStartWithPassiveTcpEstablishment | EAutomaticStartWithPassiveTcpEstablishment => true
  | _ => false
  end.
Definition is_tcp_ok (e : fevent) : bool := match e with ETcpCrAcked | ETcpConnectionConfirmed => true | _ => false end.

(* dot = DelayOpenTimer running; delay = DelayOpen attribute; open_ok = the OPEN is acceptable (peer AS allowed) *)
Definition rfc_next (st : fstate) (e : fevent) (dot delay open_ok : bool) : fstate :=
  match st with
  | SIdle =>
    match e with
    | EManualStartWithPassiveTcpEstablishment | EAutomaticStartWithPassiveTcpEstablishment => SActive
    | EManualStart | EAutomaticStart => SConnect
    | _ => SIdle
    end
  | SConnect | SActive =>
    if is_start e then st else
    match e with
    | EManualStop => SIdle
    | EConnectRetryTimerExpires => SConnect
    | EDelayOpenTimerExpires => SOpenSent
    | ETcpCrAcked | ETcpConnectionConfirmed => if delay then st else SOpenSent
    | ETcpConnectionFails => match st with SConnect => if dot then SActive else SIdle | _ => SIdle end
    | EBgpOpenWithDelayOpenTimerRunning => if open_ok then SOpenConfirm else SIdle
    | _ => SIdle
    end
  | SOpenSent =>
    if is_start e || is_tcp_ok e then SOpenSent else
    match e with
    | ETcpConnectionFails => SActive
    | EBgpOpen => if open_ok then SOpenConfirm else SIdle
    | _ => SIdle
    end
  | SOpenConfirm =>
    if is_start e || is_tcp_ok e then SOpenConfirm else
    match e with
    | EKeepaliveTimerExpires => SOpenConfirm
    | EKeepaliveMsg => SEstablished
    | _ => SIdle
    end
  | SEstablished =>
    if is_start e || is_tcp_ok e then SEstablished else
    match e with
    | EKeepaliveTimerExpires | EKeepaliveMsg | EUpdateMsg => SEstablished
    | _ => SIdle
    end
  end.

(* (code, subcode): Cease / administrative shutdown, Hold Timer Expired, FSM error with the state's subcode *)
Definition rfc_notif (st : fstate) (e : fevent) : option (N * N) :=
  let fsm_sub := match st with SOpenSent => Some 1 | SOpenConfirm => Some 2 | SEstablished => Some 3 | _ => None end in
  match fsm_sub with
  | None => None
  | Some sub =>
    match e with
    | EManualStop => Some (6, 2)
    | EHoldTimerExpires => Some (4, 0)
    | EConnectRetryTimerExpires | EDelayOpenTimerExpires | EBgpOpenWithDelayOpenTimerRunning => Some (5, sub)
    | EKeepaliveTimerExpires | ENotifMsg | EKeepaliveMsg => match st with SOpenSent => Some (5, sub) | _ => None end
    | EUpdateMsg | EUpdateMsgErr => match st with SEstablished => None | _ => Some (5, sub) end
    | EBgpHeaderErr | EBgpOpenMsgErr | EBgpOpen => match st with SEstablished => Some (5, sub) | _ => None end
    | _ => None
    end
  end.
