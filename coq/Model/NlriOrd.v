(* C14: ==, Ord and Hash of NLRI values (after the repair F6: generic ADD-PATH `==`
   compares path id and NLRI).  inetnum's Prefix::cmp is a parameter [pcmp] of the
   comparison (external crate); [prefix_cmp] below is its executable model, used for
   the correspondence run. *)
From Coq Require Import List NArith Bool.
From RC Require Import Base.Res Base.Wire Base.Lex Model.Nlri.
Import ListNotations.
Open Scope N_scope.

(* slice Ord: lexicographic, a proper prefix is smaller *)
Fixpoint bytes_cmp (a b : bytes) : comparison :=
  match a, b with
  | [], [] => Eq
  | [], _ :: _ => Lt
  | _ :: _, [] => Gt
  | x :: a', y :: b' => then_cmp (N.compare x y) (bytes_cmp a' b')
  end.

(* inetnum::addr::Prefix::cmp *)
Definition pf_num (x : prefix) : N := unbe (pf_addr x).
Definition prefix_cmp (a b : prefix) : comparison :=
  match pf_v6 a, pf_v6 b with
  | false, true => Lt
  | true, false => Gt
  | _, _ =>
    if Nat.eqb (pf_len a) (pf_len b) then N.compare (pf_num a) (pf_num b)
    else
      let w := N.of_nat (pf_maxlen (pf_v6 a)) in
      let minlen := N.of_nat (Nat.min (pf_len a) (pf_len b)) in
      let sh := 2 ^ (w - minlen) in
      if (pf_num a / sh) =? (pf_num b / sh)
      then Nat.compare (pf_len b) (pf_len a)          (* more specific first *)
      else N.compare (pf_num a) (pf_num b)
  end.

Definition fam_index (k : famkind) : N :=
  match k with
  | Ipv4Unicast => 0 | Ipv4Multicast => 1 | Ipv4MplsUnicast => 2 | Ipv4MplsVpnUnicast => 3
  | Ipv4RouteTarget => 4 | Ipv4FlowSpec => 5
  | Ipv6Unicast => 6 | Ipv6Multicast => 7 | Ipv6MplsUnicast => 8 | Ipv6MplsVpnUnicast => 9 | Ipv6FlowSpec => 10
  | L2VpnVpls => 11 | L2VpnEvpn => 12
  end.

(* NlriType / Nlri<_> variant order: plain then ADD-PATH variant of each family, in afisafi! order *)
Definition type_index (n : nlri) : N :=
  2 * fam_index (n_fam n) + match n_pathid n with Some _ => 1 | None => 0 end.

(* the ADD-PATH wrappers of the non-generic families derive Ord (path id first);
   the generic ones compare the NLRI first, then the path id *)
Definition generic_fam (k : famkind) : bool :=
  match k with
  | Ipv4Unicast | Ipv4Multicast | Ipv6Unicast | Ipv6Multicast | L2VpnVpls => false
  | _ => true
  end.

(* EvpnRouteType derives Ord: named variants in declaration order, then Unimplemented(n) *)
Definition evpn_named (c : N) : bool := (1 <=? c) && (c <=? 5).

Inductive keyitem := KN (n : N) | KB (b : bytes) | KP (p : prefix).

Definition body_key (b : nlri_body) : list keyitem :=
  match b with
  | BPrefix x => [KP x]
  | BMpls x l => [KP x; KB l]
  | BVpn x l rd => [KP x; KB l; KB rd]
  | BRouteTarget raw => [KB raw]
  | BFlow raw => [KB raw]
  | BVpls rd ve off sz lb => [KB rd; KN ve; KN off; KN sz; KN lb]
  | BEvpn ty raw => [KN (if evpn_named ty then 0 else 1); KN ty; KB raw]
  end.

Definition nlri_key (n : nlri) : list keyitem :=
  KN (type_index n) ::
  match n_pathid n with
  | None => body_key (n_body n)
  | Some pid => if generic_fam (n_fam n) then body_key (n_body n) ++ [KN pid]
                else KN pid :: body_key (n_body n)
  end.

Section Cmp.
  Variable pcmp : prefix -> prefix -> comparison.

  Definition item_cmp (a b : keyitem) : comparison :=
    match a, b with
    | KN x, KN y => N.compare x y
    | KB x, KB y => bytes_cmp x y
    | KP x, KP y => pcmp x y
    | KN _, _ => Lt
    | _, KN _ => Gt
    | KB _, KP _ => Lt
    | KP _, KB _ => Gt
    end.

  Fixpoint key_cmp (a b : list keyitem) : comparison :=
    match a, b with
    | [], [] => Eq
    | [], _ :: _ => Lt
    | _ :: _, [] => Gt
    | x :: a', y :: b' => then_cmp (item_cmp x y) (key_cmp a' b')
    end.

  Definition nlri_cmp (a b : nlri) : comparison := key_cmp (nlri_key a) (nlri_key b).
End Cmp.

(* == *)
Definition bytes_eqb (a b : bytes) : bool := beq_bytes a b.
Definition prefix_eqb (a b : prefix) : bool :=
  Bool.eqb (pf_v6 a) (pf_v6 b) && Nat.eqb (pf_len a) (pf_len b) && bytes_eqb (pf_addr a) (pf_addr b).

Definition body_eqb (a b : nlri_body) : bool :=
  match a, b with
  | BPrefix x, BPrefix y => prefix_eqb x y
  | BMpls x l, BMpls y m => prefix_eqb x y && bytes_eqb l m
  | BVpn x l r, BVpn y m s => prefix_eqb x y && bytes_eqb l m && bytes_eqb r s
  | BRouteTarget x, BRouteTarget y => bytes_eqb x y
  | BFlow x, BFlow y => bytes_eqb x y
  | BVpls r v o s l, BVpls r' v' o' s' l' => bytes_eqb r r' && (v =? v') && (o =? o') && (s =? s') && (l =? l')
  | BEvpn t r, BEvpn t' r' => (t =? t') && bytes_eqb r r'
  | _, _ => false
  end.

Definition nlri_eqb (a b : nlri) : bool :=
  (fam_index (n_fam a) =? fam_index (n_fam b)) &&
  match n_pathid a, n_pathid b with
  | None, None => body_eqb (n_body a) (n_body b)
  | Some p, Some q => (p =? q) && body_eqb (n_body a) (n_body b)
  | _, _ => false
  end.

(* Hash: the octets fed to the Hasher, flattened (integers little endian, slices with their
   usize length first, enum discriminants as isize) *)
Fixpoint le (k : nat) (n : N) : bytes :=
  match k with O => [] | S k' => n mod 256 :: le k' (n / 256) end.
Definition h_slice (b : bytes) : bytes := le 8 (N.of_nat (length b)) ++ b.

(* FamilyAndLen: v4 -> len; v6 -> 0x40 for 128, else len xor 0xff *)
Definition family_and_len (x : prefix) : N :=
  if pf_v6 x then (if Nat.eqb (pf_len x) 128 then 64 else 255 - N.of_nat (pf_len x)) else N.of_nat (pf_len x).
Definition prefix_bits128 (x : prefix) : N :=
  if pf_v6 x then pf_num x else pf_num x * 2 ^ 96.
Definition h_prefix (x : prefix) : bytes := le 1 (family_and_len x) ++ le 16 (prefix_bits128 x).

Definition h_body (k : famkind) (b : nlri_body) : bytes :=
  match b with
  | BPrefix x => h_prefix x
  | BMpls x l => h_prefix x ++ h_slice l
  | BVpn x l rd => h_prefix x ++ h_slice l ++ h_slice rd
  | BRouteTarget raw => h_slice raw
  | BFlow raw => le 8 (if fam_v6 k then 1 else 0) ++ h_slice raw      (* Afi discriminant, then raw *)
  | BVpls rd ve off sz lb => h_slice rd ++ le 2 ve ++ le 2 off ++ le 2 sz ++ le 4 lb
  | BEvpn ty raw => (if evpn_named ty then le 8 (ty - 1) else le 8 5 ++ le 1 ty) ++ h_slice raw
  end.

Definition hash_input (n : nlri) : bytes :=
  le 8 (type_index n) ++
  match n_pathid n with Some pid => le 4 pid | None => [] end ++
  h_body (n_fam n) (n_body n).
