(* C10/C11: route preference (Ord for OrdRoute) and best / backup selection.

   A route is the projection of (PaMap, TiebreakerInfo) onto what the comparison
   reads, plus [r_rest], a stand-in for every other attribute (it matters only
   for content equality).  The order of the tie-breaking steps is generated from
   the source (Gen/CmpChain.v); the step bodies are pinned by hash. *)
From Coq Require Import List NArith Bool.
From RC Require Import Base.Res Base.Lex Gen.CmpChain.
Import ListNotations.
Open Scope N_scope.

Inductive hop := HAsn (a : N) | HSet | HOther.

Record route := mkRoute {
  r_dop : option N;          (* TiebreakerInfo.degree_of_preference *)
  r_ibgp : bool;             (* source: false = Ebgp < true = Ibgp *)
  r_local_asn : N;
  r_bgp_id : N;              (* 4 octets, compared as octets = as a big-endian number *)
  r_peer : bool * N;         (* IpAddr: (is_v6, address); V4 < V6, then the address *)
  r_origin : option N;
  r_path : option (list hop);
  r_local_pref : option N;
  r_med : option N;
  r_originator : option N;
  r_cluster_len : option N;
  r_rest : N
}.

Inductive strat := Rfc4271 | SkipMed.

Fixpoint hop_count_ps (l : list hop) : N :=
  match l with
  | [] => 0
  | HAsn _ :: tl => 1 + hop_count_ps tl
  | HSet :: tl => 1 + hop_count_ps tl
  | HOther :: tl => hop_count_ps tl
  end.

Definition neighbor_ps (l : list hop) : option N :=
  match l with HAsn a :: _ => Some a | _ => None end.

Definition opt_or {A} (o : option A) (d : A) : A := match o with Some x => x | None => d end.

(* OrdRoute::eligible *)
Definition eligible (r : route) : bool :=
  match r_origin r, r_path r with
  | Some _, Some p => if r_ibgp r then true else match neighbor_ps p with Some _ => true | None => false end
  | _, _ => false
  end.

Definition dop (r : route) : N :=
  match r_dop r with
  | Some d => d
  | None => if r_ibgp r then opt_or (r_local_pref r) 0 else 0
  end.

Definition neighbor_or_local (r : route) : N :=
  opt_or (match r_path r with Some p => neighbor_ps p | None => None end) (r_local_asn r).

Definition step_c (s : strat) (a b : route) : comparison :=
  match s with
  | SkipMed => Eq
  | Rfc4271 =>
    if neighbor_or_local a =? neighbor_or_local b
    then N.compare (opt_or (r_med a) 0) (opt_or (r_med b) 0)
    else Eq
  end.

Definition cmp_peer (a b : bool * N) : comparison :=
  then_cmp (cmp_bool (fst a) (fst b)) (N.compare (snd a) (snd b)).

(* one then_with step; StepA panics when an AS_PATH is missing *)
Definition run_step (s : strat) (st : step) (a b : route) : res comparison :=
  match st with
  | StepA => match r_path a, r_path b with
             | Some pa, Some pb => Ok (N.compare (hop_count_ps pa) (hop_count_ps pb))
             | _, _ => Panic
             end
  | StepB => match r_origin a, r_origin b with
             | Some x, Some y => Ok (N.compare x y)
             | _, _ => Ok Eq
             end
  | StepC => Ok (step_c s a b)
  | StepD => Ok (cmp_bool (r_ibgp a) (r_ibgp b))
  | StepE => Ok Eq
  | StepF => Ok (N.compare (opt_or (r_originator a) (r_bgp_id a)) (opt_or (r_originator b) (r_bgp_id b)))
  | StepF2 => Ok (N.compare (opt_or (r_cluster_len a) 0) (opt_or (r_cluster_len b) 0))
  | StepG => Ok (cmp_peer (r_peer a) (r_peer b))
  | StepEnd => Ok Eq
  end.

(* then_with is lazy: a later step runs only while everything before is Equal *)
Fixpoint run_chain (s : strat) (l : list step) (a b : route) : res comparison :=
  match l with
  | [] => Ok Eq
  | st :: tl =>
    match run_step s st a b with
    | Ok Eq => run_chain s tl a b
    | r => r
    end
  end.

Definition cmp_route (s : strat) (a b : route) : res comparison :=
  match N.compare (dop b) (dop a) with
  | Eq => run_chain s cmp_chain a b
  | c => Ok c
  end.

(* content equality: `inner() == inner()` (TiebreakerInfo and PaMap) *)
Definition opt_eqb (a b : option N) : bool :=
  match a, b with Some x, Some y => x =? y | None, None => true | _, _ => false end.
Definition hop_eqb (a b : hop) : bool :=
  match a, b with HAsn x, HAsn y => x =? y | HSet, HSet => true | HOther, HOther => true | _, _ => false end.
Fixpoint hops_eqb (a b : list hop) : bool :=
  match a, b with
  | [], [] => true
  | x :: a', y :: b' => hop_eqb x y && hops_eqb a' b'
  | _, _ => false
  end.
Definition content_eqb (a b : route) : bool :=
  opt_eqb (r_dop a) (r_dop b) && Bool.eqb (r_ibgp a) (r_ibgp b) && (r_local_asn a =? r_local_asn b) &&
  (r_bgp_id a =? r_bgp_id b) && Bool.eqb (fst (r_peer a)) (fst (r_peer b)) && (snd (r_peer a) =? snd (r_peer b)) &&
  opt_eqb (r_origin a) (r_origin b) &&
  match r_path a, r_path b with Some x, Some y => hops_eqb x y | None, None => true | _, _ => false end &&
  opt_eqb (r_local_pref a) (r_local_pref b) && opt_eqb (r_med a) (r_med b) &&
  opt_eqb (r_originator a) (r_originator b) && opt_eqb (r_cluster_len a) (r_cluster_len b) &&
  (r_rest a =? r_rest b).

(* ---- independent reference: RFC 4271 9.1.2.2 a)-g) with RFC 4456, as a key vector ---- *)
Definition ref_keys (r : route) : list N :=
  [ hop_count_ps (opt_or (r_path r) []);                 (* a) shorter AS path, set = 1, confed = 0 *)
    opt_or (r_origin r) 0 ].                             (* b) lower origin *)
Definition ref_keys_tail (r : route) : list N :=
  [ if r_ibgp r then 1 else 0;                           (* d) eBGP over iBGP *)
    opt_or (r_originator r) (r_bgp_id r);                (* f) lowest BGP identifier / ORIGINATOR_ID *)
    opt_or (r_cluster_len r) 0;                          (*    shorter cluster list *)
    if fst (r_peer r) then 1 else 0; snd (r_peer r) ].   (* g) lowest peer address *)

Definition rfc_decide (s : strat) (a b : route) : comparison :=
  then_cmp (CompOpp (N.compare (dop a) (dop b)))            (* higher degree of preference first *)
  (then_cmp (lex (ref_keys a) (ref_keys b))
   (then_cmp (match s with
              | SkipMed => Eq
              | Rfc4271 => if neighbor_or_local a =? neighbor_or_local b   (* c) MED among same neighbour AS *)
                           then N.compare (opt_or (r_med a) 0) (opt_or (r_med b) 0) else Eq
              end)
             (lex (ref_keys_tail a) (ref_keys_tail b)))).

(* ---- selection folds, generic in the item type ---- *)
Section Sel.
  Variable T : Type.
  Variable lt : T -> T -> bool.        (* `<` of T's Ord *)
  Variable ceq : T -> T -> bool.       (* same content: inner() == inner() *)

  (* Iterator::min : the first minimum *)
  Fixpoint best_from (b : T) (l : list T) : T :=
    match l with
    | [] => b
    | c :: tl => if lt c b then best_from c tl else best_from b tl
    end.
  Definition best (l : list T) : option T :=
    match l with [] => None | x :: tl => Some (best_from x tl) end.

  (* best_backup_generic *)
  Fixpoint bbg (b : option T) (k : option T) (l : list T) : option T * option T :=
    match l with
    | [] => (b, k)
    | c :: tl =>
      match b with
      | None => bbg (Some c) k tl
      | Some cb =>
        if lt c cb then bbg (Some c) (Some cb) tl
        else match k with
             | None => bbg b (Some c) tl
             | Some ck => if lt c ck then bbg b (Some c) tl else bbg b k tl
             end
      end
    end.
  Definition best_backup_generic (l : list T) := bbg None None l.

  (* _best_backup, with positions *)
  Fixpoint bb (i : nat) (b : option (nat * T)) (k : option (nat * T)) (l : list T)
    : option (nat * T) * option (nat * T) :=
    match l with
    | [] => (b, k)
    | c :: tl =>
      match b with
      | None => bb (S i) (Some (i, c)) k tl
      | Some (ib, cb) =>
        if lt c cb then bb (S i) (Some (i, c)) (Some (ib, cb)) tl
        else match k with
             | None => if ceq cb c then bb (S i) b None tl else bb (S i) b (Some (i, c)) tl
             | Some (ik, ck) =>
               if lt c ck then
                 if ceq cb c then bb (S i) b k tl else bb (S i) b (Some (i, c)) tl
               else bb (S i) b k tl
             end
      end
    end.
  Definition best_backup_idx (l : list T) := bb 0 None None l.
  Definition best_backup (l : list T) : option T * option T :=
    let '(b, k) := best_backup_idx l in (option_map snd b, option_map snd k).
End Sel.

Definition route_lt (s : strat) (a b : route) : bool :=
  match cmp_route s a b with Ok Lt => true | _ => false end.
