(* Independent reference encoder for UPDATE messages (RFC 4271 / 4760 / 7911), used to state C01:
   abstract content -> octets.  It shares only the per-NLRI encoder and the attribute header
   layout with the implementation models; the message layout is written from the RFC. *)
From Coq Require Import List NArith Bool.
From RC Require Import Base.Res Base.Wire Model.Open Model.Negotiate Model.Nlri Gen.AttrRules Model.Attr.
Import ListNotations.
Open Scope N_scope.

Record attr_spec := mkAS { as_flags : N; as_code : N; as_value : bytes }.

(* one attribute: flags (extended-length bit set exactly when the value exceeds 255 octets), type, length, value *)
Definition enc_attr (a : attr_spec) : bytes :=
  header (as_flags a) (as_code a) (length (as_value a)) ++ as_value a.

Record content := mkContent { c_wd : list nlri; c_attrs : list attr_spec; c_ann : list nlri }.

Definition ref_encode (c : content) : res bytes :=
  let* W := encode_all (c_wd c) in
  let* A := Ok (flat_map enc_attr (c_attrs c)) in
  let* Nl := encode_all (c_ann c) in
  Ok (marker ++ be 2 (N.of_nat (23 + length W + length A + length Nl)) ++ [2] ++
      be 2 (N.of_nat (length W)) ++ W ++ be 2 (N.of_nat (length A)) ++ A ++ Nl).

(* MP_REACH_NLRI / MP_UNREACH_NLRI values *)
Definition mp_reach_value (fam : N * N) (nh : bytes) (nlris : bytes) : bytes :=
  be 2 (fst fam) ++ [snd fam] ++ [N.of_nat (length nh)] ++ nh ++ [0] ++ nlris.
Definition mp_unreach_value (fam : N * N) (nlris : bytes) : bytes :=
  be 2 (fst fam) ++ [snd fam] ++ nlris.

Definition wf_spec (a : attr_spec) : bool :=
  (as_flags a <? 256) && (as_code a <? 256) && (N.of_nat (length (as_value a)) <=? 65535) &&
  (Nat.ltb 255 (length (as_value a)) || negb (has_ext (as_flags a))) &&
  (negb ((as_code a =? 14) || (as_code a =? 15)) || Nat.leb 3 (length (as_value a))).

Definition conv_nlri_ok (ap : bool) (n : nlri) : bool :=
  wf_nlri n && match n_fam n with Ipv4Unicast => true | _ => false end &&
  Bool.eqb (match n_pathid n with Some _ => true | None => false end) ap.

Definition wf_content (cfg : sconfig) (c : content) : bool :=
  forallb (conv_nlri_ok (rx_addpath cfg (1, 1))) (c_wd c) &&
  forallb (conv_nlri_ok (rx_addpath cfg (1, 1))) (c_ann c) &&
  forallb wf_spec (c_attrs c).
