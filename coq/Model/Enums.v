(* Generic interpreter for protocol code-point enumerations.
   The tables themselves are generated from /repo on every run (Gen/EnumTables.v);
   this file only gives them meaning, mirroring what `typeenum!` and the
   hand-written `match` conversions do:

     From<int>  : first matching single arm, else first matching range arm
                  (the variant then carries the number), else the catch-all
                  variant carrying the number;
     Into<int>  : the reverse match.  *)
From Coq Require Import List NArith Bool.
Import ListNotations.
Open Scope N_scope.

Record enum_tbl := mk_enum {
  e_fwd    : list (N * N);            (* code => variant index, in source order *)
  e_ranges : list (N * option N * N); (* lo, hi (None = half-open), variant index *)
  e_bwd    : list (N * N);            (* variant index => code : the reverse match *)
  e_catch  : bool                     (* has a catch-all that carries the number *)
}.

Inductive ev := Named (i : N) | Ranged (i n : N) | Catch (n : N) | Reject.

Fixpoint lookup (l : list (N * N)) (k : N) : option N :=
  match l with
  | [] => None
  | (k', v) :: tl => if k' =? k then Some v else lookup tl k
  end.

Definition in_range (r : N * option N * N) (n : N) : bool :=
  let '(lo, hi, _) := r in
  (lo <=? n) && match hi with Some h => n <=? h | None => true end.

Fixpoint lookup_range (l : list (N * option N * N)) (n : N) : option N :=
  match l with
  | [] => None
  | r :: tl => if in_range r n then Some (snd r) else lookup_range tl n
  end.

Definition of_int (t : enum_tbl) (n : N) : ev :=
  match lookup (e_fwd t) n with
  | Some i => Named i
  | None =>
    match lookup_range (e_ranges t) n with
    | Some i => Ranged i n
    | None => if e_catch t then Catch n else Reject
    end
  end.

(* [None] = the reverse match has no arm for this variant: in Rust that does
   not compile, so it only arises from a translator/table inconsistency and the
   consistency checker excludes it. *)
Definition to_int (t : enum_tbl) (v : ev) : option N :=
  match v with
  | Named i => lookup (e_bwd t) i
  | Ranged _ n => Some n
  | Catch n => Some n
  | Reject => None
  end.

Definition opt_eqb (a b : option N) : bool :=
  match a, b with
  | Some x, Some y => x =? y
  | None, None => true
  | _, _ => false
  end.

(* Boolean checker, evaluated on the generated tables: for every code that has
   a single arm, the variant the forward match picks maps back to that code. *)
Definition consistent (t : enum_tbl) : bool :=
  forallb (fun '(c, _) =>
             match lookup (e_fwd t) c with
             | Some i => opt_eqb (lookup (e_bwd t) i) (Some c)
             | None => false
             end) (e_fwd t).

(* Every code below [bound] is accepted (no [Reject]) : used for enums whose
   conversion from an integer is fallible (TryFrom). *)
Definition total_below (t : enum_tbl) (bound : N) : bool :=
  forallb (fun n => match of_int t n with Reject => false | _ => true end)
          (map N.of_nat (seq 0 (N.to_nat bound))).

(* ---- AFI/SAFI pairs ---- *)

Record afisafi_tbl := mk_afisafi {
  as_entries : list (N * N * N)   (* afi code, safi code, variant index; source order *)
}.

Inductive asv := AsNamed (i : N) | AsUnsupported (a s : N).

Fixpoint as_lookup (l : list (N * N * N)) (a s : N) : option N :=
  match l with
  | [] => None
  | (a', s', i) :: tl => if (a' =? a) && (s' =? s) then Some i else as_lookup tl a s
  end.

Fixpoint as_rev (l : list (N * N * N)) (i : N) : option (N * N) :=
  match l with
  | [] => None
  | (a', s', i') :: tl => if i' =? i then Some (a', s') else as_rev tl i
  end.

Definition afisafi_of (t : afisafi_tbl) (a s : N) : asv :=
  match as_lookup (as_entries t) a s with
  | Some i => AsNamed i
  | None => AsUnsupported a s
  end.

Definition afisafi_to (t : afisafi_tbl) (v : asv) : option (N * N) :=
  match v with
  | AsNamed i => as_rev (as_entries t) i
  | AsUnsupported a s => Some (a, s)
  end.

(* as_bytes: per variant, [afi.to_be_bytes()[0], [1], safi] *)
Definition afisafi_bytes (t : afisafi_tbl) (v : asv) : option (list N) :=
  match afisafi_to t v with
  | Some (a, s) => Some [a / 256; a mod 256; s]
  | None => None
  end.

(* AfiSafiType::afi(): the named Afi variant of the entry; an unsupported pair
   keeps its AFI number in the Afi catch-all (even when that number is a known AFI). *)
Definition afisafi_afi (t : afisafi_tbl) (afi_tbl : enum_tbl) (v : asv) : ev :=
  match v with
  | AsNamed i => match as_rev (as_entries t) i with
                 | Some (a, _) => of_int afi_tbl a
                 | None => Reject
                 end
  | AsUnsupported a _ => Catch a
  end.

Definition as_consistent (t : afisafi_tbl) : bool :=
  forallb (fun '(a, s, _) =>
             match as_lookup (as_entries t) a s with
             | Some i => match as_rev (as_entries t) i with
                         | Some (a', s') => (a' =? a) && (s' =? s)
                         | None => false
                         end
             | None => false
             end) (as_entries t).

(* NLRI types: one plain and one ADD-PATH variant per AFI/SAFI variant. *)
Inductive nlrity := NtNamed (i : N) (addpath : bool) | NtUnsupported (a s : N).

Definition nlritype_of (v : asv) (ap : bool) : nlrity :=
  match v with
  | AsNamed i => NtNamed i ap
  | AsUnsupported a s => NtUnsupported a s
  end.

Definition nlritype_afisafi (n : nlrity) : asv :=
  match n with
  | NtNamed i _ => AsNamed i
  | NtUnsupported a s => AsUnsupported a s
  end.

(* ---- NOTIFICATION details ---- *)

(* d_of_code : ErrorCode variant idx => (Details variant idx, the subcode
   enumeration the payload goes through, or None when the variant has no payload)
   d_raw     : Details variant idx => (ErrorCode variant idx whose number is the
   code byte, subcode enumeration of the payload or None = literal 0) *)
Record details_tbl := mk_details {
  d_of_code : list (N * (N * option enum_tbl));
  d_raw     : list (N * (N * option enum_tbl))
}.

Inductive details := DNamed (i : N) (sub : option ev) | DUnimpl (c s : N).

Fixpoint lookup2 {A} (l : list (N * A)) (k : N) : option A :=
  match l with
  | [] => None
  | (k', v) :: tl => if k' =? k then Some v else lookup2 tl k
  end.

Definition details_of (ec : enum_tbl) (t : details_tbl) (c s : N) : option details :=
  match of_int ec c with
  | Named i =>
    match lookup2 (d_of_code t) i with
    | Some (d, Some st) => Some (DNamed d (Some (of_int st s)))
    | Some (d, None) => Some (DNamed d None)
    | None => None
    end
  | Catch n => Some (DUnimpl n s)
  | _ => None
  end.

Definition details_raw (ec : enum_tbl) (t : details_tbl) (d : details) : option (list N) :=
  match d with
  | DUnimpl c s => Some [c; s]
  | DNamed i sub =>
    match lookup2 (d_raw t) i with
    | Some (e, st) =>
      match to_int ec (Named e) with
      | Some c =>
        match st, sub with
        | Some st', Some v =>
          match to_int st' v with Some s => Some [c; s] | None => None end
        | None, _ => Some [c; 0]
        | Some _, None => None
        end
      | None => None
      end
    | None => None
    end
  end.
