(* C05 / C14: the 13 NLRI families, with and without a path identifier.
   Model of the code after the repairs F3 (prefix length guard in parse_prefix_for_len),
   F4 (VPLS 2-octet length), F5 (route-target compose_len), F19 (FlowSpec components
   bounded by the NLRI length).  u8 arithmetic is the overflow-checking profile. *)
From Coq Require Import List NArith Bool.
From RC Require Import Base.Res Base.Wire Base.Lex.
Import ListNotations.
Open Scope N_scope.

(* ---- inetnum::addr::Prefix ---- *)
Record prefix := mkPfx { pf_v6 : bool; pf_len : nat; pf_addr : bytes }.
Definition pf_width (v6 : bool) : nat := if v6 then 16%nat else 4%nat.
Definition pf_maxlen (v6 : bool) : nat := if v6 then 128%nat else 32%nat.

Definition prefix_bits_to_bytes (bits : nat) : nat := Nat.div (bits + 7) 8.

Definition all_zero (l : bytes) : bool := forallb (fun b => b =? 0) l.

(* Bits::is_host_zero: everything after the first [len] bits is zero *)
Definition host_zero (len : nat) (addr : bytes) : bool :=
  let nb := prefix_bits_to_bytes len in
  all_zero (skipn nb addr) &&
  match Nat.modulo len 8 with
  | O => true
  | r => (nth (nb - 1) addr 0) mod (2 ^ N.of_nat (8 - r)) =? 0
  end.

(* Prefix::new_v4 / new_v6 *)
Definition prefix_new (v6 : bool) (addr : bytes) (len : nat) : res prefix :=
  if Nat.ltb (pf_maxlen v6) len then Err
  else if host_zero len addr then Ok (mkPfx v6 len addr) else Err.

(* parse_v4_prefix_for_len / parse_v6_prefix_for_len, and (after F3) parse_prefix_for_len *)
Definition parse_prefix_for_len (v6 : bool) (bits : nat) (p : parser) : res (prefix * parser) :=
  let nb := prefix_bits_to_bytes bits in
  if Nat.ltb (pf_width v6) nb then Err else
  let* (b, p) := take nb p in
  let* pfx := prefix_new v6 (b ++ repeat 0 (pf_width v6 - nb)) bits in
  Ok (pfx, p).

Definition parse_prefix (v6 : bool) (p : parser) : res (prefix * parser) :=
  let* (bits, p) := parse_u8 p in
  parse_prefix_for_len v6 (N.to_nat bits) p.

Definition compose_prefix_without_len (x : prefix) : bytes :=
  firstn (prefix_bits_to_bytes (pf_len x)) (pf_addr x).
Definition compose_prefix (x : prefix) : bytes :=
  N.of_nat (pf_len x) :: compose_prefix_without_len x.

(* ---- MPLS labels ---- *)
Definition is_stop (t : bytes) : bool :=
  match t with
  | [a; b; c] => (c mod 2 =? 1) || ((a =? 128) && (b =? 0) && (c =? 0)) || ((a =? 0) && (b =? 0) && (c =? 0))
  | _ => false
  end.

(* Labels::parse: 3-octet groups up to and including the first stop group *)
Fixpoint labels_parse (fuel : nat) (p : parser) : res (bytes * parser) :=
  match fuel with
  | O => Err
  | S f =>
    let* (t, p) := take 3 p in
    if is_stop t then Ok (t, p)
    else let* (r, p) := labels_parse f p in Ok (t ++ r, p)
  end.

(* u8::try_from(n) then comparisons / subtraction, as in parse_labels_prefix *)
Definition try_u8 (n : nat) : res nat := if Nat.ltb 255 n then Err else Ok n.

Definition parse_labels_prefix (v6 : bool) (p : parser) : res (prefix * bytes * parser) :=
  let* (bits, p) := parse_u8 p in
  let bits := N.to_nat bits in
  let* (labels, p) := labels_parse (S (remaining p)) p in
  let* lb := try_u8 (8 * length labels) in
  if Nat.ltb bits lb then Err else
  let* (pfx, p) := parse_prefix_for_len v6 (bits - lb) p in
  Ok (pfx, labels, p).

Definition parse_labels_rd_prefix (v6 : bool) (p : parser) : res (prefix * bytes * bytes * parser) :=
  let* (bits, p) := parse_u8 p in
  let bits := N.to_nat bits in
  let* (labels, p) := labels_parse (S (remaining p)) p in
  let* lb := try_u8 (8 * (8 + length labels)) in
  if Nat.ltb bits lb then Err else
  let* (rd, p) := take 8 p in
  let* (pfx, p) := parse_prefix_for_len v6 (bits - lb) p in
  Ok (pfx, labels, rd, p).

(* ---- FlowSpec components (IPv4) ---- *)
Definition op_to_len (op : N) : nat :=
  match (op / 16) mod 4 with 0 => 1%nat | 1 => 2%nat | 2 => 4%nat | _ => 8%nat end.

(* a list of (op, value) pairs up to the one with the end-of-list bit *)
Fixpoint ops_parse (fuel : nat) (p : parser) : res parser :=
  match fuel with
  | O => Err
  | S f =>
    let* (op, p) := parse_u8 p in
    let* p := advance (op_to_len op) p in
    if 128 <=? op then Ok p else ops_parse f p
  end.

(* flowspec::parse_prefix (peek + advance) *)
Definition flow_prefix (bits : nat) (p : parser) : res parser :=
  let nb := prefix_bits_to_bytes bits in
  match nb with
  | O => Ok p
  | _ => if Nat.ltb 4 nb then Err else
         let* (b, p) := take nb p in
         let* _ := prefix_new false (b ++ repeat 0 (4 - nb)) bits in Ok p
  end.

Definition component_parse (p : parser) : res parser :=
  let* (typ, p) := parse_u8 p in
  if (typ =? 1) || (typ =? 2) then
    let* (bits, p) := parse_u8 p in flow_prefix (N.to_nat bits) p
  else if (3 <=? typ) && (typ <=? 12) then ops_parse (S (remaining p)) p
  else Err.

Fixpoint components_parse (fuel : nat) (p : parser) : res unit :=
  match fuel with
  | O => Err
  | S f => if Nat.eqb (remaining p) 0 then Ok tt
           else let* p := component_parse p in components_parse f p
  end.

Definition flow_components_ok (raw : bytes) : bool :=
  is_ok (components_parse (S (length raw)) (parser_of raw)).

(* ---- the NLRI values ---- *)
Inductive famkind :=
| Ipv4Unicast | Ipv4Multicast | Ipv4MplsUnicast | Ipv4MplsVpnUnicast | Ipv4RouteTarget | Ipv4FlowSpec
| Ipv6Unicast | Ipv6Multicast | Ipv6MplsUnicast | Ipv6MplsVpnUnicast | Ipv6FlowSpec
| L2VpnVpls | L2VpnEvpn.

Definition fam_v6 (k : famkind) : bool :=
  match k with
  | Ipv6Unicast | Ipv6Multicast | Ipv6MplsUnicast | Ipv6MplsVpnUnicast | Ipv6FlowSpec => true
  | _ => false
  end.

Inductive nlri_body :=
| BPrefix (x : prefix)
| BMpls (x : prefix) (labels : bytes)
| BVpn (x : prefix) (labels : bytes) (rd : bytes)
| BRouteTarget (raw : bytes)
| BFlow (raw : bytes)
| BVpls (rd : bytes) (ve_id off size : N) (label_base : N)
| BEvpn (route_type : N) (raw : bytes).

Record nlri := mkNlri { n_fam : famkind; n_pathid : option N; n_body : nlri_body }.

(* FlowSpecNlri::parse length decoding *)
Definition flow_len (p : parser) : res (nat * parser) :=
  let* (len1, p) := parse_u8 p in
  if 240 <=? len1 then
    let* (len2, p) := parse_u8 p in Ok (N.to_nat ((len1 - 240) * 256 + len2), p)
  else Ok (N.to_nat len1, p).

Definition parse_body (k : famkind) (p : parser) : res (nlri_body * parser) :=
  match k with
  | Ipv4Unicast | Ipv4Multicast | Ipv6Unicast | Ipv6Multicast =>
    let* (x, p) := parse_prefix (fam_v6 k) p in Ok (BPrefix x, p)
  | Ipv4MplsUnicast | Ipv6MplsUnicast =>
    let* (x, l, p) := parse_labels_prefix (fam_v6 k) p in Ok (BMpls x l, p)
  | Ipv4MplsVpnUnicast | Ipv6MplsVpnUnicast =>
    let* (x, l, rd, p) := parse_labels_rd_prefix (fam_v6 k) p in Ok (BVpn x l rd, p)
  | Ipv4RouteTarget =>
    let* (bits, p) := parse_u8 p in
    let* (raw, p) := take (prefix_bits_to_bytes (N.to_nat bits)) p in Ok (BRouteTarget raw, p)
  | Ipv4FlowSpec | Ipv6FlowSpec =>
    let* (len, p) := flow_len p in
    if Nat.ltb (remaining p) len then Err else
    let* (raw, p) := take len p in
    if fam_v6 k then Ok (BFlow raw, p)
    else if flow_components_ok raw then Ok (BFlow raw, p) else Err
  | L2VpnVpls =>
    let* (_, p) := parse_u16 p in
    let* (rd, p) := take 8 p in
    let* (ve, p) := parse_u16 p in
    let* (off, p) := parse_u16 p in
    let* (sz, p) := parse_u16 p in
    let* (l1, p) := parse_u8 p in
    let* (l2, p) := parse_u16 p in
    Ok (BVpls rd ve off sz (l1 * 65536 + l2), p)
  | L2VpnEvpn =>
    let* (ty, p) := parse_u8 p in
    let* (len, p) := parse_u8 p in
    let* (raw, p) := take (N.to_nat len) p in Ok (BEvpn ty raw, p)
  end.

Definition parse_nlri (k : famkind) (addpath : bool) (p : parser) : res (nlri * parser) :=
  if addpath then
    let* (pid, p) := parse_u32 p in
    let* (b, p) := parse_body k p in Ok (mkNlri k (Some pid) b, p)
  else
    let* (b, p) := parse_body k p in Ok (mkNlri k None b, p).

(* u8 addition under overflow checks *)
Definition add_u8 (a b : nat) : res nat := if Nat.ltb 255 (a + b) then Panic else Ok (a + b)%nat.
Definition sat_u8 (n : nat) : nat := if Nat.ltb 255 n then 255%nat else n.

Definition compose_body (b : nlri_body) : res bytes :=
  match b with
  | BPrefix x => Ok (compose_prefix x)
  | BMpls x l =>
    let* len := add_u8 (sat_u8 (8 * length l)) (pf_len x) in
    Ok (N.of_nat len :: l ++ compose_prefix_without_len x)
  | BVpn x l rd =>
    let* len := add_u8 (sat_u8 (8 * (8 + length l))) (pf_len x) in
    Ok (N.of_nat len :: l ++ rd ++ compose_prefix_without_len x)
  | BRouteTarget raw => Ok (N.of_nat (sat_u8 (8 * length raw)) :: raw)
  | BFlow raw =>
    let len := length raw in
    if Nat.leb 240 len then
      let l := if 65535 <? N.of_nat len then 4095 else N.of_nat len in
      (* 0xf000 | len, big endian; only the low 12 bits of len fit *)
      Ok ([240 + (l / 256) mod 16; l mod 256] ++ raw)
    else Ok (N.of_nat len :: raw)
  | BVpls rd ve off sz lb => Ok (be 2 17 ++ rd ++ be 2 ve ++ be 2 off ++ be 2 sz ++ be 3 lb)
  | BEvpn ty raw => Ok (ty :: N.of_nat (sat_u8 (length raw)) :: raw)
  end.

Definition compose_nlri (n : nlri) : res bytes :=
  let* b := compose_body (n_body n) in
  match n_pathid n with
  | Some pid => Ok (be 4 pid ++ b)
  | None => Ok b
  end.

(* NlriCompose::compose_len of the per-family wrappers *)
Definition compose_len_body (b : nlri_body) : nat :=
  match b with
  | BPrefix x => 1 + prefix_bits_to_bytes (pf_len x)
  | BMpls x l => 1 + (length l + prefix_bits_to_bytes (pf_len x))
  | BVpn x l rd => 1 + (8 + length l + prefix_bits_to_bytes (pf_len x))
  | BRouteTarget raw => 1 + length raw
  | BFlow raw => if Nat.leb 240 (length raw) then 2 + length raw else 1 + length raw
  | BVpls _ _ _ _ _ => 2 + 17
  | BEvpn _ raw => 2 + length raw
  end%nat.

Definition compose_len (n : nlri) : nat :=
  match n_pathid n with Some _ => 4 + compose_len_body (n_body n) | None => compose_len_body (n_body n) end%nat.

(* NlriIter: parse until the parser is empty; after the repair F2 an item error is the last item *)
Fixpoint nlri_iter (fuel : nat) (k : famkind) (ap : bool) (p : parser) : option (list (res nlri)) :=
  match fuel with
  | O => None
  | S f =>
    if Nat.eqb (remaining p) 0 then Some []
    else match parse_nlri k ap p with
         | Ok (n, p') => option_map (cons (Ok n)) (nlri_iter f k ap p')
         | Err => Some [Err]
         | Panic => Some [Panic]
         end
  end.

(* a sequence of NLRI, encoded back to back *)
Fixpoint encode_all (l : list nlri) : res bytes :=
  match l with
  | [] => Ok []
  | n :: tl => let* a := compose_nlri n in let* b := encode_all tl in Ok (a ++ b)
  end.

(* ---- well-formedness: what the type can hold and the wire can express ---- *)
Definition wf_prefix (v6 : bool) (x : prefix) : bool :=
  Bool.eqb (pf_v6 x) v6 && Nat.leb (pf_len x) (pf_maxlen v6) && Nat.eqb (length (pf_addr x)) (pf_width v6) &&
  wf_bytesb (pf_addr x) && host_zero (pf_len x) (pf_addr x).

(* labels: 3-octet groups, only the last one a stop group *)
Fixpoint wf_labels (groups : list bytes) : bool :=
  match groups with
  | [] => false
  | [g] => Nat.eqb (length g) 3 && wf_bytesb g && is_stop g
  | g :: tl => Nat.eqb (length g) 3 && wf_bytesb g && negb (is_stop g) && wf_labels tl
  end.

Definition chunks3 (l : bytes) : list bytes := chunks (S (length l)) 3 l.

Definition body_matches (k : famkind) (b : nlri_body) : bool :=
  match k, b with
  | (Ipv4Unicast | Ipv4Multicast | Ipv6Unicast | Ipv6Multicast), BPrefix _ => true
  | (Ipv4MplsUnicast | Ipv6MplsUnicast), BMpls _ _ => true
  | (Ipv4MplsVpnUnicast | Ipv6MplsVpnUnicast), BVpn _ _ _ => true
  | Ipv4RouteTarget, BRouteTarget _ => true
  | (Ipv4FlowSpec | Ipv6FlowSpec), BFlow _ => true
  | L2VpnVpls, BVpls _ _ _ _ _ => true
  | L2VpnEvpn, BEvpn _ _ => true
  | _, _ => false
  end.

Definition wf_body (k : famkind) (b : nlri_body) : bool :=
  body_matches k b &&
  match b with
  | BPrefix x => wf_prefix (fam_v6 k) x
  | BMpls x l => wf_prefix (fam_v6 k) x && wf_labels (chunks3 l) && Nat.leb (8 * length l + pf_len x) 255
  | BVpn x l rd => wf_prefix (fam_v6 k) x && wf_labels (chunks3 l) && Nat.eqb (length rd) 8 && wf_bytesb rd &&
                   Nat.leb (8 * (8 + length l) + pf_len x) 255
  | BRouteTarget raw => wf_bytesb raw && Nat.leb (length raw) 32
  | BFlow raw => wf_bytesb raw && Nat.leb (length raw) 4095 && (fam_v6 k || flow_components_ok raw)
  | BVpls rd ve off sz lb => Nat.eqb (length rd) 8 && wf_bytesb rd && (ve <? 65536) && (off <? 65536) && (sz <? 65536) &&
                             (lb <? 16777216)
  | BEvpn ty raw => (ty <? 256) && wf_bytesb raw && Nat.leb (length raw) 255
  end.

Definition wf_nlri (n : nlri) : bool :=
  wf_body (n_fam n) (n_body n) && match n_pathid n with Some pid => pid <? 4294967296 | None => true end.

