(* OPEN message: header check, optional parameters and capabilities. *)
From Coq Require Import List NArith Bool.
From RC Require Import Base.Res Base.Wire.
Import ListNotations.
Open Scope N_scope.

Definition marker : bytes := repeat 255 16.

(* Marker::check *)
Definition marker_check (p : parser) : res parser :=
  let* (m, p) := take 16 p in
  if beq_bytes m marker then Ok p else Err.

(* Header::check: marker, length field equal to the number of octets supplied, type skipped *)
Definition header_check (total : nat) (p : parser) : res parser :=
  let* p := marker_check p in
  let* (len, p) := parse_u16 p in
  if negb (Nat.eqb (N.to_nat len) total) then Err else
  advance 1 p.

(* capability TLVs of one parameter value (Capability::check) *)
Fixpoint caps_tlv (fuel : nat) (p : parser) : res (list (N * bytes)) :=
  match fuel with
  | O => Err
  | S f =>
    if Nat.eqb (remaining p) 0 then Ok [] else
    let* (t, p) := parse_u8 p in
    let* (l, p) := parse_u8 p in
    let* (v, p) := take (N.to_nat l) p in
    let* r := caps_tlv f p in
    Ok ((t, v) :: r)
  end.

(* parameters (Parameter::check): type 2 carries capabilities, anything else is skipped *)
Fixpoint params_tlv (fuel : nat) (p : parser) : res (list (N * bytes)) :=
  match fuel with
  | O => Err
  | S f =>
    if Nat.eqb (remaining p) 0 then Ok [] else
    let* (t, p) := parse_u8 p in
    let* (l, p) := parse_u8 p in
    let* (v, p) := take (N.to_nat l) p in
    let* r := params_tlv f p in
    Ok ((t, v) :: r)
  end.

Fixpoint caps_of_params (ps : list (N * bytes)) : res (list (N * bytes)) :=
  match ps with
  | [] => Ok []
  | (t, v) :: tl =>
    let* r := caps_of_params tl in
    if t =? 2 then
      let* c := caps_tlv (S (length v)) (parser_of v) in Ok (c ++ r)
    else Ok r
  end.

(* capabilities of a whole OPEN message given as octets *)
Definition open_caps (b : bytes) : res (list (N * bytes)) :=
  let* p := header_check (length b) (parser_of b) in
  let* p := advance 9 p in
  let* (opl, p) := parse_u8 p in
  let* (pp, p) := parse_parser (N.to_nat opl) p in
  if negb (Nat.eqb (remaining p) 0) then Err else
  let* ps := params_tlv (S (remaining pp)) pp in
  caps_of_params ps.
