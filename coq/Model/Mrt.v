(* C16: MRT files (src/mrt.rs): records, the TABLE_DUMP_V2 peer index table and RIB tables with their three iterators,
   and the BGP4MP message iterator.  Every `unwrap()`, `todo!()`, `assert!` and unchecked subtraction of the Rust code is an
   explicit [Panic] (debug build: overflow checks on), an error return is [Err].

   The parallel iterator (`rib_entries_mt`: rayon par_bridge over the tables, flat_map_iter over each table's entries) is not
   executable here: what is modelled of rayon is that its output is *some* interleaving of the per-table entry lists
   ([interleave] below); the scheduler itself is not. *)
From Coq Require Import List NArith Bool.
From RC Require Import Base.Res Base.Wire Model.Nlri.
Import ListNotations.
Open Scope N_scope.

(* ---- records *)
Record mrt_hdr := mkHdr { h_ts : N; h_type : N; h_sub : N; h_len : N; h_mus : N; h_msg : parser }.

(* CommonHeader::parse: TABLE_DUMP_V2 (13), BGP4MP (16), BGP4MP_ET (17); everything else is unsupported *)
Definition common_header_parse (p : parser) : res (mrt_hdr * parser) :=
  let* (ts, p) := parse_be 4 p in
  let* (ty, p) := parse_u16 p in
  if negb ((ty =? 13) || (ty =? 16) || (ty =? 17)) then Err else
  let* (sub, p) := parse_u16 p in
  let* (len, p) := parse_be 4 p in
  let* (mm, p) := (if ty =? 17
                   then let* (m, p) := parse_be 4 p in if len <? 4 then Panic else Ok ((m, len - 4), p)
                   else Ok ((0, len), p)) in
  (* parse_parser(length): short input when the record is longer than what is left (compared in N: the length is a u32) *)
  if N.of_nat (remaining p) <? snd mm then Err else
  let* (mp, p) := parse_parser (N.to_nat (snd mm)) p in
  Ok (mkHdr ts ty sub len (fst mm) mp, p).

(* ---- TABLE_DUMP_V2: peer index table *)
Record peer := mkPeer { pe_bgp_id : bytes; pe_v6 : bool; pe_addr : bytes; pe_asn : N }.

Definition peer_parse (p : parser) : res (peer * parser) :=
  let* (t, p) := parse_u8 p in
  let* (id, p) := take 4 p in
  let v6 := t mod 2 =? 1 in
  let* (a, p) := take (if v6 then 16 else 4) p in
  let* (asn, p) := (if (t / 2) mod 2 =? 1 then parse_be 4 p else parse_u16 p) in
  Ok (mkPeer id v6 a asn, p).

(* the loop of extract_peer_index_table: PeerEntry::parse(..).unwrap() until the entries are exhausted *)
Fixpoint peers_loop (fuel : nat) (p : parser) : res (list peer) :=
  match fuel with
  | O => Err
  | S f => if Nat.eqb (remaining p) 0 then Ok [] else
           let* (pe, p) := unwrap_res (peer_parse p) in
           let* r := peers_loop f p in Ok (pe :: r)
  end.

Definition extract_peer_index_table (p : parser) : res (list peer * parser) :=
  let* (h, p') := common_header_parse p in
  if negb (h_type h =? 13) then Err else
  if negb (h_sub h =? 1) then Err else
  let m := h_msg h in
  let* (_, m) := parse_be 4 m in                    (* collector BGP id *)
  let* (vl, m) := parse_u16 m in
  let* m := (if 0 <? vl then advance (N.to_nat vl) m else Ok m) in     (* view name *)
  let* (count, m) := parse_u16 m in
  let* peers := peers_loop (S (remaining m)) m in
  if negb (Nat.eqb (length peers) (N.to_nat count)) then Panic     (* assert_eq! *)
  else Ok (peers, p').

(* ---- RIB tables *)
Record rib_hdr := mkRib { r_seq : N; r_prefix : prefix; r_count : N; r_entries : parser }.

Definition rib_hdr_parse (v6 : bool) (m : parser) : res rib_hdr :=
  let* (seq, m) := parse_be 4 m in
  let* (pfx, m) := parse_prefix v6 m in
  let* (count, m) := parse_u16 m in
  let* (e, _) := parse_parser (remaining m) m in
  Ok (mkRib seq pfx count e).

(* RibEntry::parse: peer index, originated time, attributes *)
Definition rib_entry_parse (p : parser) : res ((N * N * bytes) * parser) :=
  let* (idx, p) := parse_u16 p in
  let* (ot, p) := parse_be 4 p in
  let* (al, p) := parse_u16 p in
  let* (a, p) := take (N.to_nat al) p in
  Ok ((idx, ot, a), p).

(* the table a record holds: Some (is_v6, header), None when the record is no TABLE_DUMP_V2 record *)
Definition table_of (h : mrt_hdr) : res (option (bool * rib_hdr)) :=
  if h_type h =? 13 then
    if h_sub h =? 2 then let* r := unwrap_res (rib_hdr_parse false (h_msg h)) in Ok (Some (false, r))
    else if h_sub h =? 4 then let* r := unwrap_res (rib_hdr_parse true (h_msg h)) in Ok (Some (true, r))
    else Panic                                                          (* todo!() *)
  else Ok None.

(* an entry as RibEntryIterator yields it: (is_v6, peer index, peer, prefix, raw attributes) *)
Definition rib_item := (bool * N * peer * prefix * bytes)%type.

(* an entry without the resolved peer and the family: what the per-table and the parallel iterators yield *)
Definition strip (it : rib_item) : prefix * N * bytes := let '(_, idx, _, pfx, attrs) := it in (pfx, idx, attrs).

(* RibEntryIterator: [cur] is current_table / current_afisafi *)
Fixpoint rib_iter (fuel : nat) (peers : list peer) (p : parser) (cur : option (bool * prefix * parser)) : res (list rib_item) :=
  match fuel with
  | O => Err
  | S f =>
    let* st :=
      (match cur with
       | Some c => Ok (Some (c, p))
       | None =>
         if Nat.eqb (remaining p) 0 then Ok None else
         let* (h, p') := unwrap_res (common_header_parse p) in
         let* t := table_of h in
         match t with
         | Some (v6, r) => Ok (Some ((v6, r_prefix r, r_entries r), p'))
         | None => Panic                                                 (* current_table.take().unwrap() *)
         end
       end) in
    match st with
    | None => Ok []
    | Some ((v6, pfx, ep), p') =>
      let* (e, ep') := unwrap_res (rib_entry_parse ep) in
      let '(idx, _, attrs) := e in
      match nth_error peers (N.to_nat idx) with
      | None => Panic                                                    (* peer_index.get(..).unwrap() *)
      | Some pe =>
        let cur' := if Nat.eqb (remaining ep') 0 then None else Some (v6, pfx, ep') in
        let* r := rib_iter f peers p' cur' in
        Ok ((v6, idx, pe, pfx, attrs) :: r)
      end
    end
  end.

Definition rib_entries (b : bytes) : res (list rib_item) :=
  let* (peers, p) := extract_peer_index_table (parser_of b) in
  rib_iter (S (length b)) peers p None.

(* SingleEntryIterator over one table: (prefix, peer index, raw attributes) *)
Fixpoint single_iter (fuel : nat) (pfx : prefix) (ep : parser) : res (list (prefix * N * bytes)) :=
  match fuel with
  | O => Err
  | S f => if Nat.eqb (remaining ep) 0 then Ok [] else
           let* (e, ep') := unwrap_res (rib_entry_parse ep) in
           let '(idx, _, attrs) := e in
           let* r := single_iter f pfx ep' in Ok ((pfx, idx, attrs) :: r)
  end.

(* TableDumpIterator, each table drained by a SingleEntryIterator: (is_v6, entries) per table; a record that is no
   TABLE_DUMP_V2 record ends the iteration *)
Fixpoint tables_iter (fuel : nat) (p : parser) : res (list (bool * list (prefix * N * bytes))) :=
  match fuel with
  | O => Err
  | S f =>
    if Nat.eqb (remaining p) 0 then Ok [] else
    let* (h, p') := unwrap_res (common_header_parse p) in
    let* t := table_of h in
    match t with
    | None => Ok []
    | Some (v6, r) =>
      let* es := single_iter (S (remaining (r_entries r))) (r_prefix r) (r_entries r) in
      let* rest := tables_iter f p' in Ok ((v6, es) :: rest)
    end
  end.

Definition tables (b : bytes) : res (list peer * list (bool * list (prefix * N * bytes))) :=
  let* (peers, p) := extract_peer_index_table (parser_of b) in
  let* t := tables_iter (S (length b)) p in Ok (peers, t).

(* what rayon is assumed to deliver: some interleaving of the per-table lists (any table order, any merge) *)
Inductive interleave {A} : list (list A) -> list A -> Prop :=
| il_done : forall ls, Forall (fun l => l = []) ls -> interleave ls []
| il_step : forall l1 x xs l2 ys, interleave (l1 ++ xs :: l2) ys -> interleave (l1 ++ (x :: xs) :: l2) (x :: ys).

(* ---- BGP4MP *)
Inductive mp_item :=
| MpState (as4 : bool) (peer_asn local_asn iface afi : N) (paddr laddr : bytes) (old new : N)
| MpMsg (as4 : bool) (peer_asn local_asn iface afi : N) (paddr laddr : bytes) (bgp : bytes).

Definition mp_head (as4 : bool) (m : parser) : res ((N * N * N * N * bytes * bytes) * parser) :=
  let* (pa, m) := (if as4 then parse_be 4 m else parse_u16 m) in
  let* (la, m) := (if as4 then parse_be 4 m else parse_u16 m) in
  let* (ifc, m) := parse_u16 m in
  let* (afi, m) := parse_u16 m in
  if afi =? 1 then let* (a, m) := take 4 m in let* (b, m) := take 4 m in Ok ((pa, la, ifc, afi, a, b), m)
  else if afi =? 2 then let* (a, m) := take 16 m in let* (b, m) := take 16 m in Ok ((pa, la, ifc, afi, a, b), m)
  else Err.

Definition mp_state_parse (as4 : bool) (m : parser) : res mp_item :=
  let* (hd, m) := mp_head as4 m in
  let '(pa, la, ifc, afi, a, b) := hd in
  let* (o, m) := parse_u16 m in
  let* (n, _) := parse_u16 m in
  Ok (MpState as4 pa la ifc afi a b o n).

Definition mp_msg_parse (as4 : bool) (m : parser) : res mp_item :=
  let* (hd, m) := mp_head as4 m in
  let '(pa, la, ifc, afi, a, b) := hd in
  Ok (MpMsg as4 pa la ifc afi a b (p_rest m)).

(* UpdateIterator: records that are no BGP4MP records are skipped, a record whose body does not parse is skipped, an
   incomplete record header or body ends the iteration *)
Fixpoint messages_iter (fuel : nat) (p : parser) : res (list mp_item) :=
  match fuel with
  | O => Err
  | S f =>
    if Nat.eqb (remaining p) 0 then Ok [] else
    match common_header_parse p with
    | Panic => Panic
    | Err => Ok []
    | Ok (h, p') =>
      if h_type h =? 13 then messages_iter f p' else
      let sub := h_sub h in
      let* item :=
        (if sub =? 0 then Ok (mp_state_parse false (h_msg h))
         else if sub =? 1 then Ok (mp_msg_parse false (h_msg h))
         else if sub =? 4 then Ok (mp_msg_parse true (h_msg h))
         else if sub =? 5 then Ok (mp_state_parse true (h_msg h))
         else Panic) in                                                   (* todo!() *)
      match item with
      | Ok it => let* r := messages_iter f p' in Ok (it :: r)
      | Err => messages_iter f p'
      | Panic => Panic
      end
    end
  end.

Definition messages (b : bytes) : res (list mp_item) := messages_iter (S (length b)) (parser_of b).

(* ---- reference encoder (RFC 6396), specification only *)
Definition enc_rec (ts ty sub : N) (body : bytes) : bytes :=
  be 4 ts ++ be 2 ty ++ be 2 sub ++ be 4 (N.of_nat (length body)) ++ body.
Definition enc_rec_et (ts sub mus : N) (body : bytes) : bytes :=
  be 4 ts ++ be 2 17 ++ be 2 sub ++ be 4 (N.of_nat (4 + length body)) ++ be 4 mus ++ body.

Definition enc_peer (pe : peer) (as4 : bool) : bytes :=
  [(if pe_v6 pe then 1 else 0) + (if as4 then 2 else 0)] ++ pe_bgp_id pe ++ pe_addr pe ++ (if as4 then be 4 (pe_asn pe) else be 2 (pe_asn pe)).
Definition peer_wf (pa : peer * bool) : Prop :=
  let '(pe, as4) := pa in
  length (pe_bgp_id pe) = 4%nat /\ length (pe_addr pe) = (if pe_v6 pe then 16 else 4)%nat /\
  pe_asn pe < (if as4 then 2 ^ 32 else 65536).

Definition enc_pit (ts : N) (collector view : bytes) (peers : list (peer * bool)) : bytes :=
  enc_rec ts 13 1 (collector ++ be 2 (N.of_nat (length view)) ++ view ++ be 2 (N.of_nat (length peers)) ++
                   flat_map (fun pa => enc_peer (fst pa) (snd pa)) peers).

Definition enc_entry (e : N * N * bytes) : bytes :=
  let '(idx, ot, attrs) := e in be 2 idx ++ be 4 ot ++ be 2 (N.of_nat (length attrs)) ++ attrs.
Definition entry_wf (npeers : nat) (e : N * N * bytes) : Prop :=
  let '(idx, ot, attrs) := e in (N.to_nat idx < npeers)%nat /\ idx < 65536 /\ ot < 2 ^ 32 /\ N.of_nat (length attrs) < 65536.

Record table_spec := mkTab { t_ts : N; t_v6 : bool; t_seq : N; t_pfx : prefix; t_entries : list (N * N * bytes) }.
Definition enc_table (t : table_spec) : bytes :=
  enc_rec (t_ts t) 13 (if t_v6 t then 4 else 2)
    (be 4 (t_seq t) ++ compose_prefix (t_pfx t) ++ be 2 (N.of_nat (length (t_entries t))) ++ flat_map enc_entry (t_entries t)).

(* BGP4MP records *)
Definition mp_head_enc (as4 : bool) (pa la ifc afi : N) (a b : bytes) : bytes :=
  (if as4 then be 4 pa ++ be 4 la else be 2 pa ++ be 2 la) ++ be 2 ifc ++ be 2 afi ++ a ++ b.
Definition enc_mp_body (it : mp_item) : bytes :=
  match it with
  | MpState as4 pa la ifc afi a b o n => mp_head_enc as4 pa la ifc afi a b ++ be 2 o ++ be 2 n
  | MpMsg as4 pa la ifc afi a b m => mp_head_enc as4 pa la ifc afi a b ++ m
  end.
Definition mp_sub (it : mp_item) : N :=
  match it with
  | MpState as4 _ _ _ _ _ _ _ _ => if as4 then 5 else 0
  | MpMsg as4 _ _ _ _ _ _ _ => if as4 then 4 else 1
  end.
Definition mp_item_wf (it : mp_item) : Prop :=
  let chk (as4 : bool) (pa la ifc afi : N) (a b : bytes) :=
    pa < (if as4 then 2 ^ 32 else 65536) /\ la < (if as4 then 2 ^ 32 else 65536) /\ ifc < 65536 /\
    ((afi = 1 /\ length a = 4%nat /\ length b = 4%nat) \/ (afi = 2 /\ length a = 16%nat /\ length b = 16%nat)) in
  match it with
  | MpState as4 pa la ifc afi a b o n => chk as4 pa la ifc afi a b /\ o < 65536 /\ n < 65536
  | MpMsg as4 pa la ifc afi a b m => chk as4 pa la ifc afi a b
  end.

(* a record: timestamp, Some microseconds for BGP4MP_ET, the item *)
Definition mp_rec := (N * option N * mp_item)%type.
Definition enc_mp (r : mp_rec) : bytes :=
  let '(ts, et, it) := r in
  match et with
  | None => enc_rec ts 16 (mp_sub it) (enc_mp_body it)
  | Some mus => enc_rec_et ts (mp_sub it) mus (enc_mp_body it)
  end.
Definition mp_rec_wf (r : mp_rec) : Prop :=
  let '(ts, et, it) := r in
  ts < 2 ^ 32 /\ mp_item_wf it /\ N.of_nat (4 + length (enc_mp_body it)) < 2 ^ 32 /\
  match et with Some mus => mus < 2 ^ 32 | None => True end.
