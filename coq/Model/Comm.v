(* C19: BGP communities (src/bgp/communities.rs): raw value, classification, accessors, Display and FromStr.
   A community is its raw octets (4 / 8 / 12 / 20 of them), exactly as the Rust newtypes are.  The well-known table and the
   ExtendedCommunity::types match come from Gen/CommTables.v (regenerated from the source on every run); the method bodies
   mirrored here are pinned by hash (tools/gen_comm.py).  Text is ASCII (Base/Text.v). *)
From Coq Require Import List NArith Bool.
From RC Require Import Base.Wire Base.Text Gen.CommTables.
Import ListNotations.
Open Scope N_scope.

(* ---- Wellknown *)
Inductive wk := WkNamed (i : nat) | WkUnrec (n : N).    (* i = row of wk_table *)

Definition wk_hex (row : N * list N * list (list N)) : N := fst (fst row).
Definition wk_var (row : N * list N * list (list N)) : str := snd (fst row).
Definition wk_names (row : N * list N * list (list N)) : list str := snd row.

Fixpoint find_row {A} (f : A -> bool) (l : list A) (i : nat) : option nat :=
  match l with
  | [] => None
  | x :: t => if f x then Some i else find_row f t (S i)
  end.

(* to_u32 *)
Definition wk_to_u32 (w : wk) : N :=
  match w with
  | WkNamed i => match nth_error wk_table i with Some r => wk_hex r | None => 0 end
  | WkUnrec n => 4294901760 + n            (* 0xffff0000 | n, n < 2^16 *)
  end.

(* from_u16 *)
Definition wk_from_u16 (n : N) : wk :=
  match find_row (fun r => wk_hex r =? 4294901760 + n) wk_table 0 with
  | Some i => WkNamed i
  | None => WkUnrec n
  end.

(* FromStr: the lower-cased input against the lower-cased names of each row, then the lower-cased variant name *)
Definition wk_row_matches (l : str) (r : N * list N * list (list N)) : bool :=
  existsb (fun nm => str_eqb l (lower nm)) (wk_names r) || str_eqb l (lower (wk_var r)).
Definition wk_from_str (s : str) : option wk :=
  match find_row (wk_row_matches (lower s)) wk_table 0 with
  | Some i => Some (WkNamed i)
  | None => None
  end.

(* Display *)
Definition wk_display (w : wk) : str :=
  match w with
  | WkNamed i => match nth_error wk_table i with Some r => hd [] (wk_names r) | None => [] end
  | WkUnrec n => wk_unrec_prefix ++ hex2 wk_unrec_upper (n / 256) ++ hex2 wk_unrec_upper (n mod 256)
  end.

(* ---- StandardCommunity: raw = 4 octets *)
Definition std_is_wellknown (r : bytes) : bool := match r with [a; b; _; _] => (a =? 255) && (b =? 255) | _ => false end.
Definition std_is_reserved (r : bytes) : bool := match r with [a; b; _; _] => (a =? 0) && (b =? 0) | _ => false end.
Definition std_is_private (r : bytes) : bool := negb (std_is_wellknown r || std_is_reserved r).

(* Wellknown::try_from(to_u32()).ok(): n & 0xffff0000 == 0xffff0000, then from_u16(n as u16) *)
Definition std_to_wellknown (r : bytes) : option wk :=
  let n := unbe r in
  if n / 65536 =? 65535 then Some (wk_from_u16 (n mod 65536)) else None.

Definition std_asn (r : bytes) : option N :=
  if std_is_wellknown r then None else Some (unbe (firstn 2 r)).
Definition std_tag (r : bytes) : option N :=
  if std_is_wellknown r then None else Some (unbe (skipn 2 r)).

Definition std_display (r : bytes) : str :=
  match std_to_wellknown r with
  | Some w => wk_display w
  | None => [65; 83] ++ dec (unbe (firstn 2 r)) ++ [58] ++ dec (unbe (skipn 2 r))
  end.

(* fn strip_as: one of the four spellings of "AS" *)
Definition strip_as (s : str) : str :=
  match s with
  | a :: b :: t => if ((a =? 65) || (a =? 97)) && ((b =? 83) || (b =? 115)) then t else s
  | _ => s
  end.

Definition asn16_from_str (s : str) : option N := parse_dec 16 (strip_as s).

Definition std_from_str (s : str) : option bytes :=
  match wk_from_str s with
  | Some w => Some (be 4 (wk_to_u32 w))
  | None =>
    match split_once 58 s with
    | Some (a, t) =>
      match asn16_from_str a with
      | None => None
      | Some asn => match parse_dec 16 t with
                    | None => None
                    | Some tag => Some (be 2 asn ++ be 2 tag)
                    end
      end
    | None =>
      match strip_prefix [48; 120] s with
      | Some h => if Nat.ltb 8 (length h) then None      (* more than 8 hex digits: not a 4-octet community *)
                  else match parse_hex 32 h with Some v => Some (be 4 v) | None => None end
      | None => None
      end
    end
  end.

(* ---- ExtendedCommunity: raw = 8 octets *)
Fixpoint ext_lookup (rows : list (N * option N * ectype * ecsubpat)) (b0 b1 : N) : ectype * ecsub :=
  match rows with
  | [] => (OtherType b0, OtherSubType b0)
  | (p0, p1, t, s) :: tl =>
    if (p0 =? b0) && (match p1 with Some v => v =? b1 | None => true end)
    then (t, match s with PRouteTarget => RouteTarget | PRouteOrigin => RouteOrigin | POther => OtherSubType b1 end)
    else ext_lookup tl b0 b1
  end.

Definition ext_types (e : bytes) : ectype * ecsub := ext_lookup ext_type_rows (nth 0 e 0) (nth 1 e 0).
Definition ext_is_transitive (e : bytes) : bool := (nth 0 e 0 / 64) mod 2 =? 0.     (* type & 0x40 == 0 *)

(* the layout RFC 4360 gives the first two octets (the specification C19 checks ext_types against) *)
Definition types_ok (b0 b1 : N) : bool :=
  let '(t, s) := ext_lookup ext_type_rows b0 b1 in
  let tr := (b0 / 64) mod 2 =? 0 in
  (match t with
   | TransitiveTwoOctetSpecific => tr && (b0 =? 0) | TransitiveIp4Specific => tr && (b0 =? 1)
   | TransitiveFourOctetSpecific => tr && (b0 =? 2) | TransitiveOpaque => tr && (b0 =? 3)
   | NonTransitiveTwoOctetSpecific => negb tr && (b0 =? 64) | NonTransitiveIp4Specific => negb tr && (b0 =? 65)
   | NonTransitiveFourOctetSpecific => negb tr && (b0 =? 66) | NonTransitiveOpaque => negb tr && (b0 =? 67)
   | OtherType x => (x =? b0) && negb (existsb (N.eqb b0) [0; 1; 2; 3; 64; 65; 66; 67])
   end) &&
  (match s with
   | RouteTarget => b1 =? 2
   | RouteOrigin => b1 =? 3
   | OtherSubType x => match t with OtherType _ => x =? b0 | _ => x =? b1 end
   end).
Definition octs (e : bytes) (lo hi : nat) : bytes := firstn (hi - lo) (skipn lo e).

Definition ext_as2 (e : bytes) : option N :=
  match fst (ext_types e) with
  | TransitiveTwoOctetSpecific | NonTransitiveTwoOctetSpecific => Some (unbe (octs e 2 4))
  | _ => None
  end.
Definition ext_as4 (e : bytes) : option N :=
  match fst (ext_types e) with
  | TransitiveFourOctetSpecific | NonTransitiveFourOctetSpecific => Some (unbe (octs e 2 6))
  | _ => None
  end.
Definition ext_ip4 (e : bytes) : option bytes :=
  match fst (ext_types e) with
  | TransitiveIp4Specific | NonTransitiveIp4Specific => Some (octs e 2 6)
  | _ => None
  end.
Definition ext_an2 (e : bytes) : option N :=
  match fst (ext_types e) with
  | TransitiveIp4Specific | NonTransitiveIp4Specific | TransitiveFourOctetSpecific | NonTransitiveFourOctetSpecific =>
    Some (unbe (octs e 6 8))
  | _ => None
  end.
Definition ext_an4 (e : bytes) : option N :=
  match fst (ext_types e) with
  | TransitiveTwoOctetSpecific | NonTransitiveTwoOctetSpecific => Some (unbe (octs e 4 8))
  | _ => None
  end.

Definition s_rt : str := [114; 116; 58].   (* "rt:" *)
Definition s_ro : str := [114; 111; 58].   (* "ro:" *)
Definition s_as : str := [65; 83].         (* "AS" *)
Definition s_0x : str := [48; 120].        (* "0x" *)

(* which arm of Display an extended community takes *)
Inductive ext_form := PrRtAs2 | PrRtIp4 | PrRtAs4 | PrRtOpaque | PrRoAs2 | PrRoIp4 | PrRoAs4 | PrHex.
Definition ext_print_form (e : bytes) : ext_form :=
  match ext_types e with
  | (TransitiveTwoOctetSpecific, RouteTarget) => PrRtAs2
  | (TransitiveIp4Specific, RouteTarget) => PrRtIp4
  | (TransitiveFourOctetSpecific, RouteTarget) => PrRtAs4
  | (NonTransitiveOpaque, RouteTarget) => PrRtOpaque
  | (TransitiveTwoOctetSpecific, RouteOrigin) => PrRoAs2
  | (TransitiveIp4Specific, RouteOrigin) => PrRoIp4
  | (TransitiveFourOctetSpecific, RouteOrigin) => PrRoAs4
  | _ => PrHex
  end.

Definition ext_display (e : bytes) : str :=
  let as2 := s_as ++ dec (unbe (octs e 2 4)) ++ [58] ++ dec (unbe (octs e 4 8)) in
  let ip4 := ip4_display (octs e 2 6) ++ [58] ++ dec (unbe (octs e 6 8)) in
  let as4 := s_as ++ dec (unbe (octs e 2 6)) ++ [58] ++ dec (unbe (octs e 6 8)) in
  match ext_print_form e with
  | PrRtAs2 => s_rt ++ as2
  | PrRtIp4 => s_rt ++ ip4
  | PrRtAs4 => s_rt ++ as4
  | PrRtOpaque => s_rt ++ flat_map hex_nopad (octs e 2 8)
  | PrRoAs2 => s_ro ++ as2
  | PrRoIp4 => s_ro ++ ip4
  | PrRoAs4 => s_ro ++ as4
  | PrHex => s_0x ++ hexbytes true e
  end.

(* the body shared by the "rt" and "ro" arms; st = the subtype octet the constructors write *)
Definition ext_from_tail (st : N) (tail : str) : option bytes :=
  match split_once 58 tail with
  | None => None
  | Some (ga, an) =>
    let ga := strip_as ga in
    match parse_dec 16 ga with
    | Some as2 => match parse_dec 32 an with Some l => Some ([0; st] ++ be 2 as2 ++ be 4 l) | None => None end
    | None =>
      match parse_dec 32 ga with
      | Some as4 => match parse_dec 16 an with Some l => Some ([2; st] ++ be 4 as4 ++ be 2 l) | None => None end
      | None =>
        match ip4_from_str ga with
        | Some ip => match parse_dec 16 an with Some l => Some ([1; st] ++ ip ++ be 2 l) | None => None end
        | None => None
        end
      end
    end
  end.

Definition ext_from_str (s : str) : option bytes :=
  match split_once 58 s with
  | Some (tag, tail) =>
    if str_eqb tag [114; 116] then ext_from_tail 2 tail
    else if str_eqb tag [114; 111] then ext_from_tail 3 tail
    else None
  | None =>
    match strip_prefix s_0x s with
    | Some h => if Nat.ltb 16 (length h) then None
                else match parse_hex 64 h with Some v => Some (be 8 v) | None => None end
    | None => None
    end
  end.

(* ---- Ipv6ExtendedCommunity: raw = 20 octets *)
Definition v6_prints_hex (e : bytes) : bool := negb ((nth 0 e 0 =? 0) && (nth 1 e 0 =? 2)).
Definition v6_is_transitive (e : bytes) : bool := (nth 0 e 0 / 64) mod 2 =? 0.
(* Display: the "rt:<ipv6>:<an2>" form of [0x00, 0x02, ..] is not modelled (None); everything else prints in lower-case hex *)
Definition v6_display (e : bytes) : option str :=
  if v6_prints_hex e then Some (s_0x ++ hexbytes false e) else None.

Definition v6_from_str (s : str) : option bytes :=
  match strip_prefix s_0x s with
  | None => None
  | Some h =>
    if negb (Nat.eqb (length h) 40) then None
    else match parse_hex 64 (firstn 16 h), parse_hex 64 (firstn 16 (skipn 16 h)), parse_hex 32 (skipn 32 h) with
         | Some a, Some b, Some c => Some (be 8 a ++ be 8 b ++ be 4 c)
         | _, _, _ => None
         end
  end.

(* ---- LargeCommunity: raw = 12 octets *)
Definition large_display (l : bytes) : str :=
  dec (unbe (octs l 0 4)) ++ [58] ++ dec (unbe (octs l 4 8)) ++ [58] ++ dec (unbe (octs l 8 12)).

(* splitn(3, ':'): exactly three parts are needed; the third is the remainder *)
Definition large_from_str (s : str) : option bytes :=
  match split_once 58 s with
  | None => None                       (* the second part is missing (or the first does not parse) *)
  | Some (ga, r) =>
    match parse_dec 32 (strip_as ga) with
    | None => None
    | Some g =>
      match split_once 58 r with
      | None => None
      | Some (l1, l2) =>
        match parse_dec 32 l1, parse_dec 32 l2 with
        | Some a, Some b => Some (be 4 g ++ be 4 a ++ be 4 b)
        | _, _ => None
        end
      end
    end
  end.

(* ---- Community *)
Inductive community := CStandard (r : bytes) | CExtended (r : bytes) | CV6Extended (r : bytes) | CLarge (r : bytes).

Definition comm_raw (c : community) : bytes :=
  match c with CStandard r | CExtended r | CV6Extended r | CLarge r => r end.

(* From<[u8; N]> for Community *)
Definition comm_from_raw (r : bytes) : option community :=
  match length r with
  | 4%nat => Some (CStandard r) | 8%nat => Some (CExtended r) | 12%nat => Some (CLarge r) | 20%nat => Some (CV6Extended r)
  | _ => None
  end.

Definition comm_display (c : community) : option str :=
  match c with
  | CStandard r => Some (std_display r)
  | CExtended r => Some (ext_display r)
  | CV6Extended r => v6_display r
  | CLarge r => Some (large_display r)
  end.

(* FromStr for Community: Standard, then Large, then Extended, then Ipv6Extended *)
Definition comm_from_str (s : str) : option community :=
  match std_from_str s with
  | Some r => Some (CStandard r)
  | None =>
    match large_from_str s with
    | Some r => Some (CLarge r)
    | None =>
      match ext_from_str s with
      | Some r => Some (CExtended r)
      | None => match v6_from_str s with Some r => Some (CV6Extended r) | None => None end
      end
    end
  end.

(* Community::to_wellknown / asn *)
Definition comm_to_wellknown (c : community) : option wk :=
  match c with CStandard r => std_to_wellknown r | _ => None end.

Definition comm_asn (c : community) : option N :=
  match c with
  | CStandard r => std_asn r
  | CExtended e => match ext_as2 e with Some a => Some a | None => ext_as4 e end
  | CV6Extended _ => None
  | CLarge l => Some (unbe (octs l 0 4))
  end.
