(* C01 / C02 / C07: UPDATE message decoding and its accessors.
   Model of UpdateMessage::parse / from_octets and of the accessors observed by the
   properties, after the repairs F1 (IPv6 extended community iterator stride), F2 (NLRI
   iterators fused on error), F20 (is_eor), F21, F24. *)
From Coq Require Import List NArith Bool.
From RC Require Import Base.Res Base.Wire Model.Open Model.Negotiate Model.Nlri Model.AsPath Gen.AttrRules Model.Attr.
Import ListNotations.
Open Scope N_scope.

Record ppi := mkPpi { pp_four : bool; pp_conv : bool; pp_reach : bool; pp_unreach : bool }.
Record upd := mkUpd { u_len : nat; u_wd : nat * nat; u_attr : nat * nat; u_ann : nat * nat; u_ppi : ppi }.

Definition range_len (r : nat * nat) : nat := snd r - fst r.

(* AfiSafiType -> the NLRI family routecore implements, if any (afisafi! table order) *)
Definition fam_of (f : N * N) : option famkind :=
  match f with
  | (1, 1) => Some Ipv4Unicast | (1, 2) => Some Ipv4Multicast | (1, 4) => Some Ipv4MplsUnicast
  | (1, 128) => Some Ipv4MplsVpnUnicast | (1, 132) => Some Ipv4RouteTarget | (1, 133) => Some Ipv4FlowSpec
  | (2, 1) => Some Ipv6Unicast | (2, 2) => Some Ipv6Multicast | (2, 4) => Some Ipv6MplsUnicast
  | (2, 128) => Some Ipv6MplsVpnUnicast | (2, 133) => Some Ipv6FlowSpec
  | (25, 65) => Some L2VpnVpls | (25, 70) => Some L2VpnEvpn
  | _ => None
  end.

(* Header::parse: marker, length, type; the parser ends up after the 19 header octets *)
Definition header_parse (p : parser) : res (N * N * parser) :=
  let* p1 := marker_check p in
  let* (len, p2) := parse_u16 p1 in
  let* (typ, p3) := parse_u8 p2 in
  Ok (len, typ, p3).

(* NlriIter::validate *)
Fixpoint nlri_validate (fuel : nat) (k : famkind) (ap : bool) (p : parser) : res unit :=
  match fuel with
  | O => Err
  | S f => if Nat.eqb (remaining p) 0 then Ok tt
           else let* (_, p) := parse_nlri k ap p in nlri_validate f k ap p
  end.

(* the PathAttributes iterator: one item per call, the parser keeps whatever a failed call consumed *)
Fixpoint attrs_walk (fuel : nat) (four : bool) (p : parser) : list (res wattr) :=
  match fuel with
  | O => []
  | S f =>
    if Nat.eqb (remaining p) 0 then [] else
    match wire_attr_parse four p with
    | Ok (w, p') => Ok w :: attrs_walk f four p'
    | Err => [Err]       (* on an accepted message this does not occur (c02_attrs_all_ok) *)
    | Panic => [Panic]
    end
  end.

Fixpoint all_ok {A} (l : list (res A)) : bool :=
  match l with [] => true | Ok _ :: tl => all_ok tl | _ => false end.

(* UncheckedPathAttributes: (flags, code, whole TLV); stops silently at the first framing problem *)
Fixpoint unchecked_walk (fuel : nat) (p : parser) : list (N * N * bytes) :=
  match fuel with
  | O => []
  | S f =>
    if Nat.eqb (remaining p) 0 then [] else
    match parse_u8 p with
    | Ok (flags, p1) =>
      match parse_u8 p1 with
      | Ok (code, p2) =>
        match (if has_ext flags then parse_u16 p2 else parse_u8 p2) with
        | Ok (len, _) =>
          let hlen := if has_ext flags then 4%nat else 3%nat in
          match take (hlen + N.to_nat len) p with
          | Ok (tlv, p') => (flags, code, tlv) :: unchecked_walk f p'
          | _ => []
          end
        | _ => []
        end
      | _ => []
      end
    | _ => []
    end
  end.

(* EncodedPathAttribute::value_into_parser: advance(4 or 3).unwrap() *)
Definition tlv_value (flags : N) (tlv : bytes) : res bytes :=
  let h := if has_ext flags then 4%nat else 3%nat in
  if Nat.leb h (length tlv) then Ok (skipn h tlv) else Panic.

(* the (afi, safi) at the front of an MP attribute value *)
Definition mp_family (v : bytes) : res ((N * N) * parser) :=
  let p := parser_of v in
  let* (afi, p) := parse_u16 p in
  let* (safi, p) := parse_u8 p in Ok ((afi, safi), p).

(* second pass of parse(): the families of the last MP_REACH / MP_UNREACH; a short one rejects the message *)
Fixpoint mp_scan (l : list (N * N * bytes)) (reach unreach : option (N * N)) : res (option (N * N) * option (N * N)) :=
  match l with
  | [] => Ok (reach, unreach)
  | (flags, code, tlv) :: tl =>
    if code =? 14 then
      let* v := tlv_value flags tlv in let* (f, _) := mp_family v in mp_scan tl (Some f) unreach
    else if code =? 15 then
      let* v := tlv_value flags tlv in let* (f, _) := mp_family v in mp_scan tl reach (Some f)
    else mp_scan tl reach unreach
  end.

Definition sub (b : bytes) (r : nat * nat) : bytes := firstn (snd r - fst r) (skipn (fst r) b).

(* UpdateMessage::from_octets *)
Definition parse_update (cfg : sconfig) (b : bytes) : res upd :=
  let* (len, typ, p) := header_parse (parser_of b) in
  if len <? 19 then Err else
  if negb (typ =? 2) then Err else
  let conv_ap := rx_addpath cfg (1, 1) in
  let* (wlen, p) := parse_u16 p in
  let wd_start := p_pos p in
  let* p :=
    (if 0 <? wlen then
       let* (wp, p') := parse_parser (N.to_nat wlen) p in
       let* _ := nlri_validate (S (remaining wp)) Ipv4Unicast conv_ap wp in Ok p'
     else Ok p) in
  let wd_end := p_pos p in
  let* (alen, p) := parse_u16 p in
  let at_start := p_pos p in
  let* (p, fams) :=
    (if 0 <? alen then
       let* (ap, p') := parse_parser (N.to_nat alen) p in
       if negb (all_ok (attrs_walk (S (remaining ap)) true ap)) then Err else
       let* fams := mp_scan (unchecked_walk (S (remaining ap)) ap) None None in Ok (p', fams)
     else Ok (p, (None, None))) in
  let at_end := p_pos p in
  let ann_start := (p_pos p - 19)%nat in
  if Nat.ltb (N.to_nat len - 19) ann_start then Err else
  let* (annp, p) := parse_parser (N.to_nat len - 19 - ann_start) p in
  let* _ := nlri_validate (S (remaining annp)) Ipv4Unicast conv_ap annp in
  let ann_end := p_pos p in
  let rx f := match f with Some f => rx_addpath cfg f | None => false end in
  Ok (mkUpd (N.to_nat len) (wd_start, wd_end) (at_start, at_end) (at_end, ann_end)
            (mkPpi (sc_four cfg) conv_ap (rx (fst fams)) (rx (snd fams)))).

(* ---- accessors ---- *)
Section Acc.
  Variable b : bytes.
  Variable u : upd.

  Definition a_length : nat := (16 + 2 + 1 + 2 + range_len (u_wd u) + 2 + range_len (u_attr u) + range_len (u_ann u))%nat.
  Definition a_withdrawn_routes_len : nat := range_len (u_wd u).
  Definition a_total_path_attribute_len : nat := range_len (u_attr u).

  Definition attr_bytes : bytes := sub b (u_attr u).
  Definition a_path_attributes : list (res wattr) :=
    attrs_walk (S (length attr_bytes)) (pp_four (u_ppi u)) (mkP attr_bytes (fst (u_attr u))).
  Definition a_unchecked : list (N * N * bytes) :=
    unchecked_walk (S (length attr_bytes)) (mkP attr_bytes (fst (u_attr u))).

  (* PathAttributes::get: the first attribute with that type code *)
  Fixpoint find_attr (l : list (res wattr)) (code : N) : option wattr :=
    match l with
    | [] => None
    | Ok w :: tl => if wattr_code w =? code then Some w else find_attr tl code
    | _ :: tl => find_attr tl code
    end.

  (* the value octets of a typed attribute found by get(); None when absent or not of the typed variant *)
  Definition typed_value (code : N) : res (option bytes) :=
    match find_attr a_path_attributes code with
    | Some (WTyped _ _ tlv) =>
      let* f := index tlv 0 in let* v := tlv_value f tlv in Ok (Some v)
    | _ => Ok None
    end.

  Definition a_origin : res (option N) :=
    let* v := typed_value 1 in
    match v with Some v => let* (n, _) := parse_u8 (parser_of v) in Ok (Some n) | None => Ok None end.
  Definition a_u32 (code : N) : res (option N) :=
    let* v := typed_value code in
    match v with Some v => let* (n, _) := parse_u32 (parser_of v) in Ok (Some n) | None => Ok None end.
  Definition a_aspath : res (option (list hop)) :=
    let* v := typed_value 2 in
    match v with Some v => let* h := wire_hops (pp_four (u_ppi u)) v in Ok (Some h) | None => Ok None end.
  Definition a_as4path : res (option (list hop)) :=
    let* v := typed_value 17 in
    match v with Some v => let* h := wire_hops true v in Ok (Some h) | None => Ok None end.
  Definition a_atomic : bool :=
    match find_attr a_path_attributes 6 with Some _ => true | None => false end.
  Definition a_aggregator : res (option (N * N)) :=
    let* v := typed_value 7 in
    match v with
    | Some v =>
      let p := parser_of v in
      let* (asn, p) := (if pp_four (u_ppi u) then parse_be 4 p else parse_be 2 p) in
      let* (addr, _) := parse_be 4 p in Ok (Some (asn, addr))
    | None => Ok None
    end.

  (* the community iterators slice [pos..pos+k] and stop when pos = len: a length that is not a
     multiple of k panics *)
  Fixpoint comm_iter (fuel : nat) (k : nat) (v : bytes) : res (list N) :=
    match fuel with
    | O => Err
    | S f =>
      match v with
      | [] => Ok []
      | _ => if Nat.ltb (length v) k then Panic
             else let* r := comm_iter f k (skipn k v) in Ok (unbe (firstn k v) :: r)
      end
    end.
  Definition a_communities (code : N) (k : nat) : res (option (list N)) :=
    let* v := typed_value code in
    match v with Some v => let* l := comm_iter (S (length v)) k v in Ok (Some l) | None => Ok None end.

  (* ---- NLRI sections ---- *)
  Definition conv_iter (r : nat * nat) : option (list (res nlri)) :=
    let s := sub b r in nlri_iter (S (length s)) Ipv4Unicast (pp_conv (u_ppi u)) (mkP s (fst r)).
  Definition a_conv_withdrawals := conv_iter (u_wd u).
  Definition a_conv_announcements := conv_iter (u_ann u).

  Fixpoint find_unchecked (l : list (N * N * bytes)) (code : N) : option (N * bytes) :=
    match l with
    | [] => None
    | (f, c, tlv) :: tl => if c =? code then Some (f, tlv) else find_unchecked tl code
    end.

  (* NlriEnumIter over an MP attribute: None = no such attribute; Some (family, None) = unsupported family *)
  Definition mp_iter (code : N) (ap : bool) (skip_nh : bool) : res (option ((N * N) * option (list (res nlri)))) :=
    match find_unchecked a_unchecked code with
    | None => Ok None
    | Some (f, tlv) =>
      let* v := tlv_value f tlv in
      let* (fam, p) := mp_family v in
      let* p := (if skip_nh then
                   let* (nhl, p) := parse_u8 p in let* p := advance (N.to_nat nhl) p in advance 1 p
                 else Ok p) in
      match fam_of fam with
      | Some k => Ok (Some (fam, nlri_iter (S (remaining p)) k ap p))
      | None => Ok (Some (fam, Some []))
      end
    end.
  Definition a_mp_withdrawals := mp_iter 15 (pp_unreach (u_ppi u)) false.
  Definition a_mp_announcements := mp_iter 14 (pp_reach (u_ppi u)) true.

  (* all-or-nothing collection *)
  Fixpoint collect_all (l : list (res nlri)) : res (list nlri) :=
    match l with
    | [] => Ok []
    | Ok n :: tl => let* r := collect_all tl in Ok (n :: r)
    | Err :: _ => Err
    | Panic :: _ => Panic
    end.
  Definition opt_items (o : option (list (res nlri))) : list (res nlri) := match o with Some l => l | None => [] end.
  Definition vec_of (conv : option (list (res nlri))) (mp : res (option ((N * N) * option (list (res nlri))))) : res (list nlri) :=
    let* m := mp in
    collect_all (opt_items conv ++ match m with Some (_, it) => opt_items it | None => [] end).
  Definition a_withdrawals_vec := vec_of a_conv_withdrawals a_mp_withdrawals.
  Definition a_announcements_vec := vec_of a_conv_announcements a_mp_announcements.

  (* announcements(): MP first, then conventional *)
  Definition chain_of (conv : option (list (res nlri))) (mp : res (option ((N * N) * option (list (res nlri))))) : res (list (res nlri)) :=
    let* m := mp in Ok (match m with Some (_, it) => opt_items it | None => [] end ++ opt_items conv).
  Definition a_withdrawals := chain_of a_conv_withdrawals a_mp_withdrawals.
  Definition a_announcements := chain_of a_conv_announcements a_mp_announcements.

  (* is_eor (after F20) *)
  Definition a_is_eor : option (N * N) :=
    if Nat.eqb a_length 23 then Some (1, 1) else
    if Nat.eqb (range_len (u_wd u)) 0 && Nat.eqb (range_len (u_ann u)) 0 then
      match a_unchecked with
      | [(f, c, tlv)] =>
        if c =? 15 then
          match a_mp_withdrawals with
          | Ok (Some (fam, Some [])) => Some fam
          | _ => None
          end
        else None
      | _ => None
      end
    else None.

  (* NextHop::parse for the family of the MP_REACH attribute *)
  Inductive nexthop := NhUni (a : bytes) | NhLL (a c : bytes) | NhVpn (rd a : bytes) | NhEmpty.
  Definition nh_parse (fam : N * N) (p : parser) : res nexthop :=
    let* (len, p) := parse_u8 p in
    match fam_of fam with
    | Some (Ipv4Unicast | Ipv4Multicast | Ipv4RouteTarget | L2VpnVpls | L2VpnEvpn) =>
      if len =? 4 then let* (a, _) := take 4 p in Ok (NhUni a) else Err
    | Some Ipv6Unicast =>
      if len =? 16 then let* (a, _) := take 16 p in Ok (NhUni a)
      else if len =? 32 then let* (a, p) := take 16 p in let* (c, _) := take 16 p in Ok (NhLL a c) else Err
    | Some Ipv6Multicast => if len =? 16 then let* (a, _) := take 16 p in Ok (NhUni a) else Err
    | Some (Ipv4MplsUnicast | Ipv6MplsUnicast) =>
      if len =? 4 then let* (a, _) := take 4 p in Ok (NhUni a)
      else if len =? 16 then let* (a, _) := take 16 p in Ok (NhUni a) else Err
    | Some Ipv4MplsVpnUnicast =>
      if len =? 12 then let* (rd, p) := take 8 p in let* (a, _) := take 4 p in Ok (NhVpn rd a) else Err
    | Some Ipv6MplsVpnUnicast =>
      if len =? 24 then let* (rd, p) := take 8 p in let* (a, _) := take 16 p in Ok (NhVpn rd a) else Err
    | Some (Ipv4FlowSpec | Ipv6FlowSpec) => Ok NhEmpty
    | None => Err
    end.
  (* the octets of a next hop, and the forms NextHop::parse accepts for a family *)
  Definition nh_octets (nh : nexthop) : bytes :=
    match nh with NhUni a => a | NhLL a c => a ++ c | NhVpn rd a => rd ++ a | NhEmpty => [] end.
  Definition nh_fits (k : famkind) (nh : nexthop) : bool :=
    match k, nh with
    | (Ipv4Unicast | Ipv4Multicast | Ipv4RouteTarget | L2VpnVpls | L2VpnEvpn), NhUni a => Nat.eqb (length a) 4
    | Ipv6Unicast, NhUni a => Nat.eqb (length a) 16
    | Ipv6Unicast, NhLL a c => Nat.eqb (length a) 16 && Nat.eqb (length c) 16
    | Ipv6Multicast, NhUni a => Nat.eqb (length a) 16
    | (Ipv4MplsUnicast | Ipv6MplsUnicast), NhUni a => Nat.eqb (length a) 4 || Nat.eqb (length a) 16
    | Ipv4MplsVpnUnicast, NhVpn rd a => Nat.eqb (length rd) 8 && Nat.eqb (length a) 4
    | Ipv6MplsVpnUnicast, NhVpn rd a => Nat.eqb (length rd) 8 && Nat.eqb (length a) 16
    | (Ipv4FlowSpec | Ipv6FlowSpec), NhEmpty => true
    | _, _ => false
    end.

  Definition a_mp_next_hop : res (option ((N * N) * nexthop)) :=
    match find_unchecked a_unchecked 14 with
    | None => Ok None
    | Some (f, tlv) =>
      let* v := tlv_value f tlv in
      let* (fam, p) := mp_family v in
      let* nh := nh_parse fam p in Ok (Some (fam, nh))
    end.
  Definition a_conventional_next_hop : res (option N) := a_u32 3.

  (* UpdateMessage::find_next_hop(afi_safi): for IPv4 unicast the MP_REACH next hop when that attribute is for IPv4 unicast, else
     the NEXT_HOP attribute; for every other family the MP_REACH next hop, which must be for that family *)
  Inductive found_nh := FConv (a : N) | FMp (nh : nexthop).
  Definition fam_eq (x y : N * N) : bool := (fst x =? fst y) && (snd x =? snd y).
  Definition a_find_next_hop (fam : N * N) : res found_nh :=
    let conv := match a_conventional_next_hop with Ok (Some a) => Ok (FConv a) | Panic => Panic | _ => Err end in
    if fam_eq fam (1, 1) then
      match a_mp_next_hop with
      | Panic => Panic
      | Ok (Some (f, nh)) => if fam_eq f (1, 1) then Ok (FMp nh) else conv
      | _ => conv
      end
    else
      match a_mp_next_hop with
      | Panic => Panic
      | Ok (Some (f, nh)) => if fam_eq f fam then Ok (FMp nh) else Err
      | _ => Err
      end.

  (* has_conventional_nlri / has_mp_nlri *)
  Definition a_has_conventional_nlri : bool := negb (Nat.eqb (range_len (u_ann u)) 0).
  Definition a_has_mp_nlri : bool := existsb (fun e => snd (fst e) =? 14) a_unchecked.

  (* PaMap::from_update_pdu: every attribute except MP_REACH / MP_UNREACH, keyed by type code
     (BTreeMap: ascending; of a repeated type code the first occurrence is kept) *)
  Fixpoint pamap_insert (m : list (N * pattr)) (c : N) (a : pattr) : list (N * pattr) :=
    match m with
    | [] => [(c, a)]
    | (c', a') :: tl =>
      if c =? c' then (c, a) :: tl
      else if c <? c' then (c, a) :: m
      else (c', a') :: pamap_insert tl c a
    end.
  Definition pamap_has (m : list (N * pattr)) (c : N) : bool := existsb (fun e => fst e =? c) m.
  Fixpoint pamap_fill (l : list (res wattr)) (m : list (N * pattr)) : res (list (N * pattr)) :=
    match l with
    | [] => Ok m
    | Ok w :: tl =>
      if (wattr_code w =? 14) || (wattr_code w =? 15) then pamap_fill tl m
      else if pamap_has m (wattr_code w) then pamap_fill tl m      (* RFC 7606 3.g: the first occurrence counts *)
      else let* o := to_owned w in pamap_fill tl (pamap_insert m (wattr_code w) o)
    | Err :: _ => Err
    | Panic :: _ => Panic
    end.
  Definition a_pamap : res (list (N * pattr)) := pamap_fill a_path_attributes [].
  Fixpoint pamap_bytes_len (m : list (N * pattr)) : res nat :=
    match m with
    | [] => Ok 0%nat
    | (_, a) :: tl => let* n := compose_len a in let* r := pamap_bytes_len tl in Ok (n + r)%nat
    end.
End Acc.
