(* C20: the session timer (src/bgp/fsm/timers.rs) as a discrete-time system, time in milliseconds.

   The handle (`Timer`) owns the receiving end of a capacity-1 tick channel that outlives the spawned timer task; `start`
   spawns a task around a tokio `interval` (first deadline one interval after the task starts), `stop_and_reset` ends it through
   a oneshot, `reset` asks it to restart the interval, and - after the repair of the stale-tick defect - all three discard a tick
   that fired but was not awaited yet.

   Modelled, not verified (tokio): `interval` fires at its deadlines and not before, `interval.reset()` moves the next deadline
   one period after the call, a capacity-1 mpsc channel holds at most one instant, a dropped or fired oneshot ends the task.
   The model is the *settled* system: the task reacts to a command before time moves on (current-thread runtime, the task is
   polled after every call - the "controlled clock" of the property).  A second deadline passing while a tick is still queued
   (the situation the property excludes: "each tick is awaited before the next one falls due") sets `t_overrun`; the model says
   nothing about what follows, and neither do the theorems. *)
From Coq Require Import List NArith Bool.
From RC Require Import Gen.TimerConsts.
Import ListNotations.
Open Scope N_scope.

Record timer := mkT {
  t_now : N;
  t_started : bool;        (* Timer::started (is_running) *)
  t_has_stop : bool;       (* stop_send is Some *)
  t_has_reset : bool;      (* reset_send is Some *)
  t_alive : bool;          (* a timer task is running *)
  t_next : N;              (* its next deadline *)
  t_tickq : option N;      (* the tick channel: at most one queued instant *)
  t_overrun : bool
}.

Definition t_init : timer := mkT 0 false false false false 0 None false.

Inductive top := TStart | TReset | TStop | TAdvance (d : N) | TAwait (d : N).
Inductive tobs := ORun (b : bool) | OAdv | OTick (now inst : N) | OTimeout (now : N).

Definition set_now (s : timer) (n : N) : timer :=
  mkT n (t_started s) (t_has_stop s) (t_has_reset s) (t_alive s) (t_next s) (t_tickq s) (t_overrun s).

(* the task runs after the clock moved to [t_now s]: at most one deadline may have passed, and only into an empty channel *)
Definition fire (i : N) (s : timer) : timer :=
  if t_alive s && (t_next s <=? t_now s) then
    match t_tickq s with
    | None =>
      if t_now s <? t_next s + i
      then mkT (t_now s) (t_started s) (t_has_stop s) (t_has_reset s) true (t_next s + i) (Some (t_next s)) (t_overrun s)
      else mkT (t_now s) (t_started s) (t_has_stop s) (t_has_reset s) true (t_next s) None true
    | Some _ => mkT (t_now s) (t_started s) (t_has_stop s) (t_has_reset s) true (t_next s) (t_tickq s) true
    end
  else s.

Definition tstep (i : N) (s : timer) (o : top) : timer * tobs :=
  match o with
  | TStart =>
    (* drain; started; new stop / reset channels; a new task whose interval starts now (an older task ends: its oneshot
       sender is dropped) *)
    (mkT (t_now s) true true true true (t_now s + i) None (t_overrun s), ORun true)
  | TStop =>
    if t_has_stop s
    then (mkT (t_now s) false false (t_has_reset s) false (t_next s) None (t_overrun s), ORun false)
    else (mkT (t_now s) false false (t_has_reset s) (t_alive s) (t_next s) (t_tickq s) (t_overrun s), ORun false)
  | TReset =>
    if t_has_reset s
    then (mkT (t_now s) (t_started s) (t_has_stop s) true (t_alive s)
              (if t_alive s then t_now s + i else t_next s) None (t_overrun s), ORun (t_started s))
    else (s, ORun (t_started s))
  | TAdvance d => (fire i (set_now s (t_now s + d)), OAdv)
  | TAwait d =>
    match t_tickq s with
    | Some inst =>
      (mkT (t_now s) (t_started s) (t_has_stop s) (t_has_reset s) (t_alive s) (t_next s) None (t_overrun s), OTick (t_now s) inst)
    | None =>
      if t_alive s && (t_next s <? t_now s + d)
      then (mkT (N.max (t_now s) (t_next s)) (t_started s) (t_has_stop s) (t_has_reset s) true (t_next s + i) None (t_overrun s),
            OTick (N.max (t_now s) (t_next s)) (t_next s))
      else (fire i (set_now s (t_now s + d)), OTimeout (t_now s + d))
    end
  end.

(* a history: each operation with the time at which it was issued and what it returned *)
Fixpoint texec (i : N) (s : timer) (ops : list top) : timer * list (top * N * tobs) :=
  match ops with
  | [] => (s, [])
  | o :: tl =>
    let '(s1, ob) := tstep i s o in
    let '(s2, tr) := texec i s1 tl in
    (s2, (o, t_now s, ob) :: tr)
  end.

(* is the timer switched on after these operations? *)
Fixpoint on_after (b : bool) (ops : list top) : bool :=
  match ops with
  | [] => b
  | TStart :: tl => on_after true tl
  | TStop :: tl => on_after false tl
  | _ :: tl => on_after b tl
  end.

Definition is_anchor (o : top) : bool := match o with TStart | TReset => true | _ => false end.
