(* C17: the attribute map (PaMap: BTreeMap<u8, PathAttribute>), the compact owned-bytes form, and the route workshop. *)
From Coq Require Import List NArith Bool.
From RC Require Import Base.Res Base.Wire Model.Open Model.Negotiate Model.Nlri Gen.AttrRules Model.AsPath Model.Attr Model.Update.
Import ListNotations.
Open Scope N_scope.

Definition pamap := list (N * pattr).       (* ascending keys, one entry per key *)

Fixpoint pm_lookup (m : pamap) (c : N) : option pattr :=
  match m with
  | [] => None
  | (k, a) :: tl => if k =? c then Some a else pm_lookup tl c
  end.
Definition pm_remove_key (m : pamap) (c : N) : pamap := filter (fun e => negb (fst e =? c)) m.

(* A::from_attribute for the attribute type A registered under code c: the typed variant or nothing *)
Definition from_attr (c : N) (a : pattr) : option pattr :=
  if is_typed a && (attr_code a =? c) then Some a else None.

(* PathAttribute::type_code *)
Definition pm_set (m : pamap) (a : pattr) : pamap * option pattr :=
  (pamap_insert m (attr_code a) a,
   match pm_lookup m (attr_code a) with Some o => from_attr (attr_code a) o | None => None end).
Definition pm_get (m : pamap) (c : N) : option pattr :=
  match pm_lookup m c with Some o => from_attr c o | None => None end.
Definition pm_remove (m : pamap) (c : N) : pamap * option pattr := (pm_remove_key m c, pm_get m c).
Definition pm_add_attribute (m : pamap) (a : pattr) : pamap * option pattr :=
  (pamap_insert m (attr_code a) a, pm_lookup m (attr_code a)).
Definition pm_set_from_enum (m : pamap) (a : pattr) : pamap * option pattr :=
  if is_typed a then pm_set m a else (m, None).
(* BTreeMap::append: every entry of [other] moves into [m], replacing an entry with the same key; [other] is left empty *)
Definition pm_merge_upsert (m other : pamap) : pamap * pamap :=
  (fold_left (fun acc e => pamap_insert acc (fst e) (snd e)) other m, []).
Definition pm_contains (m : pamap) (c : N) : bool := match pm_lookup m c with Some _ => true | None => false end.

Definition default_flags (a : pattr) : N :=
  match a with AUnimpl f _ _ | AInvalid f _ _ => f | _ => canon_flags (attr_code a) end.
Definition is_transitive (f : N) : bool := (f / 64) mod 2 =? 1.
Definition pm_remove_non_transitives (m : pamap) : pamap := filter (fun e => is_transitive (default_flags (snd e))) m.

(* OwnedPathAttributes::get::<A>: the first attribute of that type in the octets, converted *)
Definition opa_get (b : bytes) (u : upd) (c : N) : option pattr :=
  match find_attr (a_path_attributes b u) c with
  | Some w => match to_owned w with Ok x => from_attr c x | _ => None end
  | None => None
  end.

(* ---- the route workshop: (next hop, attribute map) ---- *)
Record workshop := mkWs { ws_nh : option nexthop; ws_attrs : pamap }.

Definition ws_set_attr (w : workshop) (a : pattr) : workshop := mkWs (ws_nh w) (fst (pm_set (ws_attrs w) a)).
Definition ws_get_attr (w : workshop) (c : N) : option pattr := pm_get (ws_attrs w) c.
Definition ws_set_nexthop (w : workshop) (nh : nexthop) : workshop * option nexthop := (mkWs (Some nh) (ws_attrs w), ws_nh w).

(* communities of the four flavours: (attribute code, raw value) *)
Definition comm_width (c : N) : nat := match c with 8 => 4%nat | 16 => 8%nat | 25 => 20%nat | 32 => 12%nat | _ => 0%nat end.
Definition comms_of (m : pamap) (c : N) : list (N * N) :=
  match pm_get m c with Some (AList _ _ items) => map (fun x => (c, x)) items | _ => [] end.
(* Vec<Community>::retrieve: standard, extended, IPv6 extended, large *)
Definition ws_get_communities (w : workshop) : list (N * N) :=
  comms_of (ws_attrs w) 8 ++ comms_of (ws_attrs w) 16 ++ comms_of (ws_attrs w) 25 ++ comms_of (ws_attrs w) 32.
(* Vec<Community>::store: the four lists replace the previous ones; an empty flavour leaves no attribute *)
Definition flavour (l : list (N * N)) (c : N) : list N := map snd (filter (fun e => fst e =? c) l).
Definition put_list (m : pamap) (c : N) (items : list N) : pamap :=
  match items with [] => m | _ => fst (pm_set m (AList c (comm_width c) items)) end.
Definition ws_set_communities (w : workshop) (l : list (N * N)) : workshop :=
  let m := pm_remove_key (pm_remove_key (pm_remove_key (pm_remove_key (ws_attrs w) 8) 16) 25) 32 in
  mkWs (ws_nh w) (put_list (put_list (put_list (put_list m 8 (flavour l 8)) 16 (flavour l 16)) 25 (flavour l 25)) 32 (flavour l 32)).

(* RouteWorkshop::from_update_pdu for an NLRI of family k *)
Definition ws_from_pdu (k : famkind) (b : bytes) (u : upd) : res workshop :=
  let conv := match k with Ipv4Unicast => negb (Nat.eqb (range_len (u_ann u)) 0) | _ => false end in
  if conv then
    match a_conventional_next_hop b u with
    | Ok (Some nh) => let* m := a_pamap b u in Ok (mkWs (Some (NhUni (be 4 nh))) (pm_remove_key m 3))
    | _ => Err
    end
  else
    match a_mp_next_hop b u with
    | Ok (Some (_, nh)) => let* m := a_pamap b u in Ok (mkWs (Some nh) (pm_remove_key m 3))
    | _ => Err
    end.
