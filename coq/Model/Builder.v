(* C06 / C07: UpdateBuilder - MP_REACH / MP_UNREACH builders, size computation, take_message /
   into_messages / PduIterator, finish; and the seeding of a builder from a received UPDATE.
   Model of the code after the repairs of take_message (split index, limit underflow), into_message
   (size check) and set_nexthop (placeholder next hop refused).
   The numeric constants come from Gen/BuilderConsts.v (generated from update_builder.rs). *)
From Coq Require Import List NArith Bool.
From RC Require Import Base.Res Base.Wire Model.Open Model.Negotiate Model.Nlri Gen.AttrRules Model.AsPath Model.Attr
     Model.Update Gen.BuilderConsts.
Import ListNotations.
Open Scope N_scope.

(* ---- next hop (bgp::nlri::nexthop::NextHop as composed by update_builder.rs) ---- *)
Definition nh_bytes (nh : nexthop) : bytes :=
  match nh with NhUni a => a | NhLL a c => a ++ c | NhVpn rd a => rd ++ a | NhEmpty => [] end.
(* compose_len: one length octet plus the address octets of the variant *)
Definition nh_clen (nh : nexthop) : nat := (1 + length (nh_bytes nh))%nat.
Definition nh_compose (nh : nexthop) : bytes := N.of_nat (length (nh_bytes nh)) :: nh_bytes nh.
Definition wf_nh (nh : nexthop) : bool :=
  wf_bytesb (nh_bytes nh) &&
  match nh with
  | NhUni a => Nat.eqb (length a) 4 || Nat.eqb (length a) 16
  | NhLL a c => Nat.eqb (length a) 16 && Nat.eqb (length c) 16
  | NhVpn rd a => Nat.eqb (length rd) 8 && (Nat.eqb (length a) 4 || Nat.eqb (length a) 16)
  | NhEmpty => true
  end.
(* NextHop::new(afisafi) *)
Definition default_nh (k : famkind) : nexthop :=
  match k with
  | Ipv4Unicast | Ipv4Multicast | Ipv4MplsUnicast | Ipv4RouteTarget | L2VpnVpls | L2VpnEvpn => NhUni (repeat 0 4)
  | Ipv6Unicast | Ipv6Multicast | Ipv6MplsUnicast => NhUni (repeat 0 16)
  | Ipv4MplsVpnUnicast => NhVpn (repeat 0 8) (repeat 0 4)
  | Ipv6MplsVpnUnicast => NhVpn (repeat 0 8) (repeat 0 16)
  | Ipv4FlowSpec | Ipv6FlowSpec => NhEmpty
  end.

Definition fam_code (k : famkind) : N * N :=
  match k with
  | Ipv4Unicast => (1, 1) | Ipv4Multicast => (1, 2) | Ipv4MplsUnicast => (1, 4)
  | Ipv4MplsVpnUnicast => (1, 128) | Ipv4RouteTarget => (1, 132) | Ipv4FlowSpec => (1, 133)
  | Ipv6Unicast => (2, 1) | Ipv6Multicast => (2, 2) | Ipv6MplsUnicast => (2, 4)
  | Ipv6MplsVpnUnicast => (2, 128) | Ipv6FlowSpec => (2, 133)
  | L2VpnVpls => (25, 65) | L2VpnEvpn => (25, 70)
  end.

(* ---- the builder ---- *)
Record mpreach := mkReach { r_ann : list nlri; r_nh : nexthop }.
Definition pamap := list (N * pattr).
Record builder := mkB { bd_fam : famkind; bd_ann : option mpreach; bd_wd : option (list nlri); bd_attrs : pamap }.

Definition sum_len (l : list nlri) : nat := fold_right (fun n acc => (Nlri.compose_len n + acc)%nat) 0%nat l.
Definition attr_clen (vlen : nat) : nat := (header_len vlen + vlen)%nat.
Definition reach_vlen (r : mpreach) : nat := (4 + nh_clen (r_nh r) + sum_len (r_ann r))%nat.
Definition unreach_vlen (w : list nlri) : nat := (3 + sum_len w)%nat.
Definition afisafi_bytes (f : N * N) : bytes := be 2 (fst f) ++ [snd f].

Definition reach_compose (k : famkind) (r : mpreach) : res bytes :=
  let* nl := encode_all (r_ann r) in
  Ok (header 128 14 (reach_vlen r) ++ afisafi_bytes (fam_code k) ++ nh_compose (r_nh r) ++ [0] ++ nl).
Definition unreach_compose (k : famkind) (w : list nlri) : res bytes :=
  let* nl := encode_all w in
  Ok (header 128 15 (unreach_vlen w) ++ afisafi_bytes (fam_code k) ++ nl).

Fixpoint pamap_compose (m : pamap) : res bytes :=
  match m with
  | [] => Ok []
  | (_, a) :: tl => let* x := compose a in let* r := pamap_compose tl in Ok (x ++ r)
  end.

Definition opt_len {A} (f : A -> nat) (o : option A) : nat := match o with Some x => f x | None => 0%nat end.

(* calculate_pdu_length *)
Definition calc_len (b : builder) : res nat :=
  let* al := pamap_bytes_len (bd_attrs b) in
  Ok (19 + 2 + 2 + al + opt_len (fun r => attr_clen (reach_vlen r)) (bd_ann b)
      + opt_len (fun w => attr_clen (unreach_vlen w)) (bd_wd b))%nat.

(* larger_than(MAX_PDU) *)
Definition larger_than (b : builder) : res bool :=
  if match bd_ann b with Some r => Nat.ltb bc_max_pdu (length (r_ann r) * 2) | None => false end then Ok true
  else let* n := calc_len b in Ok (Nat.ltb bc_max_pdu n).

Inductive cerr := EEmptyReach | EEmptyUnreach | ETooLarge (n : nat) | EParse.
Inductive mres := MOk (m : bytes) | MErr (e : cerr).

Definition is_nil {A} (l : list A) : bool := match l with [] => true | _ => false end.

(* is_valid *)
Definition is_valid (b : builder) : option cerr :=
  if match bd_ann b with Some r => is_nil (r_ann r) | None => false end then Some EEmptyReach
  else if match bd_wd b with Some w => is_nil w | None => false end &&
          (match bd_ann b with Some r => negb (is_nil (r_ann r)) | None => false end || negb (is_nil (bd_attrs b)))
       then Some EEmptyUnreach
  else None.

Definition u16_unwrap (n : nat) : res bytes := if 65535 <? N.of_nat n then Panic else Ok (be 2 (N.of_nat n)).

(* finish: header, empty withdrawn-routes section, attribute section = MP_REACH, MP_UNREACH, the map *)
Definition finish (b : builder) : res bytes :=
  let* total := calc_len b in
  let* lenb := u16_unwrap total in
  let* al := pamap_bytes_len (bd_attrs b) in
  let alen := (al + opt_len (fun r => attr_clen (reach_vlen r)) (bd_ann b)
               + opt_len (fun w => attr_clen (unreach_vlen w)) (bd_wd b))%nat in
  let* alenb := u16_unwrap alen in
  let* rb := match bd_ann b with Some r => reach_compose (bd_fam b) r | None => Ok [] end in
  let* ub := match bd_wd b with Some w => unreach_compose (bd_fam b) w | None => Ok [] end in
  let* ab := pamap_compose (bd_attrs b) in
  Ok (marker ++ lenb ++ [2] ++ [0; 0] ++ alenb ++ rb ++ ub ++ ab).

(* into_message: validity, size, compose, and the final UpdateMessage::from_octets *)
Definition into_message (cfg : sconfig) (b : builder) : res mres :=
  match is_valid b with
  | Some e => Ok (MErr e)
  | None =>
    let* n := calc_len b in
    if Nat.ltb bc_max_pdu n then Ok (MErr (ETooLarge n)) else
    let* m := finish b in
    match parse_update cfg m with
    | Ok _ => Ok (MOk m)
    | Err => Ok (MErr EParse)
    | Panic => Panic
    end
  end.

(* the split index of scenarios 2 and 4: the first index at which the running sum exceeds the
   limit (but at least 1), or everything if it never does *)
Fixpoint split_go (l : list nlri) (limit acc idx : nat) : nat :=
  match l with
  | [] => idx
  | x :: tl => if Nat.ltb limit (acc + Nlri.compose_len x) then Nat.max idx 1
               else split_go tl limit (acc + Nlri.compose_len x)%nat (S idx)
  end.
Definition split_at (l : list nlri) (limit : nat) : nat := split_go l limit 0 0.

Definition empty_builder (k : famkind) : builder := mkB k None None [].

(* take_message, in two steps: [plan] decides what goes into this PDU and what is left (pure bookkeeping on the
   builder), [take_message] composes the planned PDU *)
Inductive plan_r := PMsg (batch : builder) (rem : option builder) | PErr (e : cerr).

(* scenario 2: at least one withdrawal *)
Definition plan_wd (b : builder) (w : list nlri) : plan_r :=
  let k := split_at w bc_wd_threshold in
  let rest := skipn k w in
  let wd' := if is_nil rest then None else Some rest in
  PMsg (mkB (bd_fam b) None (Some (firstn k w)) [])
       (if match bd_ann b with None => true | _ => false end && is_nil rest && is_nil (bd_attrs b)
        then None else Some (mkB (bd_fam b) (bd_ann b) wd' (bd_attrs b))).

(* scenario 4: announcements *)
Definition plan_ann (b : builder) : res plan_r :=
  let* pdu_len := calc_len b in
  match bd_ann b with
  | Some r =>
    let* al := pamap_bytes_len (bd_attrs b) in
    if Nat.ltb (bc_max_pdu - bc_limit_fixed) (nh_clen (r_nh r) + al) then Ok (PErr (ETooLarge pdu_len)) else
    let limit := (bc_max_pdu - bc_limit_fixed - nh_clen (r_nh r) - al)%nat in
    match r_ann r with
    | [] => Ok (PErr (ETooLarge pdu_len))
    | _ =>
      let k := split_at (r_ann r) limit in
      let rest := skipn k (r_ann r) in
      Ok (PMsg (mkB (bd_fam b) (Some (mkReach (firstn k (r_ann r)) (r_nh r))) None (bd_attrs b))
               (if is_nil rest then None else Some (mkB (bd_fam b) (Some (mkReach rest (r_nh r))) (bd_wd b) (bd_attrs b))))
    end
  | None => Ok (PErr (ETooLarge pdu_len))
  end.

Definition plan (b : builder) : res plan_r :=
  let* big := larger_than b in
  if negb big then Ok (PMsg b None) else
  match bd_wd b with
  | Some (x :: w) => Ok (plan_wd b (x :: w))
  | _ => plan_ann b
  end.

Definition take_message (cfg : sconfig) (b : builder) : res (mres * option builder) :=
  let* p := plan b in
  match p with
  | PMsg batch rem => let* m := into_message cfg batch in Ok (m, rem)
  | PErr e => Ok (MErr e, None)
  end.

(* into_messages: stops at the first error.  None = out of fuel *)
Fixpoint into_messages (fuel : nat) (cfg : sconfig) (b : builder) : option (res (list bytes + cerr)) :=
  match fuel with
  | O => None
  | S f =>
    match take_message cfg b with
    | Ok (MOk m, Some b') =>
      match into_messages f cfg b' with
      | Some (Ok (inl ms)) => Some (Ok (inl (m :: ms)))
      | r => r
      end
    | Ok (MOk m, None) => Some (Ok (inl [m]))
    | Ok (MErr e, _) => Some (Ok (inr e))
    | Err => Some Err
    | Panic => Some Panic
    end
  end.

(* PduIterator: every result is an item; an error does not end the iteration if a remainder came with it *)
Fixpoint pdu_iter (fuel : nat) (cfg : sconfig) (b : builder) : option (list (res mres)) :=
  match fuel with
  | O => None
  | S f =>
    match take_message cfg b with
    | Ok (m, Some b') => match pdu_iter f cfg b' with Some l => Some (Ok m :: l) | None => None end
    | Ok (m, None) => Some [Ok m]
    | Err => Some [Err]
    | Panic => Some [Panic]
    end
  end.

Definition bsize (b : builder) : nat :=
  (opt_len (fun r => length (r_ann r)) (bd_ann b) + opt_len (@length nlri) (bd_wd b))%nat.

(* ---- operations that fill a builder ---- *)
Definition add_announcement (b : builder) (n : nlri) : builder :=
  mkB (bd_fam b)
      (Some (match bd_ann b with Some r => mkReach (r_ann r ++ [n]) (r_nh r) | None => mkReach [n] (default_nh (bd_fam b)) end))
      (bd_wd b) (bd_attrs b).
Definition add_withdrawal (b : builder) (n : nlri) : builder :=
  mkB (bd_fam b) (bd_ann b) (Some (match bd_wd b with Some w => w ++ [n] | None => [n] end)) (bd_attrs b).
Definition set_nexthop (b : builder) (nh : nexthop) : builder :=
  mkB (bd_fam b) (Some (match bd_ann b with Some r => mkReach (r_ann r) nh | None => mkReach [] nh end)) (bd_wd b) (bd_attrs b).

(* ---- seeding from a received UPDATE (C07) ---- *)
Section FromPdu.
  Variables (bs : bytes) (u : upd).

  (* typed_announcements::<A> / typed_withdrawals::<A>: the NLRI type A fixes family and path-id parsing *)
  Definition typed_mp (code : N) (k : famkind) (ap : bool) (skip_nh : bool) : res (option (list (res nlri))) :=
    match find_unchecked (a_unchecked bs u) code with
    | None => Ok None
    | Some (f, tlv) =>
      let* v := tlv_value f tlv in
      let* (fam, p) := mp_family v in
      if negb ((fst fam =? fst (fam_code k)) && (snd fam =? snd (fam_code k))) then Ok None else
      let* p := (if skip_nh then
                   let* (nhl, p) := parse_u8 p in let* p := advance (N.to_nat nhl) p in advance 1 p
                 else Ok p) in
      Ok (nlri_iter (S (remaining p)) k ap p)
    end.
  Definition typed_conv (r : nat * nat) (ap : bool) : option (list (res nlri)) :=
    let s := sub bs r in nlri_iter (S (length s)) Ipv4Unicast ap (mkP s (fst r)).
  Definition typed_announcements (k : famkind) (ap : bool) : res (option (list (res nlri))) :=
    if match k with Ipv4Unicast => true | _ => false end && negb (Nat.eqb (range_len (u_ann u)) 0)
    then Ok (typed_conv (u_ann u) ap) else typed_mp 14 k ap true.
  Definition typed_withdrawals (k : famkind) (ap : bool) : res (option (list (res nlri))) :=
    if match k with Ipv4Unicast => true | _ => false end && negb (Nat.eqb (range_len (u_wd u)) 0)
    then Ok (typed_conv (u_wd u) ap) else typed_mp 15 k ap false.

  (* `for a in iter { add(a.unwrap()) }` *)
  Fixpoint unwrap_all (l : list (res nlri)) : res (list nlri) :=
    match l with
    | [] => Ok []
    | Ok n :: tl => let* r := unwrap_all tl in Ok (n :: r)
    | _ :: _ => Panic
    end.

  Definition add_announcements_from_pdu (ap : bool) (b : builder) : res builder :=
    if match a_announcements bs u with Ok [] => true | _ => false end then Ok b else
    let r := match bd_ann b with Some r => r | None => mkReach [] (default_nh (bd_fam b)) end in
    let* l := match typed_announcements (bd_fam b) ap with
              | Ok (Some it) => unwrap_all it
              | _ => Ok []
              end in
    Ok (mkB (bd_fam b) (Some (mkReach (r_ann r ++ l) (r_nh r))) (bd_wd b) (bd_attrs b)).

  Definition add_withdrawals_from_pdu (ap : bool) (b : builder) : res builder :=
    if match a_withdrawals bs u with Ok [] => true | _ => false end then Ok b else
    let w := match bd_wd b with Some w => w | None => [] end in
    let* l := match typed_withdrawals (bd_fam b) ap with
              | Ok (Some it) => unwrap_all it
              | _ => Ok []
              end in
    Ok (mkB (bd_fam b) (bd_ann b) (Some (w ++ l)) (bd_attrs b)).

  (* UpdateBuilder::from_update_message: the attribute map of the message, no NLRI *)
  Definition from_update_message (k : famkind) : res builder :=
    let* m := a_pamap bs u in Ok (mkB k None None m).
End FromPdu.

(* ---- direct re-encoding of the owned attributes (C07) ---- *)
Fixpoint owned_all (l : list (res wattr)) : res (list pattr) :=
  match l with
  | [] => Ok []
  | Ok w :: tl => let* x := to_owned w in let* r := owned_all tl in Ok (x :: r)
  | Err :: _ => Err
  | Panic :: _ => Panic
  end.
Fixpoint compose_all (l : list pattr) : res bytes :=
  match l with
  | [] => Ok []
  | a :: tl => let* x := compose a in let* r := compose_all tl in Ok (x ++ r)
  end.
