(* C12: what decoding configuration two OPEN messages negotiate.
   Directions are the wire values 1 = Receive, 2 = Send, 3 = SendReceive; the
   merge table and the rx rule are generated from the source (Gen/Merge.v).
   Address families are (AFI, SAFI) pairs: AfiSafiType::from is injective (C18). *)
From Coq Require Import List NArith Bool.
From RC Require Import Base.Res Base.Wire Gen.Merge.
Import ListNotations.
Open Scope N_scope.

Definition fam := (N * N)%type.
Definition fam_eqb (a b : fam) : bool := (fst a =? fst b) && (snd a =? snd b).

(* AddpathDirection::merge(self, other) *)
Fixpoint merge_lookup (l : list (N * N * option N)) (a b : N) : option (option N) :=
  match l with
  | [] => None
  | (a', b', r) :: tl => if (a' =? a) && (b' =? b) then Some r else merge_lookup tl a b
  end.
Definition merge (a b : N) : option N :=
  match merge_lookup merge_rows a b with Some r => r | None => None end.

Fixpoint rx_lookup (l : list (N * bool)) (d : N) : bool :=
  match l with
  | [] => false
  | (d', r) :: tl => if d' =? d then r else rx_lookup tl d
  end.

(* SessionConfig's ADD-PATH map: HashMap::insert = last write wins.  The map is
   an association list with the newest entry first. *)
Definition amap := list (fam * N).
Fixpoint amap_get (m : amap) (f : fam) : option N :=
  match m with
  | [] => None
  | (f', d) :: tl => if fam_eqb f' f then Some d else amap_get tl f
  end.
Definition amap_set (m : amap) (f : fam) (d : N) : amap := (f, d) :: m.

Record sconfig := mkSC { sc_four : bool; sc_addpath : amap }.
Definition sc_modern : sconfig := mkSC true [].
Definition get_addpath (c : sconfig) (f : fam) : option N := amap_get (sc_addpath c) f.
Definition rx_addpath (c : sconfig) (f : fam) : bool :=
  match get_addpath c f with Some d => rx_lookup rx_rows d | None => false end.
Definition add_famdir (c : sconfig) (fd : fam * N) : sconfig :=
  mkSC (sc_four c) (amap_set (sc_addpath c) (fst fd) (snd fd)).

(* capabilities as (code, value) *)
Definition cap := (N * bytes)%type.

Definition four_octet_capable (caps : list cap) : bool := existsb (fun c => fst c =? 65) caps.

(* AddpathDirection::try_from *)
Definition dir_of (n : N) : res N := if (1 <=? n) && (n <=? 3) then Ok n else Err.

Fixpoint parse_chunks (l : list bytes) : res (list (fam * N)) :=
  match l with
  | [] => Ok []
  | c :: tl =>
    let p := parser_of c in
    let* (afi, p) := parse_u16 p in
    let* (safi, p) := parse_u8 p in
    let* (d, p) := parse_u8 p in
    let* d := dir_of d in
    let* r := parse_chunks tl in
    Ok (((afi, safi), d) :: r)
  end.

(* OpenMessage::addpath_families_vec *)
Fixpoint addpath_families_vec (caps : list cap) : res (list (fam * N)) :=
  match caps with
  | [] => Ok []
  | (t, v) :: tl =>
    if t =? 69 then
      let* a := parse_chunks (chunks (S (length v)) 4 v) in
      let* r := addpath_families_vec tl in
      Ok (a ++ r)
    else addpath_families_vec tl
  end.

Fixpoint find_fam (l : list (fam * N)) (f : fam) : option N :=
  match l with
  | [] => None
  | (f', d) :: tl => if fam_eqb f' f then Some d else find_fam tl f
  end.

(* OpenMessage::addpath_intersection on the two family lists *)
Fixpoint intersect (mine other : list (fam * N)) : list (fam * N) :=
  match mine with
  | [] => []
  | (f, d) :: tl =>
    match find_fam other f with
    | Some od => match merge d od with
                 | Some m => (f, m) :: intersect tl other
                 | None => intersect tl other
                 end
    | None => intersect tl other
    end
  end.

Definition addpath_intersection (mine other : list cap) : list (fam * N) :=
  match addpath_families_vec mine, addpath_families_vec other with
  | Ok m, Ok o => intersect m o
  | _, _ => []
  end.

(* PeerUpNotification::session_config: from the two OPENs *)
Definition session_config (sent rcvd : list cap) : sconfig :=
  fold_left add_famdir (addpath_intersection sent rcvd)
            (mkSC (four_octet_capable sent && four_octet_capable rcvd) []).

(* PeerUpNotification::pph_session_config: four-octet from the per-peer header *)
Definition pph_session_config (legacy : bool) (sent rcvd : list cap) : sconfig * bool :=
  let bgp4 := four_octet_capable sent && four_octet_capable rcvd in
  let four := negb legacy in
  (fold_left add_famdir (addpath_intersection sent rcvd) (mkSC four []),
   negb (Bool.eqb four bgp4)).

(* the live session: the local side advertises SendReceive for each configured
   family and always the four-octet capability *)
Definition live_intersection (local : list fam) (rcvd : list (fam * N)) : list (fam * N) :=
  flat_map (fun '(f, d) =>
              if existsb (fam_eqb f) local
              then match merge 3 d with Some m => [(f, m)] | None => [] end
              else []) rcvd.

Definition live_session_config (local : list fam) (rcvd : list cap) : res sconfig :=
  let* r := addpath_families_vec rcvd in
  Ok (fold_left add_famdir (live_intersection local r) (mkSC (four_octet_capable rcvd) [])).

(* ---- specification (RFC 7911): independent of the merge table ---- *)
Definition can_recv (d : option N) : bool := match d with Some 1 | Some 3 => true | _ => false end.
Definition can_send (d : option N) : bool := match d with Some 2 | Some 3 => true | _ => false end.
Definition rx_spec (mine other : option N) : bool := can_recv mine && can_send other.
Definition tx_spec (mine other : option N) : bool := can_send mine && can_recv other.
Definition dir_spec (mine other : option N) : option N :=
  match rx_spec mine other, tx_spec mine other with
  | true, true => Some 3
  | true, false => Some 1
  | false, true => Some 2
  | false, false => None
  end.
