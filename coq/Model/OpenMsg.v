(* C03: OPEN / NOTIFICATION / KEEPALIVE / ROUTE-REFRESH decoding, accessors and builders.
   Model of the code after the repairs of Parameter::check (non-capability parameter value skipped), Capability::parse (bounded to
   the capability; run from the check) and NotificationMessage::from_octets (checked).
   The per-type capability rules come from Gen/CapRules.v (generated from Capability::parse). *)
From Coq Require Import List NArith Bool.
From RC Require Import Base.Res Base.Wire Model.Open Gen.CapRules.
Import ListNotations.
Open Scope N_scope.

Fixpoint rule_lookup (l : list (N * caprule)) (c : N) : caprule :=
  match l with
  | [] => cap_rule_default
  | (k, r) :: tl => if k =? c then r else rule_lookup tl c
  end.
Definition cap_rule (c : N) : caprule := rule_lookup cap_rules c.

Fixpoint repeat_k (fuel : nat) (k : nat) (p : parser) : res unit :=
  match fuel with
  | O => Err
  | S f => if Nat.eqb (remaining p) 0 then Ok tt else let* p := advance k p in repeat_k f k p
  end.

(* the content check of one capability on its own value octets *)
Definition cap_value_ok (r : caprule) (len : nat) (v : bytes) : res unit :=
  let p := parser_of v in
  match r with
  | RNone => Ok tt
  | RLenEq0 => if Nat.eqb len 0 then Ok tt else Err
  | RLenEq1U8 => if Nat.eqb len 1 then let* _ := parse_u8 p in Ok tt else Err
  | RLenEq4U32 => if Nat.eqb len 4 then let* _ := parse_be 4 p in Ok tt else Err
  | RFixed4 => let* _ := advance 4 p in Ok tt
  | ROrf => let* p := advance 4 p in let* (n, p) := parse_u8 p in let* _ := advance (2 * N.to_nat n) p in Ok tt
  | RRepeat6 => repeat_k (S len) 6 p
  | RRepeat4 => repeat_k (S len) 4 p
  | RRepeat7 => repeat_k (S len) 7 p
  | RHead2Repeat4 => let* p := advance 2 p in repeat_k (S len) 4 p
  | RBytes => let* _ := advance len p in Ok tt
  | RMultisession => let* (_, p) := parse_u8 p in let* _ := advance (len - 1) p in Ok tt
  | RAddPath => let* p := advance 3 p in let* (d, _) := parse_u8 p in if 3 <? d then Err else Ok tt
  | RFqdn => let* (h, p) := parse_u8 p in let* p := advance (N.to_nat h) p in
             let* (d, p) := parse_u8 p in let* _ := advance (N.to_nat d) p in Ok tt
  | RLenPrefixed => let* (l, p) := parse_u8 p in let* _ := advance (N.to_nat l) p in Ok tt
  | RNever => Err
  end.

(* Capability::parse: (code, value) of the capability at the front, the parser past it *)
Definition cap_parse (p : parser) : res ((N * bytes) * parser) :=
  let* (t, p) := parse_u8 p in
  let* (l, p) := parse_u8 p in
  let* (v, p) := take (N.to_nat l) p in
  let* _ := cap_value_ok (cap_rule t) (N.to_nat l) v in
  Ok ((t, v), p).

Fixpoint caps_walk (fuel : nat) (p : parser) : res (list (N * bytes)) :=
  match fuel with
  | O => Err
  | S f => if Nat.eqb (remaining p) 0 then Ok [] else
           let* (c, p) := cap_parse p in let* r := caps_walk f p in Ok (c :: r)
  end.

(* Parameter::check *)
Definition param_check (p : parser) : res parser :=
  let* (t, p) := parse_u8 p in
  let* (l, p) := parse_u8 p in
  if t =? 2 then
    let* (cp, p') := parse_parser (N.to_nat l) p in
    let* _ := caps_walk (S (remaining cp)) cp in Ok p'
  else advance (N.to_nat l) p.

Fixpoint params_check (fuel : nat) (p : parser) : res unit :=
  match fuel with
  | O => Err
  | S f => if Nat.eqb (remaining p) 0 then Ok tt else let* p := param_check p in params_check f p
  end.

(* OpenMessage::from_octets = OpenMessage::check *)
Definition open_check (b : bytes) : res unit :=
  let* p := header_check (length b) (parser_of b) in
  let* p := advance 9 p in
  let* (opl, p) := parse_u8 p in
  let* (pp, p) := parse_parser (N.to_nat opl) p in
  let* _ := params_check (S (remaining pp)) pp in
  if negb (Nat.eqb (remaining p) 0) then Err else Ok tt.

(* ---- accessors: slice indexing and unwrap()s of the code are explicit Panics ---- *)
Section Acc.
  Variable b : bytes.
  Definition o_version : res N := index b 19.
  Definition o_asn_field : res N := let* x := index b 20 in let* y := index b 21 in Ok (x * 256 + y).
  Definition o_holdtime : res N := let* x := index b 22 in let* y := index b 23 in Ok (x * 256 + y).
  Definition o_identifier : res bytes := slice b 24 28.
  Definition o_opt_parm_len : res N := index b 28.

  (* ParametersParser: advance(29).unwrap(), parse_parser(opt_len).unwrap(), then (type, value) pairs with unwrap()s *)
  Fixpoint params_iter (fuel : nat) (p : parser) : res (list (N * bytes)) :=
    match fuel with
    | O => Err
    | S f =>
      if Nat.eqb (remaining p) 0 then Ok [] else
      let* (t, p) := unwrap_res (parse_u8 p) in
      let* (l, p) := unwrap_res (parse_u8 p) in
      let* (v, p) := unwrap_res (take (N.to_nat l) p) in
      let* r := params_iter f p in Ok ((t, v) :: r)
    end.
  Definition o_parameters : res (list (N * bytes)) :=
    let* opl := o_opt_parm_len in
    let* p := unwrap_res (advance 29 (parser_of b)) in
    let* (pp, _) := unwrap_res (parse_parser (N.to_nat opl) p) in
    params_iter (S (remaining pp)) pp.

  (* CapabilitiesIter: Capability::parse(..).unwrap() *)
  Fixpoint caps_iter (fuel : nat) (p : parser) : res (list (N * bytes)) :=
    match fuel with
    | O => Err
    | S f => if Nat.eqb (remaining p) 0 then Ok [] else
             let* (c, p) := unwrap_res (cap_parse p) in let* r := caps_iter f p in Ok (c :: r)
    end.
  Fixpoint caps_of (ps : list (N * bytes)) : res (list (N * bytes)) :=
    match ps with
    | [] => Ok []
    | (t, v) :: tl =>
      if t =? 2 then let* c := caps_iter (S (length v)) (parser_of v) in let* r := caps_of tl in Ok (c ++ r)
      else caps_of tl
    end.
  Definition o_capabilities : res (list (N * bytes)) := let* ps := o_parameters in caps_of ps.

  Definition find_cap (l : list (N * bytes)) (c : N) : option bytes :=
    match find (fun e => fst e =? c) l with Some e => Some (snd e) | None => None end.

  (* my_asn: the four-octet capability takes precedence; `try_into().expect()` needs exactly four octets *)
  Definition o_my_asn : res N :=
    let* caps := o_capabilities in
    match find_cap caps 65 with
    | Some v => if Nat.eqb (length v) 4 then Ok (unbe v) else Panic
    | None => o_asn_field
    end.
  Definition o_four_octet_capable : res bool :=
    let* caps := o_capabilities in Ok (match find_cap caps 65 with Some _ => true | None => false end).

  (* multiprotocol_ids: value()[0], [1], [3] *)
  Fixpoint mp_ids (l : list (N * bytes)) : res (list (N * N)) :=
    match l with
    | [] => Ok []
    | (t, v) :: tl =>
      if t =? 1 then
        let* a := index v 0 in let* a' := index v 1 in let* s := index v 3 in
        let* r := mp_ids tl in Ok ((a * 256 + a', s) :: r)
      else mp_ids tl
    end.
  Definition o_multiprotocol_ids : res (list (N * N)) := let* caps := o_capabilities in mp_ids caps.

  (* addpath_families_vec: chunks(4) of every ADD-PATH capability; a short chunk or a direction outside 1..=3 is an error *)
  Fixpoint ap_chunks (fuel : nat) (v : bytes) : res (list ((N * N) * N)) :=
    match fuel with
    | O => Err
    | S f =>
      match v with
      | [] => Ok []
      | _ =>
        let c := firstn 4 v in
        let* (afi, p) := parse_u16 (parser_of c) in
        let* (safi, p) := parse_u8 p in
        let* (d, _) := parse_u8 p in
        if (1 <=? d) && (d <=? 3) then let* r := ap_chunks f (skipn 4 v) in Ok (((afi, safi), d) :: r) else Err
      end
    end.
  Fixpoint ap_fams (l : list (N * bytes)) : res (list ((N * N) * N)) :=
    match l with
    | [] => Ok []
    | (t, v) :: tl =>
      if t =? 69 then let* a := ap_chunks (S (length v)) v in let* r := ap_fams tl in Ok (a ++ r) else ap_fams tl
    end.
  Definition o_addpath_families : res (list ((N * N) * N)) := let* caps := o_capabilities in ap_fams caps.

  Definition o_software_version : res (option bytes) := let* caps := o_capabilities in Ok (find_cap caps 75).
End Acc.

(* ---- NOTIFICATION ---- *)
Definition notif_check (b : bytes) : res unit :=
  let* p := header_check (length b) (parser_of b) in let* _ := advance 2 p in Ok tt.
Definition n_code (b : bytes) : res N := index b 19.
Definition n_subcode (b : bytes) : res N := index b 20.
Definition n_data (b : bytes) : option bytes := if Nat.ltb 21 (length b) then Some (skipn 21 b) else None.

(* NotificationBuilder::from_target: header (21 + data), the two octets of Details::raw, data; LargePdu above u16 *)
Definition bgp_header (len : N) (typ : N) : bytes := marker ++ be 2 len ++ [typ].
Definition notif_build (code sub : N) (data : option bytes) : res bytes :=
  let dl := match data with Some d => length d | None => 0%nat end in
  if 65535 <? N.of_nat dl then Err else
  (* h.set_length(21 + u16): the addition is on u16 *)
  if 65535 <? 21 + N.of_nat dl then Panic else
  Ok (bgp_header (21 + N.of_nat dl) 3 ++ [code; sub] ++ match data with Some d => d | None => [] end).

(* ---- KEEPALIVE ---- *)
Definition keepalive_check (b : bytes) : res unit :=
  let* p := header_check (length b) (parser_of b) in if Nat.eqb (remaining p) 0 then Ok tt else Err.
Definition keepalive_build : bytes := bgp_header 19 4.

(* ---- ROUTE-REFRESH: (afi, safi), subtype ---- *)
Definition rr_parse (b : bytes) : res ((N * N) * N) :=
  let* p := marker_check (parser_of b) in
  let* (len, p) := parse_u16 p in
  let* (_, p) := parse_u8 p in
  (* Header::parse re-reads the 19 octets; then the size conditions *)
  if negb (len =? 23) || negb (Nat.eqb (remaining p) 4) then Err else
  let* (afi, p) := parse_u16 p in
  let* (sub, p) := parse_u8 p in
  let* (safi, _) := parse_u8 p in
  Ok ((afi, safi), sub).

(* ---- Message::from_octets dispatch: which decoder runs, or an error ---- *)
Inductive mkind := MOpen | MUpdate | MNotification | MKeepalive | MUnsupported.
Definition msg_dispatch (b : bytes) : res mkind :=
  let* p := marker_check (parser_of b) in
  let* (_, p) := parse_u16 p in
  let* (t, _) := parse_u8 p in
  Ok (match t with 1 => MOpen | 2 => MUpdate | 3 => MNotification | 4 => MKeepalive | _ => MUnsupported end).

(* ---- OpenBuilder ---- *)
Record obuilder := mkOB { ob_asn : N; ob_hold : N; ob_id : bytes; ob_caps : list bytes; ob_addpath : list ((N * N) * N) }.
Definition ob_new : obuilder := mkOB 0 0 [0; 0; 0; 0] [] [].
Definition as_trans : N := 23456.
Definition ob_set_asn (o : obuilder) (asn : N) : obuilder :=
  mkOB (if asn <? 65536 then asn else as_trans) (ob_hold o) (ob_id o) (ob_caps o) (ob_addpath o).
Definition ob_add_cap (o : obuilder) (c : bytes) : obuilder := mkOB (ob_asn o) (ob_hold o) (ob_id o) (ob_caps o ++ [c]) (ob_addpath o).
Definition ob_four_octet (o : obuilder) (asn : N) : obuilder := ob_add_cap o ([65; 4] ++ be 4 asn).
Definition ob_add_mp (o : obuilder) (f : N * N) : obuilder := ob_add_cap o ([1; 4] ++ be 2 (fst f) ++ [0; snd f]).
Definition ob_add_addpath (o : obuilder) (f : N * N) (d : N) : obuilder :=
  mkOB (ob_asn o) (ob_hold o) (ob_id o) (ob_caps o) (ob_addpath o ++ [(f, d)]).

(* finish: the u8 sums of the code; an overflow of `cap_len += len as u8` or `cap_len + 2` is a panic (debug build) *)
Fixpoint sum_u8 (acc : N) (l : list bytes) : res N :=
  match l with
  | [] => Ok acc
  | c :: tl => let s := acc + (N.of_nat (length c)) mod 256 in if 255 <? s then Panic else sum_u8 s tl
  end.
Definition ob_finish (o : obuilder) : res bytes :=
  let caps := ob_caps o ++
              match ob_addpath o with
              | [] => []
              | l => [[69; (if 255 <? 4 * N.of_nat (length l) then 255 else 4 * N.of_nat (length l))] ++
                      flat_map (fun e => be 2 (fst (fst e)) ++ [snd (fst e); snd e]) l]
              end in
  let* cap_len := sum_u8 0 caps in
  let* opl := (if 0 <? cap_len then (if 255 <? cap_len + 2 then Panic else Ok (cap_len + 2)) else Ok 0) in
  Ok (bgp_header (29 + opl) 1 ++ [4] ++ be 2 (ob_asn o) ++ be 2 (ob_hold o) ++ ob_id o ++ [opl] ++
      (if 0 <? opl then [2; cap_len] ++ concat caps else [])).
