(* C08: the generated transition table, interpreted, follows the RFC 4271 reference table. *)
From Coq Require Import List NArith Bool Lia.
From RC Require Import Base.Res Base.Wire Model.Negotiate Gen.FsmTable Model.Fsm Model.RefFsm.
Import ListNotations.
Local Open Scope N_scope.

Definition is_open_event (e : fevent) : bool :=
  match e with EBgpOpen | EBgpOpenWithDelayOpenTimerRunning => true | _ => false end.

(* the cells that are todo!() in the implementation (K4), as a function of what the arm looks at *)
Definition known_todo (st : fstate) (e : fevent) (dot nwo exact : bool) : bool :=
  match st, e with
  | SIdle, (EManualStart | EAutomaticStart) => true
  | SConnect, (EConnectRetryTimerExpires | EBgpHeaderErr | EBgpOpenMsgErr | ENotifMsgVerErr) => true
  | SConnect, ETcpConnectionFails => dot
  | SActive, EConnectRetryTimerExpires => exact
  | SActive, (EBgpHeaderErr | EBgpOpenMsgErr) => nwo
  | (SOpenSent | SOpenConfirm | SEstablished), (ETcpCrAcked | ETcpConnectionConfirmed) => true
  | _, _ => false
  end.

(* does the arm reach the OPEN acceptance block? *)
Definition accepts_open (st : fstate) (e : fevent) : bool :=
  match st, e with
  | (SConnect | SActive), EBgpOpenWithDelayOpenTimerRunning => true
  | SOpenSent, EBgpOpen => true
  | _, _ => false
  end.

Lemma Some_inj_pair (a b c d : N) : Some (a, b) = Some (c, d) -> a = c /\ b = d.
Proof. intros H. inversion H. auto. Qed.

Ltac stuck_bools :=
  repeat (vm_compute;
          match goal with
          | |- context [match ?b with true => _ | false => _ end] => is_var b; destruct b
          | H : context [match ?b with true => _ | false => _ end] |- _ => is_var b; destruct b
          end).

Ltac crush_session s o :=
  destruct s as [st crc crt hold ka dot conn delay nwo exact holdtime lap neg sc out app];
  destruct o as [allowed ohold oid oasn oap ofour].

(* K4 also covers the flexible-configuration branch of (Active, ConnectRetryTimerExpires): without active open the session stays Active *)
Definition k4_gap (st : fstate) (e : fevent) : bool :=
  match st, e with SActive, EConnectRetryTimerExpires => true | _, _ => false end.

(* outside the K4 cells: no panic, and the next state is the RFC's *)
Lemma c08_next_state_proof s e o :
  known_todo (s_st s) e (s_dot s) (s_nwo s) (s_exact s) = false -> k4_gap (s_st s) e = false ->
  (is_open_event e = true -> exists l, op_addpath o = Ok l) ->
  (accepts_open (s_st s) e = true -> op_allowed o = true -> s_conn s = true) ->
  snd (fsm_step s e o) <> OPanic /\
  s_st (fst (fsm_step s e o)) = rfc_next (s_st s) e (s_dot s) (s_delay_open s) (op_allowed o).
Proof.
  crush_session s o. cbn [s_st s_dot s_delay_open s_nwo s_exact s_conn op_allowed op_addpath].
  destruct st, e; cbn [is_open_event accepts_open k4_gap]; intros Ht Hg Hap Hc; try discriminate Hg;
    try (destruct (Hap eq_refl) as (l & ->));
    destruct dot, delay, nwo, exact, conn, allowed; cbn [known_todo] in Ht; try discriminate Ht;
    try (specialize (Hc eq_refl eq_refl); discriminate Hc);
    vm_compute; (split; [discriminate|reflexivity]).
Qed.

(* and inside them the implementation panics (todo!()) - the K4 witness class *)
Lemma c08_todo_panics_proof s e o :
  known_todo (s_st s) e (s_dot s) (s_nwo s) (s_exact s) = true -> snd (fsm_step s e o) = OPanic.
Proof.
  crush_session s o. cbn [s_st s_dot s_nwo s_exact].
  destruct st, e; cbn [known_todo]; intros Ht; try discriminate Ht; destruct dot, delay, nwo, exact, conn; try discriminate Ht; reflexivity.
Qed.

(* leaving OpenSent / OpenConfirm / Established for a forbidden event, a hold-timer expiry or a manual stop: the NOTIFICATION the
   RFC names is sent and the connection released *)
Lemma c08_notification_proof s e o c sub :
  rfc_notif (s_st s) e = Some (c, sub) -> k4_gap (s_st s) e = false ->
  let s' := fst (fsm_step s e o) in
  snd (fsm_step s e o) = ODone /\ s_st s' = SIdle /\ In (PNotif c sub) (s_out s') /\ s_conn s' = false /\
  s_hold s' = false /\ s_ka s' = false.
Proof.
  crush_session s o. cbn [s_st].
  destruct st, e; cbn [rfc_notif k4_gap]; intros Hn Hg; try discriminate Hn; try discriminate Hg;
    apply Some_inj_pair in Hn; destruct Hn as (<- & <-);
    destruct dot, delay, nwo, exact, conn; vm_compute;
    (split; [reflexivity|split; [reflexivity|split; [apply in_or_app; right; left; reflexivity|repeat split]]]).
Qed.

(* Established is entered only by a KEEPALIVE in OpenConfirm; OpenConfirm only by accepting an OPEN from an allowed AS *)
Lemma c08_enter_established_proof s e o :
  s_st (fst (fsm_step s e o)) = SEstablished -> s_st s = SEstablished \/ (s_st s = SOpenConfirm /\ e = EKeepaliveMsg).
Proof.
  crush_session s o. cbn [s_st].
  destruct st, e; destruct dot, delay, nwo, exact, conn, allowed; destruct oap as [l| |]; vm_compute; intros H;
    try discriminate H; auto.
Qed.

Lemma c08_enter_openconfirm_proof s e o :
  s_st (fst (fsm_step s e o)) = SOpenConfirm ->
  s_st s = SOpenConfirm \/
  (is_open_event e = true /\ op_allowed o = true /\ s_conn s = true /\ exists l, op_addpath o = Ok l).
Proof.
  crush_session s o. cbn [s_st s_conn op_allowed op_addpath].
  destruct st, e; destruct dot, delay, nwo, exact, conn, allowed; destruct oap as [l| |]; vm_compute; intros H;
    try discriminate H; auto; right; repeat split; eauto.
Qed.

(* histories *)
Definition run (s0 : sess) (evs : list (fevent * openp)) : sess :=
  fold_left (fun s eo => fst (fsm_step s (fst eo) (snd eo))) evs s0.

Lemma run_app s0 a b : run s0 (a ++ b) = run (run s0 a) b.
Proof. unfold run. apply fold_left_app. Qed.

Lemma c08_established_history_proof s0 : s_st s0 = SIdle -> forall evs,
  let s := run s0 evs in
  (s_st s = SOpenConfirm -> exists pre eo o mid, evs = pre ++ [(eo, o)] ++ mid /\ is_open_event eo = true /\ op_allowed o = true) /\
  (s_st s = SEstablished -> exists pre eo o mid ko post,
      evs = pre ++ [(eo, o)] ++ mid ++ [(EKeepaliveMsg, ko)] ++ post /\ is_open_event eo = true /\ op_allowed o = true).
Proof.
  intros H0 evs. induction evs as [|[e o] evs IH] using rev_ind.
  - cbn. rewrite H0. split; discriminate.
  - cbv zeta in *. rewrite run_app. cbn [run fold_left fst snd]. fold (run s0 evs). destruct IH as (IH1 & IH2). split.
    + intros H. destruct (c08_enter_openconfirm_proof _ _ _ H) as [Hs|(He & Ha & _)].
      * destruct (IH1 Hs) as (pre & eo & o' & mid & -> & A & B). exists pre, eo, o', (mid ++ [(e, o)]). rewrite <- !app_assoc. auto.
      * exists evs, e, o, []. rewrite app_nil_r. auto.
    + intros H. destruct (c08_enter_established_proof _ _ _ H) as [Hs|(Hs & ->)].
      * destruct (IH2 Hs) as (pre & eo & o' & mid & ko & post & -> & A & B). exists pre, eo, o', mid, ko, (post ++ [(e, o)]).
        rewrite <- !app_assoc. auto.
      * destruct (IH1 Hs) as (pre & eo & o' & mid & -> & A & B). exists pre, eo, o', mid, o, []. rewrite <- !app_assoc. auto.
Qed.

(* an UPDATE from the peer is handed to the application iff the session is Established when it is processed *)
Lemma c08_update_iff_proof s id :
  let s' := fst (handle_msg s (WUpdate id)) in
  (s_st s = SEstablished -> s_app s' = s_app s ++ [AUpdate id] /\ snd (handle_msg s (WUpdate id)) = ODone /\ s_st s' = SEstablished) /\
  (s_st s <> SEstablished -> s_app s' = s_app s).
Proof.
  destruct s as [st crc crt hold ka dot conn delay nwo exact holdtime lap neg sc out app]. cbn [s_st s_app].
  destruct st; destruct dot, delay, nwo, exact, conn; vm_compute; split; intros H; try discriminate H; try (exfalso; apply H; reflexivity); auto.
Qed.

(* a received NOTIFICATION reaches the application and the FSM *)
Lemma c08_notification_msg_proof s id :
  let s' := fst (handle_msg s (WNotification id)) in
  exists rest, s_app s' = s_app s ++ ANotification id :: rest.
Proof.
  destruct s as [st crc crt hold ka dot conn delay nwo exact holdtime lap neg sc out app]. cbn [s_app].
  destruct st; destruct dot, delay, nwo, exact, conn; vm_compute; eexists; reflexivity.
Qed.

(* nothing the peer can send panics the session while a connection is attached *)
Lemma c08_wire_no_panic_proof s m :
  s_conn s = true -> (forall o, m = WOpen o -> op_addpath o <> Panic) -> snd (handle_msg s m) <> OPanic.
Proof.
  destruct s as [st crc crt hold ka dot conn delay nwo exact holdtime lap neg sc out app]. cbn [s_conn]. intros -> Hm.
  destruct m as [o| |id|id|].
  - specialize (Hm o eq_refl). destruct o as [allowed ohold oid oasn oap ofour]. cbn [op_addpath] in Hm.
    destruct oap as [l| |]; [| |congruence]; destruct st; destruct dot, delay, nwo, exact, allowed; vm_compute; discriminate.
  - destruct st; destruct dot, delay, nwo, exact; vm_compute; discriminate.
  - destruct st; destruct dot, delay, nwo, exact; vm_compute; discriminate.
  - destruct st; destruct dot, delay, nwo, exact; vm_compute; discriminate.
  - vm_compute. discriminate.
Qed.

(* ---- C12, live session: the connection's configuration after an accepted OPEN ---- *)
Lemma c12_live_config_proof s o b l :
  op_allowed o = true -> op_addpath o = Ok l -> s_conn s = true ->
  let s' := fst (open_accept s o b) in
  sc_four (s_sc s') = op_four o /\
  sc_addpath (s_sc s') = sc_addpath (fold_left add_famdir (live_intersection (s_local_ap s) l) (s_sc s)).
Proof.
  intros Ha Hl Hc. unfold open_accept. rewrite Ha, Hl, Hc. cbn [negb].
  destruct b; cbn [fst upd_st upd_timer upd_neg push_app push_out s_sc sc_four sc_addpath]; split; reflexivity.
Qed.

Lemma fold_famdir_addpath l : forall a b m,
  sc_addpath (fold_left add_famdir l (mkSC a m)) = sc_addpath (fold_left add_famdir l (mkSC b m)).
Proof. induction l as [|x l IH]; intros a b m; cbn [fold_left add_famdir sc_four sc_addpath]; [reflexivity|apply IH]. Qed.

(* the connection's configuration after the first accepted OPEN is exactly Negotiate.live_session_config *)
Lemma c12_live_fsm_proof s o b caps l :
  op_allowed o = true -> s_conn s = true -> s_sc s = sc_modern ->
  addpath_families_vec caps = Ok l -> op_addpath o = Ok l -> op_four o = four_octet_capable caps ->
  Ok (s_sc (fst (open_accept s o b))) = live_session_config (s_local_ap s) caps.
Proof.
  intros Ha Hc Hsc Hv Hl Hf. destruct (c12_live_config_proof s o b l Ha Hl Hc) as (F & A). cbv zeta in F, A.
  unfold live_session_config. rewrite Hv. cbn [bind]. f_equal.
  destruct (s_sc (fst (open_accept s o b))) as [four ap] eqn:E. cbn [sc_four sc_addpath] in F, A. subst four ap.
  rewrite Hsc, Hf. unfold sc_modern.
  rewrite (fold_famdir_addpath _ true (four_octet_capable caps) []).
  destruct (fold_left add_famdir (live_intersection (s_local_ap s) l) (mkSC (four_octet_capable caps) [])) as [f2 a2] eqn:E2.
  cbn [sc_addpath]. f_equal.
  (* four stays what it was set to *)
  assert (G : forall l0 c, sc_four (fold_left add_famdir l0 c) = sc_four c).
  { induction l0 as [|x l0 IH]; intros c; cbn [fold_left]; [reflexivity|]. rewrite IH. reflexivity. }
  pose proof (G (live_intersection (s_local_ap s) l) (mkSC (four_octet_capable caps) [])) as G'. rewrite E2 in G'. cbn [sc_four] in G'. now rewrite G'.
Qed.
