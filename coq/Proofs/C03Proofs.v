(* C03: OPEN / NOTIFICATION / KEEPALIVE / ROUTE-REFRESH - totality, length strictness, faithfulness, builders. *)
From Coq Require Import List Arith NArith Bool Lia.
From RC Require Import Base.Res Base.Wire Proofs.WireProofs Model.Open Gen.CapRules Model.OpenMsg Proofs.UpdateTotal.
Import ListNotations.
Local Open Scope N_scope.
Local Arguments N.of_nat : simpl never.
Local Arguments Nat.ltb : simpl never.

(* ---- decoding never panics ---- *)
Lemma header_check_np n p : header_check n p <> Panic.
Proof. unfold header_check. np; try apply marker_check_np. Qed.

Lemma repeat_k_np k : forall fuel p, repeat_k fuel k p <> Panic.
Proof. induction fuel as [|f IH]; intros p; cbn [repeat_k]; [discriminate|]. np; try apply IH. Qed.

Lemma cap_value_ok_np r len v : cap_value_ok r len v <> Panic.
Proof. destruct r; cbn [cap_value_ok]; np; try apply repeat_k_np. Qed.

Lemma cap_parse_np p : cap_parse p <> Panic.
Proof. unfold cap_parse. np; try apply cap_value_ok_np. Qed.

Lemma caps_walk_np : forall fuel p, caps_walk fuel p <> Panic.
Proof. induction fuel as [|f IH]; intros p; cbn [caps_walk]; [discriminate|]. np; try apply cap_parse_np; try apply cap_value_ok_np; try apply IH. Qed.

Lemma param_check_np p : param_check p <> Panic.
Proof. unfold param_check. np; try apply caps_walk_np; try apply cap_value_ok_np. Qed.

Lemma params_check_np : forall fuel p, params_check fuel p <> Panic.
Proof. induction fuel as [|f IH]; intros p; cbn [params_check]; [discriminate|]. np; try apply param_check_np; try apply caps_walk_np; try apply cap_value_ok_np; try apply IH. Qed.

Lemma c03_open_total_proof b : open_check b <> Panic.
Proof. unfold open_check. np; try apply header_check_np; try apply marker_check_np; try apply params_check_np. Qed.

Lemma c03_notif_total_proof b : notif_check b <> Panic.
Proof. unfold notif_check. np; try apply header_check_np. Qed.

Lemma c03_keepalive_total_proof b : keepalive_check b <> Panic.
Proof. unfold keepalive_check. np; try apply header_check_np. Qed.

Lemma c03_rr_total_proof b : rr_parse b <> Panic.
Proof. unfold rr_parse. np; try apply marker_check_np. Qed.

Lemma c03_dispatch_total_proof b : msg_dispatch b <> Panic.
Proof. unfold msg_dispatch. np; try apply marker_check_np. Qed.

(* ---- what acceptance means: the header length is the number of octets supplied ---- *)
Lemma beq_bytes_true a : forall b, beq_bytes a b = true -> a = b.
Proof.
  unfold beq_bytes. induction a as [|x a IH]; destruct b as [|y b]; cbn; try discriminate; auto.
  intros H. apply andb_true_iff in H as [H1 H2]. apply andb_true_iff in H2 as [H2 H3].
  apply N.eqb_eq in H2. subst. f_equal. apply IH. now rewrite H1, H3.
Qed.

Lemma header_check_spec n p p' : header_check n p = Ok p' ->
  exists hi lo t, p_rest p = marker ++ [hi; lo; t] ++ p_rest p' /\ N.to_nat (hi * 256 + lo) = n /\ p_pos p' = (p_pos p + 19)%nat.
Proof.
  unfold header_check, marker_check.
  destruct (take 16 p) as [[m p1]| |] eqn:E1; cbn [bind]; try discriminate.
  destruct (beq_bytes m marker) eqn:Em; [|discriminate]. cbn [bind]. apply beq_bytes_true in Em. subst m.
  unfold parse_u16, parse_be. destruct (take 2 p1) as [[lv p2]| |] eqn:E2; cbn [bind]; try discriminate.
  destruct (Nat.eqb_spec (N.to_nat (unbe lv)) n) as [En|En]; cbn [negb]; [|discriminate].
  unfold advance. destruct (take 1 p2) as [[tv p3]| |] eqn:E3; cbn [bind]; try discriminate.
  intros H. apply Ok_inj in H. subst p3.
  apply take_ok in E1 as (A1 & B1 & C1). apply take_ok in E2 as (A2 & B2 & C2). apply take_ok in E3 as (A3 & B3 & C3).
  destruct lv as [|hi [|lo [|? ?]]]; cbn [length] in B2; try lia. destruct tv as [|t [|? ?]]; cbn [length] in B3; try lia.
  exists hi, lo, t. split; [rewrite A1, A2, A3; reflexivity|]. split; [|lia].
  rewrite <- En. unfold unbe. cbn [unbe_acc]. f_equal; lia.
Qed.

Lemma c03_open_length_proof b : open_check b = Ok tt ->
  exists hi lo, nth_error b 16 = Some hi /\ nth_error b 17 = Some lo /\ N.to_nat (hi * 256 + lo) = length b /\ (29 <= length b)%nat.
Proof.
  unfold open_check. destruct (header_check (length b) (parser_of b)) as [p| |] eqn:Eh; cbn [bind]; try discriminate.
  destruct (header_check_spec _ _ _ Eh) as (hi & lo & t & Hb & Hn & Hp). unfold parser_of in Hb. cbn [p_rest] in Hb.
  unfold advance. destruct (take 9 p) as [[f9 p1]| |] eqn:E9; cbn [bind]; try discriminate.
  destruct (parse_u8 p1) as [[opl p2]| |] eqn:Eo; cbn [bind]; try discriminate.
  intros _. exists hi, lo. rewrite Hb. split; [reflexivity|]. split; [reflexivity|]. split; [rewrite <- Hb; exact Hn|].
  apply take_ok in E9 as (A9 & B9 & _). apply parse_u8_lt in Eo. unfold remaining in Eo.
  rewrite !app_length, A9, app_length. cbn [length marker repeat]. lia.
Qed.

Lemma c03_keepalive_length_proof b : keepalive_check b = Ok tt ->
  length b = 19%nat /\ exists hi lo, nth_error b 16 = Some hi /\ nth_error b 17 = Some lo /\ N.to_nat (hi * 256 + lo) = 19%nat.
Proof.
  unfold keepalive_check. destruct (header_check (length b) (parser_of b)) as [p| |] eqn:Eh; cbn [bind]; try discriminate.
  destruct (header_check_spec _ _ _ Eh) as (hi & lo & t & Hb & Hn & Hp). unfold parser_of in Hb. cbn [p_rest] in Hb.
  unfold remaining. destruct (p_rest p) as [|x r] eqn:Er; cbn [length Nat.eqb]; [|discriminate]. intros _.
  assert (L : length b = 19%nat) by (rewrite Hb, !app_length; reflexivity).
  split; [exact L|]. exists hi, lo. rewrite Hb at 1 2. split; [reflexivity|]. split; [reflexivity|]. now rewrite <- L.
Qed.

Lemma c03_notif_length_proof b : notif_check b = Ok tt ->
  (21 <= length b)%nat /\ exists hi lo, nth_error b 16 = Some hi /\ nth_error b 17 = Some lo /\ N.to_nat (hi * 256 + lo) = length b.
Proof.
  unfold notif_check. destruct (header_check (length b) (parser_of b)) as [p| |] eqn:Eh; cbn [bind]; try discriminate.
  destruct (header_check_spec _ _ _ Eh) as (hi & lo & t & Hb & Hn & Hp). unfold parser_of in Hb. cbn [p_rest] in Hb.
  unfold advance. destruct (take 2 p) as [[v p1]| |] eqn:E2; cbn [bind]; try discriminate. intros _.
  apply take_ok in E2 as (A2 & B2 & _). split.
  - rewrite Hb, !app_length, A2, app_length, B2. cbn [length marker repeat]. lia.
  - exists hi, lo. rewrite Hb at 1 2. split; [reflexivity|]. split; [reflexivity|exact Hn].
Qed.

(* accessors of an accepted NOTIFICATION *)
Lemma c03_notif_accessors_proof b : notif_check b = Ok tt -> n_code b <> Panic /\ n_subcode b <> Panic.
Proof.
  intros H. destruct (c03_notif_length_proof b H) as (L & _). unfold n_code, n_subcode, index.
  destruct (nth_error b 19) eqn:E1; [|apply nth_error_None in E1; lia]. destruct (nth_error b 20) eqn:E2; [|apply nth_error_None in E2; lia].
  split; discriminate.
Qed.

(* ---- the structure of an OPEN: parameters, capabilities ---- *)
Inductive oparam := PCaps (caps : list (N * bytes)) | PRaw (t : N) (v : bytes).

Definition enc_cap (c : N * bytes) : bytes := [fst c; N.of_nat (length (snd c))] ++ snd c.
Definition param_tv (p : oparam) : N * bytes :=
  match p with PCaps cs => (2, flat_map enc_cap cs) | PRaw t v => (t, v) end.
Definition enc_param (p : oparam) : bytes := [fst (param_tv p); N.of_nat (length (snd (param_tv p)))] ++ snd (param_tv p).
Definition param_caps (p : oparam) : list (N * bytes) := match p with PCaps cs => cs | PRaw _ _ => [] end.

Definition cap_ok (c : N * bytes) : Prop := cap_value_ok (cap_rule (fst c)) (length (snd c)) (snd c) = Ok tt.
Definition param_ok (p : oparam) : Prop :=
  match p with PCaps cs => Forall cap_ok cs | PRaw t _ => t <> 2 end.

(* forward: walking encoded capabilities / parameters *)
Lemma cap_parse_enc c rest pos : cap_ok c ->
  cap_parse (mkP (enc_cap c ++ rest) pos) = Ok (c, mkP rest (pos + 2 + length (snd c))).
Proof.
  intros H. destruct c as [t v]. unfold cap_parse, enc_cap. cbn [fst snd app parse_u8 p_rest p_pos bind].
  rewrite Nat2N.id. rewrite take_app' by reflexivity. cbn [bind]. unfold cap_ok in H. cbn [fst snd] in H. rewrite H. cbn [bind].
  f_equal. f_equal. f_equal. lia.
Qed.

Lemma enc_cap_len c : length (enc_cap c) = (2 + length (snd c))%nat.
Proof. unfold enc_cap. rewrite app_length. reflexivity. Qed.

Lemma caps_len cs : (2 * length cs <= length (flat_map enc_cap cs))%nat.
Proof. induction cs as [|c cs IH]; cbn [flat_map length]; [lia|]. rewrite app_length, enc_cap_len. lia. Qed.

Lemma caps_walk_enc cs : forall fuel pos, Forall cap_ok cs -> (length cs < fuel)%nat ->
  caps_walk fuel (mkP (flat_map enc_cap cs) pos) = Ok cs /\ caps_iter fuel (mkP (flat_map enc_cap cs) pos) = Ok cs.
Proof.
  induction cs as [|c cs IH]; intros fuel pos H Hf; (destruct fuel as [|fuel]; [lia|]); cbn [caps_walk caps_iter flat_map].
  - split; reflexivity.
  - inversion H as [|? ? Hc Hcs]; subst. unfold remaining. cbn [p_rest]. rewrite app_length, enc_cap_len. cbn [Nat.eqb Nat.add].
    rewrite cap_parse_enc by exact Hc. cbn [unwrap_res bind]. destruct (IH fuel (pos + 2 + length (snd c))%nat Hcs ltac:(cbn [length] in Hf; lia)) as (I1 & I2).
    rewrite I1, I2. split; reflexivity.
Qed.

Lemma enc_param_len p : length (enc_param p) = (2 + length (snd (param_tv p)))%nat.
Proof. unfold enc_param. rewrite app_length. reflexivity. Qed.

Lemma params_len ps : (2 * length ps <= length (flat_map enc_param ps))%nat.
Proof. induction ps as [|p ps IH]; cbn [flat_map length]; [lia|]. rewrite app_length, enc_param_len. lia. Qed.

Lemma params_iter_enc ps : forall fuel pos, (length ps < fuel)%nat ->
  params_iter fuel (mkP (flat_map enc_param ps) pos) = Ok (map param_tv ps).
Proof.
  induction ps as [|p ps IH]; intros fuel pos Hf; (destruct fuel as [|fuel]; [lia|]); cbn [params_iter flat_map map]; [reflexivity|].
  unfold remaining. cbn [p_rest]. rewrite app_length, enc_param_len. cbn [Nat.eqb Nat.add].
  unfold enc_param at 1. cbn [app parse_u8 p_rest p_pos unwrap_res bind]. rewrite Nat2N.id. rewrite take_app' by reflexivity.
  cbn [unwrap_res bind]. rewrite IH by (cbn [length] in Hf; lia). destruct (param_tv p). reflexivity.
Qed.

Lemma params_check_enc ps : forall fuel pos, Forall param_ok ps -> (length ps < fuel)%nat ->
  params_check fuel (mkP (flat_map enc_param ps) pos) = Ok tt.
Proof.
  induction ps as [|p ps IH]; intros fuel pos H Hf; (destruct fuel as [|fuel]; [lia|]); cbn [params_check flat_map]; [reflexivity|].
  inversion H as [|? ? Hp Hps]; subst. unfold remaining. cbn [p_rest]. rewrite app_length, enc_param_len. cbn [Nat.eqb Nat.add].
  unfold param_check, enc_param at 1. cbn [app parse_u8 p_rest p_pos bind]. rewrite Nat2N.id.
  destruct p as [cs|t v]; cbn [param_tv fst snd param_ok] in *.
  - cbn [N.eqb Pos.eqb]. unfold parse_parser. rewrite take_app' by reflexivity. cbn [bind p_pos].
    destruct (caps_walk_enc cs (S (remaining (mkP (flat_map enc_cap cs) (S (S pos))))) (S (S pos)) Hp) as (W & _).
    { unfold remaining. cbn [p_rest]. pose proof (caps_len cs). lia. }
    rewrite W. cbn [bind]. apply IH; [exact Hps|cbn [length] in Hf; lia].
  - destruct (N.eqb_spec t 2) as [E|E]; [contradiction|]. unfold advance. rewrite take_app' by reflexivity. cbn [bind].
    apply IH; [exact Hps|cbn [length] in Hf; lia].
Qed.

Lemma caps_of_enc ps : Forall param_ok ps -> caps_of (map param_tv ps) = Ok (concat (map param_caps ps)).
Proof.
  induction ps as [|p ps IH]; intros H; cbn [map caps_of concat]; [reflexivity|]. inversion H as [|? ? Hp Hps]; subst.
  destruct p as [cs|t v]; cbn [param_tv param_caps param_ok] in *.
  - cbn [N.eqb Pos.eqb]. unfold parser_of. destruct (caps_walk_enc cs (S (length (flat_map enc_cap cs))) 0%nat Hp) as (_ & I).
    { pose proof (caps_len cs). lia. }
    rewrite I. cbn [bind]. rewrite (IH Hps). reflexivity.
  - destruct (N.eqb_spec t 2) as [E|E]; [contradiction|]. cbn [app]. apply IH. exact Hps.
Qed.

(* inversion: what the check accepts is an encoding of ok parameters *)
Lemma cap_parse_inv p c p' : cap_parse p = Ok (c, p') -> p_rest p = enc_cap c ++ p_rest p' /\ cap_ok c.
Proof.
  unfold cap_parse.
  destruct (parse_u8 p) as [[t p1]| |] eqn:E1; cbn [bind]; try discriminate.
  destruct (parse_u8 p1) as [[l p2]| |] eqn:E2; cbn [bind]; try discriminate.
  destruct (take (N.to_nat l) p2) as [[v p3]| |] eqn:E3; cbn [bind]; try discriminate.
  destruct (cap_value_ok (cap_rule t) (N.to_nat l) v) as [[]| |] eqn:E4; cbn [bind]; try discriminate.
  intros H. apply Ok_inj in H. inversion H; subst c p3. clear H.
  apply take_ok in E3 as (A3 & B3 & _).
  unfold parse_u8 in E1. destruct (p_rest p) as [|x r] eqn:R; [discriminate|]. apply Ok_inj in E1. inversion E1; subst t p1. clear E1.
  unfold parse_u8 in E2. cbn [p_rest p_pos] in E2. destruct r as [|y r]; [discriminate|]. apply Ok_inj in E2. inversion E2; subst l p2. clear E2.
  cbn [p_rest] in A3. split.
  - unfold enc_cap. cbn [fst snd app]. rewrite B3, N2Nat.id, A3. reflexivity.
  - unfold cap_ok. cbn [fst snd]. rewrite B3. exact E4.
Qed.

Lemma caps_walk_inv : forall fuel p cs, caps_walk fuel p = Ok cs -> p_rest p = flat_map enc_cap cs /\ Forall cap_ok cs.
Proof.
  induction fuel as [|fuel IH]; intros p cs; cbn [caps_walk]; [discriminate|].
  destruct (Nat.eqb_spec (remaining p) 0) as [E0|N0].
  - intros H. apply Ok_inj in H. subst cs. unfold remaining in E0. destruct (p_rest p); [split; [reflexivity|constructor]|discriminate].
  - destruct (cap_parse p) as [[c p1]| |] eqn:Ec; cbn [bind]; try discriminate.
    destruct (caps_walk fuel p1) as [r| |] eqn:Er; cbn [bind]; try discriminate.
    intros H. apply Ok_inj in H. subst cs. destruct (cap_parse_inv _ _ _ Ec) as (A & B). destruct (IH _ _ Er) as (C & D).
    cbn [flat_map]. rewrite A, C. split; [reflexivity|constructor; assumption].
Qed.

Lemma params_check_inv : forall fuel p, params_check fuel p = Ok tt ->
  exists ps, p_rest p = flat_map enc_param ps /\ Forall param_ok ps.
Proof.
  induction fuel as [|fuel IH]; intros p; cbn [params_check]; [discriminate|].
  destruct (Nat.eqb_spec (remaining p) 0) as [E0|N0].
  - intros _. exists []. unfold remaining in E0. destruct (p_rest p); [split; [reflexivity|constructor]|discriminate].
  - destruct (param_check p) as [p'| |] eqn:Ep; cbn [bind]; try discriminate. intros H. destruct (IH _ H) as (ps & A & B).
    unfold param_check in Ep.
    destruct (parse_u8 p) as [[t p1]| |] eqn:E1; cbn [bind] in Ep; try discriminate.
    destruct (parse_u8 p1) as [[l p2]| |] eqn:E2; cbn [bind] in Ep; try discriminate.
    unfold parse_u8 in E1. destruct (p_rest p) as [|x r] eqn:R; [discriminate|]. apply Ok_inj in E1. inversion E1; subst t p1. clear E1.
    unfold parse_u8 in E2. cbn [p_rest p_pos] in E2. destruct r as [|y r]; [discriminate|]. apply Ok_inj in E2. inversion E2; subst l p2. clear E2.
    destruct (N.eqb_spec x 2) as [E|E].
    + unfold parse_parser in Ep. destruct (take (N.to_nat y) _) as [[v p3]| |] eqn:E3; cbn [bind] in Ep; try discriminate.
      destruct (caps_walk _ _) as [cs| |] eqn:Ew; cbn [bind] in Ep; try discriminate. apply Ok_inj in Ep. subst p3.
      apply take_ok in E3 as (A3 & B3 & _). cbn [p_rest] in A3. destruct (caps_walk_inv _ _ _ Ew) as (C & D). cbn [p_rest] in C.
      exists (PCaps cs :: ps). split; [|constructor; assumption].
      cbn [flat_map]. unfold enc_param. cbn [param_tv fst snd app]. rewrite <- C, B3, N2Nat.id, A3, A, E. reflexivity.
    + unfold advance in Ep. destruct (take (N.to_nat y) _) as [[v p3]| |] eqn:E3; cbn [bind] in Ep; try discriminate. apply Ok_inj in Ep. subst p3.
      apply take_ok in E3 as (A3 & B3 & _). cbn [p_rest] in A3.
      exists (PRaw x v :: ps). split; [|constructor; assumption].
      cbn [flat_map]. unfold enc_param. cbn [param_tv fst snd app]. rewrite B3, N2Nat.id, A3, A. reflexivity.
Qed.

Lemma take_all l pos : take (length l) (mkP l pos) = Ok (l, mkP [] (pos + length l)).
Proof. pose proof (take_app' l [] pos (length l) eq_refl) as H. now rewrite app_nil_r in H. Qed.

(* ---- an accepted OPEN, and everything its accessors report ---- *)
Definition open_bytes (hi lo t ver a1 a2 h1 h2 : N) (id : bytes) (ps : list oparam) : bytes :=
  marker ++ [hi; lo; t] ++ [ver; a1; a2; h1; h2] ++ id ++ [N.of_nat (length (flat_map enc_param ps))] ++ flat_map enc_param ps.

Lemma open_accept_struct b : open_check b = Ok tt ->
  exists hi lo t ver a1 a2 h1 h2 id ps,
    b = open_bytes hi lo t ver a1 a2 h1 h2 id ps /\ length id = 4%nat /\ Forall param_ok ps /\ N.to_nat (hi * 256 + lo) = length b.
Proof.
  unfold open_check. destruct (header_check (length b) (parser_of b)) as [p| |] eqn:Eh; cbn [bind]; try discriminate.
  destruct (header_check_spec _ _ _ Eh) as (hi & lo & t & Hb & Hn & Hp). unfold parser_of in Hb. cbn [p_rest] in Hb.
  unfold advance. destruct (take 9 p) as [[f9 p1]| |] eqn:E9; cbn [bind]; try discriminate.
  destruct (parse_u8 p1) as [[opl p2]| |] eqn:Eo; cbn [bind]; try discriminate.
  unfold parse_parser. destruct (take (N.to_nat opl) p2) as [[pv p3]| |] eqn:Ep; cbn [bind]; try discriminate.
  destruct (params_check _ _) as [[]| |] eqn:Ec; cbn [bind]; try discriminate.
  destruct (Nat.eqb_spec (remaining p3) 0) as [E0|E0]; cbn [negb]; [|discriminate]. intros _.
  apply take_ok in E9 as (A9 & B9 & _). apply take_ok in Ep as (Ap & Bp & _).
  unfold parse_u8 in Eo. destruct (p_rest p1) as [|x r] eqn:R1; [discriminate|]. apply Ok_inj in Eo. inversion Eo; subst opl p2. clear Eo.
  cbn [p_rest] in Ap. destruct (params_check_inv _ _ Ec) as (ps & Aps & Hok). cbn [p_rest] in Aps.
  unfold remaining in E0. destruct (p_rest p3) eqn:R3; [|discriminate].
  destruct f9 as [|ver [|a1 [|a2 [|h1 [|h2 [|i1 [|i2 [|i3 [|i4 [|? ?]]]]]]]]]]; cbn [length] in B9; try lia.
  exists hi, lo, t, ver, a1, a2, h1, h2, [i1; i2; i3; i4], ps. split; [|split; [reflexivity|split; [exact Hok|exact Hn]]].
  unfold open_bytes. rewrite Hb, A9, Ap, app_nil_r. rewrite <- Aps, Bp, N2Nat.id. reflexivity.
Qed.

Section Accepted.
  Variables (hi lo t ver a1 a2 h1 h2 : N) (id : bytes) (ps : list oparam).
  Hypothesis Hid : length id = 4%nat.
  Hypothesis Hok : Forall param_ok ps.
  Let b := open_bytes hi lo t ver a1 a2 h1 h2 id ps.
  Let caps := concat (map param_caps ps).

  Lemma id4 : exists i1 i2 i3 i4, id = [i1; i2; i3; i4].
  Proof. destruct id as [|i1 [|i2 [|i3 [|i4 [|? ?]]]]]; cbn [length] in Hid; try lia. eauto. Qed.

  Lemma acc_fields :
    o_version b = Ok ver /\ o_asn_field b = Ok (a1 * 256 + a2) /\ o_holdtime b = Ok (h1 * 256 + h2) /\ o_identifier b = Ok id /\
    o_opt_parm_len b = Ok (N.of_nat (length (flat_map enc_param ps))).
  Proof.
    destruct id4 as (i1 & i2 & i3 & i4 & E). subst b. unfold open_bytes. rewrite E.
    unfold o_version, o_asn_field, o_holdtime, o_identifier, o_opt_parm_len, index, slice.
    cbn [marker repeat app nth_error bind length]. repeat split; reflexivity.
  Qed.

  Lemma acc_parameters : o_parameters b = Ok (map param_tv ps).
  Proof.
    unfold o_parameters. destruct acc_fields as (_ & _ & _ & _ & E). rewrite E. cbn [bind]. rewrite Nat2N.id.
    destruct id4 as (i1 & i2 & i3 & i4 & Ei). subst b. unfold open_bytes, parser_of. rewrite Ei.
    cbn [marker repeat app]. unfold advance.
    match goal with |- context [take 29 (mkP ?l 0)] =>
      replace (take 29 (mkP l 0)) with (Ok (firstn 29 l, mkP (flat_map enc_param ps) 29)) end.
    2:{ unfold take, remaining. cbn [p_rest p_pos length Nat.leb skipn Nat.add]. reflexivity. }
    cbn [unwrap_res bind]. unfold parse_parser. rewrite take_all. cbn [unwrap_res bind].
    apply params_iter_enc. unfold remaining. cbn [p_rest]. pose proof (params_len ps). lia.
  Qed.

  Lemma acc_capabilities : o_capabilities b = Ok caps.
  Proof. unfold o_capabilities. rewrite acc_parameters. cbn [bind]. now apply caps_of_enc. Qed.

  Lemma caps_all_ok : Forall cap_ok caps.
  Proof.
    subst caps. clear b. induction ps as [|p l IH]; cbn [map concat]; [constructor|]. inversion Hok; subst.
    apply Forall_app. split; [|apply IH; assumption]. destruct p; cbn [param_caps param_ok] in *; [assumption|constructor].
  Qed.

  Lemma rule65 : cap_rule 65 = RLenEq4U32. Proof. reflexivity. Qed.
  Lemma rule1 : cap_rule 1 = RFixed4. Proof. reflexivity. Qed.

  Lemma find_cap_in l c v : find_cap l c = Some v -> In (c, v) l.
  Proof.
    unfold find_cap. destruct (find _ l) as [[k x]|] eqn:E; [|discriminate]. intros H. apply Ok_inj in H || idtac.
    inversion H; subst. apply find_some in E as (Hin & Hk). cbn [fst] in Hk. apply N.eqb_eq in Hk. now subst.
  Qed.

  (* my_asn: the four-octet capability, if any, else the field - never a panic *)
  Lemma acc_my_asn :
    o_my_asn b = Ok (match find_cap caps 65 with Some v => unbe v | None => a1 * 256 + a2 end) /\
    (forall v, find_cap caps 65 = Some v -> length v = 4%nat).
  Proof.
    assert (L : forall v, find_cap caps 65 = Some v -> length v = 4%nat).
    { intros v Hv. apply find_cap_in in Hv. pose proof caps_all_ok as H. rewrite Forall_forall in H. specialize (H _ Hv).
      unfold cap_ok in H. cbn [fst snd] in H. rewrite rule65 in H. cbn [cap_value_ok] in H.
      destruct (Nat.eqb_spec (length v) 4); [assumption|discriminate]. }
    split; [|exact L]. unfold o_my_asn. rewrite acc_capabilities. cbn [bind].
    destruct (find_cap caps 65) as [v|] eqn:E; [|apply acc_fields]. rewrite (L v eq_refl). reflexivity.
  Qed.

  Lemma acc_four_octet : o_four_octet_capable b = Ok (match find_cap caps 65 with Some _ => true | None => false end).
  Proof. unfold o_four_octet_capable. now rewrite acc_capabilities. Qed.

  Lemma mp_ids_np l : Forall cap_ok l -> mp_ids l <> Panic.
  Proof.
    induction l as [|[c v] l IH]; intros H; cbn [mp_ids]; [discriminate|]. inversion H as [|? ? Hc Hl]; subst.
    destruct (N.eqb_spec c 1) as [E|E]; [|now apply IH]. subst c. unfold cap_ok in Hc. cbn [fst snd] in Hc. rewrite rule1 in Hc.
    cbn [cap_value_ok] in Hc. unfold advance, take, parser_of, remaining in Hc. cbn [p_rest] in Hc.
    destruct (Nat.leb 4 (length v)) eqn:E4; [|discriminate]. apply Nat.leb_le in E4.
    destruct v as [|x0 [|x1 [|x2 [|x3 v]]]]; cbn [length] in E4; try lia. unfold index. cbn [nth_error bind].
    specialize (IH Hl). destruct (mp_ids l); cbn [bind]; congruence.
  Qed.

  Lemma acc_mp_np : o_multiprotocol_ids b <> Panic.
  Proof. unfold o_multiprotocol_ids. rewrite acc_capabilities. cbn [bind]. apply mp_ids_np. apply caps_all_ok. Qed.

  Lemma ap_chunks_np : forall fuel v, ap_chunks fuel v <> Panic.
  Proof. induction fuel as [|f IH]; intros v; cbn [ap_chunks]; [discriminate|]. destruct v; [discriminate|]. np; try apply IH. Qed.
  Lemma ap_fams_np l : ap_fams l <> Panic.
  Proof. induction l as [|[c v] l IH]; cbn [ap_fams]; [discriminate|]. np; try apply ap_chunks_np; try apply IH. Qed.
  Lemma acc_addpath_np : o_addpath_families b <> Panic.
  Proof. unfold o_addpath_families. rewrite acc_capabilities. cbn [bind]. apply ap_fams_np. Qed.

  Lemma acc_software : o_software_version b = Ok (find_cap caps 75).
  Proof. unfold o_software_version. now rewrite acc_capabilities. Qed.

  (* and such octets are accepted when the header says so *)
  Lemma open_check_enc : N.to_nat (hi * 256 + lo) = length b -> open_check b = Ok tt.
  Proof.
    intros Hlen. unfold open_check.
    assert (Hh : header_check (length b) (parser_of b) = Ok (mkP ([ver; a1; a2; h1; h2] ++ id ++ [N.of_nat (length (flat_map enc_param ps))] ++ flat_map enc_param ps) 19)).
    { unfold header_check, marker_check, parser_of. subst b. unfold open_bytes in *. rewrite take_app' by reflexivity. cbn [bind].
      replace (beq_bytes marker marker) with true by (vm_compute; reflexivity).
      unfold parse_u16, parse_be, take, remaining. cbn [p_rest p_pos app length Nat.leb firstn skipn bind].
      unfold unbe. cbn [unbe_acc]. replace (0 * 256 + hi) with hi by lia. rewrite Hlen, Nat.eqb_refl. cbn [negb].
      unfold advance, take, remaining. cbn [p_rest p_pos length Nat.leb firstn skipn bind]. reflexivity. }
    rewrite Hh. cbn [bind]. destruct id4 as (i1 & i2 & i3 & i4 & Ei). rewrite Ei.
    unfold advance, take, remaining. cbn [p_rest p_pos app length Nat.leb firstn skipn bind parse_u8].
    rewrite Nat2N.id. unfold parse_parser. rewrite take_all.
    cbn [bind p_pos]. rewrite params_check_enc; [|exact Hok|unfold remaining; cbn [p_rest]; pose proof (params_len ps); lia].
    cbn [bind]. unfold remaining. cbn [p_rest length Nat.eqb negb]. reflexivity.
  Qed.
End Accepted.

(* ---- NOTIFICATION / KEEPALIVE / ROUTE-REFRESH: what is built or encoded decodes to its fields ---- *)
Lemma header_check_enc n typ rest pos : n < 65536 -> N.to_nat n = length (bgp_header n typ ++ rest) ->
  header_check (length (bgp_header n typ ++ rest)) (mkP (bgp_header n typ ++ rest) pos) = Ok (mkP rest (pos + 19)).
Proof.
  intros Hn Hl. unfold header_check, marker_check, bgp_header. rewrite <- !app_assoc. rewrite take_app' by reflexivity. cbn [bind].
  replace (beq_bytes marker marker) with true by (vm_compute; reflexivity). cbn [bind]. unfold parse_u16.
  rewrite parse_be_app by (cbn; lia). cbn [bind]. unfold bgp_header in Hl. rewrite <- !app_assoc in Hl. rewrite Hl, Nat.eqb_refl. cbn [negb].
  unfold advance, take, remaining. cbn [p_rest p_pos app length Nat.leb firstn skipn bind]. f_equal. f_equal. lia.
Qed.

Lemma c03_notif_faithful_proof code sub data b :
  notif_build code sub data = Ok b ->
  notif_check b = Ok tt /\ n_code b = Ok code /\ n_subcode b = Ok sub /\
  n_data b = match data with Some (x :: d) => Some (x :: d) | _ => None end.
Proof.
  unfold notif_build. set (dl := match data with Some d => length d | None => 0%nat end).
  destruct (65535 <? N.of_nat dl); [discriminate|]. destruct (N.ltb_spec 65535 (21 + N.of_nat dl)) as [H|H]; [discriminate|].
  intros E. apply Ok_inj in E. subst b. set (dd := match data with Some d => d | None => [] end).
  assert (Hdl : length dd = dl) by (unfold dd, dl; destruct data; reflexivity).
  assert (Hlen : N.to_nat (21 + N.of_nat dl) = length (bgp_header (21 + N.of_nat dl) 3 ++ [code; sub] ++ dd)).
  { unfold bgp_header. rewrite !app_length, be_length. cbn [length marker repeat]. lia. }
  split.
  - unfold notif_check, parser_of. rewrite header_check_enc by (try lia; exact Hlen). cbn [bind].
    unfold advance, take, remaining. cbn [p_rest app length Nat.leb bind]. reflexivity.
  - set (H19 := bgp_header (21 + N.of_nat dl) 3) in *.
    assert (L19 : length H19 = 19%nat) by (unfold H19, bgp_header; rewrite !app_length, be_length; reflexivity).
    unfold n_code, n_subcode, n_data, index. rewrite !nth_error_app2 by lia. rewrite L19. cbn [Nat.sub nth_error].
    split; [reflexivity|]. split; [reflexivity|].
    assert (Sk : forall tl, skipn 21 (H19 ++ [code; sub] ++ tl) = tl).
    { intros tl. replace 21%nat with (length (H19 ++ [code; sub])) by (rewrite app_length, L19; reflexivity).
      rewrite app_assoc. rewrite skipn_app, skipn_all, Nat.sub_diag. reflexivity. }
    rewrite Sk, !app_length, L19. clear Hlen Hdl. unfold dd. destruct data as [[|x d]|]; cbn [length]; try reflexivity.
Qed.

Lemma c03_keepalive_built_proof : keepalive_check keepalive_build = Ok tt.
Proof. vm_compute. reflexivity. Qed.

Lemma c03_rr_faithful_proof afi sub safi typ : afi < 65536 ->
  rr_parse (bgp_header 23 typ ++ be 2 afi ++ [sub; safi]) = Ok ((afi, safi), sub).
Proof.
  intros H. unfold rr_parse, marker_check, bgp_header, parser_of. rewrite <- !app_assoc. rewrite take_app' by reflexivity. cbn [bind].
  replace (beq_bytes marker marker) with true by (vm_compute; reflexivity). cbn [bind]. unfold parse_u16.
  rewrite parse_be_app by (cbn; lia). cbn [bind app parse_u8 p_rest p_pos]. cbn [N.eqb Pos.eqb negb orb].
  unfold remaining. cbn [p_rest]. rewrite app_length, be_length. cbn [length Nat.eqb negb].
  rewrite parse_be_app by (cbn; lia). cbn [bind parse_u8 p_rest p_pos]. reflexivity.
Qed.

(* ---- OpenBuilder ---- *)
Lemma sum_u8_spec : forall l acc s, Forall (fun c => N.of_nat (length c) < 256) l -> acc <= 255 -> sum_u8 acc l = Ok s ->
  s = acc + N.of_nat (length (concat l)) /\ s <= 255.
Proof.
  induction l as [|c l IH]; intros acc s H Ha; cbn [sum_u8 concat length].
  - intros E. apply Ok_inj in E. subst. split; lia.
  - inversion H as [|? ? Hc Hl]; subst. rewrite N.mod_small by exact Hc.
    destruct (N.ltb_spec 255 (acc + N.of_nat (length c))) as [L|L]; [discriminate|]. intros E.
    destruct (IH _ _ Hl L E) as (E1 & E2). split; [|exact E2]. rewrite E1, app_length. lia.
Qed.

(* what finish writes, when the u8 sums do not overflow: an OPEN whose single optional parameter carries the capabilities
   in the order they were added, the ADD-PATH capability last *)
Definition ob_all_caps (o : obuilder) : list bytes :=
  ob_caps o ++ match ob_addpath o with
               | [] => []
               | l => [[69; (if 255 <? 4 * N.of_nat (length l) then 255 else 4 * N.of_nat (length l))] ++
                       flat_map (fun e => be 2 (fst (fst e)) ++ [snd (fst e); snd e]) l]
               end.

Lemma c03_builder_bytes_proof o b :
  ob_finish o = Ok b -> Forall (fun c => N.of_nat (length c) < 256) (ob_all_caps o) ->
  let cc := concat (ob_all_caps o) in
  N.of_nat (length cc) <= 253 /\
  b = bgp_header (29 + (if 0 <? N.of_nat (length cc) then N.of_nat (length cc) + 2 else 0)) 1 ++ [4] ++ be 2 (ob_asn o) ++ be 2 (ob_hold o) ++ ob_id o ++
      (if 0 <? N.of_nat (length cc) then [N.of_nat (length cc) + 2; 2; N.of_nat (length cc)] ++ cc else [0]).
Proof.
  unfold ob_finish. fold (ob_all_caps o). intros E Hall. set (cc := concat (ob_all_caps o)) in *.
  destruct (sum_u8 0 (ob_all_caps o)) as [cl| |] eqn:Es; cbn [bind] in E; try discriminate.
  assert (H0 : 0 <= 255) by lia. destruct (sum_u8_spec (ob_all_caps o) 0 cl Hall H0 Es) as (S1 & S2). fold cc in S1. rewrite N.add_0_l in S1. subst cl.
  destruct (N.ltb_spec 0 (N.of_nat (length cc))) as [P|P].
  - destruct (N.ltb_spec 255 (N.of_nat (length cc) + 2)) as [O|O]; cbn [bind] in E; [discriminate|].
    apply Ok_inj in E. subst b. split; [lia|].
    replace (0 <? N.of_nat (length cc) + 2) with true by (symmetry; apply N.ltb_lt; lia). cbn [app]. reflexivity.
  - cbn [bind] in E. apply Ok_inj in E. subst b. split; [lia|]. cbn [N.ltb N.compare app]. reflexivity.
Qed.
