(* Soundness of the boolean checkers of Model/Enums.v, proved once for every table. *)
From Coq Require Import List NArith Bool Lia.
From RC Require Import Model.Enums.
Import ListNotations.
Open Scope N_scope.

Lemma lookup_some_in l k v : lookup l k = Some v -> In (k, v) l.
Proof.
  induction l as [|[k' v'] tl IH]; cbn [lookup]; [discriminate|].
  destruct (N.eqb_spec k' k) as [->|Hne]; intros H.
  - injection H as ->. now left.
  - right. auto.
Qed.

Lemma opt_eqb_some a c : opt_eqb a (Some c) = true -> a = Some c.
Proof. destruct a as [x|]; cbn; [|discriminate]. intros H. apply N.eqb_eq in H. now subst. Qed.

Lemma consistent_fwd_bwd t n i :
  consistent t = true -> lookup (e_fwd t) n = Some i -> lookup (e_bwd t) i = Some n.
Proof.
  unfold consistent. intros Hc Hl.
  rewrite forallb_forall in Hc.
  specialize (Hc (n, i) (lookup_some_in _ _ _ Hl)). cbn in Hc.
  rewrite Hl in Hc. now apply opt_eqb_some.
Qed.

(* Round trip, for every natural number (no width bound needed). *)
Theorem roundtrip_generic t n :
  consistent t = true -> of_int t n <> Reject -> to_int t (of_int t n) = Some n.
Proof.
  intros Hc. unfold of_int.
  destruct (lookup (e_fwd t) n) as [i|] eqn:Hf.
  - intros _. cbn. now apply consistent_fwd_bwd.
  - destruct (lookup_range (e_ranges t) n); [reflexivity|].
    destruct (e_catch t); [reflexivity|congruence].
Qed.

(* Distinct numbers never map to the same named variant. *)
Theorem named_injective t n m i :
  consistent t = true -> of_int t n = Named i -> of_int t m = Named i -> n = m.
Proof.
  intros Hc Hn Hm.
  assert (A : to_int t (of_int t n) = Some n) by (apply roundtrip_generic; [assumption|rewrite Hn; discriminate]).
  assert (B : to_int t (of_int t m) = Some m) by (apply roundtrip_generic; [assumption|rewrite Hm; discriminate]).
  rewrite Hn in A. rewrite Hm in B. congruence.
Qed.

(* Unknown numbers are preserved in the catch-all variant. *)
Theorem unknown_preserved t n :
  e_catch t = true -> lookup (e_fwd t) n = None -> lookup_range (e_ranges t) n = None ->
  of_int t n = Catch n.
Proof. unfold of_int. intros -> -> ->. reflexivity. Qed.

(* Whatever variant a number lands in carries or determines that number. *)
Theorem never_dropped t n :
  e_catch t = true -> consistent t = true -> exists v, of_int t n = v /\ to_int t v = Some n.
Proof.
  intros Hcatch Hc. exists (of_int t n). split; [reflexivity|].
  apply roundtrip_generic; [assumption|].
  unfold of_int. destruct (lookup _ _); [discriminate|]. destruct (lookup_range _ _); [discriminate|].
  rewrite Hcatch. discriminate.
Qed.

Definition all_consistent (l : list enum_tbl) : bool := forallb consistent l.

Lemma all_consistent_in l t : all_consistent l = true -> In t l -> consistent t = true.
Proof. unfold all_consistent. rewrite forallb_forall. auto. Qed.

(* ---- AFI/SAFI ---- *)

Lemma as_lookup_in l a s i : as_lookup l a s = Some i -> In (a, s, i) l.
Proof.
  induction l as [|[[a' s'] i'] tl IH]; cbn [as_lookup]; [discriminate|].
  destruct (N.eqb_spec a' a) as [->|]; destruct (N.eqb_spec s' s) as [->|]; cbn [andb]; intros H;
    try (right; auto; fail).
  injection H as ->. now left.
Qed.

Theorem afisafi_roundtrip t a s :
  as_consistent t = true -> afisafi_to t (afisafi_of t a s) = Some (a, s).
Proof.
  intros Hc. unfold afisafi_of.
  destruct (as_lookup (as_entries t) a s) as [i|] eqn:Hl; [|reflexivity].
  cbn [afisafi_to]. unfold as_consistent in Hc. rewrite forallb_forall in Hc.
  specialize (Hc _ (as_lookup_in _ _ _ _ Hl)). cbn in Hc. rewrite Hl in Hc.
  destruct (as_rev (as_entries t) i) as [[a' s']|]; [|discriminate].
  apply andb_true_iff in Hc as [H1 H2]. apply N.eqb_eq in H1, H2. now subst.
Qed.

Theorem afisafi_bytes_spec t a s :
  as_consistent t = true -> afisafi_bytes t (afisafi_of t a s) = Some [a / 256; a mod 256; s].
Proof. intros Hc. unfold afisafi_bytes. now rewrite afisafi_roundtrip. Qed.

Theorem afisafi_named_injective t a s a' s' i :
  as_consistent t = true -> afisafi_of t a s = AsNamed i -> afisafi_of t a' s' = AsNamed i ->
  (a, s) = (a', s').
Proof.
  intros Hc H1 H2.
  pose proof (afisafi_roundtrip t a s Hc) as A. pose proof (afisafi_roundtrip t a' s' Hc) as B.
  rewrite H1 in A. rewrite H2 in B. congruence.
Qed.

Theorem nlritype_roundtrip v ap : nlritype_afisafi (nlritype_of v ap) = v.
Proof. destruct v; reflexivity. Qed.

Theorem nlritype_injective v v' ap ap' :
  nlritype_of v ap = nlritype_of v' ap' ->
  v = v' /\ (ap = ap' \/ exists a s, v = AsUnsupported a s).
Proof.
  destruct v, v'; cbn; intros H; inversion H; subst; split; eauto.
Qed.

(* ---- finite sweep helper ---- *)

Definition below (b : N) : list N := map N.of_nat (seq 0 (N.to_nat b)).

Lemma in_below b n : n < b -> In n (below b).
Proof.
  intros H. unfold below. apply in_map_iff. exists (N.to_nat n). split; [lia|].
  apply in_seq. lia.
Qed.

Definition pairs_below (b1 b2 : N) : list (N * N) := list_prod (below b1) (below b2).

Lemma in_pairs_below b1 b2 x y : x < b1 -> y < b2 -> In (x, y) (pairs_below b1 b2).
Proof. intros. apply in_prod; now apply in_below. Qed.
