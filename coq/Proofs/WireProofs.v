From Coq Require Import List NArith ZArith Bool Lia ZifyN ZifyNat ZifyBool.
From RC Require Import Base.Res Base.Wire.
Import ListNotations.
Open Scope N_scope.
Ltac Zify.zify_post_hook ::= Z.div_mod_to_equations.

Lemma unbe_acc_app acc a b : unbe_acc acc (a ++ b) = unbe_acc (unbe_acc acc a) b.
Proof. revert acc. induction a as [|x a IH]; cbn; intros; [reflexivity|apply IH]. Qed.

Lemma be_length k n : length (be k n) = k.
Proof. revert n. induction k as [|k IH]; intros n; cbn [be]; [reflexivity|]. rewrite app_length, IH. cbn. lia. Qed.

Lemma unbe_acc_shift acc l : unbe_acc acc l = acc * 256 ^ N.of_nat (length l) + unbe_acc 0 l.
Proof.
  revert acc. induction l as [|x l IH]; intros acc.
  - cbn. lia.
  - cbn [unbe_acc length]. rewrite IH. rewrite (IH (0 * 256 + x)).
    replace (N.of_nat (S (length l))) with (N.succ (N.of_nat (length l))) by lia.
    rewrite N.pow_succ_r'. lia.
Qed.

Lemma unbe_be k n : n < 256 ^ N.of_nat k -> unbe (be k n) = n.
Proof.
  unfold unbe. revert n. induction k as [|k IH]; intros n Hn.
  - cbn in *. lia.
  - cbn [be]. rewrite unbe_acc_app. cbn [unbe_acc].
    rewrite IH.
    + pose proof (N.div_mod' n 256). lia.
    + replace (N.of_nat (S k)) with (N.succ (N.of_nat k)) in Hn by lia.
      rewrite N.pow_succ_r' in Hn. apply N.div_lt_upper_bound; lia.
Qed.

Lemma be_wf k n : wf_bytes (be k n).
Proof.
  revert n. induction k as [|k IH]; intros n; cbn [be]; [constructor|].
  apply Forall_app. split; [apply IH|]. constructor; [|constructor].
  apply N.mod_lt. lia.
Qed.

Lemma unbe_bound l : wf_bytes l -> unbe l < 256 ^ N.of_nat (length l).
Proof.
  unfold unbe. induction l as [|x l IH] using rev_ind; intros Hwf.
  - cbn. lia.
  - apply Forall_app in Hwf as [H1 H2]. inversion H2; subst.
    rewrite unbe_acc_app. cbn [unbe_acc]. rewrite app_length. cbn [length].
    replace (N.of_nat (length l + 1)) with (N.succ (N.of_nat (length l))) by lia.
    rewrite N.pow_succ_r'. specialize (IH H1). lia.
Qed.

Lemma be_unbe l : wf_bytes l -> be (length l) (unbe l) = l.
Proof.
  unfold unbe. induction l as [|x l IH] using rev_ind; intros Hwf; [reflexivity|].
  apply Forall_app in Hwf as [H1 H2]. inversion H2; subst.
  rewrite app_length. cbn [length]. replace (length l + 1)%nat with (S (length l)) by lia.
  cbn [be]. rewrite unbe_acc_app. cbn [unbe_acc].
  replace ((unbe_acc 0 l * 256 + x) / 256) with (unbe_acc 0 l).
  2:{ lia. }
  replace ((unbe_acc 0 l * 256 + x) mod 256) with x.
  2:{ lia. }
  now rewrite IH.
Qed.

(* ---- parser ---- *)

Lemma take_app a b pos :
  take (length a) (mkP (a ++ b) pos) = Ok (a, mkP b (pos + length a)).
Proof.
  unfold take, remaining. cbn [p_rest p_pos]. rewrite app_length.
  replace (Nat.leb (length a) (length a + length b)) with true by (symmetry; apply Nat.leb_le; lia).
  rewrite firstn_app, Nat.sub_diag, firstn_all, skipn_app, Nat.sub_diag, skipn_all. cbn. now rewrite app_nil_r.
Qed.

Lemma take_app' a b pos n : n = length a -> take n (mkP (a ++ b) pos) = Ok (a, mkP b (pos + n)).
Proof. intros ->. apply take_app. Qed.

Lemma take_ok n p v p' :
  take n p = Ok (v, p') ->
  p_rest p = v ++ p_rest p' /\ length v = n /\ p_pos p' = (p_pos p + n)%nat.
Proof.
  unfold take. destruct (Nat.leb n (remaining p)) eqn:E; [|discriminate].
  intros H. injection H as <- <-. cbn [p_rest p_pos]. apply Nat.leb_le in E. unfold remaining in E.
  split; [symmetry; apply firstn_skipn|]. split; [apply firstn_length_le; lia|reflexivity].
Qed.

Lemma take_no_panic n p : take n p <> Panic.
Proof. unfold take. destruct (Nat.leb _ _); discriminate. Qed.

Lemma parse_u8_no_panic p : parse_u8 p <> Panic.
Proof. unfold parse_u8. destruct (p_rest p); discriminate. Qed.

Lemma parse_be_no_panic k p : parse_be k p <> Panic.
Proof. unfold parse_be, take. destruct (Nat.leb _ _); cbn; discriminate. Qed.

Lemma advance_no_panic n p : advance n p <> Panic.
Proof. unfold advance, take. destruct (Nat.leb _ _); cbn; discriminate. Qed.

Lemma parse_parser_no_panic n p : parse_parser n p <> Panic.
Proof. unfold parse_parser, take. destruct (Nat.leb _ _); cbn; discriminate. Qed.

Lemma parse_u8_app b l pos : parse_u8 (mkP (b :: l) pos) = Ok (b, mkP l (S pos)).
Proof. reflexivity. Qed.

Lemma parse_be_app k n l pos :
  n < 256 ^ N.of_nat k ->
  parse_be k (mkP (be k n ++ l) pos) = Ok (n, mkP l (pos + k)).
Proof.
  intros Hn. unfold parse_be. pose proof (take_app (be k n) l pos) as T. rewrite be_length in T.
  rewrite T. cbn. now rewrite unbe_be.
Qed.

Lemma parse_u8_remaining p b p' : parse_u8 p = Ok (b, p') -> remaining p = S (remaining p').
Proof.
  unfold parse_u8, remaining. destruct (p_rest p) eqn:E; [discriminate|]. intros H. injection H as <- <-. reflexivity.
Qed.

Lemma take_remaining n p v p' : take n p = Ok (v, p') -> remaining p = (n + remaining p')%nat.
Proof.
  intros H. apply take_ok in H as (H1 & H2 & _). unfold remaining. rewrite H1, app_length. lia.
Qed.
