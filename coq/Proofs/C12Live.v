(* C12, "holds identically for the live session": the configuration a live session derives is the configuration the OPEN-pair
   derivation (session_config, the one BMP uses) gives for the OPEN the session itself sends - four-octet capability and ADD-PATH
   send+receive for each configured family (Fsm.sent_open_caps) - and the peer's OPEN. *)
From Coq Require Import List NArith Bool Lia.
From RC Require Import Base.Res Base.Wire Proofs.WireProofs Gen.Merge Model.Negotiate Proofs.NegotiateProofs Proofs.C12Proofs.
Import ListNotations.
Open Scope N_scope.

(* the capabilities of the OPEN a session with ADD-PATH families [local] sends: capability 65 and one ADD-PATH capability
   listing (family, send+receive) for each *)
Definition ap_entry (f : fam) : bytes := be 2 (fst f) ++ [snd f; 3].
Definition sent_caps (asn4 : bytes) (local : list fam) : list cap := [(65, asn4); (69, flat_map ap_entry local)].

Definition small_fam (f : fam) : Prop := fst f < 65536 /\ snd f < 256.

Lemma chunks_entries : forall local fuel, Forall small_fam local -> (4 * length local < fuel)%nat ->
  chunks fuel 4 (flat_map ap_entry local) = map ap_entry local.
Proof.
  induction local as [|f l IH]; intros fuel Hs Hf; (destruct fuel as [|fuel]; [lia|]); cbn [chunks flat_map map]; [reflexivity|].
  inversion Hs; subst. unfold ap_entry at 1. cbn [be app]. cbn [firstn skipn]. f_equal.
  apply IH; [assumption|cbn [length] in Hf; lia].
Qed.

Lemma parse_entries : forall local, Forall small_fam local ->
  parse_chunks (map ap_entry local) = Ok (map (fun f => (f, 3)) local).
Proof.
  induction local as [|f l IH]; intros Hs; cbn [map parse_chunks]; [reflexivity|]. inversion Hs as [|? ? (H1 & H2) Hl]; subst.
  unfold ap_entry, parser_of, parse_u16. rewrite parse_be_app by (cbn; lia). cbn [bind app parse_u8 p_rest p_pos].
  change (dir_of 3) with (@Ok N 3). cbn [bind]. pose proof (IH Hl) as IH'. unfold ap_entry in IH'. rewrite IH'. cbn [bind]. destruct f; reflexivity.
Qed.

Lemma entries_len local : length (flat_map ap_entry local) = (4 * length local)%nat.
Proof. induction local as [|f l IH]; cbn [flat_map length]; [reflexivity|]. rewrite app_length, IH. unfold ap_entry. rewrite app_length, be_length. cbn [length]. lia. Qed.

Lemma sent_caps_vec asn4 local : Forall small_fam local ->
  addpath_families_vec (sent_caps asn4 local) = Ok (map (fun f => (f, 3)) local) /\ four_octet_capable (sent_caps asn4 local) = true.
Proof.
  intros Hs. split; [|reflexivity]. unfold sent_caps. cbn [addpath_families_vec N.eqb Pos.eqb].
  rewrite chunks_entries by (try assumption; rewrite entries_len; lia). rewrite parse_entries by assumption. cbn [bind]. now rewrite app_nil_r.
Qed.

Lemma keys_local (local : list fam) : keys (map (fun f => (f, 3)) local) = local.
Proof. unfold keys. rewrite map_map. cbn [fst]. apply map_id. Qed.

Lemma find_local local f : find_fam (map (fun f => (f, 3)) local) f = if existsb (fam_eqb f) local then Some 3 else None.
Proof.
  induction local as [|g l IH]; cbn [map find_fam existsb]; [reflexivity|].
  assert (E : fam_eqb g f = fam_eqb f g) by (unfold fam_eqb; rewrite (N.eqb_sym (fst g)), (N.eqb_sym (snd g)); reflexivity).
  rewrite E. destruct (fam_eqb f g); [reflexivity|exact IH].
Qed.

Lemma c12_live_is_pair_proof asn4 local rcvd other c f :
  Forall small_fam local -> NoDup local ->
  addpath_families_vec rcvd = Ok other -> NoDup (keys other) ->
  live_session_config local rcvd = Ok c ->
  get_addpath c f = get_addpath (session_config (sent_caps asn4 local) rcvd) f /\
  sc_four c = sc_four (session_config (sent_caps asn4 local) rcvd).
Proof.
  intros Hs Hnd Ho Hno Hl. destruct (sent_caps_vec asn4 local Hs) as (V & F).
  destruct (c12_live_proof local rcvd other c f Ho Hno Hl) as (L1 & L2).
  assert (Hk : NoDup (keys (map (fun g : fam => (g, 3)) local))) by now rewrite keys_local.
  assert (G : get_addpath (session_config (sent_caps asn4 local) rcvd) f =
              dir_spec (find_fam (map (fun g : fam => (g, 3)) local) f) (find_fam other f)) by (apply c12_get_proof; assumption).
  rewrite G, find_local, c12_four_octet_proof, F. cbn [andb]. split; assumption.
Qed.
