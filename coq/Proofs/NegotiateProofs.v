From Coq Require Import List NArith Bool Lia.
From RC Require Import Base.Res Base.Wire Gen.Merge Model.Negotiate.
Import ListNotations.
Open Scope N_scope.

Lemma fam_eqb_eq a b : fam_eqb a b = true <-> a = b.
Proof.
  destruct a as [a1 a2], b as [b1 b2]. unfold fam_eqb. cbn. rewrite andb_true_iff, !N.eqb_eq.
  split; [intros [-> ->]; reflexivity|intros H; inversion H; auto].
Qed.

Lemma fam_eqb_refl a : fam_eqb a a = true.
Proof. now apply fam_eqb_eq. Qed.

Lemma fam_eqb_neq a b : fam_eqb a b = false <-> a <> b.
Proof. rewrite <- fam_eqb_eq. destruct (fam_eqb a b); split; congruence. Qed.

Definition dir_ok (d : N) : bool := (1 <=? d) && (d <=? 3).
Definition dirs_ok (l : list (fam * N)) : bool := forallb (fun x => dir_ok (snd x)) l.

Lemma dir_ok_cases d : dir_ok d = true -> d = 1 \/ d = 2 \/ d = 3.
Proof. unfold dir_ok. rewrite andb_true_iff, !N.leb_le. lia. Qed.

(* the generated merge table is the RFC 7911 rule: finite check, all 9 pairs *)
Definition merge_table_ok : bool :=
  forallb (fun a => forallb (fun b =>
     match merge a b, dir_spec (Some a) (Some b) with
     | Some x, Some y => x =? y
     | None, None => true
     | _, _ => false
     end) [1; 2; 3]) [1; 2; 3].

Lemma merge_table_ok_true : merge_table_ok = true.
Proof. vm_compute. reflexivity. Qed.

Lemma merge_spec a b : dir_ok a = true -> dir_ok b = true -> merge a b = dir_spec (Some a) (Some b).
Proof.
  intros Ha Hb. pose proof merge_table_ok_true as H. unfold merge_table_ok in H.
  rewrite forallb_forall in H.
  assert (Ia : In a [1;2;3]) by (destruct (dir_ok_cases a Ha) as [-> | [-> | ->]]; cbn; auto).
  assert (Ib : In b [1;2;3]) by (destruct (dir_ok_cases b Hb) as [-> | [-> | ->]]; cbn; auto).
  specialize (H a Ia). rewrite forallb_forall in H. specialize (H b Ib).
  destruct (merge a b), (dir_spec (Some a) (Some b)); try discriminate; auto.
  apply N.eqb_eq in H. now subst.
Qed.

Definition rx_table_ok : bool :=
  forallb (fun d => Bool.eqb (rx_lookup rx_rows d) (can_recv (Some d))) [1; 2; 3].
Lemma rx_table_ok_true : rx_table_ok = true.
Proof. vm_compute. reflexivity. Qed.

Lemma rx_lookup_spec d : dir_ok d = true -> rx_lookup rx_rows d = can_recv (Some d).
Proof.
  intros Hd. pose proof rx_table_ok_true as H. unfold rx_table_ok in H. rewrite forallb_forall in H.
  assert (I : In d [1;2;3]) by (destruct (dir_ok_cases d Hd) as [-> | [-> | ->]]; cbn; auto).
  specialize (H d I). now apply eqb_prop in H.
Qed.

(* ---- the ADD-PATH map after adding a list of (family, direction) ---- *)

Lemma fold_add_four l c : sc_four (fold_left add_famdir l c) = sc_four c.
Proof. revert c. induction l as [|x l IH]; intros c; cbn [fold_left]; [reflexivity|]. now rewrite IH. Qed.

Lemma fold_add_map l c : sc_addpath (fold_left add_famdir l c) = rev l ++ sc_addpath c.
Proof.
  revert c. induction l as [|[f d] l IH]; intros c; cbn [fold_left]; [reflexivity|].
  rewrite IH. cbn [add_famdir sc_addpath amap_set rev fst snd]. now rewrite <- app_assoc.
Qed.

Lemma amap_get_app a b f :
  amap_get (a ++ b) f = match amap_get a f with Some d => Some d | None => amap_get b f end.
Proof.
  induction a as [|[f' d] a IH]; cbn [app amap_get]; [reflexivity|].
  destruct (fam_eqb f' f); [reflexivity|apply IH].
Qed.

Lemma amap_get_find l f : amap_get l f = find_fam l f.
Proof. induction l as [|[f' d] l IH]; cbn; [reflexivity|]. now rewrite IH. Qed.

Definition keys (l : list (fam * N)) : list fam := map fst l.

Lemma find_none_notin l f : find_fam l f = None <-> ~ In f (keys l).
Proof.
  induction l as [|[f' d] l IH]; cbn; [tauto|].
  destruct (fam_eqb f' f) eqn:E.
  - apply fam_eqb_eq in E. subst. split; [discriminate|intros H; exfalso; apply H; now left].
  - apply fam_eqb_neq in E. rewrite IH. tauto.
Qed.

Lemma find_rev_nodup l f : NoDup (keys l) -> find_fam (rev l) f = find_fam l f.
Proof.
  induction l as [|[f' d] l IH]; intros Hnd; [reflexivity|].
  cbn [keys map fst] in Hnd. inversion Hnd as [|? ? Hnotin Hnd']; subst.
  cbn [rev]. rewrite <- amap_get_find, amap_get_app, !amap_get_find. rewrite (IH Hnd').
  cbn [find_fam]. destruct (fam_eqb f' f) eqn:E.
  - apply fam_eqb_eq in E. subst f'.
    assert (N0 : find_fam l f = None) by (apply find_none_notin; exact Hnotin). rewrite N0. cbn [amap_get]. now rewrite fam_eqb_refl.
  - destruct (find_fam l f); [reflexivity|]. cbn [amap_get]. now rewrite E.
Qed.

(* keys of the intersection are a sub-list of the keys of [mine] *)
Lemma intersect_keys_in mine other f : In f (keys (intersect mine other)) -> In f (keys mine).
Proof.
  induction mine as [|[f' d] mine IH]; cbn [intersect keys map]; [tauto|].
  destruct (find_fam other f') as [od|]; [destruct (merge d od)|]; cbn; intros H; try (right; now apply IH).
  destruct H as [<-|H]; [now left|right; now apply IH].
Qed.

Lemma intersect_nodup mine other : NoDup (keys mine) -> NoDup (keys (intersect mine other)).
Proof.
  induction mine as [|[f d] mine IH]; cbn [intersect keys map]; intros H; [constructor|].
  inversion H as [|? ? Hn Hnd]; subst.
  destruct (find_fam other f) as [od|]; [destruct (merge d od)|]; auto.
  cbn. constructor; auto. intros Hin. apply Hn. now apply (intersect_keys_in _ other).
Qed.

Lemma find_intersect mine other f :
  NoDup (keys mine) -> dirs_ok mine = true -> dirs_ok other = true ->
  find_fam (intersect mine other) f = dir_spec (find_fam mine f) (find_fam other f).
Proof.
  intros Hnd Hm Ho. induction mine as [|[f' d] mine IH].
  - cbn. destruct (find_fam other f) as [[|[[]|[]|]]|]; reflexivity.
  - cbn [keys map fst] in Hnd. inversion Hnd as [|? ? Hnotin Hnd']; subst.
    cbn [dirs_ok forallb snd] in Hm. apply andb_true_iff in Hm as [Hd Hm].
    specialize (IH Hnd' Hm).
    cbn [intersect find_fam].
    destruct (fam_eqb f' f) eqn:E.
    + apply fam_eqb_eq in E. subst f'.
      assert (N0 : find_fam mine f = None) by (apply find_none_notin; exact Hnotin).
      assert (N1 : find_fam (intersect mine other) f = None).
      { apply find_none_notin. intros Hin. apply Hnotin. now apply (intersect_keys_in _ other). }
      destruct (find_fam other f) as [od|] eqn:Eo.
      * assert (Hod : dir_ok od = true).
        { clear -Ho Eo. induction other as [|[g e] other IHo]; cbn in *; [discriminate|].
          apply andb_true_iff in Ho as [H1 H2]. destruct (fam_eqb g f); [injection Eo as <-; assumption|auto]. }
        rewrite (merge_spec d od Hd Hod).
        destruct (dir_spec (Some d) (Some od)) eqn:Es; cbn [find_fam]; [now rewrite fam_eqb_refl|exact N1].
      * rewrite N1. destruct (dir_ok_cases d Hd) as [-> | [-> | ->]]; reflexivity.
    + destruct (find_fam other f') as [od|]; [destruct (merge d od)|]; cbn [find_fam]; try rewrite E; exact IH.
Qed.

(* the derived configuration holds, for every family, exactly the RFC 7911 direction *)
Theorem config_get_spec mine other four f :
  NoDup (keys mine) -> dirs_ok mine = true -> dirs_ok other = true ->
  get_addpath (fold_left add_famdir (intersect mine other) (mkSC four [])) f
  = dir_spec (find_fam mine f) (find_fam other f).
Proof.
  intros Hnd Hm Ho. unfold get_addpath. rewrite fold_add_map. cbn [sc_addpath]. rewrite app_nil_r.
  rewrite amap_get_find, find_rev_nodup by (now apply intersect_nodup).
  now apply find_intersect.
Qed.

Lemma dir_spec_ok a b d : dir_spec a b = Some d -> dir_ok d = true.
Proof. unfold dir_spec. destruct (rx_spec a b), (tx_spec a b); intros H; inversion H; reflexivity. Qed.

Theorem config_rx_spec mine other four f :
  NoDup (keys mine) -> dirs_ok mine = true -> dirs_ok other = true ->
  rx_addpath (fold_left add_famdir (intersect mine other) (mkSC four [])) f
  = rx_spec (find_fam mine f) (find_fam other f).
Proof.
  intros Hnd Hm Ho. unfold rx_addpath. rewrite config_get_spec by assumption.
  destruct (dir_spec _ _) as [d|] eqn:E.
  - rewrite rx_lookup_spec by (eapply dir_spec_ok; eassumption).
    unfold dir_spec in E. destruct (rx_spec _ _), (tx_spec _ _); inversion E; reflexivity.
  - unfold dir_spec in E. destruct (rx_spec _ _), (tx_spec _ _); try discriminate. reflexivity.
Qed.

Definition swap_dir (d : N) : N := match d with 1 => 2 | 2 => 1 | x => x end.

Lemma dir_spec_swap a b : dir_spec a b = option_map swap_dir (dir_spec b a).
Proof.
  unfold dir_spec, rx_spec, tx_spec.
  destruct (can_recv a), (can_send b), (can_send a), (can_recv b); reflexivity.
Qed.

(* addpath_families_vec only yields valid directions *)
Lemma parse_chunks_ok l r : parse_chunks l = Ok r -> dirs_ok r = true.
Proof.
  revert r. induction l as [|c l IH]; intros r; cbn [parse_chunks].
  - intros H. injection H as <-. reflexivity.
  - destruct (parse_u16 (parser_of c)) as [[afi p1]| |]; cbn [bind]; try discriminate.
    destruct (parse_u8 p1) as [[safi p2]| |]; cbn [bind]; try discriminate.
    destruct (parse_u8 p2) as [[d p3]| |]; cbn [bind]; try discriminate.
    unfold dir_of. destruct ((1 <=? d) && (d <=? 3)) eqn:Ed; cbn [bind]; try discriminate.
    destruct (parse_chunks l) as [r'| |]; cbn [bind]; try discriminate.
    intros H. injection H as <-. cbn [dirs_ok forallb snd]. unfold dir_ok. rewrite Ed. now apply IH.
Qed.

Lemma dirs_ok_app a b : dirs_ok (a ++ b) = dirs_ok a && dirs_ok b.
Proof. unfold dirs_ok. apply forallb_app. Qed.

Lemma addpath_families_vec_ok caps r : addpath_families_vec caps = Ok r -> dirs_ok r = true.
Proof.
  revert r. induction caps as [|[t v] caps IH]; intros r; cbn [addpath_families_vec].
  - intros H. injection H as <-. reflexivity.
  - destruct (t =? 69); [|apply IH].
    destruct (parse_chunks _) as [a| |] eqn:Ea; cbn [bind]; try discriminate.
    destruct (addpath_families_vec caps) as [r'| |]; cbn [bind]; try discriminate.
    intros H. injection H as <-. rewrite dirs_ok_app. rewrite (parse_chunks_ok _ _ Ea). now rewrite IH.
Qed.

(* ---- live session ---- *)
Lemma existsb_fam_in f local : existsb (fam_eqb f) local = true <-> In f local.
Proof.
  rewrite existsb_exists. split.
  - intros [x [Hin He]]. apply fam_eqb_eq in He. now subst.
  - intros H. exists f. split; [assumption|apply fam_eqb_refl].
Qed.

Lemma live_keys_in local rcvd f : In f (keys (live_intersection local rcvd)) -> In f (keys rcvd).
Proof.
  induction rcvd as [|[g d] rcvd IH]; cbn [live_intersection flat_map keys map]; [tauto|].
  unfold keys in *. rewrite map_app, in_app_iff. intros [H|H]; [|right; now apply IH].
  destruct (existsb (fam_eqb g) local); [destruct (merge 3 d)|]; cbn in H; try tauto.
  destruct H as [<-|[]]. now left.
Qed.

Lemma live_nodup local rcvd : NoDup (keys rcvd) -> NoDup (keys (live_intersection local rcvd)).
Proof.
  induction rcvd as [|[g d] rcvd IH]; cbn [live_intersection flat_map keys map]; intros H; [constructor|].
  inversion H as [|? ? Hn Hnd]; subst. specialize (IH Hnd).
  unfold keys in *. rewrite map_app.
  destruct (existsb (fam_eqb g) local); [destruct (merge 3 d)|]; cbn [map app fst]; auto.
  constructor; auto. intros Hin. apply Hn. now apply (live_keys_in local).
Qed.

Lemma find_live local rcvd f :
  NoDup (keys rcvd) -> dirs_ok rcvd = true ->
  find_fam (live_intersection local rcvd) f
  = dir_spec (if existsb (fam_eqb f) local then Some 3 else None) (find_fam rcvd f).
Proof.
  intros Hnd Hok. induction rcvd as [|[g d] rcvd IH].
  - cbn. destruct (existsb _ _); reflexivity.
  - cbn [keys map fst] in Hnd. inversion Hnd as [|? ? Hnotin Hnd']; subst.
    cbn [dirs_ok forallb snd] in Hok. apply andb_true_iff in Hok as [Hd Hok]. specialize (IH Hnd' Hok).
    cbn [live_intersection flat_map find_fam].
    assert (App : forall a b, find_fam (a ++ b) f = match find_fam a f with Some x => Some x | None => find_fam b f end).
    { intros a b. rewrite <- !amap_get_find. apply amap_get_app. }
    rewrite App. fold (live_intersection local rcvd).
    destruct (fam_eqb g f) eqn:E.
    + apply fam_eqb_eq in E. subst g.
      assert (N1 : find_fam (live_intersection local rcvd) f = None).
      { apply find_none_notin. intros Hin. apply Hnotin. now apply (live_keys_in local). }
      rewrite N1. destruct (existsb (fam_eqb f) local).
      * rewrite (merge_spec 3 d eq_refl Hd).
        destruct (dir_spec (Some 3) (Some d)); cbn [find_fam]; [now rewrite fam_eqb_refl|reflexivity].
      * cbn. destruct (dir_ok_cases d Hd) as [-> | [-> | ->]]; reflexivity.
    + rewrite IH.
      destruct (existsb (fam_eqb g) local); [destruct (merge 3 d)|]; cbn [find_fam]; try rewrite E; reflexivity.
Qed.
