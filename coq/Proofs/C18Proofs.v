From Coq Require Import List NArith Bool String Lia.
From RC Require Import Model.Enums Gen.EnumTables Proofs.EnumsProofs.
Import ListNotations.
Open Scope N_scope.

Lemma all_tables_consistent : all_consistent (map snd all_enums) = true.
Proof. vm_compute. reflexivity. Qed.

Lemma tbl_consistent name t : In (name, t) all_enums -> consistent t = true.
Proof.
  intros H. apply (all_consistent_in (map snd all_enums)); [exact all_tables_consistent|].
  apply in_map_iff. exists (name, t). auto.
Qed.

Lemma c18_roundtrip_fallible_proof :
  forall name t n, In (name, t) all_enums -> of_int t n <> Reject ->
    to_int t (of_int t n) = Some n.
Proof. intros name t n Hin Hr. apply roundtrip_generic; [now apply (tbl_consistent name)|assumption]. Qed.

Lemma c18_roundtrip_proof :
  forall name t n, In (name, t) all_enums -> e_catch t = true ->
    to_int t (of_int t n) = Some n.
Proof.
  intros name t n Hin Hc. apply (c18_roundtrip_fallible_proof name); [assumption|].
  unfold of_int. destruct (lookup _ _); [discriminate|]. destruct (lookup_range _ _); [discriminate|].
  rewrite Hc. discriminate.
Qed.

Lemma c18_injective_proof :
  forall name t n m i, In (name, t) all_enums ->
    of_int t n = Named i -> of_int t m = Named i -> n = m.
Proof. intros name t n m i Hin. apply named_injective. now apply (tbl_consistent name). Qed.

Lemma c18_catchall_proof :
  forall name t n, In (name, t) all_enums -> e_catch t = true ->
    lookup (e_fwd t) n = None -> lookup_range (e_ranges t) n = None -> of_int t n = Catch n.
Proof. intros name t n _. apply unknown_preserved. Qed.

Lemma afisafi_consistent : as_consistent afisafi_table = true.
Proof. vm_compute. reflexivity. Qed.

Lemma c18_afisafi_roundtrip_proof :
  forall a s, afisafi_to afisafi_table (afisafi_of afisafi_table a s) = Some (a, s).
Proof. intros. apply afisafi_roundtrip. exact afisafi_consistent. Qed.

Lemma c18_afisafi_injective_proof :
  forall a s a' s' i, afisafi_of afisafi_table a s = AsNamed i ->
    afisafi_of afisafi_table a' s' = AsNamed i -> (a, s) = (a', s').
Proof. intros a s a' s' i. apply afisafi_named_injective. exact afisafi_consistent. Qed.

Lemma c18_afisafi_bytes_proof :
  forall a s, afisafi_bytes afisafi_table (afisafi_of afisafi_table a s) = Some [a / 256; a mod 256; s].
Proof. intros. apply afisafi_bytes_spec. exact afisafi_consistent. Qed.

(* every AFI number used by an AFI/SAFI entry is a named Afi variant *)
Definition afis_known : bool :=
  forallb (fun '(a, _, _) => match of_int te_afi a with Named _ => true | _ => false end)
          (as_entries afisafi_table).

Lemma afis_known_true : afis_known = true.
Proof. vm_compute. reflexivity. Qed.

Lemma c18_afisafi_afi_proof :
  forall a s, to_int te_afi (afisafi_afi afisafi_table te_afi (afisafi_of afisafi_table a s)) = Some a.
Proof.
  intros a s. pose proof (c18_afisafi_roundtrip_proof a s) as R.
  destruct (afisafi_of afisafi_table a s) as [i|a' s'] eqn:E; cbn [afisafi_afi afisafi_to] in *.
  - rewrite R. apply (c18_roundtrip_proof "Afi@src/bgp/nlri/afisafi.rs"%string).
    + vm_compute. tauto.
    + reflexivity.
  - cbn. congruence.
Qed.

Lemma c18_afisafi_afi_known_proof :
  forall a s i, afisafi_of afisafi_table a s = AsNamed i -> exists j, of_int te_afi a = Named j.
Proof.
  intros a s i. unfold afisafi_of.
  destruct (as_lookup (as_entries afisafi_table) a s) as [k|] eqn:Hl; [|discriminate].
  intros _. pose proof afis_known_true as H. unfold afis_known in H. rewrite forallb_forall in H.
  specialize (H _ (as_lookup_in _ _ _ _ Hl)). cbn in H.
  destruct (of_int te_afi a); try discriminate. eauto.
Qed.

(* ---- details: finite sweep over all 256 x 256 (code, subcode) pairs ---- *)

Definition known_details (c s : N) : bool := ((c =? 0) || (c =? 4)) && negb (s =? 0).

Definition list_eqb (a b : list N) : bool :=
  Nat.eqb (List.length a) (List.length b) && forallb (fun '(x, y) => x =? y) (combine a b).

Lemma list_eqb_eq a b : list_eqb a b = true -> a = b.
Proof.
  unfold list_eqb. revert b. induction a as [|x a IH]; destruct b as [|y b]; cbn; try discriminate; auto.
  intros H. apply andb_true_iff in H as [H1 H2]. apply andb_true_iff in H2 as [H2 H3].
  apply N.eqb_eq in H2. subst. f_equal. apply IH. now rewrite H1, H3.
Qed.

Definition details_ok (c s : N) : bool :=
  match details_of details_error_code details_table c s with
  | Some d => match details_raw details_error_code details_table d with
              | Some l => list_eqb l [c; s]
              | None => false
              end
  | None => false
  end.

Definition details_sweep : bool :=
  forallb (fun '(c, s) => known_details c s || details_ok c s) (pairs_below 256 256).

Lemma details_sweep_true : details_sweep = true.
Proof. vm_compute. reflexivity. Qed.

Lemma c18_details_proof :
  forall c s, c < 256 -> s < 256 -> known_details c s = false ->
    exists d, details_of details_error_code details_table c s = Some d /\
              details_raw details_error_code details_table d = Some [c; s].
Proof.
  intros c s Hc Hs Hk. pose proof details_sweep_true as H. unfold details_sweep in H.
  rewrite forallb_forall in H. specialize (H _ (in_pairs_below 256 256 c s Hc Hs)). cbn beta iota in H.
  rewrite Hk in H. cbn [orb] in H. unfold details_ok in H.
  destruct (details_of _ _ c s) as [d|]; [|discriminate].
  exists d. split; [reflexivity|].
  destruct (details_raw _ _ d) as [l|]; [|discriminate].
  f_equal. now apply list_eqb_eq.
Qed.

Lemma c18_details_known_witness_proof :
  exists c s d, known_details c s = true /\
    details_of details_error_code details_table c s = Some d /\
    details_raw details_error_code details_table d <> Some [c; s].
Proof.
  exists 4, 5. eexists. split; [reflexivity|]. split; [vm_compute; reflexivity|]. vm_compute. discriminate.
Qed.
