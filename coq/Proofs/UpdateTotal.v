(* C02: totality (no Panic) of UPDATE decoding, bounded iterators, error-last, vec = iter. *)
From Coq Require Import List Arith NArith Bool Lia.
From RC Require Import Base.Res Base.Wire Proofs.WireProofs Model.Open Model.Negotiate Model.Nlri Model.AsPath
     Gen.AttrRules Model.Attr Model.Update.
Import ListNotations.
Open Scope N_scope.

(* generic: a bind does not panic if neither part does *)
Lemma bind_np {A B} (r : res A) (f : A -> res B) :
  r <> Panic -> (forall a, f a <> Panic) -> bind r f <> Panic.
Proof. destruct r; cbn; intros H1 H2; [apply H2|discriminate|congruence]. Qed.

Ltac np :=
  repeat first
    [ apply bind_np; [|intros ?]
    | match goal with
      | |- Ok _ <> Panic => discriminate
      | |- Err <> Panic => discriminate
      | |- (if ?c then _ else _) <> Panic => destruct c
      | |- (let '(_, _) := ?x in _) <> Panic => destruct x
      | |- (match ?x with (_, _) => _ end) <> Panic => destruct x
      | |- take _ _ <> Panic => apply take_no_panic
      | |- parse_u8 _ <> Panic => apply parse_u8_no_panic
      | |- parse_be _ _ <> Panic => apply parse_be_no_panic
      | |- parse_u16 _ <> Panic => apply parse_be_no_panic
      | |- parse_u32 _ <> Panic => apply parse_be_no_panic
      | |- advance _ _ <> Panic => apply advance_no_panic
      | |- parse_parser _ _ <> Panic => apply parse_parser_no_panic
      end ].

Lemma marker_check_np p : marker_check p <> Panic.
Proof. unfold marker_check. np. Qed.

Lemma header_parse_np p : header_parse p <> Panic.
Proof. unfold header_parse. np; try apply marker_check_np. Qed.

(* ---- NLRI parsing never panics ---- *)
Lemma prefix_new_np v6 a l : prefix_new v6 a l <> Panic.
Proof. unfold prefix_new. np. Qed.

Lemma parse_prefix_for_len_np v6 n p : parse_prefix_for_len v6 n p <> Panic.
Proof. unfold parse_prefix_for_len. np. apply prefix_new_np. Qed.

Lemma labels_parse_np fuel : forall p, labels_parse fuel p <> Panic.
Proof. induction fuel as [|f IH]; intros p; cbn [labels_parse]; [discriminate|]. np. apply IH. Qed.

Lemma ops_parse_np fuel : forall p, ops_parse fuel p <> Panic.
Proof. induction fuel as [|f IH]; intros p; cbn [ops_parse]; [discriminate|]. np. apply IH. Qed.

Lemma flow_prefix_np n p : flow_prefix n p <> Panic.
Proof. unfold flow_prefix. destruct (prefix_bits_to_bytes n); [discriminate|]. np. apply prefix_new_np. Qed.

Lemma component_parse_np p : component_parse p <> Panic.
Proof. unfold component_parse. np; [apply flow_prefix_np|apply ops_parse_np]. Qed.

Lemma try_u8_np n : try_u8 n <> Panic.
Proof. unfold try_u8. np. Qed.

Lemma parse_body_np k p : parse_body k p <> Panic.
Proof.
  destruct k; cbn [parse_body]; unfold parse_prefix, parse_labels_prefix, parse_labels_rd_prefix, flow_len;
    np; try apply parse_prefix_for_len_np; try apply labels_parse_np; try apply try_u8_np.
Qed.

Lemma parse_nlri_np k ap p : parse_nlri k ap p <> Panic.
Proof. unfold parse_nlri. destruct ap; np; apply parse_body_np. Qed.

Lemma nlri_validate_np fuel : forall k ap p, nlri_validate fuel k ap p <> Panic.
Proof. induction fuel as [|f IH]; intros k ap p; cbn [nlri_validate]; [discriminate|]. np; [apply parse_nlri_np|apply IH]. Qed.

(* ---- attribute walks ---- *)
Lemma wire_attr_parse_np four p : wire_attr_parse four p <> Panic.
Proof.
  unfold wire_attr_parse. np. destruct (attr_rule _) as [[[cf vr] lr]|]; np.
Qed.

Lemma mp_family_np v : mp_family v <> Panic.
Proof. unfold mp_family. np. Qed.

(* unchecked_walk only yields TLVs that contain their header *)
Lemma unchecked_walk_tlv fuel : forall p f c tlv,
  In (f, c, tlv) (unchecked_walk fuel p) -> ((if has_ext f then 4 else 3) <= length tlv)%nat.
Proof.
  induction fuel as [|fuel IH]; intros p f c tlv; cbn [unchecked_walk]; [intros []|].
  destruct (Nat.eqb (remaining p) 0); [intros []|].
  destruct (parse_u8 p) as [[flags p1]| |]; try (intros []).
  destruct (parse_u8 p1) as [[code p2]| |]; try (intros []).
  destruct (if has_ext flags then parse_u16 p2 else parse_u8 p2) as [[len p3]| |]; try (intros []).
  destruct (take _ p) as [[t p']| |] eqn:Et; [|intros []|intros []].
  intros [H|H].
  - inversion H; subst. apply take_ok in Et as (_ & L & _). rewrite L. lia.
  - eapply IH; eassumption.
Qed.

Lemma mp_scan_np l : forall r u,
  (forall f c tlv, In (f, c, tlv) l -> ((if has_ext f then 4 else 3) <= length tlv)%nat) -> mp_scan l r u <> Panic.
Proof.
  induction l as [|[[f c] tlv] l IH]; intros r u H; cbn [mp_scan]; [discriminate|].
  assert (T : tlv_value f tlv <> Panic).
  { unfold tlv_value. specialize (H f c tlv (or_introl eq_refl)). destruct (Nat.leb_spec (if has_ext f then 4%nat else 3%nat) (length tlv)); [discriminate|lia]. }
  assert (IH' : forall r u, mp_scan l r u <> Panic) by (intros; apply IH; intros; eapply H; right; eassumption).
  destruct (c =? 14); [|destruct (c =? 15)]; try apply IH'; np; try exact T; try apply mp_family_np; apply IH'.
Qed.

Theorem c02_parse_total_proof cfg b : parse_update cfg b <> Panic.
Proof.
  unfold parse_update. np; try apply header_parse_np; try apply nlri_validate_np.
  all: try (apply mp_scan_np; intros f c tlv Hin; eapply unchecked_walk_tlv; eassumption).
Qed.

(* ---- every successful NLRI parse consumes at least one octet ---- *)
Ltac unbind H :=
  repeat match type of H with
         | bind ?r ?f = Ok _ =>
           let a := fresh "a" in let E := fresh "E" in
           destruct r as [a| |] eqn:E; cbn [bind] in H; [|discriminate H|discriminate H]
         | (let '(_, _) := ?x in _) = Ok _ => destruct x
         | (if ?c then _ else _) = Ok _ => destruct c eqn:?; try discriminate H
         | Err = Ok _ => discriminate H
         | Panic = Ok _ => discriminate H
         end.

Lemma take_le n p v p' : take n p = Ok (v, p') -> (remaining p' + n = remaining p)%nat.
Proof. intros H. pose proof (take_remaining _ _ _ _ H). lia. Qed.
Lemma parse_u8_lt p b p' : parse_u8 p = Ok (b, p') -> (S (remaining p') = remaining p)%nat.
Proof. intros H. pose proof (parse_u8_remaining _ _ _ H). lia. Qed.
Lemma parse_be_le k p v p' : parse_be k p = Ok (v, p') -> (remaining p' + k = remaining p)%nat.
Proof. unfold parse_be. intros H. unbind H. inversion H; subst. eapply take_le; eassumption. Qed.
Lemma advance_le n p p' : advance n p = Ok p' -> (remaining p' + n = remaining p)%nat.
Proof. unfold advance. intros H. unbind H. inversion H; subst. eapply take_le; eassumption. Qed.

Lemma parse_prefix_for_len_le v6 n p x p' : parse_prefix_for_len v6 n p = Ok (x, p') -> (remaining p' <= remaining p)%nat.
Proof.
  unfold parse_prefix_for_len. intros H. unbind H.
  inversion H; subst. match goal with E : take _ _ = Ok _ |- _ => apply take_le in E end. lia.
Qed.

Lemma labels_parse_le fuel : forall p l p', labels_parse fuel p = Ok (l, p') -> (remaining p' <= remaining p)%nat.
Proof.
  induction fuel as [|f IH]; intros p l p'; cbn [labels_parse]; [discriminate|]. intros H.
  destruct (take 3 p) as [[t q]| |] eqn:E; cbn [bind] in H; try discriminate. apply take_le in E. destruct (is_stop t).
  - inversion H; subst. lia.
  - destruct (labels_parse f q) as [[r q']| |] eqn:E0; cbn [bind] in H; try discriminate. inversion H; subst. apply IH in E0. lia.
Qed.

Ltac crunch H :=
  repeat (first
    [ progress (unbind H)
    | progress (cbn [bind] in H)
    | match goal with x : (_ * _)%type |- _ => destruct x end
    | match goal with
      | E : bind _ _ = Ok _ |- _ => progress (unbind E)
      | E : (let '(_, _) := _ in _) = Ok _ |- _ => progress (unbind E)
      | E : (if _ then _ else _) = Ok _ |- _ => progress (unbind E)
      end ]).

Ltac measure :=
  repeat match goal with
         | E : parse_u8 _ = Ok _ |- _ => apply parse_u8_lt in E
         | E : parse_be _ _ = Ok _ |- _ => apply parse_be_le in E
         | E : take _ _ = Ok _ |- _ => apply take_le in E
         | E : advance _ _ = Ok _ |- _ => apply advance_le in E
         | E : parse_prefix_for_len _ _ _ = Ok _ |- _ => apply parse_prefix_for_len_le in E
         | E : labels_parse _ _ = Ok _ |- _ => apply labels_parse_le in E
         end.

Lemma flow_len_lt p n p' : flow_len p = Ok (n, p') -> (remaining p' < remaining p)%nat.
Proof.
  unfold flow_len. intros H. destruct (parse_u8 p) as [[l1 q]| |] eqn:E; cbn [bind] in H; try discriminate.
  apply parse_u8_lt in E. destruct (240 <=? l1).
  - destruct (parse_u8 q) as [[l2 q2]| |] eqn:E2; cbn [bind] in H; try discriminate. apply parse_u8_lt in E2. inversion H; subst. lia.
  - inversion H; subst. lia.
Qed.

Lemma parse_body_lt k p b p' : parse_body k p = Ok (b, p') -> (remaining p' < remaining p)%nat.
Proof.
  destruct k; cbn [parse_body]; unfold parse_prefix, parse_labels_prefix, parse_labels_rd_prefix, parse_u16;
    intros H; crunch H; try discriminate H;
    repeat match goal with E : Ok _ = Ok _ |- _ => inversion E; clear E; subst end; measure;
    repeat match goal with E : flow_len _ = Ok _ |- _ => apply flow_len_lt in E end; lia.
Qed.

Lemma parse_nlri_lt k ap p n p' : parse_nlri k ap p = Ok (n, p') -> (remaining p' < remaining p)%nat.
Proof.
  unfold parse_nlri, parse_u32. destruct ap; intros H; unbind H;
    repeat match goal with x : (_ * _)%type |- _ => destruct x end; cbn [bind] in *; unbind H;
    repeat match goal with x : (_ * _)%type |- _ => destruct x end; inversion H; subst;
    repeat match goal with
           | E : parse_be _ _ = Ok _ |- _ => apply parse_be_le in E
           | E : parse_body _ _ = Ok _ |- _ => apply parse_body_lt in E
           end; lia.
Qed.


(* items: Ok ... Ok [Err] : an error can only be the last item *)
Fixpoint ok_then_maybe_err {A} (l : list (res A)) : bool :=
  match l with
  | [] => true
  | [Err] => true
  | Ok _ :: tl => ok_then_maybe_err tl
  | _ => false
  end.

(* ---- NLRI iterators end after at most [remaining] items; an error is the last item; no panic ---- *)
Lemma nlri_iter_total fuel : forall k ap p,
  (remaining p < fuel)%nat ->
  exists l, nlri_iter fuel k ap p = Some l /\ ok_then_maybe_err l = true /\ (length l <= remaining p)%nat.
Proof.
  induction fuel as [|fuel IH]; intros k ap p Hf; [lia|]. cbn [nlri_iter].
  destruct (Nat.eqb_spec (remaining p) 0) as [E0|E0].
  - exists []. repeat split; cbn; lia.
  - destruct (parse_nlri k ap p) as [[n p']| |] eqn:E.
    + pose proof (parse_nlri_lt _ _ _ _ _ E) as Hlt.
      destruct (IH k ap p' ltac:(lia)) as (l & El & Hok & Hlen). rewrite El. cbn [option_map].
      exists (Ok n :: l). repeat split; [exact Hok|cbn [length]; lia].
    + exists [Err]. repeat split; cbn; lia.
    + exfalso. eapply parse_nlri_np; eassumption.
Qed.

(* ---- the all-or-nothing collections agree with what the iterators yield ---- *)
Lemma collect_all_map v : collect_all (map Ok v) = Ok v.
Proof. induction v as [|x v IH]; [reflexivity|]. cbn [map collect_all]. rewrite IH. reflexivity. Qed.

Lemma collect_all_ok l v : collect_all l = Ok v <-> l = map Ok v.
Proof.
  split; [|intros ->; apply collect_all_map].
  revert v. induction l as [|x l IH]; intros v; cbn [collect_all].
  - intros H. inversion H. reflexivity.
  - destruct x as [n| |]; try discriminate.
    destruct (collect_all l) as [r| |] eqn:E; cbn [bind]; try discriminate.
    intros H. inversion H; subst. cbn. f_equal. now apply IH.
Qed.

Lemma collect_all_err l : ok_then_maybe_err l = true -> (collect_all l = Err <-> In Err l).
Proof.
  induction l as [|x l IH]; cbn [ok_then_maybe_err collect_all]; [intros _; split; [discriminate|intros []]|].
  destruct x as [n| |].
  - intros H. specialize (IH H). destruct (collect_all l) as [r| |] eqn:E; cbn [bind].
    + split; [discriminate|]. intros [X|X]; [discriminate|]. apply IH in X. discriminate.
    + split; [intros _; right; now apply IH|reflexivity].
    + split; [discriminate|]. intros [X|X]; [discriminate|]. apply IH in X. discriminate.
  - destruct l; [|discriminate]. intros _. split; [intros _; now left|reflexivity].
  - discriminate.
Qed.

(* ---- path attribute items of an accepted message: never a panic, and to_owned never panics ---- *)
Lemma attrs_walk_np fuel : forall four p, ~ In Panic (attrs_walk fuel four p).
Proof.
  induction fuel as [|fuel IH]; intros four p; cbn [attrs_walk]; [tauto|].
  destruct (Nat.eqb (remaining p) 0); [tauto|].
  destruct (wire_attr_parse four p) as [[w p']| |] eqn:E.
  - intros [H|H]; [discriminate|]. eapply IH; eassumption.
  - intros [H|[]]. discriminate.
  - exfalso. eapply wire_attr_parse_np; eassumption.
Qed.

(* what wire_attr_parse returns: the TLV holds its header; a typed item passed its type's rule *)
Lemma wire_attr_parse_inv four p w p' :
  wire_attr_parse four p = Ok (w, p') ->
  match w with
  | WTyped c f4 tlv => f4 = four /\ exists fl v cf vr lr, nth_error tlv 0 = Some fl /\
                       tlv_value fl tlv = Ok v /\ attr_rule c = Some (cf, vr, lr) /\ validate vr four v = true
  | WUnimpl fl c tlv => exists v, tlv_value fl tlv = Ok v
  | WInvalid _ _ _ => True
  end.
Proof.
  unfold wire_attr_parse. intros H.
  destruct (parse_u8 p) as [[fl p1]| |] eqn:E1; cbn [bind] in H; try discriminate.
  destruct (parse_u8 p1) as [[c p2]| |] eqn:E2; cbn [bind] in H; try discriminate.
  destruct (if has_ext fl then parse_u16 p2 else parse_u8 p2) as [[len p3]| |] eqn:E3; cbn [bind] in H; try discriminate.
  destruct (take (N.to_nat len) p3) as [[v p4]| |] eqn:E4; cbn [bind] in H; try discriminate.
  (* the octets in front of the parser: flags, code, length field, value *)
  unfold parse_u8 in E1. destruct (p_rest p) as [|b0 r0] eqn:R0; [discriminate|]. inversion E1; subst fl p1. clear E1.
  unfold parse_u8 in E2. cbn [p_rest p_pos] in E2. destruct r0 as [|b1 r1]; [discriminate|]. inversion E2; subst c p2. clear E2.
  assert (Hsplit : exists lf, r1 = lf ++ p_rest p3 /\ length lf = (if has_ext b0 then 2%nat else 1%nat)).
  { destruct (has_ext b0).
    - unfold parse_u16, parse_be in E3. destruct (take 2 _) as [[lv q]| |] eqn:Et; cbn [bind] in E3; try discriminate.
      inversion E3; subst. apply take_ok in Et as (A & B & _). cbn [p_rest] in A. eauto.
    - unfold parse_u8 in E3. cbn [p_rest p_pos] in E3. destruct r1 as [|b2 r2]; [discriminate|]. exists [b2]. inversion E3; subst. cbn. auto. }
  destruct Hsplit as (lf & Er1 & Llf).
  apply take_ok in E4 as (Ev & Lv & _).
  set (hlen := if has_ext b0 then 4%nat else 3%nat) in *.
  assert (Etlv : firstn (hlen + N.to_nat len) (b0 :: b1 :: r1) = b0 :: b1 :: lf ++ v).
  { rewrite Er1, Ev. change (b0 :: b1 :: lf ++ v ++ p_rest p4) with ((b0 :: b1 :: lf) ++ v ++ p_rest p4).
    rewrite app_assoc. change (b0 :: b1 :: lf ++ v) with ((b0 :: b1 :: lf) ++ v).
    rewrite firstn_app. replace (hlen + N.to_nat len - length ((b0 :: b1 :: lf) ++ v))%nat with 0%nat.
    2:{ rewrite app_length. cbn [length]. subst hlen. destruct (has_ext b0); lia. }
    cbn [firstn]. rewrite app_nil_r. apply firstn_all2. rewrite app_length. cbn [length]. subst hlen. destruct (has_ext b0); lia. }
  assert (Tv : tlv_value b0 (b0 :: b1 :: lf ++ v) = Ok v).
  { unfold tlv_value. fold hlen. cbn [length]. rewrite app_length.
    replace (Nat.leb hlen (S (S (length lf + length v)))) with true by (symmetry; apply Nat.leb_le; subst hlen; destruct (has_ext b0); lia).
    f_equal. subst hlen. destruct (has_ext b0); cbn [skipn].
    - destruct lf as [|x [|y [|z lf]]]; cbn in Llf; try lia. reflexivity.
    - destruct lf as [|x [|y lf]]; cbn in Llf; try lia. reflexivity. }
  destruct (attr_rule b1) as [[[cf vr] lr]|] eqn:Er.
  - destruct (validate vr four v) eqn:Ev2; inversion H; subst; [|exact I].
    split; [reflexivity|]. rewrite Etlv. exists b0, v, cf, vr, lr. repeat split; auto.
  - inversion H; subst. rewrite Etlv. eauto.
Qed.

(* ---- to_owned and the typed getters never panic ---- *)
Lemma parse_asns_np four n : forall p, parse_asns four n p <> Panic.
Proof. induction n as [|n IH]; intros p; cbn [parse_asns]; [discriminate|]. np. apply IH. Qed.

Lemma segments_np fuel : forall four p, segments fuel four p <> Panic.
Proof. induction fuel as [|f IH]; intros four p; cbn [segments]; [discriminate|]. np; [apply parse_asns_np|apply IH]. Qed.

Lemma wire_hops_np four v : wire_hops four v <> Panic.
Proof. unfold wire_hops, wire_segments. pose proof (segments_np (S (length v)) four (parser_of v)). destruct (segments _ _ _); cbn; congruence. Qed.

Lemma parse_items_np fuel : forall k p, parse_items fuel k p <> Panic.
Proof. induction fuel as [|f IH]; intros k p; cbn [parse_items]; [discriminate|]. np. apply IH. Qed.

Lemma table_codes : map fst attr_table = [1; 2; 3; 4; 5; 6; 7; 8; 9; 10; 16; 17; 18; 20; 21; 25; 32; 35; 128; 255].
Proof. reflexivity. Qed.

Lemma tbl_lookup_in l c r : tbl_lookup l c = Some r -> In c (map fst l).
Proof.
  induction l as [|[c' r'] l IH]; cbn [tbl_lookup map fst]; [discriminate|].
  destruct (N.eqb_spec c' c); [intros _; now left|intros H; right; auto].
Qed.

Lemma parse_value_np c four v r : attr_rule c = Some r -> parse_value c four v <> Panic.
Proof.
  intros H. apply tbl_lookup_in in H. rewrite table_codes in H.
  repeat (destruct H as [<-|H]; [cbn [parse_value]; np; try apply wire_hops_np; try apply parse_items_np|]).
  all: try (destruct H).
  all: unfold wire_segments; apply segments_np.
Qed.

Lemma to_owned_np four p w p' : wire_attr_parse four p = Ok (w, p') -> to_owned w <> Panic.
Proof.
  intros H. apply wire_attr_parse_inv in H. destruct w as [c f4 tlv|fl c tlv|fl c v]; cbn [to_owned].
  - destruct H as (-> & fl & v & cf & vr & lr & Hn & Hv & Hr & _).
    unfold index. rewrite Hn. cbn [bind]. unfold tlv_value in Hv. unfold slice_from.
    destruct (Nat.leb (if has_ext fl then 4%nat else 3%nat) (length tlv)); [|discriminate]. cbn [bind].
    eapply parse_value_np; eassumption.
  - destruct H as (v & Hv). unfold tlv_value in Hv. unfold slice_from.
    destruct (Nat.leb (if has_ext fl then 4%nat else 3%nat) (length tlv)); [|discriminate]. cbn. discriminate.
  - discriminate.
Qed.

Lemma attrs_walk_items fuel : forall four p w,
  In (Ok w) (attrs_walk fuel four p) -> exists q q', wire_attr_parse four q = Ok (w, q').
Proof.
  induction fuel as [|fuel IH]; intros four p w; cbn [attrs_walk]; [intros []|].
  destruct (Nat.eqb (remaining p) 0); [intros []|].
  destruct (wire_attr_parse four p) as [[w' p']| |] eqn:E.
  - intros [H|H]; [inversion H; subst; eauto|eapply IH; eassumption].
  - intros [H|[]]. discriminate.
  - intros [H|[]]. discriminate.
Qed.

Lemma find_attr_in l c w : find_attr l c = Some w -> In (Ok w) l.
Proof.
  induction l as [|x l IH]; cbn [find_attr]; [discriminate|].
  destruct x as [w'| |]; [|intros H; right; auto|intros H; right; auto].
  destruct (wattr_code w' =? c); [intros H; inversion H; subst; now left|intros H; right; auto].
Qed.

Section Acc.
  Variables (b : bytes) (u : upd).

  Lemma c02_items_total_proof :
    ~ In Panic (a_path_attributes b u) /\ forall w, In (Ok w) (a_path_attributes b u) -> to_owned w <> Panic.
  Proof.
    split; [apply attrs_walk_np|]. intros w Hin. unfold a_path_attributes in Hin.
    apply attrs_walk_items in Hin as (q & q' & E). eapply to_owned_np; eassumption.
  Qed.

  (* the value octets behind a typed getter satisfy the type's length rule *)
  Lemma typed_value_spec code :
    typed_value b u code <> Panic /\
    forall v, typed_value b u code = Ok (Some v) ->
      exists cf vr lr, attr_rule code = Some (cf, vr, lr) /\ validate vr (pp_four (u_ppi u)) v = true.
  Proof.
    unfold typed_value. destruct (find_attr (a_path_attributes b u) code) as [w|] eqn:Ef; [|split; [discriminate|discriminate]].
    pose proof (find_attr_in _ _ _ Ef) as Hin. unfold a_path_attributes in Hin.
    apply attrs_walk_items in Hin as (q & q' & E). apply wire_attr_parse_inv in E.
    assert (Hc : wattr_code w = code).
    { clear -Ef. induction (a_path_attributes b u) as [|x l IH]; cbn [find_attr] in Ef; [discriminate|].
      destruct x as [w'| |]; auto. destruct (N.eqb_spec (wattr_code w') code) as [Heq|Hne]; [inversion Ef; subst; reflexivity|auto]. }
    destruct w as [c f4 tlv|fl c tlv|fl c v0]; try (split; discriminate).
    destruct E as (-> & fl & v & cf & vr & lr & Hn & Hv & Hr & Hval). cbn [wattr_code] in Hc. subst c.
    unfold index. rewrite Hn. cbn [bind]. rewrite Hv. cbn [bind]. split; [discriminate|].
    intros v' H. inversion H; subst. eauto.
  Qed.

  Lemma comm_iter_np fuel k : forall v, (0 < k)%nat -> Nat.modulo (length v) k = 0%nat -> (length v < fuel)%nat ->
    comm_iter fuel k v <> Panic.
  Proof.
    induction fuel as [|fuel IH]; intros v Hk Hm Hf; [lia|]. cbn [comm_iter].
    destruct v as [|x v]; [discriminate|].
    destruct (Nat.ltb_spec (length (x :: v)) k) as [Hlt|Hge].
    - rewrite Nat.mod_small in Hm by exact Hlt. cbn in Hm. discriminate.
    - apply bind_np; [|intros; discriminate]. apply IH; [assumption| |rewrite skipn_length; cbn [length] in *; lia].
      rewrite skipn_length.
      pose proof (Nat.div_mod (length (x :: v)) k ltac:(lia)) as D. rewrite Hm in D.
      assert (Q : (1 <= length (x :: v) / k)%nat).
      { destruct (length (x :: v) / k)%nat eqn:Eq; [|lia]. rewrite Nat.mul_0_r in D. lia. }
      replace (length (x :: v) - k)%nat with ((length (x :: v) / k - 1) * k)%nat.
      * apply Nat.mod_mul. lia.
      * rewrite Nat.mul_sub_distr_r. rewrite (Nat.mul_comm (length (x :: v) / k) k). lia.
  Qed.

  Lemma c02_communities_total_proof code k :
    In (code, k) [(8, 4%nat); (16, 8%nat); (25, 20%nat); (32, 12%nat)] -> a_communities b u code k <> Panic.
  Proof.
    intros Hin. unfold a_communities. destruct (typed_value_spec code) as [Hnp Hspec].
    destruct (typed_value b u code) as [[v|]| |] eqn:E; cbn [bind]; try discriminate; [|contradiction].
    destruct (Hspec v eq_refl) as (cf & vr & lr & Hr & Hval).
    apply bind_np; [|intros; discriminate].
    cbn in Hin. destruct Hin as [H|[H|[H|[H|[]]]]]; inversion H; subst; vm_compute in Hr; inversion Hr; subst;
      cbn [validate] in Hval; apply Nat.eqb_eq in Hval; apply comm_iter_np; try lia; assumption.
  Qed.

  Lemma typed_np {A} code (f : bytes -> res (option A)) :
    (forall v, f v <> Panic) ->
    (let* v := typed_value b u code in match v with Some v => f v | None => Ok None end) <> Panic.
  Proof.
    intros Hf. destruct (typed_value_spec code) as [Hnp _].
    destruct (typed_value b u code) as [[v|]| |]; cbn [bind]; try discriminate; [apply Hf|contradiction].
  Qed.

  Lemma c02_typed_total_proof :
    a_origin b u <> Panic /\ a_aspath b u <> Panic /\ a_as4path b u <> Panic /\ a_aggregator b u <> Panic /\
    (forall c, a_u32 b u c <> Panic).
  Proof.
    split; [|split; [|split; [|split]]].
    - apply (typed_np 1 (fun v => let* (n, _) := parse_u8 (parser_of v) in Ok (Some n))). intros v. np.
    - apply (typed_np 2 (fun v => let* h := wire_hops (pp_four (u_ppi u)) v in Ok (Some h))). intros v. np; try apply wire_hops_np; try (unfold wire_segments; apply segments_np).
    - apply (typed_np 17 (fun v => let* h := wire_hops true v in Ok (Some h))). intros v. np; try apply wire_hops_np; try (unfold wire_segments; apply segments_np).
    - apply (typed_np 7 (fun v => let p := parser_of v in
          let* (asn, p) := (if pp_four (u_ppi u) then parse_be 4 p else parse_be 2 p) in
          let* (addr, _) := parse_be 4 p in Ok (Some (asn, addr)))). intros v. cbv zeta. np.
    - intros c. apply (typed_np c (fun v => let* (n, _) := parse_u32 (parser_of v) in Ok (Some n))). intros v. np.
  Qed.

  (* NLRI accessors *)
  Lemma c02_nlri_total_proof r :
    exists l, conv_iter b u r = Some l /\ ok_then_maybe_err l = true /\ (length l <= length (sub b r))%nat.
  Proof.
    unfold conv_iter. destruct (nlri_iter_total (S (length (sub b r))) Ipv4Unicast (pp_conv (u_ppi u)) (mkP (sub b r) (fst r))) as (l & E & H1 & H2).
    - unfold remaining. cbn. lia.
    - exists l. repeat split; auto.
  Qed.

  Lemma find_unchecked_in l c f tlv : find_unchecked l c = Some (f, tlv) -> exists c', In (f, c', tlv) l.
  Proof.
    induction l as [|[[f' c'] t'] l IH]; cbn [find_unchecked]; [discriminate|].
    destruct (c' =? c); [intros H; inversion H; subst; eexists; now left|intros H; destruct (IH H) as (x & Hx); eexists; right; eassumption].
  Qed.

  Lemma c02_mp_total_proof code ap skip :
    mp_iter b u code ap skip <> Panic /\
    forall fam it, mp_iter b u code ap skip = Ok (Some (fam, it)) ->
      exists l, it = Some l /\ ok_then_maybe_err l = true /\ (length l <= length (attr_bytes b u))%nat.
  Proof.
    unfold mp_iter. destruct (find_unchecked (a_unchecked b u) code) as [[f tlv]|] eqn:Ef; [|split; [discriminate|discriminate]].
    destruct (find_unchecked_in _ _ _ _ Ef) as (c' & Hin). unfold a_unchecked in Hin.
    pose proof (unchecked_walk_tlv _ _ _ _ _ Hin) as Hlen.
    assert (Tv : tlv_value f tlv = Ok (skipn (if has_ext f then 4%nat else 3%nat) tlv)).
    { unfold tlv_value. destruct (Nat.leb_spec (if has_ext f then 4%nat else 3%nat) (length tlv)); [reflexivity|lia]. }
    rewrite Tv. cbn [bind].
    (* the TLV is a piece of the attribute section *)
    assert (Hsub : (length tlv <= length (attr_bytes b u))%nat).
    { clear -Hin.
      assert (G : forall fuel p, In (f, c', tlv) (unchecked_walk fuel p) -> (length tlv <= remaining p)%nat).
      { induction fuel as [|fuel IH]; intros p; cbn [unchecked_walk]; [intros []|].
        destruct (Nat.eqb (remaining p) 0); [intros []|].
        destruct (parse_u8 p) as [[flags p1]| |]; try (intros []).
        destruct (parse_u8 p1) as [[code0 p2]| |]; try (intros []).
        destruct (if has_ext flags then parse_u16 p2 else parse_u8 p2) as [[len p3]| |]; try (intros []).
        destruct (take _ p) as [[t p']| |] eqn:Et; [|intros []|intros []].
        intros [H|H].
        - inversion H; subst. pose proof (take_le _ _ _ _ Et). pose proof (take_ok _ _ _ _ Et) as (_ & L & _). lia.
        - specialize (IH _ H). pose proof (take_le _ _ _ _ Et). lia. }
      specialize (G _ _ Hin). unfold remaining in G. cbn [p_rest] in G. exact G. }
    set (v := skipn (if has_ext f then 4%nat else 3%nat) tlv) in *.
    assert (Lv : (length v <= length tlv)%nat) by (subst v; rewrite skipn_length; lia).
    destruct (mp_family v) as [[fam p]| |] eqn:Em; cbn [bind]; [|split; discriminate|exfalso; eapply mp_family_np; eassumption].
    assert (Lp : (remaining p <= length v)%nat).
    { unfold mp_family, parse_u16 in Em. crunch Em; try discriminate Em. inversion Em; subst. measure. unfold remaining, parser_of in *. cbn [p_rest] in *. lia. }
    destruct skip.
    - destruct (parse_u8 p) as [[nhl p1]| |] eqn:E1; cbn [bind]; [|split; discriminate|exfalso; eapply parse_u8_no_panic; eassumption].
      destruct (advance (N.to_nat nhl) p1) as [p2| |] eqn:E2; cbn [bind]; [|split; discriminate|exfalso; eapply advance_no_panic; eassumption].
      destruct (advance 1 p2) as [p3| |] eqn:E3; cbn [bind]; [|split; discriminate|exfalso; eapply advance_no_panic; eassumption].
      measure. destruct (fam_of fam) as [k|]; (split; [discriminate|]); intros fam' it H; inversion H; subst.
      + destruct (nlri_iter_total (S (remaining p3)) k ap p3 ltac:(lia)) as (l & El & H1 & H2). exists l. repeat split; auto. lia.
      + exists []. repeat split; cbn; lia.
    - destruct (fam_of fam) as [k|]; (split; [discriminate|]); intros fam' it H; inversion H; subst.
      + destruct (nlri_iter_total (S (remaining p)) k ap p ltac:(lia)) as (l & El & H1 & H2). exists l. repeat split; auto. lia.
      + exists []. repeat split; cbn; lia.
  Qed.
  (* the next-hop accessors: mp_next_hop, find_next_hop for any family, has_mp_nlri *)
  Lemma nh_parse_np fam p : nh_parse fam p <> Panic.
  Proof.
    unfold nh_parse. destruct (parse_u8 p) as [[len p1]| |] eqn:E1; cbn [bind]; [|discriminate|exfalso; eapply parse_u8_no_panic; eassumption].
    destruct (fam_of fam) as [k|]; [|discriminate].
    destruct k; repeat match goal with |- context [if ?c then _ else _] => destruct c end; try discriminate;
      repeat match goal with
             | |- context [take ?n ?q] => let E := fresh "Et" in destruct (take n q) as [[? ?]| |] eqn:E; cbn [bind]; try discriminate;
                                          try (exfalso; eapply take_no_panic; eassumption)
             end.
  Qed.

  Lemma c02_next_hop_total_proof :
    a_mp_next_hop b u <> Panic /\ (forall fam, a_find_next_hop b u fam <> Panic).
  Proof.
    assert (Hm : a_mp_next_hop b u <> Panic).
    { unfold a_mp_next_hop. destruct (find_unchecked (a_unchecked b u) 14) as [[f tlv]|] eqn:Ef; [|discriminate].
      destruct (find_unchecked_in _ _ _ _ Ef) as (c' & Hin). unfold a_unchecked in Hin.
      pose proof (unchecked_walk_tlv _ _ _ _ _ Hin) as Hlen.
      assert (Tv : tlv_value f tlv = Ok (skipn (if has_ext f then 4%nat else 3%nat) tlv)).
      { unfold tlv_value. destruct (Nat.leb_spec (if has_ext f then 4%nat else 3%nat) (length tlv)); [reflexivity|lia]. }
      rewrite Tv. cbn [bind].
      destruct (mp_family _) as [[fam p]| |] eqn:Em; cbn [bind]; [|discriminate|exfalso; eapply mp_family_np; eassumption].
      pose proof (nh_parse_np fam p) as Hn. destruct (nh_parse fam p); cbn [bind]; congruence. }
    split; [exact Hm|]. intros fam. unfold a_find_next_hop.
    pose proof (proj2 (proj2 (proj2 (proj2 c02_typed_total_proof))) 3) as Hc. unfold a_conventional_next_hop.
    destruct (a_mp_next_hop b u) as [[[f nh]|]| |]; [| | |congruence];
      repeat match goal with |- context [if ?c then _ else _] => destruct c end; try discriminate;
      destruct (a_u32 b u 3) as [[x|]| |]; try discriminate; congruence.
  Qed.
End Acc.
