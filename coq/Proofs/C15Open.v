(* C15 / C03: an OPEN accepted by the parser-based OpenMessage::parse (the one BMP Peer Up uses) is an OPEN accepted by
   OpenMessage::from_octets - so every accessor theorem of C03 applies to the OPENs embedded in an accepted Peer Up. *)
From Coq Require Import List Arith NArith Bool Lia.
From RC Require Import Base.Res Base.Wire Proofs.WireProofs Model.Open Model.Negotiate Gen.CapRules Model.OpenMsg Model.Update
  Proofs.UpdateTotal Proofs.C03Proofs Model.Bmp Proofs.C15Proofs.
Import ListNotations.
Local Open Scope N_scope.
Local Arguments N.of_nat : simpl never.
Local Arguments Nat.ltb : simpl never.
Local Arguments Nat.leb : simpl never.

Lemma app_eq_len {A} : forall (a c b d : list A), a ++ b = c ++ d -> length a = length c -> a = c /\ b = d.
Proof.
  induction a as [|x a IH]; intros [|y c] b d H L; cbn in *; try discriminate; [auto|].
  inversion H; subst. destruct (IH c b d H2 ltac:(lia)) as [-> ->]. auto.
Qed.

Lemma u8_inv p x p' : parse_u8 p = Ok (x, p') -> p_rest p = x :: p_rest p' /\ p_pos p' = S (p_pos p).
Proof.
  unfold parse_u8. destruct (p_rest p) as [|y r]; [discriminate|]. intros H. apply Ok_inj in H. inversion H; subst. auto.
Qed.

(* Parameter::parse accepts an encoding of one ok parameter *)
Lemma param_parse_inv p len p' : param_parse p = Ok (len, p') ->
  exists prm, p_rest p = enc_param prm ++ p_rest p' /\ param_ok prm /\ length (enc_param prm) = (2 + len)%nat /\
              p_pos p' = (p_pos p + (2 + len))%nat.
Proof.
  unfold param_parse. intros H.
  destruct (parse_u8 p) as [[t p1]| |] eqn:E1; cbn [bind] in H; try discriminate.
  destruct (parse_u8 p1) as [[l p2]| |] eqn:E2; cbn [bind] in H; try discriminate.
  destruct (u8_inv _ _ _ E1) as (R1 & _). destruct (u8_inv _ _ _ E2) as (R2 & _).
  destruct (N.eqb_spec t 2) as [Et|Et].
  - destruct (parse_parser (N.to_nat l) p2) as [[cp q]| |] eqn:E3; cbn [bind] in H; try discriminate.
    destruct (caps_walk (S (remaining cp)) cp) as [cs| |] eqn:E4; cbn [bind] in H; try discriminate.
    destruct (take (2 + N.to_nat l) p) as [[w q']| |] eqn:E5; cbn [bind] in H; try discriminate.
    apply Ok_inj in H. inversion H; subst len q'. clear H.
    unfold parse_parser in E3. destruct (take (N.to_nat l) p2) as [[v q2]| |] eqn:E6; cbn [bind] in E3; try discriminate.
    apply Ok_inj in E3. inversion E3; subst cp q. clear E3.
    apply take_ok in E5 as (A5 & B5 & C5). apply take_ok in E6 as (A6 & B6 & _).
    destruct (caps_walk_inv _ _ _ E4) as (Cv & Ok_cs). cbn [p_rest] in Cv.
    rewrite R1, R2, A6 in A5.
    destruct (app_eq_len (t :: l :: v) w (p_rest q2) (p_rest p') A5 ltac:(cbn [length]; lia)) as [Ew Er].
    exists (PCaps cs). split; [|split; [exact Ok_cs|split; [|exact C5]]].
    + rewrite R1, R2, A6, Er. unfold enc_param. cbn [param_tv fst snd List.app]. rewrite <- Cv, B6, N2Nat.id, Et. reflexivity.
    + unfold enc_param. cbn [param_tv fst snd]. rewrite app_length. cbn [length]. rewrite <- Cv, B6. reflexivity.
  - destruct (take (2 + N.to_nat l) p) as [[w q']| |] eqn:E5; cbn [bind] in H; try discriminate.
    apply Ok_inj in H. inversion H; subst len q'. clear H.
    apply take_ok in E5 as (A5 & B5 & C5). rewrite R1, R2 in A5.
    destruct w as [|w0 [|w1 v]]; cbn [length] in B5; try lia. cbn [List.app] in A5. inversion A5; subst w0 w1.
    exists (PRaw t v). split; [|split; [exact Et|split; [|exact C5]]].
    + rewrite R1, R2, H2. unfold enc_param. cbn [param_tv fst snd List.app]. replace (length v) with (N.to_nat l) by lia. now rewrite N2Nat.id.
    + unfold enc_param. cbn [param_tv fst snd]. rewrite app_length. cbn [length]. lia.
Qed.

Lemma open_params_inv : forall fuel left p p', open_params fuel left p = Ok p' ->
  exists ps, p_rest p = flat_map enc_param ps ++ p_rest p' /\ Forall param_ok ps /\ length (flat_map enc_param ps) = left /\
             p_pos p' = (p_pos p + left)%nat.
Proof.
  induction fuel as [|f IH]; intros left p p' H; cbn [open_params] in H; [discriminate|].
  destruct (Nat.eqb_spec left 0) as [E0|N0].
  - apply Ok_inj in H. subst p' left. exists []. cbn. repeat split; auto.
  - destruct (param_parse p) as [[len q]| |] eqn:Ep; cbn [bind] in H; try discriminate.
    destruct (Nat.ltb left (2 + len)) eqn:El; [discriminate|]. apply Nat.ltb_ge in El.
    destruct (param_parse_inv _ _ _ Ep) as (prm & R & Hok & L & P).
    destruct (IH _ _ _ H) as (ps & R' & Hoks & L' & P').
    exists (prm :: ps). cbn [flat_map]. split; [rewrite R, R', <- app_assoc; reflexivity|]. split; [constructor; assumption|].
    split; [rewrite app_length, L, L'; lia|lia].
Qed.

Lemma open_parse_inv p o p' : open_parse p = Ok (o, p') ->
  exists hi lo t ver a1 a2 h1 h2 id ps,
    o = open_bytes hi lo t ver a1 a2 h1 h2 id ps /\ length id = 4%nat /\ Forall param_ok ps /\ N.to_nat (hi * 256 + lo) = length o.
Proof.
  unfold open_parse, header_parse. intros H.
  destruct (marker_check p) as [pm| |] eqn:Em; cbn [bind] in H; try discriminate.
  destruct (parse_u16 pm) as [[len pl]| |] eqn:El; cbn [bind] in H; try discriminate.
  destruct (parse_u8 pl) as [[typ p1]| |] eqn:Et; cbn [bind] in H; try discriminate.
  destruct (advance 9 p1) as [p2| |] eqn:Ea; cbn [bind] in H; try discriminate.
  destruct (parse_u8 p2) as [[opl p3]| |] eqn:Eo; cbn [bind] in H; try discriminate.
  destruct (Nat.ltb (remaining p3) (N.to_nat opl)); [discriminate|].
  destruct (open_params (S (remaining p3)) (N.to_nat opl) p3) as [p4| |] eqn:Ep; cbn [bind] in H; try discriminate.
  destruct (Nat.eqb_spec (p_pos p4 - p_pos p) (N.to_nat len)) as [Elen|]; [|discriminate]. cbn [negb] in H.
  (* marker *)
  unfold marker_check in Em. destruct (take 16 p) as [[m q]| |] eqn:Tm; cbn [bind] in Em; try discriminate.
  destruct (beq_bytes m marker) eqn:Bm; [|discriminate]. apply Ok_inj in Em. subst q. apply beq_bytes_true in Bm. subst m.
  apply take_ok in Tm as (Am & _ & Pm).
  (* length field *)
  unfold parse_u16, parse_be in El. destruct (take 2 pm) as [[lb q]| |] eqn:Tl; cbn [bind] in El; try discriminate.
  apply Ok_inj in El. inversion El; subst len q. clear El. apply take_ok in Tl as (Al & Bl & Pl).
  destruct lb as [|hi [|lo [|? ?]]]; cbn [length] in Bl; try lia.
  destruct (u8_inv _ _ _ Et) as (At & Pt).
  unfold advance in Ea. destruct (take 9 p1) as [[f9 q]| |] eqn:T9; cbn [bind] in Ea; try discriminate.
  apply Ok_inj in Ea. subst q. apply take_ok in T9 as (A9 & B9 & P9).
  destruct f9 as [|ver [|a1 [|a2 [|h1 [|h2 id]]]]]; cbn [length] in B9; try lia.
  destruct (u8_inv _ _ _ Eo) as (Ao & Po).
  destruct (open_params_inv _ _ _ _ Ep) as (ps & Ap & Hok & Lp & Pp).
  apply take_ok in H as (Ah & Bh & _).
  exists hi, lo, typ, ver, a1, a2, h1, h2, id, ps.
  assert (Hlen : N.to_nat (unbe [hi; lo]) = (16 + 2 + 1 + 9 + 1 + N.to_nat opl)%nat) by (rewrite <- Elen; lia).
  assert (Hfull : p_rest p = open_bytes hi lo typ ver a1 a2 h1 h2 id ps ++ p_rest p4).
  { unfold open_bytes. rewrite Am, Al, At, A9, Ao, Ap. rewrite Lp, N2Nat.id.
    repeat (cbn [List.app]; rewrite <- ?app_assoc). reflexivity. }
  assert (Lob : length (open_bytes hi lo typ ver a1 a2 h1 h2 id ps) = N.to_nat (unbe [hi; lo])).
  { unfold open_bytes. rewrite !app_length. cbn [length]. rewrite Lp, Hlen. unfold marker. rewrite repeat_length. cbn [length] in B9. lia. }
  rewrite Hfull in Ah.
  destruct (app_eq_len _ _ _ _ Ah ltac:(rewrite Lob, Bh; reflexivity)) as [Eo' _].
  split; [symmetry; exact Eo'|]. split; [cbn [length] in B9; lia|]. split; [exact Hok|].
  rewrite <- Eo', Lob. reflexivity.
Qed.

Lemma open_parse_checked p o p' : open_parse p = Ok (o, p') -> open_check o = Ok tt.
Proof.
  intros H. destruct (open_parse_inv p o p' H) as (hi & lo & t & ver & a1 & a2 & h1 & h2 & id & ps & -> & Hid & Hok & Hl).
  apply open_check_enc; assumption.
Qed.

(* the two OPENs a Peer Up notification hands out have passed the OPEN check: every accessor theorem of C03 applies to them *)
Lemma c15_embedded_opens_checked_proof b s r p : a_pu_opens b = Ok (s, r, p) -> open_check s = Ok tt /\ open_check r = Ok tt.
Proof.
  unfold a_pu_opens. intros H.
  destruct (advance (COFF + 20) (parser_of b)) as [p0| |]; cbn [unwrap_res bind] in H; try discriminate.
  destruct (open_parse p0) as [[s' p1]| |] eqn:E1; cbn [unwrap_res bind] in H; try discriminate.
  destruct (open_parse p1) as [[r' p2]| |] eqn:E2; cbn [unwrap_res bind] in H; try discriminate.
  apply Ok_inj in H. inversion H; subst s' r' p2.
  split; [exact (open_parse_checked _ _ _ E1)|exact (open_parse_checked _ _ _ E2)].
Qed.

(* ---- and conversely: every OPEN that passes OpenMessage's own check is accepted by the parser-based parse wherever it stands,
   so the Peer Up faithful-decode theorem applies to every pair of checked OPENs *)
Lemma param_parse_enc prm rest pos : param_ok prm ->
  param_parse (mkP (enc_param prm ++ rest) pos) = Ok (length (snd (param_tv prm)), mkP rest (pos + (2 + length (snd (param_tv prm))))).
Proof.
  intros Hok. unfold param_parse, enc_param. cbn [List.app]. rewrite parse_u8_app. cbn [bind]. rewrite parse_u8_app. cbn [bind].
  rewrite Nat2N.id.
  assert (Htake : take (2 + length (snd (param_tv prm))) (mkP (fst (param_tv prm) :: N.of_nat (length (snd (param_tv prm))) :: snd (param_tv prm) ++ rest) pos)
                  = Ok (fst (param_tv prm) :: N.of_nat (length (snd (param_tv prm))) :: snd (param_tv prm),
                        mkP rest (pos + (2 + length (snd (param_tv prm)))))).
  { change (fst (param_tv prm) :: N.of_nat (length (snd (param_tv prm))) :: snd (param_tv prm) ++ rest)
      with ((fst (param_tv prm) :: N.of_nat (length (snd (param_tv prm))) :: snd (param_tv prm)) ++ rest).
    apply take_app'. reflexivity. }
  destruct prm as [cs|t v]; cbn [param_tv fst snd] in *.
  - cbn [N.eqb Pos.eqb]. unfold parse_parser. rewrite take_app' by reflexivity. cbn [bind p_pos].
    destruct (caps_walk_enc cs (S (remaining (mkP (flat_map enc_cap cs) (S (S pos))))) (S (S pos)) Hok) as [W _].
    { unfold remaining. cbn [p_rest]. pose proof (caps_len cs). lia. }
    rewrite W. cbn [bind]. rewrite Htake. reflexivity.
  - destruct (N.eqb_spec t 2) as [E|E]; [contradiction|]. rewrite Htake. reflexivity.
Qed.

Lemma open_params_enc : forall ps fuel rest pos, Forall param_ok ps -> (length ps < fuel)%nat ->
  open_params fuel (length (flat_map enc_param ps)) (mkP (flat_map enc_param ps ++ rest) pos) =
  Ok (mkP rest (pos + length (flat_map enc_param ps))).
Proof.
  induction ps as [|prm ps IH]; intros fuel rest pos Hok Hf; (destruct fuel as [|f]; [lia|]); cbn [open_params flat_map length].
  - cbn [Nat.eqb List.app]. now rewrite Nat.add_0_r.
  - inversion Hok as [|? ? Hp Hps]; subst. rewrite app_length, enc_param_len.
    set (lv := length (snd (param_tv prm))). set (lr := length (flat_map enc_param ps)).
    assert (Hz : Nat.eqb (2 + lv + lr) 0 = false) by (apply Nat.eqb_neq; lia). rewrite Hz.
    rewrite <- app_assoc, (param_parse_enc prm _ pos Hp). cbn [bind]. fold lv.
    assert (Hlt : Nat.ltb (2 + lv + lr) (2 + lv) = false) by (apply Nat.ltb_ge; lia). rewrite Hlt.
    replace (2 + lv + lr - (2 + lv))%nat with lr by lia. unfold lr.
    rewrite IH by (try exact Hps; cbn in Hf; lia). f_equal. f_equal. unfold lv. lia.
Qed.

Lemma open_bytes_length hi lo t ver a1 a2 h1 h2 id ps : length id = 4%nat ->
  length (open_bytes hi lo t ver a1 a2 h1 h2 id ps) = (29 + length (flat_map enc_param ps))%nat.
Proof. intros Hid. unfold open_bytes, marker. rewrite !app_length, repeat_length, Hid. cbn [length]. lia. Qed.

Lemma open_ok_of_check o : open_check o = Ok tt -> open_ok o.
Proof.
  intros H rest pos.
  destruct (open_accept_struct o H) as (hi & lo & t & ver & a1 & a2 & h1 & h2 & id & ps & -> & Hid & Hok & Hl).
  pose proof (open_bytes_length hi lo t ver a1 a2 h1 h2 id ps Hid) as L. rewrite L in Hl.
  unfold open_parse, header_parse, open_bytes. rewrite <- !app_assoc. rewrite marker_check_app'. cbn [bind].
  cbn [List.app]. unfold parse_u16, parse_be.
  change (hi :: lo :: t :: ver :: a1 :: a2 :: h1 :: h2 :: id ++ N.of_nat (length (flat_map enc_param ps)) :: flat_map enc_param ps ++ rest)
    with ([hi; lo] ++ t :: ver :: a1 :: a2 :: h1 :: h2 :: id ++ N.of_nat (length (flat_map enc_param ps)) :: flat_map enc_param ps ++ rest).
  rewrite take_app' by reflexivity. cbn [bind]. rewrite parse_u8_app. cbn [bind].
  change (ver :: a1 :: a2 :: h1 :: h2 :: id ++ N.of_nat (length (flat_map enc_param ps)) :: flat_map enc_param ps ++ rest)
    with (([ver; a1; a2; h1; h2] ++ id) ++ N.of_nat (length (flat_map enc_param ps)) :: flat_map enc_param ps ++ rest).
  rewrite adv_app by (rewrite app_length, Hid; reflexivity). cbn [bind]. rewrite parse_u8_app. cbn [bind]. rewrite Nat2N.id.
  unfold remaining. cbn [p_rest]. rewrite app_length.
  assert (Hge : Nat.ltb (length (flat_map enc_param ps) + length rest) (length (flat_map enc_param ps)) = false) by (apply Nat.ltb_ge; lia).
  rewrite Hge.
  rewrite open_params_enc by (try exact Hok; pose proof (params_len ps); lia). cbn [bind p_pos].
  change (unbe [hi; lo]) with ((0 * 256 + hi) * 256 + lo). replace ((0 * 256 + hi) * 256 + lo) with (hi * 256 + lo) by lia.
  assert (Heq : Nat.eqb (S (S (pos + 16 + 2) + 9) + length (flat_map enc_param ps) - pos) (N.to_nat (hi * 256 + lo)) = true)
    by (apply Nat.eqb_eq; lia).
  rewrite Heq. cbn [negb]. rewrite Hl.
  replace (marker ++ [hi; lo] ++ t :: ([ver; a1; a2; h1; h2] ++ id) ++ N.of_nat (length (flat_map enc_param ps)) :: flat_map enc_param ps ++ rest)
    with (open_bytes hi lo t ver a1 a2 h1 h2 id ps ++ rest)
    by (unfold open_bytes; repeat (cbn [List.app]; rewrite <- ?app_assoc); reflexivity).
  rewrite <- L. apply take_app.
Qed.
