(* Instantiation of the selection theorems for eligible routes under SkipMed. *)
From Coq Require Import List NArith Bool Lia Permutation.
From RC Require Import Base.Res Base.Lex Model.Select Proofs.LexProofs Proofs.C10Proofs Proofs.C11Proofs.
Import ListNotations.
Open Scope N_scope.

Definition eroute := { r : route | eligible r = true }.
Definition e_lt (a b : eroute) : bool := route_lt SkipMed (proj1_sig a) (proj1_sig b).
Definition e_ceq (a b : eroute) : bool := content_eqb (proj1_sig a) (proj1_sig b).

Lemma opt_eqb_eq a b : Select.opt_eqb a b = true -> a = b.
Proof. destruct a, b; cbn; try discriminate; auto. intros H. apply N.eqb_eq in H. now subst. Qed.
Lemma opt_eqb_refl a : Select.opt_eqb a a = true.
Proof. destruct a; cbn; auto. apply N.eqb_refl. Qed.

Lemma hops_eqb_eq a b : hops_eqb a b = true -> a = b.
Proof.
  revert b. induction a as [|x a IH]; destruct b as [|y b]; cbn; try discriminate; auto.
  intros H. apply andb_true_iff in H as [H1 H2]. f_equal; [|now apply IH].
  destruct x, y; cbn in H1; try discriminate; auto. apply N.eqb_eq in H1. now subst.
Qed.
Lemma hops_eqb_refl a : hops_eqb a a = true.
Proof. induction a as [|x a IH]; cbn; auto. rewrite IH. destruct x; cbn; auto. now rewrite N.eqb_refl. Qed.

Lemma content_eqb_eq a b : content_eqb a b = true -> a = b.
Proof.
  unfold content_eqb.
  destruct a as [d1 i1 la1 id1 [pv1 pa1] o1 p1 lp1 m1 og1 cl1 rs1].
  destruct b as [d2 i2 la2 id2 [pv2 pa2] o2 p2 lp2 m2 og2 cl2 rs2]. cbn.
  rewrite !andb_true_iff. intros H. repeat match goal with H : _ /\ _ |- _ => destruct H end.
  repeat match goal with
         | H : Select.opt_eqb _ _ = true |- _ => apply opt_eqb_eq in H
         | H : Bool.eqb _ _ = true |- _ => apply eqb_prop in H
         | H : (_ =? _) = true |- _ => apply N.eqb_eq in H
         end.
  subst.
  assert (p1 = p2) as ->; [|reflexivity].
  destruct p1, p2; try discriminate; auto. f_equal. now apply hops_eqb_eq.
Qed.

Lemma content_eqb_refl a : content_eqb a a = true.
Proof.
  unfold content_eqb. rewrite !opt_eqb_refl, !eqb_reflx, !N.eqb_refl. cbn.
  destruct (r_path a); [now rewrite hops_eqb_refl|reflexivity].
Qed.

Lemma e_lt_cmp (a b : eroute) : e_lt a b = true <-> cmp_route SkipMed (proj1_sig a) (proj1_sig b) = Ok Lt.
Proof.
  unfold e_lt, route_lt. destruct (cmp_route _ _ _) as [[]| |]; split; congruence.
Qed.

Lemma e_cmp_total (a b : eroute) : exists c, cmp_route SkipMed (proj1_sig a) (proj1_sig b) = Ok c.
Proof. destruct a as [a Ea], b as [b Eb]. cbn. rewrite c10_ref_proof by assumption. eauto. Qed.

Lemma e_lt_false (a b : eroute) : e_lt a b = false <->
  (cmp_route SkipMed (proj1_sig a) (proj1_sig b) = Ok Eq \/ cmp_route SkipMed (proj1_sig a) (proj1_sig b) = Ok Gt).
Proof.
  unfold e_lt, route_lt. destruct (e_cmp_total a b) as [c ->]. destruct c; split; intros H; try discriminate; auto;
    destruct H; discriminate.
Qed.

Lemma e_lt_irrefl x : e_lt x x = false.
Proof. destruct x as [x Ex]. unfold e_lt, route_lt. cbn. now rewrite skipmed_refl. Qed.

Lemma e_lt_trans x y z : e_lt x y = true -> e_lt y z = true -> e_lt x z = true.
Proof.
  rewrite !e_lt_cmp. destruct x as [x Ex], y as [y Ey], z as [z Ez]. cbn. now apply skipmed_trans.
Qed.

Lemma e_tie_eq (x y : eroute) : e_lt x y = false -> e_lt y x = false -> cmp_route SkipMed (proj1_sig x) (proj1_sig y) = Ok Eq.
Proof.
  intros H1 H2. apply e_lt_false in H1 as [H1|H1]; [assumption|].
  destruct x as [x Ex], y as [y Ey]. cbn in *.
  destruct (c10_antisym_proof SkipMed x y Ex Ey) as (c & A & B). rewrite A in H1. injection H1 as ->.
  cbn in B. unfold e_lt, route_lt in H2. cbn in H2. rewrite B in H2. discriminate.
Qed.

Lemma e_tie_trans x y z :
  e_lt x y = false -> e_lt y x = false -> e_lt y z = false -> e_lt z y = false ->
  e_lt x z = false /\ e_lt z x = false.
Proof.
  intros H1 H2 H3 H4. pose proof (e_tie_eq _ _ H1 H2) as A. pose proof (e_tie_eq _ _ H3 H4) as B.
  destruct x as [x Ex], y as [y Ey], z as [z Ez]. cbn in *.
  pose proof (skipmed_incomp_trans x y z Ex Ey Ez A B) as C.
  destruct (c10_antisym_proof SkipMed x z Ex Ez) as (c & D & E). rewrite C in D. injection D as <-. cbn in E.
  unfold e_lt, route_lt. cbn. rewrite C, E. auto.
Qed.

Lemma e_ceq_refl x : e_ceq x x = true.
Proof. apply content_eqb_refl. Qed.
Lemma e_ceq_sym x y : e_ceq x y = e_ceq y x.
Proof.
  unfold e_ceq. destruct (content_eqb (proj1_sig x) (proj1_sig y)) eqn:E.
  - apply content_eqb_eq in E. rewrite E. symmetry. apply content_eqb_refl.
  - destruct (content_eqb (proj1_sig y) (proj1_sig x)) eqn:E2; [|reflexivity].
    apply content_eqb_eq in E2. rewrite E2, content_eqb_refl in E. discriminate.
Qed.
Lemma e_ceq_trans x y z : e_ceq x y = true -> e_ceq y z = true -> e_ceq x z = true.
Proof. unfold e_ceq. intros H1 H2. apply content_eqb_eq in H1, H2. rewrite H1, H2. apply content_eqb_refl. Qed.
Lemma e_ceq_tie x y : e_ceq x y = true -> e_lt x y = false.
Proof.
  unfold e_ceq. intros H. apply content_eqb_eq in H. unfold e_lt. rewrite H.
  destruct y as [y Ey]. unfold route_lt. cbn. now rewrite skipmed_refl.
Qed.
