(* C16: MRT - the iterators yield what a well-formed file contains; every interleaving is a permutation; truncation *)
From Coq Require Import List Arith NArith Bool Lia Permutation.
From RC Require Import Base.Res Base.Wire Proofs.WireProofs Model.Nlri Proofs.NlriProofs Model.Mrt.
Import ListNotations.
Local Open Scope N_scope.
Local Arguments N.of_nat : simpl never.
Local Arguments Nat.ltb : simpl never.
Local Arguments Nat.leb : simpl never.

(* ================================================================ the parallel iterator: any interleaving is a permutation *)
Lemma concat_all_nil {A} (ls : list (list A)) : Forall (fun l => l = []) ls -> concat ls = [].
Proof. induction 1 as [|l ls Hl _ IH]; [reflexivity|]. subst l. exact IH. Qed.

Lemma interleave_perm {A} (ls : list (list A)) ys : interleave ls ys -> Permutation ys (concat ls).
Proof.
  induction 1 as [ls Hn|l1 x xs l2 ys _ IH].
  - rewrite (concat_all_nil ls Hn). constructor.
  - rewrite concat_app in *. cbn [concat] in *. cbn [List.app].
    apply Permutation_cons_app. exact IH.
Qed.

(* the sequential order is one of the interleavings *)
Lemma interleave_drain {A} (l : list A) : forall pre post ys, interleave (pre ++ [] :: post) ys -> interleave (pre ++ l :: post) (l ++ ys).
Proof.
  induction l as [|x l IH]; intros pre post ys H; [exact H|].
  cbn [List.app]. apply il_step. apply IH. exact H.
Qed.

Lemma interleave_sequential {A} (ls : list (list A)) : interleave ls (concat ls).
Proof.
  assert (G : forall done, Forall (fun l : list A => l = []) done -> interleave (done ++ ls) (concat ls)).
  { induction ls as [|l ls IH]; intros done Hd.
    - rewrite app_nil_r. cbn. now constructor.
    - cbn [concat]. apply interleave_drain. replace (done ++ [] :: ls) with ((done ++ [[]]) ++ ls) by (now rewrite <- app_assoc).
      apply IH. apply Forall_app. split; [exact Hd|repeat constructor]. }
  exact (G [] (Forall_nil _)).
Qed.

(* ================================================================ forward lemmas on the reference encoder *)
Lemma adv_app a r pos n : n = length a -> advance n (mkP (a ++ r) pos) = Ok (mkP r (pos + n)).
Proof. intros ->. unfold advance. rewrite take_app. reflexivity. Qed.

Lemma be2 n l pos : n < 65536 -> parse_u16 (mkP (be 2 n ++ l) pos) = Ok (n, mkP l (pos + 2)).
Proof. intros H. apply (parse_be_app 2 n l pos). exact H. Qed.
Lemma be4 n l pos : n < 2 ^ 32 -> parse_be 4 (mkP (be 4 n ++ l) pos) = Ok (n, mkP l (pos + 4)).
Proof. intros H. apply (parse_be_app 4 n l pos). exact H. Qed.

Lemma pparser_app a r pos : parse_parser (length a) (mkP (a ++ r) pos) = Ok (mkP a pos, mkP r (pos + length a)).
Proof. unfold parse_parser. rewrite take_app. reflexivity. Qed.

Lemma enc_rec_length ts ty sub body : length (enc_rec ts ty sub body) = (12 + length body)%nat.
Proof. unfold enc_rec. rewrite !app_length, !be_length. lia. Qed.
Lemma enc_rec_et_length ts sub mus body : length (enc_rec_et ts sub mus body) = (16 + length body)%nat.
Proof. unfold enc_rec_et. rewrite !app_length, !be_length. lia. Qed.

Lemma header_enc ts ty sub body rest pos : ts < 2 ^ 32 -> (ty = 13 \/ ty = 16) -> sub < 65536 -> N.of_nat (length body) < 2 ^ 32 ->
  common_header_parse (mkP (enc_rec ts ty sub body ++ rest) pos) =
  Ok (mkHdr ts ty sub (N.of_nat (length body)) 0 (mkP body (pos + 12)), mkP rest (pos + 12 + length body)).
Proof.
  intros Hts Hty Hsub Hl. unfold common_header_parse, enc_rec. rewrite <- !app_assoc.
  rewrite be4 by exact Hts. cbn [bind]. rewrite be2 by (destruct Hty; subst; reflexivity). cbn [bind].
  assert (E1 : negb ((ty =? 13) || (ty =? 16) || (ty =? 17)) = false) by (destruct Hty; subst; reflexivity). rewrite E1.
  rewrite be2 by exact Hsub. cbn [bind]. rewrite be4 by exact Hl. cbn [bind].
  assert (E2 : (ty =? 17) = false) by (destruct Hty; subst; reflexivity). rewrite E2. cbn [bind fst snd].
  unfold remaining. cbn [p_rest]. rewrite app_length.
  assert (E3 : (N.of_nat (length body + length rest) <? N.of_nat (length body)) = false) by (apply N.ltb_ge; lia). rewrite E3.
  rewrite Nat2N.id, pparser_app. cbn [bind]. replace (pos + 4 + 2 + 2 + 4)%nat with (pos + 12)%nat by lia. reflexivity.
Qed.

Lemma header_enc_et ts sub mus body rest pos : ts < 2 ^ 32 -> sub < 65536 -> mus < 2 ^ 32 -> N.of_nat (4 + length body) < 2 ^ 32 ->
  common_header_parse (mkP (enc_rec_et ts sub mus body ++ rest) pos) =
  Ok (mkHdr ts 17 sub (N.of_nat (4 + length body)) mus (mkP body (pos + 16)), mkP rest (pos + 16 + length body)).
Proof.
  intros Hts Hsub Hmus Hl. unfold common_header_parse, enc_rec_et. rewrite <- !app_assoc.
  rewrite be4 by exact Hts. cbn [bind]. rewrite be2 by reflexivity. cbn [bind]. cbn [N.eqb Pos.eqb orb negb].
  rewrite be2 by exact Hsub. cbn [bind]. rewrite be4 by exact Hl. cbn [bind]. rewrite be4 by exact Hmus. cbn [bind].
  assert (E : (N.of_nat (4 + length body) <? 4) = false) by (apply N.ltb_ge; lia). rewrite E. cbn [bind fst snd].
  replace (N.of_nat (4 + length body) - 4) with (N.of_nat (length body)) by lia.
  unfold remaining. cbn [p_rest]. rewrite app_length.
  assert (E3 : (N.of_nat (length body + length rest) <? N.of_nat (length body)) = false) by (apply N.ltb_ge; lia). rewrite E3.
  rewrite Nat2N.id, pparser_app. cbn [bind]. replace (pos + 4 + 2 + 2 + 4 + 4)%nat with (pos + 16)%nat by lia. reflexivity.
Qed.

(* ---- peer index table *)
Lemma enc_peer_length pe as4 : peer_wf (pe, as4) -> length (enc_peer pe as4) = (5 + (if pe_v6 pe then 16 else 4) + (if as4 then 4 else 2))%nat.
Proof.
  intros (H1 & H2 & _). unfold enc_peer. rewrite !app_length, H1, H2. destruct as4; rewrite be_length; cbn; lia.
Qed.

Lemma peer_parse_enc pe as4 rest pos : peer_wf (pe, as4) ->
  peer_parse (mkP (enc_peer pe as4 ++ rest) pos) = Ok (pe, mkP rest (pos + length (enc_peer pe as4))).
Proof.
  intros Hw. pose proof (enc_peer_length pe as4 Hw) as L. destruct Hw as (H1 & H2 & H3).
  destruct pe as [id v6 a asn]. cbn [pe_bgp_id pe_v6 pe_addr pe_asn] in *.
  unfold peer_parse, enc_peer. cbn [pe_bgp_id pe_v6 pe_addr pe_asn]. rewrite <- !app_assoc. cbn [List.app]. rewrite parse_u8_app. cbn [bind].
  rewrite take_app' by (symmetry; exact H1). cbn [bind].
  assert (Ev : ((if v6 then 1 else 0) + (if as4 then 2 else 0)) mod 2 =? 1 = v6) by (destruct v6, as4; reflexivity).
  assert (Ea : (((if v6 then 1 else 0) + (if as4 then 2 else 0)) / 2) mod 2 =? 1 = as4) by (destruct v6, as4; reflexivity).
  rewrite Ev, Ea. rewrite take_app' by (symmetry; exact H2). cbn [bind].
  unfold enc_peer in L. cbn [pe_bgp_id pe_v6 pe_addr pe_asn] in L.
  destruct as4.
  - rewrite be4 by exact H3. cbn [bind]. cbn [List.app] in L. rewrite L. f_equal. f_equal. f_equal. destruct v6; lia.
  - rewrite be2 by exact H3. cbn [bind]. cbn [List.app] in L. rewrite L. f_equal. f_equal. f_equal. destruct v6; lia.
Qed.

Definition enc_peers (l : list (peer * bool)) : bytes := flat_map (fun pa => enc_peer (fst pa) (snd pa)) l.

Lemma enc_peers_count l : Forall peer_wf l -> (length l <= length (enc_peers l))%nat.
Proof.
  induction 1 as [|[pe as4] l Hp _ IH]; [cbn; lia|]. cbn [enc_peers flat_map length fst snd]. rewrite app_length.
  rewrite (enc_peer_length pe as4 Hp). fold (enc_peers l). lia.
Qed.

Lemma peers_loop_enc : forall l fuel pos, Forall peer_wf l -> (length l < fuel)%nat ->
  peers_loop fuel (mkP (enc_peers l) pos) = Ok (map fst l).
Proof.
  induction l as [|[pe as4] l IH]; intros fuel pos Hw Hf; (destruct fuel as [|f]; [lia|]); cbn [peers_loop].
  - reflexivity.
  - inversion Hw as [|? ? Hp Hw']; subst. unfold remaining. cbn [p_rest enc_peers flat_map fst snd]. fold (enc_peers l).
    rewrite app_length, (enc_peer_length pe as4 Hp).
    assert (Hz : Nat.eqb (5 + (if pe_v6 pe then 16 else 4) + (if as4 then 4 else 2) + length (enc_peers l)) 0 = false) by (apply Nat.eqb_neq; lia).
    rewrite Hz, (peer_parse_enc pe as4 _ pos Hp). cbn [unwrap_res bind]. rewrite IH by (try exact Hw'; cbn in Hf; lia). reflexivity.
Qed.

Lemma extract_enc ts collector view peers rest pos :
  ts < 2 ^ 32 -> length collector = 4%nat -> wf_bytes collector -> N.of_nat (length view) < 65536 -> N.of_nat (length peers) < 65536 ->
  Forall peer_wf peers ->
  let body := collector ++ be 2 (N.of_nat (length view)) ++ view ++ be 2 (N.of_nat (length peers)) ++ enc_peers peers in
  N.of_nat (length body) < 2 ^ 32 ->
  extract_peer_index_table (mkP (enc_pit ts collector view peers ++ rest) pos) =
  Ok (map fst peers, mkP rest (pos + 12 + length body)).
Proof.
  intros Hts Lc Wc Hv Hn Hw body Hl. unfold extract_peer_index_table, enc_pit. fold (enc_peers peers). fold body.
  rewrite header_enc by (auto; reflexivity). cbn [bind h_type h_sub h_msg]. cbn [N.eqb Pos.eqb negb].
  unfold body. rewrite <- (be_unbe collector Wc), Lc at 1. rewrite be4 by (pose proof (unbe_bound collector Wc) as B; rewrite Lc in B; exact B).
  cbn [bind]. rewrite be2 by exact Hv. cbn [bind].
  assert (Hview : (if 0 <? N.of_nat (length view) then advance (N.to_nat (N.of_nat (length view))) (mkP (view ++ be 2 (N.of_nat (length peers)) ++ enc_peers peers) (pos + 12 + 4 + 2))
                   else Ok (mkP (view ++ be 2 (N.of_nat (length peers)) ++ enc_peers peers) (pos + 12 + 4 + 2)))
                  = Ok (mkP (be 2 (N.of_nat (length peers)) ++ enc_peers peers) (pos + 12 + 4 + 2 + length view))).
  { destruct (0 <? N.of_nat (length view)) eqn:E.
    - rewrite Nat2N.id, adv_app by reflexivity. reflexivity.
    - apply N.ltb_ge in E. assert (length view = 0%nat) by lia. destruct view; [|discriminate]. cbn [List.app length]. now rewrite Nat.add_0_r. }
  rewrite Hview. cbn [bind]. rewrite be2 by exact Hn. cbn [bind].
  rewrite peers_loop_enc by (try exact Hw; unfold remaining; cbn [p_rest]; pose proof (enc_peers_count peers Hw); lia). cbn [bind].
  rewrite map_length, Nat2N.id, Nat.eqb_refl. cbn [negb]. reflexivity.
Qed.

(* ---- RIB tables *)
Definition no_peer : peer := mkPeer [] false [] 0.
Definition items_of (peers : list peer) (t : table_spec) : list rib_item :=
  map (fun e : N * N * bytes => let '(idx, _, attrs) := e in (t_v6 t, idx, nth (N.to_nat idx) peers no_peer, t_pfx t, attrs)) (t_entries t).
Definition singles_of (t : table_spec) : list (prefix * N * bytes) :=
  map (fun e : N * N * bytes => let '(idx, _, attrs) := e in (t_pfx t, idx, attrs)) (t_entries t).

Definition table_wf (npeers : nat) (t : table_spec) : Prop :=
  t_ts t < 2 ^ 32 /\ t_seq t < 2 ^ 32 /\ wf_prefix (t_v6 t) (t_pfx t) = true /\ t_entries t <> [] /\
  N.of_nat (length (t_entries t)) < 65536 /\ Forall (entry_wf npeers) (t_entries t) /\
  N.of_nat (length (be 4 (t_seq t) ++ compose_prefix (t_pfx t) ++ be 2 (N.of_nat (length (t_entries t))) ++ flat_map enc_entry (t_entries t))) < 2 ^ 32.

Lemma enc_entry_length e : length (enc_entry e) = (8 + length (snd e))%nat.
Proof. destruct e as [[idx ot] attrs]. unfold enc_entry. rewrite !app_length, !be_length. cbn [snd]. lia. Qed.

Lemma rib_entry_parse_enc n e rest pos : entry_wf n e ->
  rib_entry_parse (mkP (enc_entry e ++ rest) pos) = Ok (e, mkP rest (pos + length (enc_entry e))).
Proof.
  intros Hw. pose proof (enc_entry_length e) as L. destruct e as [[idx ot] attrs]. destruct Hw as (_ & H1 & H2 & H3).
  unfold rib_entry_parse, enc_entry in *. rewrite <- !app_assoc.
  rewrite be2 by exact H1. cbn [bind]. rewrite be4 by exact H2. cbn [bind]. rewrite be2 by exact H3. cbn [bind].
  rewrite Nat2N.id, take_app' by reflexivity. cbn [bind]. cbn [snd] in L. rewrite L. f_equal. f_equal. f_equal. lia.
Qed.

Lemma entries_len_pos es : es <> [] -> (0 < length (flat_map enc_entry es))%nat.
Proof. destruct es as [|e es]; [congruence|]. intros _. cbn [flat_map]. rewrite app_length, enc_entry_length. lia. Qed.

Lemma entries_count es : (length es <= length (flat_map enc_entry es))%nat.
Proof. induction es as [|e es IH]; [cbn; lia|]. cbn [flat_map length]. rewrite app_length, enc_entry_length. lia. Qed.

(* the entries of the current table, then whatever follows *)
Lemma rib_iter_entries peers p' v6 pfx : forall es f q, es <> [] -> Forall (entry_wf (length peers)) es ->
  rib_iter (length es + f) peers p' (Some (v6, pfx, mkP (flat_map enc_entry es) q)) =
  (let* r := rib_iter f peers p' None in
   Ok (map (fun e : N * N * bytes => let '(idx, _, attrs) := e in (v6, idx, nth (N.to_nat idx) peers no_peer, pfx, attrs)) es ++ r)).
Proof.
  induction es as [|e es IH]; intros f q Hne Hw; [congruence|].
  inversion Hw as [|? ? He Hw']; subst. cbn [length Nat.add rib_iter bind flat_map].
  rewrite (rib_entry_parse_enc (length peers) e _ q He). cbn [unwrap_res bind].
  destruct e as [[idx ot] attrs]. destruct He as (Hi & _).
  assert (Hn : nth_error peers (N.to_nat idx) = Some (nth (N.to_nat idx) peers no_peer)) by (apply nth_error_nth'; exact Hi).
  rewrite Hn. unfold remaining. cbn [p_rest].
  destruct es as [|e' es'].
  - cbn [flat_map length Nat.eqb Nat.add map List.app]. destruct (rib_iter f peers p' None); reflexivity.
  - assert (Hz : Nat.eqb (length (flat_map enc_entry (e' :: es'))) 0 = false)
      by (apply Nat.eqb_neq; pose proof (entries_len_pos (e' :: es') ltac:(congruence)); lia).
    rewrite Hz. rewrite (IH f _ ltac:(congruence) Hw'). destruct (rib_iter f peers p' None); reflexivity.
Qed.

Lemma rib_hdr_parse_enc v6 seq pfx count E pos : seq < 2 ^ 32 -> wf_prefix v6 pfx = true -> count < 65536 ->
  rib_hdr_parse v6 (mkP (be 4 seq ++ compose_prefix pfx ++ be 2 count ++ E) pos) =
  Ok (mkRib seq pfx count (mkP E (pos + 4 + length (compose_prefix pfx) + 2))).
Proof.
  intros Hs Hp Hc. unfold rib_hdr_parse. rewrite be4 by exact Hs. cbn [bind]. rewrite parse_prefix_rt by exact Hp. cbn [bind].
  rewrite be2 by exact Hc. cbn [bind]. unfold remaining. cbn [p_rest]. rewrite <- (app_nil_r E) at 2. rewrite pparser_app. reflexivity.
Qed.

Definition total_entries (tabs : list table_spec) : nat := fold_right (fun t n => (length (t_entries t) + n)%nat) 0%nat tabs.

Lemma table_header npeers t rest pos : table_wf npeers t ->
  exists q, common_header_parse (mkP (enc_table t ++ rest) pos) =
    Ok (mkHdr (t_ts t) 13 (if t_v6 t then 4 else 2)
          (N.of_nat (length (be 4 (t_seq t) ++ compose_prefix (t_pfx t) ++ be 2 (N.of_nat (length (t_entries t))) ++ flat_map enc_entry (t_entries t)))) 0
          (mkP (be 4 (t_seq t) ++ compose_prefix (t_pfx t) ++ be 2 (N.of_nat (length (t_entries t))) ++ flat_map enc_entry (t_entries t)) (pos + 12)),
        mkP rest q).
Proof.
  intros (H1 & H2 & H3 & H4 & H5 & H6 & H7). unfold enc_table. eexists.
  rewrite header_enc; [reflexivity|exact H1|now left|destruct (t_v6 t); reflexivity|exact H7].
Qed.

Lemma table_of_enc npeers t ts len mus pos : table_wf npeers t ->
  table_of (mkHdr ts 13 (if t_v6 t then 4 else 2) len mus
              (mkP (be 4 (t_seq t) ++ compose_prefix (t_pfx t) ++ be 2 (N.of_nat (length (t_entries t))) ++ flat_map enc_entry (t_entries t)) pos)) =
  Ok (Some (t_v6 t, mkRib (t_seq t) (t_pfx t) (N.of_nat (length (t_entries t)))
                      (mkP (flat_map enc_entry (t_entries t)) (pos + 4 + length (compose_prefix (t_pfx t)) + 2)))).
Proof.
  intros (H1 & H2 & H3 & H4 & H5 & H6 & H7). unfold table_of. cbn [h_type h_sub h_msg N.eqb Pos.eqb].
  destruct (t_v6 t) eqn:Ev; cbn [N.eqb Pos.eqb]; rewrite rib_hdr_parse_enc by assumption; reflexivity.
Qed.

Lemma rib_iter_enter f peers p h p' v6 r : Nat.eqb (remaining p) 0 = false ->
  common_header_parse p = Ok (h, p') -> table_of h = Ok (Some (v6, r)) ->
  rib_iter (S f) peers p None = rib_iter (S f) peers p' (Some (v6, r_prefix r, r_entries r)).
Proof. intros Hz Hh Ht. cbn [rib_iter]. rewrite Hz, Hh. cbn [unwrap_res bind]. rewrite Ht. reflexivity. Qed.

Lemma enc_table_pos t : (12 <= length (enc_table t))%nat.
Proof. unfold enc_table. rewrite enc_rec_length. lia. Qed.

Lemma rib_iter_tables peers : forall tabs f pos, Forall (table_wf (length peers)) tabs ->
  rib_iter (total_entries tabs + S f) peers (mkP (flat_map enc_table tabs) pos) None = Ok (flat_map (items_of peers) tabs).
Proof.
  induction tabs as [|t tabs IH]; intros f pos Hw.
  - cbn [total_entries fold_right Nat.add flat_map rib_iter]. reflexivity.
  - inversion Hw as [|? ? Ht Hw']; subst. cbn [total_entries fold_right flat_map]. fold (total_entries tabs).
    pose proof Ht as (H1 & H2 & H3 & H4 & H5 & H6 & H7).
    destruct (t_entries t) as [|e es] eqn:Ees; [congruence|].
    destruct (table_header (length peers) t (flat_map enc_table tabs) pos Ht) as (q & Hh).
    cbn [length Nat.add].
    assert (Hz : Nat.eqb (remaining (mkP (enc_table t ++ flat_map enc_table tabs) pos)) 0 = false).
    { apply Nat.eqb_neq. unfold remaining. cbn [p_rest]. rewrite app_length. pose proof (enc_table_pos t). lia. }
    rewrite (rib_iter_enter _ peers _ _ _ _ _ Hz Hh (table_of_enc (length peers) t _ _ _ _ Ht)).
    cbn [r_prefix r_entries]. rewrite Ees.
    replace (S (length es + total_entries tabs + S f)) with (length (e :: es) + (total_entries tabs + S f))%nat by (cbn [length]; lia).
    rewrite rib_iter_entries by (try congruence; rewrite <- Ees; exact H6).
    rewrite IH by exact Hw'. cbn [bind]. unfold items_of at 2. rewrite Ees. reflexivity.
Qed.

Lemma total_le tabs : (total_entries tabs <= length (flat_map enc_table tabs))%nat.
Proof.
  induction tabs as [|t tabs IH]; [cbn; lia|]. cbn [total_entries fold_right flat_map]. fold (total_entries tabs).
  rewrite app_length. unfold enc_table at 1. rewrite enc_rec_length, !app_length. pose proof (entries_count (t_entries t)). lia.
Qed.

Definition enc_file (ts : N) (collector view : bytes) (peers : list (peer * bool)) (tabs : list table_spec) : bytes :=
  enc_pit ts collector view peers ++ flat_map enc_table tabs.

Definition file_wf (ts : N) (collector view : bytes) (peers : list (peer * bool)) (tabs : list table_spec) : Prop :=
  ts < 2 ^ 32 /\ length collector = 4%nat /\ wf_bytes collector /\ N.of_nat (length view) < 65536 /\ N.of_nat (length peers) < 65536 /\
  Forall peer_wf peers /\
  N.of_nat (length (collector ++ be 2 (N.of_nat (length view)) ++ view ++ be 2 (N.of_nat (length peers)) ++ enc_peers peers)) < 2 ^ 32 /\
  Forall (table_wf (length peers)) tabs.

Lemma c16_rib_entries_proof ts collector view peers tabs : file_wf ts collector view peers tabs ->
  rib_entries (enc_file ts collector view peers tabs) = Ok (flat_map (items_of (map fst peers)) tabs).
Proof.
  intros (H1 & H2 & H3 & H4 & H5 & H6 & H7 & H8). unfold rib_entries, enc_file, parser_of.
  rewrite extract_enc by assumption. cbn [bind].
  pose proof (total_le tabs) as Ht.
  replace (S (length (enc_pit ts collector view peers ++ flat_map enc_table tabs)))
    with (total_entries tabs + S (length (enc_pit ts collector view peers ++ flat_map enc_table tabs) - total_entries tabs))%nat
    by (rewrite app_length; lia).
  apply rib_iter_tables. rewrite map_length. exact H8.
Qed.

(* ---- the table iterator with one SingleEntryIterator per table *)
Lemma single_iter_enc n pfx : forall es fuel q, Forall (entry_wf n) es -> (length es < fuel)%nat ->
  single_iter fuel pfx (mkP (flat_map enc_entry es) q) =
  Ok (map (fun e : N * N * bytes => let '(idx, _, attrs) := e in (pfx, idx, attrs)) es).
Proof.
  induction es as [|e es IH]; intros fuel q Hw Hf; (destruct fuel as [|f]; [lia|]); cbn [single_iter].
  - reflexivity.
  - inversion Hw as [|? ? He Hw']; subst. unfold remaining. cbn [p_rest flat_map]. rewrite app_length, enc_entry_length.
    cbn [Nat.add Nat.eqb]. rewrite (rib_entry_parse_enc n e _ q He). cbn [unwrap_res bind].
    destruct e as [[idx ot] attrs]. rewrite IH by (try exact Hw'; cbn in Hf; lia). reflexivity.
Qed.

Lemma tables_iter_enc n : forall tabs fuel pos, Forall (table_wf n) tabs -> (length tabs < fuel)%nat ->
  tables_iter fuel (mkP (flat_map enc_table tabs) pos) = Ok (map (fun t => (t_v6 t, singles_of t)) tabs).
Proof.
  induction tabs as [|t tabs IH]; intros fuel pos Hw Hf; (destruct fuel as [|f]; [lia|]); cbn [tables_iter].
  - reflexivity.
  - inversion Hw as [|? ? Ht Hw']; subst. cbn [flat_map].
    assert (Hz : Nat.eqb (remaining (mkP (enc_table t ++ flat_map enc_table tabs) pos)) 0 = false).
    { apply Nat.eqb_neq. unfold remaining. cbn [p_rest]. rewrite app_length. pose proof (enc_table_pos t). lia. }
    rewrite Hz. destruct (table_header n t (flat_map enc_table tabs) pos Ht) as (q & Hh). rewrite Hh. cbn [unwrap_res bind].
    rewrite (table_of_enc n t _ _ _ _ Ht). cbn [bind r_entries r_prefix].
    pose proof Ht as (_ & _ & _ & _ & _ & H6 & _).
    rewrite (single_iter_enc n) by (try exact H6; unfold remaining; cbn [p_rest]; pose proof (entries_count (t_entries t)); lia).
    cbn [bind]. rewrite IH by (try exact Hw'; cbn in Hf; lia). reflexivity.
Qed.

Lemma tables_count tabs : (length tabs <= length (flat_map enc_table tabs))%nat.
Proof. induction tabs as [|t tabs IH]; [cbn; lia|]. cbn [flat_map length]. rewrite app_length. pose proof (enc_table_pos t). lia. Qed.

Lemma c16_tables_proof ts collector view peers tabs : file_wf ts collector view peers tabs ->
  tables (enc_file ts collector view peers tabs) = Ok (map fst peers, map (fun t => (t_v6 t, singles_of t)) tabs).
Proof.
  intros (H1 & H2 & H3 & H4 & H5 & H6 & H7 & H8). unfold tables, enc_file, parser_of.
  rewrite extract_enc by assumption. cbn [bind].
  rewrite (tables_iter_enc (length peers)) by (try exact H8; rewrite app_length; pose proof (tables_count tabs); lia). reflexivity.
Qed.

(* sequential and per-table views hold the same entries: the sequential list, stripped of the resolved peer, is the
   concatenation of the tables *)
Lemma c16_views_agree_proof peers tabs :
  map strip (flat_map (items_of peers) tabs) =
  concat (map singles_of tabs).
Proof.
  induction tabs as [|t tabs IH]; [reflexivity|]. cbn [flat_map map concat]. rewrite map_app, IH. f_equal.
  unfold items_of, singles_of. rewrite map_map. apply map_ext. intros [[idx ot] attrs]. reflexivity.
Qed.

(* the parallel iterator: every interleaving of the tables is a permutation of the sequential output (same multiset) *)
Lemma c16_parallel_proof peers tabs ys : interleave (map singles_of tabs) ys ->
  Permutation ys (map strip (flat_map (items_of peers) tabs)).
Proof. intros H. rewrite c16_views_agree_proof. now apply interleave_perm. Qed.

(* ================================================================ BGP4MP *)
Lemma mp_head_parse_enc (as4 : bool) (pa la ifc afi : N) (a b tail : bytes) pos :
  pa < (if as4 then 2 ^ 32 else 65536) -> la < (if as4 then 2 ^ 32 else 65536) -> ifc < 65536 ->
  ((afi = 1 /\ length a = 4%nat /\ length b = 4%nat) \/ (afi = 2 /\ length a = 16%nat /\ length b = 16%nat)) ->
  exists q, mp_head as4 (mkP (mp_head_enc as4 pa la ifc afi a b ++ tail) pos) = Ok ((pa, la, ifc, afi, a, b), mkP tail q).
Proof.
  intros Hpa Hla Hif Haf. unfold mp_head, mp_head_enc.
  destruct as4; rewrite <- !app_assoc.
  - rewrite be4 by exact Hpa. cbn [bind]. rewrite be4 by exact Hla. cbn [bind]. rewrite be2 by exact Hif. cbn [bind].
    destruct Haf as [(-> & La & Lb)|(-> & La & Lb)]; eexists; rewrite be2 by reflexivity; cbn [bind N.eqb Pos.eqb];
      rewrite take_app' by (symmetry; exact La); cbn [bind]; rewrite take_app' by (symmetry; exact Lb); reflexivity.
  - rewrite be2 by exact Hpa. cbn [bind]. rewrite be2 by exact Hla. cbn [bind]. rewrite be2 by exact Hif. cbn [bind].
    destruct Haf as [(-> & La & Lb)|(-> & La & Lb)]; eexists; rewrite be2 by reflexivity; cbn [bind N.eqb Pos.eqb];
      rewrite take_app' by (symmetry; exact La); cbn [bind]; rewrite take_app' by (symmetry; exact Lb); reflexivity.
Qed.

(* the body of a record parses back to the item, under the parser its subtype selects *)
Definition mp_dispatch (sub : N) (m : parser) : res (res mp_item) :=
  if sub =? 0 then Ok (mp_state_parse false m)
  else if sub =? 1 then Ok (mp_msg_parse false m)
  else if sub =? 4 then Ok (mp_msg_parse true m)
  else if sub =? 5 then Ok (mp_state_parse true m)
  else Panic.

Lemma mp_dispatch_enc it q : mp_item_wf it -> mp_dispatch (mp_sub it) (mkP (enc_mp_body it) q) = Ok (Ok it).
Proof.
  intros Hw. destruct it as [as4 pa la ifc afi a b o n|as4 pa la ifc afi a b m]; cbn [mp_item_wf mp_sub enc_mp_body] in *.
  - destruct Hw as ((Hpa & Hla & Hif & Haf) & Ho & Hn).
    destruct (mp_head_parse_enc as4 pa la ifc afi a b (be 2 o ++ be 2 n) q Hpa Hla Hif Haf) as (q' & Hh).
    unfold mp_dispatch. destruct as4; cbn [N.eqb Pos.eqb]; f_equal; unfold mp_state_parse; rewrite Hh; cbn [bind];
      rewrite be2 by exact Ho; cbn [bind]; rewrite <- (app_nil_r (be 2 n)), be2 by exact Hn; reflexivity.
  - destruct Hw as (Hpa & Hla & Hif & Haf).
    destruct (mp_head_parse_enc as4 pa la ifc afi a b m q Hpa Hla Hif Haf) as (q' & Hh).
    unfold mp_dispatch. destruct as4; cbn [N.eqb Pos.eqb]; f_equal; unfold mp_msg_parse; rewrite Hh; reflexivity.
Qed.

Lemma mp_sub_small it : mp_sub it < 65536.
Proof. destruct it as [[] ? ? ? ? ? ? ? ?|[] ? ? ? ? ? ? ?]; reflexivity. Qed.

(* one complete record at the front: the iterator yields its item and goes on behind it *)
Lemma messages_iter_step f r rest pos : mp_rec_wf r ->
  exists q, messages_iter (S f) (mkP (enc_mp r ++ rest) pos) =
            (let* l := messages_iter f (mkP rest q) in Ok (snd r :: l)).
Proof.
  destruct r as [[ts et] it]. intros (Hts & Hit & Hl & Het). cbn [snd]. cbn [messages_iter].
  assert (Hz : Nat.eqb (remaining (mkP (enc_mp (ts, et, it) ++ rest) pos)) 0 = false).
  { apply Nat.eqb_neq. unfold remaining. cbn [p_rest]. rewrite app_length. unfold enc_mp.
    destruct et; [rewrite enc_rec_et_length|rewrite enc_rec_length]; lia. }
  rewrite Hz. unfold enc_mp.
  pose proof (mp_dispatch_enc it) as D. unfold mp_dispatch in D.
  destruct et as [mus|].
  - rewrite header_enc_et by (auto using mp_sub_small). cbn [h_type h_sub h_msg N.eqb Pos.eqb]. eexists.
    rewrite (D _ Hit). cbn [bind]. reflexivity.
  - rewrite header_enc by (auto using mp_sub_small; lia). cbn [h_type h_sub h_msg N.eqb Pos.eqb]. eexists.
    rewrite (D _ Hit). cbn [bind]. reflexivity.
Qed.

Definition enc_mps (l : list mp_rec) : bytes := flat_map enc_mp l.

Lemma enc_mp_pos r : (12 <= length (enc_mp r))%nat.
Proof. destruct r as [[ts et] it]. unfold enc_mp. destruct et; [rewrite enc_rec_et_length|rewrite enc_rec_length]; lia. Qed.

Lemma enc_mps_count l : (length l <= length (enc_mps l))%nat.
Proof. induction l as [|r l IH]; [cbn; lia|]. cbn [enc_mps flat_map length]. rewrite app_length. fold (enc_mps l). pose proof (enc_mp_pos r). lia. Qed.

Lemma messages_iter_enc : forall l fuel pos, Forall mp_rec_wf l -> (length l < fuel)%nat ->
  messages_iter fuel (mkP (enc_mps l) pos) = Ok (map snd l).
Proof.
  induction l as [|r l IH]; intros fuel pos Hw Hf; (destruct fuel as [|f]; [lia|]).
  - reflexivity.
  - inversion Hw as [|? ? Hr Hw']; subst. cbn [enc_mps flat_map]. fold (enc_mps l).
    destruct (messages_iter_step f r (enc_mps l) pos Hr) as (q & E). rewrite E.
    rewrite IH by (try exact Hw'; cbn in Hf; lia). reflexivity.
Qed.

Lemma c16_messages_proof l : Forall mp_rec_wf l -> messages (enc_mps l) = Ok (map snd l).
Proof. intros Hw. unfold messages, parser_of. apply messages_iter_enc; [exact Hw|]. pose proof (enc_mps_count l). lia. Qed.

(* ---- truncation *)
Lemma firstn_app_ge {A} (a r : list A) n : (length a <= n)%nat -> firstn n (a ++ r) = a ++ firstn (n - length a) r.
Proof. intros H. rewrite firstn_app, firstn_all2 by exact H. reflexivity. Qed.

Lemma firstn_app_lt {A} (a r : list A) n : (n <= length a)%nat -> firstn n (a ++ r) = firstn n a.
Proof. intros H. rewrite firstn_app. replace (n - length a)%nat with 0%nat by lia. cbn [firstn]. apply app_nil_r. Qed.

Lemma take_short k l pos : (length l < k)%nat -> take k (mkP l pos) = Err.
Proof. intros H. unfold take, remaining. cbn [p_rest]. assert (E : Nat.leb k (length l) = false) by (apply Nat.leb_gt; exact H). now rewrite E. Qed.

Lemma parse_be_trunc k v rest n pos : v < 256 ^ N.of_nat k ->
  parse_be k (mkP (firstn n (be k v ++ rest)) pos) =
  if Nat.ltb n k then Err else Ok (v, mkP (firstn (n - k) rest) (pos + k)).
Proof.
  intros Hv. destruct (Nat.ltb n k) eqn:E.
  - apply Nat.ltb_lt in E. unfold parse_be. rewrite take_short; [reflexivity|]. rewrite firstn_length. lia.
  - apply Nat.ltb_ge in E. rewrite firstn_app_ge by (rewrite be_length; exact E). rewrite be_length. apply parse_be_app. exact Hv.
Qed.

(* a record cut short anywhere is an incomplete record: the header parser reports an error, it does not panic *)
Lemma header_truncated r n pos : mp_rec_wf r -> (n < length (enc_mp r))%nat ->
  common_header_parse (mkP (firstn n (enc_mp r)) pos) = Err.
Proof.
  destruct r as [[ts et] it]. intros (Hts & Hit & Hl & Het) Hn. unfold common_header_parse, enc_mp in *.
  pose proof (mp_sub_small it) as Hs.
  destruct et as [mus|].
  - rewrite enc_rec_et_length in Hn. unfold enc_rec_et.
    rewrite (parse_be_trunc 4 ts) by exact Hts. destruct (Nat.ltb n 4) eqn:E1; [reflexivity|]. apply Nat.ltb_ge in E1. cbn [bind].
    unfold parse_u16. rewrite (parse_be_trunc 2 17) by reflexivity. destruct (Nat.ltb (n - 4) 2) eqn:E2; [reflexivity|]. apply Nat.ltb_ge in E2. cbn [bind].
    cbn [N.eqb Pos.eqb orb negb].
    rewrite (parse_be_trunc 2 (mp_sub it)) by exact Hs. destruct (Nat.ltb (n - 4 - 2) 2) eqn:E3; [reflexivity|]. apply Nat.ltb_ge in E3. cbn [bind].
    rewrite (parse_be_trunc 4 (N.of_nat (4 + length (enc_mp_body it)))) by exact Hl.
    destruct (Nat.ltb (n - 4 - 2 - 2) 4) eqn:E4; [reflexivity|]. apply Nat.ltb_ge in E4. cbn [bind].
    rewrite (parse_be_trunc 4 mus) by exact Het. destruct (Nat.ltb (n - 4 - 2 - 2 - 4) 4) eqn:E5; [reflexivity|]. apply Nat.ltb_ge in E5. cbn [bind].
    assert (E6 : (N.of_nat (4 + length (enc_mp_body it)) <? 4) = false) by (apply N.ltb_ge; lia). rewrite E6. cbn [bind fst snd].
    unfold remaining. cbn [p_rest]. rewrite firstn_length.
    assert (E7 : (N.of_nat (Nat.min (n - 4 - 2 - 2 - 4 - 4) (length (enc_mp_body it))) <? N.of_nat (4 + length (enc_mp_body it)) - 4) = true)
      by (apply N.ltb_lt; lia).
    rewrite E7. reflexivity.
  - rewrite enc_rec_length in Hn. unfold enc_rec.
    rewrite (parse_be_trunc 4 ts) by exact Hts. destruct (Nat.ltb n 4) eqn:E1; [reflexivity|]. apply Nat.ltb_ge in E1. cbn [bind].
    unfold parse_u16. rewrite (parse_be_trunc 2 16) by reflexivity. destruct (Nat.ltb (n - 4) 2) eqn:E2; [reflexivity|]. apply Nat.ltb_ge in E2. cbn [bind].
    cbn [N.eqb Pos.eqb orb negb].
    rewrite (parse_be_trunc 2 (mp_sub it)) by exact Hs. destruct (Nat.ltb (n - 4 - 2) 2) eqn:E3; [reflexivity|]. apply Nat.ltb_ge in E3. cbn [bind].
    rewrite (parse_be_trunc 4 (N.of_nat (length (enc_mp_body it)))) by lia.
    destruct (Nat.ltb (n - 4 - 2 - 2) 4) eqn:E4; [reflexivity|]. apply Nat.ltb_ge in E4. cbn [bind fst snd].
    unfold remaining. cbn [p_rest]. rewrite firstn_length.
    assert (E7 : (N.of_nat (Nat.min (n - 4 - 2 - 2 - 4) (length (enc_mp_body it))) <? N.of_nat (length (enc_mp_body it))) = true)
      by (apply N.ltb_lt; lia).
    rewrite E7. reflexivity.
Qed.

Lemma messages_iter_truncated : forall l fuel pos n, Forall mp_rec_wf l -> (n < fuel)%nat ->
  exists k, messages_iter fuel (mkP (firstn n (enc_mps l)) pos) = Ok (map snd (firstn k l)) /\
            (length (enc_mps (firstn k l)) <= n)%nat /\ (k <= length l)%nat /\
            ((k < length l)%nat -> (n < length (enc_mps (firstn (S k) l)))%nat).
Proof.
  induction l as [|r l IH]; intros fuel pos n Hw Hf; (destruct fuel as [|f]; [lia|]).
  - exists 0%nat. rewrite firstn_nil. cbn. repeat split; try lia.
  - inversion Hw as [|? ? Hr Hw']; subst. cbn [enc_mps flat_map]. fold (enc_mps l).
    destruct (Nat.le_gt_cases (length (enc_mp r)) n) as [Hge|Hlt].
    + rewrite firstn_app_ge by exact Hge.
      destruct (messages_iter_step f r (firstn (n - length (enc_mp r)) (enc_mps l)) pos Hr) as (q & E). rewrite E.
      destruct (IH f q (n - length (enc_mp r))%nat Hw' ltac:(pose proof (enc_mp_pos r); lia)) as (k & Ek & L1 & L2 & L3).
      exists (S k). rewrite Ek. cbn [bind firstn map]. split; [reflexivity|].
      change (enc_mps (r :: firstn k l)) with (enc_mp r ++ enc_mps (firstn k l)). rewrite app_length. split; [lia|]. split; [cbn [length]; lia|].
      intros Hk. cbn [length] in Hk. specialize (L3 ltac:(lia)).
      change (match l with [] => [] | a :: l0 => a :: firstn k l0 end) with (firstn (S k) l).
      change (enc_mps (r :: firstn (S k) l)) with (enc_mp r ++ enc_mps (firstn (S k) l)). rewrite app_length. lia.
    + exists 0%nat. rewrite firstn_app_lt by lia. cbn [firstn map enc_mps flat_map length].
      split; [|split; [lia|split; [lia|intros _; rewrite app_nil_r; exact Hlt]]].
      cbn [messages_iter]. unfold remaining. cbn [p_rest].
      destruct (Nat.eqb (length (firstn n (enc_mp r))) 0); [reflexivity|].
      rewrite (header_truncated r n pos Hr Hlt). reflexivity.
Qed.

Lemma c16_truncated_proof l n : Forall mp_rec_wf l ->
  exists k, messages (firstn n (enc_mps l)) = Ok (map snd (firstn k l)) /\
            (length (enc_mps (firstn k l)) <= n)%nat /\ (k <= length l)%nat /\
            ((k < length l)%nat -> (n < length (enc_mps (firstn (S k) l)))%nat).
Proof.
  intros Hw. unfold messages, parser_of.
  destruct (Nat.le_gt_cases (length (enc_mps l)) n) as [Hge|Hlt].
  - rewrite firstn_all2 by exact Hge. exists (length l). rewrite firstn_all.
    split; [apply messages_iter_enc; [exact Hw|pose proof (enc_mps_count l); lia]|]. split; [exact Hge|]. split; lia.
  - rewrite firstn_length, Nat.min_l by lia. apply messages_iter_truncated; [exact Hw|lia].
Qed.

(* ---- the code points the model dispatches on are the ones of the source *)
From Coq Require Import String.
From RC Require Import Gen.MrtTables.
Lemma c16_code_points_proof :
  In (13, "TableDumpv2"%string) mrt_MessageType /\ In (16, "Bgp4Mp"%string) mrt_MessageType /\ In (17, "Bgp4MpEt"%string) mrt_MessageType /\
  In (1, "PeerIndexTable"%string) mrt_TableDumpv2SubType /\ In (2, "RibIpv4Unicast"%string) mrt_TableDumpv2SubType /\
  In (4, "RibIpv6Unicast"%string) mrt_TableDumpv2SubType /\
  In (0, "StateChange"%string) mrt_Bgp4MpSubType /\ In (1, "Message"%string) mrt_Bgp4MpSubType /\
  In (4, "MessageAs4"%string) mrt_Bgp4MpSubType /\ In (5, "StateChangeAs4"%string) mrt_Bgp4MpSubType /\
  NoDup (map fst mrt_MessageType) /\ NoDup (map fst mrt_TableDumpv2SubType) /\ NoDup (map fst mrt_Bgp4MpSubType).
Proof.
  repeat split; try (cbn; tauto);
    repeat (constructor; [cbn; intros H; repeat (destruct H as [H|H]; [discriminate|]); exact H|]); constructor.
Qed.
