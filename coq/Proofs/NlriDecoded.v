(* What the NLRI decoders yield is well-formed: every value [parse_nlri] returns on a string of octets satisfies [wf_nlri] - the
   predicate under which the encoder theorems of C05 (round trip, exact length) are stated.  So a decoded NLRI can always be
   re-encoded, re-encodes to a string of exactly [compose_len] octets, and decodes back to itself (C07: the NLRI a builder
   receives from a message are values the builder theorems apply to). *)
From Coq Require Import List NArith ZArith Bool Lia ZifyN ZifyNat ZifyBool.
From RC Require Import Base.Res Base.Wire Proofs.WireProofs Model.Nlri Proofs.NlriProofs.
Import ListNotations.
Open Scope N_scope.
Ltac Zify.zify_post_hook ::= Z.div_mod_to_equations.
Local Arguments Nat.mul : simpl never.
Local Arguments Nat.add : simpl never.
Local Arguments N.of_nat : simpl never.
Local Arguments N.to_nat : simpl never.
Local Arguments N.mul : simpl never.
Local Arguments N.add : simpl never.

Ltac binv H :=
  let x := fresh "x" in let E := fresh "E" in
  apply bind_ok in H; destruct H as (x & E & H).

Lemma Some_inj {A} (a b : A) : Some a = Some b -> a = b.
Proof. congruence. Qed.

(* ---- the parser primitives keep well-formed octets ---- *)
Lemma parse_u8_wf p b p' : wf_bytes (p_rest p) -> parse_u8 p = Ok (b, p') -> b < 256 /\ wf_bytes (p_rest p').
Proof.
  unfold parse_u8. destruct (p_rest p) as [|x tl] eqn:E; [discriminate|]. intros Hw H. apply Ok_inj in H. inversion H; subst.
  cbn [p_rest]. inversion Hw; subst. split; assumption.
Qed.

Lemma take_wf n p v p' : wf_bytes (p_rest p) -> take n p = Ok (v, p') -> wf_bytes v /\ length v = n /\ wf_bytes (p_rest p').
Proof.
  intros Hw H. apply take_ok in H as (H1 & H2 & _). rewrite H1 in Hw. unfold wf_bytes in *. apply Forall_app in Hw as (A & B). auto.
Qed.

Lemma parse_be_wf k p v p' : wf_bytes (p_rest p) -> parse_be k p = Ok (v, p') -> v < 256 ^ N.of_nat k /\ wf_bytes (p_rest p').
Proof.
  unfold parse_be. intros Hw H. binv H. destruct x as [b q]. apply Ok_inj in H. inversion H; subst.
  destruct (take_wf _ _ _ _ Hw E) as (A & B & C). split; [|exact C]. rewrite <- B. now apply unbe_bound.
Qed.

Lemma wf_repeat0 n : wf_bytes (repeat 0 n).
Proof. unfold wf_bytes. apply Forall_forall. intros x Hx. apply repeat_spec in Hx. subst. lia. Qed.

(* ---- prefixes ---- *)
Lemma parse_prefix_for_len_wf v6 bits p x p' :
  wf_bytes (p_rest p) -> parse_prefix_for_len v6 bits p = Ok (x, p') ->
  wf_prefix v6 x = true /\ pf_len x = bits /\ wf_bytes (p_rest p').
Proof.
  unfold parse_prefix_for_len. intros Hw H.
  destruct (Nat.ltb (pf_width v6) (prefix_bits_to_bytes bits)) eqn:Ew; [discriminate|]. apply Nat.ltb_ge in Ew.
  binv H. destruct x0 as [b q]. binv H. apply Ok_inj in H. inversion H; subst.
  destruct (take_wf _ _ _ _ Hw E) as (Wb & Lb & Wq).
  unfold prefix_new in E0. destruct (Nat.ltb (pf_maxlen v6) bits) eqn:Em; [discriminate|]. apply Nat.ltb_ge in Em.
  destruct (host_zero bits (b ++ repeat 0 (pf_width v6 - prefix_bits_to_bytes bits))) eqn:Ez; [|discriminate].
  apply Ok_inj in E0. subst x. split; [|split; [reflexivity|exact Wq]].
  unfold wf_prefix. cbn [pf_v6 pf_len pf_addr]. rewrite Ez, eqb_reflx.
  replace (Nat.leb bits (pf_maxlen v6)) with true by (symmetry; apply Nat.leb_le; lia).
  replace (Nat.eqb _ (pf_width v6)) with true by (symmetry; apply Nat.eqb_eq; rewrite app_length, repeat_length; lia).
  cbn [andb]. rewrite andb_true_r. apply wf_bytesb_spec. unfold wf_bytes. apply Forall_app. split; [exact Wb|apply wf_repeat0].
Qed.

(* ---- label stacks ---- *)
Lemma chunks_fuel : forall f1 f2 l, (length l < f1)%nat -> (length l < f2)%nat -> chunks f1 3 l = chunks f2 3 l.
Proof.
  induction f1 as [|f1 IH]; intros f2 l H1 H2; [lia|]. destruct f2 as [|f2]; [lia|]. cbn [chunks].
  destruct l as [|x l]; [reflexivity|]. f_equal. apply IH; rewrite skipn_length; cbn [length] in *; lia.
Qed.

Lemma chunks3_cons t r : length t = 3%nat -> chunks3 (t ++ r) = t :: chunks3 r.
Proof.
  intros Ht. unfold chunks3. destruct t as [|a [|b [|c [|d t]]]]; try discriminate. cbn [app length].
  change (chunks (S (S (S (S (length r))))) 3 (a :: b :: c :: r)) with ([a; b; c] :: chunks (S (S (S (length r)))) 3 r).
  f_equal. apply chunks_fuel; lia.
Qed.

Lemma labels_parse_wf : forall fuel p l p',
  wf_bytes (p_rest p) -> labels_parse fuel p = Ok (l, p') ->
  wf_labels (chunks3 l) = true /\ wf_bytes l /\ wf_bytes (p_rest p').
Proof.
  induction fuel as [|f IH]; intros p l p' Hw H; [discriminate|]. cbn [labels_parse] in H.
  binv H. destruct x as [t q]. destruct (take_wf _ _ _ _ Hw E) as (Wt & Lt & Wq).
  destruct (is_stop t) eqn:Es.
  - apply Ok_inj in H. inversion H; subst. split; [|split; assumption].
    rewrite <- (app_nil_r l), chunks3_cons by exact Lt. cbn [wf_labels]. rewrite Lt, Es. cbn [Nat.eqb andb].
    rewrite andb_true_r. now apply wf_bytesb_spec.
  - binv H. destruct x as [r q']. apply Ok_inj in H. inversion H; subst.
    destruct (IH _ _ _ Wq E0) as (Wr & Wrb & Wq'). split; [|split; [unfold wf_bytes in *; apply Forall_app; split; assumption|exact Wq']].
    rewrite chunks3_cons by exact Lt. destruct (chunks3 r) as [|g tl] eqn:Ec; [discriminate|].
    change (wf_labels (t :: g :: tl)) with (Nat.eqb (length t) 3 && wf_bytesb t && negb (is_stop t) && wf_labels (g :: tl)).
    rewrite Lt, Es, Wr. cbn [Nat.eqb andb negb]. rewrite !andb_true_r. now apply wf_bytesb_spec.
Qed.

(* ---- bodies ---- *)
Lemma parse_body_wf k p b p' :
  wf_bytes (p_rest p) -> parse_body k p = Ok (b, p') -> wf_body k b = true /\ wf_bytes (p_rest p').
Proof.
  intros Hw H. unfold wf_body.
  assert (Kp : (k = Ipv4Unicast \/ k = Ipv4Multicast \/ k = Ipv6Unicast \/ k = Ipv6Multicast) ->
               wf_body k b = true /\ wf_bytes (p_rest p')).
  { intros Hk.
    assert (E : parse_body k p = (let* (x, q) := parse_prefix (fam_v6 k) p in Ok (BPrefix x, q))) by (destruct Hk as [ -> | [ -> | [ -> | -> ] ] ]; reflexivity).
    rewrite E in H. binv H. destruct x as [x q]. apply Ok_inj in H. inversion H; subst.
    unfold parse_prefix in E0. binv E0. destruct x0 as [bits q0]. destruct (parse_u8_wf _ _ _ Hw E1) as (_ & W0).
    destruct (parse_prefix_for_len_wf _ _ _ _ _ W0 E0) as (Wx & _ & Wq). unfold wf_body. split; [|exact Wq].
    destruct Hk as [ -> | [ -> | [ -> | -> ] ] ]; cbn [body_matches andb]; exact Wx. }
  assert (Km : (k = Ipv4MplsUnicast \/ k = Ipv6MplsUnicast) -> wf_body k b = true /\ wf_bytes (p_rest p')).
  { intros Hk.
    assert (E : parse_body k p = (let* (x, l, q) := parse_labels_prefix (fam_v6 k) p in Ok (BMpls x l, q))) by (destruct Hk as [ -> | -> ]; reflexivity).
    rewrite E in H. binv H. destruct x as [[x l] q]. apply Ok_inj in H. inversion H; subst.
    unfold parse_labels_prefix in E0. binv E0. destruct x0 as [bits q0]. destruct (parse_u8_wf _ _ _ Hw E1) as (Hb & W0).
    binv E0. destruct x0 as [l0 q1]. destruct (labels_parse_wf _ _ _ _ W0 E2) as (Wl & _ & W1).
    binv E0. unfold try_u8 in E3. destruct (Nat.ltb 255 (8 * length l0)) eqn:E255; [discriminate|]. apply Ok_inj in E3. subst x0.
    apply Nat.ltb_ge in E255. destruct (Nat.ltb (N.to_nat bits) (8 * length l0)) eqn:Elt; [discriminate|]. apply Nat.ltb_ge in Elt.
    binv E0. destruct x0 as [x1 q2]. apply Ok_inj in E0. inversion E0; subst.
    destruct (parse_prefix_for_len_wf _ _ _ _ _ W1 E3) as (Wx & Lx & Wq). unfold wf_body. split; [|exact Wq].
    assert (Hm : body_matches k (BMpls x l) = true) by (destruct Hk as [ -> | -> ]; reflexivity).
    rewrite Hm, Wx, Wl. cbn [andb]. apply Nat.leb_le. rewrite Lx. lia. }
  assert (Kv : (k = Ipv4MplsVpnUnicast \/ k = Ipv6MplsVpnUnicast) -> wf_body k b = true /\ wf_bytes (p_rest p')).
  { intros Hk.
    assert (E : parse_body k p = (let* (x, l, rd, q) := parse_labels_rd_prefix (fam_v6 k) p in Ok (BVpn x l rd, q))) by (destruct Hk as [ -> | -> ]; reflexivity).
    rewrite E in H. binv H. destruct x as [[[x l] rd] q]. apply Ok_inj in H. inversion H; subst.
    unfold parse_labels_rd_prefix in E0. binv E0. destruct x0 as [bits q0]. destruct (parse_u8_wf _ _ _ Hw E1) as (Hb & W0).
    binv E0. destruct x0 as [l0 q1]. destruct (labels_parse_wf _ _ _ _ W0 E2) as (Wl & _ & W1).
    binv E0. unfold try_u8 in E3. destruct (Nat.ltb 255 (8 * (8 + length l0))) eqn:E255; [discriminate|]. apply Ok_inj in E3. subst x0.
    apply Nat.ltb_ge in E255. destruct (Nat.ltb (N.to_nat bits) (8 * (8 + length l0))) eqn:Elt; [discriminate|]. apply Nat.ltb_ge in Elt.
    binv E0. destruct x0 as [rd0 q2]. destruct (take_wf _ _ _ _ W1 E3) as (Wrd & Lrd & W2).
    binv E0. destruct x0 as [x1 q3]. apply Ok_inj in E0. inversion E0; subst.
    destruct (parse_prefix_for_len_wf _ _ _ _ _ W2 E4) as (Wx & Lx & Wq). unfold wf_body. split; [|exact Wq].
    assert (Hm : body_matches k (BVpn x l rd) = true) by (destruct Hk as [ -> | -> ]; reflexivity).
    rewrite Hm, Wx, Wl, Lrd. cbn [andb Nat.eqb]. apply wf_bytesb_spec in Wrd. rewrite Wrd. cbn [andb]. apply Nat.leb_le. rewrite Lx. lia. }
  assert (Kf : (k = Ipv4FlowSpec \/ k = Ipv6FlowSpec) -> wf_body k b = true /\ wf_bytes (p_rest p')).
  { intros Hk.
    assert (E : parse_body k p =
      (let* (len, q) := flow_len p in
       if Nat.ltb (remaining q) len then Err else
       let* (raw, q) := take len q in
       if fam_v6 k then Ok (BFlow raw, q)
       else if flow_components_ok raw then Ok (BFlow raw, q) else Err)) by (destruct Hk as [ -> | -> ]; reflexivity).
    rewrite E in H. binv H. destruct x as [len q0].
    assert (Hlen : (len <= 4095)%nat /\ wf_bytes (p_rest q0)).
    { unfold flow_len in E0. binv E0. destruct x as [len1 q1]. destruct (parse_u8_wf _ _ _ Hw E1) as (H1 & W1).
      destruct (240 <=? len1) eqn:E240.
      - apply N.leb_le in E240. binv E0. destruct x as [len2 q2]. destruct (parse_u8_wf _ _ _ W1 E2) as (H2 & W2).
        apply Ok_inj in E0. inversion E0; subst. split; [lia|exact W2].
      - apply N.leb_gt in E240. apply Ok_inj in E0. inversion E0; subst. split; [lia|exact W1]. }
    destruct Hlen as (Hlen & W0). destruct (Nat.ltb (remaining q0) len); [discriminate|].
    binv H. destruct x as [raw q1]. destruct (take_wf _ _ _ _ W0 E1) as (Wr & Lr & W1). apply wf_bytesb_spec in Wr.
    assert (Hm : body_matches k (BFlow raw) = true) by (destruct Hk as [ -> | -> ]; reflexivity).
    destruct (fam_v6 k) eqn:Ev.
    - apply Ok_inj in H. inversion H; subst. split; [|exact W1]. unfold wf_body. rewrite Hm, Wr, Ev. cbn [andb orb]. rewrite andb_true_r.
      apply Nat.leb_le. lia.
    - destruct (flow_components_ok raw) eqn:Ec; [|discriminate]. apply Ok_inj in H. inversion H; subst. split; [|exact W1].
      unfold wf_body. rewrite Hm, Wr, Ev, Ec. cbn [andb orb]. rewrite andb_true_r. apply Nat.leb_le. lia. }
  destruct k; try (apply Kp; tauto); try (apply Km; tauto); try (apply Kv; tauto); try (apply Kf; tauto); clear Kp Km Kv Kf.
  - (* route target *)
    cbn [parse_body] in H. binv H. destruct x as [bits q0]. destruct (parse_u8_wf _ _ _ Hw E) as (Hb & W0).
    binv H. destruct x as [raw q1]. destruct (take_wf _ _ _ _ W0 E0) as (Wr & Lr & W1). apply Ok_inj in H. inversion H; subst.
    split; [|exact W1]. cbn [body_matches andb]. apply wf_bytesb_spec in Wr. rewrite Wr. cbn [andb]. apply Nat.leb_le.
    rewrite Lr. unfold prefix_bits_to_bytes. lia.
  - (* vpls *)
    cbn [parse_body] in H. unfold parse_u16 in H.
    binv H. destruct x as [l0 q0]. destruct (parse_be_wf _ _ _ _ Hw E) as (_ & W0).
    binv H. destruct x as [rd q1]. destruct (take_wf _ _ _ _ W0 E0) as (Wrd & Lrd & W1).
    binv H. destruct x as [ve q2]. destruct (parse_be_wf _ _ _ _ W1 E1) as (Hve & W2).
    binv H. destruct x as [off q3]. destruct (parse_be_wf _ _ _ _ W2 E2) as (Hoff & W3).
    binv H. destruct x as [sz q4]. destruct (parse_be_wf _ _ _ _ W3 E3) as (Hsz & W4).
    binv H. destruct x as [l1 q5]. destruct (parse_u8_wf _ _ _ W4 E4) as (Hl1 & W5).
    binv H. destruct x as [l2 q6]. destruct (parse_be_wf _ _ _ _ W5 E5) as (Hl2 & W6).
    apply Ok_inj in H. inversion H; subst. split; [|exact W6]. cbn [body_matches andb]. rewrite Lrd. cbn [Nat.eqb andb].
    apply wf_bytesb_spec in Wrd. rewrite Wrd. cbn [andb]. change (256 ^ N.of_nat 2) with 65536 in *.
    rewrite !andb_true_iff, !N.ltb_lt. repeat split; lia.
  - (* evpn *)
    cbn [parse_body] in H. binv H. destruct x as [ty q0]. destruct (parse_u8_wf _ _ _ Hw E) as (Hty & W0).
    binv H. destruct x as [len q1]. destruct (parse_u8_wf _ _ _ W0 E0) as (Hlen & W1).
    binv H. destruct x as [raw q2]. destruct (take_wf _ _ _ _ W1 E1) as (Wr & Lr & W2). apply Ok_inj in H. inversion H; subst.
    split; [|exact W2]. cbn [body_matches andb]. apply wf_bytesb_spec in Wr. rewrite Wr. cbn [andb].
    rewrite !andb_true_iff, N.ltb_lt, Nat.leb_le. split; [split; [lia|reflexivity]|lia].
Qed.

(* ---- values ---- *)
Definition has_pid (n : nlri) : bool := match n_pathid n with Some _ => true | None => false end.

Lemma parse_nlri_wf k ap p n p' :
  wf_bytes (p_rest p) -> parse_nlri k ap p = Ok (n, p') ->
  wf_nlri n = true /\ n_fam n = k /\ has_pid n = ap /\ wf_bytes (p_rest p').
Proof.
  intros Hw H. unfold parse_nlri in H. destruct ap.
  - unfold parse_u32 in H. binv H. destruct x as [pid q0]. destruct (parse_be_wf _ _ _ _ Hw E) as (Hpid & W0).
    binv H. destruct x as [b q1]. destruct (parse_body_wf _ _ _ _ W0 E0) as (Wb & W1). apply Ok_inj in H. inversion H; subst.
    unfold wf_nlri, has_pid. cbn [n_fam n_body n_pathid]. rewrite Wb. cbn [andb]. change (256 ^ N.of_nat 4) with 4294967296 in Hpid.
    repeat split; auto. now apply N.ltb_lt.
  - binv H. destruct x as [b q1]. destruct (parse_body_wf _ _ _ _ Hw E) as (Wb & W1). apply Ok_inj in H. inversion H; subst.
    unfold wf_nlri, has_pid. cbn [n_fam n_body n_pathid]. rewrite Wb. repeat split; auto.
Qed.

(* every item an NLRI iterator yields before its end (or its first error) is a well-formed value of the iterated family *)
Lemma nlri_iter_wf : forall fuel k ap p items,
  wf_bytes (p_rest p) -> nlri_iter fuel k ap p = Some items ->
  forall n, In (Ok n) items -> wf_nlri n = true /\ n_fam n = k /\ has_pid n = ap.
Proof.
  induction fuel as [|f IH]; intros k ap p items Hw H n Hin; [discriminate|]. cbn [nlri_iter] in H.
  destruct (Nat.eqb (remaining p) 0); [apply Some_inj in H; subst; destruct Hin|].
  destruct (parse_nlri k ap p) as [[n0 p0]| |] eqn:E.
  - destruct (parse_nlri_wf _ _ _ _ _ Hw E) as (A & B & C & W0).
    destruct (nlri_iter f k ap p0) as [l|] eqn:El; [|discriminate]. cbn [option_map] in H. apply Some_inj in H. subst items.
    destruct Hin as [Hin|Hin]; [apply Ok_inj in Hin; subst; auto|]. eapply IH; eassumption.
  - apply Some_inj in H. subst items. destruct Hin as [Hin|[]]. discriminate.
  - apply Some_inj in H. subst items. destruct Hin as [Hin|[]]. discriminate.
Qed.

(* hence: what was decoded can be encoded again, to exactly compose_len octets, and decodes back to itself *)
Lemma decoded_reencodes k ap p n p' rest pos :
  wf_bytes (p_rest p) -> parse_nlri k ap p = Ok (n, p') ->
  exists bs, compose_nlri n = Ok bs /\ length bs = compose_len n /\
             parse_nlri k ap (mkP (bs ++ rest) pos) = Ok (n, mkP rest (pos + length bs)).
Proof.
  intros Hw H. destruct (parse_nlri_wf _ _ _ _ _ Hw H) as (Wn & Hk & Hap & _).
  destruct (c05_rt_proof n rest pos Wn) as (bs & Hc & Hp). exists bs. split; [exact Hc|]. split; [now apply c05_len_proof|].
  unfold has_pid in Hap. rewrite Hk, Hap in Hp. exact Hp.
Qed.
