From Coq Require Import List Arith NArith ZArith Bool Lia ZifyN ZifyNat ZifyBool.
From RC Require Import Base.Res Base.Wire Proofs.WireProofs Model.Open Model.Negotiate Model.Nlri Proofs.NlriProofs
     Gen.AttrRules Model.AsPath Model.Attr Proofs.AttrProofs Model.Update Model.RefEncUpdate Proofs.UpdateTotal.
Import ListNotations.
Open Scope N_scope.
Ltac Zify.zify_post_hook ::= Z.div_mod_to_equations.
Local Arguments Nat.mul : simpl never.
Local Arguments Nat.add : simpl never.
Local Arguments Nat.sub : simpl never.
Local Arguments N.of_nat : simpl never.
Local Arguments N.to_nat : simpl never.
Local Arguments N.add : simpl never.
Local Arguments N.sub : simpl never.
Local Arguments N.div : simpl never.
Local Arguments N.modulo : simpl never.
Local Opaque be.

(* ---- conventional NLRI sections ---- *)
Lemma conv_ok_unpack ap n : conv_nlri_ok ap n = true ->
  wf_nlri n = true /\ n_fam n = Ipv4Unicast /\ (match n_pathid n with Some _ => true | None => false end) = ap.
Proof.
  unfold conv_nlri_ok. rewrite !andb_true_iff. intros [[H1 H2] H3]. split; [exact H1|]. split.
  - destruct (n_fam n); try discriminate; reflexivity.
  - now apply eqb_prop in H3.
Qed.

Lemma validate_concat ap l : forall bs pos fuel,
  forallb (conv_nlri_ok ap) l = true -> encode_all l = Ok bs -> (length l < fuel)%nat ->
  nlri_validate fuel Ipv4Unicast ap (mkP bs pos) = Ok tt.
Proof.
  induction l as [|n l IH]; intros bs pos fuel Hall He Hf; (destruct fuel as [|fuel]; [lia|]).
  - cbn in He. inversion He; subst. reflexivity.
  - cbn [forallb] in Hall. apply andb_true_iff in Hall as [Hn Hall]. apply conv_ok_unpack in Hn as (Hwf & Hk & Hap).
    cbn [encode_all] in He. destruct (compose_nlri n) as [a| |] eqn:Hc; cbn [bind] in He; try discriminate.
    destruct (encode_all l) as [r| |] eqn:Hr; cbn [bind] in He; try discriminate. inversion He; subst bs.
    cbn [nlri_validate]. pose proof (compose_nonempty n a Hwf Hc) as Hne.
    unfold remaining. cbn [p_rest]. rewrite app_length.
    match goal with |- context [Nat.eqb ?x 0] => destruct (Nat.eqb_spec x 0) as [E0|_]; [lia|] end.
    destruct (c05_rt_proof n r pos Hwf) as (a' & Hc' & Hp). rewrite Hc in Hc'. inversion Hc'; subst a'.
    rewrite Hk, Hap in Hp. rewrite Hp. cbn [bind]. apply (IH r); [assumption|reflexivity|cbn [length] in Hf; lia].
Qed.

Lemma conv_iter_concat ap l bs pos :
  forallb (conv_nlri_ok ap) l = true -> encode_all l = Ok bs ->
  nlri_iter (S (length bs)) Ipv4Unicast ap (mkP bs pos) = Some (map Ok l).
Proof.
  intros Hall He. apply (c05_concat_proof Ipv4Unicast ap l bs); [|exact He|].
  - apply Forall_forall. intros n Hn. rewrite forallb_forall in Hall. apply conv_ok_unpack. now apply Hall.
  - (* every NLRI is at least one octet long *)
    clear pos. revert bs He. induction l as [|n l IH]; intros bs He; [cbn; lia|].
    cbn [forallb] in Hall. apply andb_true_iff in Hall as [Hn Hall]. apply conv_ok_unpack in Hn as (Hwf & _ & _).
    cbn [encode_all] in He. destruct (compose_nlri n) as [a| |] eqn:Hc; cbn [bind] in He; try discriminate.
    destruct (encode_all l) as [r| |] eqn:Hr; cbn [bind] in He; try discriminate. inversion He; subst.
    pose proof (compose_nonempty n a Hwf Hc). specialize (IH Hall r eq_refl). rewrite app_length. cbn [length]. lia.
Qed.

(* ---- attribute sections ---- *)
Definition wire_flags (a : attr_spec) : N :=
  if Nat.ltb 255 (length (as_value a)) then set_ext (as_flags a) else as_flags a.

(* what the decoder reports for one encoded attribute *)
Definition expected_wattr (four : bool) (a : attr_spec) : wattr :=
  match attr_rule (as_code a) with
  | Some (cf, vr, _) =>
    if validate vr four (as_value a) then WTyped (as_code a) four (enc_attr a) else WInvalid cf (as_code a) (as_value a)
  | None => WUnimpl (wire_flags a) (as_code a) (enc_attr a)
  end.

Lemma wf_spec_unpack a : wf_spec a = true ->
  N.of_nat (length (as_value a)) <= 65535 /\ ((length (as_value a) <= 255)%nat -> has_ext (as_flags a) = false) /\
  (as_code a = 14 \/ as_code a = 15 -> (3 <= length (as_value a))%nat).
Proof.
  unfold wf_spec. rewrite !andb_true_iff. intros [[[[_ _] H3] H4] H5]. apply N.leb_le in H3. split; [exact H3|]. split.
  - intros Hle. apply orb_true_iff in H4 as [H4|H4]; [apply Nat.ltb_lt in H4; lia|now apply negb_true_iff in H4].
  - intros Hc. apply orb_true_iff in H5 as [H5|H5]; [|now apply Nat.leb_le in H5].
    apply negb_true_iff in H5. apply orb_false_iff in H5 as [A B]. apply N.eqb_neq in A, B. destruct Hc; congruence.
Qed.

Lemma enc_attr_len a : (3 <= length (enc_attr a))%nat.
Proof. unfold enc_attr, header. destruct (Nat.ltb 255 _); rewrite !app_length, ?be_length; cbn [length]; lia. Qed.

Lemma attrs_walk_frames four specs : forall fuel pos,
  forallb wf_spec specs = true -> (length specs < fuel)%nat ->
  attrs_walk fuel four (mkP (flat_map enc_attr specs) pos) = map (fun a => Ok (expected_wattr four a)) specs.
Proof.
  induction specs as [|a specs IH]; intros fuel pos Hwf Hf; (destruct fuel as [|fuel]; [lia|]); cbn [attrs_walk flat_map map].
  - reflexivity.
  - cbn [forallb] in Hwf. apply andb_true_iff in Hwf as [Ha Hwf]. apply wf_spec_unpack in Ha as (Hlen & Hext & _).
    unfold remaining. cbn [p_rest]. rewrite app_length. pose proof (enc_attr_len a).
    match goal with |- context [Nat.eqb ?x 0] => destruct (Nat.eqb_spec x 0) as [E0|_]; [lia|] end.
    unfold enc_attr at 1. rewrite <- app_assoc. rewrite frame by assumption. unfold frame_result, expected_wattr, wire_flags, enc_attr.
    destruct (attr_rule (as_code a)) as [[[cf vr] lr]|]; [destruct (validate vr four (as_value a))|];
      (f_equal; apply IH; [assumption|cbn [length] in Hf; lia]).
Qed.

(* the unchecked walk sees the same TLVs *)
Lemma unchecked_walk_cons fuel a rest pos :
  wf_spec a = true ->
  unchecked_walk (S fuel) (mkP (enc_attr a ++ rest) pos)
  = (wire_flags a, as_code a, enc_attr a) :: unchecked_walk fuel (mkP rest (pos + length (enc_attr a))).
Proof.
  intros Ha. apply wf_spec_unpack in Ha as (Hlen & Hext & _). cbn [unchecked_walk].
  unfold remaining. cbn [p_rest]. rewrite app_length. pose proof (enc_attr_len a).
  match goal with |- context [Nat.eqb ?x 0] => destruct (Nat.eqb_spec x 0) as [E0|_]; [lia|] end.
  unfold wire_flags, enc_attr, header.
  destruct (Nat.ltb 255 (length (as_value a))) eqn:E.
  - apply Nat.ltb_lt in E. cbn [app parse_u8 p_rest p_pos]. rewrite has_ext_set.
    unfold parse_u16, sat16. replace (65535 <? N.of_nat (length (as_value a))) with false by (symmetry; apply N.ltb_ge; lia).
    rewrite <- !app_assoc. rewrite parse_be_app by (cbn; lia). rewrite Nat2N.id.
    replace (set_ext (as_flags a) :: as_code a :: be 2 (N.of_nat (length (as_value a))) ++ as_value a ++ rest)
      with ((set_ext (as_flags a) :: as_code a :: be 2 (N.of_nat (length (as_value a))) ++ as_value a) ++ rest)
      by (cbn [app]; now rewrite <- app_assoc).
    rewrite take_app' by (cbn [length]; rewrite app_length, be_length; lia).
    cbn [length]. rewrite app_length, be_length.
    match goal with |- _ :: unchecked_walk _ (mkP _ ?x) = _ :: unchecked_walk _ (mkP _ ?y) => replace x with y by lia; reflexivity end.
  - apply Nat.ltb_ge in E. cbn [app parse_u8 p_rest p_pos]. rewrite (Hext E). cbn [parse_u8 p_rest p_pos].
    unfold sat8. replace (255 <? N.of_nat (length (as_value a))) with false by (symmetry; apply N.ltb_ge; lia). rewrite Nat2N.id.
    replace (as_flags a :: as_code a :: N.of_nat (length (as_value a)) :: as_value a ++ rest)
      with ((as_flags a :: as_code a :: N.of_nat (length (as_value a)) :: as_value a) ++ rest) by reflexivity.
    rewrite take_app' by (cbn [length]; lia).
    cbn [length].
    match goal with |- _ :: unchecked_walk _ (mkP _ ?x) = _ :: unchecked_walk _ (mkP _ ?y) => replace x with y by lia; reflexivity end.
Qed.

Lemma unchecked_walk_frames specs : forall fuel pos,
  forallb wf_spec specs = true -> (length specs < fuel)%nat ->
  unchecked_walk fuel (mkP (flat_map enc_attr specs) pos) = map (fun a => (wire_flags a, as_code a, enc_attr a)) specs.
Proof.
  induction specs as [|a specs IH]; intros fuel pos Hwf Hf; (destruct fuel as [|fuel]; [lia|]).
  - reflexivity.
  - cbn [forallb] in Hwf. apply andb_true_iff in Hwf as [Ha Hwf]. cbn [flat_map map].
    rewrite unchecked_walk_cons by assumption. f_equal. apply IH; [assumption|cbn [length] in Hf; lia].
Qed.

Lemma tlv_value_enc a : wf_spec a = true -> tlv_value (wire_flags a) (enc_attr a) = Ok (as_value a).
Proof.
  intros Hwf. apply wf_spec_unpack in Hwf as (Hlen & Hext & _). unfold tlv_value, wire_flags, enc_attr, header.
  destruct (Nat.ltb 255 (length (as_value a))) eqn:E.
  - rewrite has_ext_set. cbn [app length]. rewrite app_length. change (length (be 2 _)) with (length (be 2 (sat16 (length (as_value a))))).
    rewrite be_length. cbn [Nat.leb]. Local Transparent be. cbn [be app skipn]. Local Opaque be. reflexivity.
  - apply Nat.ltb_ge in E. rewrite (Hext E). cbn [app length Nat.leb skipn]. reflexivity.
Qed.

(* the family an MP attribute value starts with *)
Definition spec_family (a : attr_spec) : option (N * N) :=
  match mp_family (as_value a) with Ok (f, _) => Some f | _ => None end.

Fixpoint scan_spec (specs : list attr_spec) (r u : option (N * N)) : option (N * N) * option (N * N) :=
  match specs with
  | [] => (r, u)
  | a :: tl =>
    if as_code a =? 14 then scan_spec tl (spec_family a) u
    else if as_code a =? 15 then scan_spec tl r (spec_family a)
    else scan_spec tl r u
  end.

Lemma mp_family_ok v : (3 <= length v)%nat -> exists f p, mp_family v = Ok (f, p).
Proof.
  intros H. destruct v as [|a [|b [|c v]]]; cbn [length] in H; try lia.
  unfold mp_family, parse_u16, parse_be, take, parser_of, remaining. cbn. eauto.
Qed.

Lemma mp_scan_frames specs : forall r u,
  forallb wf_spec specs = true ->
  mp_scan (map (fun a => (wire_flags a, as_code a, enc_attr a)) specs) r u = Ok (scan_spec specs r u).
Proof.
  induction specs as [|a specs IH]; intros r u Hwf; cbn [map mp_scan scan_spec]; [reflexivity|].
  cbn [forallb] in Hwf. apply andb_true_iff in Hwf as [Ha Hwf]. pose proof (wf_spec_unpack a Ha) as (_ & _ & Hmp).
  destruct (N.eqb_spec (as_code a) 14) as [E14|N14].
  - rewrite tlv_value_enc by assumption. cbn [bind]. destruct (mp_family_ok (as_value a) (Hmp (or_introl E14))) as (f & p & Ef).
    unfold spec_family. rewrite Ef. cbn [bind]. now apply IH.
  - destruct (N.eqb_spec (as_code a) 15) as [E15|N15]; [|now apply IH].
    rewrite tlv_value_enc by assumption. cbn [bind]. destruct (mp_family_ok (as_value a) (Hmp (or_intror E15))) as (f & p & Ef).
    unfold spec_family. rewrite Ef. cbn [bind]. now apply IH.
Qed.

(* ---- the whole message ---- *)
Lemma marker_check_app rest pos : marker_check (mkP (marker ++ rest) pos) = Ok (mkP rest (pos + 16)).
Proof.
  unfold marker_check. rewrite take_app' by reflexivity. cbn [bind].
  replace (beq_bytes marker marker) with true by (vm_compute; reflexivity). reflexivity.
Qed.

Lemma encode_all_len ap l W : forallb (conv_nlri_ok ap) l = true -> encode_all l = Ok W -> (length l <= length W)%nat.
Proof.
  revert W. induction l as [|n l IH]; intros W Hall HW; [cbn; lia|].
  cbn [forallb] in Hall. apply andb_true_iff in Hall as [Hn Hl]. apply conv_ok_unpack in Hn as (Hw & _ & _).
  cbn [encode_all] in HW. destruct (compose_nlri n) as [a| |] eqn:Hc; cbn [bind] in HW; try discriminate.
  destruct (encode_all l) as [r| |] eqn:Hr; cbn [bind] in HW; try discriminate. inversion HW; subst.
  pose proof (compose_nonempty n a Hw Hc). specialize (IH r Hl eq_refl). rewrite app_length. cbn [length]. lia.
Qed.

Lemma all_ok_map {A} (f : attr_spec -> A) l : all_ok (map (fun a => Ok (f a)) l) = true.
Proof. induction l; cbn; auto. Qed.

Lemma section_step ap l W R pos :
  forallb (conv_nlri_ok ap) l = true -> encode_all l = Ok W ->
  (if 0 <? N.of_nat (length W) then
     let* (wp, p') := parse_parser (N.to_nat (N.of_nat (length W))) (mkP (W ++ R) pos) in
     let* _ := nlri_validate (S (remaining wp)) Ipv4Unicast ap wp in Ok p'
   else Ok (mkP (W ++ R) pos)) = Ok (mkP R (pos + length W)).
Proof.
  intros Hall HW. destruct (N.ltb_spec 0 (N.of_nat (length W))) as [Hpos|Hzero].
  - unfold parse_parser. rewrite Nat2N.id. rewrite take_app' by reflexivity. cbn [bind p_pos].
    rewrite (validate_concat ap l W); [reflexivity|assumption|assumption|].
    unfold remaining. cbn [p_rest]. pose proof (encode_all_len ap l W Hall HW). lia.
  - destruct W; [|cbn [length] in Hzero; lia]. cbn [app length]. f_equal. f_equal. lia.
Qed.

Lemma flat_enc_len specs : (3 * length specs <= length (flat_map enc_attr specs))%nat.
Proof. induction specs as [|a l IH]; cbn [flat_map length]; [lia|]. rewrite app_length. pose proof (enc_attr_len a). lia. Qed.

Lemma attr_step specs R pos :
  forallb wf_spec specs = true ->
  let A := flat_map enc_attr specs in
  (if 0 <? N.of_nat (length A) then
     let* (ap, p') := parse_parser (N.to_nat (N.of_nat (length A))) (mkP (A ++ R) pos) in
     if negb (all_ok (attrs_walk (S (remaining ap)) true ap)) then Err else
     let* fams := mp_scan (unchecked_walk (S (remaining ap)) ap) None None in Ok (p', fams)
   else Ok (mkP (A ++ R) pos, (None, None))) = Ok (mkP R (pos + length A), scan_spec specs None None).
Proof.
  intros Hwf A. pose proof (flat_enc_len specs) as Hl. fold A in Hl.
  destruct (N.ltb_spec 0 (N.of_nat (length A))) as [Hpos|Hzero].
  - unfold parse_parser. rewrite Nat2N.id. rewrite take_app' by reflexivity. cbn [bind p_pos]. unfold remaining. cbn [p_rest].
    subst A. rewrite attrs_walk_frames by (try assumption; lia). rewrite all_ok_map. cbn [negb].
    rewrite unchecked_walk_frames by (try assumption; lia). rewrite mp_scan_frames by assumption. reflexivity.
  - destruct specs as [|a specs]; [|cbn [length] in Hl; lia]. cbn. f_equal. f_equal. f_equal. lia.
Qed.

Section Decode.
  Variables (cfg : sconfig) (c : content) (W Nl : bytes).
  Hypothesis Hwf : wf_content cfg c = true.
  Hypothesis HW : encode_all (c_wd c) = Ok W.
  Hypothesis HN : encode_all (c_ann c) = Ok Nl.
  Let A := flat_map enc_attr (c_attrs c).
  Let total := (23 + length W + length A + length Nl)%nat.
  Hypothesis Hsize : N.of_nat total <= 65535.

  Let b := marker ++ be 2 (N.of_nat total) ++ [2] ++ be 2 (N.of_nat (length W)) ++ W ++ be 2 (N.of_nat (length A)) ++ A ++ Nl.
  Let conv_ap := rx_addpath cfg (1, 1).
  Let fams := scan_spec (c_attrs c) None None.
  Let rx (f : option (N * N)) := match f with Some f => rx_addpath cfg f | None => false end.
  Definition expected_upd : upd :=
    mkUpd total (21%nat, (21 + length W)%nat) ((23 + length W)%nat, (23 + length W + length A)%nat)
          ((23 + length W + length A)%nat, total)
          (mkPpi (sc_four cfg) conv_ap (rx (fst fams)) (rx (snd fams))).

  Lemma ref_encode_is : ref_encode c = Ok b.
  Proof. unfold ref_encode. rewrite HW, HN. reflexivity. Qed.

  Lemma wf_parts :
    forallb (conv_nlri_ok conv_ap) (c_wd c) = true /\ forallb (conv_nlri_ok conv_ap) (c_ann c) = true /\
    forallb wf_spec (c_attrs c) = true.
  Proof. unfold wf_content in Hwf. apply andb_true_iff in Hwf as [H12 H3]. apply andb_true_iff in H12 as [H1 H2]. auto. Qed.

  Lemma c01_parse_proof : parse_update cfg b = Ok expected_upd.
  Proof.
    destruct wf_parts as (Hwd & Hann & Hat).
    unfold parse_update, header_parse, parser_of. subst b.
    rewrite marker_check_app. cbn [bind]. unfold parse_u16.
    rewrite parse_be_app by (cbn; lia). cbn [bind app parse_u8 p_rest p_pos].
    replace (N.of_nat total <? 19) with false by (symmetry; apply N.ltb_ge; subst total; lia).
    cbn [N.eqb negb Pos.eqb].
    rewrite parse_be_app by (cbn; subst total; lia). cbn [bind p_pos].
    fold conv_ap. rewrite (section_step conv_ap (c_wd c) W) by assumption. cbn [bind p_pos].
    rewrite parse_be_app by (cbn; subst total; lia). cbn [bind p_pos].
    pose proof (attr_step (c_attrs c) Nl (S (0 + 16 + 2) + 2 + length W + 2) Hat) as Hstep. cbv zeta in Hstep. fold A in Hstep.
    rewrite Hstep. clear Hstep. cbn [bind p_pos].
    replace (Nat.ltb (N.to_nat (N.of_nat total) - 19) (S (0 + 16 + 2) + 2 + length W + 2 + length A - 19)) with false
      by (symmetry; apply Nat.ltb_ge; rewrite Nat2N.id; subst total; lia).
    unfold parse_parser.
    replace (N.to_nat (N.of_nat total) - 19 - (S (0 + 16 + 2) + 2 + length W + 2 + length A - 19))%nat with (length Nl)
      by (rewrite Nat2N.id; subst total; lia).
    assert (Tall : forall pos, take (length Nl) (mkP Nl pos) = Ok (Nl, mkP [] (pos + length Nl)))
      by (intros pos; pose proof (take_app' Nl [] pos (length Nl) eq_refl) as T; rewrite app_nil_r in T; exact T).
    rewrite Tall. cbn [bind p_pos].
    rewrite (validate_concat conv_ap (c_ann c) Nl); [|assumption|assumption|].
    2:{ unfold remaining. cbn [p_rest]. pose proof (encode_all_len conv_ap (c_ann c) Nl Hann HN). lia. }
    cbn [bind]. unfold expected_upd. f_equal. rewrite Nat2N.id. fold fams.
    f_equal; try (f_equal; subst total; lia).
  Qed.

  (* accessors on the decoded message *)
  Lemma b_split_wd : sub b (u_wd expected_upd) = W.
  Proof.
    unfold expected_upd. cbn [u_wd]. subst b.
    replace (marker ++ be 2 (N.of_nat total) ++ [2] ++ be 2 (N.of_nat (length W)) ++ W ++ be 2 (N.of_nat (length A)) ++ A ++ Nl)
      with ((marker ++ be 2 (N.of_nat total) ++ [2] ++ be 2 (N.of_nat (length W))) ++ W ++ (be 2 (N.of_nat (length A)) ++ A ++ Nl))
      by (rewrite <- !app_assoc; reflexivity).
    unfold sub. cbn [fst snd]. rewrite skipn_app.
    assert (L : length (marker ++ be 2 (N.of_nat total) ++ [2] ++ be 2 (N.of_nat (length W))) = 21%nat)
      by (rewrite !app_length, !be_length; reflexivity).
    rewrite L. rewrite skipn_all2 by lia. cbn [app]. rewrite Nat.sub_diag. cbn [skipn].
    replace (21 + length W - 21)%nat with (length W) by lia. now apply firstn_exact.
  Qed.

  Lemma b_split_attr : sub b (u_attr expected_upd) = A.
  Proof.
    unfold expected_upd. cbn [u_attr]. subst b.
    replace (marker ++ be 2 (N.of_nat total) ++ [2] ++ be 2 (N.of_nat (length W)) ++ W ++ be 2 (N.of_nat (length A)) ++ A ++ Nl)
      with ((marker ++ be 2 (N.of_nat total) ++ [2] ++ be 2 (N.of_nat (length W)) ++ W ++ be 2 (N.of_nat (length A))) ++ A ++ Nl)
      by (rewrite <- !app_assoc; reflexivity).
    unfold sub. cbn [fst snd]. rewrite skipn_app.
    assert (L : length (marker ++ be 2 (N.of_nat total) ++ [2] ++ be 2 (N.of_nat (length W)) ++ W ++ be 2 (N.of_nat (length A))) = (23 + length W)%nat)
      by (rewrite !app_length, !be_length; cbn [length marker repeat]; lia).
    rewrite L. rewrite skipn_all2 by lia. cbn [app]. rewrite Nat.sub_diag. cbn [skipn].
    replace (23 + length W + length A - (23 + length W))%nat with (length A) by lia. now apply firstn_exact.
  Qed.

  Lemma b_split_ann : sub b (u_ann expected_upd) = Nl.
  Proof.
    unfold expected_upd. cbn [u_ann]. subst b.
    replace (marker ++ be 2 (N.of_nat total) ++ [2] ++ be 2 (N.of_nat (length W)) ++ W ++ be 2 (N.of_nat (length A)) ++ A ++ Nl)
      with ((marker ++ be 2 (N.of_nat total) ++ [2] ++ be 2 (N.of_nat (length W)) ++ W ++ be 2 (N.of_nat (length A)) ++ A) ++ Nl)
      by (rewrite <- !app_assoc; reflexivity).
    unfold sub. cbn [fst snd]. rewrite skipn_app.
    assert (L : length (marker ++ be 2 (N.of_nat total) ++ [2] ++ be 2 (N.of_nat (length W)) ++ W ++ be 2 (N.of_nat (length A)) ++ A) = (23 + length W + length A)%nat)
      by (rewrite !app_length, !be_length; cbn [length marker repeat]; lia).
    rewrite L. rewrite skipn_all2 by lia. cbn [app]. rewrite Nat.sub_diag. cbn [skipn].
    replace (total - (23 + length W + length A))%nat with (length Nl) by (subst total; lia). apply firstn_all.
  Qed.

  Lemma c01_sections_proof :
    a_length expected_upd = length b /\ a_withdrawn_routes_len expected_upd = length W /\
    a_total_path_attribute_len expected_upd = length A.
  Proof.
    unfold a_length, a_withdrawn_routes_len, a_total_path_attribute_len, range_len, expected_upd. cbn [u_wd u_attr u_ann fst snd].
    subst b. rewrite !app_length, !be_length. cbn [length marker repeat]. subst total. repeat split; lia.
  Qed.

  Lemma c01_conv_proof :
    a_conv_withdrawals b expected_upd = Some (map Ok (c_wd c)) /\
    a_conv_announcements b expected_upd = Some (map Ok (c_ann c)).
  Proof.
    destruct wf_parts as (Hwd & Hann & _). unfold a_conv_withdrawals, a_conv_announcements, conv_iter.
    rewrite b_split_wd, b_split_ann. cbn [u_ppi expected_upd pp_conv].
    split; apply conv_iter_concat; assumption.
  Qed.

  Lemma c01_attrs_proof :
    a_path_attributes b expected_upd = map (fun a => Ok (expected_wattr (sc_four cfg) a)) (c_attrs c).
  Proof.
    destruct wf_parts as (_ & _ & Hat). unfold a_path_attributes, attr_bytes. rewrite b_split_attr.
    cbn [u_ppi expected_upd pp_four]. apply attrs_walk_frames; [assumption|].
    pose proof (flat_enc_len (c_attrs c)). fold A in H. lia.
  Qed.
End Decode.

(* ---- multiprotocol sections and End-of-RIB ---- *)
Lemma find_unchecked_map specs code a :
  find (fun s => as_code s =? code) specs = Some a ->
  find_unchecked (map (fun a => (wire_flags a, as_code a, enc_attr a)) specs) code = Some (wire_flags a, enc_attr a).
Proof.
  induction specs as [|s specs IH]; cbn [find map find_unchecked]; [discriminate|].
  destruct (as_code s =? code); [intros H; inversion H; subst; reflexivity|apply IH].
Qed.

Lemma find_none_map specs code :
  find (fun s => as_code s =? code) specs = None ->
  find_unchecked (map (fun a => (wire_flags a, as_code a, enc_attr a)) specs) code = None.
Proof.
  induction specs as [|s specs IH]; cbn [find map find_unchecked]; [reflexivity|].
  destruct (as_code s =? code); [discriminate|apply IH].
Qed.

Lemma mp_family_value fam rest : fst fam < 65536 -> snd fam < 256 ->
  mp_family (be 2 (fst fam) ++ [snd fam] ++ rest) = Ok (fam, mkP rest 3).
Proof.
  intros H1 H2. unfold mp_family, parser_of, parse_u16. rewrite parse_be_app by (cbn; lia). cbn [bind app parse_u8 p_rest p_pos].
  destruct fam. reflexivity.
Qed.

Section Mp.
  Variables (cfg : sconfig) (c : content) (W Nl : bytes).
  Hypothesis Hwf : wf_content cfg c = true.
  Hypothesis HW : encode_all (c_wd c) = Ok W.
  Hypothesis HN : encode_all (c_ann c) = Ok Nl.
  Let A := flat_map enc_attr (c_attrs c).
  Let total := (23 + length W + length A + length Nl)%nat.
  Hypothesis Hsize : N.of_nat total <= 65535.
  Let b := marker ++ be 2 (N.of_nat total) ++ [2] ++ be 2 (N.of_nat (length W)) ++ W ++ be 2 (N.of_nat (length A)) ++ A ++ Nl.
  Let u := expected_upd cfg c W Nl.

  Lemma a_unchecked_is : a_unchecked b u = map (fun a => (wire_flags a, as_code a, enc_attr a)) (c_attrs c).
  Proof.
    destruct (wf_parts cfg c Hwf) as (_ & _ & Hat). unfold a_unchecked, attr_bytes. subst u b A total.
    rewrite (b_split_attr cfg c W Nl Hsize). apply unchecked_walk_frames; [assumption|].
    pose proof (flat_enc_len (c_attrs c)). lia.
  Qed.

  (* announcements carried in an MP_REACH_NLRI attribute *)
  Lemma c01_mp_reach_proof a fam k nh l enc :
    find (fun s => as_code s =? 14) (c_attrs c) = Some a ->
    fst fam < 65536 -> snd fam < 256 -> fam_of fam = Some k -> N.of_nat (length nh) < 256 ->
    encode_all l = Ok enc ->
    Forall (fun n => wf_nlri n = true /\ n_fam n = k /\
                     (match n_pathid n with Some _ => true | None => false end) = pp_reach (u_ppi u)) l ->
    as_value a = mp_reach_value fam nh enc ->
    a_mp_announcements b u = Ok (Some (fam, Some (map Ok l))).
  Proof.
    intros Hfind Hf1 Hf2 Hk Hnh He Hall Hv.
    assert (Ha : wf_spec a = true).
    { destruct (wf_parts cfg c Hwf) as (_ & _ & Hat). rewrite forallb_forall in Hat. apply Hat.
      apply find_some in Hfind. tauto. }
    unfold a_mp_announcements, mp_iter. rewrite a_unchecked_is. rewrite (find_unchecked_map _ _ _ Hfind).
    rewrite tlv_value_enc by assumption. cbn [bind]. rewrite Hv. unfold mp_reach_value.
    rewrite mp_family_value by assumption. cbn [bind app parse_u8 p_rest p_pos].
    unfold advance. rewrite Nat2N.id. rewrite take_app' by reflexivity. cbn [bind app].
    unfold take. cbn [remaining p_rest length Nat.leb firstn skipn p_pos bind]. rewrite Hk.
    do 3 f_equal. unfold remaining. cbn [p_rest].
    apply (c05_concat_proof k (pp_reach (u_ppi u)) l enc); [exact Hall|exact He|].
    (* each NLRI is at least one octet *)
    clear -Hall He. revert enc He. induction Hall as [|n l (Hw & _ & _) Hall IH]; intros enc He; [cbn; lia|].
    cbn [encode_all] in He. destruct (compose_nlri n) as [x| |] eqn:Hc; cbn [bind] in He; try discriminate.
    destruct (encode_all l) as [r| |] eqn:Hr; cbn [bind] in He; try discriminate. inversion He; subst.
    pose proof (compose_nonempty n x Hw Hc). specialize (IH r eq_refl). rewrite app_length. cbn [length]. lia.
  Qed.

  (* the next hop carried in an MP_REACH_NLRI attribute, in each of the forms a family admits *)
  Lemma c01_mp_next_hop_proof a fam k nhv enc :
    find (fun s => as_code s =? 14) (c_attrs c) = Some a ->
    fst fam < 65536 -> snd fam < 256 -> fam_of fam = Some k -> nh_fits k nhv = true ->
    as_value a = mp_reach_value fam (nh_octets nhv) enc ->
    a_mp_next_hop b u = Ok (Some (fam, nhv)).
  Proof.
    intros Hfind Hf1 Hf2 Hk Hfit Hv.
    assert (Ha : wf_spec a = true).
    { destruct (wf_parts cfg c Hwf) as (_ & _ & Hat). rewrite forallb_forall in Hat. apply Hat.
      apply find_some in Hfind. tauto. }
    unfold a_mp_next_hop. rewrite a_unchecked_is. rewrite (find_unchecked_map _ _ _ Hfind).
    rewrite tlv_value_enc by assumption. cbn [bind]. rewrite Hv. unfold mp_reach_value.
    rewrite mp_family_value by assumption. cbn [bind]. unfold nh_parse. cbn [app parse_u8 p_rest p_pos bind]. rewrite Hk.
    destruct k, nhv; cbn [nh_fits] in Hfit; try discriminate; cbn [nh_octets];
      repeat match goal with
             | H : (_ || _) = true |- _ => apply orb_true_iff in H as [H|H]
             | H : (_ && _) = true |- _ => apply andb_true_iff in H as [? ?]
             | H : Nat.eqb _ _ = true |- _ => apply Nat.eqb_eq in H
             end;
      rewrite ?app_length;
      repeat match goal with H : length _ = _ |- _ => rewrite H end;
      cbn [length];
      repeat match goal with |- context [N.of_nat ?n =? ?m] => let r := eval vm_compute in (N.of_nat n =? m) in change (N.of_nat n =? m) with r end;
      cbn iota;
      rewrite <- ?app_assoc;
      repeat (rewrite take_app' by (symmetry; assumption); cbn [bind]);
      reflexivity.
  Qed.

  Lemma fam_eq_refl f : fam_eq f f = true.
  Proof. unfold fam_eq. now rewrite !N.eqb_refl. Qed.

  (* find_next_hop: the MP_REACH next hop for the family the attribute is for (IPv4 unicast included), an error for any other
     family except IPv4 unicast, which then falls back to the NEXT_HOP attribute *)
  Lemma c01_find_next_hop_proof a fam k nhv enc :
    find (fun s => as_code s =? 14) (c_attrs c) = Some a ->
    fst fam < 65536 -> snd fam < 256 -> fam_of fam = Some k -> nh_fits k nhv = true ->
    as_value a = mp_reach_value fam (nh_octets nhv) enc ->
    a_find_next_hop b u fam = Ok (FMp nhv) /\
    (forall probe, fam_eq fam probe = false -> fam_eq probe (1, 1) = false -> a_find_next_hop b u probe = Err) /\
    (fam_eq fam (1, 1) = false ->
     a_find_next_hop b u (1, 1) = match a_conventional_next_hop b u with Ok (Some x) => Ok (FConv x) | Panic => Panic | _ => Err end).
  Proof.
    intros Hfind Hf1 Hf2 Hk Hfit Hv. pose proof (c01_mp_next_hop_proof a fam k nhv enc Hfind Hf1 Hf2 Hk Hfit Hv) as Hm.
    unfold a_find_next_hop. rewrite Hm. split; [|split].
    - rewrite fam_eq_refl. destruct (fam_eq fam (1, 1)); reflexivity.
    - intros probe H1 H2. rewrite H2, H1. reflexivity.
    - intros H1. rewrite fam_eq_refl, H1. reflexivity.
  Qed.

  Lemma c01_find_next_hop_conventional_proof :
    find (fun s => as_code s =? 14) (c_attrs c) = None ->
    a_mp_next_hop b u = Ok None /\
    a_find_next_hop b u (1, 1) = match a_conventional_next_hop b u with Ok (Some x) => Ok (FConv x) | Panic => Panic | _ => Err end /\
    (forall probe, fam_eq probe (1, 1) = false -> a_find_next_hop b u probe = Err).
  Proof.
    intros Hnone.
    assert (Hm : a_mp_next_hop b u = Ok None).
    { unfold a_mp_next_hop. rewrite a_unchecked_is. now rewrite (find_none_map _ _ Hnone). }
    unfold a_find_next_hop. rewrite Hm. split; [reflexivity|]. split; [reflexivity|]. intros probe H. now rewrite H.
  Qed.

  Lemma c01_mp_unreach_proof a fam k l enc :
    find (fun s => as_code s =? 15) (c_attrs c) = Some a ->
    fst fam < 65536 -> snd fam < 256 -> fam_of fam = Some k ->
    encode_all l = Ok enc ->
    Forall (fun n => wf_nlri n = true /\ n_fam n = k /\
                     (match n_pathid n with Some _ => true | None => false end) = pp_unreach (u_ppi u)) l ->
    as_value a = mp_unreach_value fam enc ->
    a_mp_withdrawals b u = Ok (Some (fam, Some (map Ok l))).
  Proof.
    intros Hfind Hf1 Hf2 Hk He Hall Hv.
    assert (Ha : wf_spec a = true).
    { destruct (wf_parts cfg c Hwf) as (_ & _ & Hat). rewrite forallb_forall in Hat. apply Hat.
      apply find_some in Hfind. tauto. }
    unfold a_mp_withdrawals, mp_iter. rewrite a_unchecked_is. rewrite (find_unchecked_map _ _ _ Hfind).
    rewrite tlv_value_enc by assumption. cbn [bind]. rewrite Hv. unfold mp_unreach_value.
    rewrite mp_family_value by assumption. cbn [bind]. rewrite Hk.
    do 3 f_equal. unfold remaining. cbn [p_rest].
    apply (c05_concat_proof k (pp_unreach (u_ppi u)) l enc); [exact Hall|exact He|].
    clear -Hall He. revert enc He. induction Hall as [|n l (Hw & _ & _) Hall IH]; intros enc He; [cbn; lia|].
    cbn [encode_all] in He. destruct (compose_nlri n) as [x| |] eqn:Hc; cbn [bind] in He; try discriminate.
    destruct (encode_all l) as [r| |] eqn:Hr; cbn [bind] in He; try discriminate. inversion He; subst.
    pose proof (compose_nonempty n x Hw Hc). specialize (IH r eq_refl). rewrite app_length. cbn [length]. lia.
  Qed.

  Lemma c01_no_mp_proof code : find (fun s => as_code s =? code) (c_attrs c) = None ->
    forall ap skip, mp_iter b u code ap skip = Ok None.
  Proof. intros H ap skip. unfold mp_iter. rewrite a_unchecked_is. now rewrite find_none_map. Qed.

  (* End-of-RIB: exactly the empty UPDATE (IPv4 unicast) and the UPDATE whose only attribute is an
     empty MP_UNREACH_NLRI (that family); anything carrying NLRI is not End-of-RIB *)
  Lemma a_length_is : a_length u = total.
  Proof. unfold a_length, range_len. subst u. unfold expected_upd. cbn [u_wd u_attr u_ann fst snd]. subst total A. lia. Qed.

  Lemma c01_eor_conventional_proof : c_wd c = [] -> c_attrs c = [] -> c_ann c = [] -> a_is_eor b u = Some (1, 1).
  Proof.
    intros H1 H2 H3. unfold a_is_eor. rewrite a_length_is. subst total A. rewrite H1 in HW. rewrite H3 in HN.
    cbn in HW, HN. inversion HW; inversion HN; subst. rewrite H2. reflexivity.
  Qed.

  Lemma ranges_are : range_len (u_wd u) = length W /\ range_len (u_ann u) = length Nl.
  Proof. subst u. unfold expected_upd, range_len. cbn [u_wd u_ann fst snd]. subst total A. split; lia. Qed.

  Lemma c01_eor_mp_proof a fam k :
    c_wd c = [] -> c_ann c = [] -> c_attrs c = [a] -> as_code a = 15 ->
    fst fam < 65536 -> snd fam < 256 -> fam_of fam = Some k -> as_value a = mp_unreach_value fam [] ->
    a_is_eor b u = Some fam.
  Proof.
    intros H1 H3 H2 Hc Hf1 Hf2 Hk Hv. unfold a_is_eor. rewrite a_length_is.
    assert (EW : length W = 0%nat) by (rewrite H1 in HW; cbn in HW; inversion HW; reflexivity).
    assert (EN : length Nl = 0%nat) by (rewrite H3 in HN; cbn in HN; inversion HN; reflexivity).
    pose proof (enc_attr_len a) as La.
    assert (Et : Nat.eqb total 23 = false).
    { apply Nat.eqb_neq. subst total A. rewrite H2. cbn [flat_map]. rewrite app_nil_r, EW, EN. lia. }
    rewrite Et. destruct ranges_are as [R1 R2]. rewrite R1, R2, EW, EN. cbn [Nat.eqb andb].
    rewrite a_unchecked_is, H2. cbn [map]. rewrite Hc. cbn [N.eqb Pos.eqb].
    assert (Hfind : find (fun s => as_code s =? 15) (c_attrs c) = Some a) by (rewrite H2; cbn [find]; rewrite Hc; reflexivity).
    rewrite (c01_mp_unreach_proof a fam k [] [] Hfind Hf1 Hf2 Hk eq_refl (Forall_nil _) Hv). reflexivity.
  Qed.

  Lemma c01_not_eor_with_conventional_nlri_proof :
    (c_wd c <> [] \/ c_ann c <> []) -> a_is_eor b u = None.
  Proof.
    intros Hne. destruct (wf_parts cfg c Hwf) as (Hwd & Hann & _). unfold a_is_eor. rewrite a_length_is.
    pose proof (encode_all_len _ _ _ Hwd HW) as L1. pose proof (encode_all_len _ _ _ Hann HN) as L2.
    assert (Hpos : (0 < length W \/ 0 < length Nl)%nat).
    { destruct Hne as [H|H]; [left; destruct (c_wd c); [contradiction|cbn [length] in L1; lia]
                             |right; destruct (c_ann c); [contradiction|cbn [length] in L2; lia]]. }
    replace (Nat.eqb total 23) with false by (symmetry; apply Nat.eqb_neq; subst total; lia).
    destruct ranges_are as [R1 R2]. rewrite R1, R2.
    destruct Hpos as [H|H].
    - replace (Nat.eqb (length W) 0) with false by (symmetry; apply Nat.eqb_neq; lia). reflexivity.
    - replace (Nat.eqb (length Nl) 0) with false by (symmetry; apply Nat.eqb_neq; lia).
      now rewrite andb_false_r.
  Qed.
End Mp.

Lemma tbl_lookup_some_in l c r : tbl_lookup l c = Some r -> In (c, r) l.
Proof.
  induction l as [|[c' r'] l IH]; cbn [tbl_lookup]; [discriminate|].
  destruct (N.eqb_spec c' c); [intros H; inversion H; subst; now left|intros H; right; auto].
Qed.

Lemma rule_small c cf vr lr : attr_rule c = Some (cf, vr, lr) -> c < 256 /\ cf < 256 /\ c <> 14 /\ c <> 15.
Proof.
  intros H. apply tbl_lookup_some_in in H.
  assert (G : forallb (fun e => (fst e <? 256) && (fst (fst (snd e)) <? 256) && negb (fst e =? 14) && negb (fst e =? 15)) attr_table = true)
    by (vm_compute; reflexivity).
  rewrite forallb_forall in G. specialize (G _ H). cbn [fst snd] in G.
  rewrite !andb_true_iff, !negb_true_iff, !N.ltb_lt, !N.eqb_neq in G. tauto.
Qed.

(* a typed attribute value placed in the message comes back as that value (4-octet session) *)
Lemma c01_typed_value_proof x v :
  wf_attr x = true -> value_bytes x = Ok v ->
  let a := mkAS (canon_flags (attr_code x)) (attr_code x) v in
  wf_spec a = true /\ enc_attr a = header (canon_flags (attr_code x)) (attr_code x) (length v) ++ v /\
  to_owned (expected_wattr true a) = Ok x.
Proof.
  intros Hwf Hv a. destruct (value_facts x Hwf) as (v' & cf & vr & lr & Hv' & Hr & Hl & Hval & Hp & Hsz & Hcf).
  rewrite Hv in Hv'. inversion Hv'; subst v'. destruct (rule_small _ _ _ _ Hr) as (C & F & N14 & N15).
  split; [|split; [reflexivity|]].
  - unfold wf_spec, a. cbn [as_flags as_code as_value]. unfold canon_flags. rewrite Hr.
    rewrite !andb_true_iff. repeat split.
    + now apply N.ltb_lt.
    + now apply N.ltb_lt.
    + now apply N.leb_le.
    + rewrite Hcf. cbn. apply orb_true_r.
    + apply orb_true_iff. left. apply negb_true_iff. apply orb_false_iff. split; now apply N.eqb_neq.
  - unfold expected_wattr, a. cbn [as_flags as_code as_value]. rewrite Hr, Hval.
    unfold enc_attr. cbn [as_flags as_code as_value]. rewrite to_owned_typed; [exact Hp|]. intros _. unfold canon_flags. now rewrite Hr.
Qed.
