(* C07, the builder route without side conditions on the NLRI: what add_announcements_from_pdu / add_withdrawals_from_pdu hand to
   the builder are values the NLRI decoder produced from the octets of the message, and every such value is well-formed
   (Proofs/NlriDecoded.v), of the builder's family, with a path identifier exactly when the type parses one. *)
From Coq Require Import List NArith Bool Lia ZArith.
From RC Require Import Base.Res Base.Wire Model.Open Model.Negotiate Model.Nlri Gen.AttrRules Model.AsPath Model.Attr
     Model.Update Model.RefEncUpdate Gen.BuilderConsts Model.Builder
     Proofs.WireProofs Proofs.NlriProofs Proofs.NlriDecoded Proofs.AttrProofs Proofs.UpdateTotal Proofs.C01Proofs Proofs.C07Proofs Proofs.C06Proofs Proofs.C06Bytes Proofs.C07Msg.
Import ListNotations.
Local Open Scope N_scope.
Local Arguments N.of_nat : simpl never.
Local Arguments Nat.mul : simpl never.

Lemma wf_firstn n l : wf_bytes l -> wf_bytes (firstn n l).
Proof. unfold wf_bytes. intros H. rewrite <- (firstn_skipn n l) in H. now apply Forall_app in H as (A & _). Qed.
Lemma wf_skipn n l : wf_bytes l -> wf_bytes (skipn n l).
Proof. unfold wf_bytes. intros H. rewrite <- (firstn_skipn n l) in H. now apply Forall_app in H as (_ & B). Qed.
Lemma wf_sub b r : wf_bytes b -> wf_bytes (sub b r).
Proof. intros H. unfold sub. now apply wf_firstn, wf_skipn. Qed.

Lemma unchecked_walk_wf : forall fuel p, wf_bytes (p_rest p) ->
  Forall (fun e => wf_bytes (snd e)) (unchecked_walk fuel p).
Proof.
  induction fuel as [|f IH]; intros p Hw; cbn [unchecked_walk]; [constructor|].
  destruct (Nat.eqb (remaining p) 0); [constructor|].
  destruct (parse_u8 p) as [[flags p1]| |]; try constructor.
  destruct (parse_u8 p1) as [[code p2]| |]; try constructor.
  destruct (if has_ext flags then parse_u16 p2 else parse_u8 p2) as [[len q]| |]; try constructor.
  destruct (take _ p) as [[tlv p']| |] eqn:Et; try constructor.
  - cbn [snd]. now destruct (take_wf _ _ _ _ Hw Et) as (A & _ & _).
  - apply IH. now destruct (take_wf _ _ _ _ Hw Et) as (_ & _ & C).
Qed.

Lemma find_unchecked_wf l code f tlv :
  Forall (fun e => wf_bytes (snd e)) l -> find_unchecked l code = Some (f, tlv) -> wf_bytes tlv.
Proof.
  induction l as [|[[f0 c0] t0] l IH]; intros Hl H; [discriminate|]. cbn [find_unchecked] in H. inversion Hl; subst.
  destruct (c0 =? code); [|now apply IH]. inversion H; subst. assumption.
Qed.

Section Typed.
  Variables (b : bytes) (u : upd).
  Hypothesis Hwf : wf_bytes b.

  Lemma typed_mp_wf code k ap skip it :
    typed_mp b u code k ap skip = Ok (Some it) ->
    forall n, In (Ok n) it -> wf_nlri n = true /\ n_fam n = k /\ has_pid n = ap.
  Proof.
    unfold typed_mp. destruct (find_unchecked (a_unchecked b u) code) as [[f tlv]|] eqn:Ef; [|discriminate].
    assert (Wt : wf_bytes tlv).
    { eapply find_unchecked_wf; [|exact Ef]. unfold a_unchecked. apply unchecked_walk_wf. cbn [p_rest]. unfold attr_bytes. now apply wf_sub. }
    intros H. binv H. unfold tlv_value in E. destruct (Nat.leb _ (length tlv)); [|discriminate]. apply Ok_inj in E. subst x.
    binv H. destruct x as [fam p0]. unfold mp_family in E. binv E. destruct x as [afi q0].
    assert (W0 : wf_bytes (p_rest (parser_of (skipn (if has_ext f then 4%nat else 3%nat) tlv)))) by (cbn [parser_of p_rest]; now apply wf_skipn).
    destruct (parse_be_wf _ _ _ _ W0 E0) as (_ & W1). binv E. destruct x as [safi q1]. destruct (parse_u8_wf _ _ _ W1 E1) as (_ & W2).
    apply Ok_inj in E. inversion E; subst.
    destruct (negb _); [discriminate|]. binv H.
    assert (W3 : wf_bytes (p_rest x)).
    { destruct skip.
      - binv E2. destruct x0 as [nhl q2]. destruct (parse_u8_wf _ _ _ W2 E3) as (_ & W3). binv E2.
        unfold advance in E4. binv E4. destruct x1 as [v q3]. apply Ok_inj in E4. subst x0. destruct (take_wf _ _ _ _ W3 E5) as (_ & _ & W4).
        unfold advance in E2. binv E2. destruct x0 as [v' q4]. apply Ok_inj in E2. subst x. now destruct (take_wf _ _ _ _ W4 E4) as (_ & _ & W5).
      - apply Ok_inj in E2. now subst x. }
    apply Ok_inj in H. intros n Hin. eapply nlri_iter_wf; [exact W3|exact H|exact Hin].
  Qed.

  Lemma typed_conv_wf r ap it :
    typed_conv b r ap = Some it -> forall n, In (Ok n) it -> wf_nlri n = true /\ n_fam n = Ipv4Unicast /\ has_pid n = ap.
  Proof.
    unfold typed_conv. intros H n Hin. eapply nlri_iter_wf; [|exact H|exact Hin]. cbn [p_rest]. now apply wf_sub.
  Qed.

  Lemma typed_announcements_wf k ap it :
    typed_announcements b u k ap = Ok (Some it) ->
    forall n, In (Ok n) it -> wf_nlri n = true /\ n_fam n = k /\ has_pid n = ap.
  Proof.
    unfold typed_announcements. destruct (_ && _) eqn:Ec.
    - apply andb_true_iff in Ec as (Ek & _). destruct k; try discriminate. intros H. apply Ok_inj in H. now apply typed_conv_wf with (r := u_ann u).
    - apply typed_mp_wf.
  Qed.

  Lemma typed_withdrawals_wf k ap it :
    typed_withdrawals b u k ap = Ok (Some it) ->
    forall n, In (Ok n) it -> wf_nlri n = true /\ n_fam n = k /\ has_pid n = ap.
  Proof.
    unfold typed_withdrawals. destruct (_ && _) eqn:Ec.
    - apply andb_true_iff in Ec as (Ek & _). destruct k; try discriminate. intros H. apply Ok_inj in H. now apply typed_conv_wf with (r := u_wd u).
    - apply typed_mp_wf.
  Qed.
End Typed.

Definition nlri_ok (k : famkind) (ap : bool) (n : nlri) : Prop := wf_nlri n = true /\ n_fam n = k /\ has_pid n = ap.

(* the NLRI a builder seeded from a message ends up with *)
Lemma readded_ok b u k ap m bd1 bd2 :
  wf_bytes b ->
  add_announcements_from_pdu b u ap (mkB k None None m) = Ok bd1 -> add_withdrawals_from_pdu b u ap bd1 = Ok bd2 ->
  Forall (nlri_ok k ap) (ann_of bd2) /\ Forall (nlri_ok k ap) (wd_of bd2).
Proof.
  intros Hwf Ha Hw.
  destruct (add_ann_spec _ _ _ _ _ Ha) as (A1 & A2 & A3 & A4). destruct (add_wd_spec _ _ _ _ _ Hw) as (W1 & W2 & W3 & W4).
  cbn [bd_fam bd_attrs bd_wd bd_ann] in *. split.
  - unfold ann_of. rewrite W3. destruct A4 as [->|(l & E & Hl)]; [constructor|]. rewrite E. cbn [r_ann app].
    destruct (typed_announcements b u k ap) as [[it|]| |] eqn:Et; try (subst l; constructor).
    subst it. apply Forall_forall. intros n Hin. apply (typed_announcements_wf b u Hwf k ap (map Ok l) Et). now apply in_map.
  - unfold wd_of. destruct W4 as [->|(l & E & Hl)].
    + rewrite A3. constructor.
    + rewrite E, A3. cbn [app]. rewrite A1 in Hl.
      destruct (typed_withdrawals b u k ap) as [[it|]| |] eqn:Et; try (subst l; constructor).
      subst it. apply Forall_forall. intros n Hin. apply (typed_withdrawals_wf b u Hwf k ap (map Ok l) Et). now apply in_map.
Qed.

(* C07 through the builder, no hypothesis left on the re-added NLRI: the type A of the builder is the family [k], parsed with path
   identifiers exactly when the session receives them for that family *)
Lemma c07_builder_full_proof cfg b u k m bd1 bd2 m' :
  parse_update cfg b = Ok u -> wf_bytes b -> N.of_nat (3 * length b) <= 65535 ->
  a_pamap b u = Ok m ->
  let ap := rx_addpath cfg (fam_code k) in
  add_announcements_from_pdu b u ap (mkB k None None m) = Ok bd1 -> add_withdrawals_from_pdu b u ap bd1 = Ok bd2 ->
  into_message cfg bd2 = Ok (MOk m') ->
  bd_attrs bd2 = m /\ bd_fam bd2 = k /\
  exists u', parse_update cfg m' = Ok u' /\ (length m' <= bc_max_pdu)%nat /\ a_length u' = length m' /\
    a_conv_withdrawals m' u' = Some [] /\ a_conv_announcements m' u' = Some [] /\
    a_mp_announcements m' u' = Ok (match bd_ann bd2 with Some r => Some (fam_code k, Some (map Ok (r_ann r))) | None => None end) /\
    a_mp_withdrawals m' u' = Ok (match bd_wd bd2 with Some w => Some (fam_code k, Some (map Ok w)) | None => None end).
Proof.
  intros Hp Hwf Hsz Hm ap Ha Hw Hmsg.
  destruct (readded_ok b u k ap m bd1 bd2 Hwf Ha Hw) as (Fa & Fw).
  apply (c07_builder_proof cfg b u k ap m bd1 bd2 m' Hp Hwf Hsz Hm Ha Hw); [| | |exact Hmsg].
  - apply forallb_forall. intros n Hin. rewrite Forall_forall in Fa. now destruct (Fa n Hin).
  - apply forallb_forall. intros n Hin. rewrite Forall_forall in Fw. now destruct (Fw n Hin).
  - apply Forall_app. split; [eapply Forall_impl; [|exact Fa]|eapply Forall_impl; [|exact Fw]]; intros n (_ & A & B); split; auto.
Qed.

(* ---- the attributes of the rebuilt message, decoded as a whole ---- *)
Lemma map_Ok_inj {A} (l1 l2 : list A) : map (@Ok A) l1 = map (@Ok A) l2 -> l1 = l2.
Proof.
  revert l2. induction l1 as [|x l1 IH]; intros [|y l2] H; try discriminate; [reflexivity|].
  cbn [map] in H. inversion H; subst. f_equal. now apply IH.
Qed.

(* under a four-octet session the path attributes of the message a builder emits are: MP_REACH_NLRI (if it announces), MP_UNREACH_NLRI
   (if it withdraws), then exactly the attributes of its map, in key order, each decoding to the attribute it was composed from *)
Lemma built_attributes cfg bd m' m out :
  sc_four cfg = true ->
  wf_builder bd = true -> into_message cfg bd = Ok (MOk m') -> bd_attrs bd = m ->
  pamap_compose m = Ok out ->
  (forall pos, exists ws', attrs_walk (S (length out)) true (mkP out pos) = map Ok ws' /\ Forall2 same_attr (map snd m) ws') ->
  exists u' mp ws', parse_update cfg m' = Ok u' /\
    a_path_attributes m' u' = map Ok (mp ++ ws') /\ Forall2 same_attr (map snd m) ws' /\
    Forall (fun w => wattr_code w = 14 \/ wattr_code w = 15) mp /\
    length mp = ((match bd_ann bd with Some _ => 1 | None => 0 end) + (match bd_wd bd with Some _ => 1 | None => 0 end))%nat.
Proof.
  intros Hfour Hwf Hm Hattrs Hout Hwalk.
  destruct (into_message_ok _ _ _ Hm) as (_ & n & Hc & Hn & Hf & _).
  assert (Hn16 : N.of_nat n <= 65535).
  { assert (N.of_nat bc_max_pdu <= 65535) by (vm_compute; discriminate). lia. }
  destruct (finish_ref bd n Hwf Hc Hn16) as (c & m0 & Hco & Hf' & Href & Hlen & Hspecs & Hcw & Hca).
  rewrite Hf in Hf'. apply Ok_inj in Hf'. subst m0.
  assert (Hwfc : wf_content cfg c = true) by (unfold wf_content; rewrite Hcw, Hca, Hspecs; reflexivity).
  assert (HW : encode_all (c_wd c) = Ok []) by (rewrite Hcw; reflexivity).
  assert (HN : encode_all (c_ann c) = Ok []) by (rewrite Hca; reflexivity).
  pose proof (ref_encode_is c [] [] HW HN) as Href'. rewrite Href in Href'. apply Ok_inj in Href'. rename Href' into Hm_eq.
  assert (Hsize : N.of_nat (23 + length (@nil N) + length (flat_map enc_attr (c_attrs c)) + length (@nil N)) <= 65535).
  { rewrite Hm_eq in Hlen. rewrite !app_length, !be_length in Hlen. cbn [length] in Hlen.
    assert (Hml : length marker = 16%nat) by reflexivity. rewrite Hml in Hlen. cbn [length]. lia. }
  pose proof (c01_parse_proof cfg c [] [] Hwfc HW HN Hsize) as P. rewrite <- Hm_eq in P.
  pose proof (c01_attrs_proof cfg c [] [] Hwfc Hsize) as PA. rewrite <- Hm_eq in PA. rewrite Hfour in PA.
  (* the content: MP attributes, then the specs of the map *)
  unfold wf_builder in Hwf. rewrite !andb_true_iff in Hwf. destruct Hwf as (((Ha & Hw) & Hmap) & Hnh).
  destruct (specs_of_spec _ Hmap) as (specs & S0 & S1 & _ & S3 & S4).
  unfold content_of in Hco. rewrite S0 in Hco.
  assert (Hc_attrs : exists ra ua, c_attrs c = ra ++ ua ++ specs /\
            Forall (fun s => as_code s = 14 \/ as_code s = 15) (ra ++ ua) /\
            length (ra ++ ua) = ((match bd_ann bd with Some _ => 1 | None => 0 end) + (match bd_wd bd with Some _ => 1 | None => 0 end))%nat).
  { destruct (bd_ann bd) as [r|]; [destruct (encode_all (r_ann r)) as [ea| |]; cbn [bind] in Hco; try discriminate|cbn [bind] in Hco];
      (destruct (bd_wd bd) as [w|]; [destruct (encode_all w) as [ew| |]; cbn [bind] in Hco; try discriminate|cbn [bind] in Hco]);
      apply Ok_inj in Hco; subst c; cbn [c_attrs]; do 2 eexists; (split; [reflexivity|]); split;
      try (repeat constructor; cbn [as_code]; auto); reflexivity. }
  destruct Hc_attrs as (ra & ua & Ec & Hmp & Lmp).
  (* the map part *)
  rewrite Hattrs in S1. rewrite Hout in S1. apply Ok_inj in S1.
  destruct (Hwalk 0%nat) as (ws' & W1 & W2).
  assert (Ews : ws' = map (expected_wattr true) specs).
  { rewrite S1 in W1. pose proof (flat_enc_len specs) as Hfl.
    rewrite (attrs_walk_frames true specs (S (length (flat_map enc_attr specs))) 0%nat S3) in W1 by lia.
    rewrite <- map_map in W1. symmetry. now apply map_Ok_inj. }
  exists (expected_upd cfg c [] []), (map (expected_wattr true) (ra ++ ua)), ws'.
  split; [exact P|]. split; [|split; [exact W2|split]].
  - rewrite PA, Ec, Ews, app_assoc, !map_app, !map_map. reflexivity.
  - apply Forall_forall. intros w Hin. apply in_map_iff in Hin as (s & <- & Hs). rewrite Forall_forall in Hmp. specialize (Hmp s Hs).
    unfold expected_wattr. destruct (attr_rule (as_code s)) as [[[cf vr] lr]|] eqn:Er.
    + destruct (rule_small _ _ _ _ Er) as (_ & _ & N14 & N15). destruct Hmp; congruence.
    + cbn [wattr_code]. exact Hmp.
  - now rewrite map_length.
Qed.

Lemma seeded_builder_wf cfg b u k ap m bd1 bd2 :
  parse_update cfg b = Ok u -> wf_bytes b -> N.of_nat (3 * length b) <= 65535 ->
  a_pamap b u = Ok m ->
  add_announcements_from_pdu b u ap (mkB k None None m) = Ok bd1 -> add_withdrawals_from_pdu b u ap bd1 = Ok bd2 ->
  wf_builder bd2 = true /\ bd_attrs bd2 = m.
Proof.
  intros Hp Hwf Hsz Hm Ha Hw.
  destruct (c07_seed_proof cfg b u k Hp Hwf Hsz) as (m0 & M1 & _ & M3). rewrite Hm in M1. apply Ok_inj in M1. subst m0.
  destruct (readded_ok b u k ap m bd1 bd2 Hwf Ha Hw) as (Fa & Fw).
  destruct (add_ann_spec _ _ _ _ _ Ha) as (A1 & A2 & A3 & A4). destruct (add_wd_spec _ _ _ _ _ Hw) as (W1 & W2 & W3 & W4).
  cbn [bd_fam bd_attrs bd_wd bd_ann] in *.
  assert (Hattrs : bd_attrs bd2 = m) by congruence. split; [|exact Hattrs].
  assert (Wa : forallb wf_nlri (ann_of bd2) = true).
  { apply forallb_forall. intros n Hin. rewrite Forall_forall in Fa. now destruct (Fa n Hin). }
  assert (Ww : forallb wf_nlri (wd_of bd2) = true).
  { apply forallb_forall. intros n Hin. rewrite Forall_forall in Fw. now destruct (Fw n Hin). }
  unfold wf_builder. rewrite Wa, Ww, Hattrs, M3. cbn [andb]. rewrite W3.
  destruct A4 as [->|(l & E & _)]; [reflexivity|]. rewrite E. cbn [r_nh]. apply default_nh_wf.
Qed.

(* C07 through the builder, complete: the rebuilt message decodes, under the four-octet configuration, to the MP attributes followed
   by exactly the attributes of the original message's map, each with the same content; and its NLRI are those of the original *)
Lemma c07_builder_complete_proof cfg b u k m bd1 bd2 m' :
  sc_four cfg = true ->
  parse_update cfg b = Ok u -> wf_bytes b -> N.of_nat (3 * length b) <= 65535 ->
  a_pamap b u = Ok m ->
  let ap := rx_addpath cfg (fam_code k) in
  add_announcements_from_pdu b u ap (mkB k None None m) = Ok bd1 -> add_withdrawals_from_pdu b u ap bd1 = Ok bd2 ->
  into_message cfg bd2 = Ok (MOk m') ->
  exists u' mp ws', parse_update cfg m' = Ok u' /\
    a_path_attributes m' u' = map Ok (mp ++ ws') /\ Forall2 same_attr (map snd m) ws' /\
    Forall (fun w => wattr_code w = 14 \/ wattr_code w = 15) mp /\
    length mp = ((match bd_ann bd2 with Some _ => 1 | None => 0 end) + (match bd_wd bd2 with Some _ => 1 | None => 0 end))%nat /\
    a_conv_withdrawals m' u' = Some [] /\ a_conv_announcements m' u' = Some [] /\
    a_mp_announcements m' u' = Ok (match bd_ann bd2 with Some r => Some (fam_code k, Some (map Ok (r_ann r))) | None => None end) /\
    a_mp_withdrawals m' u' = Ok (match bd_wd bd2 with Some w => Some (fam_code k, Some (map Ok w)) | None => None end).
Proof.
  intros Hfour Hp Hwf Hsz Hm ap Ha Hw Hmsg.
  destruct (seeded_builder_wf cfg b u k ap m bd1 bd2 Hp Hwf Hsz Hm Ha Hw) as (Hwfb & Hattrs).
  destruct (c07_pamap_proof cfg b u Hp Hwf Hsz) as (m0 & out & M1 & _ & _ & _ & M5 & M6). rewrite Hm in M1. apply Ok_inj in M1. subst m0.
  destruct (built_attributes cfg bd2 m' m out Hfour Hwfb Hmsg Hattrs M5 M6) as (u' & mp & ws' & B1 & B2 & B3 & B4 & B5).
  destruct (c07_builder_full_proof cfg b u k m bd1 bd2 m' Hp Hwf Hsz Hm Ha Hw Hmsg) as (_ & _ & u'' & C1 & _ & _ & C4 & C5 & C6 & C7).
  rewrite B1 in C1. apply Ok_inj in C1. subst u''.
  exists u', mp, ws'. repeat split; assumption.
Qed.
