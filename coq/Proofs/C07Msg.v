(* C07: re-encoding the attributes of a whole message - directly, through the attribute map, through a builder. *)
From Coq Require Import List NArith Bool Lia ZArith.
From RC Require Import Base.Res Base.Wire Model.Open Model.Negotiate Model.Nlri Gen.AttrRules Model.AsPath Model.Attr
     Model.Update Gen.BuilderConsts Model.Builder
     Proofs.WireProofs Proofs.AttrProofs Proofs.UpdateTotal Proofs.C07Proofs Proofs.C01Proofs Proofs.C06Proofs Proofs.C06Bytes.
Import ListNotations.
Local Open Scope N_scope.
Local Arguments N.of_nat : simpl never.
Local Arguments Nat.mul : simpl never.

(* ---- a list of owned attributes, composed back to back, decodes item by item ---- *)
Lemma reencode_one' x : reenc_wf x ->
  exists bs, compose x = Ok bs /\ (3 <= length bs)%nat /\
    forall rest pos, exists w', wire_attr_parse true (mkP (bs ++ rest) pos) = Ok (w', mkP rest (pos + length bs)) /\ same_attr x w'.
Proof.
  intros H. destruct (reencode_one x [] 0%nat H) as (bs & _ & C0 & L & _ & _). exists bs. split; [exact C0|]. split; [exact L|].
  intros rest pos. destruct (reencode_one x rest pos H) as (bs' & w' & C1 & _ & C3 & C4).
  rewrite C0 in C1. apply Ok_inj in C1. subst bs'. eauto.
Qed.

Lemma reencode_all : forall xs, Forall reenc_wf xs ->
  exists out, compose_all xs = Ok out /\ (3 * length xs <= length out)%nat /\
    forall pos, exists ws', (forall fuel, (length xs < fuel)%nat -> attrs_walk fuel true (mkP out pos) = map Ok ws') /\
                            Forall2 same_attr xs ws'.
Proof.
  induction xs as [|x xs IH]; intros H.
  - exists []. split; [reflexivity|]. split; [cbn; lia|]. intros pos. exists []. split; [|constructor].
    intros fuel Hf. destruct fuel; [lia|]. reflexivity.
  - inversion H as [|? ? Hx Hxs]; subst. destruct (IH Hxs) as (out & E1 & E2 & E3).
    destruct (reencode_one' x Hx) as (bs & C0 & L & C3).
    exists (bs ++ out). cbn [compose_all]. rewrite C0, E1. cbn [bind]. split; [reflexivity|].
    split; [rewrite app_length; cbn [length]; lia|]. intros pos.
    destruct (C3 out pos) as (w' & P & S). destruct (E3 (pos + length bs)%nat) as (ws' & W & F).
    exists (w' :: ws'). split; [|constructor; assumption].
    intros fuel Hf. destruct fuel as [|fuel]; [lia|]. cbn [attrs_walk]. unfold remaining. cbn [p_rest].
    replace (Nat.eqb (length (bs ++ out)) 0) with false by (symmetry; apply Nat.eqb_neq; rewrite app_length; lia).
    rewrite P. cbn [map]. f_equal. apply W. cbn [length] in Hf. lia.
Qed.

(* ---- the items of a walk over well-formed octets convert to re-encodable owned values ---- *)
Lemma walk_owned four : forall fuel p,
  wf_bytes (p_rest p) -> N.of_nat (3 * remaining p) <= 65535 -> all_ok (attrs_walk fuel four p) = true ->
  exists xs, owned_all (attrs_walk fuel four p) = Ok xs /\ Forall reenc_wf xs /\
             Forall2 (fun x r => exists w, r = Ok w /\ to_owned w = Ok x /\ attr_code x = wattr_code w) xs (attrs_walk fuel four p).
Proof.
  induction fuel as [|fuel IH]; intros p Hwf Hsz Hok; cbn [attrs_walk] in *.
  - exists []. repeat split; constructor.
  - destruct (Nat.eqb (remaining p) 0); [exists []; repeat split; constructor|].
    destruct (wire_attr_parse four p) as [[w p']| |] eqn:E; cbn [all_ok] in Hok; try discriminate.
    destruct (wire_attr_parse_item four p w p' Hwf E) as (Hit & Hwf' & Hrem).
    destruct Hit as (v & Hv & Hit'). pose proof (Hrem v Hv) as Hr.
    destruct (item_owned four w (ex_intro _ v (conj Hv Hit'))) as (x & O1 & O2 & O3).
    { intros v0 Hv0. rewrite Hv in Hv0. apply Ok_inj in Hv0. subst v0. lia. }
    destruct (IH p' Hwf' ltac:(lia) Hok) as (xs & I1 & I2 & I3).
    exists (x :: xs). cbn [owned_all]. rewrite O1, I1. cbn [bind]. split; [reflexivity|]. split; [constructor; assumption|].
    constructor; [eauto|exact I3].
Qed.

(* ---- an accepted message: every attribute item is Ok, whatever the ASN width used later ---- *)
Lemma wire_attr_parse_indep f1 f2 p :
  match wire_attr_parse f1 p, wire_attr_parse f2 p with
  | Ok (_, p1), Ok (_, p2) => p1 = p2
  | Err, Err => True
  | Panic, Panic => True
  | _, _ => False
  end.
Proof.
  unfold wire_attr_parse.
  destruct (parse_u8 p) as [[fl p1]| |]; cbn [bind]; auto.
  destruct (parse_u8 p1) as [[c p2]| |]; cbn [bind]; auto.
  destruct (if has_ext fl then parse_u16 p2 else parse_u8 p2) as [[len p3]| |]; cbn [bind]; auto.
  destruct (take (N.to_nat len) p3) as [[v p4]| |]; cbn [bind]; auto.
  destruct (attr_rule c) as [[[cf vr] lr]|]; [|reflexivity].
  destruct (validate vr f1 v), (validate vr f2 v); reflexivity.
Qed.

Lemma all_ok_indep f1 f2 : forall fuel p, all_ok (attrs_walk fuel f1 p) = all_ok (attrs_walk fuel f2 p).
Proof.
  induction fuel as [|fuel IH]; intros p; cbn [attrs_walk]; [reflexivity|].
  destruct (Nat.eqb (remaining p) 0); [reflexivity|].
  pose proof (wire_attr_parse_indep f1 f2 p) as H.
  destruct (wire_attr_parse f1 p) as [[w1 p1]| |], (wire_attr_parse f2 p) as [[w2 p2]| |]; try contradiction; cbn [all_ok]; auto.
  subst p2. apply IH.
Qed.

(* parsers obtained from [parser_of b] by the parse operations read a suffix of b at their position *)
Definition sfx (b : bytes) (p : parser) : Prop := p_rest p = skipn (p_pos p) b.

Lemma sfx_init b : sfx b (parser_of b).
Proof. reflexivity. Qed.

Lemma sfx_take b n p v p' : sfx b p -> take n p = Ok (v, p') ->
  sfx b p' /\ v = firstn n (skipn (p_pos p) b) /\ p_pos p' = (p_pos p + n)%nat.
Proof.
  unfold sfx, take. intros H. destruct (Nat.leb n (remaining p)); [|discriminate]. intros E. apply Ok_inj in E. inversion E; subst. cbn [p_rest p_pos].
  rewrite !H. split; [apply skipn_add|]. split; reflexivity.
Qed.

Lemma sfx_u8 b p x p' : sfx b p -> parse_u8 p = Ok (x, p') -> sfx b p' /\ p_pos p' = S (p_pos p).
Proof.
  unfold sfx, parse_u8. intros H. destruct (p_rest p) as [|y r] eqn:E; [discriminate|]. intros E2. apply Ok_inj in E2. inversion E2; subst. cbn [p_rest p_pos].
  split; [|reflexivity]. replace (S (p_pos p)) with (p_pos p + 1)%nat by lia. rewrite <- skipn_add, <- H. reflexivity.
Qed.

Lemma sfx_be b k p x p' : sfx b p -> parse_be k p = Ok (x, p') -> sfx b p' /\ p_pos p' = (p_pos p + k)%nat.
Proof.
  unfold parse_be. intros H. destruct (take k p) as [[v q]| |] eqn:E; cbn [bind]; try discriminate. intros E2. apply Ok_inj in E2. inversion E2; subst.
  destruct (sfx_take _ _ _ _ _ H E) as (A & _ & C). auto.
Qed.

Lemma accepted_attrs_ok cfg b u : parse_update cfg b = Ok u -> all_ok (a_path_attributes b u) = true.
Proof.
  unfold parse_update, header_parse, marker_check.
  destruct (take 16 (parser_of b)) as [[m p0]| |] eqn:E0; cbn [bind]; try discriminate.
  destruct (beq_bytes m Open.marker); cbn [bind]; [|discriminate].
  destruct (parse_u16 p0) as [[len p1]| |] eqn:E1; cbn [bind]; try discriminate.
  destruct (parse_u8 p1) as [[typ p2]| |] eqn:E2; cbn [bind]; try discriminate.
  destruct (len <? 19); [discriminate|]. destruct (negb (typ =? 2)); [discriminate|].
  destruct (parse_u16 p2) as [[wlen p3]| |] eqn:E3; cbn [bind]; try discriminate.
  destruct (sfx_take _ _ _ _ _ (sfx_init b) E0) as (S0 & _ & _).
  destruct (sfx_be _ _ _ _ _ S0 E1) as (S1 & _). destruct (sfx_u8 _ _ _ _ S1 E2) as (S2 & _). destruct (sfx_be _ _ _ _ _ S2 E3) as (S3 & _).
  set (W := if 0 <? wlen then _ else Ok p3).
  assert (HW : forall p4, W = Ok p4 -> sfx b p4).
  { unfold W. destruct (0 <? wlen); [|intros p4 E; apply Ok_inj in E; now subst].
    unfold parse_parser. destruct (take (N.to_nat wlen) p3) as [[wv p4']| |] eqn:E4; cbn [bind]; try discriminate.
    destruct (nlri_validate _ _ _ _); cbn [bind]; try discriminate. intros p4 E. apply Ok_inj in E. subst p4'.
    now destruct (sfx_take _ _ _ _ _ S3 E4). }
  destruct W as [p4| |]; cbn [bind]; try discriminate. specialize (HW p4 eq_refl).
  destruct (parse_u16 p4) as [[alen p5]| |] eqn:E5; cbn [bind]; try discriminate.
  destruct (sfx_be _ _ _ _ _ HW E5) as (S5 & _).
  destruct (0 <? alen) eqn:Ea.
  - unfold parse_parser. destruct (take (N.to_nat alen) p5) as [[av p6]| |] eqn:E6; cbn [bind]; try discriminate.
    destruct (sfx_take _ _ _ _ _ S5 E6) as (S6 & Hav & Hpos).
    destruct (all_ok (attrs_walk (S (remaining (mkP av (p_pos p5)))) true (mkP av (p_pos p5)))) eqn:Eok; cbn [negb]; [|discriminate].
    destruct (mp_scan _ None None) as [fams| |]; cbn [bind]; try discriminate.
    destruct (Nat.ltb _ _); [discriminate|].
    match goal with |- context [take ?n p6] => destruct (take n p6) as [[annv p7]| |]; cbn [bind]; try discriminate end.
    match goal with |- context [nlri_validate ?f ?k ?a ?ap] => destruct (nlri_validate f k a ap); cbn [bind]; try discriminate end.
    intros E. apply Ok_inj in E. subst u. unfold a_path_attributes, attr_bytes, sub. cbn [u_attr u_ppi pp_four fst snd].
    rewrite Hpos. replace (p_pos p5 + N.to_nat alen - p_pos p5)%nat with (N.to_nat alen) by lia. rewrite <- Hav.
    rewrite (all_ok_indep (sc_four cfg) true). exact Eok.
  - cbn [bind]. destruct (Nat.ltb _ _); [discriminate|].
    unfold parse_parser. match goal with |- context [take ?n p5] => destruct (take n p5) as [[annv p7]| |]; cbn [bind]; try discriminate end.
    match goal with |- context [nlri_validate ?f ?k ?a ?ap] => destruct (nlri_validate f k a ap); cbn [bind]; try discriminate end.
    intros E. apply Ok_inj in E. subst u. unfold a_path_attributes, attr_bytes, sub. cbn [u_attr u_ppi pp_four fst snd].
    rewrite Nat.sub_diag. cbn [firstn length attrs_walk remaining p_rest Nat.eqb]. reflexivity.
Qed.

(* ---- C07, direct route: owned attributes of an accepted message, composed again, decode to the same attributes ---- *)
Lemma sub_wf b r : wf_bytes b -> wf_bytes (sub b r).
Proof. intros H. unfold sub. apply wf_firstn. now apply wf_skipn. Qed.
Lemma sub_len b r : (length (sub b r) <= length b)%nat.
Proof. unfold sub. rewrite firstn_length, skipn_length. lia. Qed.

Definition item_of (x : pattr) (r : res wattr) : Prop := exists w, r = Ok w /\ to_owned w = Ok x /\ attr_code x = wattr_code w.

Lemma c07_owned_proof cfg b u :
  parse_update cfg b = Ok u -> wf_bytes b -> N.of_nat (3 * length b) <= 65535 ->
  exists xs, owned_all (a_path_attributes b u) = Ok xs /\ Forall reenc_wf xs /\ Forall2 item_of xs (a_path_attributes b u).
Proof.
  intros Hp Hwf Hsz. pose proof (accepted_attrs_ok cfg b u Hp) as Hok. unfold a_path_attributes in *.
  apply walk_owned; [cbn [p_rest]; now apply sub_wf| |exact Hok].
  unfold remaining. cbn [p_rest]. pose proof (sub_len b (u_attr u)). unfold attr_bytes. lia.
Qed.

Lemma c07_direct_proof cfg b u :
  parse_update cfg b = Ok u -> wf_bytes b -> N.of_nat (3 * length b) <= 65535 ->
  exists xs out, owned_all (a_path_attributes b u) = Ok xs /\ Forall2 item_of xs (a_path_attributes b u) /\
    compose_all xs = Ok out /\
    forall pos, exists ws', attrs_walk (S (length out)) true (mkP out pos) = map Ok ws' /\ Forall2 same_attr xs ws'.
Proof.
  intros Hp Hwf Hsz. destruct (c07_owned_proof cfg b u Hp Hwf Hsz) as (xs & O1 & O2 & O3).
  destruct (reencode_all xs O2) as (out & C1 & C2 & C3). exists xs, out. repeat split; auto.
  intros pos. destruct (C3 pos) as (ws' & W & F). exists ws'. split; [apply W; lia|exact F].
Qed.

(* ---- through the attribute map ---- *)
Lemma pamap_insert_in m c a : forall c' x, In (c', x) (pamap_insert m c a) -> (c', x) = (c, a) \/ In (c', x) m.
Proof.
  induction m as [|[k y] m IH]; intros c' x; cbn [pamap_insert].
  - intros [H|[]]. now left.
  - destruct (c =? k); [intros [H|H]; [now left|right; now right]|].
    destruct (c <? k); [intros [H|H]; [now left|now right]|].
    intros [H|H]; [right; now left|]. destruct (IH _ _ H) as [E|E]; [now left|right; now right].
Qed.

Lemma pamap_insert_has m c a : exists x, In (c, x) (pamap_insert m c a).
Proof.
  induction m as [|[k y] m IH]; cbn [pamap_insert]; [eexists; now left|].
  destruct (c =? k); [eexists; now left|]. destruct (c <? k); [eexists; now left|]. destruct IH as (x & Hx). exists x. now right.
Qed.

Lemma pamap_insert_keeps m c a k : (exists y, In (k, y) m) -> exists x, In (k, x) (pamap_insert m c a).
Proof.
  induction m as [|[k' y'] m IH]; intros (y & Hy); [destruct Hy|]. cbn [pamap_insert].
  destruct (N.eqb_spec c k') as [E|E].
  - destruct Hy as [Hy|Hy]; [inversion Hy; subst; eexists; now left|eexists; right; exact Hy].
  - destruct (c <? k'); [exists y; now right|].
    destruct Hy as [Hy|Hy]; [eexists; left; exact Hy|]. destruct (IH (ex_intro _ y Hy)) as (x & Hx). exists x. now right.
Qed.

Fixpoint keys_sorted (m : list (N * pattr)) : Prop :=
  match m with
  | [] => True
  | (k, _) :: tl => (forall k' x, In (k', x) tl -> k < k') /\ keys_sorted tl
  end.

Lemma pamap_insert_sorted m c a : keys_sorted m -> keys_sorted (pamap_insert m c a).
Proof.
  induction m as [|[k y] m IH]; intros H; cbn [pamap_insert keys_sorted]; [split; [intros ? ? []|exact I]|].
  destruct H as (H1 & H2). destruct (N.eqb_spec c k) as [E|E].
  - subst. cbn [keys_sorted]. split; assumption.
  - destruct (N.ltb_spec c k) as [L|L].
    + cbn [keys_sorted]. split; [|split; assumption]. intros k' x [Hx|Hx]; [inversion Hx; subst; exact L|]. specialize (H1 _ _ Hx). lia.
    + cbn [keys_sorted]. split; [|apply IH; exact H2]. intros k' x Hx. destruct (pamap_insert_in _ _ _ _ _ Hx) as [Ex|Ex].
      * inversion Ex; subst. lia.
      * apply (H1 _ _ Ex).
Qed.

Lemma pamap_fill_spec : forall l m0 m, pamap_fill l m0 = Ok m ->
  keys_sorted m0 -> keys_sorted m /\
  (forall c x, In (c, x) m -> In (c, x) m0 \/ exists w, In (Ok w) l /\ to_owned w = Ok x /\ c = wattr_code w /\ c <> 14 /\ c <> 15) /\
  (forall w, In (Ok w) l -> wattr_code w <> 14 -> wattr_code w <> 15 -> exists x, In (wattr_code w, x) m) /\
  (forall k, (exists y, In (k, y) m0) -> exists x, In (k, x) m).
Proof.
  induction l as [|r l IH]; intros m0 m; cbn [pamap_fill].
  - intros H Hs. apply Ok_inj in H. subst m. repeat split; auto. intros w [].
  - destruct r as [w| |]; try discriminate.
    destruct ((wattr_code w =? 14) || (wattr_code w =? 15)) eqn:Emp.
    + intros H Hs. destruct (IH _ _ H Hs) as (A & B & C & D). split; [exact A|]. split; [|split; [|exact D]].
      * intros c x Hin. destruct (B c x Hin) as [G|(w' & G1 & G2)]; [now left|right; exists w'; split; [now right|exact G2]].
      * intros w' [Hw|Hw] N14 N15; [|now apply C]. apply Ok_inj in Hw. subst w'. apply orb_true_iff in Emp as [E|E]; apply N.eqb_eq in E; congruence.
    + apply orb_false_iff in Emp as (N14 & N15). apply N.eqb_neq in N14, N15.
      destruct (pamap_has m0 (wattr_code w)) eqn:Ehas.
      { intros H Hs. destruct (IH _ _ H Hs) as (A & B & C & D). split; [exact A|]. split; [|split; [|exact D]].
        - intros c x Hin. destruct (B c x Hin) as [G|(w' & G1 & G2)]; [now left|right; exists w'; split; [now right|exact G2]].
        - intros w' [Hw|Hw] M14 M15; [|now apply C]. apply Ok_inj in Hw. subst w'. apply D.
          unfold pamap_has in Ehas. apply existsb_exists in Ehas as ([k y] & Hin & Hk). cbn [fst] in Hk. apply N.eqb_eq in Hk. subst k. eauto. }
      destruct (to_owned w) as [o| |] eqn:Eo; cbn [bind]; try discriminate.
      intros H Hs. destruct (IH _ _ H (pamap_insert_sorted _ _ _ Hs)) as (A & B & C & D). split; [exact A|]. split; [|split].
      * intros c x Hin. destruct (B c x Hin) as [G|(w' & G1 & G2)].
        -- destruct (pamap_insert_in _ _ _ _ _ G) as [Ex|Ex]; [|now left]. inversion Ex; subst. right. exists w. repeat split; auto. now left.
        -- right. exists w'. split; [now right|exact G2].
      * intros w' [Hw|Hw] M14 M15; [|now apply C]. apply Ok_inj in Hw. subst w'. apply D. apply pamap_insert_has.
      * intros k Hk. apply D. now apply pamap_insert_keeps.
Qed.

Lemma pamap_compose_is m : pamap_compose m = compose_all (map snd m).
Proof. induction m as [|[c a] m IH]; cbn [pamap_compose compose_all map snd]; [reflexivity|]. now rewrite IH. Qed.

Lemma all_ok_map {A} (l : list (res A)) : all_ok l = true -> exists ws, l = map Ok ws.
Proof.
  induction l as [|r l IH]; cbn [all_ok]; [exists []; reflexivity|]. destruct r as [w| |]; try discriminate.
  intros H. destruct (IH H) as (ws & ->). exists (w :: ws). reflexivity.
Qed.

Lemma pamap_fill_ok : forall ws m0, (forall w, In w ws -> exists x, to_owned w = Ok x) -> exists m, pamap_fill (map Ok ws) m0 = Ok m.
Proof.
  induction ws as [|w ws IH]; intros m0 H; cbn [map pamap_fill]; [eauto|].
  destruct ((wattr_code w =? 14) || (wattr_code w =? 15)); [apply IH; intros w' Hw'; apply H; now right|].
  destruct (pamap_has m0 (wattr_code w)); [apply IH; intros w' Hw'; apply H; now right|].
  destruct (H w (or_introl eq_refl)) as (x & E). rewrite E. cbn [bind]. apply IH. intros w' Hw'. apply H. now right.
Qed.

Lemma c07_pamap_proof cfg b u :
  parse_update cfg b = Ok u -> wf_bytes b -> N.of_nat (3 * length b) <= 65535 ->
  exists m out, a_pamap b u = Ok m /\ keys_sorted m /\
    (forall c x, In (c, x) m -> c <> 14 /\ c <> 15 /\ exists w, In (Ok w) (a_path_attributes b u) /\ to_owned w = Ok x /\ c = wattr_code w) /\
    (forall w, In (Ok w) (a_path_attributes b u) -> wattr_code w <> 14 -> wattr_code w <> 15 -> exists x, In (wattr_code w, x) m) /\
    pamap_compose m = Ok out /\
    forall pos, exists ws', attrs_walk (S (length out)) true (mkP out pos) = map Ok ws' /\ Forall2 same_attr (map snd m) ws'.
Proof.
  intros Hp Hwf Hsz. destruct (c07_owned_proof cfg b u Hp Hwf Hsz) as (xs & O1 & O2 & O3).
  (* every item converts to a re-encodable owned value *)
  assert (Hitems : forall w, In (Ok w) (a_path_attributes b u) -> exists x, to_owned w = Ok x /\ reenc_wf x).
  { clear O1. revert O2 O3. generalize (a_path_attributes b u) as l. induction xs as [|x xs IH]; intros l O2 O3 w Hin.
    - inversion O3; subst. destruct Hin.
    - inversion O3 as [|? r ? l' (w0 & -> & E1 & E2) Hrest]; subst. inversion O2; subst. destruct Hin as [Hin|Hin].
      + apply Ok_inj in Hin. subst w0. eauto.
      + eapply IH; eassumption. }
  destruct (all_ok_map _ (accepted_attrs_ok cfg b u Hp)) as (ws & Hws).
  assert (Hfill : exists m, a_pamap b u = Ok m).
  { unfold a_pamap. rewrite Hws. apply pamap_fill_ok. intros w Hw. destruct (Hitems w) as (x & E & _); [rewrite Hws; now apply in_map|eauto]. }
  destruct Hfill as (m & Hm). pose proof Hm as Hm'. unfold a_pamap in Hm'.
  destruct (pamap_fill_spec _ _ _ Hm' I) as (S1 & S2 & S3 & _).
  assert (Hwfm : Forall reenc_wf (map snd m)).
  { apply Forall_forall. intros x Hx. apply in_map_iff in Hx as ([c x'] & <- & Hin). cbn [snd].
    destruct (S2 c x' Hin) as [[]|(w & G1 & G2 & _)]. destruct (Hitems w G1) as (x0 & E & R). rewrite E in G2. apply Ok_inj in G2. now subst. }
  destruct (reencode_all _ Hwfm) as (out & C1 & C2 & C3).
  exists m, out. split; [exact Hm|]. split; [exact S1|]. split.
  { intros c x Hin. destruct (S2 c x Hin) as [[]|(w & G1 & G2 & G3 & G4 & G5)]. repeat split; auto. eauto. }
  split; [exact S3|]. split; [rewrite pamap_compose_is; exact C1|].
  intros pos. destruct (C3 pos) as (ws' & W & F). exists ws'. split; [apply W; rewrite map_length in *; lia|exact F].
Qed.

(* ---- flags of a re-encoded unknown / invalid attribute ---- *)
Lemma norm_flags_bits f len : f < 256 ->
  norm_flags f len / 64 = f / 64 /\ has_partial (norm_flags f len) = true /\ has_ext (norm_flags f len) = Nat.ltb 255 len /\
  norm_flags f len mod 16 = f mod 16 /\ norm_flags f len < 256.
Proof.
  intros Hf.
  assert (Sweep : forallb (fun f =>
            ((set_ext (set_partial f) / 64 =? f / 64) && has_partial (set_ext (set_partial f)) && has_ext (set_ext (set_partial f)) &&
             (set_ext (set_partial f) mod 16 =? f mod 16) && (set_ext (set_partial f) <? 256)) &&
            ((clear_ext (set_partial f) / 64 =? f / 64) && has_partial (clear_ext (set_partial f)) && negb (has_ext (clear_ext (set_partial f))) &&
             (clear_ext (set_partial f) mod 16 =? f mod 16) && (clear_ext (set_partial f) <? 256)))
          (map N.of_nat (seq 0 256)) = true) by (vm_compute; reflexivity).
  rewrite forallb_forall in Sweep.
  assert (Hin : In f (map N.of_nat (seq 0 256))).
  { apply in_map_iff. exists (N.to_nat f). split; [apply N2Nat.id|]. apply in_seq. lia. }
  specialize (Sweep f Hin). rewrite !andb_true_iff, !N.eqb_eq, !N.ltb_lt, negb_true_iff in Sweep.
  destruct Sweep as (((((A1 & A2) & A3) & A4) & A5) & ((((B1 & B2) & B3) & B4) & B5)).
  unfold norm_flags. destruct (Nat.ltb 255 len); repeat split; auto.
Qed.

(* ---- through a builder seeded from the message (partial: see Props/C07.v) ---- *)
Lemma add_ann_spec b u ap bd bd1 :
  add_announcements_from_pdu b u ap bd = Ok bd1 ->
  bd_fam bd1 = bd_fam bd /\ bd_attrs bd1 = bd_attrs bd /\ bd_wd bd1 = bd_wd bd /\
  (bd1 = bd \/
   exists l, bd_ann bd1 = Some (mkReach (match bd_ann bd with Some r => r_ann r | None => [] end ++ l)
                                          (match bd_ann bd with Some r => r_nh r | None => default_nh (bd_fam bd) end)) /\
             match typed_announcements b u (bd_fam bd) ap with Ok (Some it) => it = map Ok l | _ => l = [] end).
Proof.
  unfold add_announcements_from_pdu.
  destruct (match a_announcements b u with Ok [] => true | _ => false end); [intros H; apply Ok_inj in H; subst; repeat split; auto|].
  destruct (typed_announcements b u (bd_fam bd) ap) as [[it|]| |] eqn:Et; cbn [bind].
  - destruct (unwrap_all it) as [l| |] eqn:Eu; cbn [bind]; try discriminate. intros H. apply Ok_inj in H. subst bd1. cbn [bd_fam bd_attrs bd_wd bd_ann].
    repeat split; auto. right. exists l. split; [destruct (bd_ann bd); reflexivity|].
    clear -Eu. revert l Eu. induction it as [|r it IH]; intros l Eu; cbn [unwrap_all] in Eu; [apply Ok_inj in Eu; now subst|].
    destruct r as [n| |]; try discriminate. destruct (unwrap_all it) as [l'| |]; cbn [bind] in Eu; try discriminate.
    apply Ok_inj in Eu. subst l. cbn [map]. f_equal. now apply IH.
  - intros H. apply Ok_inj in H. subst bd1. cbn [bd_fam bd_attrs bd_wd bd_ann]. repeat split; auto. right. exists []. split; [destruct (bd_ann bd); reflexivity|reflexivity].
  - intros H. apply Ok_inj in H. subst bd1. cbn [bd_fam bd_attrs bd_wd bd_ann]. repeat split; auto. right. exists []. split; [destruct (bd_ann bd); reflexivity|reflexivity].
  - intros H. apply Ok_inj in H. subst bd1. cbn [bd_fam bd_attrs bd_wd bd_ann]. repeat split; auto. right. exists []. split; [destruct (bd_ann bd); reflexivity|reflexivity].
Qed.

Lemma reenc_wf_pa x : reenc_wf x -> attr_code x <> 14 -> attr_code x <> 15 -> wf_pa x = true.
Proof.
  destruct x; cbn [reenc_wf wf_pa attr_code]; auto.
  - intros (Hf & Hc & Hw & Hl & _) N14 N15. rewrite !andb_true_iff, negb_true_iff, orb_false_iff, !N.ltb_lt, N.leb_le, !N.eqb_neq.
    repeat split; auto. now apply wf_bytesb_spec.
  - intros (Hc & Hw & Hl & vr & lr & Hr) N14 N15. destruct (rule_small _ _ _ _ Hr) as (_ & Hf & _).
    rewrite !andb_true_iff, negb_true_iff, orb_false_iff, !N.ltb_lt, N.leb_le, !N.eqb_neq. repeat split; auto. now apply wf_bytesb_spec.
Qed.

Lemma c07_seed_proof cfg b u k :
  parse_update cfg b = Ok u -> wf_bytes b -> N.of_nat (3 * length b) <= 65535 ->
  exists m, a_pamap b u = Ok m /\ from_update_message b u k = Ok (mkB k None None m) /\
            forallb (fun e => wf_pa (snd e)) m = true.
Proof.
  intros Hp Hwf Hsz. destruct (c07_pamap_proof cfg b u Hp Hwf Hsz) as (m & out & M1 & M2 & M3 & M4 & M5 & M6).
  exists m. split; [exact M1|]. split; [unfold from_update_message; rewrite M1; reflexivity|].
  apply forallb_forall. intros [c x] Hin. cbn [snd]. destruct (M3 c x Hin) as (N14 & N15 & w & W1 & W2 & W3).
  destruct (c07_owned_proof cfg b u Hp Hwf Hsz) as (xs & O1 & O2 & O3).
  assert (R : reenc_wf x /\ attr_code x = c).
  { clear -O2 O3 W1 W2 W3. revert O2 O3 W1. generalize (a_path_attributes b u) as l. induction xs as [|x0 xs IH]; intros l O2 O3 Hin.
    - inversion O3; subst. destruct Hin.
    - inversion O3 as [|? r ? l' (w0 & -> & E1 & E2) Hrest]; subst. inversion O2; subst. destruct Hin as [Hin|Hin].
      + apply Ok_inj in Hin. subst w0. rewrite E1 in W2. apply Ok_inj in W2. subst x0. split; [assumption|congruence].
      + eapply IH; eassumption. }
  destruct R as (R1 & R2). apply reenc_wf_pa; [exact R1|congruence|congruence].
Qed.

Lemma add_wd_spec b u ap bd bd1 :
  add_withdrawals_from_pdu b u ap bd = Ok bd1 ->
  bd_fam bd1 = bd_fam bd /\ bd_attrs bd1 = bd_attrs bd /\ bd_ann bd1 = bd_ann bd /\
  (bd1 = bd \/
   exists l, bd_wd bd1 = Some (match bd_wd bd with Some w => w | None => [] end ++ l) /\
             match typed_withdrawals b u (bd_fam bd) ap with Ok (Some it) => it = map Ok l | _ => l = [] end).
Proof.
  unfold add_withdrawals_from_pdu.
  destruct (match a_withdrawals b u with Ok [] => true | _ => false end); [intros H; apply Ok_inj in H; subst; repeat split; auto|].
  destruct (typed_withdrawals b u (bd_fam bd) ap) as [[it|]| |] eqn:Et; cbn [bind].
  - destruct (unwrap_all it) as [l| |] eqn:Eu; cbn [bind]; try discriminate. intros H. apply Ok_inj in H. subst bd1. cbn [bd_fam bd_attrs bd_wd bd_ann].
    repeat split; auto. right. exists l. split; [reflexivity|].
    clear -Eu. revert l Eu. induction it as [|r it IH]; intros l Eu; cbn [unwrap_all] in Eu; [apply Ok_inj in Eu; now subst|].
    destruct r as [n| |]; try discriminate. destruct (unwrap_all it) as [l'| |]; cbn [bind] in Eu; try discriminate.
    apply Ok_inj in Eu. subst l. cbn [map]. f_equal. now apply IH.
  - intros H. apply Ok_inj in H. subst bd1. cbn [bd_fam bd_attrs bd_wd bd_ann]. repeat split; auto. right. exists []. split; reflexivity.
  - intros H. apply Ok_inj in H. subst bd1. cbn [bd_fam bd_attrs bd_wd bd_ann]. repeat split; auto. right. exists []. split; reflexivity.
  - intros H. apply Ok_inj in H. subst bd1. cbn [bd_fam bd_attrs bd_wd bd_ann]. repeat split; auto. right. exists []. split; reflexivity.
Qed.

Lemma default_nh_wf k : wf_nh (default_nh k) = true.
Proof. destruct k; reflexivity. Qed.

Lemma c07_builder_proof cfg b u k ap m bd1 bd2 m' :
  parse_update cfg b = Ok u -> wf_bytes b -> N.of_nat (3 * length b) <= 65535 ->
  a_pamap b u = Ok m ->
  add_announcements_from_pdu b u ap (mkB k None None m) = Ok bd1 -> add_withdrawals_from_pdu b u ap bd1 = Ok bd2 ->
  forallb wf_nlri (ann_of bd2) = true -> forallb wf_nlri (wd_of bd2) = true ->
  Forall (fun n => n_fam n = k /\ pid_flag n = rx_addpath cfg (fam_code k)) (ann_of bd2 ++ wd_of bd2) ->
  into_message cfg bd2 = Ok (MOk m') ->
  bd_attrs bd2 = m /\ bd_fam bd2 = k /\
  exists u', parse_update cfg m' = Ok u' /\ (length m' <= bc_max_pdu)%nat /\ a_length u' = length m' /\
    a_conv_withdrawals m' u' = Some [] /\ a_conv_announcements m' u' = Some [] /\
    a_mp_announcements m' u' = Ok (match bd_ann bd2 with Some r => Some (fam_code k, Some (map Ok (r_ann r))) | None => None end) /\
    a_mp_withdrawals m' u' = Ok (match bd_wd bd2 with Some w => Some (fam_code k, Some (map Ok w)) | None => None end).
Proof.
  intros Hp Hwf Hsz Hm Ha Hw Wa Ww Hfam Hmsg.
  destruct (c07_seed_proof cfg b u k Hp Hwf Hsz) as (m0 & M1 & _ & M3). rewrite Hm in M1. apply Ok_inj in M1. subst m0.
  destruct (add_ann_spec _ _ _ _ _ Ha) as (A1 & A2 & A3 & A4). destruct (add_wd_spec _ _ _ _ _ Hw) as (W1 & W2 & W3 & W4).
  cbn [bd_fam bd_attrs bd_wd bd_ann] in *.
  assert (Hattrs : bd_attrs bd2 = m) by congruence. assert (Hk : bd_fam bd2 = k) by congruence.
  split; [exact Hattrs|]. split; [exact Hk|].
  assert (Hwfb : wf_builder bd2 = true).
  { unfold wf_builder. rewrite Wa, Ww, Hattrs, M3. cbn [andb]. rewrite W3.
    destruct A4 as [->|(l & E & _)]; [reflexivity|]. rewrite E. cbn [r_nh]. apply default_nh_wf. }
  rewrite <- Hk in Hfam. destruct (built_decodes cfg bd2 m' Hwfb Hmsg Hfam) as (u' & D1 & D2 & D3 & _ & _ & D6 & D7 & D8 & D9).
  exists u'. rewrite Hk in D8, D9. repeat split; auto.
Qed.
