(* C19: proofs over Model/Comm.v and the generated tables (Gen/CommTables.v). *)
From Coq Require Import List NArith ZArith Bool Lia ZifyN ZifyNat ZifyBool.
From RC Require Import Base.Wire Base.Text Gen.CommTables Model.Comm Proofs.WireProofs Proofs.TextProofs.
Import ListNotations.
Open Scope N_scope.
Ltac Zify.zify_post_hook ::= Z.div_mod_to_equations.

(* ---------------------------------------------------------------- find_row *)
Lemma find_row_some {A} (f : A -> bool) l : forall k i, find_row f l k = Some i ->
  exists r, nth_error l (i - k) = Some r /\ f r = true /\ (k <= i)%nat.
Proof.
  induction l as [|x l IH]; intros k i H; simpl in H; [discriminate|].
  destruct (f x) eqn:E.
  - inversion H; subst. exists x. rewrite Nat.sub_diag. auto.
  - destruct (IH _ _ H) as (r & Hr & Hf & Hk). exists r. split; [|split; [exact Hf|lia]].
    replace (i - k)%nat with (S (i - S k)) by lia. exact Hr.
Qed.

Lemma find_row_none {A} (f : A -> bool) l : forall k, (forall r, In r l -> f r = false) -> find_row f l k = None.
Proof.
  induction l as [|x l IH]; intros k H; simpl; [reflexivity|].
  rewrite (H x (or_introl eq_refl)). apply IH. intros r Hr. apply H. now right.
Qed.

(* ---------------------------------------------------------------- Wellknown *)
Lemma wk_to_from n : wk_to_u32 (wk_from_u16 n) = 4294901760 + n.
Proof.
  unfold wk_from_u16. destruct (find_row _ wk_table 0) as [i|] eqn:E; [|reflexivity].
  destruct (find_row_some _ _ _ _ E) as (r & Hr & Hf & _). rewrite Nat.sub_0_r in Hr.
  unfold wk_to_u32. rewrite Hr. now apply N.eqb_eq in Hf.
Qed.

Lemma wk_from_u16_unrec n m : wk_from_u16 n = WkUnrec m -> m = n.
Proof. unfold wk_from_u16. destruct (find_row _ _ _); intros H; inversion H. reflexivity. Qed.

Lemma wk_from_u16_named n i : wk_from_u16 n = WkNamed i -> (i < length wk_table)%nat.
Proof.
  unfold wk_from_u16. destruct (find_row _ wk_table 0) as [j|] eqn:E; intros H; inversion H; subst.
  destruct (find_row_some _ _ _ _ E) as (r & Hr & _). apply nth_error_Some. rewrite Nat.sub_0_r in Hr. congruence.
Qed.

(* every name the table prints parses back to its own row (fails to check if two rows share a name) *)
Definition wk_row_ok (i : nat) : bool :=
  match wk_from_str (wk_display (WkNamed i)) with Some (WkNamed j) => Nat.eqb i j | _ => false end.
Lemma wk_rows_ok : forallb wk_row_ok (seq 0 (length wk_table)) = true.
Proof. vm_compute. reflexivity. Qed.

Lemma wk_named_text i : (i < length wk_table)%nat -> wk_from_str (wk_display (WkNamed i)) = Some (WkNamed i).
Proof.
  intros H. pose proof wk_rows_ok as R. rewrite forallb_forall in R.
  specialize (R i ltac:(apply in_seq; lia)). unfold wk_row_ok in R.
  destruct (wk_from_str (wk_display (WkNamed i))) as [[j|m]|]; try discriminate.
  apply Nat.eqb_eq in R. now subst.
Qed.

(* every alternative name and the variant name parse to the row as well *)
Definition wk_alt_ok (i : nat) : bool :=
  match nth_error wk_table i with
  | Some r => forallb (fun nm => match wk_from_str nm with Some (WkNamed j) => Nat.eqb i j | _ => false end) (wk_var r :: wk_names r)
  | None => false
  end.
Lemma wk_alts_ok : forallb wk_alt_ok (seq 0 (length wk_table)) = true.
Proof. vm_compute. reflexivity. Qed.

(* a text with a feature no table name has is not a well-known name *)
Definition names_avoid (P : str -> bool) : bool :=
  forallb (fun r => forallb (fun nm => negb (P (lower nm))) (wk_var r :: wk_names r)) wk_table.

Lemma wk_from_str_none P s : P (lower s) = true -> names_avoid P = true -> wk_from_str s = None.
Proof.
  intros Hs Ha. unfold wk_from_str. rewrite find_row_none; [reflexivity|].
  intros r Hr. unfold names_avoid in Ha. rewrite forallb_forall in Ha. specialize (Ha r Hr).
  rewrite forallb_forall in Ha. unfold wk_row_matches.
  apply orb_false_iff. split.
  - destruct (existsb _ (wk_names r)) eqn:E; [|reflexivity].
    apply existsb_exists in E. destruct E as (nm & Hin & He). apply str_eqb_eq in He.
    specialize (Ha nm (or_intror Hin)). rewrite <- He, Hs in Ha. discriminate.
  - destruct (str_eqb (lower s) (lower (wk_var r))) eqn:E; [|reflexivity].
    apply str_eqb_eq in E. specialize (Ha (wk_var r) (or_introl eq_refl)). rewrite <- E, Hs in Ha. discriminate.
Qed.

Definition P0 (s : str) : bool := match s with c :: _ => is_digit c | [] => false end.
Definition P2d (s : str) : bool := match s with _ :: _ :: c :: _ => is_digit c | _ => false end.
Definition P2c (s : str) : bool := match s with _ :: _ :: c :: _ => c =? 58 | _ => false end.
Lemma avoid_P0 : names_avoid P0 = true. Proof. vm_compute. reflexivity. Qed.
Lemma avoid_P2d : names_avoid P2d = true. Proof. vm_compute. reflexivity. Qed.
Lemma avoid_P2c : names_avoid P2c = true. Proof. vm_compute. reflexivity. Qed.

Lemma lower_c_digit x : is_digit x = true -> lower_c x = x.
Proof. unfold lower_c, is_digit. intros H. destruct ((65 <=? x) && (x <=? 90)) eqn:E; [lia|reflexivity]. Qed.

Lemma wk_none_digit x s : is_digit x = true -> wk_from_str (x :: s) = None.
Proof.
  intros H. apply (wk_from_str_none P0); [|exact avoid_P0]. simpl. now rewrite (lower_c_digit x H).
Qed.

(* the format of an unrecognised value, as generated *)
Lemma unrec_prefix : wk_unrec_prefix = [48; 120; 70; 70; 70; 70].
Proof. reflexivity. Qed.

(* ---------------------------------------------------------------- helpers *)
Lemma strip_as_digit x s : is_digit x = true -> strip_as (x :: s) = x :: s.
Proof.
  intros H. unfold strip_as. destruct s as [|y s]; [reflexivity|].
  rewrite (digit_not x 65 H), (digit_not x 97 H) by reflexivity. reflexivity.
Qed.

Lemma strip_as_dec n : strip_as (dec n) = dec n.
Proof. destruct (dec_head n) as (x & t & E & Hx). rewrite E. now apply strip_as_digit. Qed.

Lemma be2 a b : a < 256 -> b < 256 -> be 2 (unbe [a; b]) = [a; b].
Proof. intros. apply (be_unbe [a; b]). repeat constructor; assumption. Qed.
Lemma be4 a b c d : a < 256 -> b < 256 -> c < 256 -> d < 256 -> be 4 (unbe [a; b; c; d]) = [a; b; c; d].
Proof. intros. apply (be_unbe [a; b; c; d]). repeat constructor; assumption. Qed.

Lemma unbe2_bound a b : a < 256 -> b < 256 -> unbe [a; b] < 2 ^ 16.
Proof. intros. change (unbe [a; b]) with ((0 * 256 + a) * 256 + b). change (2 ^ 16) with 65536. lia. Qed.
Lemma unbe4_bound a b c d : a < 256 -> b < 256 -> c < 256 -> d < 256 -> unbe [a; b; c; d] < 2 ^ 32.
Proof. intros. change (unbe [a; b; c; d]) with ((((0 * 256 + a) * 256 + b) * 256 + c) * 256 + d). change (2 ^ 32) with 4294967296. lia. Qed.

(* ---------------------------------------------------------------- StandardCommunity *)
Lemma wk_arith n : n / 65536 = 65535 -> 4294901760 + n mod 65536 = n.
Proof. lia. Qed.

Section Std.
Variables a b c d : N.
Hypothesis (Ha : a < 256) (Hb : b < 256) (Hc : c < 256) (Hd : d < 256).
Let r := [a; b; c; d].
Let n := unbe r.

Lemma n_val : n = ((a * 256 + b) * 256 + c) * 256 + d.
Proof. reflexivity. Qed.

Lemma std_text_named i : n / 65536 = 65535 -> wk_from_u16 (n mod 65536) = WkNamed i ->
  std_from_str (wk_display (WkNamed i)) = Some r.
Proof.
  intros W E. unfold std_from_str. rewrite (wk_named_text i (wk_from_u16_named _ _ E)).
  rewrite <- E, wk_to_from. f_equal.
  rewrite (wk_arith n W). apply be4; assumption.
Qed.

Lemma std_text_unrec m : n / 65536 = 65535 -> wk_from_u16 (n mod 65536) = WkUnrec m ->
  std_from_str (wk_display (WkUnrec m)) = Some r.
Proof.
  intros W E. apply wk_from_u16_unrec in E. subst m.
  assert (Hc' : n mod 65536 / 256 = c) by (rewrite n_val; lia).
  assert (Hd' : n mod 65536 mod 256 = d) by (rewrite n_val; lia).
  unfold wk_display. rewrite Hc', Hd', unrec_prefix.
  set (up := wk_unrec_upper).
  assert (HB : hex2 up c ++ hex2 up d = hexbytes up [c; d]) by (unfold hexbytes; cbn [flat_map]; now rewrite app_nil_r).
  rewrite HB. cbn [List.app].
  assert (Hwf : wf_bytes [c; d]) by (repeat constructor; assumption).
  unfold std_from_str.
  rewrite (wk_none_digit 48) by reflexivity.
  rewrite split_once_none.
  2:{ change (48 :: 120 :: 70 :: 70 :: 70 :: 70 :: hexbytes up [c; d]) with ([48; 120; 70; 70; 70; 70] ++ hexbytes up [c; d]).
      rewrite lacks_app, (hexbytes_lacks up 58 [c; d] Hwf) by reflexivity. reflexivity. }
  change (strip_prefix [48; 120] (48 :: 120 :: 70 :: 70 :: 70 :: 70 :: hexbytes up [c; d]))
    with (Some (70 :: 70 :: 70 :: 70 :: hexbytes up [c; d])).
  cbv iota beta.
  assert (HL8 : Nat.ltb 8 (length (70 :: 70 :: 70 :: 70 :: hexbytes up [c; d])) = false)
    by (cbn [length]; rewrite hexbytes_length; reflexivity).
  rewrite HL8.
  unfold parse_hex. change (strip_plus (70 :: 70 :: 70 :: 70 :: hexbytes up [c; d])) with (70 :: 70 :: 70 :: 70 :: hexbytes up [c; d]).
  cbv iota beta.
  change (hex_go 0 (70 :: 70 :: 70 :: 70 :: hexbytes up [c; d])) with (hex_go 65535 (hexbytes up [c; d])).
  pose proof (hex_go_hexbytes up [c; d] 65535 [] Hwf) as G. rewrite app_nil_r in G. rewrite G.
  change (hex_go (unbe_acc 65535 [c; d]) []) with (Some ((65535 * 256 + c) * 256 + d)).
  cbv iota beta.
  assert (Hn : (65535 * 256 + c) * 256 + d = n) by (rewrite n_val in W |- *; lia).
  rewrite Hn.
  assert (Hlt : (n <? 2 ^ 32) = true) by (apply N.ltb_lt; apply unbe4_bound; assumption).
  rewrite Hlt. f_equal. apply be4; assumption.
Qed.

Lemma std_text_plain : std_to_wellknown r = None -> std_from_str (std_display r) = Some r.
Proof.
  intros W. unfold std_display. rewrite W.
  change (firstn 2 r) with [a; b]. change (skipn 2 r) with [c; d].
  destruct (dec_head (unbe [a; b])) as (x & t & E & Hx).
  unfold std_from_str.
  assert (Hwk : wk_from_str ([65; 83] ++ dec (unbe [a; b]) ++ [58] ++ dec (unbe [c; d])) = None).
  { apply (wk_from_str_none P2d); [|exact avoid_P2d]. rewrite E. simpl. now rewrite (lower_c_digit x Hx). }
  rewrite Hwk.
  change ([65; 83] ++ dec (unbe [a; b]) ++ [58] ++ dec (unbe [c; d]))
    with ((65 :: 83 :: dec (unbe [a; b])) ++ 58 :: dec (unbe [c; d])).
  rewrite split_once_app.
  2:{ change (65 :: 83 :: dec (unbe [a; b])) with ([65; 83] ++ dec (unbe [a; b])). rewrite lacks_app, dec_lacks by reflexivity. reflexivity. }
  unfold asn16_from_str. change (strip_as (65 :: 83 :: dec (unbe [a; b]))) with (dec (unbe [a; b])).
  rewrite (parse_dec_dec 16 _ (unbe2_bound a b Ha Hb)), (parse_dec_dec 16 _ (unbe2_bound c d Hc Hd)).
  rewrite be2, be2 by assumption. reflexivity.
Qed.

Theorem std_text : std_from_str (std_display r) = Some r.
Proof.
  destruct (std_to_wellknown r) as [w|] eqn:W; [|now apply std_text_plain].
  unfold std_display. rewrite W. unfold std_to_wellknown in W. fold n in W.
  destruct (n / 65536 =? 65535) eqn:E; [|discriminate]. apply N.eqb_eq in E.
  inversion W as [W']. destruct (wk_from_u16 (n mod 65536)) as [i|m] eqn:Ew.
  - now apply std_text_named.
  - now apply std_text_unrec.
Qed.

(* classification *)
Lemma std_partition :
  (std_is_wellknown r = true /\ std_is_reserved r = false /\ std_is_private r = false) \/
  (std_is_wellknown r = false /\ std_is_reserved r = true /\ std_is_private r = false) \/
  (std_is_wellknown r = false /\ std_is_reserved r = false /\ std_is_private r = true).
Proof.
  unfold std_is_private, std_is_wellknown, std_is_reserved, r.
  destruct (a =? 255) eqn:E1, (b =? 255) eqn:E2, (a =? 0) eqn:E3, (b =? 0) eqn:E4; simpl; try lia; auto.
Qed.

Lemma std_wellknown_iff : (std_is_wellknown r = true <-> std_to_wellknown r <> None) /\
  (std_is_wellknown r = true <-> (a = 255 /\ b = 255)).
Proof.
  unfold std_is_wellknown, std_to_wellknown, r. fold r. fold n. split.
  - destruct (n / 65536 =? 65535) eqn:E; split; intros H; try congruence.
    + apply N.eqb_eq in E. rewrite n_val in E. apply andb_true_iff. split; apply N.eqb_eq; lia.
    + apply andb_true_iff in H. destruct H as [H1 H2]. apply N.eqb_eq in H1, H2. apply N.eqb_neq in E. rewrite n_val in E. lia.
  - split; intros H.
    + apply andb_true_iff in H. destruct H as [H1 H2]. now apply N.eqb_eq in H1, H2.
    + destruct H; subst. reflexivity.
Qed.

Lemma std_accessors : std_is_wellknown r = false ->
  exists asn tag, std_asn r = Some asn /\ std_tag r = Some tag /\ asn < 65536 /\ tag < 65536 /\ r = be 2 asn ++ be 2 tag /\
                  unbe r = asn * 65536 + tag.
Proof.
  intros H. unfold std_asn, std_tag. rewrite H. exists (unbe [a; b]), (unbe [c; d]).
  change (firstn 2 r) with [a; b]. change (skipn 2 r) with [c; d].
  split; [reflexivity|]. split; [reflexivity|].
  split; [apply (unbe2_bound a b Ha Hb)|]. split; [apply (unbe2_bound c d Hc Hd)|].
  split; [rewrite be2, be2 by assumption; reflexivity|].
  change (unbe r) with ((((0 * 256 + a) * 256 + b) * 256 + c) * 256 + d).
  change (unbe [a; b]) with ((0 * 256 + a) * 256 + b). change (unbe [c; d]) with ((0 * 256 + c) * 256 + d). lia.
Qed.

Lemma std_accessors_wk : std_is_wellknown r = true -> std_asn r = None /\ std_tag r = None.
Proof. intros H. unfold std_asn, std_tag. now rewrite H. Qed.

End Std.

(* ---------------------------------------------------------------- LargeCommunity *)
Ltac split_bytes H :=
  repeat match type of H with
         | wf_bytes (_ :: _) => let H1 := fresh "Hb" in let H2 := fresh "Hw" in inversion H as [|? ? H1 H2]; subst; clear H; rename H2 into H
         | Forall _ (_ :: _) => let H1 := fresh "Hb" in let H2 := fresh "Hw" in inversion H as [|? ? H1 H2]; subst; clear H; rename H2 into H
         end.

Lemma list12 (l : bytes) : length l = 12%nat -> exists b0 b1 b2 b3 b4 b5 b6 b7 b8 b9 b10 b11, l = [b0; b1; b2; b3; b4; b5; b6; b7; b8; b9; b10; b11].
Proof. intros H. do 12 (destruct l as [|? l]; [discriminate|]). destruct l; [|discriminate]. repeat eexists. Qed.
Lemma list8 (l : bytes) : length l = 8%nat -> exists b0 b1 b2 b3 b4 b5 b6 b7, l = [b0; b1; b2; b3; b4; b5; b6; b7].
Proof. intros H. do 8 (destruct l as [|? l]; [discriminate|]). destruct l; [|discriminate]. repeat eexists. Qed.
Lemma list4 (l : bytes) : length l = 4%nat -> exists b0 b1 b2 b3, l = [b0; b1; b2; b3].
Proof. intros H. do 4 (destruct l as [|? l]; [discriminate|]). destruct l; [|discriminate]. repeat eexists. Qed.
Lemma list20 (l : bytes) : length l = 20%nat -> exists b0 b1 b2 b3 b4 b5 b6 b7 b8 b9 b10 b11 b12 b13 b14 b15 b16 b17 b18 b19,
  l = [b0; b1; b2; b3; b4; b5; b6; b7; b8; b9; b10; b11; b12; b13; b14; b15; b16; b17; b18; b19].
Proof. intros H. do 20 (destruct l as [|? l]; [discriminate|]). destruct l; [|discriminate]. repeat eexists. Qed.

Theorem large_text l : length l = 12%nat -> wf_bytes l -> large_from_str (large_display l) = Some l.
Proof.
  intros HL Hwf. destruct (list12 l HL) as (b0 & b1 & b2 & b3 & b4 & b5 & b6 & b7 & b8 & b9 & b10 & b11 & ->).
  split_bytes Hwf.
  unfold large_display.
  change (octs _ 0 4) with [b0; b1; b2; b3]. change (octs _ 4 8) with [b4; b5; b6; b7]. change (octs _ 8 12) with [b8; b9; b10; b11].
  set (g := unbe [b0; b1; b2; b3]). set (x := unbe [b4; b5; b6; b7]). set (y := unbe [b8; b9; b10; b11]).
  assert (Hg : g < 2 ^ 32) by (apply unbe4_bound; assumption).
  assert (Hx : x < 2 ^ 32) by (apply unbe4_bound; assumption).
  assert (Hy : y < 2 ^ 32) by (apply unbe4_bound; assumption).
  unfold large_from_str.
  change (dec g ++ [58] ++ dec x ++ [58] ++ dec y) with (dec g ++ 58 :: (dec x ++ 58 :: dec y)).
  rewrite split_once_app by (apply dec_lacks; reflexivity).
  rewrite strip_as_dec, (parse_dec_dec 32 g Hg).
  rewrite split_once_app by (apply dec_lacks; reflexivity).
  rewrite (parse_dec_dec 32 x Hx), (parse_dec_dec 32 y Hy).
  unfold g, x, y. rewrite !be4 by assumption. reflexivity.
Qed.

(* ---------------------------------------------------------------- ExtendedCommunity *)
(* the print form decides the first two octets: the constructors FromStr uses and the arms Display takes agree *)
Definition form_octets (f : ext_form) (b0 b1 : N) : bool :=
  match f with
  | PrRtAs2 => (b0 =? 0) && (b1 =? 2) | PrRoAs2 => (b0 =? 0) && (b1 =? 3)
  | PrRtIp4 => (b0 =? 1) && (b1 =? 2) | PrRoIp4 => (b0 =? 1) && (b1 =? 3)
  | PrRtAs4 => (b0 =? 2) && (b1 =? 2) | PrRoAs4 => (b0 =? 2) && (b1 =? 3)
  | PrRtOpaque => (b0 =? 67) && (b1 =? 2)
  | PrHex => true
  end.
Definition form_of (b0 b1 : N) : ext_form := ext_print_form [b0; b1].

Lemma form_sweep : forallb (fun b0 => forallb (fun b1 => form_octets (form_of b0 b1) b0 b1) (map N.of_nat (seq 0 256)))
                           (map N.of_nat (seq 0 256)) = true.
Proof. vm_compute. reflexivity. Qed.

Lemma form_of_octets b0 b1 : b0 < 256 -> b1 < 256 -> form_octets (form_of b0 b1) b0 b1 = true.
Proof.
  intros H0 H1. pose proof form_sweep as S.
  pose proof (sweep 256 _ S b0 H0) as S0. cbv beta in S0. exact (sweep 256 _ S0 b1 H1).
Qed.

Lemma ext_print_form_hd b0 b1 tl : ext_print_form (b0 :: b1 :: tl) = form_of b0 b1.
Proof. reflexivity. Qed.

Section Ext.
Variables b2 b3 b4 b5 b6 b7 : N.
Hypothesis (H2 : b2 < 256) (H3 : b3 < 256) (H4 : b4 < 256) (H5 : b5 < 256) (H6 : b6 < 256) (H7 : b7 < 256).

Lemma split_tag (t1 t2 : N) tail : (t1 =? 58) = false -> (t2 =? 58) = false ->
  split_once 58 ([t1; t2; 58] ++ tail) = Some ([t1; t2], tail).
Proof.
  intros E1 E2. change ([t1; t2; 58] ++ tail) with ([t1; t2] ++ 58 :: tail). apply split_once_app.
  unfold lacks. simpl. now rewrite E1, E2.
Qed.

Lemma tail_as2 st : ext_from_tail st (s_as ++ dec (unbe [b2; b3]) ++ [58] ++ dec (unbe [b4; b5; b6; b7]))
  = Some ([0; st] ++ [b2; b3] ++ [b4; b5; b6; b7]).
Proof.
  unfold ext_from_tail.
  change (s_as ++ dec (unbe [b2; b3]) ++ [58] ++ dec (unbe [b4; b5; b6; b7]))
    with ((65 :: 83 :: dec (unbe [b2; b3])) ++ 58 :: dec (unbe [b4; b5; b6; b7])).
  rewrite split_once_app.
  2:{ change (65 :: 83 :: dec (unbe [b2; b3])) with ([65; 83] ++ dec (unbe [b2; b3])). rewrite lacks_app, dec_lacks by reflexivity. reflexivity. }
  change (strip_as (65 :: 83 :: dec (unbe [b2; b3]))) with (dec (unbe [b2; b3])).
  rewrite (parse_dec_dec 16 _ (unbe2_bound _ _ H2 H3)), (parse_dec_dec 32 _ (unbe4_bound _ _ _ _ H4 H5 H6 H7)).
  rewrite be2, be4 by assumption. reflexivity.
Qed.

Lemma tail_as4 st : 65535 < unbe [b2; b3; b4; b5] ->
  ext_from_tail st (s_as ++ dec (unbe [b2; b3; b4; b5]) ++ [58] ++ dec (unbe [b6; b7]))
  = Some ([2; st] ++ [b2; b3; b4; b5] ++ [b6; b7]).
Proof.
  intros Hbig. unfold ext_from_tail.
  change (s_as ++ dec (unbe [b2; b3; b4; b5]) ++ [58] ++ dec (unbe [b6; b7]))
    with ((65 :: 83 :: dec (unbe [b2; b3; b4; b5])) ++ 58 :: dec (unbe [b6; b7])).
  rewrite split_once_app.
  2:{ change (65 :: 83 :: dec (unbe [b2; b3; b4; b5])) with ([65; 83] ++ dec (unbe [b2; b3; b4; b5])).
      rewrite lacks_app, dec_lacks by reflexivity. reflexivity. }
  change (strip_as (65 :: 83 :: dec (unbe [b2; b3; b4; b5]))) with (dec (unbe [b2; b3; b4; b5])).
  rewrite (parse_dec_too_big 16) by (change (2 ^ 16) with 65536; lia).
  rewrite (parse_dec_dec 32 _ (unbe4_bound _ _ _ _ H2 H3 H4 H5)), (parse_dec_dec 16 _ (unbe2_bound _ _ H6 H7)).
  rewrite be4, be2 by assumption. reflexivity.
Qed.

Lemma tail_ip4 st : ext_from_tail st (ip4_display [b2; b3; b4; b5] ++ [58] ++ dec (unbe [b6; b7]))
  = Some ([1; st] ++ [b2; b3; b4; b5] ++ [b6; b7]).
Proof.
  unfold ext_from_tail.
  change (ip4_display [b2; b3; b4; b5] ++ [58] ++ dec (unbe [b6; b7])) with (ip4_display [b2; b3; b4; b5] ++ 58 :: dec (unbe [b6; b7])).
  rewrite split_once_app by apply ip4_display_lacks_colon.
  assert (Hs : strip_as (ip4_display [b2; b3; b4; b5]) = ip4_display [b2; b3; b4; b5]).
  { unfold ip4_display. destruct (dec_head b2) as (x & t & E & Hx). rewrite E. cbn [List.app]. now apply strip_as_digit. }
  rewrite Hs, !ip4_display_not_dec, ip4_roundtrip by assumption.
  rewrite (parse_dec_dec 16 _ (unbe2_bound _ _ H6 H7)), be2 by assumption. reflexivity.
Qed.

(* the text round trip, by print form *)
Theorem ext_text_forms b0 b1 : b0 < 256 -> b1 < 256 ->
  let e := [b0; b1; b2; b3; b4; b5; b6; b7] in
  match ext_print_form e with
  | PrRtOpaque => True
  | PrRtAs4 | PrRoAs4 => 65535 < unbe [b2; b3; b4; b5] -> ext_from_str (ext_display e) = Some e
  | _ => ext_from_str (ext_display e) = Some e
  end.
Proof.
  intros H0 H1 e. subst e. pose proof (form_of_octets b0 b1 H0 H1) as F.
  assert (Hwf : wf_bytes [b0; b1; b2; b3; b4; b5; b6; b7]) by (repeat constructor; assumption).
  unfold ext_display. cbv zeta. rewrite !ext_print_form_hd.
  destruct (form_of b0 b1) eqn:EF; unfold form_octets in F; try exact I;
    try (apply andb_true_iff in F; destruct F as [F0 F1]; apply N.eqb_eq in F0, F1; subst b0 b1);
    try intros Hbig;
    change (octs _ 2 4) with [b2; b3]; change (octs _ 4 8) with [b4; b5; b6; b7];
    change (octs _ 2 6) with [b2; b3; b4; b5]; change (octs _ 6 8) with [b6; b7]; unfold ext_from_str.
  - (* rt as2 *) unfold s_rt. rewrite split_tag by reflexivity. change (str_eqb [114; 116] [114; 116]) with true. cbv iota. apply tail_as2.
  - (* rt ip4 *) unfold s_rt. rewrite split_tag by reflexivity. change (str_eqb [114; 116] [114; 116]) with true. cbv iota. apply tail_ip4.
  - (* rt as4 *) unfold s_rt. rewrite split_tag by reflexivity. change (str_eqb [114; 116] [114; 116]) with true. cbv iota. now apply tail_as4.
  - (* ro as2 *) unfold s_ro. rewrite split_tag by reflexivity.
    change (str_eqb [114; 111] [114; 116]) with false. change (str_eqb [114; 111] [114; 111]) with true. cbv iota. apply tail_as2.
  - unfold s_ro. rewrite split_tag by reflexivity.
    change (str_eqb [114; 111] [114; 116]) with false. change (str_eqb [114; 111] [114; 111]) with true. cbv iota. apply tail_ip4.
  - unfold s_ro. rewrite split_tag by reflexivity.
    change (str_eqb [114; 111] [114; 116]) with false. change (str_eqb [114; 111] [114; 111]) with true. cbv iota. now apply tail_as4.
  - (* hex *)
    set (e := [b0; b1; b2; b3; b4; b5; b6; b7]) in *. rewrite split_once_none.
    2:{ unfold s_0x. rewrite lacks_app, (hexbytes_lacks true 58 e Hwf) by reflexivity. reflexivity. }
    rewrite strip_prefix_app.
    assert (HL16 : Nat.ltb 16 (length (hexbytes true e)) = false) by (rewrite hexbytes_length; reflexivity).
    rewrite HL16.
    assert (Hb : unbe e < 2 ^ 64) by (pose proof (unbe_bound e Hwf) as B; exact B).
    rewrite (parse_hex_hexbytes 64 true e) by (try discriminate; assumption).
    f_equal. apply (be_unbe e Hwf).
Qed.

End Ext.

(* type, subtype and transitivity follow the first two octets *)
Lemma types_sweep : forallb (fun b0 => forallb (fun b1 => types_ok b0 b1) (map N.of_nat (seq 0 256))) (map N.of_nat (seq 0 256)) = true.
Proof. vm_compute. reflexivity. Qed.
Lemma types_ok_all b0 b1 : b0 < 256 -> b1 < 256 -> types_ok b0 b1 = true.
Proof.
  intros H0 H1. pose proof types_sweep as S.
  pose proof (sweep 256 _ S b0 H0) as S0. cbv beta in S0. exact (sweep 256 _ S0 b1 H1).
Qed.

(* ---------------------------------------------------------------- Ipv6ExtendedCommunity *)
Theorem v6_text e s : length e = 20%nat -> wf_bytes e -> v6_display e = Some s -> v6_from_str s = Some e.
Proof.
  intros HL Hwf. unfold v6_display. destruct (v6_prints_hex e); [|discriminate]. intros H. assert (Hs : s = s_0x ++ hexbytes false e) by congruence. subst s. clear H.
  unfold v6_from_str. rewrite strip_prefix_app. rewrite hexbytes_length, HL. cbn [Nat.mul Nat.add Nat.eqb negb].
  destruct (list20 e HL) as (c0 & c1 & c2 & c3 & c4 & c5 & c6 & c7 & c8 & c9 & c10 & c11 & c12 & c13 & c14 & c15 & c16 & c17 & c18 & c19 & ->).
  split_bytes Hwf.
  change (firstn 16 (hexbytes false [c0; c1; c2; c3; c4; c5; c6; c7; c8; c9; c10; c11; c12; c13; c14; c15; c16; c17; c18; c19]))
    with (hexbytes false [c0; c1; c2; c3; c4; c5; c6; c7]).
  change (firstn 16 (skipn 16 (hexbytes false [c0; c1; c2; c3; c4; c5; c6; c7; c8; c9; c10; c11; c12; c13; c14; c15; c16; c17; c18; c19])))
    with (hexbytes false [c8; c9; c10; c11; c12; c13; c14; c15]).
  change (skipn 32 (hexbytes false [c0; c1; c2; c3; c4; c5; c6; c7; c8; c9; c10; c11; c12; c13; c14; c15; c16; c17; c18; c19]))
    with (hexbytes false [c16; c17; c18; c19]).
  assert (W1 : wf_bytes [c0; c1; c2; c3; c4; c5; c6; c7]) by (repeat constructor; assumption).
  assert (W2 : wf_bytes [c8; c9; c10; c11; c12; c13; c14; c15]) by (repeat constructor; assumption).
  assert (W3 : wf_bytes [c16; c17; c18; c19]) by (repeat constructor; assumption).
  rewrite (parse_hex_hexbytes 64 false _) by (first [discriminate | exact W1 | exact (unbe_bound _ W1)]).
  rewrite (parse_hex_hexbytes 64 false _) by (first [discriminate | exact W2 | exact (unbe_bound _ W2)]).
  rewrite (parse_hex_hexbytes 32 false _) by (first [discriminate | exact W3 | exact (unbe_bound _ W3)]).
  pose proof (be_unbe _ W1) as B1. pose proof (be_unbe _ W2) as B2. pose proof (be_unbe _ W3) as B3.
  cbn [length] in B1, B2, B3. rewrite B1, B2, B3. reflexivity.
Qed.

(* ---------------------------------------------------------------- Community::from_str precedence *)
Lemma lacks_0x_hex up l : wf_bytes l -> lacks 58 (s_0x ++ hexbytes up l) = true.
Proof. intros H. unfold s_0x. rewrite lacks_app, (hexbytes_lacks up 58 l H) by reflexivity. reflexivity. Qed.

Lemma hex_text_std up l : wf_bytes l -> (4 < length l)%nat -> std_from_str (s_0x ++ hexbytes up l) = None.
Proof.
  intros Hwf Hlen. unfold std_from_str.
  assert (Hwk : wk_from_str (s_0x ++ hexbytes up l) = None) by (apply (wk_none_digit 48); reflexivity).
  rewrite Hwk, (split_once_none 58 _ (lacks_0x_hex up l Hwf)), strip_prefix_app.
  assert (HL : Nat.ltb 8 (length (hexbytes up l)) = true) by (rewrite hexbytes_length; apply Nat.ltb_lt; lia).
  now rewrite HL.
Qed.

Lemma hex_text_large up l : wf_bytes l -> large_from_str (s_0x ++ hexbytes up l) = None.
Proof. intros Hwf. unfold large_from_str. now rewrite (split_once_none 58 _ (lacks_0x_hex up l Hwf)). Qed.

Lemma hex_text_ext up l : wf_bytes l -> (8 < length l)%nat -> ext_from_str (s_0x ++ hexbytes up l) = None.
Proof.
  intros Hwf Hlen. unfold ext_from_str.
  rewrite (split_once_none 58 _ (lacks_0x_hex up l Hwf)), strip_prefix_app.
  assert (HL : Nat.ltb 16 (length (hexbytes up l)) = true) by (rewrite hexbytes_length; apply Nat.ltb_lt; lia).
  now rewrite HL.
Qed.

(* "rt:.." / "ro:.." is neither a standard nor a large community *)
Lemma tagged_std (t : N) tail : t = 116 \/ t = 111 -> std_from_str ([114; t; 58] ++ tail) = None.
Proof.
  intros Ht. unfold std_from_str.
  assert (Hwk : wk_from_str ([114; t; 58] ++ tail) = None)
    by (apply (wk_from_str_none P2c); [destruct Ht; subst; reflexivity|exact avoid_P2c]).
  rewrite Hwk. change ([114; t; 58] ++ tail) with ([114; t] ++ 58 :: tail).
  rewrite split_once_app by (destruct Ht; subst; reflexivity).
  destruct Ht; subst; reflexivity.
Qed.

Lemma tagged_large (t : N) tail : t = 116 \/ t = 111 -> large_from_str ([114; t; 58] ++ tail) = None.
Proof.
  intros Ht. unfold large_from_str. change ([114; t; 58] ++ tail) with ([114; t] ++ 58 :: tail).
  rewrite split_once_app by (destruct Ht; subst; reflexivity).
  destruct Ht; subst; reflexivity.
Qed.

Theorem comm_text_std r : length r = 4%nat -> wf_bytes r -> comm_from_str (std_display r) = Some (CStandard r).
Proof.
  intros HL Hwf. destruct (list4 r HL) as (a & b & c & d & ->). split_bytes Hwf.
  unfold comm_from_str. now rewrite std_text.
Qed.

Theorem comm_text_large l : length l = 12%nat -> wf_bytes l -> comm_from_str (large_display l) = Some (CLarge l).
Proof.
  intros HL Hwf. unfold comm_from_str. rewrite (large_text l HL Hwf).
  assert (Hs : std_from_str (large_display l) = None); [|now rewrite Hs].
  destruct (list12 l HL) as (b0 & b1 & b2 & b3 & b4 & b5 & b6 & b7 & b8 & b9 & b10 & b11 & ->).
  unfold large_display.
  change (octs _ 0 4) with [b0; b1; b2; b3]. change (octs _ 4 8) with [b4; b5; b6; b7]. change (octs _ 8 12) with [b8; b9; b10; b11].
  set (g := unbe [b0; b1; b2; b3]). set (x := unbe [b4; b5; b6; b7]). set (y := unbe [b8; b9; b10; b11]).
  unfold std_from_str.
  destruct (dec_head g) as (c & t & E & Hc).
  assert (Hwk : wk_from_str (dec g ++ [58] ++ dec x ++ [58] ++ dec y) = None) by (rewrite E; now apply wk_none_digit).
  rewrite Hwk.
  change (dec g ++ [58] ++ dec x ++ [58] ++ dec y) with (dec g ++ 58 :: (dec x ++ 58 :: dec y)).
  rewrite split_once_app by (apply dec_lacks; reflexivity).
  destruct (asn16_from_str (dec g)); [|reflexivity].
  destruct (dec_head x) as (c' & t' & E' & Hc').
  assert (Hn : parse_dec 16 (dec x ++ 58 :: dec y) = None).
  { rewrite E'. cbn [List.app]. apply parse_dec_none; [now apply digit_not|].
    change (c' :: t' ++ 58 :: dec y) with ((c' :: t') ++ 58 :: dec y). rewrite all_digits_app. apply andb_false_iff. right. reflexivity. }
  now rewrite Hn.
Qed.

Lemma ext_display_shape e :
  match ext_print_form e with
  | PrHex => ext_display e = s_0x ++ hexbytes true e
  | PrRtAs2 | PrRtIp4 | PrRtAs4 | PrRtOpaque => exists X, ext_display e = [114; 116; 58] ++ X
  | PrRoAs2 | PrRoIp4 | PrRoAs4 => exists X, ext_display e = [114; 111; 58] ++ X
  end.
Proof. unfold ext_display. cbv zeta. destruct (ext_print_form e); try reflexivity; eexists; reflexivity. Qed.

Theorem comm_text_ext e : length e = 8%nat -> wf_bytes e ->
  match ext_print_form e with
  | PrRtOpaque => True
  | PrRtAs4 | PrRoAs4 => 65535 < unbe (octs e 2 6) -> comm_from_str (ext_display e) = Some (CExtended e)
  | _ => comm_from_str (ext_display e) = Some (CExtended e)
  end.
Proof.
  intros HL Hwf. pose proof (ext_display_shape e) as Sh.
  destruct (list8 e HL) as (b0 & b1 & b2 & b3 & b4 & b5 & b6 & b7 & E). subst e. split_bytes Hwf.
  pose proof (ext_text_forms b2 b3 b4 b5 b6 b7 ltac:(assumption) ltac:(assumption) ltac:(assumption) ltac:(assumption)
                             ltac:(assumption) ltac:(assumption) b0 b1 ltac:(assumption) ltac:(assumption)) as T.
  cbv zeta in T. change (octs [b0; b1; b2; b3; b4; b5; b6; b7] 2 6) with [b2; b3; b4; b5].
  set (e := [b0; b1; b2; b3; b4; b5; b6; b7]) in *.
  assert (Hwe : wf_bytes e) by (repeat constructor; assumption).
  unfold comm_from_str.
  destruct (ext_print_form e); try exact I; try intros Hbig; try specialize (T Hbig);
    try (destruct Sh as [X Sh]; rewrite Sh in T; rewrite Sh; rewrite tagged_std, tagged_large, T by auto; reflexivity).
  rewrite Sh in T. rewrite Sh. rewrite hex_text_std, hex_text_large, T by (first [assumption | unfold e; cbn [length]; lia]). reflexivity.
Qed.

Theorem comm_text_v6 e s : length e = 20%nat -> wf_bytes e -> v6_display e = Some s ->
  comm_from_str s = Some (CV6Extended e).
Proof.
  intros HL Hwf Hs. pose proof (v6_text e s HL Hwf Hs) as T.
  unfold v6_display in Hs. destruct (v6_prints_hex e); [|discriminate].
  assert (Es : s = s_0x ++ hexbytes false e) by congruence. subst s.
  unfold comm_from_str.
  rewrite hex_text_std, hex_text_large, hex_text_ext, T by (first [assumption | lia]). reflexivity.
Qed.

(* ---------------------------------------------------------------- the statements of Props/C19.v *)
Lemma c19_raw_id_proof r c : comm_from_raw r = Some c -> comm_raw c = r /\ In (length r) [4; 8; 12; 20]%nat.
Proof.
  unfold comm_from_raw. remember (length r) as n eqn:En. clear En.
  do 21 (destruct n as [|n]; [first [discriminate | intros H; inversion H; subst; simpl; auto 6] |]).
  discriminate.
Qed.

Lemma c19_raw_total_proof r : In (length r) [4; 8; 12; 20]%nat -> exists c, comm_from_raw r = Some c.
Proof.
  unfold comm_from_raw. intros [H|[H|[H|[H|[]]]]]; rewrite <- H; eexists; reflexivity.
Qed.

Lemma c19_std_text_proof r : length r = 4%nat -> wf_bytes r -> std_from_str (std_display r) = Some r.
Proof. intros HL Hwf. destruct (list4 r HL) as (a & b & c & d & ->). split_bytes Hwf. now apply std_text. Qed.

Lemma c19_wellknown_names_proof i row nm : nth_error wk_table i = Some row -> In nm (wk_var row :: wk_names row) ->
  wk_from_str nm = Some (WkNamed i) /\ std_from_str nm = Some (be 4 (wk_hex row)).
Proof.
  intros Hr Hin. pose proof wk_alts_ok as A. rewrite forallb_forall in A.
  assert (Hi : (i < length wk_table)%nat) by (apply nth_error_Some; congruence).
  specialize (A i ltac:(apply in_seq; lia)). unfold wk_alt_ok in A. rewrite Hr in A.
  rewrite forallb_forall in A. specialize (A nm Hin).
  destruct (wk_from_str nm) as [[j|m]|] eqn:E; try discriminate. apply Nat.eqb_eq in A. subst j.
  split; [reflexivity|]. unfold std_from_str. rewrite E. unfold wk_to_u32. now rewrite Hr.
Qed.

Lemma c19_wellknown_value_proof n : wk_to_u32 (wk_from_u16 n) = 4294901760 + n.
Proof. apply wk_to_from. Qed.

Lemma c19_large_text_proof l : length l = 12%nat -> wf_bytes l -> large_from_str (large_display l) = Some l.
Proof. apply large_text. Qed.

Lemma c19_ext_text_proof e : length e = 8%nat -> wf_bytes e ->
  match ext_print_form e with
  | PrRtOpaque => True
  | PrRtAs4 | PrRoAs4 => 65535 < unbe (octs e 2 6) -> ext_from_str (ext_display e) = Some e
  | PrHex | PrRtAs2 | PrRoAs2 | PrRtIp4 | PrRoIp4 => ext_from_str (ext_display e) = Some e
  end.
Proof.
  intros HL Hwf. destruct (list8 e HL) as (b0 & b1 & b2 & b3 & b4 & b5 & b6 & b7 & ->). split_bytes Hwf.
  pose proof (ext_text_forms b2 b3 b4 b5 b6 b7 ltac:(assumption) ltac:(assumption) ltac:(assumption) ltac:(assumption)
                             ltac:(assumption) ltac:(assumption) b0 b1 ltac:(assumption) ltac:(assumption)) as T.
  cbv zeta in T. change (octs [b0; b1; b2; b3; b4; b5; b6; b7] 2 6) with [b2; b3; b4; b5].
  destruct (ext_print_form [b0; b1; b2; b3; b4; b5; b6; b7]); exact T.
Qed.

Lemma c19_v6ext_text_proof e s : length e = 20%nat -> wf_bytes e -> v6_display e = Some s -> v6_from_str s = Some e.
Proof. apply v6_text. Qed.

Lemma comm_from_raw_len c : comm_from_raw (comm_raw c) = Some c ->
  match c with CStandard r => length r = 4%nat | CExtended r => length r = 8%nat | CLarge r => length r = 12%nat
             | CV6Extended r => length r = 20%nat end.
Proof.
  intros H. pose proof (c19_raw_id_proof _ _ H) as [_ L]. unfold comm_from_raw in H.
  destruct L as [L|[L|[L|[L|[]]]]]; rewrite <- L in H; inversion H as [E]; rewrite <- E at 1; simpl; congruence.
Qed.

Lemma c19_community_text_proof c s : comm_from_raw (comm_raw c) = Some c -> wf_bytes (comm_raw c) -> comm_display c = Some s ->
  match c with
  | CExtended e =>
    match ext_print_form e with
    | PrRtOpaque => False
    | PrRtAs4 | PrRoAs4 => 65535 < unbe (octs e 2 6)
    | _ => True
    end
  | _ => True
  end ->
  comm_from_str s = Some c.
Proof.
  intros HR Hwf HD HC. pose proof (comm_from_raw_len c HR) as HL. destruct c as [r|e|e|l]; simpl in Hwf, HD.
  - assert (s = std_display r) by congruence. subst s. now apply comm_text_std.
  - assert (s = ext_display e) by congruence. subst s. pose proof (comm_text_ext e HL Hwf) as T.
    destruct (ext_print_form e); try contradiction; auto.
  - now apply comm_text_v6.
  - assert (s = large_display l) by congruence. subst s. now apply comm_text_large.
Qed.

Lemma c19_partition_proof r : length r = 4%nat -> wf_bytes r ->
  (std_is_wellknown r = true /\ std_is_reserved r = false /\ std_is_private r = false) \/
  (std_is_wellknown r = false /\ std_is_reserved r = true /\ std_is_private r = false) \/
  (std_is_wellknown r = false /\ std_is_reserved r = false /\ std_is_private r = true).
Proof. intros HL Hwf. destruct (list4 r HL) as (a & b & c & d & ->). split_bytes Hwf. now apply std_partition. Qed.

Lemma c19_accessors_proof r : length r = 4%nat -> wf_bytes r ->
  (std_is_wellknown r = true <-> std_to_wellknown r <> None) /\
  (std_is_wellknown r = true <-> firstn 2 r = [255; 255]) /\
  (std_is_wellknown r = true -> std_asn r = None /\ std_tag r = None) /\
  (std_is_wellknown r = false ->
     exists asn tag, std_asn r = Some asn /\ std_tag r = Some tag /\ asn < 65536 /\ tag < 65536 /\
                     r = be 2 asn ++ be 2 tag /\ unbe r = asn * 65536 + tag).
Proof.
  intros HL Hwf. destruct (list4 r HL) as (a & b & c & d & ->). split_bytes Hwf.
  destruct (std_wellknown_iff a b c d) as [I1 I2]; try assumption.
  split; [exact I1|]. split.
  - rewrite I2. cbn [firstn]. split; [intros [-> ->]; reflexivity|intros H; inversion H; auto].
  - split; [apply std_accessors_wk|apply std_accessors; assumption].
Qed.

Lemma transitive_bit b0 : b0 < 256 -> ((b0 / 64) mod 2 =? 0) = negb (N.testbit b0 6).
Proof.
  intros H.
  assert (S : forallb (fun b => Bool.eqb ((b / 64) mod 2 =? 0) (negb (N.testbit b 6))) (map N.of_nat (seq 0 256)) = true)
    by (vm_compute; reflexivity).
  pose proof (sweep 256 _ S b0 H) as E. cbv beta in E. now apply Bool.eqb_prop in E.
Qed.

Lemma c19_ext_types_proof b0 b1 tl : b0 < 256 -> b1 < 256 ->
  ext_types (b0 :: b1 :: tl) = ext_types [b0; b1] /\
  ext_is_transitive (b0 :: b1 :: tl) = negb (N.testbit b0 6) /\
  types_ok b0 b1 = true.
Proof.
  intros H0 H1. split; [reflexivity|]. split; [|now apply types_ok_all].
  unfold ext_is_transitive. cbn [nth]. now apply transitive_bit.
Qed.
