(* Facts about the text primitives of Base/Text.v *)
From Coq Require Import List NArith ZArith Bool Lia ZifyN ZifyNat ZifyBool Decimal DecimalN DecimalPos.
From RC Require Import Base.Wire Base.Text Proofs.WireProofs.
Import ListNotations.
Open Scope N_scope.
Ltac Zify.zify_post_hook ::= Z.div_mod_to_equations.

Lemma str_eqb_eq a b : str_eqb a b = true -> a = b.
Proof.
  revert b; induction a as [|x a IH]; intros [|y b] H; simpl in H; try discriminate; [reflexivity|].
  apply andb_true_iff in H. destruct H as [H1 H2]. apply N.eqb_eq in H1. subst. f_equal. now apply IH.
Qed.
Lemma str_eqb_refl a : str_eqb a a = true.
Proof. induction a as [|x a IH]; simpl; [reflexivity|]. now rewrite N.eqb_refl, IH. Qed.

(* ---- bounded sweeps *)
Lemma below_in k n : n < N.of_nat k -> In n (map N.of_nat (seq 0 k)).
Proof.
  intros H. apply in_map_iff. exists (N.to_nat n). split; [apply N2Nat.id|]. apply in_seq. lia.
Qed.
Lemma sweep k (P : N -> bool) : forallb P (map N.of_nat (seq 0 k)) = true -> forall n, n < N.of_nat k -> P n = true.
Proof. intros H n Hn. rewrite forallb_forall in H. apply H. now apply below_in. Qed.

(* ---- digits *)
Definition all_digits (s : str) : bool := forallb is_digit s.

Lemma codes_uint_codes u : codes_uint (uint_codes u) = Some u.
Proof. induction u as [|u IH|u IH|u IH|u IH|u IH|u IH|u IH|u IH|u IH|u IH]; simpl; try rewrite IH; reflexivity. Qed.

Lemma uint_codes_digits u : all_digits (uint_codes u) = true.
Proof. induction u as [|u IH|u IH|u IH|u IH|u IH|u IH|u IH|u IH|u IH|u IH]; simpl; try rewrite IH; reflexivity. Qed.

Lemma dec_digits n : all_digits (dec n) = true.
Proof. apply uint_codes_digits. Qed.

Lemma dec_nonempty n : dec n <> [].
Proof.
  unfold dec. destruct n as [|p]; [discriminate|].
  simpl. pose proof (DecimalPos.Unsigned.to_uint_nonnil p) as H. destruct (Pos.to_uint p); [congruence|discriminate..].
Qed.

Lemma dec_head n : exists c t, dec n = c :: t /\ is_digit c = true.
Proof.
  pose proof (dec_nonempty n) as H. pose proof (dec_digits n) as D.
  destruct (dec n) as [|c t]; [congruence|]. exists c, t. split; [reflexivity|].
  unfold all_digits in D. simpl in D. now apply andb_true_iff in D.
Qed.

Lemma digit_not c x : is_digit c = true -> (x <? 48) || (57 <? x) = true -> (c =? x) = false.
Proof. unfold is_digit. intros H Hx. apply N.eqb_neq. lia. Qed.

Lemma strip_plus_digit c t : is_digit c = true -> strip_plus (c :: t) = c :: t.
Proof. intros H. unfold strip_plus. now rewrite (digit_not c 43 H). Qed.

Lemma parse_dec_dec bits n : n < 2 ^ bits -> parse_dec bits (dec n) = Some n.
Proof.
  intros Hn. destruct (dec_head n) as (c & t & E & Hc). unfold parse_dec. rewrite E, (strip_plus_digit _ _ Hc), <- E.
  unfold dec. rewrite codes_uint_codes, DecimalN.Unsigned.of_to. apply N.ltb_lt in Hn. now rewrite Hn.
Qed.

Lemma parse_dec_too_big bits n : 2 ^ bits <= n -> parse_dec bits (dec n) = None.
Proof.
  intros Hn. destruct (dec_head n) as (c & t & E & Hc). unfold parse_dec. rewrite E, (strip_plus_digit _ _ Hc), <- E.
  unfold dec. rewrite codes_uint_codes, DecimalN.Unsigned.of_to. apply N.ltb_ge in Hn. now rewrite Hn.
Qed.

Lemma codes_uint_nondigit s : all_digits s = false -> codes_uint s = None.
Proof.
  induction s as [|c t IH]; simpl; [discriminate|]. intros H. apply andb_false_iff in H.
  destruct (codes_uint t) as [u|] eqn:Eu; [|reflexivity].
  destruct H as [H|H]; [|specialize (IH H); discriminate].
  unfold is_digit in H.
  destruct (c =? 48) eqn:E0; [apply N.eqb_eq in E0; subst; vm_compute in H; discriminate|].
  destruct (c =? 49) eqn:E1; [apply N.eqb_eq in E1; subst; vm_compute in H; discriminate|].
  destruct (c =? 50) eqn:E2; [apply N.eqb_eq in E2; subst; vm_compute in H; discriminate|].
  destruct (c =? 51) eqn:E3; [apply N.eqb_eq in E3; subst; vm_compute in H; discriminate|].
  destruct (c =? 52) eqn:E4; [apply N.eqb_eq in E4; subst; vm_compute in H; discriminate|].
  destruct (c =? 53) eqn:E5; [apply N.eqb_eq in E5; subst; vm_compute in H; discriminate|].
  destruct (c =? 54) eqn:E6; [apply N.eqb_eq in E6; subst; vm_compute in H; discriminate|].
  destruct (c =? 55) eqn:E7; [apply N.eqb_eq in E7; subst; vm_compute in H; discriminate|].
  destruct (c =? 56) eqn:E8; [apply N.eqb_eq in E8; subst; vm_compute in H; discriminate|].
  destruct (c =? 57) eqn:E9; [apply N.eqb_eq in E9; subst; vm_compute in H; discriminate|].
  reflexivity.
Qed.

(* a text whose first character is not '+' and that is not all digits is no number *)
Lemma parse_dec_none bits c t : (c =? 43) = false -> all_digits (c :: t) = false -> parse_dec bits (c :: t) = None.
Proof.
  intros Hc Hd. unfold parse_dec, strip_plus. rewrite Hc. now rewrite (codes_uint_nondigit _ Hd).
Qed.

Lemma all_digits_app a b : all_digits (a ++ b) = all_digits a && all_digits b.
Proof. apply forallb_app. Qed.

(* ---- split_once / strip_prefix *)
Definition lacks (c : N) (s : str) : bool := forallb (fun x => negb (x =? c)) s.

Lemma split_once_app c a b : lacks c a = true -> split_once c (a ++ c :: b) = Some (a, b).
Proof.
  induction a as [|x a IH]; simpl; intros H.
  - now rewrite N.eqb_refl.
  - apply andb_true_iff in H. destruct H as [H1 H2]. apply negb_true_iff in H1. rewrite H1, (IH H2). reflexivity.
Qed.

Lemma split_once_none c s : lacks c s = true -> split_once c s = None.
Proof.
  induction s as [|x s IH]; simpl; intros H; [reflexivity|].
  apply andb_true_iff in H. destruct H as [H1 H2]. apply negb_true_iff in H1. now rewrite H1, (IH H2).
Qed.

Lemma lacks_app c a b : lacks c (a ++ b) = lacks c a && lacks c b.
Proof. apply forallb_app. Qed.

Lemma digits_lack c s : (c <? 48) || (57 <? c) = true -> all_digits s = true -> lacks c s = true.
Proof.
  intros Hc. induction s as [|x s IH]; simpl; intros H; [reflexivity|].
  apply andb_true_iff in H. destruct H as [H1 H2]. rewrite (digit_not x c H1 Hc), (IH H2). reflexivity.
Qed.

Lemma dec_lacks c n : (c <? 48) || (57 <? c) = true -> lacks c (dec n) = true.
Proof. intros Hc. apply digits_lack; [exact Hc|apply dec_digits]. Qed.

Lemma strip_prefix_app p s : strip_prefix p (p ++ s) = Some s.
Proof. induction p as [|x p IH]; simpl; [reflexivity|]. now rewrite N.eqb_refl. Qed.

(* ---- lower *)
Lemma lower_digits s : all_digits s = true -> lower s = s.
Proof.
  induction s as [|x s IH]; simpl; intros H; [reflexivity|].
  apply andb_true_iff in H. destruct H as [H1 H2]. rewrite (IH H2). f_equal.
  unfold lower_c, is_digit in *. destruct ((65 <=? x) && (x <=? 90)) eqn:E; [lia|reflexivity].
Qed.
Lemma lower_app a b : lower (a ++ b) = lower a ++ lower b.
Proof. apply map_app. Qed.

(* ---- hexadecimal *)
Lemma hexval_hexdigit up d : d < 16 -> hexval (hexdigit up d) = Some d.
Proof.
  intros H.
  assert (S : forallb (fun d => match hexval (hexdigit up d) with Some x => x =? d | None => false end)
                      (map N.of_nat (seq 0 16)) = true) by (destruct up; vm_compute; reflexivity).
  pose proof (sweep 16 _ S d H) as Hd. simpl in Hd.
  destruct (hexval (hexdigit up d)) as [x|]; [|discriminate]. apply N.eqb_eq in Hd. now subst.
Qed.

Lemma hexdigit_range up d : d < 16 ->
  let c := hexdigit up d in (48 <= c <= 57) \/ (65 <= c <= 70) \/ (97 <= c <= 102).
Proof. intros H. unfold hexdigit. destruct (d <? 10) eqn:E; [lia|]. destruct up; lia. Qed.

Lemma hex_go_hex2 up b acc t : b < 256 -> hex_go acc (hex2 up b ++ t) = hex_go (acc * 256 + b) t.
Proof.
  intros Hb. unfold hex2. cbn [List.app hex_go].
  assert (H1 : b / 16 < 16) by lia. assert (H2 : b mod 16 < 16) by lia.
  rewrite (hexval_hexdigit up (b / 16) H1), (hexval_hexdigit up (b mod 16) H2).
  f_equal. lia.
Qed.

Lemma hex_go_hexbytes up l : forall acc t, wf_bytes l -> hex_go acc (hexbytes up l ++ t) = hex_go (unbe_acc acc l) t.
Proof.
  induction l as [|b l IH]; intros acc t H; [reflexivity|].
  inversion H as [|? ? Hb Hl]; subst. unfold hexbytes. cbn [flat_map]. rewrite <- app_assoc.
  rewrite hex_go_hex2 by exact Hb. cbn [unbe_acc]. apply IH. exact Hl.
Qed.

Lemma hexbytes_lacks up c l : wf_bytes l ->
  (c <? 48) || ((57 <? c) && (c <? 65)) || ((70 <? c) && (c <? 97)) || (102 <? c) = true -> lacks c (hexbytes up l) = true.
Proof.
  intros H Hc. induction H as [|b l Hb Hl IH]; [reflexivity|].
  unfold hexbytes. cbn [flat_map]. rewrite lacks_app. fold (hexbytes up l). rewrite IH, andb_true_r.
  unfold hex2, lacks. cbn [forallb]. rewrite andb_true_r.
  pose proof (hexdigit_range up (b / 16)) as R1. pose proof (hexdigit_range up (b mod 16)) as R2.
  cbv zeta in R1, R2. specialize (R1 ltac:(lia)). specialize (R2 ltac:(lia)).
  apply andb_true_iff; split; apply negb_true_iff, N.eqb_neq; lia.
Qed.

Lemma hexbytes_length up l : length (hexbytes up l) = (2 * length l)%nat.
Proof. induction l as [|b l IH]; [reflexivity|]. unfold hexbytes in *. cbn [flat_map]. rewrite app_length, IH. simpl. lia. Qed.

Lemma hexbytes_app up a b : hexbytes up (a ++ b) = hexbytes up a ++ hexbytes up b.
Proof. unfold hexbytes. apply flat_map_app. Qed.

Lemma hexbytes_head up b l : b < 256 -> exists c t, hexbytes up (b :: l) = c :: t /\ (c =? 43) = false.
Proof.
  intros Hb. unfold hexbytes. cbn [flat_map]. unfold hex2. cbn [List.app].
  eexists _, _. split; [reflexivity|].
  pose proof (hexdigit_range up (b / 16)) as R1. cbv zeta in R1. specialize (R1 ltac:(lia)). apply N.eqb_neq. lia.
Qed.

Lemma parse_hex_hexbytes bits up l : l <> [] -> wf_bytes l -> unbe l < 2 ^ bits ->
  parse_hex bits (hexbytes up l) = Some (unbe l).
Proof.
  intros Hne Hwf Hb. destruct l as [|b l]; [congruence|].
  inversion Hwf as [|? ? Hb0 Hl]; subst.
  destruct (hexbytes_head up b l Hb0) as (c & t & E & Hc).
  unfold parse_hex, strip_plus. rewrite E, Hc, <- E.
  pose proof (hex_go_hexbytes up (b :: l) 0 [] Hwf) as G. rewrite app_nil_r in G. rewrite G. cbn [hex_go]. fold (unbe (b :: l)).
  apply N.ltb_lt in Hb. rewrite Hb. reflexivity.
Qed.

Lemma parse_hex_too_big bits up l : l <> [] -> wf_bytes l -> 2 ^ bits <= unbe l ->
  parse_hex bits (hexbytes up l) = None.
Proof.
  intros Hne Hwf Hb. destruct l as [|b l]; [congruence|].
  inversion Hwf as [|? ? Hb0 Hl]; subst.
  destruct (hexbytes_head up b l Hb0) as (c & t & E & Hc).
  unfold parse_hex, strip_plus. rewrite E, Hc, <- E.
  pose proof (hex_go_hexbytes up (b :: l) 0 [] Hwf) as G. rewrite app_nil_r in G. rewrite G. cbn [hex_go]. fold (unbe (b :: l)).
  apply N.ltb_ge in Hb. rewrite Hb. reflexivity.
Qed.

(* ---- Ipv4Addr *)
Definition octet_ok (a : N) : bool :=
  match ip4_octet (dec a) with Some x => x =? a | None => false end.

Lemma ip4_octet_dec a : a < 256 -> ip4_octet (dec a) = Some a.
Proof.
  intros H.
  assert (S : forallb octet_ok (map N.of_nat (seq 0 256)) = true) by (vm_compute; reflexivity).
  pose proof (sweep 256 _ S a H) as Ha. unfold octet_ok in Ha.
  destruct (ip4_octet (dec a)) as [x|]; [|discriminate]. apply N.eqb_eq in Ha. now subst.
Qed.

Lemma ip4_roundtrip a b c d : a < 256 -> b < 256 -> c < 256 -> d < 256 ->
  ip4_from_str (ip4_display [a; b; c; d]) = Some [a; b; c; d].
Proof.
  intros Ha Hb Hc Hd. unfold ip4_from_str, ip4_display. cbn [List.app].
  rewrite split_once_app by (apply dec_lacks; reflexivity).
  rewrite split_once_app by (apply dec_lacks; reflexivity).
  rewrite split_once_app by (apply dec_lacks; reflexivity).
  now rewrite !ip4_octet_dec.
Qed.

(* the dotted form is no decimal number *)
Lemma ip4_display_not_dec bits a b c d : parse_dec bits (ip4_display [a; b; c; d]) = None.
Proof.
  unfold ip4_display. destruct (dec_head a) as (x & t & E & Hx). rewrite E. cbn [List.app].
  apply parse_dec_none; [now apply digit_not|].
  change (all_digits ((x :: t) ++ 46 :: (dec b ++ 46 :: dec c ++ 46 :: dec d)) = false).
  rewrite all_digits_app. apply andb_false_iff. right. reflexivity.
Qed.

Lemma ip4_display_lacks_colon l : lacks 58 (ip4_display l) = true.
Proof.
  destruct l as [|a [|b [|c [|d [|? ?]]]]]; try reflexivity. unfold ip4_display.
  rewrite !lacks_app, !dec_lacks by reflexivity. reflexivity.
Qed.
