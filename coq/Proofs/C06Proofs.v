(* C06: UpdateBuilder - conservation, progress / termination, size and well-formedness of what is produced. *)
From Coq Require Import List NArith Bool Lia ZArith.
From RC Require Import Base.Res Base.Wire Model.Open Model.Negotiate Model.Nlri Gen.AttrRules Model.AsPath Model.Attr
     Model.Update Gen.BuilderConsts Model.Builder.
Import ListNotations.
Local Open Scope nat_scope.

Definition ann_of (b : builder) : list nlri := match bd_ann b with Some r => r_ann r | None => [] end.
Definition wd_of (b : builder) : list nlri := match bd_wd b with Some w => w | None => [] end.
Definition nh_of (b : builder) : option nexthop := match bd_ann b with Some r => Some (r_nh r) | None => None end.
Definition oann (o : option builder) := match o with Some b => ann_of b | None => [] end.
Definition owd (o : option builder) := match o with Some b => wd_of b | None => [] end.

Lemma bsize_eq b : bsize b = length (ann_of b) + length (wd_of b).
Proof. unfold bsize, ann_of, wd_of, opt_len. destruct (bd_ann b), (bd_wd b); reflexivity. Qed.

(* ---- the split index ---- *)
Lemma split_go_mono l limit : forall acc idx, idx <= split_go l limit acc idx <= idx + length l.
Proof.
  induction l as [|x l IH]; intros acc idx; cbn [split_go length]; [lia|].
  destruct (Nat.ltb limit (acc + Nlri.compose_len x)); [lia|]. specialize (IH (acc + Nlri.compose_len x) (S idx)). lia.
Qed.

Lemma split_go_pos l limit : forall acc idx, l <> [] -> 1 <= split_go l limit acc idx.
Proof.
  destruct l as [|x l]; intros acc idx H; [congruence|]. cbn [split_go].
  destruct (Nat.ltb limit (acc + Nlri.compose_len x)); [lia|].
  pose proof (split_go_mono l limit (acc + Nlri.compose_len x) (S idx)). lia.
Qed.

Lemma split_at_bounds l limit : l <> [] -> 1 <= split_at l limit <= length l.
Proof.
  intros H. unfold split_at. split; [now apply split_go_pos|]. pose proof (split_go_mono l limit 0 0). lia.
Qed.

(* the batch fits the limit, unless it was forced to a single NLRI that is itself larger than the limit *)
Lemma split_go_fits l limit : forall acc idx,
  acc <= limit ->
  let k := split_go l limit acc idx in
  acc + sum_len (firstn (k - idx) l) <= limit \/
  (idx = 0 /\ k = 1 /\ exists x tl, l = x :: tl /\ limit < acc + Nlri.compose_len x).
Proof.
  induction l as [|x l IH]; intros acc idx Hacc; cbn [split_go].
  - left. rewrite firstn_nil. cbn. lia.
  - destruct (Nat.ltb limit (acc + Nlri.compose_len x)) eqn:E.
    + apply Nat.ltb_lt in E. destruct idx as [|idx].
      * right. repeat split; eauto.
      * left. replace (Nat.max (S idx) 1 - S idx) with 0 by lia. cbn. lia.
    + apply Nat.ltb_ge in E. specialize (IH (acc + Nlri.compose_len x) (S idx) E).
      cbv zeta in IH. destruct IH as [IH|(Hc & _)]; [|discriminate].
      left. pose proof (split_go_mono l limit (acc + Nlri.compose_len x) (S idx)) as Hm.
      replace (split_go l limit (acc + Nlri.compose_len x) (S idx) - idx)
        with (S (split_go l limit (acc + Nlri.compose_len x) (S idx) - S idx)) by lia.
      cbn [firstn sum_len fold_right]. fold (sum_len (firstn (split_go l limit (acc + Nlri.compose_len x) (S idx) - S idx) l)). lia.
Qed.

Lemma split_at_fits l limit :
  sum_len (firstn (split_at l limit) l) <= limit \/
  (split_at l limit = 1 /\ exists x tl, l = x :: tl /\ limit < Nlri.compose_len x).
Proof.
  pose proof (split_go_fits l limit 0 0 (Nat.le_0_l _)) as H. cbv zeta in H. rewrite Nat.sub_0_r in H.
  destruct H as [H|(_ & H1 & x & tl & -> & H2)]; [left; exact H|right]. split; [exact H1|eauto].
Qed.

(* ---- plan: conservation and progress ---- *)
Lemma is_nil_spec {A} (l : list A) : is_nil l = true <-> l = [].
Proof. destruct l; cbn; split; congruence. Qed.

Definition empty_msg (b : builder) : Prop := ann_of b = [] /\ wd_of b = [] /\ bd_attrs b = [].

Definition plan_post (b batch : builder) (rem : option builder) : Prop :=
  ann_of b = ann_of batch ++ oann rem /\ wd_of b = wd_of batch ++ owd rem /\ bd_fam batch = bd_fam b /\
  (ann_of batch <> [] -> bd_attrs batch = bd_attrs b /\ nh_of batch = nh_of b) /\
  (empty_msg batch -> batch = b) /\
  match rem with
  | Some r => bsize r < bsize b /\ bd_fam r = bd_fam b /\ bd_attrs r = bd_attrs b /\
              (bd_ann r = None -> ~ empty_msg r) /\ (bd_ann r <> None -> nh_of r = nh_of b)
  | None => True
  end.

Lemma split_parts (L : list nlri) k : L <> [] -> 1 <= k <= length L ->
  firstn k L ++ skipn k L = L /\ firstn k L <> [] /\ length (skipn k L) < length L.
Proof.
  intros HL Hk. split; [apply firstn_skipn|]. split.
  - intros E0. assert (length (firstn k L) = k) by (rewrite firstn_length; lia). rewrite E0 in H. cbn in H. lia.
  - rewrite skipn_length. lia.
Qed.

Lemma plan_wd_spec b x w batch rem :
  bd_wd b = Some (x :: w) -> plan_wd b (x :: w) = PMsg batch rem -> plan_post b batch rem.
Proof.
  intros Ew. unfold plan_wd. set (L := x :: w). set (k := split_at L bc_wd_threshold).
  assert (HL : L <> []) by (unfold L; congruence).
  destruct (split_parts L k HL (split_at_bounds L _ HL)) as (Hfs & Hne & Hlt).
  intros H. injection H as <- <-. unfold plan_post.
  unfold ann_of at 1, wd_of at 1. rewrite Ew. fold L.
  cbn [ann_of wd_of bd_ann bd_wd bd_fam bd_attrs app].
  assert (Hwd : L = firstn k L ++ owd (if match bd_ann b with None => true | _ => false end && is_nil (skipn k L) && is_nil (bd_attrs b)
              then None else Some (mkB (bd_fam b) (bd_ann b) (if is_nil (skipn k L) then None else Some (skipn k L)) (bd_attrs b)))).
  { destruct (is_nil (skipn k L)) eqn:En.
    - apply is_nil_spec in En. rewrite En in Hfs. rewrite app_nil_r in Hfs.
      destruct (_ && _ && _); cbn [owd wd_of bd_wd]; now rewrite app_nil_r.
    - rewrite andb_false_r. cbn [andb owd wd_of bd_wd]. now rewrite Hfs. }
  assert (Han : match bd_ann b with Some r => r_ann r | None => [] end =
                oann (if match bd_ann b with None => true | _ => false end && is_nil (skipn k L) && is_nil (bd_attrs b)
              then None else Some (mkB (bd_fam b) (bd_ann b) (if is_nil (skipn k L) then None else Some (skipn k L)) (bd_attrs b)))).
  { destruct (bd_ann b) eqn:Ea; cbn [andb]; [reflexivity|]. destruct (_ && _); reflexivity. }
  split; [exact Han|]. split; [exact Hwd|]. split; [reflexivity|]. split; [intros E0; now elim E0|]. split.
  { unfold empty_msg. cbn [wd_of bd_wd]. intros (_ & E0 & _). congruence. }
  destruct (match bd_ann b with None => true | _ => false end && is_nil (skipn k L) && is_nil (bd_attrs b)) eqn:Ec; [exact I|].
  split.
  { rewrite !bsize_eq. unfold ann_of, wd_of. cbn [bd_ann bd_wd]. rewrite Ew. fold L.
    destruct (is_nil (skipn k L)) eqn:En; [apply is_nil_spec in En; rewrite En in Hlt; cbn in *; lia|lia]. }
  split; [reflexivity|]. split; [reflexivity|]. split; [|reflexivity].
  cbn [bd_ann]. intros Ea. rewrite Ea in Ec. cbn [andb] in Ec. unfold empty_msg. cbn [wd_of bd_wd bd_attrs].
  intros (_ & E1 & E2). destruct (is_nil (skipn k L)) eqn:En; cbn [andb] in Ec.
  - rewrite E2 in Ec. discriminate.
  - cbn [wd_of bd_wd] in E1. rewrite E1 in En. discriminate.
Qed.

Lemma plan_ann_spec b batch rem :
  plan_ann b = Ok (PMsg batch rem) -> (bd_wd b = None \/ bd_wd b = Some []) -> plan_post b batch rem.
Proof.
  unfold plan_ann. destruct (calc_len b) as [pl| |]; cbn [bind]; try discriminate.
  destruct (bd_ann b) as [r|] eqn:Ea; [|discriminate].
  destruct (pamap_bytes_len (bd_attrs b)) as [al| |]; cbn [bind]; try discriminate.
  destruct (Nat.ltb _ _); [discriminate|].
  destruct (r_ann r) as [|a0 l0] eqn:El; [discriminate|].
  set (L := a0 :: l0). set (k := split_at L _).
  assert (HL : L <> []) by (unfold L; congruence).
  destruct (split_parts L k HL (split_at_bounds L _ HL)) as (Hfs & Hne & Hlt).
  intros H Hw. injection H as <- <-. unfold plan_post.
  unfold ann_of at 1, wd_of at 1, nh_of at 2. rewrite Ea, El. fold L.
  cbn [ann_of wd_of nh_of bd_ann bd_wd bd_fam bd_attrs r_ann r_nh app].
  assert (Hwd0 : match bd_wd b with Some w => w | None => [] end = []) by (destruct Hw as [->| ->]; reflexivity).
  destruct (is_nil (skipn k L)) eqn:En.
  - apply is_nil_spec in En. rewrite En in Hfs. rewrite app_nil_r in Hfs. cbn [oann owd]. rewrite Hfs, app_nil_r.
    split; [reflexivity|]. split; [exact Hwd0|]. split; [reflexivity|]. split; [auto|]. split; [|exact I].
    unfold empty_msg at 1. cbn [ann_of bd_ann r_ann]. intros (E0 & _). unfold L in E0. discriminate.
  - cbn [oann owd ann_of wd_of bd_ann bd_wd r_ann]. rewrite Hfs.
    split; [reflexivity|]. split; [unfold wd_of; cbn [bd_wd app]; rewrite Hwd0; reflexivity|]. split; [reflexivity|]. split; [auto|]. split.
    { unfold empty_msg at 1. cbn [ann_of bd_ann r_ann]. intros (E0 & _). congruence. }
    split.
    { rewrite !bsize_eq. unfold ann_of, wd_of. cbn [bd_ann bd_wd r_ann]. rewrite Ea, El. fold L. lia. }
    split; [reflexivity|]. split; [reflexivity|]. split; [cbn [bd_ann]; discriminate|].
    intros _. unfold nh_of. cbn [bd_ann r_nh]. rewrite ?Ea. reflexivity.
Qed.

Lemma plan_spec b batch rem : plan b = Ok (PMsg batch rem) -> plan_post b batch rem.
Proof.
  unfold plan. destruct (larger_than b) as [big| |]; cbn [bind]; try discriminate.
  destruct big; cbn [negb].
  2:{ intros H. injection H as <- <-. unfold plan_post. cbn [oann owd]. rewrite !app_nil_r.
      split; [reflexivity|]. split; [reflexivity|]. split; [reflexivity|]. split; [auto|]. split; [auto|exact I]. }
  destruct (bd_wd b) as [[|x w]|] eqn:Ew.
  - intros H. apply plan_ann_spec; [exact H|now right].
  - intros H. assert (H' : plan_wd b (x :: w) = PMsg batch rem) by congruence. exact (plan_wd_spec b x w batch rem Ew H').
  - intros H. apply plan_ann_spec; [exact H|now left].
Qed.

(* ---- into_message ---- *)
Lemma into_message_ok cfg b m :
  into_message cfg b = Ok (MOk m) ->
  is_valid b = None /\ exists n, calc_len b = Ok n /\ n <= bc_max_pdu /\ finish b = Ok m /\ exists u, parse_update cfg m = Ok u.
Proof.
  unfold into_message. destruct (is_valid b); [discriminate|].
  destruct (calc_len b) as [n| |]; cbn [bind]; try discriminate.
  destruct (Nat.ltb bc_max_pdu n) eqn:E; [discriminate|]. apply Nat.ltb_ge in E.
  destruct (finish b) as [m'| |]; cbn [bind]; try discriminate.
  destruct (parse_update cfg m') as [u| |] eqn:Ep; try discriminate.
  intros H. injection H as <-. split; [reflexivity|]. exists n. repeat split; auto. now exists u.
Qed.

Lemma valid_nonempty b : is_valid b = None -> (bd_ann b = None -> ~ empty_msg b) -> ~ empty_msg b.
Proof.
  unfold is_valid. destruct (bd_ann b) as [r|] eqn:Ea.
  - destruct (is_nil (r_ann r)) eqn:En; [discriminate|]. intros _ _ (E0 & _). unfold ann_of in E0. rewrite Ea in E0.
    rewrite E0 in En. discriminate.
  - intros _ H. now apply H.
Qed.

(* ---- progress and termination ---- *)
Lemma take_message_progress cfg b m b' : take_message cfg b = Ok (m, Some b') -> bsize b' < bsize b.
Proof.
  unfold take_message. destruct (plan b) as [[batch rem|e]| |] eqn:Ep; cbn [bind]; try discriminate.
  - destruct (into_message cfg batch) as [m'| |]; cbn [bind]; try discriminate. intros H. injection H as _ ->.
    apply plan_spec in Ep. destruct Ep as (_ & _ & _ & _ & _ & H & _). exact H.
Qed.

Lemma into_messages_fuel cfg : forall fuel b, bsize b < fuel -> into_messages fuel cfg b <> None.
Proof.
  induction fuel as [|fuel IH]; intros b Hb; [lia|]. cbn [into_messages].
  destruct (take_message cfg b) as [[[m|e] [b'|]]| |] eqn:Et; try discriminate.
  apply take_message_progress in Et. specialize (IH b' ltac:(lia)).
  destruct (into_messages fuel cfg b') as [[[ms|e]| |]|]; congruence.
Qed.

Lemma pdu_iter_fuel cfg : forall fuel b, bsize b < fuel -> pdu_iter fuel cfg b <> None.
Proof.
  induction fuel as [|fuel IH]; intros b Hb; [lia|]. cbn [pdu_iter].
  destruct (take_message cfg b) as [[m [b'|]]| |] eqn:Et; try discriminate.
  apply take_message_progress in Et. specialize (IH b' ltac:(lia)).
  destruct (pdu_iter fuel cfg b'); congruence.
Qed.

(* ---- what a successful into_messages run produced ---- *)
Fixpoint batches (fuel : nat) (b : builder) : list builder :=
  match fuel with
  | O => []
  | S f =>
    match plan b with
    | Ok (PMsg batch rem) => batch :: match rem with Some r => batches f r | None => [] end
    | _ => []
    end
  end.

Definition inv_nonempty (b : builder) : Prop := bd_ann b = None -> ~ empty_msg b.

Lemma ann_none_nil b : bd_ann b = None -> ann_of b = [].
Proof. unfold ann_of. now intros ->. Qed.

Lemma into_messages_spec cfg : forall fuel b ms,
  into_messages fuel cfg b = Some (Ok (inl ms)) ->
  Forall2 (fun batch m => into_message cfg batch = Ok (MOk m)) (batches fuel b) ms /\
  concat (map ann_of (batches fuel b)) = ann_of b /\ concat (map wd_of (batches fuel b)) = wd_of b /\
  Forall (fun batch => bd_fam batch = bd_fam b /\
                       (ann_of batch <> [] -> bd_attrs batch = bd_attrs b /\ nh_of batch = nh_of b)) (batches fuel b) /\
  (inv_nonempty b -> Forall (fun batch => ~ empty_msg batch) (batches fuel b)).
Proof.
  induction fuel as [|fuel IH]; intros b ms; cbn [into_messages batches]; [discriminate|].
  unfold take_message. destruct (plan b) as [[batch rem|e]| |] eqn:Ep; cbn [bind]; try discriminate.
  destruct (into_message cfg batch) as [[m|e]| |] eqn:Em; cbn [bind]; try discriminate.
  pose proof (plan_spec _ _ _ Ep) as (Ha & Hw & Hf & Hattr & Hemp & Hrem).
  pose proof (into_message_ok _ _ _ Em) as (Hval & _).
  assert (Hne : inv_nonempty b -> ~ empty_msg batch).
  { intros Hi He. pose proof (Hemp He) as ->. exact (valid_nonempty b Hval Hi He). }
  destruct rem as [r|].
  - destruct Hrem as (_ & Hrf & Hra & Hri & Hrn).
    destruct (into_messages fuel cfg r) as [[[ms'|e]| |]|] eqn:Er; try discriminate.
    intros H. injection H as <-. specialize (IH r ms' Er) as (I1 & I2 & I3 & I4 & I5).
    cbn [oann owd] in Ha, Hw. split; [constructor; assumption|]. cbn [map concat].
    split; [rewrite I2; auto|]. split; [rewrite I3; auto|]. split.
    + constructor; [split; assumption|]. rewrite Forall_forall in I4 |- *. intros x Hx. specialize (I4 x Hx) as (J1 & J2).
      split; [congruence|]. intros Hxa. specialize (J2 Hxa) as (J2 & J3). split; [congruence|].
      rewrite J3. apply Hrn. intros En. apply ann_none_nil in En.
      (* x is one of r's batches and announces something, so r does *)
      assert (Hin : In (ann_of x) (map ann_of (batches fuel r))) by (apply in_map; exact Hx).
      rewrite <- I2 in En. destruct (ann_of x) as [|a l] eqn:Ex; [congruence|].
      apply in_split in Hin as (l1 & l2 & Hl). rewrite Hl, concat_app in En. cbn [concat] in En.
      apply app_eq_nil in En as (_ & En). discriminate.
    + intros Hi. constructor; [auto|]. apply I5. exact Hri.
  - intros H. injection H as <-. cbn [oann owd] in Ha, Hw. rewrite app_nil_r in Ha, Hw.
    split; [repeat constructor; assumption|]. cbn [map concat]. rewrite !app_nil_r.
    split; [auto|]. split; [auto|]. split; [constructor; [split; assumption|constructor]|]. intros Hi. constructor; [auto|constructor].
Qed.

(* ---- an oversize error is never spurious ---- *)

Definition unrepresentable (b : builder) : Prop :=
  (exists x, In x (wd_of b) /\ bc_max_pdu < 30 + Nlri.compose_len x) \/
  (exists x r al, In x (ann_of b) /\ bd_ann b = Some r /\ pamap_bytes_len (bd_attrs b) = Ok al /\
                  bc_max_pdu < bc_limit_fixed + nh_clen (r_nh r) + al + Nlri.compose_len x) \/
  (ann_of b = [] /\ wd_of b = [] /\ exists n, calc_len b = Ok n /\ bc_max_pdu < n).

Lemma attr_clen_le v : attr_clen v <= 4 + v.
Proof. unfold attr_clen, header_len. destruct (Nat.ltb 255 v); lia. Qed.

Lemma consts_ok : bc_wd_threshold + 30 <= bc_max_pdu /\ 31 <= bc_limit_fixed /\ bc_limit_fixed <= bc_max_pdu.
Proof. vm_compute. repeat split; repeat constructor. Qed.

Lemma plan_wd_fits b x w batch rem n :
  plan_wd b (x :: w) = PMsg batch rem -> bd_wd b = Some (x :: w) -> calc_len batch = Ok n ->
  n <= bc_max_pdu \/ (exists y, In y (wd_of b) /\ bc_max_pdu < 30 + Nlri.compose_len y).
Proof.
  unfold plan_wd. intros H Ew. injection H as <- _. unfold calc_len. cbn [bd_attrs bd_ann bd_wd pamap_bytes_len bind opt_len].
  intros Hn. apply Ok_inj in Hn. subst n.
  pose proof (attr_clen_le (unreach_vlen (firstn (split_at (x :: w) bc_wd_threshold) (x :: w)))) as Hc. unfold unreach_vlen in *.
  destruct consts_ok as (C1 & _).
  destruct (split_at_fits (x :: w) bc_wd_threshold) as [Hf|(Hk & y & tl & Hy & Hbig)].
  - left. lia.
  - rewrite Hk in *. inversion Hy; subst y tl. cbn [firstn sum_len fold_right] in *.
    destruct (Nat.le_gt_cases (19 + 2 + 2 + 0 + 0 + attr_clen (3 + (Nlri.compose_len x + 0))) bc_max_pdu) as [Hle|Hgt]; [left; exact Hle|].
    right. exists x. split; [unfold wd_of; rewrite Ew; now left|]. lia.
Qed.

Lemma plan_ann_fits b batch rem n :
  plan_ann b = Ok (PMsg batch rem) -> calc_len batch = Ok n ->
  n <= bc_max_pdu \/ (exists x r al, In x (ann_of b) /\ bd_ann b = Some r /\ pamap_bytes_len (bd_attrs b) = Ok al /\
                                     bc_max_pdu < bc_limit_fixed + nh_clen (r_nh r) + al + Nlri.compose_len x).
Proof.
  unfold plan_ann. destruct (calc_len b) as [pl| |]; cbn [bind]; try discriminate.
  destruct (bd_ann b) as [r|] eqn:Ea; [|discriminate].
  destruct (pamap_bytes_len (bd_attrs b)) as [al| |] eqn:El; cbn [bind]; try discriminate.
  destruct (Nat.ltb _ _) eqn:Elt; [discriminate|]. apply Nat.ltb_ge in Elt.
  destruct (r_ann r) as [|a0 l0] eqn:Er; [discriminate|].
  set (L := a0 :: l0). set (limit := bc_max_pdu - bc_limit_fixed - nh_clen (r_nh r) - al).
  intros H. injection H as <- _. unfold calc_len. cbn [bd_attrs bd_ann bd_wd opt_len r_ann r_nh]. rewrite El. cbn [bind].
  intros Hn. apply Ok_inj in Hn. subst n.
  pose proof (attr_clen_le (reach_vlen {| r_ann := firstn (split_at L limit) L; r_nh := r_nh r |})) as Hc.
  unfold reach_vlen in *. cbn [r_ann r_nh] in *. destruct consts_ok as (_ & C2 & C3).
  assert (Hlim : limit = bc_max_pdu - bc_limit_fixed - nh_clen (r_nh r) - al) by reflexivity. clearbody limit.
  destruct (split_at_fits L limit) as [Hf|(Hk & y & tl & Hy & Hbig)].
  - left. lia.
  - right. exists a0, r, al. unfold L in Hy. inversion Hy; subst y tl.
    split; [unfold ann_of; rewrite Ea, Er; now left|]. split; [reflexivity|]. split; [reflexivity|]. lia.
Qed.

Lemma larger_than_false b : larger_than b = Ok false -> exists n, calc_len b = Ok n /\ n <= bc_max_pdu.
Proof.
  unfold larger_than. destruct (match bd_ann b with Some r => Nat.ltb bc_max_pdu (length (r_ann r) * 2) | None => false end); [discriminate|].
  destruct (calc_len b) as [n| |]; cbn [bind]; try discriminate. intros H. injection H as H. apply Nat.ltb_ge in H. eauto.
Qed.

Lemma larger_than_true_empty b : larger_than b = Ok true -> ann_of b = [] -> exists n, calc_len b = Ok n /\ bc_max_pdu < n.
Proof.
  unfold larger_than, ann_of. intros H Ha.
  assert (E : match bd_ann b with Some r => Nat.ltb bc_max_pdu (length (r_ann r) * 2) | None => false end = false).
  { destruct (bd_ann b) as [r|]; [|reflexivity]. rewrite Ha. reflexivity. }
  rewrite E in H. destruct (calc_len b) as [n| |]; cbn [bind] in H; try discriminate. injection H as H. apply Nat.ltb_lt in H. eauto.
Qed.

Lemma is_valid_kind b e : is_valid b = Some e -> e = EEmptyReach \/ e = EEmptyUnreach.
Proof.
  unfold is_valid. destruct (match bd_ann b with Some r => is_nil (r_ann r) | None => false end); [intros H; injection H as <-; now left|].
  destruct (_ && _); [intros H; injection H as <-; now right|discriminate].
Qed.

Lemma too_large_justified cfg b n rem :
  take_message cfg b = Ok (MErr (ETooLarge n), rem) -> unrepresentable b.
Proof.
  unfold take_message. destruct (plan b) as [[batch r0|e]| |] eqn:Ep; cbn [bind]; try discriminate.
  - (* the planned batch failed the size check *)
    destruct (into_message cfg batch) as [mr| |] eqn:Em; cbn [bind]; try discriminate.
    intros H. injection H as -> _. unfold into_message in Em.
    destruct (is_valid batch) as [e0|] eqn:Ev; [destruct (is_valid_kind _ _ Ev) as [-> | ->]; injection Em as Em; discriminate|].
    destruct (calc_len batch) as [n'| |] eqn:Ec; cbn [bind] in Em; try discriminate.
    destruct (Nat.ltb bc_max_pdu n') eqn:Elt.
    2:{ destruct (finish batch); cbn [bind] in Em; try discriminate. destruct (parse_update cfg _); try discriminate; injection Em as Em; discriminate. }
    apply Nat.ltb_lt in Elt. injection Em as ->.
    unfold plan in Ep. destruct (larger_than b) as [big| |] eqn:Elg; cbn [bind] in Ep; try discriminate.
    destruct big; cbn [negb] in Ep.
    2:{ injection Ep as <- _. destruct (larger_than_false _ Elg) as (n0 & H0 & H1). rewrite H0 in Ec. injection Ec as ->. lia. }
    destruct (bd_wd b) as [[|x w]|] eqn:Ew.
    + destruct (plan_ann_fits _ _ _ _ Ep Ec) as [Hle|Hx]; [lia|]. right. left. exact Hx.
    + assert (Ep' : plan_wd b (x :: w) = PMsg batch r0) by congruence.
      destruct (plan_wd_fits _ _ _ _ _ _ Ep' Ew Ec) as [Hle|Hx]; [lia|]. left. exact Hx.
    + destruct (plan_ann_fits _ _ _ _ Ep Ec) as [Hle|Hx]; [lia|]. right. left. exact Hx.
  - (* plan itself gave up *)
    intros H. injection H as -> _.
    unfold plan in Ep. destruct (larger_than b) as [big| |] eqn:Elg; cbn [bind] in Ep; try discriminate.
    destruct big; cbn [negb] in Ep; [|discriminate].
    assert (Hw : wd_of b = [] -> plan_ann b = Ok (PErr (ETooLarge n)) -> unrepresentable b).
    { intros Hwd. unfold plan_ann. destruct (calc_len b) as [pl| |] eqn:Ec; cbn [bind]; try discriminate.
      destruct (bd_ann b) as [r|] eqn:Ea.
      - destruct (pamap_bytes_len (bd_attrs b)) as [al| |] eqn:El; cbn [bind]; try discriminate.
        destruct (Nat.ltb _ _) eqn:Elt.
        + apply Nat.ltb_lt in Elt. intros _. destruct (r_ann r) as [|a0 l0] eqn:Er.
          * right. right. assert (Ha0 : ann_of b = []) by (unfold ann_of; rewrite Ea; exact Er).
            split; [exact Ha0|]. split; [exact Hwd|]. apply (larger_than_true_empty b Elg Ha0).
          * right. left. exists a0, r, al. split; [unfold ann_of; rewrite Ea, Er; now left|]. split; [exact Ea|]. split; [exact El|].
            destruct consts_ok as (_ & _ & C3). lia.
        + destruct (r_ann r) as [|a0 l0] eqn:Er; [|discriminate]. intros _. right. right.
          assert (Ha0 : ann_of b = []) by (unfold ann_of; rewrite Ea; exact Er).
          split; [exact Ha0|]. split; [exact Hwd|]. apply (larger_than_true_empty b Elg Ha0).
      - intros _. right. right. assert (Ha0 : ann_of b = []) by (unfold ann_of; rewrite Ea; reflexivity).
        split; [exact Ha0|]. split; [exact Hwd|]. apply (larger_than_true_empty b Elg Ha0). }
    destruct (bd_wd b) as [[|x w]|] eqn:Ew.
    + apply Hw; [unfold wd_of; rewrite Ew; reflexivity|exact Ep].
    + discriminate.
    + apply Hw; [unfold wd_of; rewrite Ew; reflexivity|exact Ep].
Qed.
