(* C08: UPDATEs arriving back to back in Established - however many - all reach the application, once each and in order. *)
From Coq Require Import List NArith Bool Lia.
From RC Require Import Base.Res Base.Wire Model.Negotiate Gen.FsmTable Model.Fsm Proofs.C08Proofs.
Import ListNotations.
Local Open Scope N_scope.

Definition upd1 (s : sess) (id : N) : sess := fst (handle_msg s (WUpdate id)).
Definition burst (s : sess) (ids : list N) : sess := fold_left upd1 ids s.

Lemma upd1_established s id :
  s_st s = SEstablished -> s_app (upd1 s id) = s_app s ++ [AUpdate id] /\ s_st (upd1 s id) = SEstablished.
Proof.
  intros He. pose proof (c08_update_iff_proof s id) as H. cbv zeta in H. destruct H as (H & _).
  destruct (H He) as (A & _ & B). unfold upd1. split; assumption.
Qed.

Global Opaque upd1.

Lemma c08_update_burst_proof ids : forall s,
  s_st s = SEstablished ->
  s_app (burst s ids) = s_app s ++ map AUpdate ids /\ s_st (burst s ids) = SEstablished.
Proof.
  induction ids as [|id ids IH]; intros s He.
  - unfold burst. cbn [fold_left map]. rewrite app_nil_r. split; [reflexivity|exact He].
  - destruct (upd1_established s id He) as (Ha & Hs). destruct (IH (upd1 s id) Hs) as (IHa & IHs).
    change (burst s (id :: ids)) with (burst (upd1 s id) ids). rewrite IHa, IHs, Ha, <- app_assoc. split; reflexivity.
Qed.
