From Coq Require Import List Arith NArith ZArith Bool Lia ZifyN ZifyNat ZifyBool.
From RC Require Import Base.Res Base.Wire Proofs.WireProofs Gen.AttrRules Model.AsPath Proofs.AsPathProofs Model.Attr.
Import ListNotations.
Open Scope N_scope.
Ltac Zify.zify_post_hook ::= Z.div_mod_to_equations.
Local Arguments Nat.mul : simpl never.
Local Arguments Nat.add : simpl never.
Local Arguments N.of_nat : simpl never.
Local Arguments N.to_nat : simpl never.
Local Arguments N.div : simpl never.
Local Arguments N.modulo : simpl never.
Local Arguments N.add : simpl never.
Local Arguments N.sub : simpl never.

(* ---- flag bits ---- *)
Lemma has_ext_set f : has_ext (set_ext f) = true.
Proof. unfold set_ext. destruct (has_ext f) eqn:E; [exact E|]. unfold has_ext in *. apply N.eqb_eq. apply N.eqb_neq in E. lia. Qed.
Lemma has_ext_clear f : has_ext (clear_ext f) = false.
Proof. unfold clear_ext. destruct (has_ext f) eqn:E; [|exact E]. unfold has_ext in *. apply N.eqb_neq. apply N.eqb_eq in E. lia. Qed.

(* ---- well-formed typed attributes ---- *)
Definition hop_okb (h : hop) : bool :=
  match h with
  | HAsn a => a <? 4294967296
  | HSeg t asns => seg_type_ok t && Nat.leb (length asns) 255 && forallb (fun a => a <? 4294967296) asns &&
                   (negb (t =? 2) || match asns with [] => true | _ => false end)
  end.

Lemma hop_okb_ok h : hop_okb h = true -> hop_ok h.
Proof.
  destruct h as [a|t asns]; cbn.
  - apply N.ltb_lt.
  - rewrite !andb_true_iff. intros [[[H1 H2] H3] H4]. split; [exact H1|]. split; [now apply Nat.leb_le|]. split.
    + unfold asns_ok. rewrite forallb_forall in H3. apply Forall_forall. intros x Hx. cbn. apply N.ltb_lt. now apply H3.
    + intros ->. cbn in H4. destruct asns; [reflexivity|discriminate].
Qed.

Definition wf_attr (a : pattr) : bool :=
  match a with
  | AU8 c n => (c =? 1) && (n <? 256)
  | AU32 c n => ((c =? 3) || (c =? 4) || (c =? 5) || (c =? 9) || (c =? 20) || (c =? 35)) && (n <? 4294967296)
  | AEmpty c => c =? 6
  | AAgg c asn addr => ((c =? 7) || (c =? 18)) && (asn <? 4294967296) && (addr <? 4294967296)
  | AList c k items =>
    (((c =? 8) && Nat.eqb k 4) || ((c =? 10) && Nat.eqb k 4) || ((c =? 16) && Nat.eqb k 8) ||
     ((c =? 25) && Nat.eqb k 20) || ((c =? 32) && Nat.eqb k 12)) &&
    forallb (fun x => x <? 256 ^ N.of_nat k) items && (N.of_nat (length items * k) <=? 65535)
  | APath c hops =>
    ((c =? 2) || (c =? 17)) && forallb hop_okb hops &&
    match to_as_path hops with Ok w => N.of_nat (length w) <=? 65535 | _ => false end
  | ALimit ub asn => (ub <? 256) && (asn <? 4294967296)
  | AAttrSet o attrs => (o <? 4294967296) && wf_bytesb attrs && (N.of_nat (4 + length attrs) <=? 65535)
  | ARaw c raw => (c =? 255) && wf_bytesb raw && (N.of_nat (length raw) <=? 65535)
  | AUnimpl _ _ _ | AInvalid _ _ _ => false
  end.

(* ---- items ---- *)
Lemma flat_be_len k items : length (flat_map (be k) items) = (length items * k)%nat.
Proof. induction items as [|x l IH]; cbn [flat_map length]; [lia|]. rewrite app_length, be_length, IH. lia. Qed.

Lemma parse_items_rt k items : forall fuel pos,
  (0 < k)%nat -> Forall (fun x => x < 256 ^ N.of_nat k) items -> (length items < fuel)%nat ->
  parse_items fuel k (mkP (flat_map (be k) items) pos) = Ok items.
Proof.
  induction items as [|x l IH]; intros fuel pos Hk Hok Hf; (destruct fuel as [|fuel]; [lia|]); cbn [parse_items flat_map].
  - reflexivity.
  - inversion Hok; subst. unfold remaining. cbn [p_rest]. rewrite app_length, be_length.
    match goal with |- context [Nat.eqb ?a 0] => destruct (Nat.eqb_spec a 0) as [E0|_]; [lia|] end.
    rewrite parse_be_app by assumption. cbn [bind]. rewrite IH by (try assumption; cbn [length] in Hf; lia). reflexivity.
Qed.

(* ---- the AS path walk of validate accepts what to_as_path produces ---- *)
Lemma path_walk_enc segs : forall fuel pos,
  Forall (seg_ok true) segs -> (length segs < fuel)%nat ->
  path_walk fuel 4 (mkP (enc_segs true segs) pos) = true.
Proof.
  induction segs as [|[t asns] segs IH]; intros fuel pos Hok Hf; (destruct fuel as [|fuel]; [lia|]); cbn [path_walk].
  - reflexivity.
  - inversion Hok as [|? ? (Ht & Hlen & Ha) Hrest]; subst. cbn [fst snd] in *.
    cbn [enc_segs flat_map fst snd]. unfold remaining. cbn [p_rest]. rewrite app_length, seg_bytes_length.
    match goal with |- context [Nat.eqb ?a 0] => destruct (Nat.eqb_spec a 0) as [E0|_]; [lia|] end.
    unfold seg_bytes at 1. cbn [app parse_u8 p_rest p_pos]. unfold seg_type_ok in Ht. rewrite Ht. cbn [negb].
    rewrite Nat2N.id. unfold advance.
    rewrite take_app' by (rewrite flat_be_length; cbn [asn_size]; lia). cbn [bind].
    fold (enc_segs true segs). apply IH; [assumption|cbn [length] in Hf; lia].
Qed.

Lemma to_as_path_segs hops w :
  Forall hop_ok hops -> to_as_path hops = Ok w ->
  exists segs, w = enc_segs true segs /\ Forall (seg_ok true) segs /\ hops_of_segs segs = hops.
Proof.
  intros Hok Hw. destruct (hop_segs_spec (S (length hops)) hops Hok ltac:(lia)) as (segs & E & Hs & Hh).
  unfold to_as_path in Hw. rewrite compose_hops_segs, E in Hw. cbn in Hw. inversion Hw; subst. eauto.
Qed.

(* ---- framing: header ++ value is split back into (flags, code, value) ---- *)
Definition frame_result (four : bool) (f c : N) (v hdr : bytes) (P : parser) : res (wattr * parser) :=
  match attr_rule c with
  | Some (cf, vr, _) => if validate vr four v then Ok (WTyped c four (hdr ++ v), P) else Ok (WInvalid cf c v, P)
  | None => Ok (WUnimpl (if Nat.ltb 255 (length v) then set_ext f else f) c (hdr ++ v), P)
  end.

Lemma firstn_exact {A} (a b : list A) n : n = length a -> firstn n (a ++ b) = a.
Proof. intros ->. rewrite firstn_app, Nat.sub_diag, firstn_all. cbn. apply app_nil_r. Qed.

Lemma frame four f c v rest pos :
  N.of_nat (length v) <= 65535 -> ((length v <= 255)%nat -> has_ext f = false) ->
  wire_attr_parse four (mkP (header f c (length v) ++ v ++ rest) pos)
  = frame_result four f c v (header f c (length v)) (mkP rest (pos + length (header f c (length v)) + length v)).
Proof.
  intros Hlen Hext. unfold wire_attr_parse, frame_result, header.
  destruct (Nat.ltb 255 (length v)) eqn:E.
  - apply Nat.ltb_lt in E. cbn [app parse_u8 p_rest p_pos bind]. rewrite has_ext_set.
    unfold parse_u16, sat16. replace (65535 <? N.of_nat (length v)) with false by (symmetry; apply N.ltb_ge; lia).
    rewrite parse_be_app by (cbn; lia). cbn [bind]. rewrite Nat2N.id.
    rewrite take_app' by reflexivity. cbn [bind p_rest].
    replace (firstn (4 + length v) (set_ext f :: c :: be 2 (N.of_nat (length v)) ++ v ++ rest))
      with ((set_ext f :: c :: be 2 (N.of_nat (length v))) ++ v).
    2:{ symmetry. rewrite (app_assoc _ v rest). change (set_ext f :: c :: (be 2 (N.of_nat (length v)) ++ v) ++ rest)
          with (((set_ext f :: c :: be 2 (N.of_nat (length v))) ++ v) ++ rest).
        apply firstn_exact. rewrite app_length. cbn [length]. rewrite be_length. lia. }
    cbn [length app]. rewrite be_length.
    destruct (attr_rule c) as [[[cf vr] lr]|]; [destruct (validate vr four v)|];
      match goal with |- Ok (?a, mkP ?r ?x) = Ok (?b, mkP ?r ?y) => replace x with y by lia; reflexivity end.
  - apply Nat.ltb_ge in E. cbn [app parse_u8 p_rest p_pos bind]. rewrite !(Hext E).
    cbn [parse_u8 p_rest p_pos bind]. unfold sat8. replace (255 <? N.of_nat (length v)) with false by (symmetry; apply N.ltb_ge; lia).
    rewrite Nat2N.id. rewrite take_app' by reflexivity. cbn [bind p_rest].
    replace (firstn (3 + length v) (f :: c :: N.of_nat (length v) :: v ++ rest)) with ([f; c; N.of_nat (length v)] ++ v).
    2:{ symmetry. change (f :: c :: N.of_nat (length v) :: v ++ rest) with (([f; c; N.of_nat (length v)] ++ v) ++ rest).
        apply firstn_exact. rewrite app_length. cbn [length]. lia. }
    cbn [length app].
    destruct (attr_rule c) as [[[cf vr] lr]|]; [destruct (validate vr four v)|];
      match goal with |- Ok (?a, mkP ?r ?x) = Ok (?b, mkP ?r ?y) => replace x with y by lia; reflexivity end.
Qed.

Lemma to_owned_typed c four f vlen v :
  ((vlen <= 255)%nat -> has_ext f = false) ->
  to_owned (WTyped c four (header f c vlen ++ v)) = parse_value c four v.
Proof.
  intros Hext. unfold to_owned, header. destruct (Nat.ltb 255 vlen) eqn:E.
  - cbn [app index nth_error bind]. rewrite has_ext_set. unfold slice_from. cbn [length].
    cbn [Nat.leb skipn]. reflexivity.
  - apply Nat.ltb_ge in E. cbn [app index nth_error bind]. rewrite (Hext E). unfold slice_from. cbn [length Nat.leb skipn]. reflexivity.
Qed.

(* ---- per-value facts, against the generated table ---- *)
Ltac split_wf H :=
  repeat match type of H with
         | (_ && _) = true => let H2 := fresh "Hw" in apply andb_true_iff in H as [H H2]
         end.

Lemma value_facts a :
  wf_attr a = true ->
  exists v cf vr lr,
    value_bytes a = Ok v /\ attr_rule (attr_code a) = Some (cf, vr, lr) /\ value_len a = Ok (length v) /\
    validate vr true v = true /\ parse_value (attr_code a) true v = Ok a /\ N.of_nat (length v) <= 65535 /\
    has_ext cf = false.
Proof.
  destruct a as [c n|c n|c|c asn addr|c k items|c hops|ub asn|o attrs|c raw|f c v|f c v]; cbn [wf_attr]; intros H; try discriminate.
  - (* ORIGIN *)
    split_wf H. apply N.eqb_eq in H. subst c. apply N.ltb_lt in Hw.
    exists [n]. vm_compute (attr_rule (attr_code (AU8 1 n))). do 3 eexists. repeat split; try reflexivity. cbn; lia.
  - (* 4-octet values *)
    split_wf H. apply N.ltb_lt in Hw.
    assert (C : c = 3 \/ c = 4 \/ c = 5 \/ c = 9 \/ c = 20 \/ c = 35).
    { repeat (apply orb_true_iff in H as [H|H]); apply N.eqb_eq in H; auto 10. }
    exists (be 4 n).
    destruct C as [-> | [-> | [-> | [-> | [-> | ->]]]]];
      (match goal with |- context [attr_rule ?x] => let r := eval vm_compute in (attr_rule x) in change (attr_rule x) with r end);
      do 3 eexists; (split; [reflexivity|]); (split; [reflexivity|]);
      (split; [unfold value_len; match goal with |- context [attr_rule ?x] => let r := eval vm_compute in (attr_rule x) in change (attr_rule x) with r end; reflexivity|]);
      (split; [reflexivity|]);
      (split; [cbn [attr_code parse_value]; unfold parser_of; rewrite <- (app_nil_r (be 4 n)); rewrite parse_be_app by (cbn; lia); reflexivity|]);
      (split; [rewrite be_length; cbn; lia|reflexivity]).
  - (* ATOMIC_AGGREGATE *)
    apply N.eqb_eq in H. subst c. exists []. vm_compute (attr_rule (attr_code (AEmpty 6))). do 3 eexists. repeat split; try reflexivity. cbn; lia.
  - (* aggregators *)
    split_wf H. apply N.ltb_lt in Hw, Hw0.
    assert (C : c = 7 \/ c = 18) by (apply orb_true_iff in H as [H|H]; apply N.eqb_eq in H; auto).
    exists (be 4 asn ++ be 4 addr).
    destruct C as [-> | ->];
      (match goal with |- context [attr_rule ?x] => let r := eval vm_compute in (attr_rule x) in change (attr_rule x) with r end);
      do 3 eexists; (split; [reflexivity|]); (split; [reflexivity|]);
      (split; [unfold value_len; match goal with |- context [attr_rule ?x] => let r := eval vm_compute in (attr_rule x) in change (attr_rule x) with r end; reflexivity|]);
      (split; [reflexivity|]);
      (split; [cbn [attr_code parse_value]; unfold parser_of; rewrite parse_be_app by (cbn; lia); cbn [bind];
               rewrite <- (app_nil_r (be 4 addr)); rewrite parse_be_app by (cbn; lia); reflexivity|]);
      (split; [rewrite app_length, !be_length; cbn; lia|reflexivity]).
  - (* lists *)
    split_wf H. apply N.leb_le in Hw. rewrite forallb_forall in Hw0.
    assert (Hit : Forall (fun x => x < 256 ^ N.of_nat k) items).
    { apply Forall_forall. intros x Hx. apply N.ltb_lt. now apply Hw0. }
    assert (C : (c = 8 /\ k = 4%nat) \/ (c = 10 /\ k = 4%nat) \/ (c = 16 /\ k = 8%nat) \/ (c = 25 /\ k = 20%nat) \/ (c = 32 /\ k = 12%nat)).
    { repeat (apply orb_true_iff in H as [H|H]); apply andb_true_iff in H as [H1 H2]; apply N.eqb_eq in H1; apply Nat.eqb_eq in H2; auto 10. }
    exists (flat_map (be k) items).
    destruct C as [[-> ->] | [[-> ->] | [[-> ->] | [[-> ->] | [-> ->]]]]];
      (match goal with |- context [attr_rule ?x] => let r := eval vm_compute in (attr_rule x) in change (attr_rule x) with r end);
      do 3 eexists; (split; [reflexivity|]); (split; [reflexivity|]);
      (split; [unfold value_len; match goal with |- context [attr_rule ?x] => let r := eval vm_compute in (attr_rule x) in change (attr_rule x) with r end;
               cbn [attr_code]; rewrite flat_be_len; reflexivity|]);
      (split; [cbn [validate]; rewrite flat_be_len; apply Nat.eqb_eq; apply Nat.mod_mul; lia|]);
      (split; [cbn [attr_code parse_value]; unfold parser_of; rewrite parse_items_rt; [reflexivity|lia|exact Hit|rewrite flat_be_len; lia]|]);
      (split; [rewrite flat_be_len; lia|reflexivity]).
  - (* AS paths *)
    split_wf H. rewrite forallb_forall in Hw0.
    assert (Hh : Forall hop_ok hops) by (apply Forall_forall; intros x Hx; apply hop_okb_ok; now apply Hw0).
    destruct (to_as_path hops) as [w| |] eqn:Ew; try discriminate. apply N.leb_le in Hw.
    destruct (to_as_path_segs _ _ Hh Ew) as (segs & -> & Hs & Hback).
    assert (C : c = 2 \/ c = 17) by (apply orb_true_iff in H as [H|H]; apply N.eqb_eq in H; auto).
    exists (enc_segs true segs).
    assert (Hwalk : path_walk (S (length (enc_segs true segs))) 4 (parser_of (enc_segs true segs)) = true).
    { apply path_walk_enc; [exact Hs|]. pose proof (enc_segs_length true segs). lia. }
    destruct C as [-> | ->];
      (match goal with |- context [attr_rule ?x] => let r := eval vm_compute in (attr_rule x) in change (attr_rule x) with r end);
      do 3 eexists; (split; [cbn [value_bytes]; exact Ew|]); (split; [reflexivity|]);
      (split; [unfold value_len; match goal with |- context [attr_rule ?x] => let r := eval vm_compute in (attr_rule x) in change (attr_rule x) with r end;
               cbn [attr_code]; rewrite Ew; reflexivity|]);
      (split; [cbn [validate]; exact Hwalk|]);
      (split; [cbn [attr_code parse_value]; unfold wire_hops; rewrite wire_segments_rt by exact Hs; cbn [rmap bind]; now rewrite Hback|]);
      (split; [exact Hw|reflexivity]).
  - (* AS_PATHLIMIT *)
    split_wf H. apply N.ltb_lt in H, Hw. exists (ub :: be 4 asn).
    vm_compute (attr_rule (attr_code (ALimit ub asn))). do 3 eexists. split; [reflexivity|]. split; [reflexivity|].
    split; [unfold value_len; vm_compute (attr_rule (attr_code (ALimit ub asn))); cbn [length]; rewrite be_length; reflexivity|].
    split; [cbn [validate length]; now rewrite be_length|].
    split; [cbn [attr_code parse_value]; unfold parser_of; cbn [parse_u8 p_rest p_pos bind];
            rewrite <- (app_nil_r (be 4 asn)); rewrite parse_be_app by (cbn; lia); reflexivity|].
    split; [cbn [length]; rewrite be_length; cbn; lia|reflexivity].
  - (* ATTR_SET *)
    split_wf H. apply N.ltb_lt in H. apply N.leb_le in Hw. exists (be 4 o ++ attrs).
    vm_compute (attr_rule (attr_code (AAttrSet o attrs))). do 3 eexists. split; [reflexivity|]. split; [reflexivity|].
    split; [unfold value_len; vm_compute (attr_rule (attr_code (AAttrSet o attrs))); rewrite app_length, be_length; reflexivity|].
    split; [cbn [validate]; rewrite app_length, be_length; apply Nat.leb_le; lia|].
    split; [cbn [attr_code parse_value]; unfold parser_of; rewrite parse_be_app by (cbn; lia); reflexivity|].
    split; [rewrite app_length, be_length; lia|reflexivity].
  - (* Reserved *)
    split_wf H. apply N.eqb_eq in H. subst c. apply N.leb_le in Hw. exists raw.
    vm_compute (attr_rule (attr_code (ARaw 255 raw))). do 3 eexists. repeat split; try reflexivity; try assumption.
Qed.

(* ---- C04 ---- *)
Lemma c04_roundtrip_proof a rest pos :
  wf_attr a = true ->
  exists bs w, compose a = Ok bs /\
    wire_attr_parse true (mkP (bs ++ rest) pos) = Ok (w, mkP rest (pos + length bs)) /\ to_owned w = Ok a.
Proof.
  intros Hwf. destruct (value_facts a Hwf) as (v & cf & vr & lr & Hv & Hr & Hl & Hval & Hp & Hsz & Hcf).
  assert (Hty : compose a = Ok (header cf (attr_code a) (length v) ++ v)).
  { destruct a; try discriminate; unfold compose; rewrite Hl, Hv; cbn [bind]; unfold canon_flags; rewrite Hr; reflexivity. }
  exists (header cf (attr_code a) (length v) ++ v), (WTyped (attr_code a) true (header cf (attr_code a) (length v) ++ v)).
  split; [exact Hty|]. split.
  - rewrite <- app_assoc. rewrite frame by (auto; intros _; exact Hcf). unfold frame_result. rewrite Hr, Hval.
    rewrite app_length. f_equal. f_equal. f_equal. lia.
  - rewrite to_owned_typed by (intros _; exact Hcf). exact Hp.
Qed.

Lemma c04_len_proof a bs n :
  wf_attr a = true -> compose a = Ok bs -> compose_len a = Ok n -> length bs = n.
Proof.
  intros Hwf Hc Hn. destruct (value_facts a Hwf) as (v & cf & vr & lr & Hv & Hr & Hl & _).
  assert (Hty : compose a = Ok (header cf (attr_code a) (length v) ++ v)).
  { destruct a; try discriminate; unfold compose; rewrite Hl, Hv; cbn [bind]; unfold canon_flags; rewrite Hr; reflexivity. }
  assert (Hcl : compose_len a = Ok (header_len (length v) + length v)%nat).
  { destruct a; try discriminate; unfold compose_len; rewrite Hl; reflexivity. }
  rewrite Hty in Hc. rewrite Hcl in Hn. inversion Hc; inversion Hn; subst.
  rewrite app_length. unfold header, header_len. destruct (Nat.ltb 255 (length v)); cbn [length app]; rewrite ?be_length; lia.
Qed.

(* canonical flags and code, extended-length form exactly when the value exceeds 255 octets *)
Lemma c04_header_proof a bs :
  wf_attr a = true -> compose a = Ok bs ->
  exists v f, value_bytes a = Ok v /\ nth_error bs 0 = Some f /\ nth_error bs 1 = Some (attr_code a) /\
    (if Nat.ltb 255 (length v) then f = set_ext (canon_flags (attr_code a)) /\ has_ext f = true
     else f = canon_flags (attr_code a) /\ has_ext f = false).
Proof.
  intros Hwf Hc. destruct (value_facts a Hwf) as (v & cf & vr & lr & Hv & Hr & Hl & _ & _ & _ & Hcf).
  assert (Hty : compose a = Ok (header cf (attr_code a) (length v) ++ v)).
  { destruct a; try discriminate; unfold compose; rewrite Hl, Hv; cbn [bind]; unfold canon_flags; rewrite Hr; reflexivity. }
  rewrite Hty in Hc. inversion Hc; subst. exists v. unfold header, canon_flags. rewrite Hr.
  destruct (Nat.ltb 255 (length v)); eexists; (split; [exact Hv|]); cbn; (split; [reflexivity|]); (split; [reflexivity|]);
    split; auto. apply has_ext_set.
Qed.

(* an attribute of a recognised type whose value violates the type's length rule is surfaced as
   Invalid, carrying the canonical flags and the raw value; the message is not failed *)
Lemma c04_invalid_proof four f c v rest pos cf vr lr :
  attr_rule c = Some (cf, vr, lr) -> validate vr four v = false ->
  N.of_nat (length v) <= 65535 -> ((length v <= 255)%nat -> has_ext f = false) ->
  exists P, wire_attr_parse four (mkP (header f c (length v) ++ v ++ rest) pos) = Ok (WInvalid cf c v, P) /\
            p_rest P = rest /\ to_owned (WInvalid cf c v) = Ok (AInvalid cf c v).
Proof.
  intros Hr Hv Hlen Hext. rewrite frame by assumption. unfold frame_result. rewrite Hr, Hv. eexists. repeat split; reflexivity.
Qed.

(* an unrecognised type keeps its flags, code and value *)
Lemma c04_unknown_proof four f c v rest pos :
  attr_rule c = None -> N.of_nat (length v) <= 65535 -> ((length v <= 255)%nat -> has_ext f = false) ->
  exists P w, wire_attr_parse four (mkP (header f c (length v) ++ v ++ rest) pos) = Ok (w, P) /\ p_rest P = rest /\
    to_owned w = Ok (AUnimpl (if Nat.ltb 255 (length v) then set_ext f else f) c v).
Proof.
  intros Hr Hlen Hext. rewrite frame by assumption. unfold frame_result. rewrite Hr. do 2 eexists. split; [reflexivity|]. split; [reflexivity|].
  unfold to_owned, header. destruct (Nat.ltb 255 (length v)) eqn:E.
  - rewrite has_ext_set. unfold slice_from. cbn [length app Nat.leb skipn bind]. reflexivity.
  - apply Nat.ltb_ge in E. rewrite (Hext E). unfold slice_from. cbn [length app Nat.leb skipn bind]. reflexivity.
Qed.
