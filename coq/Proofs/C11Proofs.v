(* C11: invariants of the best / backup folds, for any item type with a strict weak
   order [lt] and a content equivalence [ceq] whose classes tie in preference. *)
From Coq Require Import List Bool Lia Permutation.
From RC Require Import Model.Select.
Import ListNotations.

Section Sel.
  Variable T : Type.
  Variable lt : T -> T -> bool.
  Variable ceq : T -> T -> bool.

  Hypothesis lt_irrefl : forall x, lt x x = false.
  Hypothesis lt_trans : forall x y z, lt x y = true -> lt y z = true -> lt x z = true.
  (* incomparability is transitive *)
  Hypothesis tie_trans : forall x y z,
      lt x y = false -> lt y x = false -> lt y z = false -> lt z y = false -> lt x z = false /\ lt z x = false.
  Hypothesis ceq_refl : forall x, ceq x x = true.
  Hypothesis ceq_sym : forall x y, ceq x y = ceq y x.
  Hypothesis ceq_trans : forall x y z, ceq x y = true -> ceq y z = true -> ceq x z = true.
  (* same content => same preference (nothing is assumed in the other direction) *)
  Hypothesis ceq_tie : forall x y, ceq x y = true -> lt x y = false.

  Notation best := (best T lt).
  Notation best_from := (best_from T lt).
  Notation bb := (bb T lt ceq).
  Notation bbg := (bbg T lt).

  (* ---- best: first minimum ---- *)
  Lemma best_from_in b l : In (best_from b l) (b :: l).
  Proof.
    revert b. induction l as [|c l IH]; intros b; cbn [Select.best_from]; [now left|].
    destruct (lt c b); [specialize (IH c)|specialize (IH b)]; cbn in *; tauto.
  Qed.

  (* if nothing seen so far beats b, nothing in the whole list beats the result *)
  Lemma best_from_min b l seen :
    (forall x, In x seen -> lt x b = false) ->
    forall x, In x (seen ++ b :: l) -> lt x (best_from b l) = false.
  Proof.
    revert b seen. induction l as [|c l IH]; intros b seen Hs x Hx; cbn [Select.best_from].
    - apply in_app_iff in Hx as [Hx|[<-|[]]]; auto.
    - destruct (lt c b) eqn:E.
      + apply (IH c (seen ++ [b])).
        * intros y Hy. apply in_app_iff in Hy as [Hy|[<-|[]]].
          -- destruct (lt y c) eqn:E2; [|reflexivity]. pose proof (lt_trans _ _ _ E2 E) as F. rewrite Hs in F by assumption. discriminate.
          -- destruct (lt b c) eqn:E2; [|reflexivity]. pose proof (lt_trans _ _ _ E E2) as F. now rewrite lt_irrefl in F.
        * rewrite <- app_assoc. exact Hx.
      + apply (IH b (seen ++ [c])).
        * intros y Hy. apply in_app_iff in Hy as [Hy|[<-|[]]]; auto.
        * rewrite <- app_assoc. cbn. apply in_app_iff in Hx as [Hx|[<-|[<-|Hx]]]; apply in_app_iff; cbn; auto.
  Qed.

  (* ---- best_backup: the invariant ---- *)
  Definition Inv (seen : list T) (b k : option (nat * T)) : Prop :=
    match b with
    | None => seen = [] /\ k = None
    | Some (_, cb) =>
      In cb seen /\ (forall x, In x seen -> lt x cb = false) /\
      match k with
      | None => forall x, In x seen -> ceq cb x = true
      | Some (_, ck) =>
        In ck seen /\ ceq cb ck = false /\ (forall x, In x seen -> ceq cb x = false -> lt x ck = false)
      end
    end.

  Lemma ceq_false_of_lt x y : lt x y = true -> ceq y x = false.
  Proof.
    intros H. destruct (ceq y x) eqn:E; [|reflexivity].
    rewrite ceq_sym in E. apply ceq_tie in E. congruence.
  Qed.

  Lemma bb_inv l : forall i seen b k,
      Inv seen b k ->
      let '(b', k') := bb i b k l in Inv (seen ++ l) b' k'.
  Proof.
    induction l as [|c l IH]; intros i seen b k HI; cbn [Select.bb].
    - now rewrite app_nil_r.
    - replace (seen ++ c :: l) with ((seen ++ [c]) ++ l) by (rewrite <- app_assoc; reflexivity).
      destruct b as [[ib cb]|].
      + destruct HI as (Hin & Hmin & Hk).
        destruct (lt c cb) eqn:E.
        * (* new best; the old best becomes the backup *)
          apply IH. cbn. split; [apply in_app_iff; cbn; auto|]. split.
          -- intros x Hx. apply in_app_iff in Hx as [Hx|[<-|[]]]; [|apply lt_irrefl].
             destruct (lt x c) eqn:E2; [|reflexivity]. pose proof (lt_trans _ _ _ E2 E) as F. rewrite Hmin in F by assumption. discriminate.
          -- split; [apply in_app_iff; auto|]. split; [rewrite ceq_sym; now apply ceq_false_of_lt|].
             intros x Hx Hne. apply in_app_iff in Hx as [Hx|[<-|[]]]; [now apply Hmin|]. now rewrite ceq_refl in Hne.
        * destruct k as [[ik ck]|].
          -- destruct Hk as (Hkin & Hkne & Hkmin).
             destruct (lt c ck) eqn:E2.
             ++ destruct (ceq cb c) eqn:E3.
                ** apply IH. cbn. split; [apply in_app_iff; auto|]. split.
                   { intros x Hx. apply in_app_iff in Hx as [Hx|[<-|[]]]; auto. }
                   split; [apply in_app_iff; auto|]. split; [assumption|].
                   intros x Hx Hne. apply in_app_iff in Hx as [Hx|[<-|[]]]; [auto|congruence].
                ** apply IH. cbn. split; [apply in_app_iff; auto|]. split.
                   { intros x Hx. apply in_app_iff in Hx as [Hx|[<-|[]]]; auto. }
                   split; [apply in_app_iff; cbn; auto|]. split; [assumption|].
                   intros x Hx Hne. apply in_app_iff in Hx as [Hx|[<-|[]]]; [|apply lt_irrefl].
                   destruct (lt x c) eqn:E4; [|reflexivity].
                   pose proof (lt_trans _ _ _ E4 E2) as F. rewrite Hkmin in F by assumption. discriminate.
             ++ apply IH. cbn. split; [apply in_app_iff; auto|]. split.
                { intros x Hx. apply in_app_iff in Hx as [Hx|[<-|[]]]; auto. }
                split; [apply in_app_iff; auto|]. split; [assumption|].
                intros x Hx Hne. apply in_app_iff in Hx as [Hx|[<-|[]]]; auto.
          -- destruct (ceq cb c) eqn:E3.
             ++ apply IH. cbn. split; [apply in_app_iff; auto|]. split.
                { intros x Hx. apply in_app_iff in Hx as [Hx|[<-|[]]]; auto. }
                intros x Hx. apply in_app_iff in Hx as [Hx|[<-|[]]]; auto.
             ++ apply IH. cbn. split; [apply in_app_iff; auto|]. split.
                { intros x Hx. apply in_app_iff in Hx as [Hx|[<-|[]]]; auto. }
                split; [apply in_app_iff; cbn; auto|]. split; [assumption|].
                intros x Hx Hne. apply in_app_iff in Hx as [Hx|[<-|[]]]; [|apply lt_irrefl].
                rewrite Hk in Hne by assumption. discriminate.
      + destruct HI as (-> & ->). apply IH. cbn. split; [now left|]. split.
        * intros x [<-|[]]. apply lt_irrefl.
        * intros x [<-|[]]. apply ceq_refl.
  Qed.

  Lemma bb_final l :
    let '(b', k') := best_backup_idx T lt ceq l in Inv l b' k'.
  Proof. unfold best_backup_idx. apply (bb_inv l 0 [] None None). cbn. auto. Qed.

  (* the best component of the fold is Iterator::min *)
  Lemma bb_best_from l : forall i ib cb k,
      option_map snd (fst (bb i (Some (ib, cb)) k l)) = Some (best_from cb l).
  Proof.
    induction l as [|c l IH]; intros i ib cb k; cbn [Select.bb Select.best_from]; [reflexivity|].
    destruct (lt c cb); [apply IH|].
    destruct k as [[ik ck]|]; [destruct (lt c ck)|]; destruct (ceq cb c); apply IH.
  Qed.

  Lemma c11_best_is_best_proof l : fst (best_backup T lt ceq l) = best l.
  Proof.
    unfold best_backup, best_backup_idx.
    destruct l as [|x l]; [reflexivity|]. cbn [Select.bb Select.best].
    pose proof (bb_best_from l 1 0 x None) as H.
    destruct (bb 1 (Some (0, x)) None l) as [b' k']. cbn [fst] in *. exact H.
  Qed.

  Lemma c11_best_min_proof l b k :
    best_backup T lt ceq l = (Some b, k) -> In b l /\ forall x, In x l -> lt x b = false.
  Proof.
    unfold best_backup. pose proof (bb_final l) as H.
    destruct (best_backup_idx T lt ceq l) as [[[ib cb]|] k'] eqn:E; cbn [option_map snd]; intros Heq; inversion Heq; subst.
    destruct H as (H1 & H2 & _). auto.
  Qed.

  Lemma c11_backup_none_proof l b :
    best_backup T lt ceq l = (Some b, None) <->
    (fst (best_backup T lt ceq l) = Some b /\ forall x, In x l -> ceq b x = true).
  Proof.
    unfold best_backup. pose proof (bb_final l) as H.
    destruct (best_backup_idx T lt ceq l) as [[[ib cb]|] [[ik ck]|]] eqn:E; cbn [option_map snd fst] in *; split;
      try (intros Heq; inversion Heq; fail); try (intros [Heq _]; inversion Heq; fail).
    - intros [Heq Hall]. injection Heq as <-. destruct H as (_ & _ & Hk & Hne & _). rewrite Hall in Hne by assumption. discriminate.
    - intros Heq. injection Heq as <-. destruct H as (_ & _ & Hk). auto.
    - intros [Heq _]. now rewrite Heq.
  Qed.

  Lemma c11_backup_runner_proof l b k :
    best_backup T lt ceq l = (Some b, Some k) ->
    In k l /\ ceq b k = false /\ forall x, In x l -> ceq b x = false -> lt x k = false.
  Proof.
    unfold best_backup. pose proof (bb_final l) as H.
    destruct (best_backup_idx T lt ceq l) as [[[ib cb]|] [[ik ck]|]] eqn:E; cbn [option_map snd]; intros Heq; inversion Heq; subst.
    destruct H as (_ & _ & H). exact H.
  Qed.

  Lemma c11_nonempty_proof l x : In x l -> exists b, fst (best_backup T lt ceq l) = Some b.
  Proof.
    intros Hx. unfold best_backup. pose proof (bb_final l) as H.
    destruct (best_backup_idx T lt ceq l) as [[[ib cb]|] k']; cbn; [eauto|].
    destruct H as (-> & _). destruct Hx.
  Qed.

  (* positions returned by best_backup_position point at the returned routes *)
  Lemma bb_positions l : forall i b k,
      (forall j x, b = Some (j, x) -> (j < i)%nat) -> (forall j x, k = Some (j, x) -> (j < i)%nat) ->
      forall pre, length pre = i ->
      (forall j x, b = Some (j, x) -> nth_error pre j = Some x) ->
      (forall j x, k = Some (j, x) -> nth_error pre j = Some x) ->
      let '(b', k') := bb i b k l in
      (forall j x, b' = Some (j, x) -> nth_error (pre ++ l) j = Some x) /\
      (forall j x, k' = Some (j, x) -> nth_error (pre ++ l) j = Some x).
  Proof.
    induction l as [|c l IH]; intros i b k Hb Hk pre Hlen Pb Pk; cbn [Select.bb].
    - rewrite app_nil_r. auto.
    - replace (pre ++ c :: l) with ((pre ++ [c]) ++ l) by (rewrite <- app_assoc; reflexivity).
      assert (Hc : nth_error (pre ++ [c]) i = Some c).
      { rewrite nth_error_app2 by lia. rewrite Hlen, PeanoNat.Nat.sub_diag. reflexivity. }
      assert (Ext : forall j x, (j < i)%nat -> nth_error pre j = Some x -> nth_error (pre ++ [c]) j = Some x).
      { intros j x Hj Hn. rewrite nth_error_app1 by lia. exact Hn. }
      assert (Len : length (pre ++ [c]) = S i) by (rewrite app_length; cbn; lia).
      destruct b as [[ib cb]|].
      + specialize (Hb ib cb eq_refl). specialize (Pb ib cb eq_refl).
        destruct (lt c cb).
        * apply (IH (S i)); auto.
          -- intros j x H. inversion H; subst. lia.
          -- intros j x H. inversion H; subst. lia.
          -- intros j x H. inversion H; subst. exact Hc.
          -- intros j x H. inversion H; subst. auto.
        * destruct k as [[ik ck]|].
          -- specialize (Hk ik ck eq_refl). specialize (Pk ik ck eq_refl).
             destruct (lt c ck); [destruct (ceq cb c)|]; apply (IH (S i)); auto;
               try (intros j x H; inversion H; subst; lia);
               try (intros j x H; inversion H; subst; auto).
          -- destruct (ceq cb c); apply (IH (S i)); auto;
               try (intros j x H; inversion H; subst; lia);
               try (intros j x H; inversion H; subst; auto); try discriminate.
      + apply (IH (S i)); auto.
        * intros j x H. inversion H; subst. lia.
        * intros j x H. specialize (Hk j x H). lia.
        * intros j x H. inversion H; subst. exact Hc.
        * intros j x H. specialize (Hk j x H) as Hj. apply Ext; auto.
  Qed.

  Lemma c11_positions_proof l :
    let '(b, k) := best_backup_idx T lt ceq l in
    (forall j x, b = Some (j, x) -> nth_error l j = Some x) /\
    (forall j x, k = Some (j, x) -> nth_error l j = Some x).
  Proof.
    unfold best_backup_idx.
    pose proof (bb_positions l 0 None None) as H. specialize (H ltac:(discriminate) ltac:(discriminate) [] eq_refl ltac:(discriminate) ltac:(discriminate)).
    cbn [app] in H. exact H.
  Qed.

  (* ---- the preference class of the backup does not depend on the order ---- *)
  Definition tie (x y : T) : Prop := lt x y = false /\ lt y x = false.

  Lemma c11_backup_class_proof l l' b k b' k' :
    Permutation l l' ->
    best_backup T lt ceq l = (Some b, Some k) ->
    best_backup T lt ceq l' = (Some b', Some k') ->
    tie k k'.
  Proof.
    intros P H1 H2.
    pose proof (c11_best_min_proof _ _ _ H1) as (Bin & Bmin).
    pose proof (c11_best_min_proof _ _ _ H2) as (Bin' & Bmin').
    pose proof (c11_backup_runner_proof _ _ _ H1) as (Kin & Kne & Kmin).
    pose proof (c11_backup_runner_proof _ _ _ H2) as (Kin' & Kne' & Kmin').
    assert (In_l' : forall x, In x l -> In x l') by (intros x; apply Permutation_in; exact P).
    assert (In_l : forall x, In x l' -> In x l) by (intros x; apply Permutation_in; now apply Permutation_sym).
    destruct (ceq b b') eqn:E.
    - (* same best content: both backups are minimal in the same set *)
      split.
      + apply Kmin'; [auto|]. destruct (ceq b' k) eqn:E2; [|reflexivity].
        rewrite (ceq_trans _ _ _ E E2) in Kne. discriminate.
      + apply Kmin; [auto|]. destruct (ceq b k') eqn:E2; [|reflexivity].
        assert (E' : ceq b' b = true) by (now rewrite ceq_sym).
        rewrite (ceq_trans _ _ _ E' E2) in Kne'. discriminate.
    - (* different best contents: b and b' tie at the top, each backup ties the other best *)
      assert (Tbb : tie b b') by (split; [apply Bmin'; auto|apply Bmin; auto]).
      assert (Tkb : tie k b').
      { split; [apply Bmin'; auto|]. apply Kmin; auto. }
      assert (E' : ceq b' b = false) by (now rewrite ceq_sym).
      assert (Tkb' : tie k' b).
      { split; [apply Bmin; auto|]. apply Kmin'; auto. }
      destruct Tbb as [T1 T2]. destruct Tkb as [T3 T4]. destruct Tkb' as [T5 T6].
      (* k ~ b' ~ b ~ k' *)
      destruct (tie_trans k b' b T3 T4 T2 T1) as [U1 U2].
      destruct (tie_trans k b k' U1 U2 T6 T5) as [V1 V2]. split; assumption.
  Qed.

  Lemma c11_backup_none_perm_proof l l' b b' k' :
    Permutation l l' ->
    best_backup T lt ceq l = (Some b, None) ->
    best_backup T lt ceq l' = (Some b', k') -> k' = None.
  Proof.
    intros P H1 H2.
    apply c11_backup_none_proof in H1 as [_ Hall].
    pose proof (c11_best_min_proof _ _ _ H2) as (Bin' & _).
    destruct k' as [k'|]; [|reflexivity].
    pose proof (c11_backup_runner_proof _ _ _ H2) as (Kin' & Kne' & _).
    assert (In_l : forall x, In x l' -> In x l) by (intros x; apply Permutation_in; now apply Permutation_sym).
    pose proof (Hall _ (In_l _ Bin')) as E1. pose proof (Hall _ (In_l _ Kin')) as E2.
    rewrite ceq_sym in E1. rewrite (ceq_trans _ _ _ E1 E2) in Kne'. discriminate.
  Qed.
End Sel.

(* ---- best_backup_generic on pairwise distinct items of a strict total order ---- *)
Section Gen.
  Variable T : Type.
  Variable lt : T -> T -> bool.
  Hypothesis lt_irrefl : forall x, lt x x = false.
  Hypothesis lt_trans : forall x y z, lt x y = true -> lt y z = true -> lt x z = true.
  Hypothesis lt_total : forall x y, lt x y = true \/ x = y \/ lt y x = true.

  Notation bbg := (bbg T lt).

  Definition GInv (seen : list T) (b k : option T) : Prop :=
    match b, k with
    | None, None => seen = []
    | Some cb, None => seen = [cb]
    | Some cb, Some ck =>
      In cb seen /\ In ck seen /\ lt cb ck = true /\ forall x, In x seen -> x = cb \/ x = ck \/ lt ck x = true
    | None, Some _ => False
    end.

  Lemma bbg_inv l : forall seen b k, NoDup (seen ++ l) -> GInv seen b k -> GInv (seen ++ l) (fst (bbg b k l)) (snd (bbg b k l)).
  Proof.
    induction l as [|c l IH]; intros seen b k Hnd HI; cbn [Select.bbg].
    - cbn. now rewrite app_nil_r.
    - assert (Hc : ~ In c seen).
      { pose proof (NoDup_remove_2 _ _ _ Hnd) as H. intros Hin. apply H. apply in_app_iff. now left. }
      replace (seen ++ c :: l) with ((seen ++ [c]) ++ l) in * by (rewrite <- app_assoc; reflexivity).
      destruct b as [cb|]; destruct k as [ck|]; cbn in HI; try contradiction.
      + destruct HI as (Hb & Hk & Hlt & Hall).
        assert (Hcb : c <> cb) by (intros ->; contradiction).
        assert (Hck : c <> ck) by (intros ->; contradiction).
        destruct (lt c cb) eqn:E.
        * apply IH; [assumption|]. cbn. split; [apply in_app_iff; cbn; auto|]. split; [apply in_app_iff; auto|].
          split; [assumption|]. intros x Hx. apply in_app_iff in Hx as [Hx|[<-|[]]]; [|auto].
          destruct (Hall x Hx) as [->|[->|H]]; auto. right. right. eapply lt_trans; eassumption.
        * assert (E' : lt cb c = true) by (destruct (lt_total cb c) as [H|[H|H]]; congruence).
          destruct (lt c ck) eqn:E2.
          -- apply IH; [assumption|]. cbn. split; [apply in_app_iff; auto|]. split; [apply in_app_iff; cbn; auto|].
             split; [assumption|]. intros x Hx. apply in_app_iff in Hx as [Hx|[<-|[]]]; [|auto].
             destruct (Hall x Hx) as [->|[->|H]]; auto. right. right. eapply lt_trans; eassumption.
          -- assert (E2' : lt ck c = true) by (destruct (lt_total ck c) as [H|[H|H]]; congruence).
             apply IH; [assumption|]. cbn. split; [apply in_app_iff; auto|]. split; [apply in_app_iff; auto|].
             split; [assumption|]. intros x Hx. apply in_app_iff in Hx as [Hx|[<-|[]]]; auto.
      + subst seen. assert (Hcb : c <> cb) by (intros ->; apply Hc; now left).
        destruct (lt c cb) eqn:E.
        * apply IH; [assumption|]. cbn. split; [auto|]. split; [auto|]. split; [assumption|].
          intros x [<-|[<-|[]]]; auto.
        * assert (E' : lt cb c = true) by (destruct (lt_total cb c) as [H|[H|H]]; congruence).
          apply IH; [assumption|]. cbn. split; [auto|]. split; [auto|]. split; [assumption|].
          intros x [<-|[<-|[]]]; auto.
      + subst seen. apply IH; [assumption|]. reflexivity.
  Qed.

  Lemma c11_generic_proof l b k :
    NoDup l -> best_backup_generic T lt l = (Some b, Some k) ->
    In b l /\ In k l /\ lt b k = true /\ forall x, In x l -> x = b \/ x = k \/ lt k x = true.
  Proof.
    intros Hnd H. pose proof (bbg_inv l [] None None Hnd eq_refl) as I. cbn [app] in I.
    unfold best_backup_generic in H. rewrite H in I. exact I.
  Qed.
End Gen.
