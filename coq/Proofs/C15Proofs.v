(* C15: BMP - decoding never panics; accepted messages have safe, terminating accessors; well-formed messages decode faithfully *)
From Coq Require Import List Arith NArith Bool Lia.
From RC Require Import Base.Res Base.Wire Proofs.WireProofs Model.Open Model.Negotiate Gen.CapRules Model.OpenMsg Model.Update
  Proofs.UpdateTotal Proofs.C03Proofs Model.Bmp.
Import ListNotations.
Local Open Scope N_scope.
Local Arguments N.of_nat : simpl never.
Local Arguments Nat.ltb : simpl never.
Local Arguments Nat.leb : simpl never.

(* ================================================================ decoding never panics *)
Lemma ch_check_np p : ch_check p <> Panic.
Proof. unfold ch_check. np. Qed.

Lemma pph_check_np p : pph_check p <> Panic.
Proof. unfold pph_check. np. Qed.

Lemma param_parse_np p : param_parse p <> Panic.
Proof. unfold param_parse. np; try apply caps_walk_np. Qed.

Lemma open_params_np : forall fuel left p, open_params fuel left p <> Panic.
Proof. induction fuel as [|f IH]; intros left p; cbn [open_params]; [discriminate|]. np; try apply param_parse_np; try apply caps_walk_np; try apply IH. Qed.

Lemma open_parse_np p : open_parse p <> Panic.
Proof. unfold open_parse. np; try apply header_parse_np; try apply marker_check_np; try apply open_params_np. Qed.

Lemma notif_parse_np p : notif_parse p <> Panic.
Proof. unfold notif_parse. np; try apply header_parse_np; try apply marker_check_np. Qed.

Lemma tlvs_check_np : forall fuel p, tlvs_check fuel p <> Panic.
Proof. induction fuel as [|f IH]; intros p; cbn [tlvs_check]; [discriminate|]. np; try apply IH. Qed.

Lemma term_check_np : forall fuel p, term_check fuel p <> Panic.
Proof. induction fuel as [|f IH]; intros p; cbn [term_check]; [discriminate|]. np; try apply IH. Qed.

Lemma stats_check_np : forall c p, stats_check c p <> Panic.
Proof. induction c as [|c IH]; intros p; cbn [stats_check]; [discriminate|]. np; try apply IH. Qed.

Lemma kind_check_np k b : kind_check k b <> Panic.
Proof.
  destruct k; cbn [kind_check]; unfold rm_check, stats_check_msg, pd_check, pu_check, init_check, term_check_msg, mirror_check;
    np; try apply ch_check_np; try apply pph_check_np; try apply stats_check_np; try apply notif_parse_np;
    try apply open_parse_np; try apply tlvs_check_np; try apply term_check_np; try apply marker_check_np; try apply open_params_np;
    try apply caps_walk_np.
Qed.

Lemma c15_no_panic_proof b : bmp_from_octets b <> Panic.
Proof.
  unfold bmp_from_octets. np. destruct (kind_of _); [|discriminate]. np. apply kind_check_np.
Qed.

(* ================================================================ parsers positioned inside the message *)
Definition at_ (b : bytes) (p : parser) : Prop := p_rest p = skipn (p_pos p) b /\ (p_pos p <= length b)%nat.

Lemma at_start b : at_ b (parser_of b).
Proof. unfold at_, parser_of; cbn. split; [reflexivity|lia]. Qed.

Lemma skipn_skipn {A} (x y : nat) (l : list A) : skipn x (skipn y l) = skipn (x + y) l.
Proof.
  revert l. induction y as [|y IH]; intros l; [now rewrite Nat.add_0_r|].
  destruct l as [|a l]; [now rewrite !skipn_nil|]. rewrite Nat.add_succ_r. cbn [skipn]. apply IH.
Qed.

Lemma take_at b p n v p' : at_ b p -> take n p = Ok (v, p') ->
  at_ b p' /\ p_pos p' = (p_pos p + n)%nat /\ v = firstn n (skipn (p_pos p) b) /\ (p_pos p + n <= length b)%nat.
Proof.
  intros [Hr Hl] H. unfold take in H. destruct (Nat.leb n (remaining p)) eqn:E; [|discriminate].
  apply Nat.leb_le in E. unfold remaining in E. rewrite Hr, skipn_length in E.
  inversion H; subst v p'. cbn [p_rest p_pos]. unfold at_. cbn [p_rest p_pos].
  rewrite Hr, skipn_skipn. replace (n + p_pos p)%nat with (p_pos p + n)%nat by lia.
  repeat split; try reflexivity; lia.
Qed.

Lemma adv_at b p n p' : at_ b p -> advance n p = Ok p' ->
  at_ b p' /\ p_pos p' = (p_pos p + n)%nat /\ (p_pos p + n <= length b)%nat.
Proof.
  intros Ha H. unfold advance in H. destruct (take n p) as [[v q]| |] eqn:E; try discriminate. cbn in H. inversion H; subst q.
  destruct (take_at b p n v p' Ha E) as (A & B & _ & D). auto.
Qed.

Lemma be_at b p k x p' : at_ b p -> parse_be k p = Ok (x, p') ->
  at_ b p' /\ p_pos p' = (p_pos p + k)%nat /\ x = unbe (firstn k (skipn (p_pos p) b)) /\ (p_pos p + k <= length b)%nat.
Proof.
  intros Ha H. unfold parse_be in H. destruct (take k p) as [[v q]| |] eqn:E; try discriminate. cbn in H. inversion H; subst x q.
  destruct (take_at b p k v p' Ha E) as (A & B & C & D). subst v. auto.
Qed.

Lemma u8_at b p x p' : at_ b p -> parse_u8 p = Ok (x, p') ->
  at_ b p' /\ p_pos p' = S (p_pos p) /\ nth_error b (p_pos p) = Some x /\ (S (p_pos p) <= length b)%nat.
Proof.
  intros [Hr Hl] H. unfold parse_u8 in H. destruct (p_rest p) as [|y tl] eqn:E; [discriminate|]. inversion H; subst y p'.
  assert (Hlen : (p_pos p < length b)%nat).
  { destruct (Nat.lt_ge_cases (p_pos p) (length b)) as [L|G]; [exact L|]. rewrite skipn_all2 in Hr by lia. congruence. }
  unfold at_; cbn [p_rest p_pos].
  assert (Hs : skipn (p_pos p) b = x :: skipn (S (p_pos p)) b).
  { rewrite <- Hr. f_equal. replace (S (p_pos p)) with (1 + p_pos p)%nat by lia. rewrite <- skipn_skipn, <- Hr. reflexivity. }
  split; [split; [|lia]|].
  - replace (S (p_pos p)) with (1 + p_pos p)%nat by lia. rewrite <- skipn_skipn, <- Hr. reflexivity.
  - split; [reflexivity|]. split; [|lia].
    rewrite <- (firstn_skipn (p_pos p) b) at 1. rewrite nth_error_app2 by (rewrite firstn_length; lia).
    rewrite firstn_length, Nat.min_l, Nat.sub_diag by lia. rewrite Hs. reflexivity.
Qed.

Lemma slice_ok (b : bytes) lo hi : (lo <= hi)%nat -> (hi <= length b)%nat -> slice b lo hi = Ok (firstn (hi - lo) (skipn lo b)).
Proof.
  intros H1 H2. unfold slice. apply Nat.leb_le in H1, H2. now rewrite H1, H2.
Qed.
Lemma slice_from_ok (b : bytes) lo : (lo <= length b)%nat -> slice_from b lo = Ok (skipn lo b).
Proof. intros H. unfold slice_from. apply Nat.leb_le in H. now rewrite H. Qed.
Lemma index_ok (b : bytes) i : (i < length b)%nat -> exists x, index b i = Ok x.
Proof.
  intros H. unfold index. destruct (nth_error b i) eqn:E; [eauto|]. apply nth_error_None in E. lia.
Qed.

Ltac binv H :=
  let x := fresh "x" in let E := fresh "E" in
  apply bind_ok in H; destruct H as (x & E & H).

(* what an accepted common header means *)
Lemma ch_check_ok b p : ch_check (parser_of b) = Ok p ->
  at_ b p /\ p_pos p = 6%nat /\ (6 <= length b)%nat /\ nth_error b 0 = Some 3 /\
  unbe (firstn 4 (skipn 1 b)) = N.of_nat (length b) /\ (exists t, nth_error b 5 = Some t /\ t <= 6).
Proof.
  unfold ch_check. intros H. binv H. destruct x as [v p1].
  destruct (u8_at b _ _ _ (at_start b) E) as (A1 & P1 & N1 & _). cbn in P1, N1.
  destruct (negb (v =? 3)) eqn:Ev; [discriminate|]. apply negb_false_iff, N.eqb_eq in Ev. subst v.
  binv H. destruct x as [len p2]. destruct (be_at b _ _ _ _ A1 E0) as (A2 & P2 & L2 & _). rewrite P1 in P2, L2.
  destruct (negb (len =? _)) eqn:El; [discriminate|]. apply negb_false_iff, N.eqb_eq in El.
  binv H. destruct x as [t p3]. destruct (u8_at b _ _ _ A2 E1) as (A3 & P3 & N3 & L3). rewrite P2 in P3, N3, L3.
  destruct (6 <? t) eqn:Et; [discriminate|]. inversion H; subst p3. apply N.ltb_ge in Et.
  unfold remaining, parser_of in El; cbn in El.
  split; [exact A3|]. split; [lia|]. split; [lia|]. split; [exact N1|]. split; [congruence|]. exists t. split; [exact N3|exact Et].
Qed.

Lemma pph_check_ok b p p' : at_ b p -> pph_check p = Ok p' ->
  at_ b p' /\ p_pos p' = (p_pos p + 42)%nat /\ (p_pos p + 42 <= length b)%nat.
Proof.
  intros Ha H. unfold pph_check in H. binv H. destruct x as [pt p1].
  destruct (u8_at b _ _ _ Ha E) as (A1 & P1 & _). destruct (3 <? pt); [discriminate|].
  destruct (adv_at b _ _ _ A1 H) as (A2 & P2 & L2). rewrite P1 in P2, L2. split; [exact A2|]. split; lia.
Qed.

(* ================================================================ accessors of an accepted message *)
Definition is_ok {A} (r : res A) : Prop := exists x, r = Ok x.

Lemma kind_check_ch k b : kind_check k b = Ok tt -> exists p, ch_check (parser_of b) = Ok p.
Proof.
  destruct k; cbn [kind_check]; unfold rm_check, stats_check_msg, pd_check, pu_check, init_check, term_check_msg, mirror_check;
    intros H; binv H; eauto.
Qed.

Lemma from_octets_inv b k : bmp_from_octets b = Ok k ->
  kind_check k b = Ok tt /\ (exists t, nth_error b 5 = Some t /\ kind_of t = Some k).
Proof.
  unfold bmp_from_octets. intros H. binv H. destruct x as [h q].
  destruct (take_at b _ _ _ _ (at_start b) E) as (_ & _ & Hh & Hl). cbn in Hh, Hl.
  destruct (kind_of (nth 5 h 0)) as [k'|] eqn:Ek; [|discriminate].
  binv H. inversion H; subst k'. destruct x. split; [exact E0|].
  assert (Hn : nth_error b 5 = Some (nth 5 h 0)).
  { subst h. do 6 (destruct b as [|? b]; [cbn in Hl; lia|]). reflexivity. }
  eauto.
Qed.

Lemma c15_common_header_proof b k : bmp_from_octets b = Ok k ->
  a_version b = Ok 3 /\ a_msg_length b = Ok (N.of_nat (length b)) /\
  (exists t, a_msg_type b = Ok t /\ kind_of t = Some k) /\ (6 <= length b)%nat.
Proof.
  intros H. destruct (from_octets_inv b k H) as (Hc & t & Ht & Hk).
  destruct (kind_check_ch k b Hc) as (p & Hp). destruct (ch_check_ok b p Hp) as (_ & _ & L & V & Ln & _).
  split; [unfold a_version, index; now rewrite V|]. split.
  - unfold a_msg_length. rewrite slice_ok by lia. cbn [bind Nat.sub]. now rewrite Ln.
  - split; [|exact L]. exists t. split; [unfold a_msg_type, index; now rewrite Ht|exact Hk].
Qed.

(* the per-peer header: 42 octets, every field readable *)
Lemma pph_fields_ok h : length h = 42%nat ->
  is_ok (pph_peer_type h) /\ is_ok (pph_flags h) /\ is_ok (pph_distinguisher h) /\ is_ok (pph_address h) /\ is_ok (pph_asn h) /\
  is_ok (pph_bgp_id h) /\ is_ok (pph_ts_seconds h) /\ is_ok (pph_ts_micros h) /\ is_ok (pph_timestamp h) /\ is_ok (pph_rib_type h).
Proof.
  intros L. unfold is_ok.
  destruct (index_ok h 0 ltac:(lia)) as (x0 & E0). destruct (index_ok h 1 ltac:(lia)) as (x1 & E1).
  unfold pph_peer_type, pph_flags, pph_distinguisher, pph_address, pph_asn, pph_bgp_id, pph_ts_seconds, pph_ts_micros, pph_timestamp,
    pph_rib_type, pph_ts_seconds, pph_ts_micros, pph_peer_type, pph_flags.
  rewrite E0, E1. rewrite !slice_ok by lia. cbn [bind].
  repeat split; try (eexists; reflexivity).
  destruct (flag_set x1 128); eexists; reflexivity.
Qed.

Lemma pph_ok b p p' : at_ b p -> p_pos p = 6%nat -> pph_check p = Ok p' ->
  exists h, a_pph b = Ok h /\ length h = 42%nat /\ h = firstn 42 (skipn 6 b) /\ at_ b p' /\ p_pos p' = COFF /\ (COFF <= length b)%nat.
Proof.
  intros Ha Hp H. destruct (pph_check_ok b p p' Ha H) as (A & P & L). rewrite Hp in P, L.
  exists (firstn 42 (skipn 6 b)). unfold a_pph, COFF. rewrite slice_ok by lia.
  split; [reflexivity|]. split; [rewrite firstn_length, skipn_length; lia|]. split; [reflexivity|]. split; [exact A|]. split; [exact P|exact L].
Qed.

(* kinds that carry a per-peer header *)
Definition has_pph (k : bmp_kind) : bool :=
  match k with KInitiation | KTermination => false | _ => true end.

Lemma kind_check_pph k b : has_pph k = true -> kind_check k b = Ok tt ->
  exists p p', ch_check (parser_of b) = Ok p /\ pph_check p = Ok p'.
Proof.
  destruct k; cbn [has_pph kind_check]; try discriminate; intros _;
    unfold rm_check, stats_check_msg, pd_check, pu_check, mirror_check; intros H; binv H; binv H; eauto.
Qed.

Lemma c15_per_peer_header_proof b k : bmp_from_octets b = Ok k -> has_pph k = true ->
  exists h, a_pph b = Ok h /\ h = firstn 42 (skipn 6 b) /\ length h = 42%nat /\
    is_ok (pph_peer_type h) /\ is_ok (pph_flags h) /\ is_ok (pph_distinguisher h) /\ is_ok (pph_address h) /\ is_ok (pph_asn h) /\
    is_ok (pph_bgp_id h) /\ is_ok (pph_ts_seconds h) /\ is_ok (pph_ts_micros h) /\ is_ok (pph_timestamp h) /\ is_ok (pph_rib_type h).
Proof.
  intros H Hk. destruct (from_octets_inv b k H) as (Hc & _).
  destruct (kind_check_pph k b Hk Hc) as (p & p' & Hp & Hq).
  destruct (ch_check_ok b p Hp) as (A & P & _).
  destruct (pph_ok b p p' A P Hq) as (h & E & L & Eh & _).
  exists h. split; [exact E|]. split; [exact Eh|]. split; [exact L|]. exact (pph_fields_ok h L).
Qed.

(* ---- parsers over a slice: [rat o pos p] = the parser has the octets of o from offset pos in front of it *)
Definition rat (o : bytes) (pos : nat) (p : parser) : Prop := p_rest p = skipn pos o /\ (pos <= length o)%nat.

Lemma at_rat b p : at_ b p -> rat b (p_pos p) p.
Proof. exact (fun H => H). Qed.

Lemma rat_shift b off pos p : rat b (off + pos) p -> (off <= length b)%nat -> rat (skipn off b) pos p.
Proof.
  intros [Hr Hl] Ho. split; [rewrite Hr, skipn_skipn; f_equal; lia|rewrite skipn_length; lia].
Qed.

Lemma rat_take o pos p n v p' : rat o pos p -> take n p = Ok (v, p') ->
  rat o (pos + n) p' /\ v = firstn n (skipn pos o) /\ (pos + n <= length o)%nat.
Proof.
  intros [Hr Hl] H. unfold take in H. destruct (Nat.leb n (remaining p)) eqn:E; [|discriminate].
  apply Nat.leb_le in E. unfold remaining in E. rewrite Hr, skipn_length in E.
  inversion H; subst v p'. unfold rat. cbn [p_rest]. rewrite Hr, skipn_skipn.
  replace (n + pos)%nat with (pos + n)%nat by lia. repeat split; try reflexivity; lia.
Qed.

Lemma rat_adv o pos p n p' : rat o pos p -> advance n p = Ok p' -> rat o (pos + n) p' /\ (pos + n <= length o)%nat.
Proof.
  intros Ha H. unfold advance in H. destruct (take n p) as [[v q]| |] eqn:E; try discriminate. cbn in H. inversion H; subst q.
  destruct (rat_take o pos p n v p' Ha E) as (A & _ & D). auto.
Qed.

Lemma rat_be o pos p k x p' : rat o pos p -> parse_be k p = Ok (x, p') ->
  rat o (pos + k) p' /\ x = unbe (firstn k (skipn pos o)) /\ (pos + k <= length o)%nat.
Proof.
  intros Ha H. unfold parse_be in H. destruct (take k p) as [[v q]| |] eqn:E; try discriminate. cbn in H. inversion H; subst x q.
  destruct (rat_take o pos p k v p' Ha E) as (A & C & D). subst v. auto.
Qed.

Lemma rat_remaining o pos p : rat o pos p -> remaining p = (length o - pos)%nat.
Proof. intros [Hr _]. unfold remaining. now rewrite Hr, skipn_length. Qed.

(* ---- Information TLVs: what the check walked is what the iterator walks *)
Lemma tlv_iter_ok o : forall fuel pos p, rat o pos p -> tlvs_check fuel p = Ok tt -> is_ok (tlv_iter fuel o pos).
Proof.
  induction fuel as [|f IH]; intros pos p Hp H; [discriminate|].
  cbn [tlvs_check] in H. cbn [tlv_iter]. rewrite (rat_remaining o pos p Hp) in H.
  destruct Hp as [Hr Hl0]. pose proof (conj Hr Hl0) as Hp.
  destruct (Nat.eqb (length o - pos) 0) eqn:E0.
  - apply Nat.eqb_eq in E0. assert (pos = length o) by lia. subst pos. rewrite Nat.eqb_refl. eexists; reflexivity.
  - apply Nat.eqb_neq in E0. assert (Hne : Nat.eqb pos (length o) = false) by (apply Nat.eqb_neq; lia). rewrite Hne.
    binv H. destruct (rat_adv o pos p 2 x Hp E) as (A1 & L1).
    binv H. destruct x0 as [l p2]. destruct (rat_be o (pos + 2) x 2 l p2 A1 E1) as (A2 & V2 & L2).
    binv H. destruct (rat_adv o (pos + 2 + 2) p2 (N.to_nat l) x0 A2 E2) as (A3 & L3).
    rewrite slice_ok by lia. cbn [bind]. replace (pos + 4 - (pos + 2))%nat with 2%nat by lia. rewrite <- V2.
    rewrite slice_ok by lia. cbn [bind].
    set (tlv := firstn (pos + 4 + N.to_nat l - pos) (skipn pos o)).
    assert (Lt : length tlv = (4 + N.to_nat l)%nat) by (unfold tlv; rewrite firstn_length, skipn_length; lia).
    rewrite slice_ok by lia. cbn [bind]. rewrite slice_from_ok by lia. cbn [bind].
    replace (pos + 2 + 2 + N.to_nat l)%nat with (pos + 4 + N.to_nat l)%nat in A3 by lia.
    destruct (IH _ _ A3 H) as (r & Er). rewrite Er. eexists; reflexivity.
Qed.

(* ---- Termination information *)
Lemma term_iter_ok o : forall fuel pos p, rat o pos p -> term_check fuel p = Ok tt -> is_ok (term_iter fuel o pos (length o)).
Proof.
  induction fuel as [|f IH]; intros pos p Hp H; [discriminate|].
  cbn [term_check] in H. cbn [term_iter]. rewrite (rat_remaining o pos p Hp) in H.
  destruct Hp as [Hr Hl0]. pose proof (conj Hr Hl0) as Hp.
  destruct (Nat.eqb (length o - pos) 0) eqn:E0.
  - apply Nat.eqb_eq in E0. assert (pos = length o) by lia. subst pos. rewrite Nat.eqb_refl. eexists; reflexivity.
  - apply Nat.eqb_neq in E0. assert (Hne : Nat.eqb pos (length o) = false) by (apply Nat.eqb_neq; lia). rewrite Hne.
    binv H. destruct x as [t p1]. destruct (rat_be o pos p 2 t p1 Hp E) as (A1 & V1 & L1).
    binv H. destruct x as [l p2]. destruct (rat_be o (pos + 2) p1 2 l p2 A1 E1) as (A2 & V2 & L2).
    destruct (negb (t =? 0) && negb (l =? 2)) eqn:Ec; [discriminate|].
    binv H. destruct (rat_adv o (pos + 2 + 2) p2 (N.to_nat l) x A2 E2) as (A3 & L3).
    rewrite slice_ok by lia. cbn [bind]. rewrite slice_ok by lia. cbn [bind].
    replace (pos + 2 - pos)%nat with 2%nat by lia. replace (pos + 4 - (pos + 2))%nat with 2%nat by lia. rewrite <- V1, <- V2.
    replace (pos + 2 + 2 + N.to_nat l)%nat with (pos + 4 + N.to_nat l)%nat in A3 by lia.
    destruct (IH _ _ A3 H) as (r & Er).
    destruct (t =? 0) eqn:Et.
    + rewrite slice_ok by lia. cbn [bind]. rewrite Er. eexists; reflexivity.
    + rewrite slice_ok by lia. cbn [bind].
      cbn [negb andb] in Ec. apply negb_false_iff, N.eqb_eq in Ec. subst l.
      assert (Lv : length (firstn (pos + 4 + N.to_nat 2 - (pos + 4)) (skipn (pos + 4) o)) = 2%nat)
        by (rewrite firstn_length, skipn_length; change (N.to_nat 2) with 2%nat in *; lia).
      rewrite Lv. cbn [Nat.eqb negb]. rewrite Er. eexists; reflexivity.
Qed.

(* ---- Statistics *)
Lemma stat_kind_cases t len : let k := stat_kind t len in
  (k = 1 /\ len = 4) \/ (k = 2 /\ len = 8) \/ (k = 3 /\ len = 11) \/ k = 0.
Proof.
  unfold stat_kind. cbv zeta.
  destruct ((_ || _) && (len =? 4)) eqn:E1.
  - left. apply andb_true_iff in E1. destruct E1 as [_ E]. apply N.eqb_eq in E. auto.
  - destruct ((_ || _ || _ || _) && (len =? 8)) eqn:E2.
    + right; left. apply andb_true_iff in E2. destruct E2 as [_ E]. apply N.eqb_eq in E. auto.
    + destruct ((_ || _ || _ || _) && (len =? 11)) eqn:E3.
      * right; right; left. apply andb_true_iff in E3. destruct E3 as [_ E]. apply N.eqb_eq in E. auto.
      * right; right; right. reflexivity.
Qed.

Lemma stat_iter_ok o : forall c pos p, rat o pos p -> stats_check c p = Ok tt -> is_ok (stat_iter c o pos).
Proof.
  induction c as [|c IH]; intros pos p Hp H; [eexists; reflexivity|].
  cbn [stats_check] in H. cbn [stat_iter].
  binv H. destruct (rat_adv o pos p 2 x Hp E) as (A1 & L1).
  binv H. destruct x0 as [l p2]. destruct (rat_be o (pos + 2) x 2 l p2 A1 E0) as (A2 & V2 & L2).
  binv H. destruct (rat_adv o (pos + 2 + 2) p2 (N.to_nat l) x0 A2 E1) as (A3 & L3).
  rewrite slice_ok by lia. cbn [bind]. rewrite slice_ok by lia. cbn [bind].
  replace (pos + 4 - (pos + 2))%nat with 2%nat by lia. rewrite <- V2. clear V2.
  set (t := unbe (firstn (pos + 2 - pos) (skipn pos o))).
  replace (pos + 2 + 2 + N.to_nat l)%nat with (pos + 4 + N.to_nat l)%nat in A3, L3 by lia.
  destruct (stat_kind_cases t l) as [[K Ln]|[[K Ln]|[[K Ln]|K]]]; cbv zeta in K; rewrite K; cbn [N.eqb Pos.eqb].
  - subst l. change (N.to_nat 4) with 4%nat in *. rewrite slice_ok by lia. cbn [bind].
    replace (pos + 8)%nat with (pos + 4 + 4)%nat by lia. destruct (IH _ _ A3 H) as (r & Er). rewrite Er. eexists; reflexivity.
  - subst l. change (N.to_nat 8) with 8%nat in *. rewrite slice_ok by lia. cbn [bind].
    replace (pos + 12)%nat with (pos + 4 + 8)%nat by lia. destruct (IH _ _ A3 H) as (r & Er). rewrite Er. eexists; reflexivity.
  - subst l. change (N.to_nat 11) with 11%nat in *. rewrite slice_ok by lia. cbn [bind].
    destruct (index_ok o (pos + 6) ltac:(lia)) as (s & Es). rewrite Es. cbn [bind]. rewrite slice_ok by lia. cbn [bind].
    replace (pos + 15)%nat with (pos + 4 + 11)%nat by lia. destruct (IH _ _ A3 H) as (r & Er). rewrite Er. eexists; reflexivity.
  - destruct (IH _ _ A3 H) as (r & Er). rewrite Er. eexists; reflexivity.
Qed.

(* ---- positions *)
Lemma at_eq b p : at_ b p -> p = mkP (skipn (p_pos p) b) (p_pos p).
Proof. intros [Hr _]. destruct p as [r q]. cbn in *. now subst r. Qed.

Lemma adv_parser_of (b : bytes) n : (n <= length b)%nat -> advance n (parser_of b) = Ok (mkP (skipn n b) n).
Proof.
  intros H. unfold advance, take, parser_of, remaining. cbn [p_rest p_pos]. apply Nat.leb_le in H. rewrite H. reflexivity.
Qed.

Lemma open_parse_at b p o p' : at_ b p -> open_parse p = Ok (o, p') ->
  at_ b p' /\ p_pos p' = (p_pos p + length o)%nat /\ o = firstn (length o) (skipn (p_pos p) b) /\ (p_pos p + length o <= length b)%nat.
Proof.
  intros Ha H. unfold open_parse in H. binv H. destruct x as [[len ty] p1]. binv H. binv H. destruct x0 as [opl p3].
  destruct (Nat.ltb (remaining p3) (N.to_nat opl)); [discriminate|]. binv H.
  destruct (negb (Nat.eqb (p_pos x0 - p_pos p) (N.to_nat len))); [discriminate|].
  destruct (take_at b p _ _ _ Ha H) as (A & P & V & L).
  assert (Lo : length o = N.to_nat len) by (subst o; rewrite firstn_length, skipn_length; lia).
  rewrite Lo. auto.
Qed.

Lemma notif_parse_at b p o p' : at_ b p -> notif_parse p = Ok (o, p') -> (p_pos p + length o <= length b)%nat.
Proof.
  intros Ha H. unfold notif_parse in H. binv H. destruct x as [[len ty] p1]. binv H. destruct x as [c p2]. binv H. destruct x as [sc p3].
  destruct (len <? 21); [discriminate|].
  destruct (take_at b p _ _ _ Ha H) as (A & P & V & L).
  assert (Lo : length o = N.to_nat len) by (subst o; rewrite firstn_length, skipn_length; lia). lia.
Qed.

(* ---- Route Monitoring *)
Lemma c15_rm_safe_proof b cfg : bmp_from_octets b = Ok KRouteMonitoring ->
  a_bgp_update b cfg <> Panic /\ a_bgp_update b cfg = parse_update cfg (skipn COFF b).
Proof.
  intros H. destruct (from_octets_inv _ _ H) as (Hc & _). cbn [kind_check] in Hc. unfold rm_check in Hc.
  binv Hc. binv Hc. destruct (ch_check_ok b x E) as (A & P & _). destruct (pph_ok b x x0 A P E0) as (h & _ & _ & _ & _ & _ & L).
  unfold a_bgp_update. rewrite (adv_parser_of b COFF L). cbn [unwrap_res bind].
  split; [apply c02_parse_total_proof|reflexivity].
Qed.

(* ---- Statistics Report *)
Lemma c15_sr_safe_proof b : bmp_from_octets b = Ok KStatisticsReport ->
  is_ok (a_stats_count b) /\ is_ok (a_stats b).
Proof.
  intros H. destruct (from_octets_inv _ _ H) as (Hc & _). cbn [kind_check] in Hc. unfold stats_check_msg in Hc.
  binv Hc. binv Hc. destruct (ch_check_ok b x E) as (A & P & _). destruct (pph_ok b x x0 A P E0) as (h & _ & _ & _ & A1 & P1 & L1).
  binv Hc. destruct x1 as [count p2]. destruct (be_at b x0 4 count p2 A1 E1) as (A2 & P2 & V2 & L2). rewrite P1 in P2, V2, L2.
  assert (Hcount : a_stats_count b = Ok count).
  { unfold a_stats_count. rewrite slice_ok by (unfold COFF in *; lia). cbn [bind].
    replace (COFF + 4 - COFF)%nat with 4%nat by lia. now rewrite V2. }
  split; [eexists; exact Hcount|].
  unfold a_stats. rewrite Hcount. cbn [bind]. rewrite slice_from_ok by lia. cbn [bind].
  destruct (N.of_nat (S (length b)) <? count) eqn:Ec.
  - destruct (stats_check (S (length b)) p2); discriminate.
  - apply N.ltb_ge in Ec. rewrite N.min_l by lia.
    apply (stat_iter_ok (skipn (COFF + 4) b) (N.to_nat count) 0 p2); [|exact Hc].
    apply rat_shift; [rewrite Nat.add_0_r, <- P2; exact A2|lia].
Qed.

(* ---- Peer Down *)
Lemma c15_pd_safe_proof b : bmp_from_octets b = Ok KPeerDown ->
  is_ok (a_pd_reason b) /\ is_ok (a_pd_notification b) /\ is_ok (a_pd_fsm b).
Proof.
  intros H. destruct (c15_common_header_proof b _ H) as (_ & Hlen & _).
  destruct (from_octets_inv _ _ H) as (Hc & _). cbn [kind_check] in Hc. unfold pd_check in Hc.
  binv Hc. binv Hc. destruct (ch_check_ok b x E) as (A & P & _). destruct (pph_ok b x x0 A P E0) as (h & _ & _ & _ & A1 & P1 & L1).
  binv Hc. destruct x1 as [reason p2]. destruct (u8_at b x0 reason p2 A1 E1) as (A2 & P2 & V2 & L2). rewrite P1 in P2, V2, L2.
  assert (Hr : a_pd_reason b = Ok reason) by (unfold a_pd_reason, index; now rewrite V2).
  split; [eexists; exact Hr|]. unfold a_pd_notification, a_pd_fsm. rewrite Hr. cbn [bind]. split.
  - destruct ((reason =? 1) || (reason =? 3)) eqn:Er; [|eexists; reflexivity].
    rewrite Hlen. cbn [bind]. rewrite Nat2N.id.
    rewrite (rat_remaining b (p_pos p2) p2 A2), P2 in Hc.
    destruct (Nat.eqb (COFF + 1) (length b)) eqn:El.
    + eexists; reflexivity.
    + apply Nat.eqb_neq in El. assert (Hne : Nat.eqb (length b - S COFF) 0 = false) by (apply Nat.eqb_neq; unfold COFF in *; lia).
      rewrite Hne in Hc. binv Hc. destruct x1 as [nb p3].
      rewrite (adv_parser_of b (COFF + 1)) by (unfold COFF in *; lia). cbn [unwrap_res bind].
      rewrite (at_eq b p2 A2), P2 in E2. replace (COFF + 1)%nat with (S COFF) by lia. rewrite E2. cbn [unwrap_res bind].
      eexists; reflexivity.
  - destruct ((reason =? 1) || (reason =? 3)) eqn:Er.
    + destruct (reason =? 2) eqn:E2; [|eexists; reflexivity]. apply N.eqb_eq in E2. subst reason. discriminate.
    + destruct (reason =? 2) eqn:E2; [|eexists; reflexivity].
      binv Hc. destruct (adv_at b p2 2 x1 A2 E3) as (_ & _ & L3). rewrite P2 in L3.
      rewrite slice_ok by (unfold COFF in *; lia). eexists; reflexivity.
Qed.

(* ---- Peer Up *)
Lemma c15_pu_safe_proof b : bmp_from_octets b = Ok KPeerUp ->
  is_ok (a_pu_local_address b) /\ is_ok (a_pu_local_port b) /\ is_ok (a_pu_remote_port b) /\
  is_ok (a_pu_opens b) /\ is_ok (a_pu_open_sent b) /\ is_ok (a_pu_open_rcvd b) /\ is_ok (a_pu_information_tlvs b) /\
  (forall s r p, a_pu_opens b = Ok (s, r, p) -> a_pu_open_sent b = Ok s /\ a_pu_open_rcvd b = Ok r).
Proof.
  intros H. destruct (from_octets_inv _ _ H) as (Hc & _). cbn [kind_check] in Hc. unfold pu_check in Hc.
  binv Hc. binv Hc. destruct (ch_check_ok b x E) as (A & P & _). destruct (pph_ok b x x0 A P E0) as (h & _ & _ & _ & A1 & P1 & L1).
  binv Hc. destruct (adv_at b x0 20 x1 A1 E1) as (A2 & P2 & L2). rewrite P1 in P2, L2.
  binv Hc. destruct x2 as [s p3]. destruct (open_parse_at b x1 s p3 A2 E2) as (A3 & P3 & V3 & L3). rewrite P2 in P3, V3, L3.
  binv Hc. destruct x2 as [r p4]. destruct (open_parse_at b p3 r p4 A3 E3) as (A4 & P4 & V4 & L4). rewrite P3 in P4, V4, L4.
  assert (E68 : advance (COFF + 20) (parser_of b) = Ok x1).
  { rewrite (adv_parser_of b (COFF + 20) L2). f_equal. rewrite (at_eq b x1 A2), P2. reflexivity. }
  assert (Eopens : a_pu_opens b = Ok (s, r, p4)).
  { unfold a_pu_opens. rewrite E68. cbn [unwrap_res bind]. rewrite E2. cbn [unwrap_res bind]. rewrite E3. reflexivity. }
  assert (Esent : a_pu_open_sent b = Ok s).
  { unfold a_pu_open_sent. rewrite E68. cbn [unwrap_res bind]. rewrite E2. reflexivity. }
  assert (Ercvd : a_pu_open_rcvd b = Ok r).
  { unfold a_pu_open_rcvd. rewrite Esent. cbn [bind]. rewrite (adv_parser_of b (COFF + 20 + length s) L3). cbn [unwrap_res bind].
    rewrite (at_eq b p3 A3), P3 in E3. rewrite E3. reflexivity. }
  unfold is_ok.
  split.
  { unfold a_pu_local_address. rewrite slice_ok by (unfold COFF in *; lia). cbn [bind].
    destruct (forallb _ _); rewrite slice_ok by (unfold COFF in *; lia); eexists; reflexivity. }
  split; [unfold a_pu_local_port; rewrite slice_ok by (unfold COFF in *; lia); eexists; reflexivity|].
  split; [unfold a_pu_remote_port; rewrite slice_ok by (unfold COFF in *; lia); eexists; reflexivity|].
  split; [eexists; exact Eopens|]. split; [eexists; exact Esent|]. split; [eexists; exact Ercvd|]. split.
  - unfold a_pu_information_tlvs. rewrite Eopens. cbn [bind]. rewrite slice_from_ok by lia. cbn [bind].
    assert (Hrem : remaining p4 = length (skipn (p_pos p4) b)) by (rewrite (rat_remaining b (p_pos p4) p4 A4), skipn_length; reflexivity).
    rewrite Hrem in Hc. apply (tlv_iter_ok (skipn (p_pos p4) b) _ 0 p4); [|exact Hc].
    apply rat_shift; [rewrite Nat.add_0_r; exact A4|lia].
  - intros s' r' p' Hs. rewrite Eopens in Hs. inversion Hs; subst. auto.
Qed.

(* ---- Initiation / Termination *)
Lemma c15_init_safe_proof b : bmp_from_octets b = Ok KInitiation -> is_ok (a_init_tlvs b).
Proof.
  intros H. destruct (from_octets_inv _ _ H) as (Hc & _). cbn [kind_check] in Hc. unfold init_check in Hc.
  binv Hc. destruct (ch_check_ok b x E) as (A & P & L & _).
  unfold a_init_tlvs. rewrite slice_from_ok by lia. cbn [bind].
  assert (Hrem : remaining x = length (skipn 6 b)) by (rewrite (rat_remaining b (p_pos x) x A), P, skipn_length; reflexivity).
  rewrite Hrem in Hc. apply (tlv_iter_ok (skipn 6 b) _ 0 x); [|exact Hc].
  apply rat_shift; [rewrite Nat.add_0_r, <- P; exact A|lia].
Qed.

Lemma c15_term_safe_proof b : bmp_from_octets b = Ok KTermination -> is_ok (a_term_information b).
Proof.
  intros H. destruct (c15_common_header_proof b _ H) as (_ & Hlen & _).
  destruct (from_octets_inv _ _ H) as (Hc & _). cbn [kind_check] in Hc. unfold term_check_msg in Hc.
  binv Hc. destruct (ch_check_ok b x E) as (A & P & L & _).
  unfold a_term_information. rewrite slice_from_ok by lia. cbn [bind]. rewrite Hlen. cbn [bind]. rewrite Nat2N.id.
  unfold sub_chk. assert (Hle : Nat.leb 6 (length b) = true) by (apply Nat.leb_le; lia). rewrite Hle. cbn [bind].
  assert (Hrem : remaining x = length (skipn 6 b)) by (rewrite (rat_remaining b (p_pos x) x A), P, skipn_length; reflexivity).
  rewrite Hrem in Hc. rewrite <- (skipn_length 6 b).
  apply (term_iter_ok (skipn 6 b) _ 0 x); [|exact Hc].
  apply rat_shift; [rewrite Nat.add_0_r, <- P; exact A|lia].
Qed.

(* ================================================================ well-formed messages decode faithfully *)
Lemma adv_app a r pos n : n = length a -> advance n (mkP (a ++ r) pos) = Ok (mkP r (pos + n)).
Proof. intros ->. unfold advance. rewrite take_app. reflexivity. Qed.

Lemma be2 n l pos : n < 65536 -> parse_u16 (mkP (be 2 n ++ l) pos) = Ok (n, mkP l (pos + 2)).
Proof. intros H. apply (parse_be_app 2 n l pos). exact H. Qed.

Lemma slice_app3 (pre x rest : bytes) lo hi : lo = length pre -> hi = (lo + length x)%nat ->
  slice (pre ++ x ++ rest) lo hi = Ok x.
Proof.
  intros -> ->. rewrite slice_ok; [|lia|rewrite !app_length; lia].
  f_equal. rewrite skipn_app, skipn_all, Nat.sub_diag. cbn [skipn List.app].
  replace (length pre + length x - length pre)%nat with (length x) by lia.
  rewrite firstn_app, firstn_all, Nat.sub_diag. cbn [firstn]. now rewrite app_nil_r.
Qed.

Lemma index_app3 (pre : bytes) (x : N) (rest : bytes) i : i = length pre -> index (pre ++ x :: rest) i = Ok x.
Proof. intros ->. unfold index. rewrite nth_error_app2 by lia. now rewrite Nat.sub_diag. Qed.

Lemma enc_common_length typ body : length (enc_common typ body) = (6 + length body)%nat.
Proof. unfold enc_common. rewrite !app_length, be_length. cbn. lia. Qed.

Lemma ch_check_enc typ body : typ <= 6 -> N.of_nat (6 + length body) < 2 ^ 32 ->
  ch_check (parser_of (enc_common typ body)) = Ok (mkP body 6).
Proof.
  intros Ht Hl. unfold ch_check. unfold remaining. cbn [p_rest parser_of]. rewrite enc_common_length.
  unfold enc_common, parser_of. cbn [List.app]. rewrite parse_u8_app. cbn [bind]. cbn [N.eqb Pos.eqb negb].
  rewrite (parse_be_app 4) by exact Hl. cbn [bind]. rewrite N.eqb_refl. cbn [negb]. cbn [List.app]. rewrite parse_u8_app. cbn [bind].
  apply N.ltb_ge in Ht. rewrite Ht. reflexivity.
Qed.

Lemma pph_check_enc h rest pos : pph_wf h -> pph_check (mkP (h ++ rest) pos) = Ok (mkP rest (pos + 42)).
Proof.
  intros (L & T & _). unfold pph_check. destruct h as [|pt h']; [discriminate|]. cbn [List.app]. rewrite parse_u8_app. cbn [bind].
  cbn [nth] in T. apply N.ltb_ge in T. rewrite T. rewrite adv_app by (cbn in L; lia). f_equal. f_equal. lia.
Qed.

Lemma skipn_enc_common typ body : skipn 6 (enc_common typ body) = body.
Proof.
  unfold enc_common. cbn [List.app]. pose proof (be_length 4 (N.of_nat (6 + length body))) as L.
  destruct (be 4 (N.of_nat (6 + length body))) as [|a [|b0 [|c [|d [|? ?]]]]]; cbn in L; try lia. reflexivity.
Qed.

Lemma enc_common_len_field typ body : N.of_nat (6 + length body) < 2 ^ 32 ->
  unbe (firstn 4 (skipn 1 (enc_common typ body))) = N.of_nat (6 + length body).
Proof.
  intros Hl. unfold enc_common. cbn [List.app skipn].
  pose proof (be_length 4 (N.of_nat (6 + length body))) as L. pose proof (unbe_be 4 (N.of_nat (6 + length body)) Hl) as U.
  destruct (be 4 (N.of_nat (6 + length body))) as [|a [|b0 [|c [|d [|? ?]]]]]; cbn in L; try lia. exact U.
Qed.

Lemma kind_enc typ body k : kind_of typ = Some k -> kind_check k (enc_common typ body) = Ok tt ->
  bmp_from_octets (enc_common typ body) = Ok k.
Proof.
  intros Hk Hc. unfold bmp_from_octets.
  assert (T : take 6 (parser_of (enc_common typ body)) = Ok (firstn 6 (enc_common typ body), mkP (skipn 6 (enc_common typ body)) 6)).
  { unfold take, parser_of, remaining. cbn [p_rest p_pos]. rewrite enc_common_length. cbn. reflexivity. }
  rewrite T. cbn [bind].
  assert (N5 : nth 5 (firstn 6 (enc_common typ body)) 0 = typ).
  { unfold enc_common. cbn [List.app]. pose proof (be_length 4 (N.of_nat (6 + length body))) as L.
    destruct (be 4 (N.of_nat (6 + length body))) as [|a [|b0 [|c [|d [|? ?]]]]]; cbn in L; try lia. reflexivity. }
  rewrite N5, Hk, Hc. reflexivity.
Qed.

(* ---- Information TLVs *)
Lemma enc_tlv_length tv : length (enc_tlv tv) = (4 + length (snd tv))%nat.
Proof. unfold enc_tlv. rewrite !app_length, !be_length. lia. Qed.

Lemma tlvs_check_enc : forall l fuel pos, Forall tlv_wf l -> (length l < fuel)%nat ->
  tlvs_check fuel (mkP (enc_tlvs l) pos) = Ok tt.
Proof.
  induction l as [|[t v] l IH]; intros fuel pos Hw Hf; (destruct fuel as [|f]; [lia|]); cbn [tlvs_check].
  - reflexivity.
  - inversion Hw as [|? ? (H1 & H2 & H3) Hw']; subst. cbn [fst snd] in *.
    unfold remaining. cbn [p_rest enc_tlvs flat_map]. rewrite app_length, enc_tlv_length. cbn [snd Nat.add Nat.eqb].
    unfold enc_tlv. cbn [fst snd]. rewrite <- !app_assoc.
    rewrite adv_app by (now rewrite be_length). cbn [bind].
    rewrite be2 by exact H2. cbn [bind]. rewrite Nat2N.id.
    rewrite adv_app by reflexivity. cbn [bind]. apply IH; [exact Hw'|cbn in Hf; lia].
Qed.

Lemma tlv_iter_enc : forall l pre fuel, Forall tlv_wf l -> (length l < fuel)%nat ->
  tlv_iter fuel (pre ++ enc_tlvs l) (length pre) = Ok l.
Proof.
  induction l as [|[t v] l IH]; intros pre fuel Hw Hf; (destruct fuel as [|f]; [lia|]); cbn [tlv_iter].
  - cbn [enc_tlvs flat_map]. rewrite app_nil_r, Nat.eqb_refl. reflexivity.
  - inversion Hw as [|? ? (H1 & H2 & H3) Hw']; subst. cbn [fst snd] in *.
    cbn [enc_tlvs flat_map]. fold (enc_tlvs l).
    assert (Hne : Nat.eqb (length pre) (length (pre ++ enc_tlv (t, v) ++ enc_tlvs l)) = false).
    { apply Nat.eqb_neq. rewrite !app_length, enc_tlv_length. lia. }
    rewrite Hne.
    assert (S1 : slice (pre ++ enc_tlv (t, v) ++ enc_tlvs l) (length pre + 2) (length pre + 4) = Ok (be 2 (N.of_nat (length v)))).
    { unfold enc_tlv. cbn [fst snd]. rewrite <- !app_assoc.
      replace (pre ++ be 2 t ++ be 2 (N.of_nat (length v)) ++ v ++ enc_tlvs l)
        with ((pre ++ be 2 t) ++ be 2 (N.of_nat (length v)) ++ (v ++ enc_tlvs l)) by (now rewrite <- !app_assoc).
      apply slice_app3; rewrite ?app_length, ?be_length; lia. }
    rewrite S1. cbn [bind]. rewrite unbe_be by exact H2. rewrite Nat2N.id.
    assert (S2 : slice (pre ++ enc_tlv (t, v) ++ enc_tlvs l) (length pre) (length pre + 4 + length v) = Ok (enc_tlv (t, v))).
    { apply slice_app3; [reflexivity|rewrite enc_tlv_length; cbn [snd]; lia]. }
    rewrite S2. cbn [bind].
    assert (S3 : slice (enc_tlv (t, v)) 0 2 = Ok (be 2 t)).
    { unfold enc_tlv. cbn [fst snd]. apply (slice_app3 [] (be 2 t)); [reflexivity|now rewrite be_length]. }
    rewrite S3. cbn [bind].
    assert (S4 : slice_from (enc_tlv (t, v)) 4 = Ok v).
    { assert (L4 : (4 <= length (enc_tlv (t, v)))%nat) by (rewrite enc_tlv_length; lia).
      rewrite (slice_from_ok _ 4 L4). reflexivity. }
    rewrite S4. cbn [bind]. rewrite unbe_be by exact H1.
    replace (length pre + 4 + length v)%nat with (length (pre ++ enc_tlv (t, v))) by (rewrite app_length, enc_tlv_length; cbn [snd]; lia).
    rewrite app_assoc. rewrite IH by (try exact Hw'; cbn in Hf; lia). reflexivity.
Qed.

Lemma enc_tlvs_count l : (length l <= length (enc_tlvs l))%nat.
Proof. induction l as [|tv l IH]; [cbn; lia|]. cbn [enc_tlvs flat_map length]. rewrite app_length, enc_tlv_length. fold (enc_tlvs l). lia. Qed.

Lemma c15_init_faithful_proof l : Forall tlv_wf l -> N.of_nat (6 + length (enc_tlvs l)) < 2 ^ 32 ->
  bmp_from_octets (enc_common 4 (enc_tlvs l)) = Ok KInitiation /\ a_init_tlvs (enc_common 4 (enc_tlvs l)) = Ok l.
Proof.
  intros Hw Hl. pose proof (enc_tlvs_count l) as Hc. split.
  - apply kind_enc; [reflexivity|]. cbn [kind_check]. unfold init_check. rewrite ch_check_enc by (try exact Hl; lia). cbn [bind].
    apply tlvs_check_enc; [exact Hw|unfold remaining; cbn [p_rest]; lia].
  - unfold a_init_tlvs. rewrite slice_from_ok by (rewrite enc_common_length; lia). cbn [bind]. rewrite skipn_enc_common.
    apply (tlv_iter_enc l []); [exact Hw|lia].
Qed.

(* ---- Termination *)
Definition enc_terms (l : list term_spec) : bytes := flat_map enc_term l.

Lemma enc_term_length i : length (enc_term i) = match i with TSString s => (4 + length s)%nat | TSReason _ _ => 6%nat end.
Proof. destruct i; unfold enc_term; rewrite !app_length, !be_length; lia. Qed.

Lemma enc_term_pos i : (4 <= length (enc_term i))%nat.
Proof. rewrite enc_term_length. destruct i; lia. Qed.

Lemma term_check_enc : forall l fuel pos, Forall term_wf l -> (length l < fuel)%nat ->
  term_check fuel (mkP (enc_terms l) pos) = Ok tt.
Proof.
  induction l as [|i l IH]; intros fuel pos Hw Hf; (destruct fuel as [|f]; [lia|]); cbn [term_check].
  - reflexivity.
  - inversion Hw as [|? ? Hi Hw']; subst.
    unfold remaining. cbn [p_rest enc_terms flat_map]. fold (enc_terms l). rewrite app_length.
    pose proof (enc_term_pos i) as Lp.
    assert (Hz : Nat.eqb (length (enc_term i) + length (enc_terms l)) 0 = false) by (apply Nat.eqb_neq; lia). rewrite Hz.
    destruct i as [s|t v]; cbn [term_wf] in Hi; unfold enc_term; rewrite <- !app_assoc.
    + destruct Hi as (H1 & H2). rewrite be2 by reflexivity. cbn [bind]. rewrite be2 by exact H1. cbn [bind].
      cbn [N.eqb negb andb]. rewrite Nat2N.id, adv_app by reflexivity. cbn [bind]. apply IH; [exact Hw'|cbn in Hf; lia].
    + destruct Hi as (H0 & H1 & H2). rewrite be2 by exact H1. cbn [bind]. rewrite be2 by reflexivity. cbn [bind].
      cbn [N.eqb Pos.eqb negb]. rewrite andb_false_r. rewrite adv_app by (now rewrite be_length). cbn [bind].
      apply IH; [exact Hw'|cbn in Hf; lia].
Qed.

Lemma term_iter_enc : forall l pre fuel stop, Forall term_wf l -> (length l < fuel)%nat -> stop = length (pre ++ enc_terms l) ->
  term_iter fuel (pre ++ enc_terms l) (length pre) stop = Ok (map term_of l).
Proof.
  induction l as [|i l IH]; intros pre fuel stop Hw Hf Hs; (destruct fuel as [|f]; [lia|]); cbn [term_iter].
  - subst stop. cbn [enc_terms flat_map]. rewrite app_nil_r, Nat.eqb_refl. reflexivity.
  - inversion Hw as [|? ? Hi Hw']; subst.
    cbn [enc_terms flat_map]. fold (enc_terms l). pose proof (enc_term_pos i) as Lp.
    assert (Hne : Nat.eqb (length pre) (length (pre ++ enc_term i ++ enc_terms l)) = false) by (apply Nat.eqb_neq; rewrite !app_length; lia).
    rewrite Hne.
    assert (Hrec : forall r, term_iter f ((pre ++ enc_term i) ++ enc_terms l) (length (pre ++ enc_term i))
                     (length ((pre ++ enc_term i) ++ enc_terms l)) = Ok r ->
                   term_iter f (pre ++ enc_term i ++ enc_terms l) (length pre + length (enc_term i))
                     (length (pre ++ enc_term i ++ enc_terms l)) = Ok r).
    { intros r Hr. rewrite <- app_assoc, app_length in Hr. exact Hr. }
    specialize (Hrec (map term_of l) (IH (pre ++ enc_term i) f _ Hw' ltac:(cbn in Hf; lia) eq_refl)).
    destruct i as [s|t v]; cbn [term_wf] in Hi; rewrite enc_term_length in Hrec.
    + destruct Hi as (H1 & H2).
      assert (S1 : slice (pre ++ enc_term (TSString s) ++ enc_terms l) (length pre) (length pre + 2) = Ok (be 2 0)).
      { unfold enc_term. rewrite <- !app_assoc. apply slice_app3; [reflexivity|now rewrite be_length]. }
      assert (S2 : slice (pre ++ enc_term (TSString s) ++ enc_terms l) (length pre + 2) (length pre + 4) = Ok (be 2 (N.of_nat (length s)))).
      { unfold enc_term. rewrite <- !app_assoc.
        replace (pre ++ be 2 0 ++ be 2 (N.of_nat (length s)) ++ s ++ enc_terms l)
          with ((pre ++ be 2 0) ++ be 2 (N.of_nat (length s)) ++ (s ++ enc_terms l)) by (now rewrite <- !app_assoc).
        apply slice_app3; rewrite ?app_length, ?be_length; lia. }
      rewrite S1. cbn [bind]. rewrite S2. cbn [bind]. rewrite (unbe_be 2 (N.of_nat (length s))) by exact H1. rewrite Nat2N.id.
      change (unbe (be 2 0) =? 0) with true. cbv iota.
      assert (S3 : slice (pre ++ enc_term (TSString s) ++ enc_terms l) (length pre + 4) (length pre + 4 + length s) = Ok s).
      { unfold enc_term. rewrite <- !app_assoc.
        replace (pre ++ be 2 0 ++ be 2 (N.of_nat (length s)) ++ s ++ enc_terms l)
          with ((pre ++ be 2 0 ++ be 2 (N.of_nat (length s))) ++ s ++ enc_terms l) by (now rewrite <- !app_assoc).
        apply slice_app3; rewrite ?app_length, ?be_length; lia. }
      rewrite S3. cbn [bind]. replace (length pre + 4 + length s)%nat with (length pre + (4 + length s))%nat by lia.
      rewrite Hrec. reflexivity.
    + destruct Hi as (H0 & H1 & H2).
      assert (S1 : slice (pre ++ enc_term (TSReason t v) ++ enc_terms l) (length pre) (length pre + 2) = Ok (be 2 t)).
      { unfold enc_term. rewrite <- !app_assoc. apply slice_app3; [reflexivity|now rewrite be_length]. }
      assert (S2 : slice (pre ++ enc_term (TSReason t v) ++ enc_terms l) (length pre + 2) (length pre + 4) = Ok (be 2 2)).
      { unfold enc_term. rewrite <- !app_assoc.
        replace (pre ++ be 2 t ++ be 2 2 ++ be 2 v ++ enc_terms l)
          with ((pre ++ be 2 t) ++ be 2 2 ++ (be 2 v ++ enc_terms l)) by (now rewrite <- !app_assoc).
        apply slice_app3; rewrite ?app_length, ?be_length; lia. }
      rewrite S1. cbn [bind]. rewrite S2. cbn [bind]. rewrite (unbe_be 2 t) by exact H1.
      change (N.to_nat (unbe (be 2 2))) with 2%nat.
      assert (Ht : (t =? 0) = false) by (apply N.eqb_neq; lia). rewrite Ht.
      assert (S3 : slice (pre ++ enc_term (TSReason t v) ++ enc_terms l) (length pre + 4) (length pre + 4 + 2) = Ok (be 2 v)).
      { unfold enc_term. rewrite <- !app_assoc.
        replace (pre ++ be 2 t ++ be 2 2 ++ be 2 v ++ enc_terms l)
          with ((pre ++ be 2 t ++ be 2 2) ++ be 2 v ++ enc_terms l) by (now rewrite <- !app_assoc).
        apply slice_app3; rewrite ?app_length, ?be_length; lia. }
      rewrite S3. cbn [bind]. rewrite be_length. cbn [Nat.eqb negb]. rewrite (unbe_be 2 v) by exact H2.
      replace (length pre + 4 + 2)%nat with (length pre + 6)%nat by lia. rewrite Hrec. reflexivity.
Qed.

Lemma enc_terms_count l : (length l <= length (enc_terms l))%nat.
Proof. induction l as [|i l IH]; [cbn; lia|]. cbn [enc_terms flat_map length]. rewrite app_length. fold (enc_terms l). pose proof (enc_term_pos i). lia. Qed.

Lemma c15_term_faithful_proof l : Forall term_wf l -> N.of_nat (6 + length (enc_terms l)) < 2 ^ 32 ->
  bmp_from_octets (enc_common 5 (enc_terms l)) = Ok KTermination /\
  a_term_information (enc_common 5 (enc_terms l)) = Ok (map term_of l).
Proof.
  intros Hw Hl. pose proof (enc_terms_count l) as Hc. split.
  - apply kind_enc; [reflexivity|]. cbn [kind_check]. unfold term_check_msg. rewrite ch_check_enc by (try exact Hl; lia). cbn [bind].
    apply term_check_enc; [exact Hw|unfold remaining; cbn [p_rest]; lia].
  - unfold a_term_information. rewrite slice_from_ok by (rewrite enc_common_length; lia). cbn [bind]. rewrite skipn_enc_common.
    unfold a_msg_length. rewrite slice_ok by (rewrite ?enc_common_length; lia). cbn [bind].
    assert (Hlen : unbe (firstn (5 - 1) (skipn 1 (enc_common 5 (enc_terms l)))) = N.of_nat (6 + length (enc_terms l)))
      by (apply enc_common_len_field; exact Hl).
    rewrite Hlen, Nat2N.id. unfold sub_chk. cbn [Nat.leb]. cbn [bind].
    replace (6 + length (enc_terms l) - 6)%nat with (length (enc_terms l)) by lia.
    apply (term_iter_enc l [] _ _ Hw); [lia|reflexivity].
Qed.

(* ---- Statistics *)
Definition stat_t (s : stat_spec) : N := match s with SU32 t _ | SU64 t _ | SAS t _ _ _ | SOther t _ => t end.
Definition stat_payload (s : stat_spec) : bytes :=
  match s with SU32 _ v => be 4 v | SU64 _ v => be 8 v | SAS _ a sf v => be 2 a ++ [sf] ++ be 8 v | SOther _ pl => pl end.

Lemma enc_stat_eq s : enc_stat s = be 2 (stat_t s) ++ be 2 (N.of_nat (length (stat_payload s))) ++ stat_payload s.
Proof. destruct s; cbn [enc_stat stat_t stat_payload]; rewrite ?app_length, ?be_length; reflexivity. Qed.

Lemma stat_payload_len s : stat_wf s -> N.of_nat (length (stat_payload s)) < 65536 /\ stat_t s < 65536.
Proof.
  destruct s; cbn [stat_wf stat_payload stat_t]; rewrite ?app_length, ?be_length; cbn [length Nat.add]; intros H;
    repeat match goal with H : _ /\ _ |- _ => destruct H end; split; try assumption; reflexivity.
Qed.

Definition enc_stats (l : list stat_spec) : bytes := flat_map enc_stat l.

Lemma stats_check_enc : forall l pos rest, Forall stat_wf l ->
  stats_check (length l) (mkP (enc_stats l ++ rest) pos) = Ok tt.
Proof.
  induction l as [|s l IH]; intros pos rest Hw; cbn [length stats_check]; [reflexivity|].
  inversion Hw as [|? ? Hs Hw']; subst. destruct (stat_payload_len s Hs) as [Hl Ht].
  cbn [enc_stats flat_map]. fold (enc_stats l). rewrite enc_stat_eq, <- !app_assoc.
  rewrite adv_app by (now rewrite be_length). cbn [bind]. rewrite be2 by exact Hl. cbn [bind].
  rewrite Nat2N.id, adv_app by reflexivity. cbn [bind]. apply IH. exact Hw'.
Qed.

Lemma enc_stat_length s : length (enc_stat s) = (4 + length (stat_payload s))%nat.
Proof. rewrite enc_stat_eq, !app_length, !be_length. lia. Qed.

Lemma stat_iter_enc : forall l pre rest, Forall stat_wf l ->
  stat_iter (length l) (pre ++ enc_stats l ++ rest) (length pre) = Ok (map stat_of l).
Proof.
  induction l as [|s l IH]; intros pre rest Hw; cbn [length stat_iter]; [reflexivity|].
  inversion Hw as [|? ? Hs Hw']; subst. destruct (stat_payload_len s Hs) as [Hl Ht].
  cbn [enc_stats flat_map]. fold (enc_stats l). rewrite <- app_assoc.
  set (o := pre ++ enc_stat s ++ enc_stats l ++ rest).
  assert (Hrec : stat_iter (length l) o (length pre + length (enc_stat s)) = Ok (map stat_of l)).
  { unfold o. specialize (IH (pre ++ enc_stat s) rest Hw'). rewrite <- app_assoc, app_length in IH. exact IH. }
  assert (S1 : slice o (length pre) (length pre + 2) = Ok (be 2 (stat_t s))).
  { unfold o. rewrite enc_stat_eq, <- !app_assoc. apply slice_app3; [reflexivity|now rewrite be_length]. }
  assert (S2 : slice o (length pre + 2) (length pre + 4) = Ok (be 2 (N.of_nat (length (stat_payload s))))).
  { unfold o. rewrite enc_stat_eq, <- !app_assoc.
    replace (pre ++ be 2 (stat_t s) ++ be 2 (N.of_nat (length (stat_payload s))) ++ stat_payload s ++ enc_stats l ++ rest)
      with ((pre ++ be 2 (stat_t s)) ++ be 2 (N.of_nat (length (stat_payload s))) ++ (stat_payload s ++ enc_stats l ++ rest))
      by (now rewrite <- !app_assoc).
    apply slice_app3; rewrite ?app_length, ?be_length; lia. }
  assert (SP : forall x y z : bytes, stat_payload s = x ++ y ++ z ->
            slice o (length pre + 4 + length x) (length pre + 4 + length x + length y) = Ok y).
  { intros x y z E. unfold o. rewrite enc_stat_eq, E, <- !app_assoc.
    replace (pre ++ be 2 (stat_t s) ++ be 2 (N.of_nat (length (x ++ y ++ z))) ++ x ++ y ++ z ++ enc_stats l ++ rest)
      with ((pre ++ be 2 (stat_t s) ++ be 2 (N.of_nat (length (x ++ y ++ z))) ++ x) ++ y ++ (z ++ enc_stats l ++ rest))
      by (now rewrite <- !app_assoc).
    apply slice_app3; rewrite ?app_length, ?be_length; lia. }
  rewrite S1. cbn [bind]. rewrite S2. cbn [bind]. rewrite (unbe_be 2 (stat_t s)) by exact Ht.
  rewrite (unbe_be 2 (N.of_nat (length (stat_payload s)))) by exact Hl.
  rewrite enc_stat_length in Hrec.
  destruct s as [t v|t v|t a sf v|t pl]; cbn [stat_wf stat_t stat_payload stat_of] in *.
  - destruct Hs as (_ & K & Hv). rewrite be_length. change (N.of_nat 4) with 4. rewrite K. cbn [N.eqb Pos.eqb].
    pose proof (SP [] (be 4 v) [] ltac:(now rewrite app_nil_r)) as S3. rewrite be_length in S3. cbn [length] in S3.
    rewrite Nat.add_0_r in S3. replace (length pre + 4 + 4)%nat with (length pre + 8)%nat in S3 by lia.
    rewrite S3. cbn [bind]. rewrite unbe_be by exact Hv. rewrite be_length in Hrec.
    replace (length pre + 8)%nat with (length pre + (4 + 4))%nat by lia. rewrite Hrec. reflexivity.
  - destruct Hs as (_ & K & Hv). rewrite be_length. change (N.of_nat 8) with 8. rewrite K. cbn [N.eqb Pos.eqb].
    pose proof (SP [] (be 8 v) [] ltac:(now rewrite app_nil_r)) as S3. rewrite be_length in S3. cbn [length] in S3.
    rewrite Nat.add_0_r in S3. replace (length pre + 4 + 8)%nat with (length pre + 12)%nat in S3 by lia.
    rewrite S3. cbn [bind]. rewrite unbe_be by exact Hv. rewrite be_length in Hrec.
    replace (length pre + 12)%nat with (length pre + (4 + 8))%nat by lia. rewrite Hrec. reflexivity.
  - destruct Hs as (_ & K & Ha & Hsf & Hv). rewrite !app_length, !be_length. cbn [length Nat.add]. change (N.of_nat 11) with 11.
    rewrite K. cbn [N.eqb Pos.eqb].
    pose proof (SP [] (be 2 a) ([sf] ++ be 8 v) eq_refl) as S3. rewrite be_length in S3. cbn [length] in S3.
    rewrite Nat.add_0_r in S3. replace (length pre + 4 + 2)%nat with (length pre + 6)%nat in S3 by lia.
    rewrite S3. cbn [bind].
    assert (S4 : index o (length pre + 6) = Ok sf).
    { unfold o. cbn [enc_stat]. rewrite <- !app_assoc.
      replace (pre ++ be 2 t ++ be 2 11 ++ be 2 a ++ [sf] ++ be 8 v ++ enc_stats l ++ rest)
        with ((pre ++ be 2 t ++ be 2 11 ++ be 2 a) ++ sf :: (be 8 v ++ enc_stats l ++ rest)) by (now rewrite <- !app_assoc).
      apply index_app3. rewrite !app_length, !be_length. lia. }
    rewrite S4. cbn [bind].
    pose proof (SP (be 2 a ++ [sf]) (be 8 v) [] ltac:(now rewrite <- !app_assoc, app_nil_r)) as S5.
    rewrite app_length, !be_length in S5. cbn [length] in S5.
    replace (length pre + 4 + (2 + 1))%nat with (length pre + 7)%nat in S5 by lia.
    replace (length pre + 7 + 8)%nat with (length pre + 15)%nat in S5 by lia.
    rewrite S5. cbn [bind]. rewrite (unbe_be 2 a) by exact Ha. rewrite (unbe_be 8 v) by exact Hv.
    rewrite !app_length, !be_length in Hrec. cbn [length Nat.add] in Hrec.
    rewrite Hrec. reflexivity.
  - destruct Hs as (_ & _ & K & _). rewrite K. cbn [N.eqb Pos.eqb]. rewrite Nat2N.id.
    replace (length pre + 4 + length pl)%nat with (length pre + (4 + length pl))%nat by lia. rewrite Hrec. reflexivity.
Qed.

Lemma enc_stats_count l : (length l <= length (enc_stats l))%nat.
Proof. induction l as [|s l IH]; [cbn; lia|]. cbn [enc_stats flat_map length]. rewrite app_length, enc_stat_length. fold (enc_stats l). lia. Qed.

Lemma firstn_app_len {A} (x y : list A) n : n = length x -> firstn n (x ++ y) = x.
Proof. intros ->. rewrite firstn_app, Nat.sub_diag, firstn_all. cbn [firstn]. apply app_nil_r. Qed.
Lemma skipn_app_len {A} (x y : list A) n : n = length x -> skipn n (x ++ y) = y.
Proof. intros ->. rewrite skipn_app, Nat.sub_diag, skipn_all. reflexivity. Qed.

Lemma c15_stats_faithful_proof h l : pph_wf h -> Forall stat_wf l -> N.of_nat (length l) < 2 ^ 32 ->
  let b := enc_common 1 (h ++ be 4 (N.of_nat (length l)) ++ enc_stats l) in
  N.of_nat (length b) < 2 ^ 32 ->
  bmp_from_octets b = Ok KStatisticsReport /\ a_pph b = Ok h /\
  a_stats_count b = Ok (N.of_nat (length l)) /\ a_stats b = Ok (map stat_of l).
Proof.
  intros Hh Hw Hc b Hl. pose proof Hh as (Lh & _ & _).
  assert (Lb : length b = (6 + length (h ++ be 4 (N.of_nat (length l)) ++ enc_stats l))%nat) by apply enc_common_length.
  assert (Sk : skipn 6 b = h ++ be 4 (N.of_nat (length l)) ++ enc_stats l) by apply skipn_enc_common.
  assert (Lbody : (46 <= length (h ++ be 4 (N.of_nat (length l)) ++ enc_stats l))%nat) by (rewrite !app_length, be_length; lia).
  assert (Hpph : a_pph b = Ok h).
  { unfold a_pph, COFF. rewrite slice_ok by lia. f_equal. rewrite Sk. replace (48 - 6)%nat with (length h) by (rewrite Lh; reflexivity).
    rewrite firstn_app, Nat.sub_diag, firstn_all. cbn [firstn]. apply app_nil_r. }
  assert (Sk48 : skipn COFF b = be 4 (N.of_nat (length l)) ++ enc_stats l).
  { unfold COFF. replace 48%nat with (42 + 6)%nat by reflexivity. rewrite <- skipn_skipn, Sk. apply skipn_app_len. now rewrite Lh. }
  assert (Hcount : a_stats_count b = Ok (N.of_nat (length l))).
  { unfold a_stats_count. rewrite slice_ok by (unfold COFF; lia). cbn [bind]. replace (COFF + 4 - COFF)%nat with 4%nat by lia.
    rewrite Sk48, firstn_app_len by (now rewrite be_length). now rewrite unbe_be. }
  split; [|split; [exact Hpph|split; [exact Hcount|]]].
  - apply kind_enc; [reflexivity|]. cbn [kind_check]. unfold stats_check_msg.
    rewrite ch_check_enc by (try lia; rewrite <- Lb; exact Hl). cbn [bind].
    rewrite pph_check_enc by exact Hh. cbn [bind]. rewrite (parse_be_app 4) by exact Hc. cbn [bind].
    assert (Hlt : (N.of_nat (S (length (enc_common 1 (h ++ be 4 (N.of_nat (length l)) ++ enc_stats l)))) <? N.of_nat (length l)) = false).
    { apply N.ltb_ge. fold b. rewrite Lb, !app_length.
      pose proof (enc_stats_count l). lia. }
    rewrite Hlt, Nat2N.id. rewrite <- (app_nil_r (enc_stats l)). apply stats_check_enc. exact Hw.
  - unfold a_stats. rewrite Hcount. cbn [bind]. rewrite slice_from_ok by (unfold COFF; lia). cbn [bind].
    rewrite N.min_l by (pose proof (enc_stats_count l); rewrite Lb, !app_length; lia). rewrite Nat2N.id.
    replace (COFF + 4)%nat with (4 + COFF)%nat by lia. rewrite <- skipn_skipn, Sk48.
    rewrite skipn_app_len by (now rewrite be_length).
    pose proof (stat_iter_enc l [] [] Hw) as I. cbn [List.app length] in I. rewrite app_nil_r in I. exact I.
Qed.

(* ---- messages with a per-peer header: layout *)
Lemma pph_layout typ h rest : pph_wf h -> N.of_nat (6 + length (h ++ rest)) < 2 ^ 32 -> typ <= 6 ->
  let b := enc_common typ (h ++ rest) in
  a_pph b = Ok h /\ skipn COFF b = rest /\ length b = (COFF + length rest)%nat /\
  ch_check (parser_of b) = Ok (mkP (h ++ rest) 6) /\ pph_check (mkP (h ++ rest) 6) = Ok (mkP rest COFF).
Proof.
  intros Hh Hl Ht b. pose proof Hh as (Lh & _ & _).
  assert (Lb : length b = (6 + length (h ++ rest))%nat) by apply enc_common_length.
  assert (Sk : skipn 6 b = h ++ rest) by apply skipn_enc_common. rewrite app_length in Lb.
  split.
  { unfold a_pph, COFF. rewrite slice_ok by lia. f_equal. rewrite Sk. apply firstn_app_len. now rewrite Lh. }
  split.
  { unfold COFF. replace 48%nat with (42 + 6)%nat by reflexivity. rewrite <- skipn_skipn, Sk. apply skipn_app_len. now rewrite Lh. }
  split; [unfold COFF; lia|]. split; [apply ch_check_enc; assumption|]. rewrite pph_check_enc by exact Hh. reflexivity.
Qed.

Lemma c15_rm_faithful_proof h u cfg : pph_wf h -> N.of_nat (6 + length (h ++ u)) < 2 ^ 32 ->
  let b := enc_common 0 (h ++ u) in
  bmp_from_octets b = Ok KRouteMonitoring /\ a_pph b = Ok h /\ a_bgp_update b cfg = parse_update cfg u.
Proof.
  intros Hh Hl b. destruct (pph_layout 0 h u Hh Hl ltac:(lia)) as (P & S & L & C1 & C2). fold b in P, S, L, C1.
  split; [|split; [exact P|]].
  - apply kind_enc; [reflexivity|]. cbn [kind_check]. unfold rm_check. fold b. rewrite C1. cbn [bind]. rewrite C2. reflexivity.
  - unfold a_bgp_update. rewrite adv_parser_of by lia. cbn [unwrap_res bind]. now rewrite S.
Qed.

Lemma c15_mirror_faithful_proof h rest : pph_wf h -> N.of_nat (6 + length (h ++ rest)) < 2 ^ 32 ->
  let b := enc_common 6 (h ++ rest) in
  bmp_from_octets b = Ok KRouteMirroring /\ a_pph b = Ok h.
Proof.
  intros Hh Hl b. destruct (pph_layout 6 h rest Hh Hl ltac:(lia)) as (P & S & L & C1 & C2). fold b in P, S, L, C1.
  split; [|exact P].
  apply kind_enc; [reflexivity|]. cbn [kind_check]. unfold mirror_check. fold b. rewrite C1. cbn [bind]. rewrite C2. reflexivity.
Qed.

(* ---- Peer Down *)
(* a NOTIFICATION as the BGP side builds it *)
Definition enc_notif (code sub : N) (data : bytes) : bytes := bgp_header (N.of_nat (21 + length data)) 3 ++ [code; sub] ++ data.

Lemma enc_notif_length code sub data : length (enc_notif code sub data) = (21 + length data)%nat.
Proof. unfold enc_notif, bgp_header. rewrite !app_length, be_length. cbn. lia. Qed.

Lemma marker_check_app' rest pos : marker_check (mkP (marker ++ rest) pos) = Ok (mkP rest (pos + 16)).
Proof.
  unfold marker_check. rewrite take_app' by reflexivity. cbn [bind].
  replace (beq_bytes marker marker) with true by (vm_compute; reflexivity). reflexivity.
Qed.

Lemma notif_parse_enc code sub data rest pos : N.of_nat (21 + length data) < 65536 ->
  notif_parse (mkP (enc_notif code sub data ++ rest) pos) = Ok (enc_notif code sub data, mkP rest (pos + length (enc_notif code sub data))).
Proof.
  intros Hl. unfold notif_parse, header_parse.
  assert (E : enc_notif code sub data ++ rest = marker ++ be 2 (N.of_nat (21 + length data)) ++ [3] ++ [code] ++ [sub] ++ data ++ rest).
  { unfold enc_notif, bgp_header. now rewrite <- !app_assoc. }
  rewrite E at 1. rewrite marker_check_app'. cbn [bind]. rewrite be2 by exact Hl. cbn [bind].
  cbn [List.app]. rewrite !parse_u8_app. cbn [bind].
  assert (Hge : (N.of_nat (21 + length data) <? 21) = false) by (apply N.ltb_ge; lia). rewrite Hge, Nat2N.id.
  apply take_app'. now rewrite enc_notif_length.
Qed.

Lemma c15_pd_faithful_proof h reason tail : pph_wf h -> N.of_nat (6 + length (h ++ [reason] ++ tail)) < 2 ^ 32 -> reason < 256 ->
  let b := enc_common 2 (h ++ [reason] ++ tail) in
  (* 1 / 3 without data, 1 / 3 with a NOTIFICATION, 2 with an FSM event code, anything else *)
  (((reason = 1 \/ reason = 3) /\ tail = []) \/
   ((reason = 1 \/ reason = 3) /\ exists code sub data, tail = enc_notif code sub data /\ N.of_nat (21 + length data) < 65536) \/
   (reason = 2 /\ exists ev, tail = be 2 ev /\ ev < 65536) \/
   (reason <> 1 /\ reason <> 2 /\ reason <> 3)) ->
  bmp_from_octets b = Ok KPeerDown /\ a_pph b = Ok h /\ a_pd_reason b = Ok reason /\
  a_pd_notification b = Ok (if ((reason =? 1) || (reason =? 3)) && negb (Nat.eqb (length tail) 0) then Some tail else None) /\
  a_pd_fsm b = Ok (if reason =? 2 then Some (unbe tail) else None).
Proof.
  intros Hh Hl Hr b Hcase. assert (HC : COFF = 48%nat) by reflexivity.
  destruct (pph_layout 2 h ([reason] ++ tail) Hh Hl ltac:(lia)) as (P & Sk & L & C1 & C2). fold b in P, Sk, L, C1.
  assert (Hreason : a_pd_reason b = Ok reason).
  { unfold a_pd_reason, index. rewrite <- (firstn_skipn COFF b), Sk. rewrite nth_error_app2 by (rewrite firstn_length; lia).
    rewrite firstn_length, Nat.min_l, Nat.sub_diag by lia. reflexivity. }
  assert (Hlen : a_msg_length b = Ok (N.of_nat (length b))).
  { unfold a_msg_length. rewrite slice_ok by lia. cbn [bind]. f_equal. unfold b. rewrite enc_common_length.
    apply enc_common_len_field. exact Hl. }
  assert (A49 : advance (COFF + 1) (parser_of b) = Ok (mkP tail (COFF + 1))).
  { rewrite adv_parser_of by (cbn [List.app length] in L; lia). f_equal. f_equal.
    replace (COFF + 1)%nat with (1 + COFF)%nat by lia. now rewrite <- skipn_skipn, Sk. }
  cbn [List.app length] in L.
  assert (Hacc : kind_check KPeerDown b = Ok tt ->  bmp_from_octets b = Ok KPeerDown) by (intros X; apply kind_enc; [reflexivity|exact X]).
  cbn [kind_check] in Hacc. unfold pd_check in Hacc. rewrite C1 in Hacc. cbn [bind] in Hacc. rewrite C2 in Hacc. cbn [bind List.app] in Hacc.
  rewrite parse_u8_app in Hacc. cbn [bind] in Hacc. unfold remaining in Hacc. cbn [p_rest] in Hacc.
  unfold a_pd_notification, a_pd_fsm. rewrite Hreason, Hlen. cbn [bind]. rewrite Nat2N.id, L.
  destruct Hcase as [[Hr13 Ht]|[[Hr13 (code & sub & data & Ht & Hd)]|[[Hr2 (ev & Ht & Hev)]|(N1 & N2 & N3)]]].
  - subst tail. assert (E13 : (reason =? 1) || (reason =? 3) = true) by (destruct Hr13; subst; reflexivity).
    rewrite E13 in *. cbn [length Nat.eqb] in *. assert (E2 : (reason =? 2) = false) by (destruct Hr13; subst; reflexivity).
    rewrite E2, Nat.eqb_refl. cbn [andb negb]. repeat split; auto.
  - subst tail. assert (E13 : (reason =? 1) || (reason =? 3) = true) by (destruct Hr13; subst; reflexivity).
    rewrite E13 in *. assert (E2 : (reason =? 2) = false) by (destruct Hr13; subst; reflexivity). rewrite E2.
    assert (Ln : Nat.eqb (length (enc_notif code sub data)) 0 = false) by (rewrite enc_notif_length; reflexivity).
    rewrite Ln in *. cbn [andb negb].
    assert (Ne : Nat.eqb (COFF + 1) (COFF + S (length (enc_notif code sub data))) = false) by (apply Nat.eqb_neq; rewrite enc_notif_length; lia).
    rewrite Ne, A49. cbn [unwrap_res bind].
    pose proof (notif_parse_enc code sub data [] (COFF + 1) Hd) as NP. rewrite app_nil_r in NP.
    split; [apply Hacc; replace (S COFF) with (COFF + 1)%nat by lia; rewrite NP; reflexivity|].
    rewrite NP. repeat split; auto.
  - subst tail reason. cbn [N.eqb Pos.eqb orb andb] in *. rewrite be_length in *.
    split; [apply Hacc; rewrite <- (app_nil_r (be 2 ev)), adv_app by (now rewrite be_length); reflexivity|].
    split; [exact P|]. split; [reflexivity|]. split; [reflexivity|].
    rewrite slice_ok by lia.
    replace (COFF + 3 - (COFF + 1))%nat with (length (be 2 ev)) by (rewrite be_length; lia).
    replace (COFF + 1)%nat with (1 + COFF)%nat by lia. rewrite <- skipn_skipn, Sk. cbn [skipn List.app]. rewrite firstn_all. reflexivity.
  - assert (E1 : (reason =? 1) = false) by (now apply N.eqb_neq). assert (E3 : (reason =? 3) = false) by (now apply N.eqb_neq).
    assert (E2 : (reason =? 2) = false) by (now apply N.eqb_neq). rewrite E1, E2, E3 in *. cbn [orb andb] in *. repeat split; auto.
Qed.

(* ---- Peer Up: parametric in the two embedded OPEN messages being accepted by OpenMessage::parse *)
Definition open_ok (o : bytes) : Prop :=
  forall rest pos, open_parse (mkP (o ++ rest) pos) = Ok (o, mkP rest (pos + length o)).

Lemma slice_skipn (b : bytes) k lo hi : (k <= length b)%nat -> slice b (k + lo) (k + hi) = slice (skipn k b) lo hi.
Proof.
  intros Hk. unfold slice. rewrite skipn_length, skipn_skipn.
  replace (Nat.leb (k + lo) (k + hi)) with (Nat.leb lo hi)
    by (destruct (Nat.leb lo hi) eqn:E; symmetry; [apply Nat.leb_le; apply Nat.leb_le in E; lia|apply Nat.leb_gt; apply Nat.leb_gt in E; lia]).
  replace (Nat.leb (k + hi) (length b)) with (Nat.leb hi (length b - k))
    by (destruct (Nat.leb hi (length b - k)) eqn:E; symmetry; [apply Nat.leb_le; apply Nat.leb_le in E; lia|apply Nat.leb_gt; apply Nat.leb_gt in E; lia]).
  replace (k + hi - (k + lo))%nat with (hi - lo)%nat by lia. replace (lo + k)%nat with (k + lo)%nat by lia. reflexivity.
Qed.

Lemma slice_app_front (x rest : bytes) hi : hi = length x -> slice (x ++ rest) 0 hi = Ok x.
Proof. intros ->. apply (slice_app3 [] x rest); reflexivity. Qed.

Lemma c15_pu_faithful_proof h la lp rp s r tl :
  pph_wf h -> length la = 16%nat -> lp < 65536 -> rp < 65536 -> open_ok s -> open_ok r -> Forall tlv_wf tl ->
  let body := h ++ la ++ be 2 lp ++ be 2 rp ++ s ++ r ++ enc_tlvs tl in
  N.of_nat (6 + length body) < 2 ^ 32 ->
  let b := enc_common 3 body in
  bmp_from_octets b = Ok KPeerUp /\ a_pph b = Ok h /\
  a_pu_local_address b = Ok (if forallb (N.eqb 0) (firstn 12 la) then (false, skipn 12 la) else (true, la)) /\
  a_pu_local_port b = Ok lp /\ a_pu_remote_port b = Ok rp /\
  a_pu_open_sent b = Ok s /\ a_pu_open_rcvd b = Ok r /\ a_pu_information_tlvs b = Ok tl.
Proof.
  intros Hh Lla Hlp Hrp Hs Hr Htl body Hl b. subst body. assert (HC : COFF = 48%nat) by reflexivity.
  set (rest := la ++ be 2 lp ++ be 2 rp ++ s ++ r ++ enc_tlvs tl) in *.
  destruct (pph_layout 3 h rest Hh Hl ltac:(lia)) as (P & Sk & L & C1 & C2). fold b in P, Sk, L, C1.
  assert (Lrest : length rest = (20 + length s + length r + length (enc_tlvs tl))%nat)
    by (unfold rest; rewrite !app_length, !be_length; lia).
  assert (Sl : forall lo hi, slice b (COFF + lo) (COFF + hi) = slice rest lo hi) by (intros; rewrite slice_skipn by lia; now rewrite Sk).
  assert (Sk68 : skipn (COFF + 20) b = s ++ r ++ enc_tlvs tl).
  { replace (COFF + 20)%nat with (20 + COFF)%nat by lia. rewrite <- skipn_skipn, Sk. unfold rest.
    replace (la ++ be 2 lp ++ be 2 rp ++ s ++ r ++ enc_tlvs tl) with ((la ++ be 2 lp ++ be 2 rp) ++ s ++ r ++ enc_tlvs tl)
      by (now rewrite <- !app_assoc).
    apply skipn_app_len. rewrite !app_length, !be_length. lia. }
  assert (A68 : advance (COFF + 20) (parser_of b) = Ok (mkP (s ++ r ++ enc_tlvs tl) (COFF + 20))).
  { rewrite adv_parser_of by lia. now rewrite Sk68. }
  pose proof (Hs (r ++ enc_tlvs tl) (COFF + 20)%nat) as Os. pose proof (Hr (enc_tlvs tl) (COFF + 20 + length s)%nat) as Or.
  assert (Eopens : a_pu_opens b = Ok (s, r, mkP (enc_tlvs tl) (COFF + 20 + length s + length r))).
  { unfold a_pu_opens. rewrite A68. cbn [unwrap_res bind]. rewrite Os. cbn [unwrap_res bind]. rewrite Or. reflexivity. }
  assert (Esent : a_pu_open_sent b = Ok s).
  { unfold a_pu_open_sent. rewrite A68. cbn [unwrap_res bind]. rewrite Os. reflexivity. }
  split.
  { apply kind_enc; [reflexivity|]. cbn [kind_check]. unfold pu_check. fold b. rewrite C1. cbn [bind]. rewrite C2. cbn [bind].
    unfold rest. replace (la ++ be 2 lp ++ be 2 rp ++ s ++ r ++ enc_tlvs tl) with ((la ++ be 2 lp ++ be 2 rp) ++ s ++ r ++ enc_tlvs tl)
      by (now rewrite <- !app_assoc).
    rewrite adv_app by (rewrite !app_length, !be_length; lia). cbn [bind]. rewrite Os. cbn [bind]. rewrite Or. cbn [bind].
    apply tlvs_check_enc; [exact Htl|]. unfold remaining. cbn [p_rest]. pose proof (enc_tlvs_count tl). lia. }
  split; [exact P|]. split.
  { unfold a_pu_local_address. replace COFF with (COFF + 0)%nat at 1 by lia. rewrite Sl.
    assert (S1 : slice rest 0 12 = Ok (firstn 12 la)).
    { unfold rest. rewrite <- (firstn_skipn 12 la) at 1. rewrite <- app_assoc.
      apply slice_app_front. rewrite firstn_length; lia. }
    rewrite S1. cbn [bind]. destruct (forallb (N.eqb 0) (firstn 12 la)).
    - rewrite Sl. unfold rest. rewrite <- (firstn_skipn 12 la) at 1. rewrite <- app_assoc.
      rewrite (slice_app3 (firstn 12 la) (skipn 12 la)); [reflexivity|rewrite firstn_length; lia|rewrite ?firstn_length, ?skipn_length; lia].
    - replace COFF with (COFF + 0)%nat at 1 by lia. rewrite Sl. unfold rest.
      rewrite slice_app_front by lia. reflexivity. }
  split.
  { unfold a_pu_local_port. rewrite Sl. unfold rest. rewrite (slice_app3 la (be 2 lp)); [cbn [bind]; now rewrite unbe_be|lia|rewrite be_length; lia]. }
  split.
  { unfold a_pu_remote_port. rewrite Sl. unfold rest.
    replace (la ++ be 2 lp ++ be 2 rp ++ s ++ r ++ enc_tlvs tl) with ((la ++ be 2 lp) ++ be 2 rp ++ (s ++ r ++ enc_tlvs tl))
      by (now rewrite <- !app_assoc).
    rewrite (slice_app3 (la ++ be 2 lp) (be 2 rp)); [cbn [bind]; now rewrite unbe_be|rewrite app_length, be_length; lia|rewrite be_length; lia]. }
  split; [exact Esent|]. split.
  { unfold a_pu_open_rcvd. rewrite Esent. cbn [bind]. rewrite adv_parser_of by lia. cbn [unwrap_res bind].
    replace (COFF + 20 + length s)%nat with (length s + (COFF + 20))%nat at 1 by lia.
    rewrite <- skipn_skipn, Sk68, skipn_app_len by reflexivity. rewrite Or. reflexivity. }
  unfold a_pu_information_tlvs. rewrite Eopens. cbn [bind p_pos]. rewrite slice_from_ok by lia. cbn [bind].
  assert (Sk3 : skipn (COFF + 20 + length s + length r) b = enc_tlvs tl).
  { replace (COFF + 20 + length s + length r)%nat with (length (s ++ r) + (COFF + 20))%nat by (rewrite app_length; lia).
    rewrite <- skipn_skipn, Sk68, app_assoc. apply skipn_app_len. reflexivity. }
  rewrite Sk3. apply (tlv_iter_enc tl []); [exact Htl|]. pose proof (enc_tlvs_count tl). lia.
Qed.

(* the hypothesis is satisfiable: an OPEN without optional parameters is accepted wherever it stands *)
Lemma open_ok_plain a1 a2 h1 h2 i1 i2 i3 i4 :
  open_ok (bgp_header 29 1 ++ [4; a1; a2; h1; h2; i1; i2; i3; i4; 0]).
Proof.
  intros rest pos. unfold open_parse, header_parse, bgp_header. rewrite <- !app_assoc.
  rewrite marker_check_app'. cbn [bind]. rewrite be2 by reflexivity. cbn [bind]. cbn [List.app]. rewrite parse_u8_app. cbn [bind].
  change (4 :: a1 :: a2 :: h1 :: h2 :: i1 :: i2 :: i3 :: i4 :: 0 :: rest) with ([4; a1; a2; h1; h2; i1; i2; i3; i4] ++ 0 :: rest).
  rewrite adv_app by reflexivity. cbn [bind]. rewrite parse_u8_app. cbn [bind]. change (N.to_nat 0) with 0%nat.
  assert (Hlt : Nat.ltb (remaining (mkP rest (S (S (pos + 16 + 2) + 9)))) 0 = false) by (apply Nat.ltb_ge; lia). rewrite Hlt.
  cbn [open_params Nat.eqb bind p_pos].
  assert (Heq : Nat.eqb (S (S (pos + 16 + 2) + 9) - pos) (N.to_nat 29) = true) by (apply Nat.eqb_eq; change (N.to_nat 29) with 29%nat; lia).
  rewrite Heq. cbn [negb].
  change (N.to_nat 29) with (length (marker ++ be 2 29 ++ [1; 4; a1; a2; h1; h2; i1; i2; i3; i4; 0])).
  change (marker ++ be 2 29 ++ 1 :: [4; a1; a2; h1; h2; i1; i2; i3; i4] ++ 0 :: rest)
    with ((marker ++ be 2 29 ++ [1; 4; a1; a2; h1; h2; i1; i2; i3; i4; 0]) ++ rest).
  rewrite take_app. reflexivity.
Qed.

Lemma c15_accessors_safe_proof b k : bmp_from_octets b = Ok k ->
  match k with
  | KRouteMonitoring => forall cfg, a_bgp_update b cfg <> Panic /\ a_bgp_update b cfg = parse_update cfg (skipn COFF b)
  | KStatisticsReport => is_ok (a_stats_count b) /\ is_ok (a_stats b)
  | KPeerDown => is_ok (a_pd_reason b) /\ is_ok (a_pd_notification b) /\ is_ok (a_pd_fsm b)
  | KPeerUp => is_ok (a_pu_local_address b) /\ is_ok (a_pu_local_port b) /\ is_ok (a_pu_remote_port b) /\
               is_ok (a_pu_opens b) /\ is_ok (a_pu_open_sent b) /\ is_ok (a_pu_open_rcvd b) /\ is_ok (a_pu_information_tlvs b) /\
               (forall s r p, a_pu_opens b = Ok (s, r, p) -> a_pu_open_sent b = Ok s /\ a_pu_open_rcvd b = Ok r)
  | KInitiation => is_ok (a_init_tlvs b)
  | KTermination => is_ok (a_term_information b)
  | KRouteMirroring => True
  end.
Proof.
  intros H. destruct k.
  - intros cfg. now apply c15_rm_safe_proof.
  - now apply c15_sr_safe_proof.
  - now apply c15_pd_safe_proof.
  - now apply c15_pu_safe_proof.
  - now apply c15_init_safe_proof.
  - now apply c15_term_safe_proof.
  - exact I.
Qed.

(* ---- the dispatch of the model is the MessageType table of the source *)
From RC Require Import Gen.BmpPins.
Definition kind_of_mt (m : bmp_msg_type) : bmp_kind :=
  match m with
  | MTRouteMonitoring => KRouteMonitoring | MTStatisticsReport => KStatisticsReport | MTPeerDownNotification => KPeerDown
  | MTPeerUpNotification => KPeerUp | MTInitiationMessage => KInitiation | MTTerminationMessage => KTermination
  | MTRouteMirroring => KRouteMirroring
  end.
Fixpoint mt_lookup (l : list (N * bmp_msg_type)) (t : N) : option bmp_msg_type :=
  match l with [] => None | (k, m) :: tl => if t =? k then Some m else mt_lookup tl t end.

Lemma c15_dispatch_table_proof : (forall t, kind_of t = option_map kind_of_mt (mt_lookup bmp_msg_types t)) /\ COFF = bmp_coff.
Proof.
  split; [|reflexivity]. intros t. unfold kind_of, bmp_msg_types. cbn [mt_lookup].
  repeat match goal with |- context [t =? ?k] => destruct (t =? k) eqn:?; [reflexivity|] end. reflexivity.
Qed.
