From Coq Require Import List NArith Bool Lia.
From RC Require Import Base.Res Base.Lex Gen.CmpChain Model.Select Proofs.LexProofs.
Import ListNotations.
Open Scope N_scope.

(* the reference decision as one TP-composable comparison *)
Definition pre_c (a b : route) : comparison :=
  then_cmp (N.compare (dop b) (dop a))
   (then_cmp (N.compare (hop_count_ps (opt_or (r_path a) [])) (hop_count_ps (opt_or (r_path b) [])))
             (N.compare (opt_or (r_origin a) 0) (opt_or (r_origin b) 0))).
Definition post_c (a b : route) : comparison :=
  then_cmp (cmp_bool (r_ibgp a) (r_ibgp b))
   (then_cmp (N.compare (opt_or (r_originator a) (r_bgp_id a)) (opt_or (r_originator b) (r_bgp_id b)))
    (then_cmp (N.compare (opt_or (r_cluster_len a) 0) (opt_or (r_cluster_len b) 0))
     (then_cmp (cmp_bool (fst (r_peer a)) (fst (r_peer b))) (N.compare (snd (r_peer a)) (snd (r_peer b)))))).
Definition med_c (s : strat) (a b : route) : comparison := step_c s a b.
Definition decide (s : strat) (a b : route) : comparison :=
  then_cmp (pre_c a b) (then_cmp (med_c s a b) (post_c a b)).

Lemma then_cmp_assoc a b c : then_cmp (then_cmp a b) c = then_cmp a (then_cmp b c).
Proof. destruct a; reflexivity. Qed.

Lemma cmp_bool_num (x y : bool) : N.compare (if x then 1 else 0) (if y then 1 else 0) = cmp_bool x y.
Proof. destruct x, y; reflexivity. Qed.

(* the independent reference (key vectors, RFC order) is [decide] *)
Lemma rfc_decide_decide s a b : rfc_decide s a b = decide s a b.
Proof.
  unfold rfc_decide, decide, pre_c, post_c, med_c, ref_keys, ref_keys_tail, step_c. cbn [lex].
  rewrite !cmp_bool_num.
  rewrite <- (N.compare_antisym (dop a) (dop b)).
  replace (then_cmp (N.compare (opt_or (r_origin a) 0) (opt_or (r_origin b) 0)) Eq)
    with (N.compare (opt_or (r_origin a) 0) (opt_or (r_origin b) 0)) by (destruct (N.compare _ _); reflexivity).
  replace (then_cmp (N.compare (snd (r_peer a)) (snd (r_peer b))) Eq)
    with (N.compare (snd (r_peer a)) (snd (r_peer b))) by (destruct (N.compare _ _); reflexivity).
  rewrite !then_cmp_assoc. reflexivity.
Qed.

(* the generated chain order is the one this development was proved for; if the source
   reorders the steps this lemma (and everything below) fails to check *)
Lemma chain_is : cmp_chain = [StepA; StepB; StepC; StepD; StepE; StepF; StepF2; StepG; StepEnd].
Proof. reflexivity. Qed.

Lemma c10_ref_proof s a b :
  eligible a = true -> eligible b = true -> cmp_route s a b = Ok (rfc_decide s a b).
Proof.
  intros Ea Eb. rewrite rfc_decide_decide. unfold cmp_route, decide, pre_c, post_c, med_c. rewrite chain_is.
  unfold eligible in Ea, Eb.
  destruct (r_origin a) as [oa|] eqn:Oa; [|discriminate]. destruct (r_path a) as [pa|] eqn:Pa; [|discriminate].
  destruct (r_origin b) as [ob|] eqn:Ob; [|discriminate]. destruct (r_path b) as [pb|] eqn:Pb; [|discriminate].
  cbn [opt_or].
  destruct (N.compare (dop b) (dop a)); cbn [then_cmp]; try reflexivity.
  cbn [run_chain run_step]. rewrite Pa, Pb, Oa, Ob.
  destruct (N.compare (hop_count_ps pa) (hop_count_ps pb)); cbn [then_cmp]; try reflexivity.
  destruct (N.compare oa ob); cbn [then_cmp]; try reflexivity.
  destruct (step_c s a b); cbn [then_cmp]; try reflexivity.
  destruct (cmp_bool (r_ibgp a) (r_ibgp b)); cbn [then_cmp]; try reflexivity.
  destruct (N.compare (opt_or (r_originator a) (r_bgp_id a)) (opt_or (r_originator b) (r_bgp_id b))); cbn [then_cmp]; try reflexivity.
  destruct (N.compare (opt_or (r_cluster_len a) 0) (opt_or (r_cluster_len b) 0)); cbn [then_cmp]; try reflexivity.
  unfold cmp_peer, then_cmp.
  destruct (cmp_bool (fst (r_peer a)) (fst (r_peer b))); try reflexivity.
  destruct (N.compare (snd (r_peer a)) (snd (r_peer b))); reflexivity.
Qed.

(* ---- SkipMed: total preorder ---- *)
Lemma tp_pre : TP pre_c.
Proof.
  unfold pre_c. apply tp_then; [apply (tp_key_rev dop)|].
  apply tp_then; [apply (tp_key (fun r => hop_count_ps (opt_or (r_path r) [])))|apply (tp_key (fun r => opt_or (r_origin r) 0))].
Qed.

Lemma tp_post : TP post_c.
Proof.
  unfold post_c. apply tp_then; [apply (tp_bool r_ibgp)|].
  apply tp_then; [apply (tp_key (fun r => opt_or (r_originator r) (r_bgp_id r)))|].
  apply tp_then; [apply (tp_key (fun r => opt_or (r_cluster_len r) 0))|].
  apply tp_then; [apply (tp_bool (fun r => fst (r_peer r)))|apply (tp_key (fun r => snd (r_peer r)))].
Qed.

Lemma tp_decide_skipmed : TP (decide SkipMed).
Proof.
  unfold decide. apply tp_then; [apply tp_pre|]. apply tp_then; [apply tp_const|apply tp_post].
Qed.

Lemma anti_decide s : Anti (decide s).
Proof.
  unfold decide. apply anti_then; [exact (tp_anti _ tp_pre)|]. apply anti_then; [|exact (tp_anti _ tp_post)].
  intros a b. unfold med_c, step_c. destruct s; [|reflexivity].
  rewrite (N.eqb_sym (neighbor_or_local b)). destruct (_ =? _); [apply N.compare_antisym|reflexivity].
Qed.

Section Weak.
  Variables a b c : route.
  Hypothesis Ea : eligible a = true.
  Hypothesis Eb : eligible b = true.
  Hypothesis Ec : eligible c = true.
  Let cmp := cmp_route SkipMed.

  Lemma skipmed_refl : cmp a a = Ok Eq.
  Proof. unfold cmp. rewrite c10_ref_proof, rfc_decide_decide by assumption. f_equal. apply (tp_refl _ tp_decide_skipmed). Qed.

  Lemma skipmed_trans : cmp a b = Ok Lt -> cmp b c = Ok Lt -> cmp a c = Ok Lt.
  Proof.
    unfold cmp. rewrite !c10_ref_proof, !rfc_decide_decide by assumption. intros H1 H2.
    injection H1 as H1. injection H2 as H2. f_equal. eapply (tp_lt_lt _ tp_decide_skipmed); eassumption.
  Qed.

  Lemma skipmed_incomp_trans : cmp a b = Ok Eq -> cmp b c = Ok Eq -> cmp a c = Ok Eq.
  Proof.
    unfold cmp. rewrite !c10_ref_proof, !rfc_decide_decide by assumption. intros H1 H2.
    injection H1 as H1. injection H2 as H2. f_equal. eapply (tp_eq_eq _ tp_decide_skipmed); eassumption.
  Qed.

  Lemma skipmed_eq_lt : cmp a b = Ok Eq -> cmp b c = Ok Lt -> cmp a c = Ok Lt.
  Proof.
    unfold cmp. rewrite !c10_ref_proof, !rfc_decide_decide by assumption. intros H1 H2.
    injection H1 as H1. injection H2 as H2. f_equal. eapply (tp_eq_lt _ tp_decide_skipmed); eassumption.
  Qed.

  Lemma skipmed_lt_eq : cmp a b = Ok Lt -> cmp b c = Ok Eq -> cmp a c = Ok Lt.
  Proof.
    unfold cmp. rewrite !c10_ref_proof, !rfc_decide_decide by assumption. intros H1 H2.
    injection H1 as H1. injection H2 as H2. f_equal. eapply (tp_lt_eq _ tp_decide_skipmed); eassumption.
  Qed.
End Weak.

Lemma c10_antisym_proof s a b :
  eligible a = true -> eligible b = true ->
  exists x, cmp_route s a b = Ok x /\ cmp_route s b a = Ok (CompOpp x).
Proof.
  intros Ea Eb. rewrite !c10_ref_proof, !rfc_decide_decide by assumption.
  eexists. split; [reflexivity|]. f_equal. apply anti_decide.
Qed.

(* with MED enabled the comparison is not transitive: witness *)
Definition mkr (path : list hop) (med : N) (peer : N) : route :=
  mkRoute None false 100 0 (false, peer) (Some 0) (Some path) None (Some med) None None 0.
Definition wa := mkr [HAsn 10; HAsn 20] 50 3.
Definition wb := mkr [HAsn 30; HAsn 20] 10 2.
Definition wc := mkr [HAsn 10; HAsn 40] 20 1.

Lemma c10_med_not_transitive_proof :
  eligible wa = true /\ eligible wb = true /\ eligible wc = true /\
  cmp_route Rfc4271 wc wa = Ok Lt /\ cmp_route Rfc4271 wa wb = Ok Gt /\ cmp_route Rfc4271 wb wc = Ok Gt.
Proof. vm_compute. repeat split; reflexivity. Qed.

Lemma c10_refused_proof r :
  eligible r = false <->
  (r_origin r = None \/ r_path r = None \/
   (r_ibgp r = false /\ match r_path r with Some p => neighbor_ps p = None | None => True end)).
Proof.
  unfold eligible. destruct (r_origin r), (r_path r) as [p|], (r_ibgp r); try (destruct (neighbor_ps p));
    split; intros H; try discriminate; try tauto;
    try (destruct H as [H|[H|[H1 H2]]]; discriminate); auto.
Qed.

Lemma c10_no_panic_proof s a b : eligible a = true -> eligible b = true -> cmp_route s a b <> Panic.
Proof. intros Ea Eb. rewrite c10_ref_proof by assumption. discriminate. Qed.

(* hop count used in path selection *)
Definition is_seq_asn (h : hop) : bool := match h with HAsn _ => true | _ => false end.
Definition is_set (h : hop) : bool := match h with HSet => true | _ => false end.

Lemma c10_hopcount_proof l :
  hop_count_ps l = N.of_nat (length (filter is_seq_asn l)) + N.of_nat (length (filter is_set l)).
Proof.
  induction l as [|h l IH]; [reflexivity|]. destruct h; cbn [hop_count_ps filter is_seq_asn is_set length]; rewrite IH; lia.
Qed.
