From Coq Require Import List NArith Bool Lia.
From RC Require Import Base.Res Base.Wire Gen.Merge Model.Negotiate Proofs.NegotiateProofs.
Import ListNotations.
Open Scope N_scope.

Lemma c12_merge_table_proof :
  forall a b, In a [1; 2; 3] -> In b [1; 2; 3] -> merge a b = dir_spec (Some a) (Some b).
Proof.
  intros a b Ha Hb. apply merge_spec; unfold dir_ok;
    [cbn in Ha; destruct Ha as [<- | [<- | [<- | []]]]; reflexivity
    |cbn in Hb; destruct Hb as [<- | [<- | [<- | []]]]; reflexivity].
Qed.

Section Caps.
  Variables (sent rcvd : list cap) (mine other : list (fam * N)).
  Hypothesis Hs : addpath_families_vec sent = Ok mine.
  Hypothesis Hr : addpath_families_vec rcvd = Ok other.
  Hypothesis Hnd : NoDup (keys mine).

  Lemma sc_unfold : session_config sent rcvd =
    fold_left add_famdir (intersect mine other) (mkSC (four_octet_capable sent && four_octet_capable rcvd) []).
  Proof. unfold session_config, addpath_intersection. now rewrite Hs, Hr. Qed.

  Lemma c12_get_proof f :
    get_addpath (session_config sent rcvd) f = dir_spec (find_fam mine f) (find_fam other f).
  Proof.
    rewrite sc_unfold. apply config_get_spec; [assumption| |]; eapply addpath_families_vec_ok; eassumption.
  Qed.

  Lemma c12_rx_proof f :
    rx_addpath (session_config sent rcvd) f = rx_spec (find_fam mine f) (find_fam other f).
  Proof.
    rewrite sc_unfold. apply config_rx_spec; [assumption| |]; eapply addpath_families_vec_ok; eassumption.
  Qed.

  Lemma c12_pph_get_proof legacy f :
    get_addpath (fst (pph_session_config legacy sent rcvd)) f = get_addpath (session_config sent rcvd) f.
  Proof.
    rewrite c12_get_proof. unfold pph_session_config, addpath_intersection. rewrite Hs, Hr. cbn [fst].
    apply config_get_spec; [assumption| |]; eapply addpath_families_vec_ok; eassumption.
  Qed.
End Caps.

Lemma c12_swap_proof sent rcvd mine other f :
  addpath_families_vec sent = Ok mine -> addpath_families_vec rcvd = Ok other ->
  NoDup (keys mine) -> NoDup (keys other) ->
  get_addpath (session_config sent rcvd) f = option_map swap_dir (get_addpath (session_config rcvd sent) f).
Proof.
  intros Hs Hr N1 N2.
  rewrite (c12_get_proof sent rcvd mine other Hs Hr N1), (c12_get_proof rcvd sent other mine Hr Hs N2).
  apply dir_spec_swap.
Qed.

Lemma c12_four_octet_proof sent rcvd :
  sc_four (session_config sent rcvd) = four_octet_capable sent && four_octet_capable rcvd.
Proof. unfold session_config. now rewrite fold_add_four. Qed.

Lemma c12_four_octet_pph_proof legacy sent rcvd :
  sc_four (fst (pph_session_config legacy sent rcvd)) = negb legacy /\
  (snd (pph_session_config legacy sent rcvd) = false <->
   negb legacy = (four_octet_capable sent && four_octet_capable rcvd)).
Proof.
  unfold pph_session_config. cbn [fst snd]. rewrite fold_add_four. cbn [sc_four]. split; [reflexivity|].
  destruct legacy, (four_octet_capable sent && four_octet_capable rcvd); cbn; split; congruence.
Qed.

Lemma c12_live_proof local rcvd other c f :
  addpath_families_vec rcvd = Ok other -> NoDup (keys other) ->
  live_session_config local rcvd = Ok c ->
  get_addpath c f = dir_spec (if existsb (fam_eqb f) local then Some 3 else None) (find_fam other f)
  /\ sc_four c = four_octet_capable rcvd.
Proof.
  intros Hr Hnd. unfold live_session_config. rewrite Hr. cbn [bind]. intros H. injection H as <-.
  split; [|now rewrite fold_add_four].
  unfold get_addpath. rewrite fold_add_map. cbn [sc_addpath]. rewrite app_nil_r.
  rewrite amap_get_find, find_rev_nodup by (now apply live_nodup).
  apply find_live; [assumption|]. eapply addpath_families_vec_ok; eassumption.
Qed.

(* malformed ADD-PATH capability on either side: nothing is negotiated *)
Lemma c12_malformed_proof sent rcvd f :
  (addpath_families_vec sent = Err \/ addpath_families_vec rcvd = Err) ->
  get_addpath (session_config sent rcvd) f = None.
Proof.
  intros H. unfold session_config, addpath_intersection.
  destruct H as [-> | ->]; [reflexivity|]. destruct (addpath_families_vec sent); reflexivity.
Qed.
