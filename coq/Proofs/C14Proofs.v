From Coq Require Import List Arith NArith Bool Lia.
From RC Require Import Base.Res Base.Wire Base.Lex Model.Nlri Model.NlriOrd Proofs.LexProofs Proofs.NlriProofs.
Import ListNotations.
Open Scope N_scope.

(* ---- lexicographic lists over a TP item comparison ---- *)
Section LexList.
  Context {A : Type} (c : A -> A -> comparison).
  Fixpoint lexl (a b : list A) : comparison :=
    match a, b with
    | [], [] => Eq
    | [], _ :: _ => Lt
    | _ :: _, [] => Gt
    | x :: a', y :: b' => then_cmp (c x y) (lexl a' b')
    end.

  Hypothesis T : TP c.

  Lemma lexl_refl a : lexl a a = Eq.
  Proof. induction a as [|x a IH]; cbn; [reflexivity|]. now rewrite (tp_refl _ T), IH. Qed.

  Lemma lexl_anti a b : lexl a b = CompOpp (lexl b a).
  Proof.
    revert b. induction a as [|x a IH]; destruct b as [|y b]; cbn; try reflexivity.
    rewrite (tp_anti _ T x y). destruct (c y x); cbn; [apply IH|reflexivity|reflexivity].
  Qed.

  Lemma lexl_trans_gen a : forall b d r1 r2,
      lexl a b = r1 -> lexl b d = r2 ->
      (r1 = Lt -> r2 = Lt -> lexl a d = Lt) /\ (r1 = Eq -> r2 = Eq -> lexl a d = Eq) /\
      (r1 = Eq -> r2 = Lt -> lexl a d = Lt) /\ (r1 = Lt -> r2 = Eq -> lexl a d = Lt).
  Proof.
    induction a as [|x a IH]; intros b d r1 r2 H1 H2.
    - destruct b as [|y b], d as [|z d]; cbn in *; subst; repeat split; intros; congruence.
    - destruct b as [|y b]; [cbn in *; subst; repeat split; intros; congruence|].
      destruct d as [|z d]; [cbn in *; subst; repeat split; intros; try congruence; destruct (c x y); cbn in *; congruence|].
      cbn [lexl] in *. specialize (IH b d (lexl a b) (lexl b d) eq_refl eq_refl).
      destruct IH as (I1 & I2 & I3 & I4). subst r1 r2. unfold then_cmp.
      destruct (c x y) eqn:E1; destruct (c y z) eqn:E2; repeat split; intros; try congruence;
        try (rewrite (tp_eq_eq _ T _ _ _ E1 E2)); try (rewrite (tp_eq_lt _ T _ _ _ E1 E2));
        try (rewrite (tp_lt_eq _ T _ _ _ E1 E2)); try (rewrite (tp_lt_lt _ T _ _ _ E1 E2)); auto.
  Qed.

  Lemma tp_lexl : TP lexl.
  Proof.
    split.
    - apply lexl_refl.
    - apply lexl_anti.
    - intros x y z H1 H2. destruct (lexl_trans_gen x y z _ _ eq_refl eq_refl) as (A1 & A2 & A3 & A4); auto.
    - intros x y z H1 H2. destruct (lexl_trans_gen x y z _ _ eq_refl eq_refl) as (A1 & A2 & A3 & A4); auto.
    - intros x y z H1 H2. destruct (lexl_trans_gen x y z _ _ eq_refl eq_refl) as (A1 & A2 & A3 & A4); auto.
    - intros x y z H1 H2. destruct (lexl_trans_gen x y z _ _ eq_refl eq_refl) as (A1 & A2 & A3 & A4); auto.
  Qed.

  Hypothesis Ceq : forall x y, c x y = Eq -> x = y.
  Lemma lexl_eq a b : lexl a b = Eq -> a = b.
  Proof.
    revert b. induction a as [|x a IH]; destruct b as [|y b]; cbn; try discriminate; auto.
    unfold then_cmp. destruct (c x y) eqn:E; try discriminate. intros H. f_equal; auto.
  Qed.
End LexList.

Lemma bytes_cmp_lexl a b : bytes_cmp a b = lexl N.compare a b.
Proof. revert b. induction a as [|x a IH]; destruct b; cbn; auto; try (rewrite IH; reflexivity). Qed.

Lemma tp_ncompare : TP N.compare.
Proof. apply (tp_ext (fun a b => N.compare (id a) (id b))); [reflexivity|apply (tp_key id)]. Qed.

Lemma tp_bytes_cmp : TP bytes_cmp.
Proof. apply (tp_ext (lexl N.compare)); [intros; symmetry; apply bytes_cmp_lexl|apply tp_lexl, tp_ncompare]. Qed.

Lemma bytes_cmp_eq a b : bytes_cmp a b = Eq -> a = b.
Proof. rewrite bytes_cmp_lexl. apply lexl_eq. intros x y H. now apply N.compare_eq_iff. Qed.

Section WithP.
  Variable pcmp : prefix -> prefix -> comparison.
  Hypothesis Tp : TP pcmp.
  Hypothesis Peq : forall a b, pcmp a b = Eq -> a = b.

  Lemma tp_item : TP (item_cmp pcmp).
  Proof.
    pose proof tp_ncompare as TN. pose proof tp_bytes_cmp as TB.
    split.
    - intros [x|x|x]; cbn; [apply (tp_refl _ TN)|apply (tp_refl _ TB)|apply (tp_refl _ Tp)].
    - intros [x|x|x] [y|y|y]; cbn; try reflexivity; [apply (tp_anti _ TN)|apply (tp_anti _ TB)|apply (tp_anti _ Tp)].
    - intros [x|x|x] [y|y|y] [z|z|z]; cbn; try discriminate; try reflexivity;
        [apply (tp_lt_lt _ TN)|apply (tp_lt_lt _ TB)|apply (tp_lt_lt _ Tp)].
    - intros [x|x|x] [y|y|y] [z|z|z]; cbn; try discriminate; try reflexivity;
        [apply (tp_eq_eq _ TN)|apply (tp_eq_eq _ TB)|apply (tp_eq_eq _ Tp)].
    - intros [x|x|x] [y|y|y] [z|z|z]; cbn; try discriminate; try reflexivity;
        [apply (tp_eq_lt _ TN)|apply (tp_eq_lt _ TB)|apply (tp_eq_lt _ Tp)].
    - intros [x|x|x] [y|y|y] [z|z|z]; cbn; try discriminate; try reflexivity;
        [apply (tp_lt_eq _ TN)|apply (tp_lt_eq _ TB)|apply (tp_lt_eq _ Tp)].
  Qed.

  Lemma item_eq x y : item_cmp pcmp x y = Eq -> x = y.
  Proof.
    destruct x, y; cbn; try discriminate; intros H; f_equal;
      [now apply N.compare_eq_iff|now apply bytes_cmp_eq|now apply Peq].
  Qed.

  Lemma key_cmp_lexl a b : key_cmp pcmp a b = lexl (item_cmp pcmp) a b.
  Proof. revert b. induction a as [|x a IH]; destruct b; cbn [key_cmp lexl]; auto; try (rewrite IH; reflexivity). Qed.

  Lemma tp_nlri_cmp : TP (nlri_cmp pcmp).
  Proof.
    unfold nlri_cmp. apply (tp_comap nlri_key).
    apply (tp_ext (lexl (item_cmp pcmp))); [intros; symmetry; apply key_cmp_lexl|apply tp_lexl, tp_item].
  Qed.

  Lemma nlri_cmp_key_eq a b : nlri_cmp pcmp a b = Eq -> nlri_key a = nlri_key b.
  Proof. unfold nlri_cmp. rewrite key_cmp_lexl. apply lexl_eq. apply item_eq. Qed.
End WithP.

(* ---- the key determines the value (for values whose body is of the family's kind) ---- *)
Definition matching (n : nlri) : bool := body_matches (n_fam n) (n_body n).

Lemma fam_index_inj a b : fam_index a = fam_index b -> a = b.
Proof. destruct a, b; cbn; intros H; try reflexivity; discriminate. Qed.

Lemma type_index_inj a b :
  type_index a = type_index b ->
  n_fam a = n_fam b /\ (match n_pathid a, n_pathid b with Some _, Some _ | None, None => True | _, _ => False end).
Proof.
  unfold type_index. intros H.
  assert (F : fam_index (n_fam a) = fam_index (n_fam b)) by (destruct (n_pathid a), (n_pathid b); lia).
  split; [now apply fam_index_inj|]. destruct (n_pathid a), (n_pathid b); auto; lia.
Qed.

Lemma body_key_inj k b1 b2 :
  body_matches k b1 = true -> body_matches k b2 = true -> body_key b1 = body_key b2 -> b1 = b2.
Proof.
  destruct k, b1, b2; cbn; try discriminate; intros _ _ H; inversion H; subst; try reflexivity.
Qed.

Lemma nlri_key_inj a b : matching a = true -> matching b = true -> nlri_key a = nlri_key b -> a = b.
Proof.
  unfold matching, nlri_key. intros Ma Mb H. injection H as Ht Hk.
  destruct (type_index_inj a b Ht) as [Hf Hp].
  destruct a as [ka pa ba], b as [kb pb bb]. cbn [n_fam n_pathid n_body] in *. subst kb.
  destruct pa as [pa|], pb as [pb|]; try contradiction.
  - destruct (generic_fam ka).
    + apply app_inj_tail in Hk as [Hk Hpid]. injection Hpid as ->. f_equal. now apply (body_key_inj ka).
    + injection Hk as -> Hk. f_equal. now apply (body_key_inj ka).
  - f_equal. now apply (body_key_inj ka).
Qed.

(* ---- == ---- *)
Lemma bytes_eqb_eq a b : bytes_eqb a b = true <-> a = b.
Proof.
  unfold bytes_eqb, beq_bytes. split.
  - revert b. induction a as [|x a IH]; destruct b as [|y b]; cbn; try discriminate; auto.
    intros H. apply andb_true_iff in H as [H1 H2]. apply andb_true_iff in H2 as [H2 H3].
    apply N.eqb_eq in H2. subst. f_equal. apply IH. now rewrite H1, H3.
  - intros ->. induction b as [|y b IH]; cbn; [reflexivity|].
    apply andb_true_iff in IH as [I1 I2]. now rewrite I1, N.eqb_refl, I2.
Qed.

Lemma prefix_eqb_eq a b : prefix_eqb a b = true <-> a = b.
Proof.
  unfold prefix_eqb. destruct a as [v l x], b as [v' l' x']. cbn. rewrite !andb_true_iff, bytes_eqb_eq, Nat.eqb_eq.
  split; [intros [[H1 H2] H3]; apply eqb_prop in H1; now subst|intros H; inversion H; subst; now rewrite eqb_reflx].
Qed.

Lemma body_eqb_eq a b : body_eqb a b = true <-> a = b.
Proof.
  destruct a, b; cbn; try (split; [discriminate|intros H; inversion H]);
    rewrite ?andb_true_iff, ?prefix_eqb_eq, ?bytes_eqb_eq, ?N.eqb_eq;
    (split; [intros H; repeat match goal with H : _ /\ _ |- _ => destruct H end; subst; reflexivity
            |intros H; inversion H; subst; repeat split; reflexivity]).
Qed.

Lemma nlri_eqb_eq a b : nlri_eqb a b = true <-> a = b.
Proof.
  unfold nlri_eqb. destruct a as [ka pa ba], b as [kb pb bb]. cbn [n_fam n_pathid n_body].
  rewrite andb_true_iff, N.eqb_eq. split.
  - intros [Hf H]. apply fam_index_inj in Hf. subst.
    destruct pa, pb; try discriminate.
    + apply andb_true_iff in H as [H1 H2]. apply N.eqb_eq in H1. apply body_eqb_eq in H2. now subst.
    + apply body_eqb_eq in H. now subst.
  - intros H. inversion H; subst. split; [reflexivity|]. destruct pb; [rewrite N.eqb_refl|]; now apply body_eqb_eq.
Qed.

Section Main.
  Variable pcmp : prefix -> prefix -> comparison.
  Hypothesis Tp : TP pcmp.
  Hypothesis Peq : forall a b, pcmp a b = Eq -> a = b.

  Lemma c14_eq_iff_proof a b : matching a = true -> matching b = true ->
    (nlri_cmp pcmp a b = Eq <-> nlri_eqb a b = true).
  Proof.
    intros Ma Mb. rewrite nlri_eqb_eq. split.
    - intros H. apply (nlri_key_inj a b Ma Mb). now apply (nlri_cmp_key_eq pcmp Peq).
    - intros ->. apply (tp_refl _ (tp_nlri_cmp pcmp Tp)).
  Qed.

  Lemma c14_hash_proof a b : nlri_eqb a b = true -> hash_input a = hash_input b.
  Proof. intros H. apply nlri_eqb_eq in H. now subst. Qed.
End Main.

Lemma c14_addpath_eq_proof k p1 p2 b1 b2 :
  nlri_eqb (mkNlri k (Some p1) b1) (mkNlri k (Some p2) b2) = true <-> (p1 = p2 /\ body_eqb b1 b2 = true).
Proof.
  unfold nlri_eqb. cbn [n_fam n_pathid n_body]. rewrite N.eqb_refl. cbn [andb].
  rewrite andb_true_iff, N.eqb_eq. tauto.
Qed.
