(* C20: the settled timer model never ticks early, nor after a stop. *)
From Coq Require Import List NArith ZArith Bool Lia ZifyN ZifyNat ZifyBool.
From RC Require Import Gen.TimerConsts Model.Timer.
Import ListNotations.
Open Scope N_scope.

(* the model is the one of a channel that holds one tick *)
Lemma capacity_ok : tick_channel_capacity = 1.
Proof. reflexivity. Qed.

(* [a] = the time of the latest start or reset (0 before any) *)
Definition Inv (i : N) (s : timer) (a : N) : Prop :=
  a <= t_now s /\
  (t_alive s = t_has_stop s) /\
  (t_alive s = true -> t_has_reset s = true) /\
  (t_overrun s = false ->
     (t_alive s = true -> a + i <= t_next s /\ t_now s < t_next s) /\
     (forall q, t_tickq s = Some q -> t_alive s = true /\ a + i <= q /\ q <= t_now s)).

Lemma inv_init i : Inv i t_init 0.
Proof. unfold Inv, t_init; simpl. repeat split; try lia; try discriminate; intros; discriminate. Qed.

Definition anchor_after (o : top) (s : timer) (a : N) : N := if is_anchor o then t_now s else a.

Lemma overrun_mono_fire i s : t_overrun s = true -> t_overrun (fire i s) = true.
Proof.
  intros H. unfold fire. destruct (t_alive s && (t_next s <=? t_now s)); [|exact H].
  destruct (t_tickq s); [reflexivity|]. destruct (t_now s <? t_next s + i); [exact H|reflexivity].
Qed.

Lemma overrun_mono i s o : t_overrun s = true -> t_overrun (fst (tstep i s o)) = true.
Proof.
  intros H. destruct o; simpl.
  - exact H.
  - destruct (t_has_reset s); simpl; exact H.
  - destruct (t_has_stop s); simpl; exact H.
  - apply overrun_mono_fire. exact H.
  - destruct (t_tickq s); simpl; [exact H|].
    destruct (t_alive s && (t_next s <? t_now s + d)); simpl; [exact H|]. apply overrun_mono_fire. exact H.
Qed.

(* advancing the clock and letting the task run *)
Lemma advance_inv i s a d : 0 < i -> Inv i s a -> Inv i (fire i (set_now s (t_now s + d))) a.
Proof.
  intros Hi (Ha & Hs & Hr & Ho).
  unfold fire, set_now; simpl.
  destruct (t_alive s && (t_next s <=? t_now s + d)) eqn:E.
  - apply andb_true_iff in E. destruct E as [Ea En]. apply N.leb_le in En.
    destruct (t_tickq s) as [q|] eqn:Eq.
    + unfold Inv; simpl. repeat split; try lia; try (now rewrite <- Hs); try (intros; discriminate); auto.
    + destruct (t_now s + d <? t_next s + i) eqn:El.
      * apply N.ltb_lt in El. unfold Inv; simpl. split; [lia|]. split; [now rewrite <- Hs|]. split; [intros _; exact (Hr Ea)|].
        intros Hov. destruct (Ho Hov) as (H1 & H2). destruct (H1 Ea) as [H1a H1b].
        split; [intros _; lia|].
        intros q Hq. inversion Hq; subst q. split; [reflexivity|]. split; lia.
      * unfold Inv; simpl. repeat split; try lia; try (now rewrite <- Hs); try (intros; discriminate); auto.
  - unfold Inv; simpl. split; [lia|]. split; [exact Hs|]. split; [exact Hr|].
    intros Hov. destruct (Ho Hov) as (H1 & H2). split.
    + intros Hal. destruct (H1 Hal) as [H1a H1b]. split; [exact H1a|].
      apply andb_false_iff in E. destruct E as [E|E]; [congruence|]. apply N.leb_gt in E. exact E.
    + intros q Hq. destruct (H2 q Hq) as (X & Y & Z). split; [exact X|]. split; lia.
Qed.

Lemma advance_now i s d : t_now s <= t_now (fire i (set_now s (t_now s + d))).
Proof.
  unfold fire, set_now; simpl. destruct (t_alive s && _); [|simpl; lia].
  destruct (t_tickq s); [simpl; lia|]. destruct (_ <? _); simpl; lia.
Qed.

(* one operation preserves the invariant; a tick it returns respects the anchor and needs a live timer *)
Lemma step_inv i s a o : 0 < i -> Inv i s a ->
  Inv i (fst (tstep i s o)) (anchor_after o s a) /\
  t_now s <= t_now (fst (tstep i s o)) /\
  (t_overrun s = false -> forall now inst, snd (tstep i s o) = OTick now inst ->
     a + i <= now /\ inst <= now /\ t_alive s = true /\ t_now s <= now).
Proof.
  intros Hi HI. pose proof HI as (Ha & Hs & Hr & Ho).
  destruct o; unfold anchor_after; cbn [is_anchor tstep].
  - (* start *) cbn [fst snd]. split; [|split; [simpl; lia|intros _ ? ? H; discriminate]].
    unfold Inv; simpl. repeat split; try lia; try (intros; discriminate).
  - (* reset *) destruct (t_has_reset s) eqn:Er; cbn [fst snd].
    + split; [|split; [simpl; lia|intros _ ? ? H; discriminate]].
      unfold Inv; simpl. split; [lia|]. split; [exact Hs|]. split; [auto|].
      intros Hov. destruct (t_alive s) eqn:Ea.
      * repeat split; try lia; intros; discriminate.
      * repeat split; intros; discriminate.
    + split; [|split; [lia|intros _ ? ? H; discriminate]].
      destruct (t_alive s) eqn:Ea; [discriminate (Hr eq_refl)|].
      unfold Inv. split; [lia|]. split; [now rewrite Ea|]. split; [intros; congruence|].
      intros Hov. destruct (Ho Hov) as (H1 & H2). split; [intros; congruence|].
      intros q Hq. destruct (H2 q Hq) as (X & _). congruence.
  - (* stop *) destruct (t_has_stop s) eqn:Est; cbn [fst snd].
    + split; [|split; [simpl; lia|intros _ ? ? H; discriminate]].
      unfold Inv; simpl. repeat split; try lia; intros; discriminate.
    + split; [|split; [simpl; lia|intros _ ? ? H; discriminate]].
      unfold Inv; simpl. split; [lia|]. split; [exact Hs|]. split; [exact Hr|]. exact Ho.
  - (* advance *) cbn [fst snd]. split; [now apply advance_inv|]. split; [apply advance_now|intros _ ? ? H; discriminate].
  - (* await *) destruct (t_tickq s) as [q|] eqn:Eq; cbn [fst snd].
    + split; [|split; [simpl; lia|]].
      * unfold Inv; simpl. split; [lia|]. split; [exact Hs|]. split; [exact Hr|].
        intros Hov. destruct (Ho Hov) as (H1 & H2). split; [exact H1|]. intros; discriminate.
      * intros Hov now inst H. inversion H; subst now inst. destruct (Ho Hov) as (H1 & H2).
        destruct (H2 q eq_refl) as (X & Y & Z). repeat split; try assumption; lia.
    + destruct (t_alive s && (t_next s <? t_now s + d)) eqn:E; cbn [fst snd].
      * apply andb_true_iff in E. destruct E as [Ea En]. apply N.ltb_lt in En.
        split; [|split; [simpl; lia|]].
        -- unfold Inv; simpl. split; [lia|]. split; [now rewrite <- Hs|]. split; [intros _; exact (Hr Ea)|].
           intros Hov. destruct (Ho Hov) as (H1 & H2). destruct (H1 Ea) as [H1a H1b].
           split; [intros _; lia|]. intros; discriminate.
        -- intros Hov now inst H. inversion H; subst now inst. destruct (Ho Hov) as (H1 & H2). destruct (H1 Ea) as [H1a H1b].
           repeat split; try assumption; lia.
      * split; [now apply advance_inv|]. split; [apply advance_now|intros _ ? ? H; discriminate].
Qed.

Lemma texec_overrun i : forall ops s, t_overrun s = true -> t_overrun (fst (texec i s ops)) = true.
Proof.
  induction ops as [|o tl IH]; intros s H; [exact H|].
  cbn [texec]. destruct (tstep i s o) as [s1 ob] eqn:E1. destruct (texec i s1 tl) as [s2 tr] eqn:E2. cbn [fst].
  pose proof (overrun_mono i s o H) as H1. rewrite E1 in H1. cbn [fst] in H1.
  specialize (IH s1 H1). now rewrite E2 in IH.
Qed.

Lemma fire_alive i s : t_alive (fire i s) = t_alive s /\ t_has_stop (fire i s) = t_has_stop s.
Proof.
  unfold fire. destruct (t_alive s && (t_next s <=? t_now s)) eqn:E; [|auto].
  apply andb_true_iff in E. destruct E as [Ea _].
  destruct (t_tickq s); [simpl; auto|]. destruct (t_now s <? t_next s + i); simpl; auto.
Qed.

Lemma step_alive i s o : t_alive s = t_has_stop s ->
  t_alive (fst (tstep i s o)) = t_has_stop (fst (tstep i s o)) /\
  t_alive (fst (tstep i s o)) = on_after (t_alive s) [o].
Proof.
  intros Hs. destruct o; cbn [tstep on_after].
  - simpl; auto.
  - destruct (t_has_reset s); simpl; auto.
  - destruct (t_has_stop s) eqn:Est; simpl; auto.
  - cbn [fst]. destruct (fire_alive i (set_now s (t_now s + d))) as [A B]. rewrite A, B. simpl. auto.
  - destruct (t_tickq s); [simpl; auto|].
    destruct (t_alive s && (t_next s <? t_now s + d)) eqn:E.
    + apply andb_true_iff in E. destruct E as [Ea _]. simpl. rewrite <- Hs, Ea. auto.
    + cbn [fst]. destruct (fire_alive i (set_now s (t_now s + d))) as [A B]. rewrite A, B. simpl. auto.
Qed.

Lemma texec_alive i : forall ops s, t_alive s = t_has_stop s ->
  t_alive (fst (texec i s ops)) = on_after (t_alive s) ops.
Proof.
  induction ops as [|o tl IH]; intros s Hs; [reflexivity|].
  cbn [texec]. pose proof (step_alive i s o Hs) as [H1 H2].
  destruct (tstep i s o) as [s1 ob] eqn:E1. cbn [fst] in H1, H2.
  specialize (IH s1 H1). destruct (texec i s1 tl) as [s2 tr] eqn:E2. cbn [fst] in *.
  rewrite IH, H2. destruct o; reflexivity.
Qed.

(* the history theorem, generalised over the starting state *)
Lemma texec_ticks i : 0 < i -> forall ops s a, Inv i s a -> t_overrun (fst (texec i s ops)) = false ->
  forall pre o t now inst post, snd (texec i s ops) = pre ++ (o, t, OTick now inst) :: post ->
    a + i <= now /\ inst <= now /\ t <= now /\
    (forall o' t' ob', In (o', t', ob') pre -> is_anchor o' = true -> t' + i <= now) /\
    on_after (t_alive s) (map (fun x => fst (fst x)) pre) = true.
Proof.
  intros Hi. induction ops as [|o1 tl IH]; intros s a HI Hov pre o t now inst post Htr.
  - cbn in Htr. destruct pre; discriminate.
  - cbn [texec] in Htr, Hov. destruct (tstep i s o1) as [s1 ob1] eqn:E1. destruct (texec i s1 tl) as [s2 tr] eqn:E2.
    cbn [fst snd] in Htr, Hov.
    pose proof (step_inv i s a o1 Hi HI) as (HI1 & Hnow & Htick). rewrite E1 in HI1, Hnow, Htick. cbn [fst snd] in HI1, Hnow, Htick.
    assert (Hov_s : t_overrun s = false).
    { destruct (t_overrun s) eqn:X; [|reflexivity]. pose proof (texec_overrun i (o1 :: tl) s X) as Y.
      cbn [texec] in Y. rewrite E1, E2 in Y. cbn [fst] in Y. congruence. }
    assert (Hov1 : t_overrun (fst (texec i s1 tl)) = false) by (rewrite E2; exact Hov).
    destruct pre as [|x pre'].
    + cbn [List.app] in Htr. inversion Htr; subst o t ob1 post.
      destruct (Htick Hov_s now inst eq_refl) as (T1 & T2 & T3 & T4).
      split; [exact T1|]. split; [exact T2|]. split; [exact T4|]. split; [intros ? ? ? []|]. exact T3.
    + cbn [List.app] in Htr. inversion Htr as [[Hx Hrest]]. subst x.
      assert (Htr1 : snd (texec i s1 tl) = pre' ++ (o, t, OTick now inst) :: post) by (rewrite E2; exact Hrest).
      destruct (IH s1 (anchor_after o1 s a) HI1 Hov1 pre' o t now inst post Htr1) as (A1 & A2 & A3 & A4 & A5).
      destruct HI as (Ha & Hs & _).
      assert (Hanch : a <= anchor_after o1 s a) by (unfold anchor_after; destruct (is_anchor o1); lia).
      split; [lia|]. split; [exact A2|]. split; [exact A3|]. split.
      * intros o' t' ob' [Hin|Hin] Hanc.
        -- inversion Hin; subst o' t' ob'. unfold anchor_after in A1. rewrite Hanc in A1. exact A1.
        -- exact (A4 o' t' ob' Hin Hanc).
      * cbn [map fst]. 
        assert (Hal : on_after (t_alive s) (o1 :: map (fun x => fst (fst x)) pre') = on_after (t_alive s1) (map (fun x => fst (fst x)) pre')).
        { pose proof (step_alive i s o1 Hs) as [_ X]. rewrite E1 in X. cbn [fst] in X. rewrite X. destruct o1; reflexivity. }
        rewrite Hal. exact A5.
Qed.

Lemma c20_ticks_proof i ops pre o t now inst post : 0 < i ->
  t_overrun (fst (texec i t_init ops)) = false ->
  snd (texec i t_init ops) = pre ++ (o, t, OTick now inst) :: post ->
  (forall o' t' ob', In (o', t', ob') pre -> is_anchor o' = true -> t' + i <= now) /\
  on_after false (map (fun x => fst (fst x)) pre) = true /\
  i <= now /\ inst <= now /\ t <= now.
Proof.
  intros Hi Hov Htr. destruct (texec_ticks i Hi ops t_init 0 (inv_init i) Hov pre o t now inst post Htr) as (A1 & A2 & A3 & A4 & A5).
  split; [exact A4|]. split; [exact A5|]. split; [lia|]. split; assumption.
Qed.

(* the history a trace records is the operations that were run *)
Lemma texec_ops i : forall ops s, map (fun x => fst (fst x)) (snd (texec i s ops)) = ops.
Proof.
  induction ops as [|o tl IH]; intros s; [reflexivity|].
  cbn [texec]. destruct (tstep i s o) as [s1 ob]. specialize (IH s1). destruct (texec i s1 tl) as [s2 tr]. cbn [snd map fst] in *. now rewrite IH.
Qed.

(* the recorded times are the clock: non-decreasing along the trace *)
Lemma on_after_last_stop b ops : on_after b (ops ++ [TStop]) = false.
Proof. revert b. induction ops as [|o tl IH]; intros b; [reflexivity|]. destruct o; cbn [List.app on_after]; apply IH. Qed.

Lemma on_after_app b l1 l2 : on_after b (l1 ++ l2) = on_after (on_after b l1) l2.
Proof. revert b. induction l1 as [|o tl IH]; intros b; [reflexivity|]. destruct o; cbn [List.app on_after]; apply IH. Qed.

Lemma on_after_no_start b l : (forall o, In o l -> o <> TStart) -> on_after b l = true -> b = true.
Proof.
  revert b. induction l as [|o tl IH]; intros b Hn H; [exact H|].
  destruct o; cbn [on_after] in H.
  - exfalso. apply (Hn TStart); [left; reflexivity|reflexivity].
  - apply IH; [intros o Ho; apply Hn; right; exact Ho|exact H].
  - assert (false = true); [|discriminate]. apply IH; [intros o Ho; apply Hn; right; exact Ho|exact H].
  - apply IH; [intros o Ho; apply Hn; right; exact Ho|exact H].
  - apply IH; [intros o Ho; apply Hn; right; exact Ho|exact H].
Qed.

(* a non-vacuity example: ticks are observed, stale ones are not, nothing overruns *)
Definition demo_ops : list top :=
  [TStart; TAwait 10400; TAdvance 10400; TStop; TAwait 26000; TStart; TAdvance 10400; TReset; TAwait 5200; TAwait 10400].
Lemma demo_run :
  t_overrun (fst (texec 10000 t_init demo_ops)) = false /\
  map (fun x => snd x) (snd (texec 10000 t_init demo_ops)) =
    [ORun true; OTick 10000 10000; OAdv; ORun false; OTimeout 46400; ORun true; OAdv; ORun true; OTimeout 62000; OTick 66800 66800].
Proof. vm_compute. split; reflexivity. Qed.

(* the timer is on exactly when the history has a start with no stop after it *)
Lemma on_after_last_start l : on_after false l = true ->
  exists l1 l2, l = l1 ++ TStart :: l2 /\ (forall o, In o l2 -> o <> TStop).
Proof.
  induction l as [|x l' IH] using rev_ind; intros H; [discriminate|].
  rewrite on_after_app in H. destruct x; cbn [on_after] in H.
  - exists l', []. split; [reflexivity|intros ? []].
  - destruct (IH H) as (l1 & l2 & -> & Hn). exists l1, (l2 ++ [TReset]). split; [now rewrite <- app_assoc|].
    intros o Ho. apply in_app_or in Ho. destruct Ho as [Ho|[<-|[]]]; [now apply Hn|discriminate].
  - discriminate.
  - destruct (IH H) as (l1 & l2 & -> & Hn). exists l1, (l2 ++ [TAdvance d]). split; [now rewrite <- app_assoc|].
    intros o Ho. apply in_app_or in Ho. destruct Ho as [Ho|[<-|[]]]; [now apply Hn|discriminate].
  - destruct (IH H) as (l1 & l2 & -> & Hn). exists l1, (l2 ++ [TAwait d]). split; [now rewrite <- app_assoc|].
    intros o Ho. apply in_app_or in Ho. destruct Ho as [Ho|[<-|[]]]; [now apply Hn|discriminate].
Qed.

Lemma c20_after_stop_proof i ops pre o t now inst post : 0 < i ->
  t_overrun (fst (texec i t_init ops)) = false ->
  snd (texec i t_init ops) = pre ++ (o, t, OTick now inst) :: post ->
  exists p1 ts ob p2, pre = p1 ++ (TStart, ts, ob) :: p2 /\
    (forall x, In x p2 -> fst (fst x) <> TStop) /\ ts + i <= now.
Proof.
  intros Hi Hov Htr. destruct (c20_ticks_proof i ops pre o t now inst post Hi Hov Htr) as (A & B & _).
  destruct (on_after_last_start _ B) as (l1 & l2 & E & Hn).
  apply map_eq_app in E. destruct E as (p1 & r & -> & E1 & E2).
  apply map_eq_cons in E2. destruct E2 as (e & p2 & -> & E3 & E4).
  destruct e as [[eo ts] ob]. cbn [fst] in E3. subst eo.
  exists p1, ts, ob, p2. split; [reflexivity|]. split.
  - intros x Hx. apply Hn. rewrite <- E4. exact (in_map (fun x => fst (fst x)) p2 x Hx).
  - apply (A TStart ts ob); [apply in_or_app; right; left; reflexivity|reflexivity].
Qed.
