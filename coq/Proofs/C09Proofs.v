(* C09: frame extraction is chunking-invariant, rejects impossible lengths, never panics. *)
From Coq Require Import List Arith NArith Bool Lia.
From RC Require Import Base.Res Base.Wire Model.Fsm.
Import ListNotations.
Local Open Scope nat_scope.

Section Frames.
  Variable valid : bytes -> bool.

  Definition wf_frame (m : bytes) : Prop :=
    exists hi lo, nth_error m 16 = Some hi /\ nth_error m 17 = Some lo /\ N.to_nat (hi * 256 + lo)%N = length m /\
                  19 <= length m /\ valid m = true.

  (* a strict prefix of a frame, or nothing *)
  Definition partial_of (t m : bytes) : Prop := exists y, y <> [] /\ t ++ y = m.

  Lemma parse_frame_np buf : parse_frame valid buf <> Panic.
  Proof.
    unfold parse_frame. destruct (Nat.leb 18 (length buf)) eqn:E; [|discriminate]. apply Nat.leb_le in E.
    destruct (nth_error buf 16) eqn:E16; [|apply nth_error_None in E16; lia].
    destruct (nth_error buf 17) eqn:E17; [|apply nth_error_None in E17; lia].
    destruct (Nat.ltb _ 19); [discriminate|]. destruct (Nat.leb _ _); [|discriminate]. destruct (valid _); discriminate.
  Qed.

  Lemma parse_frame_whole m rest : wf_frame m -> parse_frame valid (m ++ rest) = Ok (Some (m, rest)).
  Proof.
    intros (hi & lo & H16 & H17 & Hl & H19 & Hv). unfold parse_frame. rewrite app_length.
    replace (Nat.leb 18 (length m + length rest)) with true by (symmetry; apply Nat.leb_le; lia).
    rewrite !nth_error_app1 by lia. rewrite H16, H17, Hl.
    replace (Nat.ltb (length m) 19) with false by (symmetry; apply Nat.ltb_ge; lia).
    replace (Nat.leb (length m - 18) (length m + length rest - 18)) with true by (symmetry; apply Nat.leb_le; lia).
    rewrite firstn_app, Nat.sub_diag, firstn_all. cbn [firstn]. rewrite app_nil_r, Hv.
    rewrite skipn_app, skipn_all, Nat.sub_diag. reflexivity.
  Qed.

  Lemma parse_frame_partial t m : wf_frame m -> partial_of t m -> parse_frame valid t = Ok None.
  Proof.
    intros (hi & lo & H16 & H17 & Hl & H19 & Hv) (y & Hy & E). unfold parse_frame.
    assert (Lt : length t < length m).
    { rewrite <- E, app_length. destruct y; [congruence|]. cbn [length]. lia. }
    destruct (Nat.leb 18 (length t)) eqn:E18; [|reflexivity]. apply Nat.leb_le in E18.
    rewrite <- E in H16, H17. rewrite nth_error_app1 in H16, H17 by lia. rewrite H16, H17, Hl.
    replace (Nat.ltb (length m) 19) with false by (symmetry; apply Nat.ltb_ge; lia).
    replace (Nat.leb (length m - 18) (length t - 18)) with false by (symmetry; apply Nat.leb_gt; lia). reflexivity.
  Qed.

  Lemma parse_frame_nil : parse_frame valid [] = Ok None.
  Proof. reflexivity. Qed.

  Definition incomplete (t : bytes) (next : list bytes) : Prop :=
    t = [] \/ exists m r, next = m :: r /\ partial_of t m.

  Lemma drain_complete msgs : forall fuel tail next,
    Forall wf_frame msgs -> Forall wf_frame next -> incomplete tail next -> length msgs < fuel ->
    drain valid fuel (concat msgs ++ tail) = Ok (msgs, tail).
  Proof.
    induction msgs as [|m msgs IH]; intros fuel tail next Hw Hn Hi Hf; (destruct fuel as [|fuel]; [lia|]); cbn [drain concat app].
    - destruct Hi as [->|(m & r & -> & Hp)]; [rewrite parse_frame_nil; reflexivity|].
      inversion Hn; subst. rewrite (parse_frame_partial tail m) by assumption. reflexivity.
    - inversion Hw; subst. rewrite <- app_assoc. rewrite parse_frame_whole by assumption.
      rewrite (IH fuel tail next) by (try assumption; cbn [length] in Hf; lia). reflexivity.
  Qed.

  (* a prefix of the stream is some whole messages followed by a strict prefix of the next one *)
  Lemma prefix_split : forall msgs x y, Forall wf_frame msgs -> x ++ y = concat msgs ->
    exists m1 m2 tail, msgs = m1 ++ m2 /\ x = concat m1 ++ tail /\ incomplete tail m2 /\ tail ++ y = concat m2.
  Proof.
    induction msgs as [|m msgs IH]; intros x y Hw E.
    - cbn in E. apply app_eq_nil in E as (-> & ->). exists [], [], []. repeat split; auto. now left.
    - inversion Hw as [|? ? Hm Hms]; subst. cbn [concat] in E.
      destruct (Nat.lt_ge_cases (length x) (length m)) as [L|L].
      + (* x is a strict prefix of m *)
        exists [], (m :: msgs), x. split; [reflexivity|]. split; [reflexivity|]. split; [|exact E].
        destruct x as [|x0 x']; [now left|]. right. exists m, msgs. split; [reflexivity|].
        exists (firstn (length m - length (x0 :: x')) y). split.
        * intros E0. assert (length (firstn (length m - length (x0 :: x')) y) = 0) by (rewrite E0; reflexivity).
          rewrite firstn_length in H. assert (length ((x0 :: x') ++ y) = length (m ++ concat msgs)) by now rewrite E.
          rewrite !app_length in H0. lia.
        * assert (F : firstn (length m) ((x0 :: x') ++ y) = firstn (length m) (m ++ concat msgs)) by now rewrite E.
          rewrite firstn_app, (firstn_all2 (n := length m) (x0 :: x')) in F by lia.
          rewrite firstn_app, Nat.sub_diag, firstn_all in F. cbn [firstn] in F. rewrite app_nil_r in F. exact F.
      + (* x covers m *)
        assert (Ex : x = m ++ skipn (length m) x).
        { assert (F : firstn (length m) (x ++ y) = firstn (length m) (m ++ concat msgs)) by now rewrite E.
          rewrite firstn_app in F. replace (length m - length x) with 0 in F by lia. cbn [firstn] in F. rewrite app_nil_r in F.
          rewrite firstn_app, Nat.sub_diag, firstn_all in F. cbn [firstn] in F. rewrite app_nil_r in F.
          rewrite <- F at 1. symmetry. apply firstn_skipn. }
        rewrite Ex in E. rewrite <- app_assoc in E. apply app_inv_head in E.
        destruct (IH _ _ Hms E) as (m1 & m2 & tail & -> & Ex' & Hi & Et).
        exists (m :: m1), m2, tail. split; [reflexivity|]. split; [|split; assumption].
        rewrite Ex, Ex'. cbn [concat]. now rewrite app_assoc.
  Qed.

  Lemma frames_nonempty msgs : Forall wf_frame msgs -> length msgs <= length (concat msgs).
  Proof.
    induction msgs as [|m msgs IH]; intros H; [cbn; lia|]. inversion H as [|? ? (hi & lo & _ & _ & _ & H19 & _) Hr]; subst.
    cbn [concat length]. rewrite app_length. specialize (IH Hr). lia.
  Qed.

  (* however the stream of messages is cut into reads, exactly these messages come out, in order, and nothing is left *)
  Lemma c09_chunking_proof : forall chunks msgs b,
    Forall wf_frame msgs -> incomplete b msgs -> b ++ concat chunks = concat msgs -> feed valid b chunks = Ok (msgs, []).
  Proof.
    induction chunks as [|c cs IH]; intros msgs b Hw Hi E.
    - cbn [concat] in E. rewrite app_nil_r in E. cbn [feed].
      destruct msgs as [|m r].
      + cbn in E. now subst.
      + exfalso. assert (H19 : 19 <= length m) by (inversion Hw as [|? ? (hi & lo & _ & _ & _ & H & _) _]; exact H).
        cbn [concat] in E. assert (Lb : length b = length m + length (concat r)) by (rewrite E, app_length; reflexivity).
        destruct Hi as [->|(m' & r' & Em & (y & Hy & Ey))]; [cbn [length] in Lb; lia|].
        apply f_equal with (f := @length N) in Ey. rewrite app_length in Ey.
        assert (m' = m) by congruence. subst m'. destruct y; [congruence|]. cbn [length] in Ey. lia.
    - cbn [concat] in E. rewrite app_assoc in E.
      destruct (prefix_split msgs (b ++ c) (concat cs) Hw E) as (m1 & m2 & tail & -> & Ex & Hi2 & Et).
      apply Forall_app in Hw as (Hw1 & Hw2). cbn [feed]. rewrite Ex.
      rewrite (drain_complete m1 _ tail m2) by (try assumption; pose proof (frames_nonempty m1 Hw1); rewrite app_length; lia).
      cbn [bind]. rewrite (IH m2 tail Hw2 Hi2 Et). reflexivity.
  Qed.

  (* a length field below 19 is an error as soon as the 18 header octets are there; nothing panics *)
  Lemma c09_bad_length_proof buf hi lo :
    18 <= length buf -> nth_error buf 16 = Some hi -> nth_error buf 17 = Some lo -> N.to_nat (hi * 256 + lo)%N < 19 ->
    parse_frame valid buf = Err.
  Proof.
    intros L H16 H17 Hl. unfold parse_frame. replace (Nat.leb 18 (length buf)) with true by (symmetry; now apply Nat.leb_le).
    rewrite H16, H17. replace (Nat.ltb _ 19) with true by (symmetry; now apply Nat.ltb_lt). reflexivity.
  Qed.

  Lemma c09_invalid_frame_proof buf hi lo :
    18 <= length buf -> nth_error buf 16 = Some hi -> nth_error buf 17 = Some lo ->
    19 <= N.to_nat (hi * 256 + lo)%N <= length buf -> valid (firstn (N.to_nat (hi * 256 + lo)%N) buf) = false ->
    parse_frame valid buf = Err.
  Proof.
    intros L H16 H17 (L1 & L2) Hv. unfold parse_frame. replace (Nat.leb 18 (length buf)) with true by (symmetry; now apply Nat.leb_le).
    rewrite H16, H17. replace (Nat.ltb _ 19) with false by (symmetry; apply Nat.ltb_ge; lia).
    replace (Nat.leb _ _) with true by (symmetry; apply Nat.leb_le; lia). now rewrite Hv.
  Qed.

  Lemma drain_np : forall fuel buf, drain valid fuel buf <> Panic.
  Proof.
    induction fuel as [|f IH]; intros buf; cbn [drain]; [discriminate|]. pose proof (parse_frame_np buf) as H.
    destruct (parse_frame valid buf) as [[[fr rest]|]| |]; try discriminate; [|congruence].
    specialize (IH rest). destruct (drain valid f rest) as [[l b]| |]; cbn [bind]; congruence.
  Qed.

  Lemma c09_feed_np_proof : forall chunks buf, feed valid buf chunks <> Panic.
  Proof.
    induction chunks as [|c cs IH]; intros buf; cbn [feed]; [discriminate|].
    pose proof (drain_np (S (length (buf ++ c))) (buf ++ c)) as H.
    destruct (drain valid _ (buf ++ c)) as [[l b]| |]; cbn [bind]; try discriminate; [|congruence].
    specialize (IH b). destruct (feed valid b cs) as [[l' b']| |]; cbn [bind]; congruence.
  Qed.

  (* ---- the socket reader (Connection::read_frame under the session's read loop) ---- *)
  Lemma read_frame_eq buf reads :
    read_frame valid buf reads =
    match parse_frame valid buf with
    | Ok (Some (fr, rest)) => Ok (Some (fr, rest, reads))
    | Ok None =>
      match reads with
      | (_ :: _) as c :: tl => read_frame valid (buf ++ c) tl
      | _ => match buf with [] => Ok None | _ => Err end
      end
    | Err => Err
    | Panic => Panic
    end.
  Proof. destruct reads; reflexivity. Qed.

  Definition nonempty (c : bytes) : Prop := c <> [].

  (* the next message of the stream comes out whole, whatever is buffered and however the rest arrives *)
  Lemma read_frame_next : forall chunks b m rest,
    wf_frame m -> Forall nonempty chunks -> b ++ concat chunks = m ++ rest ->
    exists b' chunks', read_frame valid b chunks = Ok (Some (m, b', chunks')) /\ b' ++ concat chunks' = rest /\ Forall nonempty chunks'.
  Proof.
    induction chunks as [|c cs IH]; intros b m rest Hm Hne E; rewrite read_frame_eq.
    - cbn [concat] in E. rewrite app_nil_r in E. subst b. rewrite parse_frame_whole by assumption.
      exists rest, []. cbn [concat]. rewrite app_nil_r. auto.
    - destruct (Nat.lt_ge_cases (length b) (length m)) as [L|L].
      + assert (Hp : partial_of b m).
        { exists (skipn (length b) m). split.
          - intros E0. apply f_equal with (f := @length N) in E0. rewrite skipn_length in E0. cbn [length] in E0. lia.
          - assert (F : firstn (length b) (b ++ concat (c :: cs)) = firstn (length b) (m ++ rest)) by now rewrite E.
            rewrite firstn_app, Nat.sub_diag, firstn_all in F. cbn [firstn] in F. rewrite app_nil_r in F.
            rewrite firstn_app in F. replace (length b - length m) with 0 in F by lia. cbn [firstn] in F. rewrite app_nil_r in F.
            rewrite <- (firstn_skipn (length b) m) at 2. f_equal. exact F. }
        rewrite (parse_frame_partial b m Hm Hp). inversion Hne as [|? ? Hc Hcs]; subst.
        destruct c as [|c0 c']; [now elim Hc|]. apply IH; [assumption|assumption|].
        cbn [concat] in E. now rewrite <- app_assoc.
      + assert (Eb : b = m ++ skipn (length m) b).
        { assert (F : firstn (length m) (b ++ concat (c :: cs)) = firstn (length m) (m ++ rest)) by now rewrite E.
          rewrite firstn_app in F. replace (length m - length b) with 0 in F by lia. cbn [firstn] in F. rewrite app_nil_r in F.
          rewrite firstn_app, Nat.sub_diag, firstn_all in F. cbn [firstn] in F. rewrite app_nil_r in F.
          rewrite <- F at 1. symmetry. apply firstn_skipn. }
        remember (skipn (length m) b) as b' eqn:Eb'. clear Eb'. subst b. rewrite parse_frame_whole by assumption.
        exists b', (c :: cs). split; [reflexivity|]. split; [|assumption]. rewrite <- app_assoc in E. now apply app_inv_head in E.
  Qed.

  (* the peer closes inside a message: an error, once what precedes it has come out *)
  Lemma read_frame_cut : forall chunks b m,
    wf_frame m -> Forall nonempty chunks -> partial_of (b ++ concat chunks) m -> b ++ concat chunks <> [] ->
    read_frame valid b chunks = Err.
  Proof.
    induction chunks as [|c cs IH]; intros b m Hm Hne Hp Hn; rewrite read_frame_eq.
    - cbn [concat] in Hp, Hn. rewrite app_nil_r in Hp, Hn. rewrite (parse_frame_partial b m Hm Hp). destruct b; [congruence|reflexivity].
    - assert (Hpb : partial_of b m).
      { destruct Hp as (y & Hy & Ey). exists (concat (c :: cs) ++ y). split; [|now rewrite app_assoc].
        intros E0. apply app_eq_nil in E0 as (_ & E0). congruence. }
      rewrite (parse_frame_partial b m Hm Hpb). inversion Hne as [|? ? Hc Hcs]; subst.
      destruct c as [|c0 c']; [now elim Hc|]. cbn [concat] in Hp, Hn. rewrite app_assoc in Hp, Hn. now apply (IH _ m).
  Qed.

  Lemma all_empty : forall chunks : list bytes, Forall nonempty chunks -> concat chunks = [] -> chunks = [].
  Proof. intros [|c cs] H E; [reflexivity|]. inversion H; subst. cbn [concat] in E. apply app_eq_nil in E as (-> & _). now elim H2. Qed.

  (* every message once, in order, then the close - or the error where the stream is cut inside a message *)
  Lemma c09_reader_proof : forall msgs chunks b,
    Forall wf_frame msgs -> Forall nonempty chunks -> b ++ concat chunks = concat msgs ->
    read_all valid (S (length msgs)) b chunks = (msgs, RdEof).
  Proof.
    induction msgs as [|m r IH]; intros chunks b Hw Hne E.
    - cbn [concat] in E. apply app_eq_nil in E as (-> & E). rewrite (all_empty chunks Hne E). reflexivity.
    - inversion Hw as [|? ? Hm Hr]; subst. cbn [concat] in E.
      destruct (read_frame_next chunks b m (concat r) Hm Hne E) as (b' & chunks' & R & E' & Hne').
      change (read_all valid (S (length (m :: r))) b chunks) with
        (match read_frame valid b chunks with
         | Ok (Some (fr, rest, reads')) => let (l, e) := read_all valid (S (length r)) rest reads' in (fr :: l, e)
         | Ok None => ([], RdEof) | Err => ([], RdErr) | Panic => ([], RdPanic) end).
      rewrite R, (IH chunks' b' Hr Hne' E'). reflexivity.
  Qed.

  Lemma c09_reader_cut_proof : forall msgs chunks b t m,
    Forall wf_frame msgs -> wf_frame m -> Forall nonempty chunks -> partial_of t m -> t <> [] -> b ++ concat chunks = concat msgs ++ t ->
    read_all valid (S (length msgs)) b chunks = (msgs, RdErr).
  Proof.
    induction msgs as [|m0 r IH]; intros chunks b t m Hw Hm Hne Hp Ht E.
    - cbn [concat app] in E. cbn [length read_all]. rewrite (read_frame_cut chunks b m Hm Hne); [reflexivity|now rewrite E|now rewrite E].
    - inversion Hw as [|? ? Hm0 Hr]; subst. cbn [concat] in E. rewrite <- app_assoc in E.
      destruct (read_frame_next chunks b m0 (concat r ++ t) Hm0 Hne E) as (b' & chunks' & R & E' & Hne').
      change (read_all valid (S (length (m0 :: r))) b chunks) with
        (match read_frame valid b chunks with
         | Ok (Some (fr, rest, reads')) => let (l, e) := read_all valid (S (length r)) rest reads' in (fr :: l, e)
         | Ok None => ([], RdEof) | Err => ([], RdErr) | Panic => ([], RdPanic) end).
      rewrite R, (IH chunks' b' t m Hr Hm Hne' Hp Ht E'). reflexivity.
  Qed.

  (* what the front of the buffer yields does not change when more octets arrive behind it *)
  Lemma parse_frame_more_some b x fr rest :
    parse_frame valid b = Ok (Some (fr, rest)) -> parse_frame valid (b ++ x) = Ok (Some (fr, rest ++ x)).
  Proof.
    unfold parse_frame. destruct (Nat.leb 18 (length b)) eqn:E18; [|discriminate]. apply Nat.leb_le in E18.
    rewrite app_length. replace (Nat.leb 18 (length b + length x)) with true by (symmetry; apply Nat.leb_le; lia).
    rewrite !nth_error_app1 by lia.
    destruct (nth_error b 16) as [hi|]; [|discriminate]. destruct (nth_error b 17) as [lo|]; [|discriminate].
    set (len := N.to_nat (hi * 256 + lo)%N). destruct (Nat.ltb len 19) eqn:E19; [discriminate|]. apply Nat.ltb_ge in E19.
    destruct (Nat.leb (len - 18) (length b - 18)) eqn:El; [|discriminate]. apply Nat.leb_le in El.
    replace (Nat.leb (len - 18) (length b + length x - 18)) with true by (symmetry; apply Nat.leb_le; lia).
    assert (Ef : firstn len (b ++ x) = firstn len b).
    { rewrite firstn_app. replace (len - length b) with 0 by lia. cbn [firstn]. now rewrite app_nil_r. }
    rewrite Ef. destruct (valid (firstn len b)); [|discriminate]. intros H. apply Ok_inj in H. inversion H; subst.
    rewrite skipn_app. replace (len - length b) with 0 by lia. reflexivity.
  Qed.

  Lemma parse_frame_more_err b x : parse_frame valid b = Err -> parse_frame valid (b ++ x) = Err.
  Proof.
    unfold parse_frame. destruct (Nat.leb 18 (length b)) eqn:E18; [|discriminate]. apply Nat.leb_le in E18.
    rewrite app_length. replace (Nat.leb 18 (length b + length x)) with true by (symmetry; apply Nat.leb_le; lia).
    rewrite !nth_error_app1 by lia.
    destruct (nth_error b 16) as [hi|]; [|discriminate]. destruct (nth_error b 17) as [lo|]; [|discriminate].
    set (len := N.to_nat (hi * 256 + lo)%N). destruct (Nat.ltb len 19) eqn:E19; [reflexivity|]. apply Nat.ltb_ge in E19.
    destruct (Nat.leb (len - 18) (length b - 18)) eqn:El; [|discriminate]. apply Nat.leb_le in El.
    replace (Nat.leb (len - 18) (length b + length x - 18)) with true by (symmetry; apply Nat.leb_le; lia).
    assert (Ef : firstn len (b ++ x) = firstn len b).
    { rewrite firstn_app. replace (len - length b) with 0 by lia. cbn [firstn]. now rewrite app_nil_r. }
    rewrite Ef. destruct (valid (firstn len b)); [discriminate|reflexivity].
  Qed.

  Lemma read_all_S f b reads :
    read_all valid (S f) b reads =
    match read_frame valid b reads with
    | Ok (Some (fr, rest, reads')) => let (l, e) := read_all valid f rest reads' in (fr :: l, e)
    | Ok None => ([], RdEof) | Err => ([], RdErr) | Panic => ([], RdPanic) end.
  Proof. reflexivity. Qed.

  (* the reader's whole outcome - the frames delivered and how it ends - is a function of the octet stream alone: reading it in any
     pieces gives what having it all in the buffer gives.  No well-formedness is assumed: this covers every stream of octets *)
  Lemma read_all_canonical : forall fuel chunks b,
    Forall nonempty chunks -> read_all valid fuel b chunks = read_all valid fuel (b ++ concat chunks) [].
  Proof.
    induction fuel as [|f IHf]; intros chunks b Hne; [reflexivity|].
    revert b. induction chunks as [|c cs IHc]; intros b; [cbn [concat]; now rewrite app_nil_r|].
    inversion Hne as [|? ? Hc Hcs]; subst. specialize (IHc Hcs).
    rewrite !read_all_S. rewrite (read_frame_eq b (c :: cs)), (read_frame_eq (b ++ concat (c :: cs)) []).
    pose proof (parse_frame_np b) as Hnp.
    destruct (parse_frame valid b) as [[[fr rest]|]| |] eqn:Ep; [| | |congruence].
    - rewrite (parse_frame_more_some b (concat (c :: cs)) fr rest Ep). now rewrite (IHf (c :: cs) rest Hne).
    - destruct c as [|c0 c']; [now elim Hc|]. specialize (IHc (b ++ c0 :: c')). rewrite !read_all_S in IHc.
      cbn [concat]. rewrite app_assoc. rewrite <- (read_frame_eq ((b ++ c0 :: c') ++ concat cs) []). exact IHc.
    - now rewrite (parse_frame_more_err b (concat (c :: cs)) Ep).
  Qed.

  Lemma c09_reader_partition_proof : forall fuel chunks1 chunks2 b,
    Forall nonempty chunks1 -> Forall nonempty chunks2 -> concat chunks1 = concat chunks2 ->
    read_all valid fuel b chunks1 = read_all valid fuel b chunks2.
  Proof. intros fuel c1 c2 b H1 H2 E. rewrite (read_all_canonical fuel c1 b H1), (read_all_canonical fuel c2 b H2). now rewrite E. Qed.

  Lemma read_frame_np : forall reads buf, read_frame valid buf reads <> Panic.
  Proof.
    induction reads as [|c cs IH]; intros buf; rewrite read_frame_eq; pose proof (parse_frame_np buf) as H;
      destruct (parse_frame valid buf) as [[[fr rest]|]| |]; try discriminate; try congruence.
    - destruct buf; discriminate.
    - destruct c; [destruct buf; discriminate|apply IH].
  Qed.

  Lemma c09_reader_np_proof : forall fuel buf reads, snd (read_all valid fuel buf reads) <> RdPanic.
  Proof.
    induction fuel as [|f IH]; intros buf reads; cbn [read_all]; [discriminate|]. pose proof (read_frame_np reads buf) as H.
    destruct (read_frame valid buf reads) as [[[[fr rest] reads']|]| |]; try discriminate; [|congruence].
    specialize (IH rest reads'). destruct (read_all valid f rest reads') as [l e]. exact IH.
  Qed.
End Frames.

(* the blocking reader: a frame or an error for every length value *)
Lemma c09_read_message_np_proof h avail : read_message h avail <> Panic.
Proof.
  unfold read_message. destruct (Nat.eqb_spec (length h) 18) as [E|E]; cbn [negb]; [|discriminate].
  destruct (nth_error h 16) eqn:E16; [|apply nth_error_None in E16; lia].
  destruct (nth_error h 17) eqn:E17; [|apply nth_error_None in E17; lia].
  destruct (_ || _); discriminate.
Qed.

Lemma c09_read_message_spec_proof h avail hi lo :
  length h = 18 -> nth_error h 16 = Some hi -> nth_error h 17 = Some lo ->
  let len := N.to_nat (hi * 256 + lo)%N in
  (len < 19 \/ 4096 < len -> read_message h avail = Err) /\
  (19 <= len <= 4096 -> len - 18 <= length avail -> read_message h avail = Ok (Some (h ++ firstn (len - 18) avail))).
Proof.
  intros L H16 H17 len. unfold read_message. rewrite L, H16, H17. cbn [Nat.eqb negb]. fold len. split.
  - intros [H|H].
    + replace (Nat.ltb len 19) with true by (symmetry; now apply Nat.ltb_lt). reflexivity.
    + replace (Nat.ltb 4096 len) with true by (symmetry; now apply Nat.ltb_lt). rewrite orb_true_r. reflexivity.
  - intros (H1 & H2) Ha. replace (Nat.ltb len 19) with false by (symmetry; apply Nat.ltb_ge; lia).
    replace (Nat.ltb 4096 len) with false by (symmetry; apply Nat.ltb_ge; lia). cbn [orb].
    rewrite firstn_app. replace (len - 18 - length avail) with 0 by lia. cbn [firstn]. now rewrite app_nil_r.
Qed.
