From Coq Require Import List Arith NArith ZArith Bool Lia ZifyN ZifyNat ZifyBool.
From RC Require Import Base.Res Base.Wire Proofs.WireProofs Model.AsPath.
Import ListNotations.
Open Scope N_scope.
Ltac Zify.zify_post_hook ::= Z.div_mod_to_equations.
Local Arguments Nat.mul : simpl never.
Local Arguments Nat.add : simpl never.
Local Arguments Nat.modulo : simpl never.
Local Arguments N.of_nat : simpl never.
Local Arguments N.to_nat : simpl never.

Definition asn_bound (four : bool) : N := if four then 4294967296 else 65536.
Definition asns_ok (four : bool) (l : list N) : Prop := Forall (fun a => a < asn_bound four) l.

Lemma asn_bound_pow four : asn_bound four = 256 ^ N.of_nat (asn_size four).
Proof. destruct four; reflexivity. Qed.

Lemma flat_be_length four l : length (flat_map (be (asn_size four)) l) = (asn_size four * length l)%nat.
Proof.
  induction l as [|a l IH]; cbn [flat_map length]; [lia|]. rewrite app_length, be_length, IH. lia.
Qed.

Lemma parse_asns_rt four asns rest pos :
  asns_ok four asns ->
  parse_asns four (length asns) (mkP (flat_map (be (asn_size four)) asns ++ rest) pos)
  = Ok (asns, mkP rest (pos + asn_size four * length asns)).
Proof.
  revert pos. induction asns as [|a asns IH]; intros pos Hok; cbn [length parse_asns flat_map].
  - cbn [app]. f_equal. f_equal. f_equal. lia.
  - inversion Hok as [|? ? Ha Hrest]; subst. rewrite <- app_assoc.
    rewrite parse_be_app by (rewrite <- asn_bound_pow; exact Ha). cbn [bind].
    rewrite IH by assumption. cbn [bind]. f_equal. f_equal. f_equal. lia.
Qed.

Definition seg_ok (four : bool) (s : seg) : Prop :=
  seg_type_ok (fst s) = true /\ (length (snd s) <= 255)%nat /\ asns_ok four (snd s).

Definition enc_segs (four : bool) (l : list seg) : bytes :=
  flat_map (fun s => seg_bytes four (fst s) (snd s)) l.

Lemma seg_bytes_length four t asns : length (seg_bytes four t asns) = (2 + asn_size four * length asns)%nat.
Proof. unfold seg_bytes. cbn [length]. rewrite flat_be_length. lia. Qed.

Lemma segments_rt four l : forall fuel pos,
  Forall (seg_ok four) l -> (length l < fuel)%nat ->
  segments fuel four (mkP (enc_segs four l) pos) = Ok l.
Proof.
  induction l as [|[t asns] l IH]; intros fuel pos Hok Hf.
  - destruct fuel; [lia|]. reflexivity.
  - destruct fuel as [|fuel]; [lia|]. inversion Hok as [|? ? (Ht & Hlen & Ha) Hrest]; subst. cbn [fst snd] in *.
    cbn [segments enc_segs flat_map fst snd]. unfold remaining. cbn [p_rest]. rewrite app_length, seg_bytes_length.
    match goal with |- context [Nat.eqb ?a 0] => destruct (Nat.eqb_spec a 0) as [E0|_]; [lia|] end.
    unfold seg_bytes at 1. cbn [app parse_u8 p_rest p_pos bind]. rewrite Ht. cbn [negb].
    cbn [parse_u8 p_rest p_pos bind]. rewrite Nat2N.id.
    rewrite parse_asns_rt by assumption. cbn [bind].
    fold (enc_segs four l). rewrite IH by (try assumption; cbn [length] in Hf; lia). reflexivity.
Qed.

Lemma enc_segs_length four l : (2 * length l <= length (enc_segs four l))%nat.
Proof.
  induction l as [|s l IH]; cbn [enc_segs flat_map length]; [lia|]. rewrite app_length, seg_bytes_length.
  fold (enc_segs four l). lia.
Qed.

Lemma wire_segments_rt four l : Forall (seg_ok four) l -> wire_segments four (enc_segs four l) = Ok l.
Proof.
  intros H. unfold wire_segments, parser_of. apply segments_rt; [assumption|].
  pose proof (enc_segs_length four l). lia.
Qed.

(* ---- the segmentation compose_as_path produces ---- *)
Definition run_segs (run : list N) : list seg :=
  let h := Nat.modulo (length run) 255 in
  (match h with O => [] | _ => [(2, firstn h run)] end) ++
  map (fun c => (2, c)) (chunks_of (S (length run)) 255 (skipn h run)).

Fixpoint hop_segs (fuel : nat) (l : list hop) : res (list seg) :=
  match fuel with
  | O => Err
  | S f =>
    match l with
    | [] => Ok []
    | _ =>
      let '(run, rest) := span_asn l in
      match rest with
      | [] => Ok (run_segs run)
      | HSeg t asns :: tl =>
        if Nat.ltb 255 (length asns) then Panic else
        let* r := hop_segs f tl in Ok (run_segs run ++ (t, asns) :: r)
      | HAsn _ :: _ => Panic
      end
    end
  end.

Lemma enc_segs_app four a b : enc_segs four (a ++ b) = enc_segs four a ++ enc_segs four b.
Proof. unfold enc_segs. apply flat_map_app. Qed.

Lemma enc_segs_map2 four cs : enc_segs four (map (fun c => (2, c)) cs) = flat_map (seg_bytes four 2) cs.
Proof. induction cs as [|c cs IH]; [reflexivity|]. cbn [map enc_segs flat_map fst snd]. fold (enc_segs four (map (fun c => (2, c)) cs)). now rewrite IH. Qed.

Lemma emit_run_segs four run : emit_run four run = enc_segs four (run_segs run).
Proof.
  unfold emit_run, run_segs. rewrite enc_segs_app. f_equal.
  - destruct (Nat.modulo (length run) 255); [reflexivity|]. cbn. now rewrite app_nil_r.
  - now rewrite enc_segs_map2.
Qed.

Lemma compose_hops_segs fuel l : compose_hops fuel l = rmap (enc_segs true) (hop_segs fuel l).
Proof.
  revert l. induction fuel as [|fuel IH]; intros l; [reflexivity|].
  cbn [compose_hops hop_segs]. destruct l as [|h l]; [reflexivity|].
  destruct (span_asn (h :: l)) as [run rest]. rewrite emit_run_segs.
  destruct rest as [|[a|t asns] tl]; [reflexivity|reflexivity|].
  unfold emit_seg. destruct (Nat.ltb 255 (length asns)); [reflexivity|]. cbn [bind].
  rewrite IH. destruct (hop_segs fuel tl) as [r| |]; cbn [bind rmap]; [|reflexivity|reflexivity].
  rewrite enc_segs_app. cbn [enc_segs flat_map fst snd]. reflexivity.
Qed.

(* ---- chunks ---- *)
Lemma In_firstn_list {A} (x : A) k l : In x (firstn k l) -> In x l.
Proof. intros H. rewrite <- (firstn_skipn k l). apply in_or_app. now left. Qed.
Lemma In_skipn_list {A} (x : A) k l : In x (skipn k l) -> In x l.
Proof. intros H. rewrite <- (firstn_skipn k l). apply in_or_app. now right. Qed.

Lemma chunks_of_concat {A} fuel k (l : list A) : (0 < k)%nat -> (length l < fuel)%nat -> concat (chunks_of fuel k l) = l.
Proof.
  intros Hk. revert l. induction fuel as [|fuel IH]; intros l Hl; [lia|]. cbn [chunks_of].
  destruct l as [|x l]; [reflexivity|]. cbn [concat]. rewrite IH.
  - apply firstn_skipn.
  - rewrite skipn_length. cbn [length] in *. lia.
Qed.

Lemma chunks_of_forall {A} fuel k (l : list A) (P : list A -> Prop) :
  (0 < k)%nat -> (forall c, c <> [] -> (length c <= k)%nat -> (exists r, firstn k (c ++ r) = c) -> P c) ->
  Forall (fun c => c <> [] /\ (length c <= k)%nat) (chunks_of fuel k l).
Proof.
  intros Hk _. revert l. induction fuel as [|fuel IH]; intros l; cbn [chunks_of]; [constructor|].
  destruct l as [|x l]; [constructor|]. constructor; [|apply IH].
  split.
  - destruct k; [lia|]. cbn. discriminate.
  - rewrite firstn_length. lia.
Qed.

Lemma chunks_nonempty {A} fuel k (l : list A) :
  (0 < k)%nat -> Forall (fun c => c <> [] /\ (length c <= k)%nat) (chunks_of fuel k l).
Proof. intros Hk. apply (chunks_of_forall fuel k l (fun _ => True)); auto. Qed.

Lemma chunks_in_sub {A} fuel k (l : list A) c x : In c (chunks_of fuel k l) -> In x c -> In x l.
Proof.
  revert l. induction fuel as [|fuel IH]; intros l; cbn [chunks_of]; [intros []|].
  destruct l as [|y l]; [intros []|]. intros [<-|Hc] Hx.
  - eapply (In_firstn_list x k). exact Hx. 
  - specialize (IH _ Hc Hx). eapply In_skipn_list. exact IH. 
Qed.

(* flattening the segments of a run gives back the run *)
Lemma hops_of_segs_app a b : hops_of_segs (a ++ b) = hops_of_segs a ++ hops_of_segs b.
Proof. unfold hops_of_segs. apply flat_map_app. Qed.

Lemma hops_seq_chunks (cs : list (list N)) :
  Forall (fun c => c <> []) cs -> hops_of_segs (map (fun c => (2, c)) cs) = map HAsn (concat cs).
Proof.
  induction cs as [|c cs IH]; intros H; [reflexivity|]. inversion H as [|? ? Hc Hcs]; subst.
  cbn [map hops_of_segs flat_map concat]. rewrite map_app. f_equal; [|apply IH; assumption].
  cbn. destruct c; [contradiction|reflexivity].
Qed.

Lemma run_hops run : hops_of_segs (run_segs run) = map HAsn run.
Proof.
  unfold run_segs. rewrite hops_of_segs_app.
  set (h := Nat.modulo (length run) 255).
  assert (Hh : (h <= length run)%nat) by (subst h; pose proof (Nat.mod_le (length run) 255); lia).
  rewrite hops_seq_chunks.
  2:{ pose proof (chunks_nonempty (S (length run)) 255 (skipn h run)) as F.
      eapply Forall_impl; [|apply F; lia]. cbn. tauto. }
  rewrite chunks_of_concat by (try lia; rewrite skipn_length; lia).
  transitivity (map HAsn (firstn h run ++ skipn h run)); [|now rewrite firstn_skipn]. rewrite map_app. f_equal.
  destruct h eqn:E; [reflexivity|].
  destruct run as [|a0 run']; [cbn in Hh; lia|]. cbn. now rewrite app_nil_r.
Qed.

Lemma run_segs_ok four run : asns_ok four run -> Forall (seg_ok four) (run_segs run).
Proof.
  intros Hok. unfold run_segs. apply Forall_app. split.
  - destruct (Nat.modulo (length run) 255) eqn:E; [constructor|]. constructor; [|constructor].
    split; [reflexivity|]. cbn [snd]. split.
    + rewrite firstn_length. pose proof (Nat.mod_upper_bound (length run) 255). lia.
    + unfold asns_ok in *. rewrite Forall_forall in *. intros x Hx. apply Hok. eapply In_firstn_list; eauto. 
  - apply Forall_forall. intros s Hs. apply in_map_iff in Hs as (c & <- & Hc).
    pose proof (chunks_nonempty (S (length run)) 255 (skipn (Nat.modulo (length run) 255) run)) as F.
    rewrite Forall_forall in F. destruct (F ltac:(lia) c Hc) as [_ Hlen].
    split; [reflexivity|]. split; [exact Hlen|]. cbn [snd].
    unfold asns_ok in *. rewrite Forall_forall in *. intros x Hx. apply Hok.
    eapply In_skipn_list. eapply chunks_in_sub; eauto. 
Qed.

(* ---- canonical hop paths ---- *)
Definition hop_ok (h : hop) : Prop :=
  match h with
  | HAsn a => a < 4294967296
  | HSeg t asns => seg_type_ok t = true /\ (length asns <= 255)%nat /\ asns_ok true asns /\ (t = 2 -> asns = [])
  end.

Lemma span_asn_spec l : forall run rest, span_asn l = (run, rest) ->
  l = map HAsn run ++ rest /\ (match rest with HAsn _ :: _ => False | _ => True end) /\ (length rest <= length l)%nat.
Proof.
  induction l as [|h l IH]; intros run rest; cbn [span_asn].
  - intros H. inversion H; subst. cbn. auto.
  - destruct h as [a|t asns].
    + destruct (span_asn l) as [r rs]. intros H. inversion H; subst.
      destruct (IH r rest eq_refl) as (E & N & L). split; [cbn; now rewrite <- E|]. split; [exact N|cbn [length]; lia].
    + intros H. inversion H; subst. cbn. auto.
Qed.

Lemma hop_segs_spec fuel : forall l,
  Forall hop_ok l -> (length l < fuel)%nat ->
  exists segs, hop_segs fuel l = Ok segs /\ Forall (seg_ok true) segs /\ hops_of_segs segs = l.
Proof.
  induction fuel as [|fuel IH]; intros l Hok Hf; [lia|]. cbn [hop_segs].
  destruct l as [|h l]; [exists []; repeat split; constructor|].
  destruct (span_asn (h :: l)) as [run rest] eqn:Es.
  destruct (span_asn_spec _ _ _ Es) as (El & Hn & Hl).
  assert (Hrun : asns_ok true run).
  { rewrite El in Hok. apply Forall_app in Hok as [H1 _]. unfold asns_ok. rewrite Forall_forall in *.
    intros x Hx. apply (H1 (HAsn x)). apply in_map_iff. eauto. }
  assert (Hrest : Forall hop_ok rest) by (rewrite El in Hok; apply Forall_app in Hok as [_ H2]; exact H2).
  destruct rest as [|[a|t asns] tl]; [|contradiction|].
  - exists (run_segs run). split; [reflexivity|]. split; [now apply run_segs_ok|].
    rewrite run_hops, El. now rewrite app_nil_r.
  - inversion Hrest as [|? ? Hh0 Htl]; subst. cbn [hop_ok] in Hh0. destruct Hh0 as (Ht & Hlen & Ha & Hseq).
    replace (Nat.ltb 255 (length asns)) with false by (symmetry; apply Nat.ltb_ge; lia).
    destruct (IH tl Htl) as (segs & E & Hsegs & Hh).
    { cbn [length] in Hl, Hf. lia. }
    rewrite E. cbn [bind]. exists (run_segs run ++ (t, asns) :: segs). split; [reflexivity|]. split.
    + apply Forall_app. split; [now apply run_segs_ok|]. constructor; [|exact Hsegs]. repeat split; assumption.
    + rewrite hops_of_segs_app, run_hops, El. f_equal. cbn [hops_of_segs flat_map]. fold (hops_of_segs segs). rewrite Hh.
      cbn [hops_of_seg]. destruct (t =? 2) eqn:E2; [|reflexivity].
      apply N.eqb_eq in E2. rewrite (Hseq E2). subst t. reflexivity.
Qed.

Lemma c13_to_wire_proof l :
  Forall hop_ok l ->
  exists w segs, to_as_path l = Ok w /\ wire_segments true w = Ok segs /\
                 Forall (fun s => (length (snd s) <= 255)%nat) segs /\ wire_hops true w = Ok l.
Proof.
  intros Hok. destruct (hop_segs_spec (S (length l)) l Hok ltac:(lia)) as (segs & E & Hs & Hh).
  exists (enc_segs true segs), segs. unfold to_as_path. rewrite compose_hops_segs, E. cbn [rmap].
  split; [reflexivity|]. rewrite wire_segments_rt by assumption. split; [reflexivity|]. split.
  - eapply Forall_impl; [|exact Hs]. intros s (_ & H & _). exact H.
  - unfold wire_hops. rewrite wire_segments_rt by assumption. cbn [rmap]. now rewrite Hh.
Qed.

(* ---- wire -> hops -> wire ---- *)
Lemma parse_asns_ok four n : forall p asns p',
  wf_bytes (p_rest p) -> parse_asns four n p = Ok (asns, p') ->
  length asns = n /\ Forall (fun a => a < 4294967296) asns /\ wf_bytes (p_rest p') /\ (remaining p' <= remaining p)%nat.
Proof.
  induction n as [|n IH]; intros p asns p' Hwf; cbn [parse_asns].
  - intros H. inversion H; subst. repeat split; auto.
  - unfold parse_be. destruct (take (asn_size four) p) as [[v p1]| |] eqn:Et; cbn [bind]; try discriminate.
    destruct (parse_asns four n p1) as [[r p2]| |] eqn:Er; cbn [bind]; try discriminate.
    intros H. inversion H; subst.
    pose proof (take_ok _ _ _ _ Et) as (E1 & E2 & _). pose proof (take_remaining _ _ _ _ Et) as R1.
    rewrite E1 in Hwf. apply Forall_app in Hwf as [Hv Hp1].
    destruct (IH p1 r p' Hp1 Er) as (L & F & W & R). repeat split; auto; [cbn [length]; lia| |lia].
    constructor; [|exact F]. pose proof (unbe_bound v Hv) as B. rewrite E2 in B.
    destruct four; cbn in B; lia.
Qed.

Definition seg_ok32 (s : seg) : Prop :=
  seg_type_ok (fst s) = true /\ (length (snd s) <= 255)%nat /\ asns_ok true (snd s).

Lemma segments_ok fuel four : forall p segs,
  wf_bytes (p_rest p) -> segments fuel four p = Ok segs -> Forall seg_ok32 segs.
Proof.
  induction fuel as [|fuel IH]; intros p segs Hwf; cbn [segments]; [discriminate|].
  destruct (Nat.eqb (remaining p) 0); [intros H; inversion H; constructor|].
  destruct (parse_u8 p) as [[t p1]| |] eqn:E1; cbn [bind]; try discriminate.
  destruct (seg_type_ok t) eqn:Et; cbn [negb]; [|discriminate].
  destruct (parse_u8 p1) as [[len p2]| |] eqn:E2; cbn [bind]; try discriminate.
  destruct (parse_asns four (N.to_nat len) p2) as [[asns p3]| |] eqn:E3; cbn [bind]; try discriminate.
  destruct (segments fuel four p3) as [r| |] eqn:E4; cbn [bind]; try discriminate.
  intros H. inversion H; subst.
  assert (W1 : wf_bytes (p_rest p1) /\ t < 256).
  { unfold parse_u8 in E1. destruct (p_rest p) eqn:Ep; [discriminate|]. inversion E1; subst. cbn. inversion Hwf; auto. }
  destruct W1 as [W1 _].
  assert (W2 : wf_bytes (p_rest p2) /\ len < 256).
  { unfold parse_u8 in E2. destruct (p_rest p1) eqn:Ep; [discriminate|]. inversion E2; subst. cbn. inversion W1; auto. }
  destruct W2 as [W2 Hlen].
  destruct (parse_asns_ok four _ _ _ _ W2 E3) as (L & F & W3 & _).
  constructor; [|eapply IH; eassumption].
  split; [exact Et|]. cbn [snd]. split; [lia|exact F].
Qed.

Lemma hops_of_segs_ok segs : Forall seg_ok32 segs -> Forall hop_ok (hops_of_segs segs).
Proof.
  induction segs as [|[t asns] segs IH]; intros H; [constructor|]. inversion H as [|? ? (Ht & Hl & Ha) Hr]; subst.
  cbn [hops_of_segs flat_map]. apply Forall_app. split; [|apply IH; assumption]. cbn [fst snd] in *.
  unfold hops_of_seg. destruct (t =? 2) eqn:E2.
  - destruct asns as [|a asns].
    + constructor; [|constructor]. cbn. repeat split; auto.
    + apply Forall_forall. intros h Hh. apply in_map_iff in Hh as (x & <- & Hx). cbn.
      unfold asns_ok in Ha. rewrite Forall_forall in Ha. apply (Ha x Hx).
  - constructor; [|constructor]. cbn. repeat split; auto. intros ->. discriminate.
Qed.

Lemma c13_wire_hops_proof four w h :
  wf_bytes w -> wire_hops four w = Ok h ->
  exists w', to_as_path h = Ok w' /\ wire_hops true w' = Ok h.
Proof.
  intros Hwf Hh. unfold wire_hops in Hh. destruct (wire_segments four w) as [segs| |] eqn:Es; cbn in Hh; try discriminate.
  inversion Hh; subst. unfold wire_segments in Es.
  pose proof (segments_ok _ _ (parser_of w) _ Hwf Es) as Hok. apply hops_of_segs_ok in Hok.
  destruct (c13_to_wire_proof _ Hok) as (w' & segs' & E1 & _ & _ & E2). eauto.
Qed.

Lemma c13_prepend_proof four w a n w' :
  wf_bytes w -> a < 4294967296 -> as_path_prepend four w a n = Ok w' ->
  exists h, wire_hops four w = Ok h /\ wire_hops true w' = Ok (repeat (HAsn a) n ++ h).
Proof.
  intros Hwf Ha. unfold as_path_prepend. destruct (wire_hops four w) as [h| |] eqn:Eh; cbn [bind]; try discriminate.
  intros Hp. exists h. split; [reflexivity|].
  unfold wire_hops in Eh. destruct (wire_segments four w) as [segs| |] eqn:Es; cbn in Eh; try discriminate. inversion Eh; subst.
  pose proof (segments_ok _ _ (parser_of w) _ Hwf Es) as Hok. apply hops_of_segs_ok in Hok.
  assert (Hall : Forall hop_ok (prepend_n (hops_of_segs segs) a n)).
  { unfold prepend_n. apply Forall_app. split; [|exact Hok]. apply Forall_forall. intros x Hx. apply repeat_spec in Hx. subst. exact Ha. }
  destruct (c13_to_wire_proof _ Hall) as (w2 & segs2 & E1 & _ & _ & E2). rewrite Hp in E1. inversion E1; subst. exact E2.
Qed.

(* ---- a 2-octet path and the 4-octet path with the same segments: ==, same hash input ---- *)
Definition as_path_eqb (fa : bool) (a : bytes) (fb : bool) (b : bytes) : res bool :=
  let* sa := wire_segments fa a in let* sb := wire_segments fb b in Ok (segs_eqb sa sb).
Definition as_path_hash (f : bool) (a : bytes) : res (list hword) := rmap path_hash (wire_segments f a).

Lemma asns_eqb_refl l : asns_eqb l l = true.
Proof. induction l; cbn; auto. now rewrite N.eqb_refl. Qed.
Lemma segs_eqb_refl l : segs_eqb l l = true.
Proof. induction l as [|[t a] l IH]; cbn; auto. unfold seg_eqb. cbn. now rewrite N.eqb_refl, asns_eqb_refl, IH. Qed.

Lemma c13_eq_hash_proof segs :
  Forall (seg_ok false) segs ->
  as_path_eqb false (enc_segs false segs) true (enc_segs true segs) = Ok true /\
  as_path_hash false (enc_segs false segs) = as_path_hash true (enc_segs true segs).
Proof.
  intros H16.
  assert (H32 : Forall (seg_ok true) segs).
  { eapply Forall_impl; [|exact H16]. intros s (A & B & C). repeat split; auto.
    eapply Forall_impl; [|exact C]. cbn. intros a Ha. cbn in Ha. lia. }
  unfold as_path_eqb, as_path_hash. rewrite !wire_segments_rt by assumption. cbn [bind rmap].
  now rewrite segs_eqb_refl.
Qed.

(* ---- conversion to 2-octet form fails exactly when some ASN exceeds 65535 ---- *)
Lemma span_fits l run rest : span_asn l = (run, rest) ->
  forallb hop_fits16 l = forallb fits16 run && forallb hop_fits16 rest.
Proof.
  revert run rest. induction l as [|h l IH]; intros run rest; cbn [span_asn].
  - intros H. inversion H; reflexivity.
  - destruct h as [a|t asns].
    + destruct (span_asn l) as [r rs]. intros H. inversion H; subst. cbn [forallb hop_fits16]. rewrite (IH r rest eq_refl).
      now rewrite andb_assoc.
    + intros H. inversion H; subst. reflexivity.
Qed.

Lemma c13_to16_gen fuel : forall l,
  Forall hop_ok l -> (length l < fuel)%nat ->
  (compose_hops16 fuel l = Err <-> forallb hop_fits16 l = false) /\ compose_hops16 fuel l <> Panic.
Proof.
  induction fuel as [|fuel IH]; intros l Hok Hf; [lia|]. cbn [compose_hops16].
  destruct l as [|h l]; [split; [split; discriminate|discriminate]|].
  destruct (span_asn (h :: l)) as [run rest] eqn:Es.
  rewrite (span_fits _ _ _ Es).
  destruct (span_asn_spec _ _ _ Es) as (El & Hn & Hl).
  assert (Hrest : Forall hop_ok rest) by (rewrite El in Hok; apply Forall_app in Hok as [_ H2]; exact H2).
  destruct (forallb fits16 run) eqn:Er; cbn [negb andb]; [|split; [tauto|discriminate]].
  destruct rest as [|[a|t asns] tl]; [split; [split; discriminate|discriminate]|contradiction|].
  inversion Hrest as [|? ? Hh0 Htl]; subst. cbn [hop_ok] in Hh0. destruct Hh0 as (Ht & Hlen & Ha & Hseq).
  replace (Nat.ltb 255 (length asns)) with false by (symmetry; apply Nat.ltb_ge; lia).
  cbn [forallb hop_fits16]. destruct (forallb fits16 asns) eqn:Ea; cbn [negb andb]; [|split; [tauto|discriminate]].
  destruct (IH tl Htl) as [I1 I2]. { cbn [length] in Hl, Hf. lia. }
  destruct (compose_hops16 fuel tl) as [r| |] eqn:Ec; cbn [bind].
  - split; [|discriminate]. split; [discriminate|]. intros F. apply I1 in F. discriminate.
  - split; [|discriminate]. split; [intros _; now apply I1|reflexivity].
  - contradiction.
Qed.

Lemma c13_to16_proof l :
  Forall hop_ok l ->
  (try_to_asn16_path l = Err <-> exists h, In h l /\ hop_fits16 h = false).
Proof.
  intros Hok. unfold try_to_asn16_path. destruct (c13_to16_gen (S (length l)) l Hok ltac:(lia)) as [I _].
  rewrite I. split.
  - intros F. induction l as [|h l IHl]; [discriminate|]. cbn in F. destruct (hop_fits16 h) eqn:E.
    + inversion Hok; subst. destruct IHl as (x & Hx & Ex); auto.
      { apply (c13_to16_gen (S (length l)) l); [assumption|lia]. }
      exists x. split; [now right|exact Ex].
    + exists h. split; [now left|exact E].
  - intros (h & Hin & E). destruct (forallb hop_fits16 l) eqn:F; [|reflexivity].
    rewrite forallb_forall in F. rewrite (F h Hin) in E. discriminate.
Qed.

Definition is_asn (h : hop) : bool := match h with HAsn _ => true | _ => false end.
Definition is_as_set (h : hop) : bool := match h with HSeg t _ => t =? 1 | _ => false end.

Lemma c13_hopcount_proof l :
  hop_count_path_selection l = (length (filter is_asn l) + length (filter is_as_set l))%nat.
Proof.
  induction l as [|h l IH]; [reflexivity|]. destruct h as [a|t asns]; cbn [hop_count_path_selection filter is_asn is_as_set length].
  - rewrite IH. lia.
  - destruct (t =? 1); cbn [length]; rewrite IH; lia.
Qed.

(* K1: a non-sequence segment with more than 255 ASNs cannot be written: to_as_path panics *)
Lemma c13_k1_witness_proof : to_as_path [HSeg 1 (repeat 1 256)] = Panic.
Proof. vm_compute. reflexivity. Qed.
