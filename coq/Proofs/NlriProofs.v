From Coq Require Import List NArith ZArith Bool Lia ZifyN ZifyNat ZifyBool.
From RC Require Import Base.Res Base.Wire Proofs.WireProofs Model.Nlri.
Import ListNotations.
Open Scope N_scope.
Ltac Zify.zify_post_hook ::= Z.div_mod_to_equations.
Local Arguments Nat.mul : simpl never.
Local Arguments Nat.add : simpl never.
Local Arguments N.of_nat : simpl never.
Local Arguments N.to_nat : simpl never.
Local Arguments N.mul : simpl never.
Local Arguments N.add : simpl never.
Local Arguments N.div : simpl never.
Local Arguments N.modulo : simpl never.

Ltac fix_pos :=
  match goal with
  | |- Ok (_, mkP _ ?a) = Ok (_, mkP _ ?b) => replace a with b by (cbn [length] in *; unfold prefix_bits_to_bytes in *; lia); reflexivity
  end.


Lemma all_zero_repeat l : all_zero l = true -> l = repeat 0 (length l).
Proof.
  induction l as [|x l IH]; cbn; [reflexivity|]. intros H. apply andb_true_iff in H as [H1 H2].
  apply N.eqb_eq in H1. subst. f_equal. now apply IH.
Qed.

Lemma bits_to_bytes_le v6 len : (len <= pf_maxlen v6)%nat -> (prefix_bits_to_bytes len <= pf_width v6)%nat.
Proof. unfold prefix_bits_to_bytes, pf_maxlen, pf_width. destruct v6; lia. Qed.

Lemma wf_prefix_unpack v6 x :
  wf_prefix v6 x = true ->
  pf_v6 x = v6 /\ (pf_len x <= pf_maxlen v6)%nat /\ length (pf_addr x) = pf_width v6 /\
  wf_bytes (pf_addr x) /\ host_zero (pf_len x) (pf_addr x) = true.
Proof.
  unfold wf_prefix. rewrite !andb_true_iff. intros [[[[H1 H2] H3] H4] H5].
  apply eqb_prop in H1. apply Nat.leb_le in H2. apply Nat.eqb_eq in H3. apply wf_bytesb_spec in H4. auto.
Qed.

Lemma host_zero_pad len addr w :
  length addr = w -> (prefix_bits_to_bytes len <= w)%nat -> host_zero len addr = true ->
  firstn (prefix_bits_to_bytes len) addr ++ repeat 0 (w - prefix_bits_to_bytes len) = addr.
Proof.
  intros Hl Hle Hz. unfold host_zero in Hz. apply andb_true_iff in Hz as [Hz _].
  apply all_zero_repeat in Hz. rewrite skipn_length, Hl in Hz. rewrite <- Hz. apply firstn_skipn.
Qed.

Lemma parse_prefix_for_len_rt v6 x rest pos :
  wf_prefix v6 x = true ->
  parse_prefix_for_len v6 (pf_len x) (mkP (compose_prefix_without_len x ++ rest) pos)
  = Ok (x, mkP rest (pos + prefix_bits_to_bytes (pf_len x))).
Proof.
  intros Hwf. apply wf_prefix_unpack in Hwf as (Hv & Hlen & Hw & Hb & Hz).
  unfold parse_prefix_for_len, compose_prefix_without_len.
  pose proof (bits_to_bytes_le v6 _ Hlen) as Hnb.
  replace (Nat.ltb (pf_width v6) (prefix_bits_to_bytes (pf_len x))) with false by (symmetry; apply Nat.ltb_ge; lia).
  rewrite take_app' by (rewrite firstn_length; lia). cbn [bind].
  rewrite (host_zero_pad _ _ (pf_width v6)) by assumption.
  unfold prefix_new.
  replace (Nat.ltb (pf_maxlen v6) (pf_len x)) with false by (symmetry; apply Nat.ltb_ge; lia).
  rewrite Hz. cbn [bind]. destruct x as [xv xl xa]. cbn in *. now subst.
Qed.

Lemma parse_prefix_rt v6 x rest pos :
  wf_prefix v6 x = true ->
  parse_prefix v6 (mkP (compose_prefix x ++ rest) pos)
  = Ok (x, mkP rest (pos + length (compose_prefix x))).
Proof.
  intros Hwf. unfold parse_prefix, compose_prefix. cbn [app parse_u8 p_rest p_pos bind].
  rewrite Nat2N.id. rewrite parse_prefix_for_len_rt by assumption.
  apply wf_prefix_unpack in Hwf as (Hv & Hlen & Hw & Hb & Hz).
  pose proof (bits_to_bytes_le v6 _ Hlen) as Hnb.
  unfold compose_prefix_without_len. cbn [length]. rewrite firstn_length. fix_pos.
Qed.

(* ---- labels ---- *)
Lemma labels_parse_rt groups rest pos fuel :
  wf_labels groups = true -> (length groups <= fuel)%nat ->
  labels_parse fuel (mkP (concat groups ++ rest) pos) = Ok (concat groups, mkP rest (pos + 3 * length groups)).
Proof.
  revert pos fuel. induction groups as [|g groups IH]; intros pos fuel Hwf Hf; [discriminate|].
  destruct fuel as [|fuel]; [cbn in Hf; lia|]. cbn [labels_parse concat]. rewrite <- app_assoc.
  destruct groups as [|g2 groups].
  - cbn [wf_labels] in Hwf. apply andb_true_iff in Hwf as [Hwf Hs]. apply andb_true_iff in Hwf as [Hl _].
    apply Nat.eqb_eq in Hl. rewrite take_app' by (symmetry; exact Hl). cbn [bind]. rewrite Hs.
    cbn [concat app]. rewrite app_nil_r. fix_pos.
  - cbn [wf_labels] in Hwf. apply andb_true_iff in Hwf as [Hwf Hrest]. apply andb_true_iff in Hwf as [Hwf Hs].
    apply andb_true_iff in Hwf as [Hl _]. apply Nat.eqb_eq in Hl. apply negb_true_iff in Hs.
    rewrite take_app' by (symmetry; exact Hl). cbn [bind]. rewrite Hs.
    rewrite IH by (try exact Hrest; cbn [length] in *; lia). cbn [bind].
    fix_pos.
Qed.

Lemma concat_len3 groups : wf_labels groups = true -> length (concat groups) = (3 * length groups)%nat.
Proof.
  induction groups as [|g groups IH]; [discriminate|]. cbn [wf_labels concat]. rewrite app_length.
  destruct groups as [|g2 groups].
  - intros H. apply andb_true_iff in H as [H _]. apply andb_true_iff in H as [H _]. apply Nat.eqb_eq in H. cbn. lia.
  - intros H. apply andb_true_iff in H as [H Hr]. apply andb_true_iff in H as [H _]. apply andb_true_iff in H as [H _].
    apply Nat.eqb_eq in H. rewrite IH by exact Hr. cbn [length]. lia.
Qed.

(* ---- well-formed NLRI values ---- *)
Lemma chunks_concat f l : (length l < f)%nat -> concat (chunks f 3 l) = l.
Proof.
  revert l. induction f as [|f IH]; intros l Hl; [lia|]. cbn [chunks]. destruct l as [|x l]; [reflexivity|].
  cbn [concat]. rewrite IH.
  - apply firstn_skipn.
  - rewrite skipn_length. cbn [length] in *. lia.
Qed.

Lemma chunks3_concat l : concat (chunks3 l) = l.
Proof. apply chunks_concat. lia. Qed.

Lemma be3_split lb : lb < 16777216 -> be 3 lb = [lb / 65536] ++ be 2 (lb mod 65536).
Proof.
  intros H. cbn [be app].
  replace (lb / 256 / 256 mod 256) with (lb / 65536) by lia.
  replace (lb mod 65536 / 256 mod 256) with (lb / 256 mod 256) by lia.
  replace (lb mod 65536 mod 256) with (lb mod 256) by lia.
  reflexivity.
Qed.

Local Opaque be.

Lemma body_rt k b rest pos bs :
  wf_body k b = true -> compose_body b = Ok bs ->
  parse_body k (mkP (bs ++ rest) pos) = Ok (b, mkP rest (pos + length bs)).
Proof.
  unfold wf_body. intros Hwf Hc. apply andb_true_iff in Hwf as [Hm Hwf].
  destruct b as [x|x l|x l rd|raw|raw|rd ve off sz lb|ty raw].
  - (* prefix *)
    injection Hc as <-.
    assert (E : parse_body k (mkP (compose_prefix x ++ rest) pos)
                = (let* (x0, p) := parse_prefix (fam_v6 k) (mkP (compose_prefix x ++ rest) pos) in Ok (BPrefix x0, p)))
      by (destruct k; try discriminate; reflexivity).
    rewrite E, parse_prefix_rt by assumption. reflexivity.
  - (* mpls *)
    apply andb_true_iff in Hwf as [Hwf Hsz]. apply andb_true_iff in Hwf as [Hp Hl]. apply Nat.leb_le in Hsz.
    cbn [compose_body] in Hc. unfold add_u8, sat_u8 in Hc.
    replace (Nat.ltb 255 (8 * length l)) with false in Hc by (symmetry; apply Nat.ltb_ge; lia).
    replace (Nat.ltb 255 (8 * length l + pf_len x)) with false in Hc by (symmetry; apply Nat.ltb_ge; lia).
    cbn [bind] in Hc. injection Hc as <-.
    assert (E : forall p, parse_body k p = (let* (x0, l0, p') := parse_labels_prefix (fam_v6 k) p in Ok (BMpls x0 l0, p')))
      by (intros p; destruct k; try discriminate; reflexivity).
    rewrite E. unfold parse_labels_prefix. cbn [app parse_u8 p_rest p_pos bind]. rewrite Nat2N.id.
    rewrite <- app_assoc.
    match goal with |- context [labels_parse ?f _] => set (fuel := f) end.
    assert (Hfuel : (length (chunks3 l) <= fuel)%nat).
    { subst fuel. unfold remaining. cbn [p_rest]. rewrite !app_length.
      pose proof (concat_len3 _ Hl) as C. rewrite chunks3_concat in C. lia. }
    clearbody fuel.
    match goal with |- context [mkP (l ++ ?X) ?q] =>
      replace (mkP (l ++ X) q) with (mkP (concat (chunks3 l) ++ X) q) by (now rewrite chunks3_concat) end.
    rewrite labels_parse_rt by assumption.
    cbn [bind]. rewrite chunks3_concat. unfold try_u8.
    replace (Nat.ltb 255 (8 * length l)) with false by (symmetry; apply Nat.ltb_ge; lia). cbn [bind].
    replace (Nat.ltb (8 * length l + pf_len x) (8 * length l)) with false by (symmetry; apply Nat.ltb_ge; lia).
    replace (8 * length l + pf_len x - 8 * length l)%nat with (pf_len x) by lia.
    rewrite parse_prefix_for_len_rt by assumption. cbn [bind].
    pose proof (concat_len3 _ Hl) as C. rewrite chunks3_concat in C.
    apply wf_prefix_unpack in Hp as (_ & Hlen & Hw & _ & _). pose proof (bits_to_bytes_le _ _ Hlen).
    cbn [length]. rewrite app_length. unfold compose_prefix_without_len. rewrite firstn_length. fix_pos.
  - (* mpls vpn *)
    apply andb_true_iff in Hwf as [Hwf Hsz]. apply andb_true_iff in Hwf as [Hwf Hrdb].
    apply andb_true_iff in Hwf as [Hwf Hrd]. apply andb_true_iff in Hwf as [Hp Hl].
    apply Nat.leb_le in Hsz. apply Nat.eqb_eq in Hrd.
    cbn [compose_body] in Hc. unfold add_u8, sat_u8 in Hc.
    replace (Nat.ltb 255 (8 * (8 + length l))) with false in Hc by (symmetry; apply Nat.ltb_ge; lia).
    replace (Nat.ltb 255 (8 * (8 + length l) + pf_len x)) with false in Hc by (symmetry; apply Nat.ltb_ge; lia).
    cbn [bind] in Hc. injection Hc as <-.
    assert (E : forall p, parse_body k p = (let* (x0, l0, rd0, p') := parse_labels_rd_prefix (fam_v6 k) p in Ok (BVpn x0 l0 rd0, p')))
      by (intros p; destruct k; try discriminate; reflexivity).
    rewrite E. unfold parse_labels_rd_prefix. cbn [app parse_u8 p_rest p_pos bind]. rewrite Nat2N.id.
    rewrite <- !app_assoc.
    match goal with |- context [labels_parse ?f _] => set (fuel := f) end.
    assert (Hfuel : (length (chunks3 l) <= fuel)%nat).
    { subst fuel. unfold remaining. cbn [p_rest]. rewrite !app_length.
      pose proof (concat_len3 _ Hl) as C. rewrite chunks3_concat in C. lia. }
    clearbody fuel.
    match goal with |- context [mkP (l ++ ?X) ?q] =>
      replace (mkP (l ++ X) q) with (mkP (concat (chunks3 l) ++ X) q) by (now rewrite chunks3_concat) end.
    rewrite labels_parse_rt by assumption.
    cbn [bind]. rewrite chunks3_concat. unfold try_u8.
    replace (Nat.ltb 255 (8 * (8 + length l))) with false by (symmetry; apply Nat.ltb_ge; lia). cbn [bind].
    replace (Nat.ltb (8 * (8 + length l) + pf_len x) (8 * (8 + length l))) with false by (symmetry; apply Nat.ltb_ge; lia).
    rewrite take_app' by (symmetry; exact Hrd). cbn [bind].
    replace (8 * (8 + length l) + pf_len x - 8 * (8 + length l))%nat with (pf_len x) by lia.
    rewrite parse_prefix_for_len_rt by assumption. cbn [bind].
    pose proof (concat_len3 _ Hl) as C. rewrite chunks3_concat in C.
    apply wf_prefix_unpack in Hp as (_ & Hlen & Hw & _ & _). pose proof (bits_to_bytes_le _ _ Hlen).
    cbn [length]. rewrite !app_length. unfold compose_prefix_without_len. rewrite firstn_length. fix_pos.
  - (* route target *)
    apply andb_true_iff in Hwf as [_ Hsz]. apply Nat.leb_le in Hsz.
    cbn [compose_body] in Hc. injection Hc as <-. destruct k; try discriminate.
    cbn [parse_body app parse_u8 p_rest p_pos bind]. rewrite Nat2N.id.
    (* 32 octets are written with the saturated length octet 255, which reads back as 32 octets *)
    assert (Hb : prefix_bits_to_bytes (sat_u8 (8 * length raw)) = length raw).
    { unfold prefix_bits_to_bytes, sat_u8. destruct (Nat.ltb 255 (8 * length raw)) eqn:E; [apply Nat.ltb_lt in E|apply Nat.ltb_ge in E]; lia. }
    rewrite Hb. rewrite take_app' by reflexivity. cbn [bind length]. fix_pos.
  - (* flowspec *)
    apply andb_true_iff in Hwf as [Hwf Hcomp]. apply andb_true_iff in Hwf as [_ Hsz]. apply Nat.leb_le in Hsz.
    assert (E : forall p, parse_body k p =
      (let* (len, p) := flow_len p in
       if Nat.ltb (remaining p) len then Err else
       let* (raw, p) := take len p in
       if fam_v6 k then Ok (BFlow raw, p)
       else if flow_components_ok raw then Ok (BFlow raw, p) else Err))
      by (intros p; destruct k; try discriminate; reflexivity).
    rewrite E. cbn [compose_body] in Hc.
    destruct (Nat.leb 240 (length raw)) eqn:E240.
    + apply Nat.leb_le in E240.
      replace (65535 <? N.of_nat (length raw)) with false in Hc by (symmetry; apply N.ltb_ge; lia).
      injection Hc as <-. unfold flow_len. cbn [app parse_u8 p_rest p_pos bind].
      replace (240 <=? 240 + N.of_nat (length raw) / 256 mod 16) with true by (symmetry; apply N.leb_le; lia).
      cbn [parse_u8 p_rest p_pos bind].
      replace (N.to_nat ((240 + N.of_nat (length raw) / 256 mod 16 - 240) * 256 + N.of_nat (length raw) mod 256))
        with (length raw) by lia.
      unfold remaining. cbn [p_rest]. rewrite app_length.
      replace (Nat.ltb (length raw + length rest) (length raw)) with false by (symmetry; apply Nat.ltb_ge; lia).
      rewrite take_app' by reflexivity. cbn [bind].
      destruct (fam_v6 k); cbn [orb] in Hcomp; [|rewrite Hcomp]; cbn [length app]; fix_pos.
    + apply Nat.leb_gt in E240. injection Hc as <-. unfold flow_len. cbn [app parse_u8 p_rest p_pos bind].
      replace (240 <=? N.of_nat (length raw)) with false by (symmetry; apply N.leb_gt; lia).
      cbn [bind]. rewrite Nat2N.id. unfold remaining. cbn [p_rest]. rewrite app_length.
      replace (Nat.ltb (length raw + length rest) (length raw)) with false by (symmetry; apply Nat.ltb_ge; lia).
      rewrite take_app' by reflexivity. cbn [bind].
      destruct (fam_v6 k); cbn [orb] in Hcomp; [|rewrite Hcomp]; cbn [length]; fix_pos.
  - (* vpls *)
    repeat (apply andb_true_iff in Hwf as [Hwf ?]). apply Nat.eqb_eq in Hwf.
    repeat match goal with H : (_ <? _) = true |- _ => apply N.ltb_lt in H end.
    cbn [compose_body] in Hc. injection Hc as <-. destruct k; try discriminate.
    cbn [parse_body]. unfold parse_u16. rewrite <- !app_assoc.
    rewrite (parse_be_app 2 17) by (cbn; lia). cbn [bind].
    rewrite take_app' by (symmetry; exact Hwf). cbn [bind].
    rewrite (parse_be_app 2 ve) by (cbn; lia). cbn [bind].
    rewrite (parse_be_app 2 off) by (cbn; lia). cbn [bind].
    rewrite (parse_be_app 2 sz) by (cbn; lia). cbn [bind].
    (* the 3-octet label base is read as u8 then u16 *)
    rewrite be3_split by assumption. rewrite <- !app_assoc. cbn [app parse_u8 p_rest p_pos bind].
    rewrite (parse_be_app 2 (lb mod 65536)) by (cbn; lia). cbn [bind].
    replace (lb / 65536 * 65536 + lb mod 65536) with lb by lia.
    rewrite !app_length, !be_length. cbn [length]. rewrite be_length. fix_pos.
  - (* evpn *)
    apply andb_true_iff in Hwf as [Hwf Hsz]. apply andb_true_iff in Hwf as [Hty _].
    apply Nat.leb_le in Hsz. apply N.ltb_lt in Hty.
    cbn [compose_body] in Hc. unfold sat_u8 in Hc.
    replace (Nat.ltb 255 (length raw)) with false in Hc by (symmetry; apply Nat.ltb_ge; lia).
    injection Hc as <-. destruct k; try discriminate.
    cbn [parse_body app parse_u8 p_rest p_pos bind]. rewrite Nat2N.id.
    rewrite take_app' by reflexivity. cbn [bind length]. fix_pos.
Qed.

Lemma compose_body_ok k b : wf_body k b = true -> exists bs, compose_body b = Ok bs.
Proof.
  unfold wf_body. intros Hwf. apply andb_true_iff in Hwf as [_ Hwf].
  destruct b as [x|x l|x l rd|raw|raw|rd ve off sz lb|ty raw]; cbn [compose_body]; eauto.
  - apply andb_true_iff in Hwf as [_ Hsz]. apply Nat.leb_le in Hsz. unfold add_u8, sat_u8.
    replace (Nat.ltb 255 (8 * length l)) with false by (symmetry; apply Nat.ltb_ge; lia).
    replace (Nat.ltb 255 (8 * length l + pf_len x)) with false by (symmetry; apply Nat.ltb_ge; lia).
    cbn. eauto.
  - apply andb_true_iff in Hwf as [_ Hsz]. apply Nat.leb_le in Hsz. unfold add_u8, sat_u8.
    replace (Nat.ltb 255 (8 * (8 + length l))) with false by (symmetry; apply Nat.ltb_ge; lia).
    replace (Nat.ltb 255 (8 * (8 + length l) + pf_len x)) with false by (symmetry; apply Nat.ltb_ge; lia).
    cbn. eauto.
  - destruct (Nat.leb 240 (length raw)); eauto.
Qed.

Lemma c05_rt_proof n rest pos :
  wf_nlri n = true ->
  exists bs, compose_nlri n = Ok bs /\
    parse_nlri (n_fam n) (match n_pathid n with Some _ => true | None => false end) (mkP (bs ++ rest) pos)
    = Ok (n, mkP rest (pos + length bs)).
Proof.
  unfold wf_nlri. intros H. apply andb_true_iff in H as [Hb Hp].
  destruct (compose_body_ok _ _ Hb) as [bs Hc]. destruct n as [k pid b]. cbn [n_fam n_pathid n_body] in *.
  unfold compose_nlri. cbn [n_body n_pathid]. rewrite Hc. cbn [bind].
  destruct pid as [pid|].
  - apply N.ltb_lt in Hp. eexists. split; [reflexivity|]. unfold parse_nlri, parse_u32.
    rewrite <- app_assoc. rewrite (parse_be_app 4 pid) by (cbn; lia). cbn [bind].
    rewrite (body_rt k b rest _ bs Hb Hc). cbn [bind]. rewrite app_length, be_length. f_equal. f_equal. f_equal. lia.
  - eexists. split; [reflexivity|]. unfold parse_nlri. rewrite (body_rt k b rest _ bs Hb Hc). reflexivity.
Qed.

Lemma c05_len_proof n bs : wf_nlri n = true -> compose_nlri n = Ok bs -> length bs = compose_len n.
Proof.
  unfold wf_nlri, compose_nlri, compose_len. intros H. apply andb_true_iff in H as [Hb _].
  destruct (compose_body_ok _ _ Hb) as [bb Hc]. rewrite Hc. cbn [bind].
  assert (L : length bb = compose_len_body (n_body n)).
  { unfold wf_body in Hb. apply andb_true_iff in Hb as [_ Hb].
    destruct (n_body n) as [x|x l|x l rd|raw|raw|rd ve off sz lb|ty raw]; cbn [compose_body compose_len_body] in *.
    - injection Hc as <-. apply wf_prefix_unpack in Hb as (_ & Hlen & Hw & _ & _). pose proof (bits_to_bytes_le _ _ Hlen).
      unfold compose_prefix, compose_prefix_without_len. cbn [length]. rewrite firstn_length. lia.
    - apply andb_true_iff in Hb as [Hb Hsz]. apply andb_true_iff in Hb as [Hp _]. apply Nat.leb_le in Hsz.
      unfold add_u8, sat_u8 in Hc.
      replace (Nat.ltb 255 (8 * length l)) with false in Hc by (symmetry; apply Nat.ltb_ge; lia).
      replace (Nat.ltb 255 (8 * length l + pf_len x)) with false in Hc by (symmetry; apply Nat.ltb_ge; lia).
      cbn [bind] in Hc. injection Hc as <-.
      apply wf_prefix_unpack in Hp as (_ & Hlen & Hw & _ & _). pose proof (bits_to_bytes_le _ _ Hlen).
      cbn [length]. rewrite app_length. unfold compose_prefix_without_len. rewrite firstn_length. lia.
    - apply andb_true_iff in Hb as [Hb Hsz]. apply andb_true_iff in Hb as [Hb _]. apply andb_true_iff in Hb as [Hb Hrd].
      apply andb_true_iff in Hb as [Hp _]. apply Nat.leb_le in Hsz. apply Nat.eqb_eq in Hrd.
      unfold add_u8, sat_u8 in Hc.
      replace (Nat.ltb 255 (8 * (8 + length l))) with false in Hc by (symmetry; apply Nat.ltb_ge; lia).
      replace (Nat.ltb 255 (8 * (8 + length l) + pf_len x)) with false in Hc by (symmetry; apply Nat.ltb_ge; lia).
      cbn [bind] in Hc. injection Hc as <-.
      apply wf_prefix_unpack in Hp as (_ & Hlen & Hw & _ & _). pose proof (bits_to_bytes_le _ _ Hlen).
      cbn [length]. rewrite !app_length. unfold compose_prefix_without_len. rewrite firstn_length. lia.
    - injection Hc as <-. reflexivity.
    - destruct (Nat.leb 240 (length raw)); injection Hc as <-; cbn [length app]; try rewrite app_length; cbn [length]; lia.
    - injection Hc as <-. repeat (apply andb_true_iff in Hb as [Hb ?]). apply Nat.eqb_eq in Hb.
      rewrite !app_length, !be_length. lia.
    - injection Hc as <-. reflexivity. }
  destruct (n_pathid n); intros H; injection H as <-; [rewrite app_length, be_length|]; lia.
Qed.

(* a concatenation of encoded NLRI decodes to exactly the original sequence, in order *)

Lemma compose_nonempty n bs : wf_nlri n = true -> compose_nlri n = Ok bs -> (0 < length bs)%nat.
Proof.
  intros Hwf Hc. rewrite (c05_len_proof _ _ Hwf Hc). unfold compose_len.
  destruct (n_pathid n); [lia|]. destruct (n_body n) as [x|x l|x l rd|raw|raw|rd ve off sz lb|ty raw]; cbn [compose_len_body]; try lia.
  destruct (Nat.leb 240 (length raw)); lia.
Qed.

Lemma c05_concat_proof k ap l bs :
  Forall (fun n => wf_nlri n = true /\ n_fam n = k /\
                   (match n_pathid n with Some _ => true | None => false end) = ap) l ->
  encode_all l = Ok bs ->
  forall pos fuel, (length l < fuel)%nat ->
  nlri_iter fuel k ap (mkP bs pos) = Some (map Ok l).
Proof.
  intros Hall. revert bs. induction Hall as [|n l (Hwf & Hk & Hap) Hall IH]; intros bs He pos fuel Hf.
  - cbn in He. injection He as <-. destruct fuel; [lia|]. reflexivity.
  - cbn [encode_all] in He. destruct (compose_nlri n) as [a| |] eqn:Hc; cbn [bind] in He; try discriminate.
    destruct (encode_all l) as [b| |] eqn:Hb; cbn [bind] in He; try discriminate. injection He as <-.
    destruct fuel as [|fuel]; [lia|]. cbn [nlri_iter].
    pose proof (compose_nonempty n a Hwf Hc) as Hne.
    unfold remaining. cbn [p_rest]. rewrite app_length.
    replace (Nat.eqb (length a + length b) 0) with false by (symmetry; apply Nat.eqb_neq; lia).
    destruct (c05_rt_proof n b pos Hwf) as (a' & Hc' & Hp). rewrite Hc in Hc'. injection Hc' as <-.
    rewrite Hk, Hap in Hp. rewrite Hp. rewrite (IH b eq_refl) by (cbn [length] in Hf; lia). reflexivity.
Qed.
