(* C17: laws of the attribute map, the compact form and the workshop. *)
From Coq Require Import List NArith Bool Lia.
From RC Require Import Base.Res Base.Wire Model.Open Model.Negotiate Model.Nlri Gen.AttrRules Model.AsPath Model.Attr Model.Update
     Model.PaMap Proofs.C07Proofs Proofs.C07Msg.
Import ListNotations.
Local Open Scope N_scope.

(* ---- lookup after insert / remove ---- *)
Lemma lookup_insert_same m c a : pm_lookup (pamap_insert m c a) c = Some a.
Proof.
  induction m as [|[k y] m IH]; cbn [pamap_insert pm_lookup]; [now rewrite N.eqb_refl|].
  destruct (N.eqb_spec c k) as [E|E]; [cbn [pm_lookup]; now rewrite N.eqb_refl|].
  destruct (c <? k); cbn [pm_lookup]; [now rewrite N.eqb_refl|].
  destruct (N.eqb_spec k c); [congruence|exact IH].
Qed.

Lemma lookup_insert_other m c a c' : c' <> c -> pm_lookup (pamap_insert m c a) c' = pm_lookup m c'.
Proof.
  intros Hne. induction m as [|[k y] m IH]; cbn [pamap_insert pm_lookup].
  - destruct (N.eqb_spec c c'); [congruence|reflexivity].
  - destruct (N.eqb_spec c k) as [E|E].
    + subst k. cbn [pm_lookup]. destruct (N.eqb_spec c c'); [congruence|reflexivity].
    + destruct (c <? k); cbn [pm_lookup].
      * destruct (N.eqb_spec c c'); [congruence|reflexivity].
      * destruct (k =? c'); [reflexivity|exact IH].
Qed.

Lemma lookup_remove_same m c : pm_lookup (pm_remove_key m c) c = None.
Proof.
  unfold pm_remove_key. induction m as [|[k y] m IH]; cbn [filter pm_lookup fst]; [reflexivity|].
  destruct (N.eqb_spec k c) as [E|E]; cbn [negb]; [exact IH|]. cbn [pm_lookup]. destruct (N.eqb_spec k c); [congruence|exact IH].
Qed.

Lemma lookup_remove_other m c c' : c' <> c -> pm_lookup (pm_remove_key m c) c' = pm_lookup m c'.
Proof.
  intros Hne. unfold pm_remove_key. induction m as [|[k y] m IH]; cbn [filter pm_lookup fst]; [reflexivity|].
  destruct (N.eqb_spec k c) as [E|E]; cbn [negb].
  - subst k. destruct (N.eqb_spec c c'); [congruence|exact IH].
  - cbn [pm_lookup]. destruct (k =? c'); [reflexivity|exact IH].
Qed.

Lemma lookup_in m c a : pm_lookup m c = Some a -> In (c, a) m.
Proof.
  induction m as [|[k y] m IH]; cbn [pm_lookup]; [discriminate|].
  destruct (N.eqb_spec k c); [intros H; inversion H; subst; now left|intros H; right; auto].
Qed.

Lemma sorted_lookup m c a : keys_sorted m -> In (c, a) m -> pm_lookup m c = Some a.
Proof.
  induction m as [|[k y] m IH]; cbn [keys_sorted pm_lookup]; [intros _ []|]. intros (H1 & H2) [Hin|Hin].
  - inversion Hin; subst. now rewrite N.eqb_refl.
  - destruct (N.eqb_spec k c) as [E|E]; [subst; specialize (H1 _ _ Hin); lia|auto].
Qed.

(* ---- the invariant: strictly ascending keys, every entry filed under its own type code ---- *)
Definition wfm (m : pamap) : Prop := keys_sorted m /\ Forall (fun e => attr_code (snd e) = fst e) m.

Lemma filter_sorted (f : N * pattr -> bool) m : keys_sorted m -> keys_sorted (filter f m).
Proof.
  induction m as [|[k y] m IH]; cbn [keys_sorted filter]; [auto|]. intros (H1 & H2). destruct (f (k, y)); [|auto].
  cbn [keys_sorted]. split; [|auto]. intros k' x Hin. apply filter_In in Hin as (Hin & _). eauto.
Qed.

Lemma wfm_insert m a : wfm m -> wfm (pamap_insert m (attr_code a) a).
Proof.
  intros (H1 & H2). split; [now apply pamap_insert_sorted|]. apply Forall_forall. intros [k x] Hin.
  destruct (pamap_insert_in _ _ _ _ _ Hin) as [E|E]; [inversion E; subst; reflexivity|]. rewrite Forall_forall in H2. apply (H2 _ E).
Qed.

Lemma wfm_filter f m : wfm m -> wfm (filter f m).
Proof.
  intros (H1 & H2). split; [now apply filter_sorted|]. apply Forall_forall. intros e Hin. apply filter_In in Hin as (Hin & _).
  rewrite Forall_forall in H2. auto.
Qed.

Lemma sorted_nodup m : keys_sorted m -> NoDup (map fst m).
Proof.
  induction m as [|[k y] m IH]; cbn [keys_sorted map fst]; [constructor|]. intros (H1 & H2). constructor; [|auto].
  intros Hin. apply in_map_iff in Hin as ([k' x] & E & Hin). cbn [fst] in E. subst k'. specialize (H1 _ _ Hin). lia.
Qed.

(* ---- operation histories ---- *)
Inductive op :=
| OSet (a : pattr) | OSetEnum (a : pattr) | OAdd (a : pattr) | ORemove (c : N) | OMerge (other : pamap) | OStrip.

Definition apply (m : pamap) (o : op) : pamap :=
  match o with
  | OSet a => fst (pm_set m a)
  | OSetEnum a => fst (pm_set_from_enum m a)
  | OAdd a => fst (pm_add_attribute m a)
  | ORemove c => fst (pm_remove m c)
  | OMerge other => fst (pm_merge_upsert m other)
  | OStrip => pm_remove_non_transitives m
  end.

Definition op_ok (o : op) : Prop := match o with OMerge other => Forall (fun e => attr_code (snd e) = fst e) other | _ => True end.

Lemma wfm_apply m o : wfm m -> op_ok o -> wfm (apply m o).
Proof.
  intros H Ho. destruct o as [a|a|a|c|other|]; cbn [apply pm_set pm_set_from_enum pm_add_attribute pm_remove pm_merge_upsert fst].
  - now apply wfm_insert.
  - unfold pm_set_from_enum. destruct (is_typed a); cbn [pm_set fst]; [now apply wfm_insert|exact H].
  - now apply wfm_insert.
  - now apply wfm_filter.
  - cbn [op_ok] in Ho. revert m H. induction other as [|[k x] other IH]; intros m H; cbn [fold_left]; [exact H|].
    inversion Ho as [|? ? E Hr]; subst. cbn [fst snd] in *. apply IH; [exact Hr|]. rewrite <- E. now apply wfm_insert.
  - now apply wfm_filter.
Qed.

Lemma c17_history_proof ops : Forall op_ok ops ->
  let m := fold_left apply ops [] in wfm m /\ NoDup (map fst m).
Proof.
  intros H. assert (G : forall m0, wfm m0 -> wfm (fold_left apply ops m0)).
  { induction ops as [|o ops IH]; intros m0 H0; cbn [fold_left]; [exact H0|]. inversion H; subst. apply IH; [assumption|]. now apply wfm_apply. }
  assert (W : wfm (fold_left apply ops [])) by (apply G; split; [exact I|constructor]).
  split; [exact W|]. apply sorted_nodup. apply W.
Qed.

(* ---- the laws ---- *)
Lemma from_attr_typed a : is_typed a = true -> from_attr (attr_code a) a = Some a.
Proof. intros H. unfold from_attr. now rewrite H, N.eqb_refl. Qed.

Lemma c17_get_after_set_proof m a : is_typed a = true -> pm_get (fst (pm_set m a)) (attr_code a) = Some a.
Proof. intros H. unfold pm_get, pm_set. cbn [fst]. rewrite lookup_insert_same. now apply from_attr_typed. Qed.

Lemma c17_set_reports_proof m a : snd (pm_set m a) = pm_get m (attr_code a).
Proof. reflexivity. Qed.

Lemma c17_set_other_proof m a c : c <> attr_code a -> pm_get (fst (pm_set m a)) c = pm_get m c.
Proof. intros H. unfold pm_get, pm_set. cbn [fst]. now rewrite lookup_insert_other. Qed.

Lemma c17_remove_proof m c :
  snd (pm_remove m c) = pm_get m c /\ pm_get (fst (pm_remove m c)) c = None /\ pm_contains (fst (pm_remove m c)) c = false /\
  forall c', c' <> c -> pm_get (fst (pm_remove m c)) c' = pm_get m c'.
Proof.
  unfold pm_remove, pm_get, pm_contains. cbn [fst snd]. rewrite lookup_remove_same. repeat split; auto.
  intros c' H. now rewrite lookup_remove_other.
Qed.

Lemma c17_strip_proof m e :
  In e (pm_remove_non_transitives m) <-> In e m /\ is_transitive (default_flags (snd e)) = true.
Proof. unfold pm_remove_non_transitives. apply filter_In. Qed.

Lemma c17_merge_proof other : forall m c,
  pm_lookup (fst (pm_merge_upsert m other)) c =
  match pm_lookup (rev other) c with Some x => Some x | None => pm_lookup m c end.
Proof.
  unfold pm_merge_upsert. cbn [fst]. induction other as [|[k x] other IH]; intros m c; cbn [fold_left rev]; [reflexivity|].
  rewrite IH. cbn [fst snd].
  assert (L : forall l, pm_lookup (l ++ [(k, x)]) c = match pm_lookup l c with Some y => Some y | None => if k =? c then Some x else None end).
  { induction l as [|[k' y'] l IHl]; cbn [app pm_lookup]; [reflexivity|]. destruct (k' =? c); [reflexivity|exact IHl]. }
  rewrite L. destruct (pm_lookup (rev other) c); [reflexivity|].
  destruct (N.eqb_spec k c) as [E|E]; [subst; apply lookup_insert_same|]. apply lookup_insert_other. congruence.
Qed.

(* ---- the compact form agrees with the map built from the same message ---- *)
Lemma has_lookup m c : pamap_has m c = true <-> exists x, pm_lookup m c = Some x.
Proof.
  unfold pamap_has. induction m as [|[k y] m IH]; cbn [existsb pm_lookup fst]; [split; [discriminate|intros (x & H); discriminate]|].
  destruct (k =? c); cbn [orb]; [split; eauto|exact IH].
Qed.

Lemma fill_lookup : forall l m0 m c, pamap_fill l m0 = Ok m -> c <> 14 -> c <> 15 ->
  pm_lookup m c = match pm_lookup m0 c with
                  | Some x => Some x
                  | None => match find_attr l c with
                            | Some w => match to_owned w with Ok x => Some x | _ => None end
                            | None => None
                            end
                  end.
Proof.
  induction l as [|r l IH]; intros m0 m c; cbn [pamap_fill find_attr].
  - intros H _ _. apply Ok_inj in H. subst. now destruct (pm_lookup m c).
  - destruct r as [w| |]; try discriminate. intros H N14 N15.
    destruct ((wattr_code w =? 14) || (wattr_code w =? 15)) eqn:Emp.
    + rewrite (IH _ _ _ H N14 N15). destruct (N.eqb_spec (wattr_code w) c) as [E|E]; [|reflexivity].
      apply orb_true_iff in Emp as [E'|E']; apply N.eqb_eq in E'; congruence.
    + destruct (pamap_has m0 (wattr_code w)) eqn:Ehas.
      * rewrite (IH _ _ _ H N14 N15). destruct (N.eqb_spec (wattr_code w) c) as [E|E]; [|reflexivity].
        apply has_lookup in Ehas as (x & Hx). rewrite E in Hx. now rewrite Hx.
      * destruct (to_owned w) as [o| |] eqn:Eo; cbn [bind] in H; try discriminate.
        rewrite (IH _ _ _ H N14 N15). destruct (N.eqb_spec (wattr_code w) c) as [E|E].
        -- subst c. rewrite lookup_insert_same.
           destruct (pm_lookup m0 (wattr_code w)) eqn:El; [|now rewrite Eo].
           assert (pamap_has m0 (wattr_code w) = true) by (apply has_lookup; eauto). congruence.
        -- rewrite lookup_insert_other by congruence. reflexivity.
Qed.

Lemma c17_opa_agrees_proof b u m c : a_pamap b u = Ok m -> c <> 14 -> c <> 15 -> opa_get b u c = pm_get m c.
Proof.
  intros H N14 N15. unfold opa_get, pm_get, a_pamap in *. rewrite (fill_lookup _ _ _ c H N14 N15). cbn [pm_lookup].
  destruct (find_attr (a_path_attributes b u) c) as [w|]; [|reflexivity]. destruct (to_owned w); reflexivity.
Qed.

(* ---- the workshop ---- *)
Lemma c17_ws_get_set_proof w a : is_typed a = true -> ws_get_attr (ws_set_attr w a) (attr_code a) = Some a.
Proof. intros H. unfold ws_get_attr, ws_set_attr. cbn [ws_attrs]. now apply c17_get_after_set_proof. Qed.

Lemma comms_put m c c' items : c' <> c ->
  pm_lookup (put_list m c items) c' = pm_lookup m c'.
Proof. intros H. unfold put_list. destruct items; [reflexivity|]. unfold pm_set. cbn [fst attr_code]. now apply lookup_insert_other. Qed.

Lemma comms_put_same m c items : In c [8; 16; 25; 32] -> pm_lookup m c = None ->
  comms_of (put_list m c items) c = map (fun x => (c, x)) items.
Proof.
  intros Hc Hm. unfold put_list, comms_of, pm_get. destruct items as [|x items].
  - rewrite Hm. reflexivity.
  - unfold pm_set. cbn [fst attr_code]. rewrite lookup_insert_same. unfold from_attr. cbn [is_typed attr_code andb]. now rewrite N.eqb_refl.
Qed.

Lemma comms_lookup_eq m m' c : pm_lookup m c = pm_lookup m' c -> comms_of m c = comms_of m' c.
Proof. intros H. unfold comms_of, pm_get. now rewrite H. Qed.

Lemma c17_ws_communities_proof w l :
  ws_get_communities (ws_set_communities w l) =
  map (fun x => (8, x)) (flavour l 8) ++ map (fun x => (16, x)) (flavour l 16) ++
  map (fun x => (25, x)) (flavour l 25) ++ map (fun x => (32, x)) (flavour l 32).
Proof.
  unfold ws_get_communities, ws_set_communities. cbn [ws_attrs].
  set (m0 := pm_remove_key (pm_remove_key (pm_remove_key (pm_remove_key (ws_attrs w) 8) 16) 25) 32).
  assert (Z : forall c, In c [8; 16; 25; 32] -> pm_lookup m0 c = None).
  { intros c Hc. unfold m0. cbn [In] in Hc.
    destruct Hc as [<-|[<-|[<-|[<-|[]]]]].
    - rewrite !lookup_remove_other by (intros E; discriminate E). apply lookup_remove_same.
    - rewrite !lookup_remove_other by (intros E; discriminate E). apply lookup_remove_same.
    - rewrite lookup_remove_other by (intros E; discriminate E). apply lookup_remove_same.
    - apply lookup_remove_same. }
  set (m1 := put_list m0 8 (flavour l 8)). set (m2 := put_list m1 16 (flavour l 16)). set (m3 := put_list m2 25 (flavour l 25)).
  set (m4 := put_list m3 32 (flavour l 32)).
  assert (E8 : comms_of m4 8 = map (fun x => (8, x)) (flavour l 8)).
  { rewrite <- (comms_put_same m0 8 (flavour l 8)) by (first [apply Z; cbn; auto 6|cbn; auto 6]). apply comms_lookup_eq. unfold m4, m3, m2.
    rewrite !comms_put by (intros E; discriminate E). reflexivity. }
  assert (E16 : comms_of m4 16 = map (fun x => (16, x)) (flavour l 16)).
  { rewrite <- (comms_put_same m1 16 (flavour l 16)); [|cbn; auto 6|unfold m1; rewrite comms_put by (intros E; discriminate E); apply Z; cbn; auto 6].
    apply comms_lookup_eq. unfold m4, m3. rewrite !comms_put by (intros E; discriminate E). reflexivity. }
  assert (E25 : comms_of m4 25 = map (fun x => (25, x)) (flavour l 25)).
  { rewrite <- (comms_put_same m2 25 (flavour l 25)); [|cbn; auto 6|unfold m2, m1; rewrite !comms_put by (intros E; discriminate E); apply Z; cbn; auto 6].
    apply comms_lookup_eq. unfold m4. rewrite !comms_put by (intros E; discriminate E). reflexivity. }
  assert (E32 : comms_of m4 32 = map (fun x => (32, x)) (flavour l 32)).
  { apply comms_put_same; [cbn; auto 6|]. unfold m3, m2, m1. rewrite !comms_put by (intros E; discriminate E). apply Z. cbn; auto 6. }
  now rewrite E8, E16, E25, E32.
Qed.

Lemma c17_ws_from_pdu_proof k b u w :
  ws_from_pdu k b u = Ok w ->
  pm_lookup (ws_attrs w) 3 = None /\
  (exists m, a_pamap b u = Ok m /\ forall c, c <> 3 -> pm_lookup (ws_attrs w) c = pm_lookup m c) /\
  (if match k with Ipv4Unicast => negb (Nat.eqb (range_len (u_ann u)) 0) | _ => false end
   then exists nh, a_conventional_next_hop b u = Ok (Some nh) /\ ws_nh w = Some (NhUni (be 4 nh))
   else exists f nh, a_mp_next_hop b u = Ok (Some (f, nh)) /\ ws_nh w = Some nh).
Proof.
  unfold ws_from_pdu. destruct (match k with Ipv4Unicast => negb (Nat.eqb (range_len (u_ann u)) 0) | _ => false end).
  - destruct (a_conventional_next_hop b u) as [[nh|]| |]; try discriminate.
    destruct (a_pamap b u) as [m| |]; cbn [bind]; try discriminate. intros H. apply Ok_inj in H. subst w. cbn [ws_attrs ws_nh].
    split; [apply lookup_remove_same|]. split; [exists m; split; [reflexivity|intros c Hc; now apply lookup_remove_other]|eauto].
  - destruct (a_mp_next_hop b u) as [[[f nh]|]| |]; try discriminate.
    destruct (a_pamap b u) as [m| |]; cbn [bind]; try discriminate. intros H. apply Ok_inj in H. subst w. cbn [ws_attrs ws_nh].
    split; [apply lookup_remove_same|]. split; [exists m; split; [reflexivity|intros c Hc; now apply lookup_remove_other]|eauto].
Qed.
