(* C07: re-encoding received attributes.  Part A: what to_owned yields for an attribute item of an accepted
   message is a well-formed owned value (so C04 applies); unknown / invalid attributes keep their value. *)
From Coq Require Import List NArith Bool Lia ZArith.
From RC Require Import Base.Res Base.Wire Gen.AttrRules Model.AsPath Model.Attr
     Proofs.WireProofs Proofs.AsPathProofs Proofs.AttrProofs Proofs.UpdateTotal.
Import ListNotations.
Local Open Scope N_scope.
Ltac Zify.zify_post_hook ::= Z.div_mod_to_equations.
Local Arguments N.of_nat : simpl never.
Local Arguments Nat.ltb : simpl never.
Local Arguments Nat.modulo : simpl never.
Local Arguments Nat.mul : simpl never.
Local Opaque be.

(* ---- small parser facts ---- *)
Lemma parse_be_front k v pos : (k <= length v)%nat ->
  parse_be k (mkP v pos) = Ok (unbe (firstn k v), mkP (skipn k v) (pos + k)).
Proof.
  intros H. unfold parse_be, take, remaining. cbn [p_rest p_pos].
  replace (Nat.leb k (length v)) with true by (symmetry; now apply Nat.leb_le). reflexivity.
Qed.

Lemma wf_firstn k (v : bytes) : wf_bytes v -> wf_bytes (firstn k v).
Proof. unfold wf_bytes. intros H. apply Forall_forall. intros x Hx. rewrite Forall_forall in H. apply H. eapply In_firstn_list; eauto. Qed.
Lemma wf_skipn k (v : bytes) : wf_bytes v -> wf_bytes (skipn k v).
Proof. unfold wf_bytes. intros H. apply Forall_forall. intros x Hx. rewrite Forall_forall in H. apply H. eapply In_skipn_list; eauto. Qed.

Lemma unbe_firstn_bound k v : wf_bytes v -> (k <= length v)%nat -> unbe (firstn k v) < 256 ^ N.of_nat k.
Proof.
  intros Hwf Hk. pose proof (unbe_bound (firstn k v) (wf_firstn k v Hwf)) as B. rewrite firstn_length in B.
  replace (Nat.min k (length v)) with k in B by lia. exact B.
Qed.

(* ---- fixed-size items ---- *)
Lemma parse_items_ok k : (0 < k)%nat -> forall fuel v pos,
  wf_bytes v -> Nat.modulo (length v) k = 0%nat -> (length v < fuel)%nat ->
  exists items, parse_items fuel k (mkP v pos) = Ok items /\ Forall (fun x => x < 256 ^ N.of_nat k) items /\
                (length items * k)%nat = length v.
Proof.
  intros Hk. induction fuel as [|fuel IH]; intros v pos Hwf Hmod Hf; [lia|]. cbn [parse_items]. unfold remaining. cbn [p_rest].
  destruct (Nat.eqb_spec (length v) 0) as [E0|N0].
  - exists []. repeat split; [constructor|]. cbn. lia.
  - assert (Hle : (k <= length v)%nat).
    { destruct (Nat.le_gt_cases k (length v)) as [Hl|Hg]; [exact Hl|]. rewrite Nat.mod_small in Hmod by lia. lia. }
    rewrite parse_be_front by exact Hle. cbn [bind].
    destruct (IH (skipn k v) (pos + k)%nat (wf_skipn k v Hwf)) as (items & E & F & L).
    + rewrite skipn_length. rewrite <- (Nat.mod_add _ 1 k) by lia. replace (length v - k + 1 * k)%nat with (length v) by lia. exact Hmod.
    + rewrite skipn_length. lia.
    + exists (unbe (firstn k v) :: items). rewrite E. cbn [bind]. split; [reflexivity|]. split.
      * constructor; [now apply unbe_firstn_bound|exact F].
      * cbn [length]. rewrite skipn_length in L. lia.
Qed.

(* ---- AS paths: what validate accepts, wire_hops converts; sizes ---- *)
Lemma parse_asns_len four n : forall p asns p',
  parse_asns four n p = Ok (asns, p') -> (remaining p = asn_size four * n + remaining p')%nat /\ length asns = n.
Proof.
  induction n as [|n IH]; intros p asns p'; cbn [parse_asns].
  - intros H. inversion H; subst. split; [lia|reflexivity].
  - destruct (parse_be (asn_size four) p) as [[a p1]| |] eqn:E1; cbn [bind]; try discriminate.
    destruct (parse_asns four n p1) as [[r p2]| |] eqn:E2; cbn [bind]; try discriminate.
    intros H. inversion H; subst. apply parse_be_le in E1. destruct (IH _ _ _ E2) as (R & L). cbn [length]. split; lia.
Qed.

Lemma parse_asns_avail four n : forall p,
  (asn_size four * n <= remaining p)%nat -> exists asns p', parse_asns four n p = Ok (asns, p').
Proof.
  induction n as [|n IH]; intros p H; cbn [parse_asns]; [eauto|].
  destruct p as [v pos]. unfold remaining in H. cbn [p_rest] in H.
  rewrite parse_be_front by lia. cbn [bind].
  destruct (IH (mkP (skipn (asn_size four) v) (pos + asn_size four))) as (r & p' & E).
  - unfold remaining. cbn [p_rest]. rewrite skipn_length. lia.
  - rewrite E. cbn [bind]. eauto.
Qed.

Lemma skipn_add {A} b : forall a (l : list A), skipn b (skipn a l) = skipn (a + b) l.
Proof. induction a as [|a IH]; intros l; [reflexivity|]. destruct l; cbn [skipn Nat.add]; [now destruct b|apply IH]. Qed.

Lemma advance_add a b p q r : advance a p = Ok q -> advance b q = Ok r -> advance (a + b) p = Ok r.
Proof.
  unfold advance, take, remaining. destruct p as [v pos]. cbn [p_rest p_pos].
  destruct (Nat.leb a (length v)) eqn:L1; cbn [bind]; [|discriminate]. intros H. inversion H; subst. clear H. cbn [p_rest p_pos].
  rewrite skipn_length. destruct (Nat.leb b (length v - a)) eqn:L2; cbn [bind]; [|discriminate]. intros H. inversion H; subst. clear H.
  apply Nat.leb_le in L1, L2. replace (Nat.leb (a + b) (length v)) with true by (symmetry; apply Nat.leb_le; lia). cbn [bind].
  f_equal. f_equal; [symmetry; apply skipn_add|lia].
Qed.

Lemma parse_asns_advance four n : forall p asns p',
  parse_asns four n p = Ok (asns, p') -> advance (n * asn_size four) p = Ok p'.
Proof.
  induction n as [|n IH]; intros p asns p'; cbn [parse_asns].
  - intros H. inversion H; subst. unfold advance, take. replace (0 * asn_size four)%nat with 0%nat by lia. cbn.
    destruct p' as [v pos]. cbn. f_equal. f_equal. lia.
  - unfold parse_be. destruct (take (asn_size four) p) as [[v1 q]| |] eqn:Et; cbn [bind]; try discriminate.
    destruct (parse_asns four n q) as [[r q2]| |] eqn:E2; cbn [bind]; try discriminate. intros H. inversion H; subst.
    replace (S n * asn_size four)%nat with (asn_size four + n * asn_size four)%nat by lia.
    eapply advance_add; [unfold advance; rewrite Et; reflexivity|eapply IH; eassumption].
Qed.

Lemma path_walk_segments four : forall fuel p,
  path_walk fuel (asn_size four) p = true -> exists segs, segments fuel four p = Ok segs.
Proof.
  induction fuel as [|fuel IH]; intros p; cbn [path_walk segments]; [discriminate|].
  destruct (Nat.eqb (remaining p) 0); [eauto|].
  destruct (parse_u8 p) as [[t p1]| |]; cbn [bind]; try discriminate.
  unfold seg_type_ok. destruct ((1 <=? t) && (t <=? 4)); cbn [negb]; [|discriminate].
  destruct (parse_u8 p1) as [[len p2]| |]; cbn [bind]; try discriminate.
  destruct (advance (N.to_nat len * asn_size four) p2) as [p3| |] eqn:Ea; try discriminate.
  intros Hw. pose proof (advance_le _ _ _ Ea) as Hr.
  destruct (parse_asns_avail four (N.to_nat len) p2 ltac:(lia)) as (asns & p3' & E3). rewrite E3. cbn [bind].
  pose proof (parse_asns_advance _ _ _ _ _ E3) as Ea'. rewrite Ea in Ea'. inversion Ea'; subst p3'.
  destruct (IH p3 Hw) as (segs & Es). rewrite Es. cbn [bind]. eauto.
Qed.

Lemma segments_len four : forall fuel p segs,
  segments fuel four p = Ok segs -> length (enc_segs four segs) = remaining p.
Proof.
  induction fuel as [|fuel IH]; intros p segs; cbn [segments]; [discriminate|].
  destruct (Nat.eqb_spec (remaining p) 0) as [E0|N0]; [intros H; inversion H; subst; cbn; lia|].
  destruct (parse_u8 p) as [[t p1]| |] eqn:E1; cbn [bind]; try discriminate.
  destruct (negb (seg_type_ok t)); [discriminate|].
  destruct (parse_u8 p1) as [[len p2]| |] eqn:E2; cbn [bind]; try discriminate.
  destruct (parse_asns four (N.to_nat len) p2) as [[asns p3]| |] eqn:E3; cbn [bind]; try discriminate.
  destruct (segments fuel four p3) as [r| |] eqn:E4; cbn [bind]; try discriminate.
  intros H. inversion H; subst. cbn [enc_segs flat_map fst snd]. rewrite app_length, seg_bytes_length. fold (enc_segs four r).
  rewrite (IH _ _ E4). apply parse_u8_lt in E1. apply parse_u8_lt in E2. destruct (parse_asns_len _ _ _ _ _ E3) as (R & L). lia.
Qed.

(* an upper bound for what to_as_path writes *)
Definition hopw (h : hop) : nat := match h with HAsn _ => 6%nat | HSeg _ a => (2 + 4 * length a)%nat end.
Definition hopsw (l : list hop) : nat := fold_right (fun h acc => (hopw h + acc)%nat) 0%nat l.

Lemma hopsw_app a b : hopsw (a ++ b) = (hopsw a + hopsw b)%nat.
Proof. induction a as [|h a IH]; cbn [app hopsw fold_right]; [reflexivity|]. fold (hopsw (a ++ b)). fold (hopsw a). lia. Qed.

Lemma hopsw_asns run : hopsw (map HAsn run) = (6 * length run)%nat.
Proof. induction run as [|a r IH]; cbn [map hopsw fold_right length hopw]; [lia|]. fold (hopsw (map HAsn r)). lia. Qed.

Lemma seq_segs_bound (segs : list seg) :
  Forall (fun s => fst s = 2 /\ snd s <> []) segs -> (length (enc_segs true segs) <= hopsw (hops_of_segs segs))%nat.
Proof.
  induction segs as [|[t asns] segs IH]; intros H; [cbn; lia|]. inversion H as [|? ? (Ht & Hne) Hr]; subst. cbn [fst snd] in *. subst t.
  cbn [enc_segs flat_map fst snd hops_of_segs]. rewrite app_length, seg_bytes_length. fold (enc_segs true segs). fold (hops_of_segs segs).
  rewrite hopsw_app. specialize (IH Hr). unfold hops_of_seg. cbn [N.eqb Pos.eqb].
  destruct asns as [|a asns]; [congruence|]. rewrite hopsw_asns. cbn [asn_size length]. lia.
Qed.

Lemma run_segs_shape run : Forall (fun s : seg => fst s = 2 /\ snd s <> []) (run_segs run).
Proof.
  unfold run_segs. apply Forall_app. split.
  - destruct (Nat.modulo (length run) 255) eqn:E; [constructor|]. constructor; [|constructor]. cbn [fst snd]. split; [reflexivity|].
    intros E0. assert (L : length (firstn (S n) run) = 0%nat) by (rewrite E0; reflexivity). rewrite firstn_length in L.
    assert (S n <= length run)%nat by (rewrite <- E; apply Nat.mod_le; lia). lia.
  - apply Forall_forall. intros s Hs. apply in_map_iff in Hs as (c & <- & Hc). cbn [fst snd]. split; [reflexivity|].
    pose proof (chunks_nonempty (S (length run)) 255 (skipn (Nat.modulo (length run) 255) run) ltac:(lia)) as Hn.
    rewrite Forall_forall in Hn. apply (Hn c Hc).
Qed.

Lemma emit_run_bound run : (length (emit_run true run) <= 6 * length run)%nat.
Proof.
  rewrite emit_run_segs. pose proof (seq_segs_bound _ (run_segs_shape run)) as H. rewrite run_hops, hopsw_asns in H. exact H.
Qed.

Lemma compose_hops_bound : forall fuel l w, compose_hops fuel l = Ok w -> (length w <= hopsw l)%nat.
Proof.
  induction fuel as [|fuel IH]; intros l w; cbn [compose_hops]; [discriminate|].
  destruct l as [|h l]; [intros H; inversion H; cbn; lia|].
  destruct (span_asn (h :: l)) as [run rest] eqn:Es. destruct (span_asn_spec _ _ _ Es) as (El & _ & _).
  rewrite El, hopsw_app, hopsw_asns. pose proof (emit_run_bound run) as Hb.
  destruct rest as [|[a|t asns] tl].
  - intros H. inversion H; subst. cbn. lia.
  - discriminate.
  - unfold emit_seg. destruct (Nat.ltb 255 (length asns)); cbn [bind]; [discriminate|].
    destruct (compose_hops fuel tl) as [r| |] eqn:Er; cbn [bind]; try discriminate.
    intros H. apply Ok_inj in H. subst w. rewrite !app_length, seg_bytes_length. specialize (IH _ _ Er).
    cbn [hopsw fold_right hopw asn_size]. fold (hopsw tl). lia.
Qed.

Lemma wire_hops_weight four segs :
  (hopsw (hops_of_segs segs) <= 3 * length (enc_segs four segs))%nat.
Proof.
  induction segs as [|[t asns] segs IH]; [cbn; lia|].
  cbn [hops_of_segs flat_map enc_segs fst snd]. fold (hops_of_segs segs). fold (enc_segs four segs).
  rewrite hopsw_app, app_length, seg_bytes_length. unfold hops_of_seg.
  assert (A : (2 <= asn_size four)%nat) by (destruct four; cbn; lia).
  destruct (t =? 2).
  - destruct asns as [|a asns]; [cbn [hopsw fold_right hopw length]; lia|]. rewrite hopsw_asns. cbn [length]. nia.
  - cbn [hopsw fold_right hopw]. nia.
Qed.

(* the AS path value accepted by validate: hops, re-encodable, at most three times as long *)
Lemma path_owned four v :
  wf_bytes v -> path_walk (S (length v)) (asn_size four) (parser_of v) = true ->
  exists h w, wire_hops four v = Ok h /\ Forall hop_ok h /\ to_as_path h = Ok w /\ (length w <= 3 * length v)%nat.
Proof.
  intros Hwf Hw. destruct (path_walk_segments four _ _ Hw) as (segs & Es).
  unfold wire_hops, wire_segments. rewrite Es. cbn [rmap bind].
  pose proof (segments_ok _ _ (parser_of v) _ Hwf Es) as Hok. pose proof (hops_of_segs_ok _ Hok) as Hh.
  destruct (c13_to_wire_proof _ Hh) as (w & _ & Ew & _).
  exists (hops_of_segs segs), w. repeat split; auto.
  unfold to_as_path in Ew. apply compose_hops_bound in Ew. pose proof (wire_hops_weight four segs) as Hb.
  pose proof (segments_len _ _ _ _ Es) as Hl. unfold remaining, parser_of in Hl. cbn [p_rest] in Hl. lia.
Qed.

(* ---- validate accepts => to_owned yields a well-formed owned value ---- *)
Lemma hop_ok_okb h : hop_ok h -> hop_okb h = true.
Proof.
  destruct h as [a|t asns]; cbn [hop_ok hop_okb].
  - intros H. now apply N.ltb_lt.
  - intros (H1 & H2 & H3 & H4). rewrite H1. cbn [andb].
    replace (Nat.leb (length asns) 255) with true by (symmetry; now apply Nat.leb_le). cbn [andb].
    assert (F : forallb (fun a => a <? 4294967296) asns = true).
    { apply forallb_forall. intros x Hx. unfold asns_ok in H3. rewrite Forall_forall in H3. apply N.ltb_lt. apply (H3 x Hx). }
    rewrite F. cbn [andb]. destruct (N.eqb_spec t 2) as [E|E]; [rewrite (H4 E); reflexivity|reflexivity].
Qed.

Lemma pow4 : 256 ^ N.of_nat 4 = 4294967296. Proof. reflexivity. Qed.
Lemma pow2 : 256 ^ N.of_nat 2 = 65536. Proof. reflexivity. Qed.

Lemma u32_front v : wf_bytes v -> (4 <= length v)%nat -> (unbe (firstn 4 v) <? 4294967296) = true.
Proof. intros H L. apply N.ltb_lt. rewrite <- pow4. now apply unbe_firstn_bound. Qed.

Lemma Some_inj {A} (a b : A) : Some a = Some b -> a = b.
Proof. congruence. Qed.

Lemma owned_wf c four v cf vr lr :
  attr_rule c = Some (cf, vr, lr) -> validate vr four v = true -> wf_bytes v -> N.of_nat (3 * length v) <= 65535 ->
  exists x, parse_value c four v = Ok x /\ wf_attr x = true /\ attr_code x = c.
Proof.
  intros Hr Hv Hwf Hsz. pose proof (tbl_lookup_in _ _ _ Hr) as Hin. rewrite table_codes in Hin.
  assert (Hwb : forall k, wf_bytesb (skipn k v) = true) by (intros k; apply wf_bytesb_spec; now apply wf_skipn).
  repeat (destruct Hin as [<-|Hin]); [..|destruct Hin];
    vm_compute in Hr; apply Some_inj in Hr; inversion Hr; subst cf vr lr; clear Hr; cbn [validate] in Hv; cbn [parse_value].
  - (* ORIGIN *)
    apply Nat.eqb_eq in Hv. destruct v as [|n [|? ?]]; cbn [length] in Hv; try lia.
    exists (AU8 1 n). split; [reflexivity|]. split; [|reflexivity]. cbn [wf_attr]. inversion Hwf; subst.
    replace (n <? 256) with true by (symmetry; now apply N.ltb_lt). reflexivity.
  - (* AS_PATH *)
    assert (Hw : path_walk (S (length v)) (asn_size four) (parser_of v) = true) by (destruct four; exact Hv).
    destruct (path_owned four v Hwf Hw) as (h & w & E1 & E2 & E3 & E4). rewrite E1. cbn [bind].
    exists (APath 2 h). split; [reflexivity|]. split; [|reflexivity]. cbn [wf_attr N.eqb Pos.eqb orb andb]. rewrite E3.
    replace (forallb hop_okb h) with true.
    2:{ symmetry. apply forallb_forall. intros x Hx. apply hop_ok_okb. rewrite Forall_forall in E2. now apply E2. }
    cbn [andb]. apply N.leb_le. lia.
  - apply Nat.eqb_eq in Hv. unfold parser_of. rewrite parse_be_front by lia. cbn [bind].
    eexists. split; [reflexivity|]. split; [|reflexivity]. cbn [wf_attr N.eqb Pos.eqb orb andb]. apply u32_front; [assumption|lia].
  - apply Nat.eqb_eq in Hv. unfold parser_of. rewrite parse_be_front by lia. cbn [bind].
    eexists. split; [reflexivity|]. split; [|reflexivity]. cbn [wf_attr N.eqb Pos.eqb orb andb]. apply u32_front; [assumption|lia].
  - apply Nat.eqb_eq in Hv. unfold parser_of. rewrite parse_be_front by lia. cbn [bind].
    eexists. split; [reflexivity|]. split; [|reflexivity]. cbn [wf_attr N.eqb Pos.eqb orb andb]. apply u32_front; [assumption|lia].
  - (* ATOMIC_AGGREGATE *)
    exists (AEmpty 6). repeat split.
  - (* AGGREGATOR *)
    apply Nat.eqb_eq in Hv. unfold parser_of. destruct four.
    + rewrite parse_be_front by lia. cbn [bind]. rewrite parse_be_front by (rewrite skipn_length; lia). cbn [bind].
      eexists. split; [reflexivity|]. split; [|reflexivity]. cbn [wf_attr N.eqb Pos.eqb orb andb].
      rewrite u32_front by (try assumption; lia). rewrite u32_front by (try (now apply wf_skipn); rewrite skipn_length; lia). reflexivity.
    + rewrite parse_be_front by lia. cbn [bind]. rewrite parse_be_front by (rewrite skipn_length; lia). cbn [bind].
      eexists. split; [reflexivity|]. split; [|reflexivity]. cbn [wf_attr N.eqb Pos.eqb orb andb].
      rewrite u32_front by (try (now apply wf_skipn); rewrite skipn_length; lia).
      pose proof (unbe_firstn_bound 2 v Hwf ltac:(lia)) as B. rewrite pow2 in B.
      replace (unbe (firstn 2 v) <? 4294967296) with true by (symmetry; apply N.ltb_lt; lia). reflexivity.
  - (* COMMUNITIES *)
    apply Nat.eqb_eq in Hv. destruct (parse_items_ok 4 ltac:(lia) (S (length v)) v 0%nat Hwf Hv ltac:(lia)) as (items & E & F & L).
    unfold parser_of. rewrite E. cbn [bind]. eexists. split; [reflexivity|]. split; [|reflexivity].
    cbn [wf_attr N.eqb Pos.eqb Nat.eqb orb andb]. rewrite L.
    replace (forallb (fun x => x <? 256 ^ N.of_nat 4) items) with true.
    2:{ symmetry. apply forallb_forall. intros x Hx. apply N.ltb_lt. rewrite Forall_forall in F. now apply F. }
    cbn [andb]. apply N.leb_le. lia.
  - apply Nat.eqb_eq in Hv. unfold parser_of. rewrite parse_be_front by lia. cbn [bind].
    eexists. split; [reflexivity|]. split; [|reflexivity]. cbn [wf_attr N.eqb Pos.eqb orb andb]. apply u32_front; [assumption|lia].
  - (* CLUSTER_LIST *)
    apply Nat.eqb_eq in Hv. destruct (parse_items_ok 4 ltac:(lia) (S (length v)) v 0%nat Hwf Hv ltac:(lia)) as (items & E & F & L).
    unfold parser_of. rewrite E. cbn [bind]. eexists. split; [reflexivity|]. split; [|reflexivity].
    cbn [wf_attr N.eqb Pos.eqb Nat.eqb orb andb]. rewrite L.
    replace (forallb (fun x => x <? 256 ^ N.of_nat 4) items) with true.
    2:{ symmetry. apply forallb_forall. intros x Hx. apply N.ltb_lt. rewrite Forall_forall in F. now apply F. }
    cbn [andb]. apply N.leb_le. lia.
  - (* EXTENDED_COMMUNITIES *)
    apply Nat.eqb_eq in Hv. destruct (parse_items_ok 8 ltac:(lia) (S (length v)) v 0%nat Hwf Hv ltac:(lia)) as (items & E & F & L).
    unfold parser_of. rewrite E. cbn [bind]. eexists. split; [reflexivity|]. split; [|reflexivity].
    cbn [wf_attr N.eqb Pos.eqb Nat.eqb orb andb]. rewrite L.
    replace (forallb (fun x => x <? 256 ^ N.of_nat 8) items) with true.
    2:{ symmetry. apply forallb_forall. intros x Hx. apply N.ltb_lt. rewrite Forall_forall in F. now apply F. }
    cbn [andb]. apply N.leb_le. lia.
  - (* AS4_PATH *)
    destruct (path_owned true v Hwf Hv) as (h & w & E1 & E2 & E3 & E4). rewrite E1. cbn [bind].
    exists (APath 17 h). split; [reflexivity|]. split; [|reflexivity]. cbn [wf_attr N.eqb Pos.eqb orb andb]. rewrite E3.
    replace (forallb hop_okb h) with true.
    2:{ symmetry. apply forallb_forall. intros x Hx. apply hop_ok_okb. rewrite Forall_forall in E2. now apply E2. }
    cbn [andb]. apply N.leb_le. lia.
  - (* AS4_AGGREGATOR *)
    apply Nat.eqb_eq in Hv. unfold parser_of.
    rewrite parse_be_front by lia. cbn [bind]. rewrite parse_be_front by (rewrite skipn_length; lia). cbn [bind].
    eexists. split; [reflexivity|]. split; [|reflexivity]. cbn [wf_attr N.eqb Pos.eqb orb andb].
    rewrite u32_front by (try assumption; lia). rewrite u32_front by (try (now apply wf_skipn); rewrite skipn_length; lia). reflexivity.
  - apply Nat.eqb_eq in Hv. unfold parser_of. rewrite parse_be_front by lia. cbn [bind].
    eexists. split; [reflexivity|]. split; [|reflexivity]. cbn [wf_attr N.eqb Pos.eqb orb andb]. apply u32_front; [assumption|lia].
  - (* AS_PATHLIMIT *)
    apply Nat.eqb_eq in Hv. destruct v as [|ub v']; cbn [length] in Hv; [lia|]. unfold parser_of. cbn [parse_u8 p_rest p_pos bind].
    inversion Hwf as [|? ? Hub Hwf']; subst. rewrite parse_be_front by lia. cbn [bind].
    eexists. split; [reflexivity|]. split; [|reflexivity]. cbn [wf_attr].
    replace (ub <? 256) with true by (symmetry; now apply N.ltb_lt). rewrite u32_front by (try assumption; lia). reflexivity.
  - (* IPV6_EXTENDED_COMMUNITIES *)
    apply Nat.eqb_eq in Hv. destruct (parse_items_ok 20 ltac:(lia) (S (length v)) v 0%nat Hwf Hv ltac:(lia)) as (items & E & F & L).
    unfold parser_of. rewrite E. cbn [bind]. eexists. split; [reflexivity|]. split; [|reflexivity].
    cbn [wf_attr N.eqb Pos.eqb Nat.eqb orb andb]. rewrite L.
    replace (forallb (fun x => x <? 256 ^ N.of_nat 20) items) with true.
    2:{ symmetry. apply forallb_forall. intros x Hx. apply N.ltb_lt. rewrite Forall_forall in F. now apply F. }
    cbn [andb]. apply N.leb_le. lia.
  - (* LARGE_COMMUNITIES *)
    apply Nat.eqb_eq in Hv. destruct (parse_items_ok 12 ltac:(lia) (S (length v)) v 0%nat Hwf Hv ltac:(lia)) as (items & E & F & L).
    unfold parser_of. rewrite E. cbn [bind]. eexists. split; [reflexivity|]. split; [|reflexivity].
    cbn [wf_attr N.eqb Pos.eqb Nat.eqb orb andb]. rewrite L.
    replace (forallb (fun x => x <? 256 ^ N.of_nat 12) items) with true.
    2:{ symmetry. apply forallb_forall. intros x Hx. apply N.ltb_lt. rewrite Forall_forall in F. now apply F. }
    cbn [andb]. apply N.leb_le. lia.
  - apply Nat.eqb_eq in Hv. unfold parser_of. rewrite parse_be_front by lia. cbn [bind].
    eexists. split; [reflexivity|]. split; [|reflexivity]. cbn [wf_attr N.eqb Pos.eqb orb andb]. apply u32_front; [assumption|lia].
  - (* ATTR_SET *)
    apply Nat.leb_le in Hv. unfold parser_of. rewrite parse_be_front by lia. cbn [bind p_rest].
    eexists. split; [reflexivity|]. split; [|reflexivity]. cbn [wf_attr]. rewrite u32_front by (try assumption; lia). rewrite Hwb. cbn [andb].
    apply N.leb_le. rewrite skipn_length. lia.
  - (* Reserved *)
    exists (ARaw 255 v). split; [reflexivity|]. split; [|reflexivity]. cbn [wf_attr N.eqb Pos.eqb andb].
    replace (wf_bytesb v) with true by (symmetry; now apply wf_bytesb_spec). cbn [andb]. apply N.leb_le. lia.
Qed.

(* ---- attribute items of a walk over well-formed octets ---- *)
Definition wattr_value (w : wattr) : res bytes :=
  match w with
  | WTyped _ _ tlv => let* f := index tlv 0 in slice_from tlv (if has_ext f then 4 else 3)
  | WUnimpl f _ tlv => slice_from tlv (if has_ext f then 4 else 3)
  | WInvalid _ _ v => Ok v
  end.

Definition witem_ok (four : bool) (w : wattr) : Prop :=
  exists v, wattr_value w = Ok v /\ wf_bytes v /\ N.of_nat (length v) <= 65535 /\ wattr_code w < 256 /\
  match w with
  | WTyped c f4 _ => f4 = four /\ exists cf vr lr, attr_rule c = Some (cf, vr, lr) /\ validate vr four v = true
  | WUnimpl fl c _ => fl < 256 /\ attr_rule c = None
  | WInvalid cf c _ => exists vr lr, attr_rule c = Some (cf, vr, lr)
  end.

Lemma wire_attr_parse_item four p w p' :
  wf_bytes (p_rest p) -> wire_attr_parse four p = Ok (w, p') ->
  witem_ok four w /\ wf_bytes (p_rest p') /\ (forall v, wattr_value w = Ok v -> (length v + remaining p' + 3 <= remaining p)%nat).
Proof.
  unfold wire_attr_parse. intros Hwf H.
  destruct (parse_u8 p) as [[fl p1]| |] eqn:E1; cbn [bind] in H; try discriminate.
  destruct (parse_u8 p1) as [[c p2]| |] eqn:E2; cbn [bind] in H; try discriminate.
  destruct (if has_ext fl then parse_u16 p2 else parse_u8 p2) as [[len p3]| |] eqn:E3; cbn [bind] in H; try discriminate.
  destruct (take (N.to_nat len) p3) as [[v p4]| |] eqn:E4; cbn [bind] in H; try discriminate.
  unfold parse_u8 in E1. destruct (p_rest p) as [|b0 r0] eqn:R0; [discriminate|]. inversion E1; subst fl p1. clear E1.
  unfold parse_u8 in E2. cbn [p_rest p_pos] in E2. destruct r0 as [|b1 r1]; [discriminate|]. inversion E2; subst c p2. clear E2.
  unfold wf_bytes in Hwf. inversion Hwf as [|? ? Hb0 Hwf0]; subst. inversion Hwf0 as [|? ? Hb1 Hwf1]; subst.
  assert (Hsplit : exists lf, r1 = lf ++ p_rest p3 /\ length lf = (if has_ext b0 then 2%nat else 1%nat) /\ len < 65536).
  { destruct (has_ext b0).
    - unfold parse_u16, parse_be in E3. destruct (take 2 _) as [[lv q]| |] eqn:Et; cbn [bind] in E3; try discriminate.
      inversion E3; subst. apply take_ok in Et as (A & B & _). cbn [p_rest] in A. exists lv. repeat split; auto.
      assert (Wl : wf_bytes lv). { unfold wf_bytes. rewrite A in Hwf1. apply Forall_app in Hwf1. tauto. }
      pose proof (unbe_bound lv Wl) as Bd. rewrite B in Bd. rewrite pow2 in Bd. exact Bd.
    - unfold parse_u8 in E3. cbn [p_rest p_pos] in E3. destruct r1 as [|b2 r2]; [discriminate|]. exists [b2]. inversion E3; subst. cbn [app length p_rest].
      repeat split; auto. inversion Hwf1; subst. lia. }
  destruct Hsplit as (lf & Er1 & Llf & Hlen).
  apply take_ok in E4 as (Ev & Lv & _).
  assert (Wv : wf_bytes v /\ wf_bytes (p_rest p4)).
  { rewrite Er1 in Hwf1. apply Forall_app in Hwf1 as (_ & W3). rewrite Ev in W3. apply Forall_app in W3. exact W3. }
  destruct Wv as (Wv & W4).
  set (hlen := if has_ext b0 then 4%nat else 3%nat) in *.
  assert (Etlv : firstn (hlen + N.to_nat len) (b0 :: b1 :: r1) = b0 :: b1 :: lf ++ v).
  { rewrite Er1, Ev. change (b0 :: b1 :: lf ++ v ++ p_rest p4) with ((b0 :: b1 :: lf) ++ v ++ p_rest p4).
    rewrite app_assoc. change (b0 :: b1 :: lf ++ v) with ((b0 :: b1 :: lf) ++ v).
    rewrite firstn_app. replace (hlen + N.to_nat len - length ((b0 :: b1 :: lf) ++ v))%nat with 0%nat.
    2:{ rewrite app_length. cbn [length]. subst hlen. destruct (has_ext b0); lia. }
    cbn [firstn]. rewrite app_nil_r. apply firstn_all2. rewrite app_length. cbn [length]. subst hlen. destruct (has_ext b0); lia. }
  assert (Tv : slice_from (b0 :: b1 :: lf ++ v) hlen = Ok v).
  { unfold slice_from. cbn [length]. rewrite app_length.
    replace (Nat.leb hlen (S (S (length lf + length v)))) with true by (symmetry; apply Nat.leb_le; subst hlen; destruct (has_ext b0); lia).
    f_equal. subst hlen. destruct (has_ext b0); cbn [skipn].
    - destruct lf as [|x [|y [|z lf]]]; cbn in Llf; try lia. reflexivity.
    - destruct lf as [|x [|y lf]]; cbn in Llf; try lia. reflexivity. }
  assert (Hl16 : N.of_nat (length v) <= 65535) by lia.
  assert (Hrem : (length v + remaining p4 + 3 <= remaining p)%nat).
  { unfold remaining. rewrite R0. cbn [length]. rewrite Er1, app_length, Ev, app_length. destruct (has_ext b0); lia. }
  rewrite Etlv in H.
  destruct (attr_rule b1) as [[[cf vr] lr]|] eqn:Er.
  - destruct (validate vr four v) eqn:Ev2; apply Ok_inj in H; inversion H; subst w p'; (split; [|split; [exact W4|]]).
    + exists v. cbn [wattr_value index nth_error bind wattr_code]. fold hlen. repeat split; auto. exists cf, vr, lr. auto.
    + cbn [wattr_value index nth_error bind]. fold hlen. rewrite Tv. intros v0 E0. apply Ok_inj in E0. subst v0. exact Hrem.
    + exists v. cbn [wattr_value wattr_code]. repeat split; auto. eauto.
    + cbn [wattr_value]. intros v0 E0. apply Ok_inj in E0. subst v0. exact Hrem.
  - apply Ok_inj in H. inversion H; subst w p'. split; [|split; [exact W4|]].
    + exists v. cbn [wattr_value wattr_code]. fold hlen. repeat split; auto.
    + cbn [wattr_value]. fold hlen. rewrite Tv. intros v0 E0. apply Ok_inj in E0. subst v0. exact Hrem.
Qed.

Lemma to_owned_value w v : wattr_value w = Ok v ->
  to_owned w = match w with
               | WTyped c four _ => parse_value c four v
               | WUnimpl f c _ => Ok (AUnimpl f c v)
               | WInvalid f c _ => Ok (AInvalid f c v)
               end.
Proof.
  destruct w as [c four tlv|f c tlv|f c v0]; cbn [wattr_value to_owned].
  - destruct (index tlv 0) as [f| |]; cbn [bind]; try discriminate. intros ->. reflexivity.
  - intros ->. reflexivity.
  - intros H. apply Ok_inj in H. now subst.
Qed.

(* ---- re-encoding one owned attribute ---- *)
Definition norm_flags (f : N) (len : nat) : N :=
  if Nat.ltb 255 len then set_ext (set_partial f) else clear_ext (set_partial f).

Definition reenc_wf (x : pattr) : Prop :=
  match x with
  | AUnimpl f c v => f < 256 /\ c < 256 /\ wf_bytes v /\ N.of_nat (length v) <= 65535 /\ attr_rule c = None
  | AInvalid f c v => c < 256 /\ wf_bytes v /\ N.of_nat (length v) <= 65535 /\ exists vr lr, attr_rule c = Some (f, vr, lr)
  | _ => wf_attr x = true
  end.

(* what the decoder reports for the re-encoded attribute *)
Definition same_attr (x : pattr) (w' : wattr) : Prop :=
  wattr_code w' = attr_code x /\
  match x with
  | AUnimpl f c v => to_owned w' = Ok (AUnimpl (norm_flags f (length v)) c v)
  | AInvalid f c v => wattr_value w' = Ok v
  | _ => to_owned w' = Ok x
  end.

Lemma item_owned four w :
  witem_ok four w -> (forall v, wattr_value w = Ok v -> N.of_nat (3 * length v) <= 65535) ->
  exists x, to_owned w = Ok x /\ reenc_wf x /\ attr_code x = wattr_code w.
Proof.
  intros (v & Hv & Hwf & Hl & Hc & Hk) Hsz. rewrite (to_owned_value w v Hv). specialize (Hsz v Hv).
  destruct w as [c f4 tlv|fl c tlv|cf c v0]; cbn [wattr_code] in *.
  - destruct Hk as (-> & cf & vr & lr & Hr & Hval).
    destruct (owned_wf c four v cf vr lr Hr Hval Hwf Hsz) as (x & E1 & E2 & E3).
    exists x. split; [exact E1|]. split; [|exact E3]. destruct x; cbn [reenc_wf]; try exact E2; cbn [wf_attr] in E2; discriminate.
  - destruct Hk as (Hf & Hr). eexists. split; [reflexivity|]. split; [|reflexivity]. cbn [reenc_wf]. repeat split; auto.
  - destruct Hk as (vr & lr & Hr). eexists. split; [reflexivity|]. split; [|reflexivity]. cbn [reenc_wf]. repeat split; auto. eauto.
Qed.

Lemma set_clear_ext' f : set_ext (clear_ext f) = set_ext f.
Proof.
  unfold set_ext, clear_ext, has_ext. destruct ((f / 16) mod 2 =? 1) eqn:E.
  - apply N.eqb_eq in E. assert (16 <= f) by lia.
    replace (((f - 16) / 16) mod 2 =? 1) with false by (symmetry; apply N.eqb_neq; lia). lia.
  - rewrite E. reflexivity.
Qed.

Lemma raw_compose_header f c v :
  [norm_flags f (length v); c] ++ (if Nat.ltb 255 (length v) then be 2 (sat16 (length v)) else [sat8 (length v)]) ++ v
  = header (clear_ext (set_partial f)) c (length v) ++ v.
Proof. unfold header, norm_flags. destruct (Nat.ltb 255 (length v)); [rewrite set_clear_ext'|]; reflexivity. Qed.

Lemma header_len3 f c n : (3 <= length (header f c n))%nat.
Proof. unfold header. destruct (Nat.ltb 255 n); cbn [length app]; rewrite ?be_length; lia. Qed.

Lemma slice_header f c (v : bytes) :
  ((length v <= 255)%nat -> has_ext f = false) ->
  let hdr := header f c (length v) in
  exists f0, index (hdr ++ v) 0 = Ok f0 /\ slice_from (hdr ++ v) (if has_ext f0 then 4 else 3) = Ok v /\
             f0 = (if Nat.ltb 255 (length v) then set_ext f else f).
Proof.
  intros Hext hdr. unfold hdr, header. destruct (Nat.ltb 255 (length v)) eqn:E.
  - exists (set_ext f). cbn [app index nth_error]. rewrite has_ext_set. unfold slice_from. cbn [length Nat.leb skipn]. auto.
  - apply Nat.ltb_ge in E. exists f. cbn [app index nth_error]. rewrite (Hext E). unfold slice_from. cbn [length Nat.leb skipn]. auto.
Qed.

Lemma reencode_one x rest pos :
  reenc_wf x ->
  exists bs w', compose x = Ok bs /\ (3 <= length bs)%nat /\
                wire_attr_parse true (mkP (bs ++ rest) pos) = Ok (w', mkP rest (pos + length bs)) /\ same_attr x w'.
Proof.
  intros H.
  assert (Typed : wf_attr x = true -> exists bs w', compose x = Ok bs /\ (3 <= length bs)%nat /\
                wire_attr_parse true (mkP (bs ++ rest) pos) = Ok (w', mkP rest (pos + length bs)) /\
                wattr_code w' = attr_code x /\ to_owned w' = Ok x).
  { intros Hwf. destruct (c04_roundtrip_proof x rest pos Hwf) as (bs & w' & E1 & E2 & E3).
    exists bs, w'. split; [exact E1|]. split.
    - destruct (c04_header_proof x bs Hwf E1) as (v & f & _ & N0 & N1 & _). destruct bs as [|a [|b [|c bs]]]; cbn in *; try discriminate; try lia.
      (* a header has at least three octets *)
      exfalso. destruct (value_facts x Hwf) as (v' & cf & vr & lr & Hv' & Hr & Hl' & _).
      assert (Hc : compose x = Ok (header (canon_flags (attr_code x)) (attr_code x) (length v') ++ v')).
      { destruct x; cbn [wf_attr] in Hwf; try discriminate; unfold compose; rewrite Hl', Hv'; reflexivity. }
      rewrite Hc in E1. apply Ok_inj in E1. pose proof (header_len3 (canon_flags (attr_code x)) (attr_code x) (length v')) as L3.
      assert (L : length (header (canon_flags (attr_code x)) (attr_code x) (length v') ++ v') = 2%nat) by (rewrite E1; reflexivity).
      rewrite app_length in L. lia.
    - split; [exact E2|]. split; [|exact E3].
      (* the code of the parsed item *)
      destruct (value_facts x Hwf) as (v' & cf & vr & lr & Hv' & Hr & Hl' & Hval & _ & Hsz & Hcf).
      assert (Hc : compose x = Ok (header cf (attr_code x) (length v') ++ v')).
      { unfold canon_flags in *. destruct x; cbn [wf_attr] in Hwf; try discriminate; unfold compose, canon_flags; rewrite Hl', Hv', Hr; reflexivity. }
      rewrite Hc in E1. apply Ok_inj in E1. subst bs. rewrite <- app_assoc in E2.
      rewrite frame in E2 by (try assumption; intros _; exact Hcf). unfold frame_result in E2. rewrite Hr, Hval in E2.
      apply Ok_inj in E2. inversion E2; subst w'. reflexivity. }
  destruct x; try (destruct (Typed H) as (bs & w' & A & B & C & D & E); exists bs, w'; repeat split; assumption); cbn [reenc_wf] in H.
  - (* unknown type *)
    destruct H as (Hf & Hc & Hwf & Hl & Hr).
    eexists. eexists. split; [cbn [compose]; fold (norm_flags flags (length value)); reflexivity|].
    rewrite raw_compose_header. split; [rewrite app_length; pose proof (header_len3 (clear_ext (set_partial flags)) code (length value)); lia|].
    rewrite <- app_assoc. rewrite frame by (try assumption; intros _; apply has_ext_clear). unfold frame_result. rewrite Hr.
    split; [match goal with |- Ok (?a, mkP ?r ?x) = Ok (_, mkP ?r ?y) => replace y with x by (rewrite app_length; lia); reflexivity end|].
    split; [reflexivity|]. cbn [to_owned].
    destruct (slice_header (clear_ext (set_partial flags)) code value (fun _ => has_ext_clear _)) as (f0 & I1 & I2 & I3).
    assert (Hnf : (if Nat.ltb 255 (length value) then set_ext (clear_ext (set_partial flags)) else clear_ext (set_partial flags))
                  = norm_flags flags (length value)).
    { unfold norm_flags. destruct (Nat.ltb 255 (length value)); [apply set_clear_ext'|reflexivity]. }
    rewrite Hnf in *. unfold index in I1. destruct (nth_error _ 0) eqn:En; [|discriminate]. apply Ok_inj in I1. subst n.
    rewrite I3 in I2. rewrite I2. reflexivity.
  - (* recognised type, invalid value *)
    destruct H as (Hc & Hwf & Hl & vr & lr & Hr).
    assert (Hcomp : compose (AInvalid flags code value) = Ok (header (clear_ext (set_partial flags)) code (length value) ++ value)).
    { cbn [compose]. fold (norm_flags flags (length value)). rewrite raw_compose_header. reflexivity. }
    pose proof (header_len3 (clear_ext (set_partial flags)) code (length value)) as L3.
    assert (Hparse : wire_attr_parse true (mkP ((header (clear_ext (set_partial flags)) code (length value) ++ value) ++ rest) pos)
              = frame_result true (clear_ext (set_partial flags)) code value (header (clear_ext (set_partial flags)) code (length value))
                  (mkP rest (pos + length (header (clear_ext (set_partial flags)) code (length value) ++ value)))).
    { rewrite <- app_assoc. rewrite frame by (try assumption; intros _; apply has_ext_clear). f_equal. f_equal. rewrite app_length. lia. }
    unfold frame_result in Hparse. rewrite Hr in Hparse.
    destruct (validate vr true value).
    + eexists. eexists. split; [exact Hcomp|]. split; [rewrite app_length; lia|]. split; [exact Hparse|]. split; [reflexivity|].
      cbn [wattr_value].
      destruct (slice_header (clear_ext (set_partial flags)) code value (fun _ => has_ext_clear _)) as (f0 & I1 & I2 & _).
      rewrite I1. cbn [bind]. exact I2.
    + eexists. eexists. split; [exact Hcomp|]. split; [rewrite app_length; lia|]. split; [exact Hparse|]. split; reflexivity.
Qed.
