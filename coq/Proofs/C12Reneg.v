(* C12, the live session the second time round: one Session that negotiates again over a new socket (Session::attach_stream).
   Whatever the Session went through before - whatever it negotiated - the connection attached last starts from
   SessionConfig::modern(), nothing the peer or the timers do before the peer's OPEN is accepted changes that, and the accepted
   OPEN then yields Negotiate.live_session_config of the local ADD-PATH families and *that* OPEN. *)
From Coq Require Import List NArith Bool Lia.
From RC Require Import Base.Res Base.Wire Model.Negotiate Gen.FsmTable Model.Fsm Proofs.C08Proofs.
Import ListNotations.
Local Open Scope N_scope.

(* what a step that does not reach the OPEN acceptance block leaves alone: the configured families, and - as long as the
   connection is still there afterwards - the connection and its configuration *)
Definition keeps (s s' : sess) : Prop :=
  s_local_ap s' = s_local_ap s /\ (s_conn s' = true -> s_conn s = true /\ s_sc s' = s_sc s).

Lemma keeps_refl s : keeps s s.
Proof. split; [reflexivity|intros H; split; [exact H|reflexivity]]. Qed.

Lemma keeps_trans a b c : keeps a b -> keeps b c -> keeps a c.
Proof.
  intros (L1 & C1) (L2 & C2). split; [congruence|]. intros H. destruct (C2 H) as (Hb & S2). destruct (C1 Hb) as (Ha & S1).
  split; [exact Ha|congruence].
Qed.

(* every arm of Session::handle_event for an event that is not an OPEN *)
Lemma fsm_step_keeps s e o : is_open_event e = false -> keeps s (fst (fsm_step s e o)).
Proof.
  destruct s as [st crc crt hold ka dot conn delay nwo exact holdtime lap neg sc out app]. intros He.
  unfold keeps. cbn [s_local_ap s_conn s_sc].
  destruct e; try discriminate He; clear He;
    destruct st; destruct dot, delay, nwo, exact, conn; vm_compute;
    (split; [reflexivity|intros H; try discriminate H; split; reflexivity]).
Qed.

Lemma push_app_keeps s m : keeps s (push_app s m).
Proof.
  unfold keeps, push_app. destruct s as [st crc crt hold ka dot conn delay nwo exact holdtime lap neg sc out app]. cbn [s_local_ap s_conn s_sc].
  split; [reflexivity|intros H; split; [exact H|reflexivity]]. Qed.

(* Session::handle_msg for every message that is not an OPEN *)
Lemma handle_msg_keeps s m : (forall o, m <> WOpen o) -> keeps s (fst (handle_msg s m)).
Proof.
  intros Hm. destruct m as [o| |id|id|]; cbn [handle_msg].
  - exfalso. exact (Hm o eq_refl).
  - apply fsm_step_keeps. reflexivity.
  - pose proof (fsm_step_keeps s EUpdateMsg dummy_open eq_refl) as K.
    destruct (fsm_step s EUpdateMsg dummy_open) as [s' oc] eqn:E. cbn [fst] in K.
    destruct oc; cbn [fst]; try exact K.
    destruct (match s_st s with SEstablished => true | _ => false end); [|exact K].
    eapply keeps_trans; [exact K|apply push_app_keeps].
  - eapply keeps_trans; [apply push_app_keeps|]. apply fsm_step_keeps. reflexivity.
  - apply keeps_refl.
Qed.

(* a history on the new connection up to the peer's OPEN: events (timers, the transport, the operator) and messages *)
Inductive hstep := HEvent (e : fevent) | HMsg (m : wmsg).

Definition quiet (h : hstep) : bool :=
  match h with
  | HEvent e => negb (is_open_event e)
  | HMsg (WOpen _) => false
  | HMsg _ => true
  end.

Definition hrun1 (s : sess) (h : hstep) : sess :=
  match h with
  | HEvent e => fst (fsm_step s e dummy_open)
  | HMsg m => fst (handle_msg s m)
  end.

Definition hrun (s : sess) (hs : list hstep) : sess := fold_left hrun1 hs s.

Lemma hrun1_keeps s h : quiet h = true -> keeps s (hrun1 s h).
Proof.
  destruct h as [e|m]; cbn [quiet hrun1]; intros Q.
  - apply fsm_step_keeps. now destruct (is_open_event e).
  - apply handle_msg_keeps. intros o ->. discriminate Q.
Qed.

Lemma hrun_keeps hs : forall s, forallb quiet hs = true -> keeps s (hrun s hs).
Proof.
  induction hs as [|h hs IH]; intros s Q; cbn [hrun fold_left]; [apply keeps_refl|].
  cbn [forallb] in Q. apply andb_true_iff in Q as (Q1 & Q2).
  eapply keeps_trans; [apply (hrun1_keeps s h Q1)|apply IH, Q2].
Qed.

(* the second (third, ...) negotiation of one Session *)
Lemma c12_renegotiation_proof s hs o b caps l :
  forallb quiet hs = true ->
  s_conn (hrun (fst (attach_stream s)) hs) = true ->
  op_allowed o = true -> addpath_families_vec caps = Ok l -> op_addpath o = Ok l -> op_four o = four_octet_capable caps ->
  Ok (s_sc (fst (open_accept (hrun (fst (attach_stream s)) hs) o b))) = live_session_config (s_local_ap s) caps.
Proof.
  intros Q Hc Ha Hv Hl Hf.
  assert (K : keeps (fresh_conn s) (hrun (fst (attach_stream s)) hs)).
  { eapply keeps_trans; [|apply hrun_keeps, Q]. unfold attach_stream. apply fsm_step_keeps. reflexivity. }
  destruct K as (L & C). destruct (C Hc) as (_ & S).
  assert (Lap : s_local_ap (fresh_conn s) = s_local_ap s) by (destruct s as [st crc crt hold ka dot conn delay nwo exact holdtime lap neg sc out app]; reflexivity).
  assert (Sc : s_sc (fresh_conn s) = sc_modern) by (destruct s as [st crc crt hold ka dot conn delay nwo exact holdtime lap neg sc out app]; reflexivity).
  rewrite <- Lap, <- L. apply c12_live_fsm_proof with (l := l); [exact Ha|exact Hc|congruence|exact Hv|exact Hl|exact Hf].
Qed.
