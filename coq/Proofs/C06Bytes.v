(* C06: what finish writes is the reference encoding of (MP_REACH, MP_UNREACH, the attribute map); its length is
   calculate_pdu_length. *)
From Coq Require Import List NArith Bool Lia ZArith.
From RC Require Import Base.Res Base.Wire Model.Open Model.Negotiate Model.Nlri Gen.AttrRules Model.AsPath Model.Attr
     Model.Update Gen.BuilderConsts Model.Builder Model.RefEncUpdate
     Proofs.WireProofs Proofs.NlriProofs Proofs.AttrProofs Proofs.C01Proofs Proofs.C06Proofs.
Import ListNotations.
Local Open Scope N_scope.
Ltac Zify.zify_post_hook ::= Z.div_mod_to_equations.
Local Arguments N.of_nat : simpl never.
Local Arguments Nat.ltb : simpl never.
Local Opaque be.

(* ---- flags arithmetic ---- *)
Lemma set_clear_ext f : set_ext (clear_ext f) = set_ext f.
Proof.
  unfold set_ext, clear_ext, has_ext. destruct ((f / 16) mod 2 =? 1) eqn:E.
  - apply N.eqb_eq in E. assert (16 <= f) by lia.
    replace (((f - 16) / 16) mod 2 =? 1) with false by (symmetry; apply N.eqb_neq; lia). lia.
  - rewrite E. reflexivity.
Qed.

Lemma flags_small f : f < 256 -> clear_ext (set_partial f) < 256.
Proof.
  intros H. unfold clear_ext, set_partial, has_ext, has_partial.
  destruct ((f / 32) mod 2 =? 1) eqn:E1; [|apply N.eqb_neq in E1].
  - destruct ((f / 16) mod 2 =? 1); lia.
  - destruct (((f + 32) / 16) mod 2 =? 1); lia.
Qed.

(* ---- attributes of the map ---- *)
Definition wf_pa (a : pattr) : bool :=
  match a with
  | AUnimpl f c v | AInvalid f c v =>
    (f <? 256) && (c <? 256) && wf_bytesb v && (N.of_nat (length v) <=? 65535) && negb ((c =? 14) || (c =? 15))
  | _ => wf_attr a
  end.

Definition spec_of (a : pattr) : res attr_spec :=
  match a with
  | AUnimpl f c v | AInvalid f c v => Ok (mkAS (clear_ext (set_partial f)) c v)
  | _ => let* v := value_bytes a in Ok (mkAS (canon_flags (attr_code a)) (attr_code a) v)
  end.

Lemma header_length f c n : length (header f c n) = header_len n.
Proof. unfold header, header_len. destruct (Nat.ltb 255 n); cbn [length app]; rewrite ?be_length; reflexivity. Qed.

Lemma enc_attr_length s : length (enc_attr s) = (header_len (length (as_value s)) + length (as_value s))%nat.
Proof. unfold enc_attr. rewrite app_length, header_length. reflexivity. Qed.

Lemma raw_compose f c v :
  (f <? 256) && (c <? 256) && wf_bytesb v && (N.of_nat (length v) <=? 65535) && negb ((c =? 14) || (c =? 15)) = true ->
  let s := mkAS (clear_ext (set_partial f)) c v in
  [if Nat.ltb 255 (length v) then set_ext (set_partial f) else clear_ext (set_partial f); c] ++
    (if Nat.ltb 255 (length v) then be 2 (sat16 (length v)) else [sat8 (length v)]) ++ v = enc_attr s /\
  wf_spec s = true /\ as_code s <> 14 /\ as_code s <> 15.
Proof.
  rewrite !andb_true_iff, negb_true_iff, orb_false_iff, !N.ltb_lt, N.leb_le, !N.eqb_neq. intros ((((Hf & Hc) & Hv) & Hl) & (N14 & N15)) s.
  split.
  - unfold enc_attr, header, s. cbn [as_flags as_code as_value]. destruct (Nat.ltb 255 (length v)); [rewrite set_clear_ext|]; reflexivity.
  - split; [|split; assumption]. unfold wf_spec, s. cbn [as_flags as_code as_value].
    rewrite !andb_true_iff. repeat split.
    + apply N.ltb_lt. now apply flags_small.
    + now apply N.ltb_lt.
    + now apply N.leb_le.
    + rewrite has_ext_clear. cbn. apply orb_true_r.
    + apply N.eqb_neq in N14, N15. rewrite N14, N15. reflexivity.
Qed.

Lemma compose_spec a : wf_pa a = true ->
  exists s, spec_of a = Ok s /\ compose a = Ok (enc_attr s) /\ Attr.compose_len a = Ok (length (enc_attr s)) /\
            wf_spec s = true /\ as_code s <> 14 /\ as_code s <> 15 /\ as_code s = attr_code a.
Proof.
  intros H.
  assert (Typed : wf_attr a = true -> exists s, spec_of a = Ok s /\ compose a = Ok (enc_attr s) /\ Attr.compose_len a = Ok (length (enc_attr s)) /\
            wf_spec s = true /\ as_code s <> 14 /\ as_code s <> 15 /\ as_code s = attr_code a).
  { intros Hwf. destruct (value_facts a Hwf) as (v & cf & vr & lr & Hv & Hr & Hl & Hval & Hp & Hsz & Hcf).
    destruct (c01_typed_value_proof a v Hwf Hv) as (Hs & He & _). destruct (rule_small _ _ _ _ Hr) as (C & F & N14 & N15).
    exists (mkAS (canon_flags (attr_code a)) (attr_code a) v).
    assert (Hspec : spec_of a = Ok (mkAS (canon_flags (attr_code a)) (attr_code a) v)).
    { destruct a; cbn [wf_attr] in Hwf; try discriminate; unfold spec_of; rewrite Hv; reflexivity. }
    split; [exact Hspec|]. split.
    { destruct a; cbn [wf_attr] in Hwf; try discriminate; unfold compose; rewrite Hl, Hv; cbn [bind]; rewrite He; reflexivity. }
    split.
    { rewrite enc_attr_length. cbn [as_value].
      destruct a; cbn [wf_attr] in Hwf; try discriminate; unfold Attr.compose_len; rewrite Hl; reflexivity. }
    repeat split; auto. }
  destruct a; try (apply Typed; exact H); cbn [wf_pa] in H.
  - destruct (raw_compose flags code value H) as (E1 & E2 & E3 & E4).
    eexists. split; [reflexivity|]. split; [cbn [compose]; rewrite <- E1; reflexivity|]. split.
    + rewrite enc_attr_length. reflexivity.
    + repeat split; auto.
  - destruct (raw_compose flags code value H) as (E1 & E2 & E3 & E4).
    eexists. split; [reflexivity|]. split; [cbn [compose]; rewrite <- E1; reflexivity|]. split.
    + rewrite enc_attr_length. reflexivity.
    + repeat split; auto.
Qed.

Lemma pamap_spec (m : pamap) : forallb (fun e => wf_pa (snd e)) m = true ->
  exists specs, pamap_compose m = Ok (flat_map enc_attr specs) /\ pamap_bytes_len m = Ok (length (flat_map enc_attr specs)) /\
                forallb wf_spec specs = true /\ Forall (fun s => as_code s <> 14 /\ as_code s <> 15) specs /\
                map as_code specs = map (fun e => attr_code (snd e)) m.
Proof.
  induction m as [|[c a] m IH]; cbn [forallb snd]; intros H.
  - exists []. repeat split; constructor.
  - apply andb_true_iff in H as (Ha & Hm). destruct (IH Hm) as (specs & I1 & I2 & I3 & I4 & I5).
    destruct (compose_spec a Ha) as (s & _ & C1 & C2 & C3 & C4 & C5 & C6).
    exists (s :: specs). cbn [pamap_compose pamap_bytes_len flat_map forallb map snd]. rewrite C1, I1, C2, I2. cbn [bind].
    rewrite app_length, C3, I3, C6, I5. repeat split; auto.
Qed.

(* ---- NLRI sections ---- *)
Lemma encode_all_sum l enc : Forall (fun n => wf_nlri n = true) l -> encode_all l = Ok enc -> length enc = sum_len l.
Proof.
  revert enc. induction l as [|n l IH]; intros enc Hwf He; cbn [encode_all] in He.
  - inversion He. reflexivity.
  - inversion Hwf as [|? ? Hn Hl]; subst. destruct (compose_nlri n) as [x| |] eqn:Hc; cbn [bind] in He; try discriminate.
    destruct (encode_all l) as [r| |] eqn:Hr; cbn [bind] in He; try discriminate. inversion He; subst.
    rewrite app_length, (IH r Hl eq_refl), (c05_len_proof n x Hn Hc). reflexivity.
Qed.

Definition wf_builder (b : builder) : bool :=
  forallb wf_nlri (ann_of b) && forallb wf_nlri (wd_of b) && forallb (fun e => wf_pa (snd e)) (bd_attrs b) &&
  match bd_ann b with Some r => wf_nh (r_nh r) | None => true end.

Fixpoint specs_of (m : pamap) : res (list attr_spec) :=
  match m with
  | [] => Ok []
  | (_, a) :: tl => let* s := spec_of a in let* r := specs_of tl in Ok (s :: r)
  end.

(* the UPDATE content a builder stands for: MP_REACH, MP_UNREACH, then the map in key order; no conventional sections *)
Definition content_of (b : builder) : res content :=
  let* ra := match bd_ann b with
             | Some r => let* enc := encode_all (r_ann r) in
                         Ok [mkAS 128 14 (mp_reach_value (fam_code (bd_fam b)) (nh_bytes (r_nh r)) enc)]
             | None => Ok []
             end in
  let* ua := match bd_wd b with
             | Some w => let* enc := encode_all w in Ok [mkAS 128 15 (mp_unreach_value (fam_code (bd_fam b)) enc)]
             | None => Ok []
             end in
  let* specs := specs_of (bd_attrs b) in
  Ok (mkContent [] (ra ++ ua ++ specs) []).

Lemma specs_of_spec (m : pamap) : forallb (fun e => wf_pa (snd e)) m = true ->
  exists specs, specs_of m = Ok specs /\ pamap_compose m = Ok (flat_map enc_attr specs) /\
                pamap_bytes_len m = Ok (length (flat_map enc_attr specs)) /\
                forallb wf_spec specs = true /\ Forall (fun s => as_code s <> 14 /\ as_code s <> 15) specs.
Proof.
  induction m as [|[c a] m IH]; cbn [forallb snd]; intros H.
  - exists []. repeat split; constructor.
  - apply andb_true_iff in H as (Ha & Hm). destruct (IH Hm) as (specs & I0 & I1 & I2 & I3 & I4).
    destruct (compose_spec a Ha) as (s & C0 & C1 & C2 & C3 & C4 & C5 & C6).
    exists (s :: specs). cbn [specs_of pamap_compose pamap_bytes_len flat_map forallb]. rewrite C0, I0, C1, I1, C2, I2. cbn [bind].
    rewrite app_length, C3, I3. repeat split; auto.
Qed.

Lemma fam_code_small k : fst (fam_code k) < 65536 /\ snd (fam_code k) < 256 /\ fam_of (fam_code k) = Some k.
Proof. destruct k; cbn; repeat split; lia. Qed.

Lemma afisafi_len k : length (afisafi_bytes (fam_code k)) = 3%nat.
Proof. unfold afisafi_bytes. rewrite app_length, be_length. reflexivity. Qed.

Lemma reach_spec k r enc :
  forallb wf_nlri (r_ann r) = true -> encode_all (r_ann r) = Ok enc -> N.of_nat (reach_vlen r) <= 65535 ->
  let s := mkAS 128 14 (mp_reach_value (fam_code k) (nh_bytes (r_nh r)) enc) in
  reach_compose k r = Ok (enc_attr s) /\ length (as_value s) = reach_vlen r /\ wf_spec s = true.
Proof.
  intros Hwf He Hsz s. rewrite forallb_forall in Hwf. assert (Hwf' : Forall (fun n => wf_nlri n = true) (r_ann r)) by now apply Forall_forall.
  pose proof (encode_all_sum _ _ Hwf' He) as Hlen.
  assert (Hv : length (as_value s) = reach_vlen r).
  { unfold s, mp_reach_value, reach_vlen, nh_clen. cbn [as_value]. rewrite !app_length, be_length. cbn [length]. rewrite Hlen. lia. }
  split; [|split; [exact Hv|]].
  - unfold reach_compose. rewrite He. cbn [bind]. unfold enc_attr. rewrite Hv.
    f_equal; f_equal; unfold s, mp_reach_value, afisafi_bytes, nh_compose; cbn [as_value]; rewrite <- ?app_assoc; reflexivity.
  - unfold wf_spec. rewrite Hv. cbn [as_flags as_code].
    replace (N.of_nat (reach_vlen r) <=? 65535) with true by (symmetry; apply N.leb_le; exact Hsz).
    replace (has_ext 128) with false by reflexivity.
    replace (Nat.leb 3 (reach_vlen r)) with true by (symmetry; apply Nat.leb_le; unfold reach_vlen; lia).
    cbn [negb]. rewrite !orb_true_r. reflexivity.
Qed.

Lemma unreach_spec k w enc :
  forallb wf_nlri w = true -> encode_all w = Ok enc -> N.of_nat (unreach_vlen w) <= 65535 ->
  let s := mkAS 128 15 (mp_unreach_value (fam_code k) enc) in
  unreach_compose k w = Ok (enc_attr s) /\ length (as_value s) = unreach_vlen w /\ wf_spec s = true.
Proof.
  intros Hwf He Hsz s. rewrite forallb_forall in Hwf. assert (Hwf' : Forall (fun n => wf_nlri n = true) w) by now apply Forall_forall.
  pose proof (encode_all_sum _ _ Hwf' He) as Hlen.
  assert (Hv : length (as_value s) = unreach_vlen w).
  { unfold s, mp_unreach_value, unreach_vlen. cbn [as_value]. rewrite !app_length, be_length. cbn [length]. rewrite Hlen. lia. }
  split; [|split; [exact Hv|]].
  - unfold unreach_compose. rewrite He. cbn [bind]. unfold enc_attr. rewrite Hv.
    f_equal; f_equal; unfold s, mp_unreach_value, afisafi_bytes; cbn [as_value]; rewrite <- ?app_assoc; reflexivity.
  - unfold wf_spec. rewrite Hv. cbn [as_flags as_code].
    replace (N.of_nat (unreach_vlen w) <=? 65535) with true by (symmetry; apply N.leb_le; exact Hsz).
    replace (has_ext 128) with false by reflexivity.
    replace (Nat.leb 3 (unreach_vlen w)) with true by (symmetry; apply Nat.leb_le; unfold unreach_vlen; lia).
    cbn [negb]. rewrite !orb_true_r. reflexivity.
Qed.

Lemma encode_all_ok l : forallb wf_nlri l = true -> exists enc, encode_all l = Ok enc.
Proof.
  induction l as [|n l IH]; cbn [forallb encode_all]; intros H; [now exists []|].
  apply andb_true_iff in H as (Hn & Hl). destruct (IH Hl) as (r & Hr).
  destruct (c05_rt_proof n [] 0%nat Hn) as (x & Hx & _). rewrite Hx, Hr. cbn [bind]. eauto.
Qed.

(* what finish writes *)
Lemma finish_ref b n :
  wf_builder b = true -> calc_len b = Ok n -> N.of_nat n <= 65535 ->
  exists c m, content_of b = Ok c /\ finish b = Ok m /\ ref_encode c = Ok m /\ length m = n /\
              forallb wf_spec (c_attrs c) = true /\ c_wd c = [] /\ c_ann c = [].
Proof.
  unfold wf_builder. rewrite !andb_true_iff. intros (((Ha & Hw) & Hm) & Hnh) Hc Hn.
  destruct (specs_of_spec _ Hm) as (specs & S0 & S1 & S2 & S3 & S4).
  unfold calc_len in Hc. rewrite S2 in Hc. cbn [bind] in Hc. inversion Hc as [Hn']; clear Hc.
  unfold content_of, finish, calc_len. rewrite S0, S1, S2. cbn [bind].
  unfold ann_of in Ha. unfold wd_of in Hw.
  (* MP_REACH *)
  assert (HR : exists ra rb, match bd_ann b with
                 | Some r => let* enc := encode_all (r_ann r) in Ok [mkAS 128 14 (mp_reach_value (fam_code (bd_fam b)) (nh_bytes (r_nh r)) enc)]
                 | None => Ok [] end = Ok ra /\
               match bd_ann b with Some r => reach_compose (bd_fam b) r | None => Ok [] end = Ok rb /\
               rb = flat_map enc_attr ra /\ length rb = opt_len (fun r => attr_clen (reach_vlen r)) (bd_ann b) /\
               forallb wf_spec ra = true).
  { destruct (bd_ann b) as [r|]; [|exists [], []; repeat split].
    destruct (encode_all_ok _ Ha) as (enc & He). rewrite He. cbn [bind].
    assert (Hsz : N.of_nat (reach_vlen r) <= 65535).
    { cbn [opt_len] in Hn'. unfold attr_clen in Hn'. lia. }
    destruct (reach_spec (bd_fam b) r enc Ha He Hsz) as (R1 & R2 & R3).
    eexists. eexists. split; [reflexivity|]. split; [exact R1|]. cbn [flat_map forallb opt_len]. rewrite app_nil_r, R3.
    split; [reflexivity|]. split; [|reflexivity]. rewrite enc_attr_length, R2. reflexivity. }
  destruct HR as (ra & rb & R1 & R2 & R3 & R4 & R5). rewrite R1, R2. cbn [bind].
  assert (HU : exists ua ub, match bd_wd b with
                 | Some w => let* enc := encode_all w in Ok [mkAS 128 15 (mp_unreach_value (fam_code (bd_fam b)) enc)]
                 | None => Ok [] end = Ok ua /\
               match bd_wd b with Some w => unreach_compose (bd_fam b) w | None => Ok [] end = Ok ub /\
               ub = flat_map enc_attr ua /\ length ub = opt_len (fun w => attr_clen (unreach_vlen w)) (bd_wd b) /\
               forallb wf_spec ua = true).
  { destruct (bd_wd b) as [w|]; [|exists [], []; repeat split].
    destruct (encode_all_ok _ Hw) as (enc & He). rewrite He. cbn [bind].
    assert (Hsz : N.of_nat (unreach_vlen w) <= 65535).
    { cbn [opt_len] in Hn'. unfold attr_clen in Hn'. lia. }
    destruct (unreach_spec (bd_fam b) w enc Hw He Hsz) as (U1 & U2 & U3).
    eexists. eexists. split; [reflexivity|]. split; [exact U1|]. cbn [flat_map forallb opt_len]. rewrite app_nil_r, U3.
    split; [reflexivity|]. split; [|reflexivity]. rewrite enc_attr_length, U2. reflexivity. }
  destruct HU as (ua & ub & U1 & U2 & U3 & U4 & U5). rewrite U1, U2. cbn [bind].
  unfold u16_unwrap.
  replace (65535 <? N.of_nat (19 + 2 + 2 + length (flat_map enc_attr specs) +
             opt_len (fun r => attr_clen (reach_vlen r)) (bd_ann b) + opt_len (fun w => attr_clen (unreach_vlen w)) (bd_wd b)))
    with false by (symmetry; apply N.ltb_ge; lia).
  cbn [bind].
  replace (65535 <? N.of_nat (length (flat_map enc_attr specs) +
             opt_len (fun r => attr_clen (reach_vlen r)) (bd_ann b) + opt_len (fun w => attr_clen (unreach_vlen w)) (bd_wd b)))
    with false by (symmetry; apply N.ltb_ge; lia).
  cbn [bind].
  eexists. eexists. split; [reflexivity|]. split; [reflexivity|].
  assert (HA : flat_map enc_attr (ra ++ ua ++ specs) = rb ++ ub ++ flat_map enc_attr specs).
  { rewrite !flat_map_app, R3, U3. reflexivity. }
  assert (HAl : length (rb ++ ub ++ flat_map enc_attr specs) =
                (length (flat_map enc_attr specs) + opt_len (fun r => attr_clen (reach_vlen r)) (bd_ann b) +
                 opt_len (fun w => attr_clen (unreach_vlen w)) (bd_wd b))%nat).
  { rewrite !app_length, R4, U4. lia. }
  split.
  - unfold ref_encode. cbn [c_wd c_attrs c_ann encode_all bind length app]. rewrite HA, HAl, app_nil_r.
    assert (Hz : be 2 (N.of_nat 0) = [0; 0]) by (vm_compute; reflexivity). rewrite Hz.
    match goal with |- Ok (marker ++ be 2 (N.of_nat ?a) ++ _) = Ok (marker ++ be 2 (N.of_nat ?b) ++ _) => replace a with b by lia end.
    reflexivity.
  - split.
    + assert (Hml : length marker = 16%nat) by reflexivity. rewrite !app_length, Hml, !be_length. cbn [length]. rewrite ?app_length, ?be_length. rewrite !app_length in HAl. lia.
    + cbn [c_attrs c_wd c_ann]. rewrite !forallb_app, R5, U5, S3. repeat split.
Qed.

(* ---- the produced message, judged by the decoder (C01) ---- *)
Lemma scan_no_mp specs : forall r u,
  Forall (fun s => as_code s <> 14 /\ as_code s <> 15) specs -> scan_spec specs r u = (r, u).
Proof.
  induction specs as [|a specs IH]; intros r u H; [reflexivity|]. inversion H as [|? ? (N14 & N15) Hr]; subst.
  cbn [scan_spec]. apply N.eqb_neq in N14, N15. rewrite N14, N15. now apply IH.
Qed.

Lemma find_no_mp code specs :
  (code = 14 \/ code = 15) -> Forall (fun s => as_code s <> 14 /\ as_code s <> 15) specs ->
  find (fun s => as_code s =? code) specs = None.
Proof.
  intros Hc. induction specs as [|a specs IH]; intros H; [reflexivity|]. inversion H as [|? ? (N14 & N15) Hr]; subst.
  cbn [find]. replace (as_code a =? code) with false by (symmetry; apply N.eqb_neq; destruct Hc; subst; assumption). now apply IH.
Qed.

Lemma mp_family_reach fam nh enc : fst fam < 65536 -> snd fam < 256 ->
  spec_family (mkAS 128 14 (mp_reach_value fam nh enc)) = Some fam.
Proof.
  intros H1 H2. unfold spec_family, mp_family, mp_reach_value, parser_of, parse_u16. cbn [as_value].
  rewrite parse_be_app by (cbn; lia). cbn [bind app parse_u8 p_rest]. destruct fam; reflexivity.
Qed.
Lemma mp_family_unreach fam enc : fst fam < 65536 -> snd fam < 256 ->
  spec_family (mkAS 128 15 (mp_unreach_value fam enc)) = Some fam.
Proof.
  intros H1 H2. unfold spec_family, mp_family, mp_unreach_value, parser_of, parse_u16. cbn [as_value].
  rewrite parse_be_app by (cbn; lia). cbn [bind app parse_u8 p_rest]. destruct fam; reflexivity.
Qed.

Definition pid_flag (n : nlri) : bool := match n_pathid n with Some _ => true | None => false end.

Theorem built_decodes cfg b m :
  wf_builder b = true -> into_message cfg b = Ok (MOk m) ->
  Forall (fun n => n_fam n = bd_fam b /\ pid_flag n = rx_addpath cfg (fam_code (bd_fam b))) (ann_of b ++ wd_of b) ->
  exists u, parse_update cfg m = Ok u /\ (length m <= bc_max_pdu)%nat /\
    a_length u = length m /\ a_withdrawn_routes_len u = 0%nat /\ a_total_path_attribute_len u = (length m - 23)%nat /\
    a_conv_withdrawals m u = Some [] /\ a_conv_announcements m u = Some [] /\
    a_mp_announcements m u =
      Ok (match bd_ann b with Some r => Some (fam_code (bd_fam b), Some (map Ok (r_ann r))) | None => None end) /\
    a_mp_withdrawals m u =
      Ok (match bd_wd b with Some w => Some (fam_code (bd_fam b), Some (map Ok w)) | None => None end).
Proof.
  intros Hwf Hm Hfam.
  destruct (into_message_ok _ _ _ Hm) as (_ & n & Hc & Hn & Hf & _).
  assert (Hn16 : N.of_nat n <= 65535).
  { assert (N.of_nat bc_max_pdu <= 65535) by (vm_compute; discriminate). lia. }
  destruct (finish_ref b n Hwf Hc Hn16) as (c & m' & Hco & Hf' & Href & Hlen & Hspecs & Hcw & Hca).
  rewrite Hf in Hf'. apply Ok_inj in Hf'. subst m'.
  assert (Hwfc : wf_content cfg c = true) by (unfold wf_content; rewrite Hcw, Hca, Hspecs; reflexivity).
  assert (HW : encode_all (c_wd c) = Ok []) by (rewrite Hcw; reflexivity).
  assert (HN : encode_all (c_ann c) = Ok []) by (rewrite Hca; reflexivity).
  pose proof (ref_encode_is c [] [] HW HN) as Href'. rewrite Href in Href'. apply Ok_inj in Href'. rename Href' into Hm_eq.
  assert (Hsize : N.of_nat (23 + length (@nil N) + length (flat_map enc_attr (c_attrs c)) + length (@nil N)) <= 65535).
  { rewrite Hm_eq in Hlen. rewrite !app_length, !be_length in Hlen. cbn [length] in Hlen.
    assert (Hml : length marker = 16%nat) by reflexivity. rewrite Hml in Hlen. cbn [length]. lia. }
  exists (expected_upd cfg c [] []).
  pose proof (c01_parse_proof cfg c [] [] Hwfc HW HN Hsize) as P. rewrite <- Hm_eq in P.
  pose proof (c01_sections_proof cfg c [] [] Hsize) as (S1 & S2 & S3). rewrite <- Hm_eq in S1.
  pose proof (c01_conv_proof cfg c [] [] Hwfc HW HN Hsize) as (V1 & V2). rewrite <- Hm_eq in V1, V2. rewrite Hcw in V1. rewrite Hca in V2.
  split; [exact P|]. split; [lia|]. split; [exact S1|]. split; [exact S2|]. split.
  { rewrite S3. rewrite Hm_eq at 1. rewrite !app_length, !be_length. cbn [length]. assert (Hml : length marker = 16%nat) by reflexivity. lia. }
  split; [exact V1|]. split; [exact V2|].
  (* the MP sections *)
  unfold wf_builder in Hwf. rewrite !andb_true_iff in Hwf. destruct Hwf as (((Ha & Hw) & Hmap) & Hnh).
  destruct (specs_of_spec _ Hmap) as (specs & S0 & _ & _ & _ & Hno).
  unfold content_of in Hco. rewrite S0 in Hco.
  destruct (fam_code_small (bd_fam b)) as (F1 & F2 & F3).
  apply Forall_app in Hfam as (Hfa & Hfw).
  assert (Hscan : forall ra ua, scan_spec (ra ++ ua ++ specs) None None =
            (match ra with [a] => spec_family a | _ => None end, match ua with [a] => spec_family a | _ => None end) ->
            True) by auto. clear Hscan.
  unfold ann_of in Ha, Hfa. unfold wd_of in Hw, Hfw.
  destruct (bd_ann b) as [r|] eqn:Ea.
  - destruct (encode_all_ok _ Ha) as (enc & He). rewrite He in Hco. cbn [bind] in Hco.
    set (ra := mkAS 128 14 (mp_reach_value (fam_code (bd_fam b)) (nh_bytes (r_nh r)) enc)) in *.
    destruct (bd_wd b) as [w|] eqn:Ew.
    + destruct (encode_all_ok _ Hw) as (encw & Hew). rewrite Hew in Hco. cbn [bind] in Hco. apply Ok_inj in Hco. subst c.
      set (ua := mkAS 128 15 (mp_unreach_value (fam_code (bd_fam b)) encw)) in *.
      assert (Hsc : scan_spec ([ra] ++ [ua] ++ specs) None None = (Some (fam_code (bd_fam b)), Some (fam_code (bd_fam b)))).
      { cbn [app scan_spec as_code ra ua N.eqb Pos.eqb]. unfold ra, ua. rewrite mp_family_reach, mp_family_unreach by assumption.
        now apply scan_no_mp. }
      split.
      * rewrite Hm_eq. eapply (c01_mp_reach_proof cfg _ [] [] Hwfc Hsize ra (fam_code (bd_fam b)) (bd_fam b) (nh_bytes (r_nh r)) (r_ann r) enc);
          try assumption; try reflexivity.
        { unfold wf_nh in Hnh. apply andb_true_iff in Hnh as (_ & Hl). destruct (r_nh r); cbn [nh_bytes]; rewrite ?app_length;
            repeat match goal with H : (_ && _) = true |- _ => apply andb_true_iff in H as (? & ?) end;
            repeat match goal with H : (_ || _) = true |- _ => apply orb_true_iff in H as [?|?] end;
            repeat match goal with H : Nat.eqb _ _ = true |- _ => apply Nat.eqb_eq in H end; cbn [length]; lia. }
        { rewrite Forall_forall in Hfa |- *. rewrite forallb_forall in Ha. intros x Hx. specialize (Hfa x Hx) as (G1 & G2).
          split; [now apply Ha|]. split; [exact G1|]. unfold pid_flag in G2. rewrite G2.
          unfold expected_upd. cbn [u_ppi pp_reach c_attrs]. rewrite Hsc. reflexivity. }
      * rewrite Hm_eq. eapply (c01_mp_unreach_proof cfg _ [] [] Hwfc Hsize ua (fam_code (bd_fam b)) (bd_fam b) w encw);
          try assumption; try reflexivity.
        { rewrite Forall_forall in Hfw |- *. rewrite forallb_forall in Hw. intros x Hx. specialize (Hfw x Hx) as (G1 & G2).
          split; [now apply Hw|]. split; [exact G1|]. unfold pid_flag in G2. rewrite G2.
          unfold expected_upd. cbn [u_ppi pp_unreach c_attrs]. rewrite Hsc. reflexivity. }
    + cbn [bind] in Hco. apply Ok_inj in Hco. subst c.
      assert (Hsc : scan_spec ([ra] ++ [] ++ specs) None None = (Some (fam_code (bd_fam b)), None)).
      { cbn [app scan_spec as_code ra N.eqb Pos.eqb]. unfold ra. rewrite mp_family_reach by assumption. now apply scan_no_mp. }
      split.
      * rewrite Hm_eq. eapply (c01_mp_reach_proof cfg _ [] [] Hwfc Hsize ra (fam_code (bd_fam b)) (bd_fam b) (nh_bytes (r_nh r)) (r_ann r) enc);
          try assumption; try reflexivity.
        { unfold wf_nh in Hnh. apply andb_true_iff in Hnh as (_ & Hl). destruct (r_nh r); cbn [nh_bytes]; rewrite ?app_length;
            repeat match goal with H : (_ && _) = true |- _ => apply andb_true_iff in H as (? & ?) end;
            repeat match goal with H : (_ || _) = true |- _ => apply orb_true_iff in H as [?|?] end;
            repeat match goal with H : Nat.eqb _ _ = true |- _ => apply Nat.eqb_eq in H end; cbn [length]; lia. }
        { rewrite Forall_forall in Hfa |- *. rewrite forallb_forall in Ha. intros x Hx. specialize (Hfa x Hx) as (G1 & G2).
          split; [now apply Ha|]. split; [exact G1|]. unfold pid_flag in G2. rewrite G2.
          unfold expected_upd. cbn [u_ppi pp_reach c_attrs]. rewrite Hsc. reflexivity. }
      * rewrite Hm_eq. unfold a_mp_withdrawals. apply (c01_no_mp_proof cfg _ [] [] Hwfc Hsize 15).
        unfold ra. cbn [c_attrs app find as_code N.eqb Pos.eqb]. apply find_no_mp; [now right|assumption].
  - cbn [bind] in Hco. destruct (bd_wd b) as [w|] eqn:Ew.
    + destruct (encode_all_ok _ Hw) as (encw & Hew). rewrite Hew in Hco. cbn [bind] in Hco. apply Ok_inj in Hco. subst c.
      set (ua := mkAS 128 15 (mp_unreach_value (fam_code (bd_fam b)) encw)) in *.
      assert (Hsc : scan_spec ([] ++ [ua] ++ specs) None None = (None, Some (fam_code (bd_fam b)))).
      { cbn [app scan_spec as_code ua N.eqb Pos.eqb]. unfold ua. rewrite mp_family_unreach by assumption. now apply scan_no_mp. }
      split.
      * rewrite Hm_eq. unfold a_mp_announcements. apply (c01_no_mp_proof cfg _ [] [] Hwfc Hsize 14).
        unfold ua. cbn [c_attrs app find as_code N.eqb Pos.eqb]. apply find_no_mp; [now left|assumption].
      * rewrite Hm_eq. eapply (c01_mp_unreach_proof cfg _ [] [] Hwfc Hsize ua (fam_code (bd_fam b)) (bd_fam b) w encw);
          try assumption; try reflexivity.
        { rewrite Forall_forall in Hfw |- *. rewrite forallb_forall in Hw. intros x Hx. specialize (Hfw x Hx) as (G1 & G2).
          split; [now apply Hw|]. split; [exact G1|]. unfold pid_flag in G2. rewrite G2.
          unfold expected_upd. cbn [u_ppi pp_unreach c_attrs]. rewrite Hsc. reflexivity. }
    + cbn [bind] in Hco. apply Ok_inj in Hco. subst c. split.
      * rewrite Hm_eq. unfold a_mp_announcements. apply (c01_no_mp_proof cfg _ [] [] Hwfc Hsize 14).
        cbn [c_attrs app]. apply find_no_mp; [now left|assumption].
      * rewrite Hm_eq. unfold a_mp_withdrawals. apply (c01_no_mp_proof cfg _ [] [] Hwfc Hsize 15).
        cbn [c_attrs app]. apply find_no_mp; [now right|assumption].
Qed.
