(* Comparison functions that behave like a total preorder ("TP"): closed under then_cmp. *)
From Coq Require Import List NArith Bool Lia.
From RC Require Import Base.Lex.
Import ListNotations.

Section TP.
  Context {A : Type}.

  Record TP (c : A -> A -> comparison) : Prop := mkTP {
    tp_refl : forall a, c a a = Eq;
    tp_anti : forall a b, c a b = CompOpp (c b a);
    tp_lt_lt : forall x y z, c x y = Lt -> c y z = Lt -> c x z = Lt;
    tp_eq_eq : forall x y z, c x y = Eq -> c y z = Eq -> c x z = Eq;
    tp_eq_lt : forall x y z, c x y = Eq -> c y z = Lt -> c x z = Lt;
    tp_lt_eq : forall x y z, c x y = Lt -> c y z = Eq -> c x z = Lt
  }.

  (* antisymmetry alone (what survives MED comparison) *)
  Definition Anti (c : A -> A -> comparison) : Prop := forall a b, c a b = CompOpp (c b a).

  Lemma anti_then c1 c2 : Anti c1 -> Anti c2 -> Anti (fun a b => then_cmp (c1 a b) (c2 a b)).
  Proof.
    intros H1 H2 a b. unfold then_cmp. rewrite (H1 a b). destruct (c1 b a); cbn; [apply H2|reflexivity|reflexivity].
  Qed.

  Lemma tp_then c1 c2 : TP c1 -> TP c2 -> TP (fun a b => then_cmp (c1 a b) (c2 a b)).
  Proof.
    intros T1 T2. split.
    - intros a. unfold then_cmp. now rewrite (tp_refl _ T1), (tp_refl _ T2).
    - apply anti_then; [exact (tp_anti _ T1)|exact (tp_anti _ T2)].
    - intros x y z. unfold then_cmp.
      destruct (c1 x y) eqn:E1; try discriminate; destruct (c1 y z) eqn:E2; try discriminate; intros H1 H2.
      + rewrite (tp_eq_eq _ T1 _ _ _ E1 E2). eapply (tp_lt_lt _ T2); eassumption.
      + now rewrite (tp_eq_lt _ T1 _ _ _ E1 E2).
      + now rewrite (tp_lt_eq _ T1 _ _ _ E1 E2).
      + now rewrite (tp_lt_lt _ T1 _ _ _ E1 E2).
    - intros x y z. unfold then_cmp.
      destruct (c1 x y) eqn:E1; try discriminate; destruct (c1 y z) eqn:E2; try discriminate; intros H1 H2.
      rewrite (tp_eq_eq _ T1 _ _ _ E1 E2). eapply (tp_eq_eq _ T2); eassumption.
    - intros x y z. unfold then_cmp.
      destruct (c1 x y) eqn:E1; try discriminate; destruct (c1 y z) eqn:E2; try discriminate; intros H1 H2.
      + rewrite (tp_eq_eq _ T1 _ _ _ E1 E2). eapply (tp_eq_lt _ T2); eassumption.
      + now rewrite (tp_eq_lt _ T1 _ _ _ E1 E2).
    - intros x y z. unfold then_cmp.
      destruct (c1 x y) eqn:E1; try discriminate; destruct (c1 y z) eqn:E2; try discriminate; intros H1 H2.
      + rewrite (tp_eq_eq _ T1 _ _ _ E1 E2). eapply (tp_lt_eq _ T2); eassumption.
      + now rewrite (tp_lt_eq _ T1 _ _ _ E1 E2).
  Qed.

  Lemma tp_key (f : A -> N) : TP (fun a b => N.compare (f a) (f b)).
  Proof.
    split; intros.
    - apply N.compare_refl.
    - apply N.compare_antisym.
    - rewrite N.compare_lt_iff in *. lia.
    - rewrite N.compare_eq_iff in *. lia.
    - rewrite N.compare_eq_iff, N.compare_lt_iff in *. lia.
    - rewrite N.compare_eq_iff, N.compare_lt_iff in *. lia.
  Qed.

  Lemma tp_key_rev (f : A -> N) : TP (fun a b => N.compare (f b) (f a)).
  Proof.
    split; intros.
    - apply N.compare_refl.
    - apply N.compare_antisym.
    - rewrite N.compare_lt_iff in *. lia.
    - rewrite N.compare_eq_iff in *. lia.
    - rewrite N.compare_eq_iff, N.compare_lt_iff in *. lia.
    - rewrite N.compare_eq_iff, N.compare_lt_iff in *. lia.
  Qed.

  Lemma tp_bool (f : A -> bool) : TP (fun a b => cmp_bool (f a) (f b)).
  Proof.
    split; intros; unfold cmp_bool in *;
      repeat match goal with |- context [f ?x] => destruct (f x) end;
      repeat match goal with H : context [f ?x] |- _ => destruct (f x) end; try reflexivity; try discriminate.
  Qed.

  Lemma tp_const : TP (fun (_ _ : A) => Eq).
  Proof. split; intros; try reflexivity; try discriminate. Qed.

  Lemma tp_ext c1 c2 : (forall a b, c1 a b = c2 a b) -> TP c1 -> TP c2.
  Proof.
    intros E T. split; intros *; rewrite <- !E; try apply T.
  Qed.
End TP.

(* restriction of a TP comparison along a function *)
Lemma tp_comap {A B} (g : B -> A) c : TP c -> TP (fun a b => c (g a) (g b)).
Proof. intros T. split; intros; try apply T; eauto using tp_lt_lt, tp_eq_eq, tp_eq_lt, tp_lt_eq. Qed.
