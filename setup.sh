#!/bin/sh
# Build the framework from files on disk only (offline): regenerate Gen/ from /repo,
# full Coq build (.vo, never -vos), extraction, OCaml driver, Rust harness.
set -e
cd "$(dirname "$0")"
export CARGO_NET_OFFLINE=true
python3 - <<'PY'
import sys, os
sys.path.insert(0, '.'); sys.path.insert(0, 'tools')
from lib import core
core.run_generators(set())
core.coq_project()
rc, out, dt = core.coq_make([], timeout=3000)
sys.stdout.write(out[-3000:] + '\n')
if rc != 0:
    sys.exit('coq build failed')
core.build_model()
core.build_harness()
print('setup ok')
PY
