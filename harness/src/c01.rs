// C01 / C02 / C07: UPDATE decoding and accessors on the real crate.
//
// case line:  UPD <id> <four 0|1> <addpath a.s:d,a.s:d|-> <hex>
use std::io::Write;
use routecore::bgp::message::{SessionConfig, UpdateMessage};
use routecore::bgp::message::update::FourOctetAsns;
use routecore::bgp::nlri::afisafi::*;
use routecore::bgp::path_attributes::{PaMap, WireformatPathAttribute};
use routecore::bgp::types::{AddpathDirection, NextHop};
use routecore::bgp::ParseError;
use crate::c04::describe_owned;
use crate::util::{guard, hex, unhex};

pub fn session_config(four: bool, ap: &str) -> SessionConfig {
    let mut sc = SessionConfig::modern();
    sc.set_four_octet_asns(FourOctetAsns(four));
    if ap != "-" {
        for e in ap.split(',') {
            let (fam, d) = e.split_once(':').unwrap();
            let (a, s) = fam.split_once('.').unwrap();
            let dir = AddpathDirection::try_from(d.parse::<u8>().unwrap()).unwrap();
            let fam = AfiSafiType::from((a.parse::<u16>().unwrap(), s.parse::<u8>().unwrap()));
            // a configuration that is set more than once (a session that negotiates again, a config object that is reused): the
            // last direction set for a family is the one that counts
            let other = match dir { AddpathDirection::Receive => AddpathDirection::Send, _ => AddpathDirection::Receive };
            sc.add_addpath(fam, other);
            sc.add_addpath(fam, dir);
        }
    }
    sc
}

fn g<T>(f: impl FnOnce() -> Result<T, ParseError>, show: impl FnOnce(T) -> String) -> String {
    // both the accessor and the consumption of what it returns (iterators!) run under catch_unwind
    match guard(|| f().map(show)) { None => "PANIC".into(), Some(Err(_)) => "E".into(), Some(Ok(s)) => s }
}

// every item is printed with the variant it was reported as (family, ADD-PATH) and its composed octets: two families with the
// same wire format (unicast / multicast) must not be confused
fn nlri_hex<O: AsRef<[u8]>>(n: &Nlri<O>) -> String {
    let mut v = Vec::new();
    n.compose(&mut v).unwrap();
    // the item's own accessors and its Display are part of "an accessor of an accepted message": they run here, under the
    // caller's guard; what they return is not printed
    let _ = format!("{n}");
    match n {
        Nlri::Ipv4RouteTarget(rt) => { let _ = (rt.nlri().origin_as(), rt.nlri().route_target(), rt.nlri().is_default()); }
        Nlri::Ipv4RouteTargetAddpath(rt) => { let _ = (rt.nlri().origin_as(), rt.nlri().route_target(), rt.nlri().is_default()); }
        _ => {}
    }
    format!("{}~{}", nt_s(Some(n.nlri_type())), hex(&v))
}

fn items<'a, O: AsRef<[u8]>>(it: impl Iterator<Item = Result<Nlri<O>, ParseError>>, cap: usize) -> String {
    let mut v = vec![];
    for (i, x) in it.enumerate() {
        if i >= cap { v.push("HANG".to_string()); break; }
        v.push(match x { Ok(n) => nlri_hex(&n), Err(_) => "E".into() });
    }
    format!("{}[{}]", v.len(), v.join(","))
}

fn nh_s(nh: &NextHop) -> String {
    fn ip(a: &std::net::IpAddr) -> String { match a { std::net::IpAddr::V4(x) => hex(&x.octets()), std::net::IpAddr::V6(x) => hex(&x.octets()) } }
    match nh {
        NextHop::Unicast(a) | NextHop::Multicast(a) => format!("uni:{}", ip(a)),
        NextHop::Ipv6LL(a, b) => format!("ll:{}:{}", hex(&a.octets()), hex(&b.octets())),
        NextHop::MplsVpnUnicast(rd, a) => format!("vpn:{}:{}", hex(rd.as_ref()), ip(a)),
        NextHop::Empty => "empty".into(),
        NextHop::Unimplemented(_) => "unimpl".into(),
    }
}

fn fam_s(t: AfiSafiType) -> String { let (a, s): (u16, u8) = t.into(); format!("{a}.{s}") }
fn nt_s(t: Option<NlriType>) -> String {
    match t { None => "-".into(), Some(n) => format!("{}{}", fam_s(n.afi_safi()), if format!("{:?}", n).ends_with("Addpath") { "+" } else { "" }) }
}

fn aspath_probe_panics(msg: &[u8], four: bool) -> bool {
    // a plain TLV walk over the attribute section (the message was accepted: the section lengths are consistent)
    let get16 = |i: usize| msg.get(i..i + 2).map(|b| usize::from(u16::from_be_bytes([b[0], b[1]])));
    let Some(wl) = get16(19) else { return false };
    let Some(al) = get16(21 + wl) else { return false };
    let mut i = 23 + wl;
    let end = (i + al).min(msg.len());
    while i + 3 <= end {
        let (flags, code) = (msg[i], msg[i + 1]);
        let (len, hl) = if flags & 0x10 != 0 { match get16(i + 2) { Some(l) => (l, 4), None => return false } } else { (usize::from(msg[i + 2]), 3) };
        let Some(v) = msg.get(i + hl..i + hl + len) else { return false };
        if code == 2 || code == 17 {
            for width in [four, true, false] {
                let r = guard(|| match routecore::bgp::aspath::AsPath::new(v.to_vec(), width) {
                    Err(_) => 0usize,
                    Ok(p) => p.hops().count() + p.segments().count() + format!("{p}").len() + p.to_hop_path().hop_count(),
                });
                if r.is_none() { return true; }
            }
        }
        i += hl + len;
    }
    false
}

pub fn observe(id: &str, four: bool, ap: &str, bytes: &[u8], out: &mut impl Write) {
    let sc = session_config(four, ap);
    let cap = 4 * bytes.len() + 64;
    let parsed = guard(|| UpdateMessage::from_octets(bytes.to_vec(), &sc));
    let u = match parsed {
        None => { writeln!(out, "U {id} parse=PANIC").unwrap(); return; }
        Some(Err(_)) => { writeln!(out, "U {id} parse=E").unwrap(); return; }
        Some(Ok(u)) => u,
    };
    let ppi = u.pdu_parse_info();
    writeln!(out, "U {id} parse=ok len={} wd={} al={} ppi={}{}{}{}", u.length(), u.withdrawn_routes_len(), u.total_path_attribute_len(),
        ppi.four_octet_enabled() as u8, ppi.conventional_addpath() as u8, ppi.mp_reach_addpath() as u8, ppi.mp_unreach_addpath() as u8).unwrap();
    // path attributes
    let attrs = guard(|| {
        let mut v = vec![];
        for (i, pa) in u.path_attributes().unwrap().enumerate() {
            if i >= cap { v.push("HANG".to_string()); break; }
            v.push(match pa {
                Err(_) => "E".to_string(),
                Ok(w) => {
                    let k = match &w { WireformatPathAttribute::Unimplemented(_) => "U", WireformatPathAttribute::Invalid(..) => "I", _ => "T" };
                    let o = match guard(|| w.to_owned()) { None => "PANIC".into(), Some(Err(_)) => "E".into(), Some(Ok(pa)) => describe_owned(&pa) };
                    format!("{k}:{}:{}:{}:{o}", u8::from(w.flags()), w.type_code(), w.length())
                }
            });
        }
        v
    });
    writeln!(out, "U {id} attrs {}", attrs.map(|v| format!("{}[{}]", v.len(), v.join(" "))).unwrap_or("PANIC".into())).unwrap();
    // typed getters
    let hops = |p: routecore::bgp::aspath::AsPath<_>| { let v: Vec<String> = p.hops().map(|h| format!("{}", h).replace(' ', "")).collect(); if v.is_empty() { "-".to_string() } else { v.join("|") } };
    let origin = g(|| u.origin(), |o| o.map(|x| u8::from(x).to_string()).unwrap_or("-".into()));
    let aspath = g(|| u.aspath(), |o| o.map(|p| hops(p)).unwrap_or("none".into()));
    let as4path = g(|| u.as4path(), |o| o.map(|p| hops(p)).unwrap_or("none".into()));
    // the value octets of every AS_PATH / AS4_PATH attribute of the accepted message, valid or not, given to AsPath::new on their
    // own (what a user does with the raw value of an attribute reported as invalid): an error or a path that can be walked
    let aspath = if aspath_probe_panics(bytes, four) { "ASPATH-NEW-PANIC".to_string() } else { aspath };
    let nh = g(|| u.conventional_next_hop(), |o| o.map(|n| nh_s(&n)).unwrap_or("-".into()));
    let med = g(|| u.multi_exit_disc(), |o| o.map(|m| m.0.to_string()).unwrap_or("-".into()));
    let lp = g(|| u.local_pref(), |o| o.map(|m| m.0.to_string()).unwrap_or("-".into()));
    let atomic = g(|| u.is_atomic_aggregate(), |b| (b as u8).to_string());
    let agg = g(|| u.aggregator(), |o| o.map(|a| format!("{}:{}", u32::from(a.asn()), hex(&a.address().octets()))).unwrap_or("-".into()));
    let comm = g(|| u.communities(), |o| o.map(|it| { let v: Vec<String> = it.take(cap).map(|c| hex(&c.to_raw())).collect(); format!("{}[{}]", v.len(), v.join(",")) }).unwrap_or("-".into()));
    let ext = g(|| u.ext_communities(), |o| o.map(|it| { let v: Vec<String> = it.take(cap).map(|c| hex(&c.to_raw())).collect(); format!("{}[{}]", v.len(), v.join(",")) }).unwrap_or("-".into()));
    let v6 = g(|| u.ipv6_ext_communities(), |o| o.map(|it| { let v: Vec<String> = it.take(cap).map(|c| hex(&c.to_raw())).collect(); format!("{}[{}]", v.len(), v.join(",")) }).unwrap_or("-".into()));
    let large = g(|| u.large_communities(), |o| o.map(|it| { let v: Vec<String> = it.take(cap).map(|c| hex(&c.to_raw())).collect(); format!("{}[{}]", v.len(), v.join(",")) }).unwrap_or("-".into()));
    let allc = g(|| u.all_communities(), |o| o.map(|v| v.len().to_string()).unwrap_or("-".into()));
    writeln!(out, "U {id} typed origin={origin} aspath={aspath} as4path={as4path} nh={nh} med={med} lp={lp} atomic={atomic} agg={agg} comm={comm} ext={ext} v6ext={v6} large={large} allc={allc}").unwrap();
    // NLRI
    let convw = g(|| u.conventional_withdrawals().map(|it| items(it, cap)), |s| s);
    let conva = g(|| u.conventional_announcements().map(|it| items(it, cap)), |s| s);
    let mpw = g(|| u.mp_withdrawals(), |o| o.map(|it| format!("{}:{}", nt_s(Some(it.nlri_type())), items(it, cap))).unwrap_or("none".into()));
    let mpa = g(|| u.mp_announcements(), |o| o.map(|it| format!("{}:{}", nt_s(Some(it.nlri_type())), items(it, cap))).unwrap_or("none".into()));
    let w = g(|| u.withdrawals().map(|it| items(it, cap)), |s| s);
    let a = g(|| u.announcements().map(|it| items(it, cap)), |s| s);
    let wvec = g(|| u.withdrawals_vec(), |v| { let x: Vec<String> = v.iter().map(nlri_hex).collect(); format!("{}[{}]", x.len(), x.join(",")) });
    let avec = g(|| u.announcements_vec(), |v| { let x: Vec<String> = v.iter().map(nlri_hex).collect(); format!("{}[{}]", x.len(), x.join(",")) });
    writeln!(out, "U {id} nlri convw={convw} conva={conva} mpw={mpw} mpa={mpa} w={w} a={a} wvec={wvec} avec={avec}").unwrap();
    // misc
    let fams = guard(|| u.afi_safis()).map(|t| format!("{},{},{},{}", nt_s(t.0), nt_s(t.1), nt_s(t.2), nt_s(t.3))).unwrap_or("PANIC".into());
    let eor = g(|| u.is_eor(), |o| o.map(fam_s).unwrap_or("-".into()));
    let mpnh = g(|| u.mp_next_hop(), |o| o.map(|n| nh_s(&n)).unwrap_or("-".into()));
    let pamap = match guard(|| PaMap::from_update_pdu(&u)) { None => "PANIC".to_string(), Some(Err(_)) => "E".into(),
        Some(Ok(m)) => { let codes: Vec<String> = m.attributes().keys().map(|k| k.to_string()).collect(); format!("{}:{}", codes.join("."), m.bytes_len()) } };
    let probes: [(u16, u8); 14] = [(1,1),(1,2),(1,4),(1,128),(1,132),(1,133),(2,1),(2,2),(2,4),(2,128),(2,133),(25,65),(25,70),(1,99)];
    let fnh: Vec<String> = probes.iter().map(|&(a, s)| {
        let r = match guard(|| u.find_next_hop(routecore::bgp::types::AfiSafiType::from((a, s)))) { None => "PANIC".to_string(), Some(Err(_)) => "E".into(), Some(Ok(n)) => nh_s(&n) };
        format!("{a}.{s}:{r}") }).collect();
    let hasconv = guard(|| u.has_conventional_nlri()).map(|b| (b as u8).to_string()).unwrap_or("PANIC".into());
    let hasmp = g(|| u.has_mp_nlri(), |b| (b as u8).to_string());
    writeln!(out, "U {id} misc fams={fams} eor={eor} mpnh={mpnh} pamap={pamap} fnh={} hasconv={hasconv} hasmp={hasmp}", fnh.join(",")).unwrap();
}

pub fn run(args: &[String]) {
    let stdout = std::io::stdout();
    let mut out = std::io::BufWriter::new(stdout.lock());
    for l in crate::util::read_lines(&args[0]) {
        let f: Vec<&str> = l.split_whitespace().collect();
        if f.len() < 5 || f[0] != "UPD" { continue; }
        observe(f[1], f[2] == "1", f[3], &unhex(f[4]), &mut out);
    }
    out.flush().unwrap();
}
