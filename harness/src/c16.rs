// C16: MRT files on the real crate.
//
//   observe c16 obs <cases>     case: RIB <hex of a TABLE_DUMP_V2 file>  |  MP <hex of a BGP4MP file>
//
// RIB: the sequential RIB iterator, the table iterator with each table drained by a SingleEntryIterator, and the rayon
//      parallel iterator under pools of 1, 2, 3, 8 and 16 threads (its output is printed sorted: a multiset).
// MP:  the message iterator; every record with its fields and the octets of the embedded BGP message (cfg hook).
use std::io::Write;
use std::net::IpAddr;

use inetnum::addr::Prefix;
use rayon::iter::ParallelIterator;
use routecore::mrt::{Bgp4Mp, MessageAs4, MrtFile, PeerEntry, SingleEntryIterator, StateChangeAs4};

use crate::util::{guard, hex, read_lines, unhex};

fn addr(a: IpAddr) -> String {
    match a { IpAddr::V4(x) => hex(&x.octets()), IpAddr::V6(x) => hex(&x.octets()) }
}
fn pfx(p: &Prefix) -> String { format!("{}/{}", p.len(), addr(p.addr())) }
fn peer(p: &PeerEntry) -> String { format!("{}/{}/{}", hex(&p.bgp_id), addr(p.addr), p.asn.into_u32()) }

fn rib_case(bytes: &[u8]) -> String {
    let mut out = String::new();
    let seq = guard(|| {
        let f = MrtFile::new(bytes);
        match f.rib_entries() {
            Err(_) => "ERR".to_string(),
            Ok(it) => {
                let v: Vec<String> = it.map(|(fam, idx, pe, p, attrs)| format!("{}:{}:{}:{}:{}",
                    if fam == routecore::bgp::types::AfiSafiType::Ipv6Unicast { 1 } else { 0 }, idx, peer(&pe), pfx(&p), hex(&attrs))).collect();
                format!("[{}]", v.join(","))
            }
        }
    }).unwrap_or_else(|| "PANIC".into());
    out.push_str(&format!(" rib={seq}"));
    let tabs = guard(|| {
        let f = MrtFile::new(bytes);
        match f.tables() {
            Err(_) => "ERR".to_string(),
            Ok(it) => {
                let peers: Vec<String> = (0..it.peer_index.len()).map(|i| peer(&it.peer_index[i])).collect();
                let v: Vec<String> = it.map(|(fam, mut reh)| {
                    // looking at a table's entries first (entries() hands out a parser over them - twice, it is an accessor) does
                    // not use them up: the per-table iterator made afterwards still yields every entry
                    let (n1, n2) = (reh.entries().remaining(), reh.entries().remaining());
                    if n1 != n2 { return format!("!entries() is not repeatable: {n1} then {n2} octets"); }
                    let es: Vec<String> = SingleEntryIterator::new(reh).map(|(p, idx, attrs)| format!("{}:{}:{}", pfx(&p), idx, hex(&attrs))).collect();
                    format!("{}{{{}}}", if fam == routecore::bgp::types::AfiSafiType::Ipv6Unicast { 1 } else { 0 }, es.join(";"))
                }).collect();
                format!("{}#[{}]", peers.join(";"), v.join("|"))
            }
        }
    }).unwrap_or_else(|| "PANIC".into());
    out.push_str(&format!(" tables={tabs}"));
    for n in [1usize, 2, 3, 8, 16] {
        let r = guard(|| {
            let pool = rayon::ThreadPoolBuilder::new().num_threads(n).build().unwrap();
            pool.install(|| {
                let f = MrtFile::new(bytes);
                let mut v: Vec<String> = f.rib_entries_mt::<&[u8]>()
                    .map(|(p, idx, attrs)| format!("{}:{}:{}", pfx(&p), idx, hex(&attrs))).collect();
                v.sort();
                format!("[{}]", v.join(","))
            })
        }).unwrap_or_else(|| "PANIC".into());
        out.push_str(&format!(" par{n}={r}"));
    }
    out
}

fn mp_case(bytes: &[u8]) -> String {
    guard(|| {
        let f = MrtFile::new(bytes);
        let v: Vec<String> = f.messages().map(|m| {
            fn sc(as4: u8, s: &StateChangeAs4) -> String {
                format!("S{}:{}:{}:{}:{}:{}:{}:{}/{:?}:{}/{:?}", as4, s.peer_asn().into_u32(), s.local_asn().into_u32(), s.interface(),
                    u16::from(s.afi()), addr(s.peer_addr()), addr(s.local_addr()), u16::from(s.old_state()), s.old_state(),
                    u16::from(s.new_state()), s.new_state())
            }
            fn msg(as4: u8, m: &MessageAs4<&[u8]>) -> String {
                format!("M{}:{}:{}:{}:{}:{}:{}:{}", as4, m.peer_asn().into_u32(), m.local_asn().into_u32(), m.interface(),
                    u16::from(m.afi()), addr(m.peer_addr()), addr(m.local_addr()), hex(m.verif_bgp_octets()))
            }
            match m {
                Bgp4Mp::StateChange(s) => sc(0, &s.into()),
                Bgp4Mp::StateChangeAs4(s) => sc(1, &s),
                Bgp4Mp::Message(m) => msg(0, &m.into()),
                Bgp4Mp::MessageAs4(m) => msg(1, &m),
            }
        }).collect();
        format!(" msgs=[{}]", v.join(","))
    }).unwrap_or_else(|| " msgs=PANIC".into())
}

pub fn run(args: &[String]) {
    match args.first().map(|s| s.as_str()) {
        Some("obs") => {
            let out = std::io::stdout();
            let mut out = out.lock();
            for l in read_lines(&args[1]) {
                let mut it = l.split_whitespace();
                let (k, h) = match (it.next(), it.next()) { (Some(k), Some(h)) => (k, h), _ => continue };
                let bytes = unhex(h);
                let r = match k { "RIB" => rib_case(&bytes), "MP" => mp_case(&bytes), _ => continue };
                writeln!(out, "{k} {h}{r}").unwrap();
            }
        }
        _ => { eprintln!("usage: observe c16 obs <cases>"); std::process::exit(2) }
    }
}
