// C17: PaMap / OwnedPathAttributes / RouteWorkshop on the real crate.
//
// case lines:
//   MAP <id> <ops>      ops ';'-separated on one PaMap (and a RouteWorkshop<Ipv4UnicastNlri> for the W* ops):
//        S:<tlv hex>  set_from_enum of the owned attribute   G:<code>  get::<T>   R:<code>  remove::<T>
//        A:<tlv hex>  add_attribute                          M:<tlvs hex>  merge_upsert with a map holding these
//        N  remove_non_transitives     L  len / is_empty / bytes_len / contents
//        WS:<tlv hex> workshop set_attr   WG:<code> workshop get_attr   WC:<flavour.hex,..> set Vec<Community>   WR get Vec<Community>
//   one output line per case: the result of every op, '|'-separated
//   FROM <id> <four> <addpath> <fam> <ap> <update hex>     PaMap::from_update_pdu, OwnedPathAttributes::get per type, RouteWorkshop::from_update_pdu
use std::io::Write;
use octseq::Parser;
use routecore::bgp::aspath::HopPath;
use routecore::bgp::communities::{Community, ExtendedCommunity, Ipv6ExtendedCommunity, LargeCommunity, StandardCommunity};
use routecore::bgp::message::update_builder::StandardCommunitiesList;
use routecore::bgp::message::{PduParseInfo, UpdateMessage};
use routecore::bgp::nlri::afisafi::*;
use routecore::bgp::path_attributes::*;
use routecore::bgp::types::*;
use routecore::bgp::workshop::route::RouteWorkshop;
use crate::c01::session_config;
use crate::util::{guard, hex, unhex};

fn comp(pa: &PathAttribute) -> String { let mut v = vec![]; pa.compose(&mut v).unwrap(); hex(&v) }
fn opt(pa: Option<PathAttribute>) -> String { pa.map(|p| comp(&p)).unwrap_or("-".into()) }

fn owned(tlv: &str) -> Vec<PathAttribute> {
    let buf: &'static Vec<u8> = Box::leak(Box::new(unhex(tlv)));
    PathAttributes::new(Parser::from_ref(buf), PduParseInfo::modern()).map(|pa| pa.unwrap().to_owned().unwrap()).collect()
}

macro_rules! by_code {
    ($code:expr, $f:ident, $($arg:expr),*) => {
        match $code {
            1 => $f::<Origin>($($arg),*), 2 => $f::<HopPath>($($arg),*), 3 => $f::<ConventionalNextHop>($($arg),*),
            4 => $f::<MultiExitDisc>($($arg),*), 5 => $f::<LocalPref>($($arg),*), 6 => $f::<AtomicAggregate>($($arg),*),
            7 => $f::<AggregatorInfo>($($arg),*), 8 => $f::<StandardCommunitiesList>($($arg),*), 9 => $f::<OriginatorId>($($arg),*),
            10 => $f::<ClusterIds>($($arg),*), 16 => $f::<ExtendedCommunitiesList>($($arg),*), 17 => $f::<As4Path>($($arg),*),
            18 => $f::<As4Aggregator>($($arg),*), 20 => $f::<Connector>($($arg),*), 21 => $f::<AsPathLimitInfo>($($arg),*),
            25 => $f::<Ipv6ExtendedCommunitiesList>($($arg),*), 32 => $f::<LargeCommunitiesList>($($arg),*), 35 => $f::<Otc>($($arg),*),
            128 => $f::<AttributeSet>($($arg),*), 255 => $f::<ReservedRaw>($($arg),*),
            _ => "nocode".to_string(),
        }
    };
}

fn get_t<T: FromAttribute + Into<PathAttribute>>(m: &PaMap) -> String { opt(m.get::<T>().map(Into::into)) }
fn rem_t<T: FromAttribute + Into<PathAttribute>>(m: &mut PaMap) -> String { opt(m.remove::<T>().map(Into::into)) }
fn opa_t<T: FromAttribute + Into<PathAttribute>>(o: &OwnedPathAttributes) -> String { opt(o.get::<T>().map(Into::into)) }

fn dump(m: &PaMap) -> String {
    let v: Vec<String> = m.attributes().iter().map(|(k, pa)| format!("{}={}", k, comp(pa))).collect();
    format!("len={} empty={} bytes={} [{}]", m.len(), m.is_empty() as u8, m.bytes_len(), v.join(","))
}

type Ws = RouteWorkshop<Ipv4UnicastNlri>;

fn ws_set(ws: &mut Ws, pa: PathAttribute) -> String {
    use PathAttribute as P;
    let r = match pa {
        P::Origin(x) => ws.set_attr(x), P::AsPath(x) => ws.set_attr(x), P::MultiExitDisc(x) => ws.set_attr(x), P::LocalPref(x) => ws.set_attr(x),
        P::Aggregator(x) => ws.set_attr(x), P::StandardCommunities(x) => ws.set_attr(x), P::OriginatorId(x) => ws.set_attr(x),
        P::ClusterList(x) => ws.set_attr(x), P::ExtendedCommunities(x) => ws.set_attr(x), P::AsPathLimit(x) => ws.set_attr(x),
        P::Ipv6ExtendedCommunities(x) => ws.set_attr(x), P::LargeCommunities(x) => ws.set_attr(x), P::Otc(x) => ws.set_attr(x),
        _ => return "unsupported".into(),
    };
    if r.is_ok() { "ok".into() } else { "err".into() }
}

fn ws_get(ws: &Ws, code: u8) -> String {
    fn g<T: routecore::bgp::workshop::route::WorkshopAttribute<Ipv4UnicastNlri> + Into<PathAttribute>>(ws: &Ws) -> String { opt(ws.get_attr::<T>().map(Into::into)) }
    match code {
        1 => g::<Origin>(ws), 2 => g::<HopPath>(ws), 4 => g::<MultiExitDisc>(ws), 5 => g::<LocalPref>(ws), 7 => g::<AggregatorInfo>(ws),
        8 => g::<StandardCommunitiesList>(ws), 9 => g::<OriginatorId>(ws), 10 => g::<ClusterIds>(ws), 16 => g::<ExtendedCommunitiesList>(ws),
        21 => g::<AsPathLimitInfo>(ws), 25 => g::<Ipv6ExtendedCommunitiesList>(ws), 32 => g::<LargeCommunitiesList>(ws), 35 => g::<Otc>(ws),
        _ => "unsupported".into(),
    }
}

fn comm_of(s: &str) -> Community {
    let (fl, h) = s.split_once('.').unwrap();
    let b = unhex(h);
    match fl {
        "8" => Community::Standard(StandardCommunity::from_raw(b.try_into().unwrap())),
        "16" => Community::Extended(ExtendedCommunity::from_raw(b.try_into().unwrap())),
        "25" => Community::Ipv6Extended(Ipv6ExtendedCommunity::from_raw(b.try_into().unwrap())),
        "32" => Community::Large(LargeCommunity::from_raw(b.try_into().unwrap())),
        _ => panic!("flavour"),
    }
}
fn comm_s(c: &Community) -> String {
    match c {
        Community::Standard(x) => format!("8.{}", hex(&x.to_raw())), Community::Extended(x) => format!("16.{}", hex(&x.to_raw())),
        Community::Ipv6Extended(x) => format!("25.{}", hex(&x.to_raw())), Community::Large(x) => format!("32.{}", hex(&x.to_raw())),
    }
}

fn map_case(ops: &str) -> String {
    let mut m = PaMap::empty();
    let mut ws = Ws::new(Ipv4UnicastNlri::try_from(inetnum::addr::Prefix::new("10.0.0.0".parse().unwrap(), 8).unwrap()).unwrap());
    let mut out = vec![];
    for op in ops.split(';').filter(|s| !s.is_empty()) {
        let (k, arg) = op.split_once(':').unwrap_or((op, ""));
        let r = guard(std::panic::AssertUnwindSafe(|| match k {
            "S" => { let pa = owned(arg).remove(0); opt(m.set_from_enum(pa)) }
            "A" => { let pa = owned(arg).remove(0); opt(m.add_attribute(pa).unwrap()) }
            "G" => { let c: u8 = arg.parse().unwrap(); by_code!(c, get_t, &m) }
            "R" => { let c: u8 = arg.parse().unwrap(); by_code!(c, rem_t, &mut m) }
            "M" => { let mut o = PaMap::empty(); for pa in owned(arg) { let _ = o.add_attribute(pa); } m.merge_upsert(&mut o); format!("other={}", o.len()) }
            "N" => { m.remove_non_transitives(); "ok".into() }
            "L" => dump(&m),
            "WS" => { let pa = owned(arg).remove(0); ws_set(&mut ws, pa) }
            "WG" => ws_get(&ws, arg.parse().unwrap()),
            "WC" => { let v: Vec<Community> = if arg == "-" { vec![] } else { arg.split(',').map(comm_of).collect() };
                      if ws.set_attr(v).is_ok() { "ok".into() } else { "err".into() } }
            "WR" => { match ws.get_attr::<Vec<Community>>() { None => "none".into(), Some(v) => { let s: Vec<String> = v.iter().map(comm_s).collect(); format!("[{}]", s.join(",")) } } }
            "WL" => dump(ws.attributes()),
            _ => panic!("op"),
        }));
        out.push(r.unwrap_or("PANIC".into()));
    }
    out.join("|")
}

fn nh_s(nh: &Option<NextHop>) -> String {
    fn ip(a: &std::net::IpAddr) -> String { match a { std::net::IpAddr::V4(x) => hex(&x.octets()), std::net::IpAddr::V6(x) => hex(&x.octets()) } }
    match nh {
        None => "none".into(),
        Some(NextHop::Unicast(a)) | Some(NextHop::Multicast(a)) => format!("uni:{}", ip(a)),
        Some(NextHop::Ipv6LL(a, b)) => format!("ll:{}:{}", hex(&a.octets()), hex(&b.octets())),
        Some(NextHop::MplsVpnUnicast(rd, a)) => format!("vpn:{}:{}", hex(rd.as_ref()), ip(a)),
        Some(NextHop::Empty) => "empty".into(),
        Some(NextHop::Unimplemented(_)) => "unimpl".into(),
    }
}

fn from_ws<T>(pdu: &'static UpdateMessage<Vec<u8>>) -> String
where T: NlriParse<'static, &'static [u8], Vec<u8>, Output = T> + AfiSafiNlri + Clone + std::fmt::Debug + std::hash::Hash
{
    // the first NLRI of type T in the message, if it parses
    let n = match pdu.typed_announcements::<_, T>() { Ok(Some(mut it)) => match it.next() { Some(Ok(n)) => n, _ => return "nonlri".into() }, _ => return "nonlri".into() };
    match RouteWorkshop::from_update_pdu(n, pdu) {
        Err(_) => "err".into(),
        Ok(ws) => format!("nh={} {}", nh_s(ws.nexthop()), dump(ws.attributes())),
    }
}

macro_rules! dispatch {
    ($fam:expr, $ap:expr, $f:ident, $($arg:expr),*) => {
        match ($fam, $ap) {
            ("Ipv4Unicast", false) => $f::<Ipv4UnicastNlri>($($arg),*), ("Ipv4Unicast", true) => $f::<Ipv4UnicastAddpathNlri>($($arg),*),
            ("Ipv4Multicast", false) => $f::<Ipv4MulticastNlri>($($arg),*), ("Ipv4Multicast", true) => $f::<Ipv4MulticastAddpathNlri>($($arg),*),
            ("Ipv6Unicast", false) => $f::<Ipv6UnicastNlri>($($arg),*), ("Ipv6Unicast", true) => $f::<Ipv6UnicastAddpathNlri>($($arg),*),
            ("Ipv6Multicast", false) => $f::<Ipv6MulticastNlri>($($arg),*), ("Ipv6Multicast", true) => $f::<Ipv6MulticastAddpathNlri>($($arg),*),
            ("Ipv4MplsUnicast", false) => $f::<Ipv4MplsUnicastNlri<&[u8]>>($($arg),*), ("Ipv4MplsUnicast", true) => $f::<Ipv4MplsUnicastAddpathNlri<&[u8]>>($($arg),*),
            ("Ipv6MplsUnicast", false) => $f::<Ipv6MplsUnicastNlri<&[u8]>>($($arg),*), ("Ipv6MplsUnicast", true) => $f::<Ipv6MplsUnicastAddpathNlri<&[u8]>>($($arg),*),
            ("Ipv4MplsVpnUnicast", false) => $f::<Ipv4MplsVpnUnicastNlri<&[u8]>>($($arg),*), ("Ipv4MplsVpnUnicast", true) => $f::<Ipv4MplsVpnUnicastAddpathNlri<&[u8]>>($($arg),*),
            ("Ipv6MplsVpnUnicast", false) => $f::<Ipv6MplsVpnUnicastNlri<&[u8]>>($($arg),*), ("Ipv6MplsVpnUnicast", true) => $f::<Ipv6MplsVpnUnicastAddpathNlri<&[u8]>>($($arg),*),
            ("Ipv4RouteTarget", false) => $f::<Ipv4RouteTargetNlri<&[u8]>>($($arg),*), ("Ipv4RouteTarget", true) => $f::<Ipv4RouteTargetAddpathNlri<&[u8]>>($($arg),*),
            ("Ipv4FlowSpec", false) => $f::<Ipv4FlowSpecNlri<&[u8]>>($($arg),*), ("Ipv4FlowSpec", true) => $f::<Ipv4FlowSpecAddpathNlri<&[u8]>>($($arg),*),
            ("Ipv6FlowSpec", false) => $f::<Ipv6FlowSpecNlri<&[u8]>>($($arg),*), ("Ipv6FlowSpec", true) => $f::<Ipv6FlowSpecAddpathNlri<&[u8]>>($($arg),*),
            ("L2VpnVpls", false) => $f::<L2VpnVplsNlri>($($arg),*), ("L2VpnVpls", true) => $f::<L2VpnVplsAddpathNlri>($($arg),*),
            ("L2VpnEvpn", false) => $f::<L2VpnEvpnNlri<&[u8]>>($($arg),*), ("L2VpnEvpn", true) => $f::<L2VpnEvpnAddpathNlri<&[u8]>>($($arg),*),
            _ => panic!("unknown family"),
        }
    };
}

fn from_case(four: bool, ap: &str, fam: &str, apf: bool, bytes: Vec<u8>) -> String {
    let sc = session_config(four, ap);
    let pdu = match guard(|| UpdateMessage::from_octets(bytes, &sc)) { None => return "parse=PANIC".into(), Some(Err(_)) => return "parse=E".into(), Some(Ok(p)) => p };
    let pdu: &'static UpdateMessage<Vec<u8>> = Box::leak(Box::new(pdu));
    let map = guard(|| PaMap::from_update_pdu(pdu));
    let map_s = match &map { None => "PANIC".to_string(), Some(Err(_)) => "err".to_string(), Some(Ok(m)) => dump(m) };
    // the compact form against the map, type by type
    let opa = guard(|| {
        let o = OwnedPathAttributes::from(pdu.path_attributes().unwrap());
        let codes = [1u8, 2, 3, 4, 5, 6, 7, 8, 9, 10, 16, 17, 18, 20, 21, 25, 32, 35, 128, 255];
        let v: Vec<String> = codes.iter().map(|c| format!("{}:{}", c, by_code!(*c, opa_t, &o))).filter(|s| !s.ends_with(":-")).collect();
        v.join(",")
    }).unwrap_or("PANIC".into());
    let ws = guard(|| dispatch!(fam, apf, from_ws, pdu)).unwrap_or("PANIC".into());
    format!("map={} opa=[{}] ws={}", map_s, opa, ws)
}

pub fn run(args: &[String]) {
    let stdout = std::io::stdout();
    let mut out = std::io::BufWriter::new(stdout.lock());
    for line in crate::util::read_lines(&args[0]) {
        let f: Vec<&str> = line.split_whitespace().collect();
        if f.is_empty() { continue; }
        let s = match f[0] {
            "MAP" => map_case(f.get(2).unwrap_or(&"")),
            "FROM" => from_case(f[2] == "1", f[3], f[4], f[5] == "1", unhex(f[6])),
            _ => panic!("bad case line"),
        };
        writeln!(out, "{} {} {}", f[0], f[1], s).unwrap();
    }
    out.flush().unwrap();
}
