// C05 / C14: NLRI parse / compose / compare / hash on the real crate.
//
// case lines:
//   ONE <id> <fam> <ap 0|1> <hex>          parse one NLRI from the front of the octets
//   CAT <id> <fam> <ap 0|1> <hex>          iterate NlriIter over the octets
//   CMP <id> <fam> <ap> <hex> <fam> <ap> <hex>     ==, cmp, hash of the two parsed values (as Nlri<_>)
use std::collections::hash_map::DefaultHasher;
use std::fmt::Debug;
use std::hash::{Hash, Hasher};
use std::io::Write;

use octseq::Parser;
use routecore::bgp::nlri::afisafi::*;
use routecore::bgp::ParseError;
use crate::util::{guard, hex, unhex};

pub const FAMS: [&str; 13] = ["Ipv4Unicast", "Ipv4Multicast", "Ipv4MplsUnicast", "Ipv4MplsVpnUnicast", "Ipv4RouteTarget",
    "Ipv4FlowSpec", "Ipv6Unicast", "Ipv6Multicast", "Ipv6MplsUnicast", "Ipv6MplsVpnUnicast", "Ipv6FlowSpec",
    "L2VpnVpls", "L2VpnEvpn"];

/// Hasher that records every octet written to it.
#[derive(Default)]
pub struct Rec(pub Vec<u8>);
impl Hasher for Rec {
    fn finish(&self) -> u64 { 0 }
    fn write(&mut self, bytes: &[u8]) { self.0.extend_from_slice(bytes); }
}

pub fn describe(n: &Nlri<&[u8]>) -> String {
    use routecore::bgp::nlri::afisafi::Nlri as N;
    fn pfx(p: inetnum::addr::Prefix) -> String {
        let a = match p.addr() { std::net::IpAddr::V4(a) => a.octets().to_vec(), std::net::IpAddr::V6(a) => a.octets().to_vec() };
        format!("{}:{}", p.len(), hex(&a))
    }
    macro_rules! pid { ($x:expr) => { format!("pid={}", Addpath::path_id($x).0) } }
    match n {
        N::Ipv4Unicast(x) => format!("pid=- P:{}", pfx(x.prefix())),
        N::Ipv4UnicastAddpath(x) => format!("{} P:{}", pid!(x), pfx(x.prefix())),
        N::Ipv4Multicast(x) => format!("pid=- P:{}", pfx(x.prefix())),
        N::Ipv4MulticastAddpath(x) => format!("{} P:{}", pid!(x), pfx(x.prefix())),
        N::Ipv6Unicast(x) => format!("pid=- P:{}", pfx(x.prefix())),
        N::Ipv6UnicastAddpath(x) => format!("{} P:{}", pid!(x), pfx(x.prefix())),
        N::Ipv6Multicast(x) => format!("pid=- P:{}", pfx(x.prefix())),
        N::Ipv6MulticastAddpath(x) => format!("{} P:{}", pid!(x), pfx(x.prefix())),
        N::Ipv4MplsUnicast(x) => format!("pid=- M:{}:{}", pfx(x.nlri().prefix()), hex(x.nlri().labels().as_ref())),
        N::Ipv4MplsUnicastAddpath(x) => format!("{} M:{}:{}", pid!(x), pfx(x.nlri().prefix()), hex(x.nlri().labels().as_ref())),
        N::Ipv6MplsUnicast(x) => format!("pid=- M:{}:{}", pfx(x.nlri().prefix()), hex(x.nlri().labels().as_ref())),
        N::Ipv6MplsUnicastAddpath(x) => format!("{} M:{}:{}", pid!(x), pfx(x.nlri().prefix()), hex(x.nlri().labels().as_ref())),
        N::Ipv4MplsVpnUnicast(x) => format!("pid=- V:{}:{}:{}", pfx(x.nlri().prefix()), hex(x.nlri().labels().as_ref()), hex(x.nlri().rd().as_ref())),
        N::Ipv4MplsVpnUnicastAddpath(x) => format!("{} V:{}:{}:{}", pid!(x), pfx(x.nlri().prefix()), hex(x.nlri().labels().as_ref()), hex(x.nlri().rd().as_ref())),
        N::Ipv6MplsVpnUnicast(x) => format!("pid=- V:{}:{}:{}", pfx(x.nlri().prefix()), hex(x.nlri().labels().as_ref()), hex(x.nlri().rd().as_ref())),
        N::Ipv6MplsVpnUnicastAddpath(x) => format!("{} V:{}:{}:{}", pid!(x), pfx(x.nlri().prefix()), hex(x.nlri().labels().as_ref()), hex(x.nlri().rd().as_ref())),
        N::Ipv4RouteTarget(x) => format!("pid=- R:{}", x.nlri().is_default() as u8),
        N::Ipv4RouteTargetAddpath(x) => format!("{} R:{}", pid!(x), x.nlri().is_default() as u8),
        N::Ipv4FlowSpec(x) => format!("pid=- F:{}", hex(x.nlri().raw())),
        N::Ipv4FlowSpecAddpath(x) => format!("{} F:{}", pid!(x), hex(x.nlri().raw())),
        N::Ipv6FlowSpec(x) => format!("pid=- F:{}", hex(x.nlri().raw())),
        N::Ipv6FlowSpecAddpath(x) => format!("{} F:{}", pid!(x), hex(x.nlri().raw())),
        N::L2VpnVpls(_) => "pid=- L".to_string(),
        N::L2VpnVplsAddpath(x) => format!("{} L", pid!(x)),
        N::L2VpnEvpn(x) => format!("pid=- E:{}", u8::from(x.nlri().route_type())),
        N::L2VpnEvpnAddpath(x) => format!("{} E:{}", pid!(x), u8::from(x.nlri().route_type())),
    }
}

fn handle<'a, T>(buf: &'a Vec<u8>) -> String
where
    T: NlriParse<'a, &'a [u8], Vec<u8>, Output = T> + NlriCompose + PartialEq + Debug + Clone,
    Nlri<&'a [u8]>: From<T>,
{
    let r = guard(|| { let mut p = Parser::from_ref(buf); let r = T::parse(&mut p); (r, p.pos()) });
    match r {
        None => "PANIC".into(),
        Some((Err(_), _)) => "E".into(),
        Some((Ok(v), consumed)) => {
            let en: Nlri<&[u8]> = v.clone().into();
            let desc = describe(&en);
            let comp = guard(|| { let mut out = Vec::new(); v.compose(&mut out).unwrap(); out });
            let clen = guard(|| v.compose_len());
            let (comp_s, rt) = match &comp {
                None => ("PANIC".to_string(), "-".to_string()),
                Some(c) => {
                    // re-parse what was composed (followed by two unrelated octets)
                    let mut again = c.clone(); again.extend_from_slice(&[0xde, 0xad]);
                    let again: &'static Vec<u8> = Box::leak(Box::new(again));
                    let r2 = guard(|| { let mut p = Parser::from_ref(again); let r = T::parse(&mut p); (r.ok(), p.pos()) });
                    let ok = match r2 {
                        Some((Some(v2), pos)) => {
                            // compare through the generic PartialEq of the enum (different lifetimes)
                            let e2: Nlri<&[u8]> = v2.into();
                            (e2 == en && pos == c.len()) as u8
                        }
                        _ => 0,
                    };
                    (hex(c), ok.to_string())
                }
            };
            format!("ok consumed={consumed} {desc} comp={comp_s} clen={} rt={rt}",
                    clen.map(|x| x.to_string()).unwrap_or("PANIC".into()))
        }
    }
}

macro_rules! dispatch {
    ($fam:expr, $ap:expr, $f:ident, $($arg:expr),*) => {
        match ($fam, $ap) {
            ("Ipv4Unicast", false) => $f::<Ipv4UnicastNlri>($($arg),*),
            ("Ipv4Unicast", true) => $f::<Ipv4UnicastAddpathNlri>($($arg),*),
            ("Ipv4Multicast", false) => $f::<Ipv4MulticastNlri>($($arg),*),
            ("Ipv4Multicast", true) => $f::<Ipv4MulticastAddpathNlri>($($arg),*),
            ("Ipv4MplsUnicast", false) => $f::<Ipv4MplsUnicastNlri<&[u8]>>($($arg),*),
            ("Ipv4MplsUnicast", true) => $f::<Ipv4MplsUnicastAddpathNlri<&[u8]>>($($arg),*),
            ("Ipv4MplsVpnUnicast", false) => $f::<Ipv4MplsVpnUnicastNlri<&[u8]>>($($arg),*),
            ("Ipv4MplsVpnUnicast", true) => $f::<Ipv4MplsVpnUnicastAddpathNlri<&[u8]>>($($arg),*),
            ("Ipv4RouteTarget", false) => $f::<Ipv4RouteTargetNlri<&[u8]>>($($arg),*),
            ("Ipv4RouteTarget", true) => $f::<Ipv4RouteTargetAddpathNlri<&[u8]>>($($arg),*),
            ("Ipv4FlowSpec", false) => $f::<Ipv4FlowSpecNlri<&[u8]>>($($arg),*),
            ("Ipv4FlowSpec", true) => $f::<Ipv4FlowSpecAddpathNlri<&[u8]>>($($arg),*),
            ("Ipv6Unicast", false) => $f::<Ipv6UnicastNlri>($($arg),*),
            ("Ipv6Unicast", true) => $f::<Ipv6UnicastAddpathNlri>($($arg),*),
            ("Ipv6Multicast", false) => $f::<Ipv6MulticastNlri>($($arg),*),
            ("Ipv6Multicast", true) => $f::<Ipv6MulticastAddpathNlri>($($arg),*),
            ("Ipv6MplsUnicast", false) => $f::<Ipv6MplsUnicastNlri<&[u8]>>($($arg),*),
            ("Ipv6MplsUnicast", true) => $f::<Ipv6MplsUnicastAddpathNlri<&[u8]>>($($arg),*),
            ("Ipv6MplsVpnUnicast", false) => $f::<Ipv6MplsVpnUnicastNlri<&[u8]>>($($arg),*),
            ("Ipv6MplsVpnUnicast", true) => $f::<Ipv6MplsVpnUnicastAddpathNlri<&[u8]>>($($arg),*),
            ("Ipv6FlowSpec", false) => $f::<Ipv6FlowSpecNlri<&[u8]>>($($arg),*),
            ("Ipv6FlowSpec", true) => $f::<Ipv6FlowSpecAddpathNlri<&[u8]>>($($arg),*),
            ("L2VpnVpls", false) => $f::<L2VpnVplsNlri>($($arg),*),
            ("L2VpnVpls", true) => $f::<L2VpnVplsAddpathNlri>($($arg),*),
            ("L2VpnEvpn", false) => $f::<L2VpnEvpnNlri<&[u8]>>($($arg),*),
            ("L2VpnEvpn", true) => $f::<L2VpnEvpnAddpathNlri<&[u8]>>($($arg),*),
            _ => panic!("unknown family"),
        }
    };
}

fn cat<'a, T>(buf: &'a Vec<u8>) -> String
where
    T: NlriParse<'a, &'a [u8], Vec<u8>, Output = T> + NlriCompose + Debug + Clone,
    Nlri<&'a [u8]>: From<T>,
{
    let cap = 4 * buf.len() + 64;
    let r = guard(|| {
        let it = NlriIter::<&[u8], Vec<u8>, T>::new(Parser::from_ref(buf));
        let mut items = vec![];
        for (i, x) in it.enumerate() {
            if i >= cap { items.push("HANG".to_string()); break; }
            match x {
                Ok(v) => { let mut out = Vec::new(); v.compose(&mut out).unwrap(); items.push(hex(&out)); }
                Err(_) => items.push("E".into()),
            }
        }
        items
    });
    match r { None => "PANIC".into(), Some(items) => format!("n={} {}", items.len(), items.join(",")) }
}

fn get<'a, T>(buf: &'a Vec<u8>) -> Option<Nlri<&'a [u8]>>
where
    T: NlriParse<'a, &'a [u8], Vec<u8>, Output = T>,
    Nlri<&'a [u8]>: From<T>,
{
    let mut p = Parser::from_ref(buf);
    T::parse(&mut p).ok().map(|v| v.into())
}

fn get_bytes(fam: &str, ap: bool, raw: &[u8]) -> Option<Nlri<bytes::Bytes>> {
    let b = bytes::Bytes::copy_from_slice(raw);
    let ty = nlri_type(fam, ap);
    // NlriEnumIter over a Bytes-backed parser
    let b: &'static bytes::Bytes = Box::leak(Box::new(b));
    let mut it = NlriEnumIter::new(Parser::from_ref(b), ty);
    it.next().and_then(|r| r.ok())
}

pub fn nlri_type(fam: &str, ap: bool) -> NlriType {
    let idx = FAMS.iter().position(|f| *f == fam).unwrap();
    let t = [AfiSafiType::Ipv4Unicast, AfiSafiType::Ipv4Multicast, AfiSafiType::Ipv4MplsUnicast,
        AfiSafiType::Ipv4MplsVpnUnicast, AfiSafiType::Ipv4RouteTarget, AfiSafiType::Ipv4FlowSpec,
        AfiSafiType::Ipv6Unicast, AfiSafiType::Ipv6Multicast, AfiSafiType::Ipv6MplsUnicast,
        AfiSafiType::Ipv6MplsVpnUnicast, AfiSafiType::Ipv6FlowSpec, AfiSafiType::L2VpnVpls, AfiSafiType::L2VpnEvpn][idx];
    NlriType::from((t, ap))
}

fn rec<T: Hash>(t: &T) -> Vec<u8> { let mut h = Rec::default(); t.hash(&mut h); h.0 }
fn sip<T: Hash>(t: &T) -> u64 { let mut h = DefaultHasher::new(); t.hash(&mut h); h.finish() }

pub fn run(args: &[String]) {
    let stdout = std::io::stdout();
    let mut out = std::io::BufWriter::new(stdout.lock());
    for l in crate::util::read_lines(&args[0]) {
        let f: Vec<&str> = l.split_whitespace().collect();
        if f.is_empty() { continue; }
        match f[0] {
            "ONE" => {
                let buf: &'static Vec<u8> = Box::leak(Box::new(unhex(f[4])));
                let s = dispatch!(f[2], f[3] == "1", handle, buf);
                writeln!(out, "ONE {} {s}", f[1]).unwrap();
            }
            "CAT" => {
                let buf: &'static Vec<u8> = Box::leak(Box::new(unhex(f[4])));
                let s = dispatch!(f[2], f[3] == "1", cat, buf);
                writeln!(out, "CAT {} {s}", f[1]).unwrap();
            }
            "CMP" => {
                let b1: &'static Vec<u8> = Box::leak(Box::new(unhex(f[4])));
                let b2: &'static Vec<u8> = Box::leak(Box::new(unhex(f[7])));
                let a = dispatch!(f[2], f[3] == "1", get, b1);
                let b = dispatch!(f[5], f[6] == "1", get, b2);
                match (a, b) {
                    (Some(a), Some(b)) => {
                        let r = guard(|| {
                            let eq = a == b;
                            let c = a.cmp(&b);
                            let (ha, hb) = (rec(&a), rec(&b));
                            let heq = sip(&a) == sip(&b);
                            // the same octets held by a different buffer type
                            let ab = get_bytes(f[2], f[3] == "1", b1);
                            let xbuf = match &ab { Some(x) => (*x == a) as u8, None => 2 };
                            let xeq = match &ab { Some(x) => (*x == b) as u8, None => 2 };
                            let hx = ab.as_ref().map(|x| rec(x) == ha).unwrap_or(false);
                            format!("eq={} cmp={} heq={} xbuf={} xeq={} xhash={} h1={} h2={}", eq as u8,
                                match c { std::cmp::Ordering::Less => "Lt", std::cmp::Ordering::Equal => "Eq", _ => "Gt" },
                                heq as u8, xbuf, xeq, hx as u8, hex(&ha), hex(&hb))
                        });
                        writeln!(out, "CMP {} {}", f[1], r.unwrap_or("PANIC".into())).unwrap();
                    }
                    _ => { writeln!(out, "CMP {} UNPARSED", f[1]).unwrap(); }
                }
            }
            _ => {}
        }
    }
    out.flush().unwrap();
}
